(* Refinement: the MiniC program regenerated from src/hydrodiy/stat/c_crps.c
   (Gen/KernelsAst.v: c_crps and its qsort comparator "c_crps.compare") computes, for ALL
   inputs admitted by the Cython wrapper, what the hand-written model of Model/Crps.v
   computes.

   PART 1  the comparator and the sort
     compare_run        what compare(&a,&b) returns, for ALL doubles (NaN included)
     qsort_compare      the qsort statement = the pure merge sort [ksort] (all data)
     ksort_sort         on a total preorder (no NaN) [ksort] IS the insertion sort [sort]
                        of the model: the same list (both sorts are stable), not only ==
   PART 2  the inner loops (L1 init, L2a copy, L2b bins + EDOM, L2c uncertainty)
   PART 3  the loop over the forecasts (L2) and the loop over the bins (L3)
   PART 4  the theorems
     refine_c_crps_all  ALL inputs (NaN included): kernel = model run with the kernel's
                        own sort ([crps_with]); error return <-> [None]
     refine_c_crps      no NaN in the ensembles: kernel = [crps] of Model/Crps.v
     refine_c_crps_ok   ... and then the error return is unreachable (returns 0)
     refine_c_crps_RR / _RN   the instances over the reals
     finding_nan_member a wrapper-admissible input (a NaN member) on which the kernel and
                        the model differ (binary64, by computation)

   Every theorem about [exec_fun] is also a memory-safety theorem for the kernel (the
   interpreter checks every array access) under the stated buffer lengths. *)
From Coq Require Import ZArith Bool List String Lia Reals Arith PeanoNat.
From Hy Require Import Base.Num Base.MiniC Gen.ConstsC03 Gen.KernelsAst Model.Crps.
Import ListNotations.
Open Scope string_scope.
Open Scope list_scope.
Open Scope Z_scope.

(* ################################################################## *)
(* PART 1: the comparator and the sort                                  *)
(* ################################################################## *)

(* ================================================================== *)
(* Generic helpers about MiniC's qsort (candidates for Base/MiniC.v)    *)
(* ================================================================== *)

Section PureSort.
Context {A : Type}.
Variable leb : A -> A -> bool.

(* glibc's merge: the left element is taken when cmp <= 0 *)
Fixpoint pmerge (l1 : list A) : list A -> list A :=
  fix aux (l2 : list A) : list A :=
    match l1, l2 with
    | [], _ => l2
    | _, [] => l1
    | x :: r1, y :: r2 => if leb x y then x :: pmerge r1 l2 else y :: aux r2
    end.

Lemma pmerge_nil_r l : pmerge l [] = l.
Proof. destruct l; reflexivity. Qed.
Lemma pmerge_nil_l l : pmerge [] l = l.
Proof. destruct l; reflexivity. Qed.
Lemma pmerge_cons x r1 y r2 :
  pmerge (x :: r1) (y :: r2) = if leb x y then x :: pmerge r1 (y :: r2) else y :: pmerge (x :: r1) r2.
Proof. reflexivity. Qed.

Lemma pmerge_length l1 : forall l2, List.length (pmerge l1 l2) = (List.length l1 + List.length l2)%nat.
Proof.
  induction l1 as [|x r1 IH1]; intros l2; [rewrite pmerge_nil_l; reflexivity|].
  induction l2 as [|y r2 IH2]; [rewrite pmerge_nil_r; cbn; lia|].
  rewrite pmerge_cons. destruct (leb x y); cbn [List.length].
  - rewrite IH1. cbn. lia.
  - rewrite IH2. cbn. lia.
Qed.

Lemma pmerge_Forall (P : A -> Prop) l1 : forall l2,
  Forall P l1 -> Forall P l2 -> Forall P (pmerge l1 l2).
Proof.
  induction l1 as [|x r1 IH1]; intros l2 H1 H2; [rewrite pmerge_nil_l; exact H2|].
  induction l2 as [|y r2 IH2]; [rewrite pmerge_nil_r; exact H1|].
  rewrite pmerge_cons. destruct (leb x y).
  - constructor; [inversion H1; assumption|]. apply IH1; [inversion H1; assumption|exact H2].
  - constructor; [inversion H2; assumption|]. apply IH2. inversion H2; assumption.
Qed.

(* glibc's msort_with_tmp: halves n/2 and n - n/2 *)
Fixpoint pmsort (fuel : nat) (l : list A) : list A :=
  match fuel with
  | O => l
  | S f =>
      let n := List.length l in
      if Nat.leb n 1 then l
      else pmerge (pmsort f (firstn (Nat.div2 n) l)) (pmsort f (skipn (Nat.div2 n) l))
  end.

Lemma pmsort_length fuel : forall l, List.length (pmsort fuel l) = List.length l.
Proof.
  induction fuel as [|f IH]; intros l; [reflexivity|].
  cbn [pmsort]. destruct (Nat.leb (List.length l) 1); [reflexivity|].
  rewrite pmerge_length, !IH, <- app_length, firstn_skipn. reflexivity.
Qed.

Lemma pmsort_Forall (P : A -> Prop) fuel : forall l, Forall P l -> Forall P (pmsort fuel l).
Proof.
  induction fuel as [|f IH]; intros l H; [exact H|].
  cbn [pmsort]. destruct (Nat.leb (List.length l) 1); [exact H|].
  rewrite <- (firstn_skipn (Nat.div2 (List.length l)) l) in H.
  apply Forall_app in H. destruct H as [H1 H2].
  apply pmerge_Forall; apply IH; assumption.
Qed.

(* the monadic merge sort of MiniC, on the image of [f], with a comparator that
   succeeds on every pair and whose sign is [leb] *)
Context {B : Type}.
Variable f : A -> B.
Variable cmp : B -> B -> result Z.
Hypothesis cmp_ok : forall x y, exists c, cmp (f x) (f y) = Ok c /\ (c <=? 0) = leb x y.

Lemma mergeM_pure : forall fuel l1 l2,
  (List.length l1 + List.length l2 < fuel)%nat ->
  mergeM cmp fuel (map f l1) (map f l2) = Ok (map f (pmerge l1 l2)).
Proof.
  induction fuel as [|fu IH]; intros l1 l2 Hf; [lia|].
  destruct l1 as [|x r1]; [rewrite pmerge_nil_l; reflexivity|].
  destruct l2 as [|y r2]; [reflexivity|].
  rewrite pmerge_cons. cbn [map mergeM].
  destruct (cmp_ok x y) as (c & Hc & Hs). rewrite Hc. cbn [bind]. rewrite Hs.
  destruct (leb x y).
  - change (f y :: map f r2) with (map f (y :: r2)). rewrite IH by (cbn in *; lia). reflexivity.
  - change (f x :: map f r1) with (map f (x :: r1)). rewrite IH by (cbn in *; lia). reflexivity.
Qed.

Lemma msortM_pure : forall fuel l,
  (List.length l < fuel)%nat ->
  msortM cmp fuel (map f l) = Ok (map f (pmsort fuel l)).
Proof.
  induction fuel as [|fu IH]; intros l Hf; [lia|].
  cbn [msortM pmsort]. rewrite map_length.
  destruct (Nat.leb_spec (List.length l) 1) as [Hle|Hgt]; [reflexivity|].
  assert (Hd : (Nat.div2 (List.length l) < List.length l)%nat) by (apply Nat.lt_div2; lia).
  assert (Hd0 : (0 < Nat.div2 (List.length l))%nat).
  { destruct (List.length l) as [|[|k]]; cbn; lia. }
  rewrite firstn_map, skipn_map.
  rewrite IH by (rewrite firstn_length; lia). cbn [bind].
  rewrite IH by (rewrite skipn_length; lia). cbn [bind].
  apply mergeM_pure.
  rewrite !pmsort_length, <- app_length, firstn_skipn. lia.
Qed.

End PureSort.

Lemma chunks_one {A} (n : nat) : forall (l r : list A), List.length l = n ->
  chunks 1 n (l ++ r) = map (fun x => [x]) l.
Proof.
  induction n as [|n IH]; intros l r H.
  - destruct l; [reflexivity|discriminate].
  - destruct l as [|x l]; [discriminate|]. cbn [chunks app map firstn skipn].
    rewrite IH by (cbn in H; lia). reflexivity.
Qed.

Lemma concat_singletons {A} (l : list A) : List.concat (map (fun x => [x]) l) = l.
Proof. induction l as [|x l IH]; [reflexivity|]. cbn. rewrite IH. reflexivity. Qed.

(* ================================================================== *)

Section Compare.
Context {T : Type} (N : NumOps T) (X : NumLit T).

(* the value returned by  compare(&a, &b)  of c_crps.c *)
Definition cmpz (a b : T) : Z :=
  if nltb N b a then 1 else if neqb N a b then 0 else if nltb N a b then -1 else 0.

(* for ALL a, b (NaN included) *)
Lemma compare_run n a b :
  exec_fun N X program (S n) "c_crps.compare" [AVArrF [a]; AVArrF [b]]
  = Ok (RI (cmpz a b), [VArrF [a]; VArrF [b]]).
Proof.
  unfold cmpz. cbn. rewrite truth_b2z.
  destruct (nltb N b a); cbn; [reflexivity|].
  rewrite truth_b2z. destruct (neqb N a b); cbn; [reflexivity|].
  rewrite truth_b2z. destruct (nltb N a b); cbn; reflexivity.
Qed.

Lemma cmpz_sign a b : (cmpz a b <=? 0) = negb (nltb N b a).
Proof.
  unfold cmpz. destruct (nltb N b a); [reflexivity|].
  destruct (neqb N a b); [reflexivity|]. destruct (nltb N a b); reflexivity.
Qed.

(* the order used by qsort with this comparator: "not a > b" *)
Definition kleb (a b : T) : bool := negb (nltb N b a).

(* the sort performed by  qsort(ensemb, ncol, sizeof(double), compare) *)
Definition ksort (e : list T) : list T := pmsort kleb (S (List.length e)) e.

Lemma ksort_length e : List.length (ksort e) = List.length e.
Proof. apply pmsort_length. Qed.

(* the qsort statement, for every content of the buffer (NaN included) *)
Lemma qsort_compare (callf : callee T) (name : string) (e rest : list T) :
  (forall a b, callf "c_crps.compare" [AVArrF [a]; AVArrF [b]]
               = Ok (RI (cmpz a b), [VArrF [a]; VArrF [b]])) ->
  qsort_list callf "c_crps.compare" AVArrF name (Z.of_nat (List.length e)) 1 (e ++ rest)
  = Ok (ksort e ++ rest).
Proof.
  intros Hc. unfold qsort_list.
  replace (Z.of_nat (List.length e) <? 0) with false by (symmetry; apply Z.ltb_ge; lia).
  change (1 <? 1) with false. cbn [orb].
  replace (zlen (e ++ rest) <? Z.of_nat (List.length e) * 1) with false
    by (symmetry; apply Z.ltb_ge; rewrite zlen_eq, app_length; lia).
  change (Z.to_nat 1) with 1%nat. rewrite Nat2Z.id.
  rewrite (chunks_one (List.length e) e rest eq_refl).
  rewrite (msortM_pure kleb (fun x => [x]) (cmp_call callf "c_crps.compare" AVArrF)).
  - cbn [bind]. rewrite concat_singletons.
    replace (Z.to_nat (Z.of_nat (List.length e) * 1)) with (List.length e) by lia.
    rewrite skipn_app, skipn_all, Nat.sub_diag. reflexivity.
  - intros x y. exists (cmpz x y). unfold cmp_call. rewrite Hc. cbn. split; [reflexivity|].
    apply cmpz_sign.
  - lia.
Qed.

(* ---- on a total preorder, the merge sort is the insertion sort of the model ---- *)

(* the laws of <= and < needed on the data (P = "is a number") *)
Definition ord_laws (P : T -> Prop) : Prop :=
  (forall x y, P x -> P y -> nltb N y x = negb (nleb N x y)) /\
  (forall x y, P x -> P y -> nleb N x y = false -> nleb N y x = true) /\
  (forall x y z, P x -> P y -> P z -> nleb N x y = true -> nleb N y z = true -> nleb N x z = true).

Section Laws.
Variable P : T -> Prop.
Hypothesis HO : ord_laws P.

Lemma kleb_nleb x y : P x -> P y -> kleb x y = nleb N x y.
Proof. intros Hx Hy. unfold kleb. destruct HO as (H1 & _ & _). rewrite H1 by assumption. apply negb_involutive. Qed.

Lemma insert_Forall x l : P x -> Forall P l -> Forall P (insert N x l).
Proof.
  intros Hx. induction 1 as [|y l Hy Hl IH]; cbn [insert]; [repeat constructor; exact Hx|].
  destruct (nleb N x y); repeat constructor; assumption.
Qed.

Lemma sort_Forall l : Forall P l -> Forall P (sort N l).
Proof.
  induction 1 as [|x l Hx Hl IH]; [constructor|]. cbn [sort fold_right].
  apply insert_Forall; assumption.
Qed.

(* merging commutes with the insertion on the left: this is stability *)
Lemma pmerge_insert x a : P x -> Forall P a -> forall b, Forall P b ->
  pmerge kleb (insert N x a) b = insert N x (pmerge kleb a b).
Proof.
  destruct HO as (_ & Htot & Htr).
  intros Hx Ha. induction Ha as [|a0 a' Ha0 Ha' IHa]; intros b Hb.
  - rewrite pmerge_nil_l. cbn [insert].
    induction Hb as [|b0 b' Hb0 Hb' IHb]; [reflexivity|].
    rewrite pmerge_cons, kleb_nleb by assumption. cbn [insert].
    destruct (nleb N x b0); [rewrite pmerge_nil_l; reflexivity|]. rewrite IHb. reflexivity.
  - induction Hb as [|b0 b' Hb0 Hb' IHb]; [rewrite !pmerge_nil_r; reflexivity|].
    cbn [insert]. rewrite (pmerge_cons kleb a0 a' b0 b'), (kleb_nleb a0 b0) by assumption.
    destruct (nleb N x a0) eqn:Exa; destruct (nleb N a0 b0) eqn:Eab.
    + (* x <= a0 <= b0 *)
      assert (Exb : nleb N x b0 = true) by (eapply (Htr x a0 b0); eassumption).
      rewrite pmerge_cons, kleb_nleb, Exb by assumption. cbn [insert]. rewrite Exa.
      rewrite pmerge_cons, kleb_nleb, Eab by assumption. reflexivity.
    + (* x <= a0, b0 < a0 *)
      rewrite pmerge_cons, kleb_nleb by assumption. cbn [insert].
      destruct (nleb N x b0) eqn:Exb.
      * rewrite pmerge_cons, kleb_nleb, Eab by assumption. reflexivity.
      * f_equal. rewrite <- IHb. cbn [insert]. rewrite Exa. reflexivity.
    + (* a0 < x, a0 <= b0 *)
      rewrite pmerge_cons, kleb_nleb, Eab by assumption. cbn [insert]. rewrite Exa.
      f_equal. apply IHa. constructor; assumption.
    + (* a0 < x, b0 < a0 *)
      rewrite pmerge_cons, kleb_nleb, Eab by assumption. cbn [insert].
      assert (Exb : nleb N x b0 = false).
      { destruct (nleb N x b0) eqn:E; [|reflexivity].
        assert (Hba : nleb N b0 a0 = true) by (apply Htot; assumption).
        rewrite (Htr x b0 a0 Hx Hb0 Ha0 E Hba) in Exa. discriminate. }
      rewrite Exb. f_equal. rewrite <- IHb. cbn [insert]. rewrite Exa. reflexivity.
Qed.

Lemma pmerge_sort l1 : Forall P l1 -> forall b, Forall P b ->
  pmerge kleb (sort N l1) b = fold_right (insert N) b l1.
Proof.
  induction 1 as [|x l1 Hx Hl IH]; intros b Hb; [apply pmerge_nil_l|].
  cbn [sort fold_right]. rewrite pmerge_insert; [|exact Hx|apply sort_Forall; exact Hl|exact Hb].
  f_equal. apply IH. exact Hb.
Qed.

Lemma pmsort_sort : forall fuel l, (List.length l < fuel)%nat -> Forall P l ->
  pmsort kleb fuel l = sort N l.
Proof.
  induction fuel as [|f IH]; intros l Hf Hl; [lia|].
  cbn [pmsort]. destruct (Nat.leb_spec (List.length l) 1) as [Hle|Hgt].
  - destruct l as [|x [|y l]]; [reflexivity|reflexivity|cbn in Hle; lia].
  - assert (Hd : (Nat.div2 (List.length l) < List.length l)%nat) by (apply Nat.lt_div2; lia).
    assert (Hd0 : (0 < Nat.div2 (List.length l))%nat).
    { destruct (List.length l) as [|[|k]]; cbn; lia. }
    pose proof (firstn_skipn (Nat.div2 (List.length l)) l) as Hsplit.
    assert (HF := Hl). rewrite <- Hsplit in HF. apply Forall_app in HF. destruct HF as [H1 H2].
    rewrite (IH (firstn (Nat.div2 (List.length l)) l)); [|rewrite firstn_length; lia|exact H1].
    rewrite (IH (skipn (Nat.div2 (List.length l)) l)); [|rewrite skipn_length; lia|exact H2].
    rewrite pmerge_sort; [|assumption|apply sort_Forall; assumption].
    transitivity (sort N (firstn (Nat.div2 (List.length l)) l ++ skipn (Nat.div2 (List.length l)) l));
      [|rewrite Hsplit; reflexivity].
    unfold sort. rewrite fold_right_app. reflexivity.
Qed.

Theorem ksort_sort e : Forall P e -> ksort e = sort N e.
Proof. intros H. unfold ksort. apply pmsort_sort; [apply Nat.lt_succ_diag_r|exact H]. Qed.

End Laws.
End Compare.

(* ---- the laws hold over the reals, and over the reals with a missing value ---- *)

Lemma ord_laws_RR : ord_laws RR (fun _ => True).
Proof.
  split; [|split].
  - intros x y _ _. cbn. destruct (Rleb x y) eqn:E.
    + apply Rleb_true in E. apply Rltb_false. exact E.
    + apply Rleb_false in E. apply Rltb_true. exact E.
  - intros x y _ _ E. cbn in *. apply Rleb_false in E. apply Rleb_true. apply Rlt_le. exact E.
  - intros x y z _ _ _ E1 E2. cbn in *. apply Rleb_true in E1, E2. apply Rleb_true.
    eapply Rle_trans; eassumption.
Qed.

Lemma ord_laws_RN : ord_laws RN (fun x => nisnan RN x = false).
Proof.
  split; [|split].
  - intros [x|] [y|] Hx Hy; try discriminate. apply (proj1 ord_laws_RR x y I I).
  - intros [x|] [y|] Hx Hy; try discriminate. apply (proj1 (proj2 ord_laws_RR) x y I I).
  - intros [x|] [y|] [z|] Hx Hy Hz; try discriminate. apply (proj2 (proj2 ord_laws_RR) x y z I I I).
Qed.

(* ################################################################## *)
(* PART 2: the inner loops                                              *)
(* ################################################################## *)
From Coq Require Import PrimFloat.

(* ================================================================== *)
(* Generic helpers (candidates for Base/MiniC.v)                        *)
(* ================================================================== *)

(* sub-statements of a translated function, by position (so that the loop lemmas
   are stated about the REGENERATED text, not about a copy of it) *)
Definition fun_body (f : fundef) : stmt :=
  match f with Fun _ b => b | Untranslated _ => SSkip end.
Fixpoint seq_nth (k : nat) (s : stmt) : stmt :=
  match k, s with
  | O, SSeq a _ => a
  | O, a => a
  | S k', SSeq _ b => seq_nth k' b
  | S _, _ => SSkip
  end.
Definition for_c (s : stmt) : iexp := match s with SFor c _ _ => c | _ => IConst 0 end.
Definition for_s (s : stmt) : stmt := match s with SFor _ st _ => st | _ => SSkip end.
Definition for_b (s : stmt) : stmt := match s with SFor _ _ b => b | _ => SSkip end.

(* what [exec] makes of a [SFor] *)
Definition run_for {T} (N : NumOps T) (X : NumLit T) (callf : callee T) (n : nat) (s : stmt)
           (st : state T) : result (outcome T * state T) :=
  loop n (cond_of N X (for_c s))
    (for_body (exec N X callf n (for_b s)) (exec N X callf n (for_s s))) st.

(* replace the first loop of the goal by the left-hand side of [H : run_for .. = ..]
   (convertible) and rewrite *)
Ltac rewrite_loop H :=
  match type of H with
  | ?L = _ =>
      match goal with
      | |- context[loop ?n ?c ?b ?s] => change (loop n c b s) with L; rewrite H
      end
  end.

(* anti-unification as [merge_terms] of Base/MiniC.v, but falling back to a coarser
   [if] when the finer one is ill-typed (e.g. [f x y] against [g z]) *)
Ltac merge_terms2 b A B :=
  lazymatch A with
  | B => A
  | ?f ?x =>
      lazymatch B with
      | ?g ?y =>
          match constr:(Set) with
          | _ => let fg := merge_terms2 b f g in
                 let xy := merge_terms2 b x y in
                 constr:(fg xy)
          | _ => constr:(if b then A else B)
          end
      | _ => constr:(if b then A else B)
      end
  | _ => constr:(if b then A else B)
  end.

(* [merge_if] of Base/MiniC.v, after normalising the two states (only them: the
   continuation, which runs on a bound state, is left alone) *)
Ltac merge_if_st :=
  match goal with
  | |- context[if ?b then Ok (?o, ?A) else Ok (?o, ?B)] =>
      let A' := eval cbv [set_i set_f set_ai set_af aupd s_i s_f s_ai s_af
                          String.eqb Ascii.eqb Bool.eqb] in A in
      let B' := eval cbv [set_i set_f set_ai set_af aupd s_i s_f s_ai s_af
                          String.eqb Ascii.eqb Bool.eqb] in B in
      let t := merge_terms2 b A' B' in
      replace (if b then Ok (o, A) else Ok (o, B)) with (Ok (o, t)) by (destruct b; reflexivity)
  end.

Lemma new_arr_zero {A} name (m : nat) (z : A) :
  new_arr name (Z.of_nat m + 1) z [] = Ok (repeat z (S m)).
Proof.
  unfold new_arr.
  replace (Z.of_nat m + 1 <? 0) with false by (symmetry; apply Z.ltb_ge; lia).
  cbn [zlen].
  replace (Z.of_nat m + 1 <? 0) with false by (symmetry; apply Z.ltb_ge; lia).
  rewrite zrepeat_eq. replace (Z.to_nat (Z.of_nat m + 1 - 0)) with (S m) by lia. reflexivity.
Qed.

Lemma zset_repeat_same {A} (x : A) (n : nat) (i : Z) :
  0 <= i < Z.of_nat n -> zset (repeat x n) i x = Some (repeat x n).
Proof.
  revert i; induction n as [|n IH]; intros i H; [lia|].
  cbn [repeat zset]. destruct (Z.eqb_spec i 0); [reflexivity|].
  rewrite IH by lia. reflexivity.
Qed.

Lemma zget_repeat {A} (x : A) (n : nat) (i : Z) :
  0 <= i < Z.of_nat n -> zget (repeat x n) i = Some x.
Proof.
  revert i; induction n as [|n IH]; intros i H; [lia|].
  cbn [repeat zget]. destruct (Z.eqb_spec i 0); [reflexivity|]. apply IH. lia.
Qed.

Lemma skipn_cons_nth {A} (l : list A) k :
  (k < List.length l)%nat -> exists x, skipn k l = x :: skipn (S k) l.
Proof.
  revert k; induction l as [|a l IH]; intros k H; cbn in H; [lia|].
  destruct k as [|k]; [exists a; reflexivity|].
  destruct (IH k) as (x & E); [lia|]. exists x. cbn [skipn]. exact E.
Qed.

Lemma repeat_snoc {A} (x : A) k : repeat x k ++ [x] = repeat x (S k).
Proof. induction k as [|k IH]; [reflexivity|]. cbn [repeat app]. rewrite IH. reflexivity. Qed.

(* an array accessed at its two ends: head, middle, last (kept folded under cbn) *)
Definition hml {A} (h : A) (mid : list A) (l : A) : list A := h :: mid ++ [l].

Lemma hml_get0 {A} (h : A) mid l : zget (hml h mid l) 0 = Some h.
Proof. reflexivity. Qed.
Lemma hml_set0 {A} (h : A) mid l v : zset (hml h mid l) 0 v = Some (hml v mid l).
Proof. reflexivity. Qed.
Lemma hml_getN {A} (h : A) mid l i :
  i = Z.of_nat (S (List.length mid)) -> zget (hml h mid l) i = Some l.
Proof.
  intros ->. unfold hml. rewrite zget_cons by lia.
  apply zget_app. lia.
Qed.
Lemma hml_setN {A} (h : A) mid l i v :
  i = Z.of_nat (S (List.length mid)) -> zset (hml h mid l) i v = Some (hml h mid v).
Proof.
  intros ->. unfold hml. rewrite zset_cons by lia.
  rewrite zset_app by lia. reflexivity.
Qed.
Lemma hml_length {A} (h : A) mid l : List.length (hml h mid l) = S (S (List.length mid)).
Proof. unfold hml. cbn. rewrite app_length. cbn. lia. Qed.
Lemma hml_repeat {A} (x : A) k : repeat x (S (S k)) = hml x (repeat x k) x.
Proof. unfold hml. rewrite repeat_snoc. reflexivity. Qed.

Lemma concat_length_const {A} (m : nat) (ll : list (list A)) :
  Forall (fun l => List.length l = m) ll -> List.length (List.concat ll) = (m * List.length ll)%nat.
Proof.
  induction 1 as [|l ll Hl _ IH]; [cbn; lia|]. cbn [List.concat List.length].
  rewrite app_length, IH, Hl. lia.
Qed.

(* ================================================================== *)

#[local] Arguments hml : simpl never.
#[local] Arguments qsort_list : simpl never.
#[local] Arguments fold_left : simpl never.
#[local] Arguments repeat : simpl never.

Section Refine.
Context {T : Type} (N : NumOps T) (X : NumLit T).

(* the four facts about the arithmetic that connect the C literals with the
   constants of the model (each holds by [reflexivity] in F64; see the end of the
   file for RR) *)
Definition lits_ok : Prop :=
  nofZ N 0 = n0 N /\ nofZ N 1 = n1 N /\
  nlit X 0%float 0 1 = n0 N /\ nlit X 0x1p+0%float 1 1 = n1 N.

(* ---- the statements of the kernel ---- *)
Definition crps_body : stmt := Eval cbv in fun_body c_crps_def.
Definition L1 : stmt := Eval cbv in seq_nth 21 crps_body.   (* for(j<ncol+1) a=b=g=o=0 *)
Definition L2 : stmt := Eval cbv in seq_nth 23 crps_body.   (* for(i<nval) *)
Definition L3 : stmt := Eval cbv in seq_nth 27 crps_body.   (* for(j<ncol+1) table *)
Definition L2a : stmt := Eval cbv in seq_nth 1 (for_b L2).  (* ensemb[j] = sim[ncol*i+j] *)
Definition L2b : stmt := Eval cbv in seq_nth 6 (for_b L2).  (* bins *)
Definition L2c : stmt := Eval cbv in seq_nth 12 (for_b L2). (* uncertainty *)

Definition cr_state (nval ncol uw isrt i j k : Z) (w wk pot pj unc dobs : T)
           (obs sim wv rt dec ens a b g o r c : list T) : state T :=
  {| s_i := [("nval", nval); ("ncol", ncol); ("use_weights", uw); ("is_sorted", isrt);
             ("i", i); ("j", j); ("k", k); ("ncol_rt", 7)];
     s_f := [("weight", w); ("weight_k", wk); ("crps_potential", pot); ("pj", pj);
             ("uncertainty", unc); ("delta_obs", dobs)];
     s_ai := [];
     s_af := [("obs", obs); ("sim", sim); ("weights_vector", wv); ("reliability_table", rt);
              ("crps_decompos", dec); ("ensemb", ens); ("a", a); ("b", b); ("g", g); ("o", o);
              ("r", r); ("c", c)] |}.

(* ---- loop 1: for(j=0;j<ncol+1;j++) a[j]=b[j]=g[j]=o[j]=0 (the arrays are already zero) ---- *)
Lemma L1_run (callf : callee T) n nval (m : nat) uw isrt i k w wk pot pj unc dobs
      obs sim wv rt dec ens r c :
  nofZ N 0 = n0 N -> (S m < n)%nat ->
  let z := repeat (n0 N) (S m) in
  run_for N X callf n L1
    (cr_state nval (Z.of_nat m) uw isrt i 0 k w wk pot pj unc dobs obs sim wv rt dec ens z z z z r c)
  = Ok (ONormal,
        cr_state nval (Z.of_nat m) uw isrt i (Z.of_nat (S m)) k w wk pot pj unc dobs
                 obs sim wv rt dec ens z z z z r c).
Proof.
  intros HZ Hn z. unfold run_for, L1. cbn [for_c for_b for_s].
  apply (loop_rule_eq
           (fun j st => (j <= S m)%nat /\
              st = cr_state nval (Z.of_nat m) uw isrt i (Z.of_nat j) k w wk pot pj unc dobs
                            obs sim wv rt dec ens z z z z r c) _ (S m)).
  - intros j st (Hj & ->). split; [exact Hj|].
    unfold cr_state. cbn.
    destruct (Z.ltb_spec (Z.of_nat j) (Z.of_nat m + 1)) as [Hlt|Hge]; cbn.
    + rewrite HZ. subst z. rewrite !zset_repeat_same by lia. cbn.
      rewrite !zset_repeat_same by lia. cbn. rewrite !zset_repeat_same by lia. cbn.
      rewrite !zset_repeat_same by lia. cbn.
      split; [lia|]. norm_state. unfold cr_state.
      replace (Z.of_nat j + 1) with (Z.of_nat (S j)) by lia. reflexivity.
    + replace j with (S m) by lia. reflexivity.
  - split; [lia|reflexivity].
  - lia.
Qed.

(* ---- loop 2a: for(j=0;j<ncol;j++) ensemb[j] = sim[ncol*i+j] ---- *)
Lemma L2a_run (callf : callee T) n nval (m : nat) uw isrt i k w wk pot pj unc dobs
      obs sim wv rt dec a b g o r c simd e simt eold rest :
  sim = simd ++ e ++ simt -> Z.of_nat (List.length simd) = Z.of_nat m * i ->
  List.length e = m -> List.length eold = m -> (m < n)%nat ->
  run_for N X callf n L2a
    (cr_state nval (Z.of_nat m) uw isrt i 0 k w wk pot pj unc dobs obs sim wv rt dec
              (eold ++ rest) a b g o r c)
  = Ok (ONormal,
        cr_state nval (Z.of_nat m) uw isrt i (Z.of_nat m) k w wk pot pj unc dobs obs sim wv rt dec
                 (e ++ rest) a b g o r c).
Proof.
  intros Hsim Hsd He Heo Hn. unfold run_for, L2a. cbn [for_c for_b for_s].
  apply (loop_rule_eq
           (fun j st => exists ed et, e = ed ++ et /\ List.length ed = j /\
              st = cr_state nval (Z.of_nat m) uw isrt i (Z.of_nat j) k w wk pot pj unc dobs
                            obs sim wv rt dec (ed ++ skipn j eold ++ rest) a b g o r c) _ m).
  - intros j st (ed & et & Hed & Hj & ->).
    assert (Hm : m = (j + List.length et)%nat) by (rewrite <- He, Hed, app_length; lia).
    split; [lia|].
    destruct et as [|x et].
    + rewrite app_nil_r in Hed. subst ed. cbn in Hm.
      unfold cr_state. cbn. replace (Z.of_nat j <? Z.of_nat m) with false by (symmetry; apply Z.ltb_ge; lia).
      rewrite skipn_all2 by lia. replace j with m by lia. reflexivity.
    + cbn in Hm.
      assert (Hg : zget sim (Z.of_nat m * i + Z.of_nat j) = Some x).
      { rewrite Hsim, Hed. rewrite (zget_app_off simd _ _ (Z.of_nat j)) by lia.
        rewrite zget_app_l by (rewrite app_length; cbn; lia). apply zget_app. lia. }
      destruct (skipn_cons_nth eold j) as (y & Hy); [lia|]. rewrite Hy.
      unfold cr_state. cbn. replace (Z.of_nat j <? Z.of_nat m) with true by (symmetry; apply Z.ltb_lt; lia).
      cbn. rewrite Hg. cbn. rewrite zset_app by lia. cbn.
      exists (ed ++ [x]), et. split; [rewrite <- app_assoc; exact Hed|].
      split; [rewrite app_length; cbn; lia|].
      norm_state. unfold cr_state. rewrite <- app_assoc. cbn [app].
      replace (Z.of_nat j + 1) with (Z.of_nat (S j)) by lia. reflexivity.
  - exists [], e. repeat split.
  - lia.
Qed.

(* ---- loop 2c: for(k=0;k<i;k++) uncertainty += weight*weight_k*fabs(obs[k]-obs[i]) ---- *)
Lemma L2c_run (callf : callee T) n nval ncol uw isrt i j wk pot pj unc dobs
      obs sim wv rt dec ens a b g o r c seen y obst :
  nofZ N 1 = n1 N -> uw <> 1 ->
  obs = seen ++ y :: obst -> i = Z.of_nat (List.length seen) -> (List.length seen < n)%nat ->
  let w := ndiv N (n1 N) (nofZ N nval) in
  exists wk' dobs',
  run_for N X callf n L2c
    (cr_state nval ncol uw isrt i j 0 w wk pot pj unc dobs
              obs sim wv rt dec ens a b g o r c)
  = Ok (ONormal,
        cr_state nval ncol uw isrt i j i
                 w wk' pot pj (unc_row N w y seen unc) dobs'
                 obs sim wv rt dec ens a b g o r c).
Proof.
  intros H1 Huw Hobs Hi Hn w. subst i. unfold run_for, L2c. cbn [for_c for_b for_s].
  set (f := fun u yk => nadd N u (nmul N (nmul N w w) (nabs N (nsub N yk y)))).
  assert (HL : exists r0,
    loop n (cond_of N X (ICmp CLt (IVar "k") (IVar "i")))
      (for_body
         (exec N X callf n (for_b L2c))
         (exec N X callf n (for_s L2c)))
      (cr_state nval ncol uw isrt (Z.of_nat (List.length seen)) j 0 w wk pot pj unc dobs
              obs sim wv rt dec ens a b g o r c) = Ok r0 /\
    (fun r1 => exists wk' dobs', r1 = (ONormal,
        cr_state nval ncol uw isrt (Z.of_nat (List.length seen)) j (Z.of_nat (List.length seen))
                 w wk' pot pj (fold_left f seen unc) dobs'
                 obs sim wv rt dec ens a b g o r c)) r0).
  { apply (loop_rule
           (fun kk st => exists sd stl wk' dobs', seen = sd ++ stl /\ List.length sd = kk /\
              st = cr_state nval ncol uw isrt (Z.of_nat (List.length seen)) j (Z.of_nat kk)
                            w wk' pot pj (fold_left f sd unc) dobs'
                            obs sim wv rt dec ens a b g o r c) _ (List.length seen)) with (k := O).
    - intros kk st (sd & stl & wk' & dobs' & Hs & Hk & ->).
      assert (Hl : List.length seen = (kk + List.length stl)%nat) by (rewrite Hs, app_length; lia).
      split; [lia|].
      destruct stl as [|yk stl].
      + rewrite app_nil_r in Hs. subst sd. cbn in Hl.
        unfold cr_state. cbn.
        replace (Z.of_nat kk <? Z.of_nat (List.length seen)) with false by (symmetry; apply Z.ltb_ge; lia).
        exists wk', dobs'. replace kk with (List.length seen) by lia. reflexivity.
      + cbn in Hl.
        assert (Hgk : zget obs (Z.of_nat kk) = Some yk).
        { rewrite Hobs, Hs, <- app_assoc. cbn [app]. apply zget_app. lia. }
        assert (Hgi : zget obs (Z.of_nat (List.length seen)) = Some y).
        { rewrite Hobs. apply zget_app. reflexivity. }
        unfold cr_state, L2c. cbn.
        replace (Z.of_nat kk <? Z.of_nat (List.length seen)) with true by (symmetry; apply Z.ltb_lt; lia).
        cbn. rewrite Hgk. cbn. rewrite Hgi. cbn.
        replace (uw =? 1) with false by (symmetry; apply Z.eqb_neq; exact Huw). cbn.
        exists (sd ++ [yk]), stl, (ndiv N (nofZ N 1) (nofZ N nval)), (nabs N (nsub N yk y)).
        split; [rewrite <- app_assoc; exact Hs|].
        split; [rewrite app_length; cbn; lia|].
        norm_state. unfold cr_state. rewrite fold_left_app. cbn [fold_left].
        replace (Z.of_nat kk + 1) with (Z.of_nat (S kk)) by lia.
        unfold f at 2. rewrite H1. reflexivity.
    - exists [], seen, wk, dobs. repeat split.
    - lia. }
  destruct HL as (r0 & Hr0 & wk' & dobs' & ->). exists wk', dobs'. exact Hr0.
Qed.

(* ---- loop 2b: the interior bins, with the EDOM return ---- *)

Lemma bins_upd_cons y w ej ej1 t p q :
  bins_upd N y w (ej :: ej1 :: t) (p :: q) = bin_upd N y w ej ej1 p :: bins_upd N y w (ej1 :: t) q.
Proof. reflexivity. Qed.
Lemma bins_upd_one y w x q : bins_upd N y w [x] q = q.
Proof. destruct q; reflexivity. Qed.
Lemma unsorted_cons x y t : unsorted N (x :: y :: t) = nltb N y x || unsorted N (y :: t).
Proof. reflexivity. Qed.
Lemma bins_upd_length y w : forall e ab, List.length (bins_upd N y w e ab) = List.length ab.
Proof.
  induction e as [|ej e IH]; intros ab; [reflexivity|].
  destruct e as [|ej1 e]; [destruct ab; reflexivity|].
  destruct ab as [|p ab]; [reflexivity|]. rewrite bins_upd_cons. cbn [List.length]. rewrite IH. reflexivity.
Qed.

#[local] Arguments bins_upd : simpl never.
#[local] Arguments bin_upd : simpl never.
#[local] Arguments unsorted : simpl never.

Definition L2b_post nval (m : nat) uw isrt i k w wk pot pj unc dobs obs sim wv rt dec ens g o r c
           y e ab Ah At Bh Bt (r0 : outcome T * state T) : Prop :=
  (unsorted N e = false /\
   r0 = (ONormal,
         cr_state nval (Z.of_nat m) uw isrt i (Z.of_nat (List.length ab)) k w wk pot pj unc dobs
                  obs sim wv rt dec ens
                  (Ah ++ map fst (bins_upd N y w e ab) ++ At)
                  (Bh ++ map snd (bins_upd N y w e ab) ++ Bt) g o r c))
  \/
  (unsorted N e = true /\ exists code j a' b', 0 < code /\
   r0 = (ORet (RI code),
         cr_state nval (Z.of_nat m) uw isrt i j k w wk pot pj unc dobs
                  obs sim wv rt dec ens a' b' g o r c)).

Lemma L2b_run (callf : callee T) n nval (m : nat) uw isrt i k w wk pot pj unc dobs
      obs sim wv rt dec rest g o r c obsd y obst e ab Ah At Bh Bt :
  obs = obsd ++ y :: obst -> i = Z.of_nat (List.length obsd) ->
  List.length e = m -> S (List.length ab) = m ->
  List.length Ah = 1%nat -> List.length Bh = 1%nat -> (m < n)%nat ->
  exists r0,
  run_for N X callf n L2b
    (cr_state nval (Z.of_nat m) uw isrt i 0 k w wk pot pj unc dobs
              obs sim wv rt dec (e ++ rest)
              (Ah ++ map fst ab ++ At) (Bh ++ map snd ab ++ Bt) g o r c) = Ok r0
  /\ L2b_post nval m uw isrt i k w wk pot pj unc dobs obs sim wv rt dec
              (e ++ rest) g o r c y e ab Ah At Bh Bt r0.
Proof.
  intros Hobs Hi He Hab HAh HBh Hn. subst i. unfold run_for, L2b. cbn [for_c for_b for_s].
  apply (loop_rule
    (fun jj st => exists ed et abd abt,
       e = ed ++ et /\ List.length ed = jj /\ List.length abd = jj /\
       S (List.length abt) = List.length et /\
       bins_upd N y w e ab = abd ++ bins_upd N y w et abt /\
       unsorted N e = unsorted N et /\
       st = cr_state nval (Z.of_nat m) uw isrt (Z.of_nat (List.length obsd)) (Z.of_nat jj) k
                     w wk pot pj unc dobs obs sim wv rt dec (e ++ rest)
                     ((Ah ++ map fst abd) ++ map fst abt ++ At)
                     ((Bh ++ map snd abd) ++ map snd abt ++ Bt) g o r c)
    _ m) with (k := O).
  - intros jj st (ed & et & abd & abt & Hed & Hjj & Habd & Hlen & Hbins & Huns & ->).
    assert (Hm : m = (jj + List.length et)%nat) by (rewrite <- He, Hed, app_length; lia).
    split; [lia|].
    assert (Hgo : zget obs (Z.of_nat (List.length obsd)) = Some y).
    { rewrite Hobs. apply zget_app. reflexivity. }
    destruct et as [|ej et]; [cbn in Hlen; lia|].
    destruct et as [|ej1 et].
    + (* j = ncol-1: end of the loop *)
      destruct abt; [|cbn in Hlen; lia]. cbn in Hm.
      rewrite bins_upd_one, app_nil_r in Hbins.
      unfold cr_state. cbn.
      replace (Z.of_nat jj <? Z.of_nat m - 1) with false by (symmetry; apply Z.ltb_ge; lia).
      left. split; [rewrite Huns; reflexivity|].
      rewrite Hbins. rewrite <- !app_assoc. cbn [app].
      replace (List.length ab) with jj by lia. reflexivity.
    + destruct abt as [|[pa pb] abt]; [cbn in Hlen; lia|].
      cbn in Hm, Hlen.
      assert (Hg0 : zget (e ++ rest) (Z.of_nat jj) = Some ej).
      { rewrite Hed, <- app_assoc. cbn [app]. apply zget_app. lia. }
      assert (Hg1 : zget (e ++ rest) (Z.of_nat jj + 1) = Some ej1).
      { rewrite Hed, <- app_assoc. cbn [app].
        replace (ed ++ ej :: ej1 :: et ++ rest) with ((ed ++ [ej]) ++ ej1 :: et ++ rest)
          by (rewrite <- app_assoc; reflexivity).
        apply zget_app. rewrite app_length. cbn. lia. }
      rewrite bins_upd_cons in Hbins. rewrite unsorted_cons in Huns.
      remember (e ++ rest) as ens eqn:Hens.
      remember (Ah ++ map fst abd) as Pa eqn:HPa.
      remember (Bh ++ map snd abd) as Pb eqn:HPb.
      assert (HlPa : Z.of_nat jj + 1 = Z.of_nat (List.length Pa))
        by (rewrite HPa, app_length, map_length; lia).
      assert (HlPb : Z.of_nat jj + 1 = Z.of_nat (List.length Pb))
        by (rewrite HPb, app_length, map_length; lia).
      cbn [map fst snd app].
      remember (map fst abt ++ At) as Qa eqn:HQa.
      remember (map snd abt ++ Bt) as Qb eqn:HQb.
      unfold cr_state. cbn.
      replace (Z.of_nat jj <? Z.of_nat m - 1) with true by (symmetry; apply Z.ltb_lt; lia).
      cbn. rewrite Hg1. cbn. rewrite Hg0. cbn. rewrite truth_b2z.
      destruct (nltb N ej1 ej) eqn:Hinv.
      * (* return EDOM *)
        cbn. right. split; [rewrite Huns; reflexivity|].
        exists 33, (Z.of_nat jj), (Pa ++ pa :: Qa), (Pb ++ pb :: Qb). split; [lia|reflexivity].
      * cbn [orb] in Huns. cbn. rewrite Hgo. cbn. rewrite Hg0. cbn. rewrite truth_b2z.
        repeat (progress (cbn; rewrite ?truth_b2z, ?and_ok, ?Hg0, ?Hg1, ?Hgo,
                                 ?(zget_app Pa), ?(zget_app Pb), ?(zset_app Pa), ?(zset_app Pb) by lia);
                try merge_if_st).
        exists (ed ++ [ej]), (ej1 :: et), (abd ++ [bin_upd N y w ej ej1 (pa, pb)]), abt.
        split; [rewrite <- app_assoc; exact Hed|].
        split; [rewrite app_length; cbn; lia|].
        split; [rewrite app_length; cbn; lia|].
        split; [cbn; lia|].
        split; [rewrite <- app_assoc; exact Hbins|].
        split; [exact Huns|].
        norm_state; unfold cr_state; subst Pa Pb Qa Qb ens.
        unfold bin_upd; cbn [fst snd].
        rewrite !map_app; cbn [map fst snd]; rewrite <- !app_assoc; cbn [app].
        replace (Z.of_nat jj + 1) with (Z.of_nat (S jj)) by lia.
        destruct (nleb N y ej), (nleb N ej1 y), (nltb N ej y), (nltb N y ej1); reflexivity.
  - exists [], e, [], ab. rewrite !app_nil_r. cbn [app List.length map].
    repeat split; try reflexivity. rewrite He. exact Hab.
  - lia.
Qed.

End Refine.

(* ################################################################## *)
(* PART 3: the loop over the forecasts, the loop over the bins          *)
(* ################################################################## *)

#[local] Arguments hml : simpl never.
#[local] Arguments qsort_list : simpl never.
#[local] Arguments fold_left : simpl never.
#[local] Arguments repeat : simpl never.
#[local] Arguments bins_upd : simpl never.
#[local] Arguments bin_upd : simpl never.
#[local] Arguments unsorted : simpl never.
#[local] Arguments unc_row : simpl never.
#[local] Arguments unc_loop : simpl never.
#[local] Arguments ksort : simpl never.
#[local] Arguments List.concat : simpl never.

(* [merge_if_st] that also unfolds [cr_state] *)
Ltac merge_if_cr :=
  match goal with
  | |- context[if ?b then Ok (?o, ?A) else Ok (?o, ?B)] =>
      let A' := eval cbv [cr_state set_i set_f set_ai set_af aupd s_i s_f s_ai s_af
                          String.eqb Ascii.eqb Bool.eqb] in A in
      let B' := eval cbv [cr_state set_i set_f set_ai set_af aupd s_i s_f s_ai s_af
                          String.eqb Ascii.eqb Bool.eqb] in B in
      let t := merge_terms2 b A' B' in
      replace (if b then Ok (o, A) else Ok (o, B)) with (Ok (o, t)) by (destruct b; reflexivity)
  end.

(* name the merged values (array cells, scalars) so that the terms stay small;
   the equations are kept in the context ([subst] at the end) *)
Ltac abstract_ifs :=
  repeat match goal with
  | |- context[cons (if ?b then ?x else ?y) ?Q] =>
      let v := fresh "mv" in remember (if b then x else y) as v
  | |- context[pair ?nm (if ?b then ?x else ?y)] =>
      let v := fresh "mv" in remember (if b then x else y) as v
  end.

Section Refine.
Context {T : Type} (N : NumOps T) (X : NumLit T).

(* the ensemble as the kernel sees it after  if(is_sorted==0) qsort(...) *)
Definition srt_of (isrt : Z) (e : list T) : list T := if isrt =? 0 then ksort N e else e.
Definition sortedv (isrt : Z) (v : list (T * list T)) : list (T * list T) :=
  map (fun r => (fst r, srt_of isrt (snd r))) v.

(* the accumulators of the model as the arrays a[], b[], o[] of the kernel *)
Definition acc_a (s : acc) : list T := hml (n0 N) (map fst (ac_ab s)) (ac_aN s).
Definition acc_b (s : acc) : list T := hml (ac_b0 s) (map snd (ac_ab s)) (n0 N).
Definition acc_o (m : nat) (s : acc) : list T := hml (ac_o0 s) (repeat (n0 N) (m - 1)) (ac_oN s).

Definition L2_inv (m : nat) uw isrt pot pj wv rt dec g r c (v : list (T * list T)) (w : T)
           (ii : nat) (st : state T) : Prop :=
  exists vd vt j k w' wk' unc dobs' ecur z,
    let s := fold_left (row_step N w) (sortedv isrt vd) (acc0 N (m - 1)) in
    v = vd ++ vt /\ List.length vd = ii /\ List.length ecur = m /\
    S (List.length (ac_ab s)) = m /\
    existsb (fun r => unsorted N (snd r)) (sortedv isrt vd) = false /\
    unc_loop N w [] (map fst v) (n0 N) = unc_loop N w (map fst vd) (map fst vt) unc /\
    st = cr_state (Z.of_nat (List.length v)) (Z.of_nat m) uw isrt (Z.of_nat ii) j k w' wk' pot pj
                  unc dobs' (map fst v) (List.concat (map snd v)) wv rt dec (ecur ++ [z])
                  (acc_a s) (acc_b s) g (acc_o m s) r c.

Definition L2_post (m : nat) uw isrt pot pj wv rt dec g r c (v : list (T * list T)) (w : T)
           (r0 : outcome T * state T) : Prop :=
  (existsb (fun r => unsorted N (snd r)) (sortedv isrt v) = false /\
   exists j k w' wk' dobs' ens,
     let s := fold_left (row_step N w) (sortedv isrt v) (acc0 N (m - 1)) in
     r0 = (ONormal,
           cr_state (Z.of_nat (List.length v)) (Z.of_nat m) uw isrt (Z.of_nat (List.length v)) j k
                    w' wk' pot pj (unc_loop N w [] (map fst v) (n0 N)) dobs'
                    (map fst v) (List.concat (map snd v)) wv rt dec ens
                    (acc_a s) (acc_b s) g (acc_o m s) r c))
  \/
  (existsb (fun r => unsorted N (snd r)) (sortedv isrt v) = true /\
   exists code i j k w' wk' unc dobs' ens a b o, 0 < code /\
     r0 = (ORet (RI code),
           cr_state (Z.of_nat (List.length v)) (Z.of_nat m) uw isrt i j k w' wk' pot pj unc dobs'
                    (map fst v) (List.concat (map snd v)) wv rt dec ens a b g o r c)).

Lemma acc0_ab_length k : List.length (ac_ab (acc0 N k)) = k.
Proof. cbn. apply repeat_length. Qed.

Lemma last_zget (e : list T) (rest : list T) (m : nat) d :
  List.length e = m -> (0 < m)%nat -> zget (e ++ rest) (Z.of_nat m - 1) = Some (last e d).
Proof.
  intros He Hm. destruct (@exists_last T e) as (e' & x & ->); [intros ->; cbn in He; lia|].
  rewrite last_last, <- app_assoc. cbn [app]. apply zget_app.
  rewrite app_length in He. cbn in He. lia.
Qed.

Lemma hd_zget (e : list T) (rest : list T) d :
  (0 < List.length e)%nat -> zget (e ++ rest) 0 = Some (hd d e).
Proof. destruct e; cbn; [lia|reflexivity]. Qed.

Lemma L2_run (callf : callee T) n (m : nat) uw isrt pot pj wv rt dec g r c
      (v : list (T * list T)) j0 k0 w0 wk0 unc0 dobs0 e0 z0 a0 b0 o0 :
  (forall a b, callf "c_crps.compare" [AVArrF [a]; AVArrF [b]]
               = Ok (RI (cmpz N a b), [VArrF [a]; VArrF [b]])) ->
  nofZ N 1 = n1 N -> uw <> 1 -> (0 < m)%nat ->
  Forall (fun r => List.length (snd r) = m) v ->
  List.length e0 = m ->
  a0 = acc_a (acc0 N (m - 1)) -> b0 = acc_b (acc0 N (m - 1)) -> o0 = acc_o m (acc0 N (m - 1)) ->
  unc0 = n0 N ->
  (List.length v < n)%nat -> (m < n)%nat ->
  let w := ndiv N (n1 N) (nofZ N (Z.of_nat (List.length v))) in
  exists r0,
    run_for N X callf n L2
      (cr_state (Z.of_nat (List.length v)) (Z.of_nat m) uw isrt 0 j0 k0 w0 wk0 pot pj unc0 dobs0
                (map fst v) (List.concat (map snd v)) wv rt dec (e0 ++ [z0]) a0 b0 g o0 r c) = Ok r0
    /\ L2_post m uw isrt pot pj wv rt dec g r c v w r0.
Proof.
  intros Hcmp H1 Huw Hm Hrows He0 Ha0 Hb0 Ho0 Hu0 Hn Hnm w.
  unfold run_for, L2. cbn [for_c for_b for_s].
  apply (loop_rule (L2_inv m uw isrt pot pj wv rt dec g r c v w)
                   (L2_post m uw isrt pot pj wv rt dec g r c v w) (List.length v)) with (k := O).
  - intros ii st (vd & vt & j & k & w' & wk' & unc & dobs' & ecur & z & Hinv).
    cbv zeta in Hinv. destruct Hinv as (Hv & Hii & Hec & Hlab & Hex & Hunc & ->).
    set (s := fold_left (row_step N w) (sortedv isrt vd) (acc0 N (m - 1))) in *.
    assert (Hlv : List.length v = (ii + List.length vt)%nat) by (rewrite Hv, app_length; lia).
    split; [lia|].
    destruct vt as [|[yi ei] vt].
    + (* end of the loop *)
      rewrite app_nil_r in Hv. subst vd. cbn in Hlv.
      unfold cr_state. cbn.
      replace (Z.of_nat ii <? Z.of_nat (List.length v)) with false by (symmetry; apply Z.ltb_ge; lia).
      left. split; [exact Hex|].
      exists j, k, w', wk', dobs', (ecur ++ [z]). cbv zeta. fold s.
      cbn [map] in Hunc. unfold unc_loop in Hunc at 2. rewrite Hunc.
      replace (List.length v) with ii by lia. reflexivity.
    + cbn in Hlv.
      assert (Hobs : map fst v = map fst vd ++ yi :: map fst vt) by (rewrite Hv, map_app; reflexivity).
      assert (Hsim : List.concat (map snd v)
                     = List.concat (map snd vd) ++ ei ++ List.concat (map snd vt)).
      { rewrite Hv, map_app, concat_app. reflexivity. }
      assert (Hrows' := Hrows). rewrite Hv in Hrows'. apply Forall_app in Hrows'.
      destruct Hrows' as [Hrd Hrt].
      assert (Hei : List.length ei = m) by (inversion Hrt; assumption).
      assert (Hsd : Z.of_nat (List.length (List.concat (map snd vd))) = Z.of_nat m * Z.of_nat ii).
      { rewrite (concat_length_const m).
        - rewrite map_length, Hii. lia.
        - apply Forall_map. exact Hrd. }
      assert (Hgo : zget (map fst v) (Z.of_nat ii) = Some yi).
      { rewrite Hobs. apply zget_app. rewrite map_length. lia. }
      remember (map fst v) as obs eqn:Eobs.
      remember (List.concat (map snd v)) as sim eqn:Esim.
      unfold acc_a, acc_b, acc_o.
      unfold cr_state. cbn.
      replace (Z.of_nat ii <? Z.of_nat (List.length v)) with true by (symmetry; apply Z.ltb_lt; lia).
      cbn.
      pose proof (L2a_run N X callf n (Z.of_nat (List.length v)) m uw isrt (Z.of_nat ii) k w' wk' pot pj
                    unc dobs' obs sim wv rt dec
                    (hml (n0 N) (map fst (ac_ab s)) (ac_aN s))
                    (hml (ac_b0 s) (map snd (ac_ab s)) (n0 N)) g
                    (hml (ac_o0 s) (repeat (n0 N) (m - 1)) (ac_oN s)) r c
                    (List.concat (map snd vd)) ei (List.concat (map snd vt)) ecur [z]
                    Hsim Hsd Hei Hec Hnm) as H2a.
      rewrite_loop H2a. clear H2a.
      cbn.
      pose proof (qsort_compare N callf "ensemb" ei [z] Hcmp) as Hq. rewrite Hei in Hq.
      rewrite Hq. cbn. rewrite truth_b2z. merge_if_cr. cbn.
      replace (uw =? 1) with false by (symmetry; apply Z.eqb_neq; exact Huw).
      cbn. rewrite H1. fold w.
      change (if isrt =? 0 then ksort N ei else ei) with (srt_of isrt ei).
      assert (Hes : List.length (srt_of isrt ei) = m).
      { unfold srt_of. destruct (isrt =? 0); [rewrite ksort_length|]; exact Hei. }
      remember (srt_of isrt ei) as es eqn:Ees.
      assert (Hi : Z.of_nat ii = Z.of_nat (List.length (map fst vd))) by (rewrite map_length, Hii; reflexivity).
      destruct (L2b_run N X callf n (Z.of_nat (List.length v)) m uw isrt (Z.of_nat ii) k w wk' pot pj
                  unc dobs' obs sim wv rt dec [z] g
                  (hml (ac_o0 s) (repeat (n0 N) (m - 1)) (ac_oN s)) r c
                  (map fst vd) yi (map fst vt) es (ac_ab s) [n0 N] [ac_aN s] [ac_b0 s] [n0 N]
                  Hobs Hi Hes Hlab eq_refl eq_refl Hnm) as (r0 & Hr0 & Hpost).
      destruct Hpost as [[Hu ->]|[Hu (code & j' & a' & b' & Hcode & ->)]].
      * set (ab' := bins_upd N yi w es (ac_ab s)) in *.
        change ([n0 N] ++ map fst ab' ++ [ac_aN s]) with (hml (n0 N) (map fst ab') (ac_aN s)) in Hr0.
        change ([ac_b0 s] ++ map snd ab' ++ [n0 N]) with (hml (ac_b0 s) (map snd ab') (n0 N)) in Hr0.
        rewrite_loop Hr0. clear Hr0.
        assert (Hh : zget (es ++ [z]) 0 = Some (hd (n0 N) es)) by (apply hd_zget; lia).
        assert (Hl : zget (es ++ [z]) (Z.of_nat m - 1) = Some (last es (n0 N)))
          by (apply last_zget; [exact Hes|exact Hm]).
        remember (es ++ [z]) as ens eqn:Eens.
        assert (Hlab' : S (List.length ab') = m) by (unfold ab'; rewrite bins_upd_length; exact Hlab).
        unfold cr_state.
        repeat (progress (cbn; rewrite ?truth_b2z, ?Hgo, ?Hh, ?Hl, ?hml_get0, ?hml_set0,
                                 ?hml_getN, ?hml_setN by (rewrite ?map_length, ?repeat_length; lia));
                try merge_if_cr).
        assert (Hlt : (List.length (map fst vd) < n)%nat) by (rewrite map_length; lia).
        match goal with
        | |- context[loop n _ _ (set_i {| s_i := _; s_f := _; s_ai := _;
                                         s_af := [_; _; _; _; _; _; ("a", ?A); ("b", ?B); _; ("o", ?O); _; _] |}
                                       "k" 0)] =>
            pose proof (L2c_run N X callf n (Z.of_nat (List.length v)) (Z.of_nat m) uw isrt (Z.of_nat ii)
                          (Z.of_nat (List.length (ac_ab s))) wk' pot pj unc dobs' obs sim wv rt dec ens
                          A B g O r c (map fst vd) yi (map fst vt) H1 Huw Hobs Hi Hlt) as H2c
        end.
        cbv zeta in H2c. destruct H2c as (wk2 & dobs2 & H2c).
        rewrite_loop H2c. clear H2c. cbn.
        exists (vd ++ [(yi, ei)]), vt, (Z.of_nat (List.length (ac_ab s))), (Z.of_nat ii), w, wk2,
          (unc_row N w yi (map fst vd) unc), dobs2, es, z.
        cbv zeta.
        assert (Hs' : fold_left (row_step N w) (sortedv isrt (vd ++ [(yi, ei)])) (acc0 N (m - 1))
                      = row_step N w s (yi, es)).
        { unfold sortedv. rewrite map_app, fold_left_app. cbn [map fst snd]. rewrite <- Ees. reflexivity. }
        rewrite Hs'.
        split; [rewrite <- app_assoc; exact Hv|].
        split; [rewrite app_length; cbn; lia|].
        split; [exact Hes|].
        split; [exact Hlab'|].
        split; [unfold sortedv; rewrite map_app, existsb_app; fold (sortedv isrt vd); rewrite Hex;
                cbn [map existsb fst snd orb]; rewrite <- Ees, Hu; reflexivity|].
        split; [rewrite map_app, <- Eobs; exact Hunc|].
        subst obs sim ens. replace (Z.of_nat ii + 1) with (Z.of_nat (S ii)) by lia. reflexivity.
      * (* EDOM *)
        rewrite_loop Hr0. clear Hr0. cbn.
        right. split.
        { rewrite Hv. unfold sortedv. rewrite map_app, existsb_app. cbn [map existsb fst snd].
          rewrite <- Ees, Hu. cbn [orb]. apply orb_true_r. }
        exists code. do 11 eexists. split; [exact Hcode|]. unfold cr_state. subst obs sim. reflexivity.
  - exists [], v, j0, k0, w0, wk0, unc0, dobs0, e0, z0. cbv zeta.
    unfold sortedv. cbn [map].
    change (fold_left (row_step N w) [] (acc0 N (m - 1))) with (acc0 N (m - 1)).
    split; [reflexivity|]. split; [reflexivity|]. split; [exact He0|].
    split; [rewrite acc0_ab_length; lia|].
    split; [reflexivity|].
    split; [subst unc0; reflexivity|].
    subst a0 b0 o0. reflexivity.
  - lia.
Qed.

(* ---- loop 3: the table and the sums, for(j=0;j<ncol+1;j++) ---- *)

(* row j of the table as the kernel computes it from a[j], b[j], o[j] (g[j] = 0 before) *)
Definition krow (m j : Z) (a b o : T) : trow :=
  let p := prob N j m in
  let g1 := if (j =? 0) && negb (neqb N o (n0 N)) then ndiv N b o else n0 N in
  let g2 := if (j =? m) && negb (neqb N o (n1 N)) then ndiv N a (nsub N (n1 N) o) else g1 in
  let g3 := if (0 <? j) && (j <? m) then nadd N a b else g2 in
  let o3 := if (0 <? j) && (j <? m) then ndiv N b (nadd N a b) else o in
  mkrow N p a b g3 o3.

Fixpoint krows (m j : Z) (A B O : list T) : list trow :=
  match A, B, O with
  | a :: A', b :: B', o :: O' => krow m j a b o :: krows m (j + 1) A' B' O'
  | _, _, _ => []
  end.

Definition trow_vals (r : trow) : list T := [t_p r; t_a r; t_b r; t_g r; t_o r; t_r r; t_c r].
Definition table_vals (tb : list trow) : list T := flat_map trow_vals tb.

Definition crpsf (s : T) (r : trow) : T := nadd N s (crps_term N r).
Definition relif (s : T) (r : trow) : T := if nltb N (n0 N) (t_g r) then nadd N s (t_r r) else s.
Definition potf (s : T) (r : trow) : T := if nltb N (n0 N) (t_g r) then nadd N s (t_c r) else s.

Lemma table_vals_length tb : List.length (table_vals tb) = (7 * List.length tb)%nat.
Proof. unfold table_vals. induction tb as [|r tb IH]; [reflexivity|]. cbn [flat_map]. rewrite app_length, IH. cbn [trow_vals List.length]. lia. Qed.

Lemma table_vals_snoc tb r : table_vals (tb ++ [r]) = table_vals tb ++ trow_vals r.
Proof. unfold table_vals. rewrite flat_map_app. cbn [flat_map]. rewrite app_nil_r. reflexivity. Qed.

Lemma krows_cons m j a A b B o O :
  krows m j (a :: A) (b :: B) (o :: O) = krow m j a b o :: krows m (j + 1) A B O.
Proof. reflexivity. Qed.

#[local] Arguments krows : simpl never.
#[local] Arguments krow : simpl never.
#[local] Arguments table_vals : simpl never.

(* statement-by-statement execution: the continuation stays folded *)
Lemma exec_seq_ok (callf : callee T) n a b st st1 :
  exec N X callf n a st = Ok (ONormal, st1) ->
  exec N X callf n (SSeq a b) st = exec N X callf n b st1.
Proof. intros H. cbn [exec]. rewrite H. reflexivity. Qed.

Ltac seq_step solve :=
  match goal with
  | |- context[exec ?N0 ?X0 ?cf ?n0 (SSeq ?a ?b) ?st] =>
      let H := fresh "Hx" in
      eassert (H : exec N0 X0 cf n0 a st = Ok (ONormal, _));
      [solve | rewrite (exec_seq_ok cf n0 a b st _ H); clear H]
  end.
Ltac last_step solve :=
  match goal with
  | |- context[exec ?N0 ?X0 ?cf ?n0 ?a ?st] =>
      let H := fresh "Hx" in
      eassert (H : exec N0 X0 cf n0 a st = Ok (ONormal, _));
      [solve | rewrite H; clear H]
  end.

Lemma L3_run (callf : callee T) n nval (m : nat) uw isrt i k w wk pot0 pj0 unc dobs
      obs sim wv rt0 d0 d1 d2 d3 d4 ens A B Oa R C :
  lits_ok N X -> (0 < m)%nat ->
  List.length A = S m -> List.length B = S m -> List.length Oa = S m ->
  List.length R = S m -> List.length C = S m -> List.length rt0 = (7 * S m)%nat ->
  (S m < n)%nat ->
  let tb := krows (Z.of_nat m) 0 A B Oa in
  exists pj',
  run_for N X callf n L3
    (cr_state nval (Z.of_nat m) uw isrt i 0 k w wk pot0 pj0 unc dobs obs sim wv rt0
              [d0; d1; d2; d3; d4] ens A B (repeat (n0 N) (S m)) Oa R C)
  = Ok (ONormal,
        cr_state nval (Z.of_nat m) uw isrt i (Z.of_nat (S m)) k w wk (fold_left potf tb pot0) pj'
                 unc dobs obs sim wv (table_vals tb)
                 [fold_left crpsf tb d0; fold_left relif tb d1; d2; d3; d4] ens A B
                 (map t_g tb) (map t_o tb) (map t_r tb) (map t_c tb)).
Proof.
  intros (HZ0 & HZ1 & HL0 & HL1) Hm HA HB HO HR HC Hrt Hn tb.
  unfold run_for, L3. cbn [for_c for_b for_s].
  assert (HL : exists r0,
    loop n (cond_of N X (for_c L3))
      (for_body (exec N X callf n (for_b L3)) (exec N X callf n (for_s L3)))
      (cr_state nval (Z.of_nat m) uw isrt i 0 k w wk pot0 pj0 unc dobs obs sim wv rt0
              [d0; d1; d2; d3; d4] ens A B (repeat (n0 N) (S m)) Oa R C) = Ok r0 /\
    (fun r1 => exists pj', r1 = (ONormal,
        cr_state nval (Z.of_nat m) uw isrt i (Z.of_nat (S m)) k w wk (fold_left potf tb pot0) pj'
                 unc dobs obs sim wv (table_vals tb)
                 [fold_left crpsf tb d0; fold_left relif tb d1; d2; d3; d4] ens A B
                 (map t_g tb) (map t_o tb) (map t_r tb) (map t_c tb))) r0).
  { unfold L3. cbn [for_c for_b for_s].
    apply (loop_rule
      (fun jj st => exists Ad At Bd Bt Od Ot Rt Ct tbd rtt pj',
         A = Ad ++ At /\ B = Bd ++ Bt /\ Oa = Od ++ Ot /\
         List.length Ad = jj /\ List.length Bd = jj /\ List.length Od = jj /\ List.length tbd = jj /\
         List.length Bt = List.length At /\ List.length Ot = List.length At /\
         List.length Rt = List.length At /\ List.length Ct = List.length At /\
         List.length rtt = (7 * List.length At)%nat /\
         tb = tbd ++ krows (Z.of_nat m) (Z.of_nat jj) At Bt Ot /\
         st = cr_state nval (Z.of_nat m) uw isrt i (Z.of_nat jj) k w wk (fold_left potf tbd pot0) pj'
                       unc dobs obs sim wv (table_vals tbd ++ rtt)
                       [fold_left crpsf tbd d0; fold_left relif tbd d1; d2; d3; d4] ens A B
                       (map t_g tbd ++ repeat (n0 N) (List.length At)) (map t_o tbd ++ Ot)
                       (map t_r tbd ++ Rt) (map t_c tbd ++ Ct))
      _ (S m)) with (k := 0%nat).
    - intros jj st (Ad & At & Bd & Bt & Od & Ot & Rt & Ct & tbd & rtt & pj' &
                    HAs & HBs & HOs & HlA & HlB & HlO & Hltb & HlBt & HlOt & HlRt & HlCt & Hlrtt & Htb & ->).
      assert (Hjm : S m = (jj + List.length At)%nat) by (rewrite <- HA, HAs, app_length; lia).
      split; [lia|].
      destruct At as [|aj At].
      + (* end *)
        destruct Bt; [|discriminate]. destruct Ot; [|discriminate]. destruct Rt; [|discriminate].
        destruct Ct; [|discriminate]. destruct rtt; [|discriminate].
        cbn in Hjm. unfold cr_state. cbn.
        replace (Z.of_nat jj <? Z.of_nat m + 1) with false by (symmetry; apply Z.ltb_ge; lia).
        exists pj'. rewrite !app_nil_r in *. rewrite Htb. unfold cr_state.
        replace (S m) with jj by lia. reflexivity.
      + destruct Bt as [|bj Bt]; [discriminate|]. destruct Ot as [|oj Ot]; [discriminate|].
        destruct Rt as [|rj Rt]; [discriminate|]. destruct Ct as [|cj Ct]; [discriminate|].
        destruct rtt as [|x0 [|x1 [|x2 [|x3 [|x4 [|x5 [|x6 rtt]]]]]]]; try (cbn in Hlrtt; lia).
        cbn in Hjm, HlBt, HlOt, HlRt, HlCt, Hlrtt.
        rewrite krows_cons in Htb.
        assert (Hga : zget A (Z.of_nat jj) = Some aj) by (rewrite HAs; apply zget_app; lia).
        assert (Hgb : zget B (Z.of_nat jj) = Some bj) by (rewrite HBs; apply zget_app; lia).
        change (repeat (n0 N) (List.length (aj :: At))) with (n0 N :: repeat (n0 N) (List.length At)).
        remember (map t_g tbd) as Gd eqn:EGd. remember (map t_o tbd) as Odd eqn:EOd.
        remember (map t_r tbd) as Rd eqn:ERd. remember (map t_c tbd) as Cd eqn:ECd.
        remember (table_vals tbd) as RTd eqn:ERT.
        remember (repeat (n0 N) (List.length At)) as Gt eqn:EGt.
        assert (HlG : Z.of_nat jj = Z.of_nat (List.length Gd)) by (rewrite EGd, map_length; lia).
        assert (HlOd : Z.of_nat jj = Z.of_nat (List.length Odd)) by (rewrite EOd, map_length; lia).
        assert (HlRd : Z.of_nat jj = Z.of_nat (List.length Rd)) by (rewrite ERd, map_length; lia).
        assert (HlCd : Z.of_nat jj = Z.of_nat (List.length Cd)) by (rewrite ECd, map_length; lia).
        assert (HlRT : Z.of_nat jj * 7 = Z.of_nat (List.length RTd)) by (rewrite ERT, table_vals_length; lia).
        match goal with
        | |- context[cond_of N X ?c ?s] =>
            let Hc := fresh "Hc" in
            assert (Hc : cond_of N X c s = Ok true)
              by (unfold cr_state; cbn;
                  replace (Z.of_nat jj <? Z.of_nat m + 1) with true by (symmetry; apply Z.ltb_lt; lia);
                  reflexivity);
            rewrite Hc; clear Hc
        end.
        unfold for_body.
        Ltac l3_solve Hga Hgb HZ0 HZ1 HL0 HL1 Gd Odd Rd Cd RTd :=
          unfold cr_state;
          repeat (progress (cbn; rewrite ?truth_b2z, ?b2z_truth_b2z, ?and_ok, ?Hga, ?Hgb,
                                 ?HZ0, ?HZ1, ?HL0, ?HL1,
                                 ?(zget_app Gd), ?(zget_app Odd), ?(zget_app Rd), ?(zget_app Cd),
                                 ?(zset_app Gd), ?(zset_app Odd), ?(zset_app Rd), ?(zset_app Cd),
                                 ?(zset_app RTd),
                                 ?(zset_app_off RTd _ _ 1), ?(zset_app_off RTd _ _ 2),
                                 ?(zset_app_off RTd _ _ 3), ?(zset_app_off RTd _ _ 4),
                                 ?(zset_app_off RTd _ _ 5), ?(zset_app_off RTd _ _ 6) by lia);
                  try merge_if_cr);
          norm_state; reflexivity.
        repeat (seq_step ltac:(l3_solve Hga Hgb HZ0 HZ1 HL0 HL1 Gd Odd Rd Cd RTd); abstract_ifs).
        last_step ltac:(l3_solve Hga Hgb HZ0 HZ1 HL0 HL1 Gd Odd Rd Cd RTd).
        cbv beta iota. cbn.
        exists (Ad ++ [aj]), At, (Bd ++ [bj]), Bt, (Od ++ [oj]), Ot, Rt, Ct,
          (tbd ++ [krow (Z.of_nat m) (Z.of_nat jj) aj bj oj]), rtt,
          (prob N (Z.of_nat jj) (Z.of_nat m)).
        split; [rewrite <- app_assoc; exact HAs|].
        split; [rewrite <- app_assoc; exact HBs|].
        split; [rewrite <- app_assoc; exact HOs|].
        split; [rewrite app_length; cbn; lia|].
        split; [rewrite app_length; cbn; lia|].
        split; [rewrite app_length; cbn; lia|].
        split; [rewrite app_length; cbn; lia|].
        split; [lia|]. split; [lia|]. split; [lia|]. split; [lia|]. split; [lia|].
        split; [rewrite <- app_assoc; cbn [app];
                replace (Z.of_nat (S jj)) with (Z.of_nat jj + 1) by lia; exact Htb|].
        norm_state. unfold cr_state.
        rewrite !fold_left_app, !map_app, table_vals_snoc.
        change (fold_left potf [?x] ?a) with (potf a x).
        change (fold_left relif [?x] ?a) with (relif a x).
        change (fold_left crpsf [?x] ?a) with (crpsf a x).
        cbn [map]. rewrite <- !app_assoc. cbn [app].
        replace (Z.of_nat jj + 1) with (Z.of_nat (S jj)) by lia.
        subst Gd Odd Rd Cd RTd Gt.
        unfold potf, relif, crpsf, crps_term, krow, mkrow, sq, prob, trow_vals.
        cbn [t_p t_a t_b t_g t_o t_r t_c app].
        repeat match goal with
               | Hmv : ?mvx = (if _ then _ else _) |- _ => subst mvx
               end.
        match goal with
        | |- context[if nltb N (n0 N) ?G then _ else _] => destruct (nltb N (n0 N) G)
        end; reflexivity.
    - exists [], A, [], B, [], Oa, R, C, [], rt0, pj0.
      repeat split; try reflexivity; try lia.
      rewrite HA. reflexivity.
    - lia. }
  destruct HL as (r0 & Hr0 & pj' & ->). exists pj'. exact Hr0.
Qed.

End Refine.

(* ################################################################## *)
(* PART 4: the theorems                                                 *)
(* ################################################################## *)

Lemma map_repeat' {A B} (f : A -> B) x k : map f (repeat x k) = repeat (f x) k.
Proof.
  induction k as [|k IH]; [reflexivity|].
  change (repeat x (S k)) with (x :: repeat x k).
  change (repeat (f x) (S k)) with (f x :: repeat (f x) k).
  cbn [map]. rewrite IH. reflexivity.
Qed.

#[local] Arguments hml : simpl never.
#[local] Arguments qsort_list : simpl never.
#[local] Arguments fold_left : simpl never.
#[local] Arguments repeat : simpl never.
#[local] Arguments bins_upd : simpl never.
#[local] Arguments bin_upd : simpl never.
#[local] Arguments unsorted : simpl never.
#[local] Arguments unc_row : simpl never.
#[local] Arguments unc_loop : simpl never.
#[local] Arguments ksort : simpl never.
#[local] Arguments List.concat : simpl never.
#[local] Arguments krows : simpl never.
#[local] Arguments krow : simpl never.
#[local] Arguments table_vals : simpl never.
#[local] Arguments acc_a : simpl never.
#[local] Arguments acc_b : simpl never.
#[local] Arguments acc_o : simpl never.

(* statement-by-statement execution (the continuation stays folded): each step is a
   small goal  exec .. stmt st = Ok (ONormal, ?st')  solved by [solve] *)
Ltac seq_step solve :=
  match goal with
  | |- context[exec ?N0 ?X0 ?cf ?n0 (SSeq ?a ?b) ?st] =>
      let H := fresh "Hx" in
      eassert (H : exec N0 X0 cf n0 a st = Ok (ONormal, _));
      [solve | rewrite (exec_seq_ok N0 X0 cf n0 a b st _ H); clear H]
  end.

Section Refine.
Context {T : Type} (N : NumOps T) (X : NumLit T).

Lemma exec_fun_unfold p n f args :
  exec_fun N X p (S n) f args =
  (do fd <- find_fun p f;
   do st0 <- bind_params f (fst fd) args st_empty;
   match exec N X (exec_fun N X p n) n (snd fd) st0 with
   | Ok (ORet v, st) => do o <- out_arrays (fst fd) st; Ok (v, o)
   | Ok (_, _) => Err (BadRet f)
   | Err e => Err e
   end).
Proof. reflexivity. Qed.

Lemma exec_seq_ret (callf : callee T) n a b st st1 v :
  exec N X callf n a st = Ok (ORet v, st1) ->
  exec N X callf n (SSeq a b) st = Ok (ORet v, st1).
Proof. intros H. cbn [exec]. rewrite H. reflexivity. Qed.

Definition crps_params : list param :=
  Eval cbv in match c_crps_def with Fun ps _ => ps | Untranslated _ => [] end.

Lemma find_c_crps : find_fun program "c_crps" = Ok (crps_params, crps_body).
Proof. vm_compute. reflexivity. Qed.

(* ---- the kernel's table is the model's table ---- *)

Lemma krows_interior (m : Z) aN oN : forall ab j,
  0 < j -> j + Z.of_nat (List.length ab) = m ->
  krows N m j (map fst ab ++ [aN]) (map snd ab ++ [n0 N]) (repeat (n0 N) (List.length ab) ++ [oN])
  = rows_interior N m j ab ++ [row_last N m aN oN].
Proof.
  induction ab as [|[pa pb] ab IH]; intros j Hj Hm.
  - cbn [map app List.length rows_interior]. change (repeat (n0 N) 0) with (@nil T). cbn [app].
    rewrite krows_cons. change (krows N m (j + 1) [] [] []) with (@nil (@trow T)). f_equal.
    cbn [List.length] in Hm. replace j with m by lia.
    unfold krow, row_last.
    replace (m =? 0) with false by (symmetry; apply Z.eqb_neq; lia).
    replace (m =? m) with true by (symmetry; apply Z.eqb_refl).
    replace (m <? m) with false by (symmetry; apply Z.ltb_irrefl).
    cbn [andb]. rewrite andb_false_r. reflexivity.
  - cbn [map app List.length rows_interior fst snd].
    change (repeat (n0 N) (S (List.length ab))) with (n0 N :: repeat (n0 N) (List.length ab)).
    cbn [app]. rewrite krows_cons. cbn [List.length] in Hm. rewrite IH by lia. f_equal.
    unfold krow.
    replace (j =? 0) with false by (symmetry; apply Z.eqb_neq; lia).
    replace (j =? m) with false by (symmetry; apply Z.eqb_neq; lia).
    replace (0 <? j) with true by (symmetry; apply Z.ltb_lt; lia).
    replace (j <? m) with true by (symmetry; apply Z.ltb_lt; lia).
    cbn [andb]. reflexivity.
Qed.

Lemma krows_table (m : nat) (s : acc) :
  (0 < m)%nat -> S (List.length (ac_ab s)) = m ->
  krows N (Z.of_nat m) 0 (acc_a N s) (acc_b N s)
        (hml (clamp1 N true (ac_o0 s)) (repeat (n0 N) (m - 1)) (clamp1 N true (ac_oN s)))
  = table N true (Z.of_nat m) s.
Proof.
  intros Hm Hl. unfold acc_a, acc_b, hml, table. rewrite krows_cons. f_equal.
  - unfold krow, row_first.
    replace (0 =? Z.of_nat m) with false by (symmetry; apply Z.eqb_neq; lia).
    cbn [Z.eqb Z.ltb Z.compare andb]. reflexivity.
  - replace (m - 1)%nat with (List.length (ac_ab s)) by lia.
    apply krows_interior; lia.
Qed.

Lemma row_step_ab_length w : forall l s,
  List.length (ac_ab (fold_left (row_step N w) l s)) = List.length (ac_ab s).
Proof.
  induction l as [|r l IH]; intros s; [reflexivity|].
  change (fold_left (row_step N w) (r :: l) s) with (fold_left (row_step N w) l (row_step N w s r)).
  rewrite IH. unfold row_step. cbn [ac_ab]. apply bins_upd_length.
Qed.

Lemma acc_init (m : nat) : (0 < m)%nat ->
  repeat (n0 N) (S m) = acc_a N (acc0 N (m - 1)) /\
  repeat (n0 N) (S m) = acc_b N (acc0 N (m - 1)) /\
  repeat (n0 N) (S m) = acc_o N m (acc0 N (m - 1)).
Proof.
  intros Hm. destruct m as [|k]; [lia|]. replace (S k - 1)%nat with k by lia.
  unfold acc_a, acc_b, acc_o, acc0. cbn [ac_ab ac_aN ac_b0 ac_o0 ac_oN].
  rewrite !map_repeat'. cbn [fst snd]. replace (S k - 1)%nat with k by lia.
  rewrite hml_repeat. repeat split.
Qed.

(* ---- the model run with the kernel's own sort ---- *)

Definition crps_with (isrt : Z) (v : list (T * list T)) : option crout :=
  match v with
  | [] => None
  | r0 :: _ =>
      let m := List.length (snd r0) in
      let w := ndiv N (n1 N) (nofZ N (Z.of_nat (List.length v))) in
      let sorted := sortedv N isrt v in
      if existsb (fun r => unsorted N (snd r)) sorted then None
      else Some (finish N true (Z.of_nat m)
                        (fold_left (row_step N w) sorted (acc0 N (m - 1)))
                        (unc_loop N w [] (map fst v) (n0 N)))
  end.

Definition dec_vals (o : crout) : list T := [o_crps o; o_reli o; o_resol o; o_unc o; o_pot o].

Definition crps_args (uw isrt : Z) (v : list (T * list T)) (m : nat) (wv rt0 : list T) : list (argval T) :=
  [AVI (Z.of_nat (List.length v)); AVI (Z.of_nat m); AVI uw; AVI isrt;
   AVArrF (map fst v); AVArrF (List.concat (map snd v)); AVArrF wv; AVArrF rt0;
   AVArrF [n0 N; n0 N; n0 N; n0 N; n0 N]].

(* the run of the kernel, for every input the wrapper admits; the outputs of the model
   are variables here, so that the symbolic execution does not touch them *)
Lemma c_crps_run_aux (uw isrt : Z) (v : list (T * list T)) (m : nat) (wv rt0 : list T) n
      (exb : bool) (tabv decv : list T) :
  lits_ok N X -> uw <> 1 ->
  (0 < m)%nat ->
  Forall (fun r => List.length (snd r) = m) v ->
  List.length rt0 = (7 * S m)%nat ->
  (Nat.max (List.length v) (S m) < n)%nat ->
  let w := ndiv N (n1 N) (nofZ N (Z.of_nat (List.length v))) in
  let s := fold_left (row_step N w) (sortedv N isrt v) (acc0 N (m - 1)) in
  let tb := table N true (Z.of_nat m) s in
  let unc := unc_loop N w [] (map fst v) (n0 N) in
  exb = existsb (fun r => unsorted N (snd r)) (sortedv N isrt v) ->
  tabv = table_vals tb ->
  decv = [fold_left (crpsf N) tb (n0 N); fold_left (relif N) tb (n0 N);
          nsub N unc (fold_left (potf N) tb (n0 N)); unc; fold_left (potf N) tb (n0 N)] ->
  exists res,
    exec_fun N X program (S n) "c_crps" (crps_args uw isrt v m wv rt0) = Ok res /\
    ((exb = false /\
      res = (RI 0, [VArrF (map fst v); VArrF (List.concat (map snd v)); VArrF wv;
                    VArrF tabv; VArrF decv]))
     \/
     (exb = true /\ exists code, 0 < code /\
      res = (RI code, [VArrF (map fst v); VArrF (List.concat (map snd v)); VArrF wv;
                       VArrF rt0; VArrF [n0 N; n0 N; n0 N; n0 N; n0 N]]))).
Proof.
  intros Hlits Huw Hm Hrows Hrt Hn w s tb unc Eexb Etabv Edecv.
  assert (Hlits' := Hlits). destruct Hlits' as (HZ0 & HZ1 & HL0 & HL1).
  assert (Hcmp : forall a b, exec_fun N X program n "c_crps.compare" [AVArrF [a]; AVArrF [b]]
                             = Ok (RI (cmpz N a b), [VArrF [a]; VArrF [b]])).
  { intros a b. destruct n as [|n']; [lia|]. apply compare_run. }
  assert (Hn1 : (S m < n)%nat) by lia.
  assert (Hn2 : (List.length v < n)%nat) by lia.
  assert (Hn3 : (m < n)%nat) by lia.
  assert (Hlab : S (List.length (ac_ab s)) = m)
    by (unfold s; rewrite row_step_ab_length, acc0_ab_length; lia).
  destruct (acc_init m Hm) as (Ea & Eb & Eo).
  set (cf := exec_fun N X program n).
  rewrite exec_fun_unfold, find_c_crps. fold cf. unfold crps_args.
  cbn [bind fst snd]. unfold crps_params at 1. cbn [bind_params bind]. norm_state.
  unfold crps_body.
  (* declarations, mallocs, the ENOMEM test, the initialisations *)
  repeat (seq_step ltac:(cbn; repeat (rewrite new_arr_zero; cbn); rewrite ?HL0, ?HZ0;
                         norm_state; reflexivity)).
  (* loop 1 *)
  seq_step ltac:(exact (L1_run N X cf n (Z.of_nat (List.length v)) m uw isrt 0 0
                (n0 N) (n0 N) (n0 N) (n0 N) (n0 N) (n0 N) (map fst v) (List.concat (map snd v)) wv rt0
                [n0 N; n0 N; n0 N; n0 N; n0 N] (repeat (n0 N) (S m)) (repeat (n0 N) (S m))
                (repeat (n0 N) (S m)) HZ0 Hn1)).
  seq_step ltac:(cbn; norm_state; reflexivity).
  (* loop 2 *)
  pose proof (L2_run N X cf n m uw isrt (n0 N) (n0 N) wv rt0
                [n0 N; n0 N; n0 N; n0 N; n0 N] (repeat (n0 N) (S m)) (repeat (n0 N) (S m))
                (repeat (n0 N) (S m)) v (Z.of_nat (S m)) 0 (n0 N) (n0 N) (n0 N) (n0 N)
                (repeat (n0 N) m) (n0 N) (repeat (n0 N) (S m)) (repeat (n0 N) (S m))
                (repeat (n0 N) (S m)) Hcmp HZ1 Huw Hm Hrows (repeat_length _ _) Ea Eb Eo eq_refl
                Hn2 Hn3) as HL2run.
  cbv zeta in HL2run. rewrite repeat_snoc in HL2run. fold w in HL2run.
  destruct HL2run as (r0 & Hr0 & Hpost).
  destruct Hpost as [(Hex & j & k & w' & wk' & dobs' & ens & Hst)|(Hex & code & i & j & k & w' & wk' & unc' & dobs' & ens & a & b & o & Hcode & ->)].
  2: { (* EDOM *)
    match goal with
    | |- context[exec ?N0 ?X0 ?cf0 ?n0 (SSeq ?a0 ?b0) ?st] =>
        rewrite (exec_seq_ret cf0 n0 a0 b0 st _ _ Hr0)
    end.
    eexists. split; [cbn; reflexivity|]. right. split; [rewrite Eexb; exact Hex|].
    exists code. split; [exact Hcode|reflexivity]. }
  cbv zeta in Hst. fold w s unc in Hst. subst r0.
  seq_step ltac:(exact Hr0). clear Hr0.
  (* the two clamps of o[0], o[ncol]; j = 0 *)
  do 3 (seq_step ltac:(unfold cr_state, acc_o;
                 repeat (progress (cbn; rewrite ?truth_b2z, ?HL1, ?hml_get0, ?hml_set0,
                                          ?hml_getN, ?hml_setN by (rewrite ?repeat_length; lia));
                         try merge_if_cr);
                 norm_state; reflexivity)).
  (* loop 3 *)
  assert (HlA : List.length (acc_a N s) = S m) by (unfold acc_a; rewrite hml_length, map_length; lia).
  assert (HlB : List.length (acc_b N s) = S m) by (unfold acc_b; rewrite hml_length, map_length; lia).
  assert (HlO : List.length (hml (clamp1 N true (ac_o0 s)) (repeat (n0 N) (m - 1))
                                 (clamp1 N true (ac_oN s))) = S m)
    by (rewrite hml_length, repeat_length; lia).
  pose proof (L3_run N X cf n (Z.of_nat (List.length v)) m uw isrt
                (Z.of_nat (List.length v)) k w' wk' (n0 N) (n0 N)
                unc dobs' (map fst v) (List.concat (map snd v)) wv rt0
                (n0 N) (n0 N) (n0 N) (n0 N) (n0 N) ens (acc_a N s) (acc_b N s)
                (hml (clamp1 N true (ac_o0 s)) (repeat (n0 N) (m - 1)) (clamp1 N true (ac_oN s)))
                (repeat (n0 N) (S m)) (repeat (n0 N) (S m))
                Hlits Hm HlA HlB HlO (repeat_length _ _) (repeat_length _ _) Hrt Hn1) as HL3run.
  cbv zeta in HL3run. destruct HL3run as (pj' & HL3run).
  rewrite (krows_table m s Hm Hlab) in HL3run. fold tb in HL3run.
  seq_step ltac:(exact HL3run). clear HL3run.
  (* crps_decompos[2..4], return 0 *)
  do 3 (seq_step ltac:(unfold cr_state; cbn; norm_state; reflexivity)).
  eexists. split; [cbn; reflexivity|].
  left. split; [rewrite Eexb; exact Hex|]. rewrite Etabv, Edecv. reflexivity.
Qed.

(* THE REFINEMENT THEOREM, all inputs.  [v] = the forecasts passed by the wrapper
   (observation, ensemble members), [m] = number of members, [wv] = the weight vector
   (any content and any length: it is not read when use_weights <> 1), [rt0] = the initial
   content of reliability_table ((m+1) x 7, any content), crps_decompos = five zeros
   (np.zeros).  [crps_with isrt] is the model run with the kernel's own sort. *)
Theorem refine_c_crps_all (uw isrt : Z) (v : list (T * list T)) (m : nat) (wv rt0 : list T) n :
  lits_ok N X -> uw <> 1 ->
  v <> [] -> (0 < m)%nat ->
  Forall (fun r => List.length (snd r) = m) v ->
  List.length rt0 = (7 * S m)%nat ->
  (Nat.max (List.length v) (S m) < n)%nat ->
  match crps_with isrt v with
  | Some out =>
      exec_fun N X program (S n) "c_crps" (crps_args uw isrt v m wv rt0)
      = Ok (RI 0, [VArrF (map fst v); VArrF (List.concat (map snd v)); VArrF wv;
                   VArrF (table_vals (o_table out)); VArrF (dec_vals out)])
  | None =>
      exists code, 0 < code /\
      exec_fun N X program (S n) "c_crps" (crps_args uw isrt v m wv rt0)
      = Ok (RI code, [VArrF (map fst v); VArrF (List.concat (map snd v)); VArrF wv;
                      VArrF rt0; VArrF [n0 N; n0 N; n0 N; n0 N; n0 N]])
  end.
Proof.
  intros Hlits Huw Hv Hm Hrows Hrt Hn.
  destruct (c_crps_run_aux uw isrt v m wv rt0 n _ _ _ Hlits Huw Hm Hrows Hrt Hn
              eq_refl eq_refl eq_refl) as (res & HE & Hcase).
  destruct v as [|r0 v']; [contradiction|].
  unfold crps_with.
  assert (Hm0 : List.length (snd r0) = m) by (inversion Hrows; assumption).
  rewrite Hm0. cbv zeta.
  destruct Hcase as [[Hex ->]|[Hex (code & Hc & ->)]]; rewrite Hex.
  - exact HE.
  - exists code. split; [exact Hc|exact HE].
Qed.

(* ---- the model of Model/Crps.v ---- *)

Definition notnan (x : T) : Prop := nisnan N x = false.

Lemma crps_gen_with (rows : list (T * list T)) :
  ord_laws N notnan ->
  Forall (fun r => Forall notnan (snd r)) (filter (row_valid N) rows) ->
  crps N rows = crps_with CRPS_IS_SORTED (filter (row_valid N) rows).
Proof.
  intros HO Hf. unfold crps, crps_gen, crps_with.
  destruct (filter (row_valid N) rows) as [|r0 v'] eqn:Ev; [reflexivity|].
  cbv zeta.
  assert (Hs : map (fun r : T * list T => (fst r, presort N (snd r))) (r0 :: v')
               = sortedv N CRPS_IS_SORTED (r0 :: v')).
  { unfold sortedv. apply map_ext_in. intros r Hr.
    unfold presort, srt_of. destruct (CRPS_IS_SORTED =? 0); [|reflexivity].
    rewrite (ksort_sort N notnan HO); [reflexivity|].
    rewrite Forall_forall in Hf. apply Hf. exact Hr. }
  rewrite Hs. reflexivity.
Qed.

(* THE REFINEMENT THEOREM against [crps] of Model/Crps.v.  [rows] = the data given to
   hydrodiy.stat.metrics.crps; the wrapper keeps the valid rows ([row_valid]: observation
   not NaN, at least one member not NaN), raises if none is left, and calls the kernel
   with use_weights = is_sorted = 0 on the rows [v] it kept.
   Hypothesis that is NOT a guarantee of the wrapper: no member of a kept ensemble is
   NaN (see [finding_nan_member] below). *)
Theorem refine_c_crps (rows : list (T * list T)) (m : nat) (wv rt0 : list T) n :
  lits_ok N X -> ord_laws N notnan ->
  let v := filter (row_valid N) rows in
  v <> [] ->
  Forall (fun r => List.length (snd r) = m) v ->
  Forall (fun r => Forall notnan (snd r)) v ->
  List.length rt0 = (7 * S m)%nat ->
  (Nat.max (List.length v) (S m) < n)%nat ->
  match crps N rows with
  | Some out =>
      exec_fun N X program (S n) "c_crps" (crps_args CRPS_USE_WEIGHTS CRPS_IS_SORTED v m wv rt0)
      = Ok (RI 0, [VArrF (map fst v); VArrF (List.concat (map snd v)); VArrF wv;
                   VArrF (table_vals (o_table out)); VArrF (dec_vals out)])
  | None =>
      exists code, 0 < code /\
      exec_fun N X program (S n) "c_crps" (crps_args CRPS_USE_WEIGHTS CRPS_IS_SORTED v m wv rt0)
      = Ok (RI code, [VArrF (map fst v); VArrF (List.concat (map snd v)); VArrF wv;
                      VArrF rt0; VArrF [n0 N; n0 N; n0 N; n0 N; n0 N]])
  end.
Proof.
  intros Hlits HO v Hv Hrv Hnn Hrt Hn.
  rewrite (crps_gen_with rows HO Hnn). fold v.
  assert (Hm : (0 < m)%nat).
  { destruct v as [|r0 v'] eqn:Ev; [contradiction|].
    assert (Hin : In r0 (filter (row_valid N) rows)) by (fold v; rewrite Ev; left; reflexivity).
    apply filter_In in Hin. destruct Hin as [_ Hval].
    unfold row_valid in Hval. apply andb_true_iff in Hval. destruct Hval as [_ Hval].
    assert (Hl : List.length (snd r0) = m) by (inversion Hrv; assumption). rewrite <- Hl.
    destruct (snd r0); [discriminate|cbn; lia]. }
  apply refine_c_crps_all; try assumption. discriminate.
Qed.

(* ---- without NaN the EDOM return is unreachable: the sort sorts ---- *)

Lemma insert_head x l : l <> [] ->
  exists h t, insert N x l = h :: t /\ (h = x \/ exists t', l = h :: t').
Proof.
  destruct l as [|y l]; [contradiction|]. intros _. cbn [insert].
  destruct (nleb N x y).
  - exists x, (y :: l). split; [reflexivity|left; reflexivity].
  - exists y, (insert N x l). split; [reflexivity|right; exists l; reflexivity].
Qed.

Lemma insert_sorted x l :
  ord_laws N notnan -> notnan x -> Forall notnan l ->
  unsorted N l = false -> unsorted N (insert N x l) = false.
Proof.
  intros (Hlt & Htot & _) Hx Hl. induction Hl as [|y l Hy Hl IH]; intros Hs; [reflexivity|].
  cbn [insert]. destruct (nleb N x y) eqn:Exy.
  - rewrite unsorted_cons, Hs, (Hlt x y Hx Hy), Exy. reflexivity.
  - assert (Hyx : nltb N x y = false).
    { rewrite (Hlt y x Hy Hx), (Htot x y Hx Hy Exy). reflexivity. }
    destruct l as [|z l].
    + cbn [insert]. rewrite unsorted_cons, Hyx. reflexivity.
    + rewrite unsorted_cons in Hs. apply orb_false_iff in Hs. destruct Hs as [Hzy Hs].
      destruct (insert_head x (z :: l)) as (h & t & Eh & Hh); [discriminate|].
      specialize (IH Hs). rewrite Eh in IH |- *. rewrite unsorted_cons, IH, orb_false_r.
      destruct Hh as [->|(t' & Et)]; [exact Hyx|]. inversion Et; subst. exact Hzy.
Qed.

Lemma sort_sorted l :
  ord_laws N notnan -> Forall notnan l -> unsorted N (sort N l) = false.
Proof.
  intros HO. induction 1 as [|x l Hx Hl IH]; [reflexivity|].
  cbn [sort fold_right]. apply insert_sorted; try assumption.
  apply (sort_Forall N notnan); assumption.
Qed.

Lemma crps_defined (rows : list (T * list T)) :
  ord_laws N notnan ->
  filter (row_valid N) rows <> [] ->
  Forall (fun r => Forall notnan (snd r)) (filter (row_valid N) rows) ->
  exists out, crps N rows = Some out.
Proof.
  intros HO Hv Hf. unfold crps, crps_gen.
  destruct (filter (row_valid N) rows) as [|r0 v'] eqn:Ev; [contradiction|].
  cbv zeta.
  replace (existsb _ _) with false; [eexists; reflexivity|].
  symmetry. apply not_true_iff_false. intros Hex. apply existsb_exists in Hex.
  destruct Hex as (r & Hr & Hu). apply in_map_iff in Hr. destruct Hr as (r' & <- & Hr').
  cbn [snd] in Hu. rewrite Forall_forall in Hf. specialize (Hf r' Hr').
  unfold presort in Hu. change (CRPS_IS_SORTED =? 0) with true in Hu. cbv iota in Hu.
  rewrite (sort_sorted _ HO Hf) in Hu. discriminate.
Qed.

(* The kernel returns 0 and delivers the model's outputs (no error path). *)
Corollary refine_c_crps_ok (rows : list (T * list T)) (m : nat) (wv rt0 : list T) n :
  lits_ok N X -> ord_laws N notnan ->
  let v := filter (row_valid N) rows in
  v <> [] ->
  Forall (fun r => List.length (snd r) = m) v ->
  Forall (fun r => Forall notnan (snd r)) v ->
  List.length rt0 = (7 * S m)%nat ->
  (Nat.max (List.length v) (S m) < n)%nat ->
  exists out, crps N rows = Some out /\
    exec_fun N X program (S n) "c_crps" (crps_args CRPS_USE_WEIGHTS CRPS_IS_SORTED v m wv rt0)
    = Ok (RI 0, [VArrF (map fst v); VArrF (List.concat (map snd v)); VArrF wv;
                 VArrF (table_vals (o_table out)); VArrF (dec_vals out)]).
Proof.
  intros Hlits HO v Hv Hrv Hnn Hrt Hn.
  destruct (crps_defined rows HO Hv Hnn) as (out & Hout).
  exists out. split; [exact Hout|].
  pose proof (refine_c_crps rows m wv rt0 n Hlits HO Hv Hrv Hnn Hrt Hn) as H.
  rewrite Hout in H. exact H.
Qed.

End Refine.

(* ================================================================== *)
(* The hypotheses on the arithmetic hold in the instances               *)
(* ================================================================== *)

Lemma lits_ok_F64 : lits_ok F64 XF64.
Proof. repeat split; vm_compute; reflexivity. Qed.

Lemma lits_ok_RR : lits_ok RR XRR.
Proof.
  repeat split; cbn; unfold lit_R.
  - unfold Rdiv. rewrite Rmult_0_l. reflexivity.
  - unfold Rdiv. rewrite Rinv_1, Rmult_1_r. reflexivity.
Qed.

Lemma lits_ok_RN : lits_ok RN XRN.
Proof.
  destruct lits_ok_RR as (_ & _ & H0 & H1). cbn in H0, H1.
  repeat split; cbn; f_equal; assumption.
Qed.

Lemma ord_laws_weaken {T} (N : NumOps T) (P Q : T -> Prop) :
  (forall x, Q x -> P x) -> ord_laws N P -> ord_laws N Q.
Proof.
  intros HQP (H1 & H2 & H3). split; [|split].
  - intros x y Hx Hy. apply H1; apply HQP; assumption.
  - intros x y Hx Hy. apply H2; apply HQP; assumption.
  - intros x y z Hx Hy Hz. apply H3; apply HQP; assumption.
Qed.

(* over the reals: no hypothesis on the data at all *)
Corollary refine_c_crps_RR (rows : list (R * list R)) (m : nat) (wv rt0 : list R) n :
  let v := filter (row_valid RR) rows in
  v <> [] ->
  Forall (fun r => List.length (snd r) = m) v ->
  List.length rt0 = (7 * S m)%nat ->
  (Nat.max (List.length v) (S m) < n)%nat ->
  exists out, crps RR rows = Some out /\
    exec_fun RR XRR program (S n) "c_crps" (crps_args RR CRPS_USE_WEIGHTS CRPS_IS_SORTED v m wv rt0)
    = Ok (RI 0, [VArrF (map fst v); VArrF (List.concat (map snd v)); VArrF wv;
                 VArrF (table_vals (o_table out)); VArrF (dec_vals out)]).
Proof.
  intros v Hv Hrv Hrt Hn.
  apply (refine_c_crps_ok RR XRR rows m wv rt0 n lits_ok_RR); try assumption.
  - apply (ord_laws_weaken RR (fun _ => True)); [trivial|exact ord_laws_RR].
  - apply Forall_forall. intros r _. apply Forall_forall. intros x _. reflexivity.
Qed.

(* reals with a missing value: the ensembles must not contain the missing value *)
Corollary refine_c_crps_RN (rows : list (option R * list (option R))) (m : nat)
          (wv rt0 : list (option R)) n :
  let v := filter (row_valid RN) rows in
  v <> [] ->
  Forall (fun r => List.length (snd r) = m) v ->
  Forall (fun r => Forall (fun x => x <> None) (snd r)) v ->
  List.length rt0 = (7 * S m)%nat ->
  (Nat.max (List.length v) (S m) < n)%nat ->
  exists out, crps RN rows = Some out /\
    exec_fun RN XRN program (S n) "c_crps" (crps_args RN CRPS_USE_WEIGHTS CRPS_IS_SORTED v m wv rt0)
    = Ok (RI 0, [VArrF (map fst v); VArrF (List.concat (map snd v)); VArrF wv;
                 VArrF (table_vals (o_table out)); VArrF (dec_vals out)]).
Proof.
  intros v Hv Hrv Hnn Hrt Hn.
  apply (refine_c_crps_ok RN XRN rows m wv rt0 n lits_ok_RN); try assumption.
  - exact ord_laws_RN.
  - eapply Forall_impl; [|exact Hnn]. intros r Hr.
    eapply Forall_impl; [|exact Hr]. intros [x|] Hx; [reflexivity|contradiction].
Qed.

(* ================================================================== *)
(* FINDING: an ensemble with a NaN member (admitted by the wrapper, which keeps a *)
(* forecast as soon as ONE member is a number) - the kernel and the model differ.  *)
(* qsort's comparator answers 0 ("equal") on a NaN, so glibc's merge sort leaves   *)
(* [3; NaN; 1] as it is; the model's insertion sort (x <= y false on NaN) gives    *)
(* [1; NaN; 3].  With obs = 2 the kernel counts the observation below ensemb[0]=3  *)
(* (o[0] = 1) and returns reliability = 2, the model returns reliability = 0.      *)
(* ================================================================== *)
Example finding_nan_member :
  let rows := [(2%float, [3%float; nan; 1%float])] in
  filter (row_valid F64) rows = rows /\
  ksort F64 [3%float; nan; 1%float] = [3%float; nan; 1%float] /\
  sort F64 [3%float; nan; 1%float] = [1%float; nan; 3%float] /\
  (exists t d0 d2 d3 d4,
     exec_fun F64 XF64 program 20 "c_crps"
       (crps_args F64 CRPS_USE_WEIGHTS CRPS_IS_SORTED rows 3 [0%float] (List.repeat 0%float 28))
     = Ok (RI 0, [VArrF [2%float]; VArrF [3%float; nan; 1%float]; VArrF [0%float];
                  VArrF t; VArrF [d0; 2%float; d2; d3; d4]])) /\
  (exists out, crps F64 rows = Some out /\ o_reli out = 0%float).
Proof.
  vm_compute. split; [reflexivity|]. split; [reflexivity|]. split; [reflexivity|]. split.
  - do 5 eexists. reflexivity.
  - eexists. split; reflexivity.
Qed.
