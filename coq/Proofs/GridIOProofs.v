(* Theorems about Model/GridIO.v (property C13), part 1: strings, decimal
   integers, header lines, the header round trip. *)
From Coq Require Import ZArith Bool List String Ascii Lia DecimalString DecimalZ DecimalPos.
From Hy Require Import Base.Num Gen.ConstsC13 Model.Grid Model.GridIO.
Import ListNotations.
Open Scope string_scope. Open Scope list_scope. Open Scope Z_scope.

(* ---------------- ties to the extracted constants ---------------- *)
Lemma pixeltype_regex_tie : STREAM_PIXELTYPE_REGEX = PIXELTYPE_REGEX_MODELLED.
Proof. reflexivity. Qed.

(* ---------------- strings ---------------- *)
Lemma app_assoc_s (a b c : string) : (a +++ b) +++ c = a +++ b +++ c.
Proof. induction a; simpl; congruence. Qed.

Lemma app_nil_r_s (a : string) : a +++ "" = a.
Proof. induction a; simpl; congruence. Qed.

Lemma sall_app p a b : sall p (a +++ b) = sall p a && sall p b.
Proof. induction a; simpl; [reflexivity|]. rewrite IHa, andb_assoc. reflexivity. Qed.

Lemma sall_imp (p q : ascii -> bool) s :
  (forall c, p c = true -> q c = true) -> sall p s = true -> sall q s = true.
Proof.
  intros H. induction s; simpl; [auto|]. rewrite !andb_true_iff. intros [A B]. auto.
Qed.

Lemma is_ws_sp c : is_sp c = true -> is_ws c = true.
Proof. unfold is_sp, sp. intros H. apply Ascii.eqb_eq in H. subst. reflexivity. Qed.
Lemma is_ws_nl c : is_nl c = true -> is_ws c = true.
Proof. unfold is_nl, nl. intros H. apply Ascii.eqb_eq in H. subst. reflexivity. Qed.

Lemma no_ws_no_sp s : no_ws s = true -> no_sp s = true.
Proof.
  apply sall_imp. intros c H. destruct (is_sp c) eqn:E; [|reflexivity].
  apply is_ws_sp in E. rewrite E in H. discriminate.
Qed.
Lemma no_ws_no_nl s : no_ws s = true -> no_nl s = true.
Proof.
  apply sall_imp. intros c H. destruct (is_nl c) eqn:E; [|reflexivity].
  apply is_ws_nl in E. rewrite E in H. discriminate.
Qed.

Lemma spaces_snoc n r : spaces n +++ String sp r = String sp (spaces n +++ r).
Proof. induction n; simpl; [reflexivity|]. rewrite IHn. reflexivity. Qed.

(* "{0:<w} {1}\n": the key, at least one blank, the value, a newline *)
Lemma kv_unfold w k v :
  kv w k v = k +++ spaces (S (Z.to_nat (w - Z.of_nat (String.length k)))) +++ v +++ NL.
Proof.
  unfold kv, ljust. rewrite app_assoc_s. f_equal. simpl (" " +++ _).
  rewrite spaces_snoc. reflexivity.
Qed.

(* collapse *)
Lemma collapse_nosp s p : no_sp s = true -> collapse s p = s.
Proof.
  revert p. induction s; intros p H; simpl in *; [reflexivity|].
  apply andb_true_iff in H. destruct H as [A B]. apply negb_true_iff in A. rewrite A.
  rewrite IHs by assumption. reflexivity.
Qed.

Lemma collapse_app_nosp k r p :
  no_sp k = true -> k <> "" -> collapse (k +++ r) p = k +++ collapse r false.
Proof.
  revert p. induction k; intros p H Hne; [congruence|]. simpl in *.
  apply andb_true_iff in H. destruct H as [A B]. apply negb_true_iff in A. rewrite A.
  destruct k.
  - reflexivity.
  - rewrite IHk by (assumption || discriminate). reflexivity.
Qed.

Lemma collapse_spaces_true n r : collapse (spaces n +++ r) true = collapse r true.
Proof. induction n; simpl; [reflexivity|]. assumption. Qed.

Lemma collapse_spaces n r :
  collapse (spaces (S n) +++ r) false = String sp (collapse r true).
Proof. simpl. rewrite collapse_spaces_true. reflexivity. Qed.

(* split1 *)
Lemma split1_nonnil s : split1 s <> [].
Proof.
  induction s; simpl; [discriminate|]. destruct (is_sp a); [discriminate|].
  destruct (split1 s); [congruence|discriminate].
Qed.

Lemma split1_nosp s : no_sp s = true -> split1 s = [s].
Proof.
  induction s; simpl; intros H; [reflexivity|].
  apply andb_true_iff in H. destruct H as [A B]. apply negb_true_iff in A. rewrite A.
  rewrite IHs by assumption. reflexivity.
Qed.

Lemma split1_app k r : no_sp k = true -> split1 (k +++ String sp r) = k :: split1 r.
Proof.
  induction k; simpl; intros H.
  - reflexivity.
  - apply andb_true_iff in H. destruct H as [A B]. apply negb_true_iff in A. rewrite A.
    rewrite IHk by assumption. reflexivity.
Qed.

(* tokens of a rendered line with an arbitrary value text *)
Lemma tokens_key k n w :
  no_sp k = true -> k <> "" ->
  tokens (k +++ spaces (S n) +++ w) = k :: split1 (collapse w true).
Proof.
  intros H Hne. unfold tokens. rewrite collapse_app_nosp by assumption.
  rewrite collapse_spaces. apply split1_app. assumption.
Qed.

(* ... and with a blank-free value *)
Lemma tokens_kv k n v :
  no_sp k = true -> k <> "" -> no_sp v = true ->
  tokens (k +++ spaces (S n) +++ v +++ NL) = [k; v +++ NL].
Proof.
  intros H Hne Hv. rewrite tokens_key by assumption.
  assert (E : no_sp (v +++ NL) = true) by (unfold no_sp in *; rewrite sall_app, Hv; reflexivity).
  rewrite collapse_nosp by assumption. rewrite split1_nosp by assumption. reflexivity.
Qed.

(* strip *)
Lemma rstrip_app_nl v : no_ws v = true -> rstrip (v +++ NL) = v.
Proof.
  induction v; simpl; intros H; [reflexivity|].
  apply andb_true_iff in H. destruct H as [A B]. apply negb_true_iff in A.
  rewrite IHv by assumption. rewrite A. reflexivity.
Qed.

Lemma strip_app_nl v : no_ws v = true -> strip (v +++ NL) = v.
Proof.
  intros H. unfold strip. destruct v as [|c r]; [reflexivity|].
  pose proof H as H'. simpl in H. apply andb_true_iff in H. destruct H as [A B].
  apply negb_true_iff in A.
  change (lstrip (String c r +++ NL)) with (if is_ws c then lstrip (r +++ NL) else String c (r +++ NL)).
  rewrite A. apply (rstrip_app_nl (String c r)). exact H'.
Qed.

(* readlines *)
Lemma readlines_line b r : no_nl b = true -> readlines (b +++ String nl r) = (b +++ NL) :: readlines r.
Proof.
  induction b; intros H.
  - reflexivity.
  - simpl in H. apply andb_true_iff in H. destruct H as [A B]. apply negb_true_iff in A.
    change (readlines (String a b +++ String nl r))
      with (if is_nl a then String a "" :: readlines (b +++ String nl r)
            else match readlines (b +++ String nl r) with
                 | l :: ls => String a l :: ls
                 | [] => [String a ""]
                 end).
    rewrite A, IHb by assumption. reflexivity.
Qed.

Definition line_wf (l : string) : Prop := exists b, l = b +++ NL /\ no_nl b = true.

Lemma app_NL b r : (b +++ NL) +++ r = b +++ String nl r.
Proof. rewrite app_assoc_s. reflexivity. Qed.

Lemma readlines_concat ls :
  Forall line_wf ls -> readlines (String.concat "" ls) = ls.
Proof.
  induction 1 as [|l ls (b & -> & Hb) Hls IH]; [reflexivity|].
  destruct ls as [|l' ls'].
  - change (String.concat "" [b +++ NL]) with (b +++ NL).
    rewrite <- (app_nil_r_s (b +++ NL)), app_NL, readlines_line by assumption. reflexivity.
  - change (String.concat "" ((b +++ NL) :: l' :: ls'))
      with ((b +++ NL) +++ "" +++ String.concat "" (l' :: ls')).
    change ("" +++ String.concat "" (l' :: ls')) with (String.concat "" (l' :: ls')).
    rewrite app_NL, readlines_line by assumption. rewrite IH. reflexivity.
Qed.

Lemma spaces_no_nl n : no_nl (spaces n) = true.
Proof. induction n; simpl; auto. Qed.

Lemma kv_line_wf w k v : no_nl k = true -> no_nl v = true -> line_wf (kv w k v).
Proof.
  intros Hk Hv. rewrite kv_unfold. eexists. split.
  - rewrite <- !app_assoc_s. reflexivity.
  - unfold no_nl in *. rewrite !sall_app, Hk, Hv. fold (no_nl (spaces (S (Z.to_nat (w - Z.of_nat (String.length k)))))).
    rewrite spaces_no_nl. reflexivity.
Qed.

(* ---------------- decimal integers ---------------- *)
Definition is_dm (c : ascii) : bool :=
  let n := Z.of_N (N_of_ascii c) in ((48 <=? n) && (n <=? 57)) || (n =? 45).

Lemma is_dm_not_ws c : is_dm c = true -> is_ws c = false.
Proof. unfold is_dm, is_ws. destruct c as [[] [] [] [] [] [] [] []]; vm_compute; congruence. Qed.
Lemma is_dm_not_plus c : is_dm c = true -> Ascii.eqb c "+"%char = false.
Proof. unfold is_dm. destruct c as [[] [] [] [] [] [] [] []]; vm_compute; congruence. Qed.

Lemma uint_chars d : sall is_dm (NilEmpty.string_of_uint d) = true.
Proof. induction d; simpl; try assumption; reflexivity. Qed.

Lemma nzuint_chars d : sall is_dm (NilZero.string_of_uint d) = true.
Proof. destruct d; try apply uint_chars. reflexivity. Qed.

Lemma show_Z_chars z : sall is_dm (show_Z z) = true.
Proof.
  unfold show_Z. destruct (Z.to_int z); simpl.
  - apply nzuint_chars.
  - apply nzuint_chars.
Qed.

Lemma show_Z_no_ws z : no_ws (show_Z z) = true.
Proof.
  eapply sall_imp; [|apply show_Z_chars]. intros c H. rewrite is_dm_not_ws by assumption. reflexivity.
Qed.
Lemma show_Z_no_sp z : no_sp (show_Z z) = true.
Proof. apply no_ws_no_sp, show_Z_no_ws. Qed.
Lemma show_Z_no_nl z : no_nl (show_Z z) = true.
Proof. apply no_ws_no_nl, show_Z_no_ws. Qed.

Lemma parse_Z_dm s :
  sall is_dm s = true -> parse_Z s = option_map Z.of_int (NilZero.int_of_string s).
Proof.
  intros H. destruct s as [|c [|c' r]]; try reflexivity.
  simpl in H. apply andb_true_iff in H. destruct H as [A _].
  unfold parse_Z. rewrite (is_dm_not_plus c A). reflexivity.
Qed.

Lemma to_int_not_nil z : Z.to_int z <> Decimal.Pos Decimal.Nil /\ Z.to_int z <> Decimal.Neg Decimal.Nil.
Proof.
  destruct z; simpl; split; try discriminate;
    intros H; injection H as H; apply (Unsigned.to_uint_nonnil p); assumption.
Qed.

(* int(str(z)) = z *)
Lemma parse_show z : parse_Z (show_Z z) = Some z.
Proof.
  rewrite parse_Z_dm by apply show_Z_chars. unfold show_Z.
  destruct (to_int_not_nil z) as [A B]. rewrite NilZero.isi by assumption.
  simpl. rewrite DecimalZ.of_to. reflexivity.
Qed.

(* every (NBITS, PIXELTYPE, BYTEORDER) triple Grid.save writes is mapped back to
   the type by the parser's expression: finite sweep over 11 types x 2 orders *)
Lemma dtype_sweep d bo :
  In d all_dtypes ->
  np_dtype (border_char bo +++ resub_pt (lower (upper (pixeltype_text d))) +++ show_Z (snd d * 8 / 8))
  = Some d.
Proof.
  cbn [all_dtypes In]. intros H.
  repeat (destruct H as [H|H]; [subst d; destruct bo; vm_compute; reflexivity|]). contradiction.
Qed.

