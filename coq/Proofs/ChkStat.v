(* Overflow-checked counterparts of Proofs/SafeStat.v.

   The theorems below are about [program_chk] (Gen/KernelsAstChk.v), the translation of
   the C kernels in which every signed integer +, -, *, /, unary -, ++, --, op= is wrapped
   in [IChk W32] (C [int]) or [IChk W64] (C [long long]).  [exec_fun .. program_chk .. = Ok r]
   therefore says, besides memory safety / no division by zero / no bad cast / termination,
   that NO SIGNED INTEGER OVERFLOW (undefined behaviour in C) occurs.

     src/hydrodiy/data/c_dutils.c      : c_combi
     src/hydrodiy/stat/c_olsleverage.c : c_olsleverage
     src/hydrodiy/stat/c_andersondarling.c, AnDarl.c :
        c_andersondarling.compare, adinf, errfix, AD, ADtest, c_ad_test, c_ad_probn,
        c_ad_probapproxinf

   INT_MAX = 2147483647, INT_MIN = -2147483648, LLONG_MAX = 9223372036854775807. *)
From Coq Require Import ZArith Bool List String Lia.
From Coq Require Import PrimFloat.
From Hy Require Import Base.Num Base.MiniC Gen.KernelsAstChk.
Import ListNotations.
Open Scope string_scope.
Open Scope list_scope.
Open Scope Z_scope.

(* ================================================================== *)
(* The overflow test                                                    *)
(* ================================================================== *)

Lemma in_width_W32_iff v : in_width W32 v = true <-> -2147483648 <= v <= 2147483647.
Proof. unfold in_width. rewrite andb_true_iff, !Z.leb_le. reflexivity. Qed.

Lemma in_width_W64_iff v :
  in_width W64 v = true <-> -9223372036854775808 <= v <= 9223372036854775807.
Proof. unfold in_width. rewrite andb_true_iff, !Z.leb_le. reflexivity. Qed.

Lemma in_width_W32 v : -2147483648 <= v <= 2147483647 -> in_width W32 v = true.
Proof. apply in_width_W32_iff. Qed.

Lemma in_width_W64 v :
  -9223372036854775808 <= v <= 9223372036854775807 -> in_width W64 v = true.
Proof. apply in_width_W64_iff. Qed.

Lemma in_width_W32_false v : v < -2147483648 \/ 2147483647 < v -> in_width W32 v = false.
Proof.
  intros H. destruct (in_width W32 v) eqn:E; [|reflexivity].
  apply in_width_W32_iff in E. lia.
Qed.

(* the test stays folded during symbolic execution; it is discharged by [chk] *)
#[local] Arguments in_width : simpl never.

(* rewrite the overflow tests of the goal that follow from the context to [true] *)
Ltac chk1 :=
  match goal with
  | |- context[in_width W32 ?v] => rewrite (in_width_W32 v) by lia
  | |- context[in_width W64 ?v] => rewrite (in_width_W64 v) by lia
  end.
Ltac chk := repeat chk1.
(* the same with non-linear arithmetic (products of sizes) *)
Ltac chkn1 :=
  match goal with
  | |- context[in_width W32 ?v] => rewrite (in_width_W32 v) by nia
  | |- context[in_width W64 ?v] => rewrite (in_width_W64 v) by nia
  end.
Ltac chkn := repeat chkn1.

(* ================================================================== *)
(* Generic helpers about MiniC (copied from Proofs/SafeStat.v)          *)
(* ================================================================== *)

Ltac fold_loop_state n st :=
  match goal with
  | |- context[loop n _ _ ?s] => change s with st
  end.

Lemma zset_ok_len {A} (l : list A) (i : Z) (v : A) :
  0 <= i < Z.of_nat (List.length l) ->
  exists l', zset l i v = Some l' /\ List.length l' = List.length l.
Proof.
  intros H. destruct (zset l i v) as [l'|] eqn:E.
  - exists l'. split; [reflexivity|]. eapply zset_length; eassumption.
  - rewrite zset_ok in E by exact H. discriminate E.
Qed.

Lemma zget_ok_ex {A} (l : list A) (i : Z) :
  0 <= i < Z.of_nat (List.length l) -> exists x, zget l i = Some x.
Proof.
  intros H. destruct l as [|d l']; [cbn in H; lia|].
  eexists. apply (zget_ok _ _ d). exact H.
Qed.

Lemma alookup_aupd_eq {A} (x : string) (v : A) (l : list (string * A)) :
  alookup x (aupd x v l) = Some v.
Proof.
  induction l as [|[y w] l IH]; cbn [aupd alookup].
  - rewrite String.eqb_refl. reflexivity.
  - destruct (String.eqb x y) eqn:E; cbn [alookup]; rewrite ?String.eqb_refl, ?E; auto.
Qed.

(* ---- qsort (glibc merge sort) ---- *)

Section SortSafe.
Context {A : Type} (cmp : A -> A -> result Z) (P : A -> Prop).
Hypothesis cmp_ok : forall x y, P x -> P y -> exists c, cmp x y = Ok c.

Lemma mergeM_safe : forall fuel l1 l2,
  Forall P l1 -> Forall P l2 -> (List.length l1 + List.length l2 < fuel)%nat ->
  exists l, mergeM cmp fuel l1 l2 = Ok l /\
            List.length l = (List.length l1 + List.length l2)%nat /\ Forall P l.
Proof.
  induction fuel as [|f IH]; intros l1 l2 H1 H2 Hf; [lia|].
  destruct l1 as [|x r1].
  - exists l2. cbn. repeat split; assumption.
  - destruct l2 as [|y r2].
    + exists (x :: r1). cbn. repeat split; try assumption. lia.
    + cbn [mergeM].
      destruct (cmp_ok x y) as (c & Ec);
        [inversion H1; assumption|inversion H2; assumption|].
      rewrite Ec. cbn [bind].
      destruct (c <=? 0).
      * destruct (IH r1 (y :: r2)) as (l & El & Hl & HP);
          [inversion H1; assumption|assumption|cbn in *; lia|].
        rewrite El. cbn [bind]. exists (x :: l).
        split; [reflexivity|]. split; [cbn in *; lia|].
        constructor; [inversion H1; assumption|assumption].
      * destruct (IH (x :: r1) r2) as (l & El & Hl & HP);
          [assumption|inversion H2; assumption|cbn in *; lia|].
        rewrite El. cbn [bind]. exists (y :: l).
        split; [reflexivity|]. split; [cbn in *; lia|].
        constructor; [inversion H2; assumption|assumption].
Qed.

Lemma msortM_safe : forall fuel l,
  Forall P l -> (List.length l <= fuel)%nat -> (1 <= fuel)%nat ->
  exists l', msortM cmp fuel l = Ok l' /\ List.length l' = List.length l /\ Forall P l'.
Proof.
  induction fuel as [|f IH]; intros l HP Hlen Hf; [lia|].
  cbn [msortM].
  destruct (Nat.leb_spec (List.length l) 1) as [Hle|Hgt].
  - exists l. repeat split; assumption.
  - assert (Hd : (1 <= Nat.div2 (List.length l) < List.length l)%nat).
    { rewrite Nat.div2_div. split.
      - apply Nat.div_le_lower_bound; lia.
      - apply Nat.div_lt; lia. }
    assert (Hsplit : Forall P (firstn (Nat.div2 (List.length l)) l) /\
                     Forall P (skipn (Nat.div2 (List.length l)) l)).
    { apply Forall_app. rewrite firstn_skipn. exact HP. }
    destruct Hsplit as [HPa HPb].
    destruct (IH (firstn (Nat.div2 (List.length l)) l)) as (a & Ea & Hla & HPa');
      [exact HPa|rewrite firstn_length; lia|lia|].
    destruct (IH (skipn (Nat.div2 (List.length l)) l)) as (b & Eb & Hlb & HPb');
      [exact HPb|rewrite skipn_length; lia|lia|].
    rewrite Ea. cbn [bind]. rewrite Eb. cbn [bind].
    rewrite firstn_length in Hla. rewrite skipn_length in Hlb.
    destruct (mergeM_safe (S (List.length l)) a b HPa' HPb') as (m & Em & Hlm & HPm); [lia|].
    exists m. split; [exact Em|]. split; [lia|exact HPm].
Qed.

End SortSafe.

Lemma chunks_length {A} k n : forall (l : list A), List.length (chunks k n l) = n.
Proof. induction n as [|n IH]; intros l; [reflexivity|]. cbn [chunks List.length]. rewrite IH. reflexivity. Qed.

Lemma chunks1_all {A} n : forall (l : list A), (n <= List.length l)%nat ->
  Forall (fun c => List.length c = 1%nat) (chunks 1 n l).
Proof.
  induction n as [|n IH]; intros l H; [constructor|].
  destruct l as [|x l]; [cbn in H; lia|].
  cbn [chunks]. constructor; [reflexivity|]. apply IH. cbn in H. cbn. lia.
Qed.

Lemma concat_length1 {A} (ls : list (list A)) :
  Forall (fun c => List.length c = 1%nat) ls -> List.length (List.concat ls) = List.length ls.
Proof.
  induction 1 as [|c ls Hc _ IH]; [reflexivity|].
  cbn [List.concat]. rewrite app_length, Hc, IH. reflexivity.
Qed.

Lemma qsort_list_safe1 {T A} (callf : callee T) (cmpf : string) (mk : list A -> argval T)
      (name : string) (n : Z) (l : list A) :
  0 <= n <= zlen l ->
  (forall a b, List.length a = 1%nat -> List.length b = 1%nat ->
               exists c, cmp_call callf cmpf mk a b = Ok c) ->
  exists l', qsort_list callf cmpf mk name n 1 l = Ok l' /\ List.length l' = List.length l.
Proof.
  intros Hn Hcmp. rewrite zlen_eq in Hn. unfold qsort_list. rewrite zlen_eq.
  replace (n <? 0) with false by (symmetry; apply Z.ltb_ge; lia).
  replace (Z.of_nat (List.length l) <? n * 1) with false by (symmetry; apply Z.ltb_ge; lia).
  change (1 <? 1) with false. cbn [orb].
  change (Z.to_nat 1) with 1%nat.
  destruct (msortM_safe (cmp_call callf cmpf mk) (fun c => List.length c = 1%nat) Hcmp
              (S (Z.to_nat n)) (chunks 1 (Z.to_nat n) l)) as (srt & Es & Hls & HPs).
  - apply chunks1_all. lia.
  - rewrite chunks_length. lia.
  - lia.
  - rewrite Es. cbn [bind]. eexists. split; [reflexivity|].
    rewrite app_length, concat_length1 by exact HPs.
    rewrite Hls, chunks_length, skipn_length. lia.
Qed.

(* ================================================================== *)
(* c_combi: the arithmetic of the loop, as a pure function              *)
(* ================================================================== *)

(* new value of [ans] after the body of the loop on (n, ans, j) *)
Definition combi_next (nn ans j : Z) : Z :=
  if Z.rem nn j =? 0 then ans * Z.quot nn j
  else if Z.rem ans j =? 0 then Z.quot ans j * nn
  else Z.quot (ans * nn) j.

(* all the overflow tests of one iteration (body, then j++, n--) *)
Definition combi_ok1 (nn ans j : Z) : bool :=
  (if Z.rem nn j =? 0 then in_width W32 (Z.quot nn j) && in_width W64 (ans * Z.quot nn j)
   else if Z.rem ans j =? 0 then in_width W64 (Z.quot ans j) && in_width W64 (Z.quot ans j * nn)
   else in_width W64 (ans * nn) && in_width W64 (Z.quot (ans * nn) j))
  && in_width W32 (j + 1) && in_width W32 (nn - 1).

(* the loop  for(; j<=k; j++, n--)  passes all its tests *)
Fixpoint combi_run (fuel : nat) (nn ans j kk : Z) : bool :=
  match fuel with
  | O => kk <? j
  | S f => if j <=? kk
           then combi_ok1 nn ans j && combi_run f (nn - 1) (combi_next nn ans j) (j + 1) kk
           else true
  end.

Definition zrange (lo : Z) (n : nat) : list Z := map (fun i => lo + Z.of_nat i) (List.seq 0 n).

Lemma zrange_in lo n z : lo <= z < lo + Z.of_nat n -> In z (zrange lo n).
Proof.
  intros H. unfold zrange. apply in_map_iff. exists (Z.to_nat (z - lo)).
  split; [lia|]. apply in_seq. lia.
Qed.

(* Beyond the guard  k>30 || n-k>30  the loop runs only for 2 <= n <= 60 and
   1 <= min(k, n-k) <= 30: the 59 * 30 cases are checked by computation.  The largest value
   ever held by a long long is ans*n = 1548884519849475424 (n = 59, k = 29) < 2^63. *)
Lemma combi_table :
  forallb (fun n => forallb (fun kk => combi_run 30 n 1 1 kk) (zrange 1 30)) (zrange 2 59) = true.
Proof. vm_compute. reflexivity. Qed.

Lemma combi_run_ok n kk : 2 <= n <= 60 -> 1 <= kk <= 30 -> combi_run 30 n 1 1 kk = true.
Proof.
  intros Hn Hk. pose proof combi_table as H.
  rewrite forallb_forall in H. specialize (H n (zrange_in 2 59 n ltac:(lia))).
  rewrite forallb_forall in H. exact (H kk (zrange_in 1 30 kk ltac:(lia))).
Qed.

Lemma combi_run_skip fuel nn ans j kk : kk < j -> combi_run fuel nn ans j kk = true.
Proof.
  intros H. destruct fuel; cbn [combi_run].
  - apply Z.ltb_lt. exact H.
  - replace (j <=? kk) with false by (symmetry; apply Z.leb_gt; lia). reflexivity.
Qed.

(* ================================================================== *)

Section Chk.
Context {T : Type} (N : NumOps T) (X : NumLit T).

(* ------------------------------------------------------------------ *)
(* c_combi                                                              *)

Definition combi_state (nn kk ans j : Z) : state T :=
  {| s_i := [("n", nn); ("k", kk); ("ans", ans); ("j", j)];
     s_f := []; s_ai := []; s_af := [] |}.

Definition combi_inv (kk : Z) (i : nat) (st : state T) : Prop :=
  exists nn ans, Z.of_nat i <= Z.max 0 kk /\ kk <= 30 /\
    combi_run (30 - i) nn ans (1 + Z.of_nat i) kk = true /\
    st = combi_state nn kk ans (1 + Z.of_nat i).

Definition combi_post (r : outcome T * state T) : Prop :=
  exists nn kk ans j, r = (ONormal, combi_state nn kk ans j).

(* long long c_combi(int n, int k).
   Source theorem: safe_c_combi (safe for ALL n, k).
   Extra hypothesis: when k <= 30 the C code evaluates the int difference n-k (in the guard
   k>30 || n-k>30; when k>30 the || short-circuits): it must fit an int.  Nothing else: in
   particular the long long accumulator [ans] NEVER overflows once the guard is passed
   (n <= 60, see combi_table).  The hypothesis is also necessary: overflow_c_combi_nk. *)
Theorem chk_safe_c_combi (n k : Z) (fuel : nat) :
  (k <= 30 -> -2147483648 <= n - k <= 2147483647) ->
  (30 < fuel)%nat ->
  exists ret,
    exec_fun N X program_chk (S fuel) "c_combi" [AVI n; AVI k] = Ok (RI ret, [])
    /\ ((30 <? k) || (30 <? n - k) = true -> ret = -1).
Proof.
  intros Hnk Hfuel. cbn. rewrite ?truth_b2z.
  destruct (Z.ltb_spec 30 k) as [Hk|Hk].
  - cbn. chk. cbn. eexists; split; [reflexivity|]. intros _. reflexivity.
  - specialize (Hnk Hk). cbn. chk. cbn. rewrite ?truth_b2z.
    destruct (Z.ltb_spec 30 (n - k)) as [Hnk30|Hnk30].
    + cbn. chk. cbn. eexists; split; [reflexivity|]. intros _. reflexivity.
    + cbn. chk. cbn. rewrite ?truth_b2z.
      set (kk := if n - k <? k then n - k else k).
      assert (Hkk : kk <= 30) by (subst kk; destruct (n - k <? k); lia).
      assert (Hkk' : 1 <= kk -> 2 <= n <= 60)
        by (subst kk; destruct (Z.ltb_spec (n - k) k); lia).
      replace (if n - k <? k then Ok (n - k) else Ok k) with (@Ok Z kk)
        by (subst kk; destruct (n - k <? k); reflexivity).
      clearbody kk.
      cbn. norm_state.
      loop_with (combi_inv kk) combi_post 30%nat.
      * intros i st (nn & ans & Hi & _ & Hrun & ->).
        unfold combi_state. cbn. rewrite ?truth_b2z.
        destruct (Z.leb_spec (1 + Z.of_nat i) kk) as [Hle|Hgt].
        -- split; [lia|].
           replace (30 - i)%nat with (S (30 - S i))%nat in Hrun by lia.
           cbn [combi_run] in Hrun.
           replace (1 + Z.of_nat i <=? kk) with true in Hrun by (symmetry; apply Z.leb_le; lia).
           apply andb_prop in Hrun. destruct Hrun as [Hok Hrun].
           replace (1 + Z.of_nat i + 1) with (1 + Z.of_nat (S i)) in Hrun by lia.
           unfold combi_ok1 in Hok.
           apply andb_prop in Hok. destruct Hok as [Hok Hn1].
           apply andb_prop in Hok. destruct Hok as [Hok Hj1].
           unfold combi_next in Hrun.
           cbn.
           replace (1 + Z.of_nat i =? 0) with false by (symmetry; apply Z.eqb_neq; lia).
           cbn. rewrite ?truth_b2z.
           destruct (Z.rem nn (1 + Z.of_nat i) =? 0).
           ++ apply andb_prop in Hok. destruct Hok as [Ha Hb].
              cbn. zb. cbn. rewrite ?Ha. cbn. rewrite ?Hb. cbn. rewrite ?Hj1. cbn.
              rewrite ?Hn1. cbn.
              eexists (nn - 1), _. split; [lia|]. split; [lia|]. split; [exact Hrun|].
              norm_state. unfold combi_state.
              replace (1 + Z.of_nat i + 1) with (1 + Z.of_nat (S i)) by lia. reflexivity.
           ++ cbn. zb. cbn. rewrite ?truth_b2z.
              destruct (Z.rem ans (1 + Z.of_nat i) =? 0).
              ** apply andb_prop in Hok. destruct Hok as [Ha Hb].
                 cbn. zb. cbn. rewrite ?Ha. cbn. rewrite ?Hb. cbn. rewrite ?Hj1. cbn.
                 rewrite ?Hn1. cbn.
                 eexists (nn - 1), _. split; [lia|]. split; [lia|]. split; [exact Hrun|].
                 norm_state. unfold combi_state.
                 replace (1 + Z.of_nat i + 1) with (1 + Z.of_nat (S i)) by lia. reflexivity.
              ** apply andb_prop in Hok. destruct Hok as [Ha Hb].
                 cbn. zb. cbn. rewrite ?Ha. cbn. rewrite ?Hb. cbn. rewrite ?Hj1. cbn.
                 rewrite ?Hn1. cbn.
                 eexists (nn - 1), _. split; [lia|]. split; [lia|]. split; [exact Hrun|].
                 norm_state. unfold combi_state.
                 replace (1 + Z.of_nat i + 1) with (1 + Z.of_nat (S i)) by lia. reflexivity.
        -- split; [lia|]. cbn. exists nn, kk, ans, (1 + Z.of_nat i). reflexivity.
      * exists n, 1. split; [lia|]. split; [exact Hkk|]. split; [|reflexivity].
        change (30 - 0)%nat with 30%nat. change (1 + Z.of_nat 0) with 1.
        destruct (Z.le_gt_cases 1 kk) as [H1|H1].
        -- apply combi_run_ok; [apply Hkk'; exact H1|lia].
        -- apply combi_run_skip. lia.
      * lia.
      * destruct HL as (r & -> & nn & kk' & ans & j & ->). cbn.
        eexists; split; [reflexivity|]. intros H. discriminate H.
Qed.

(* the hypothesis of chk_safe_c_combi is necessary: e.g. c_combi(INT_MAX, -1),
   c_combi(INT_MIN, 1), c_combi(-2147483640, 30) *)
Lemma overflow_c_combi_nk (n k : Z) (fuel : nat) :
  k <= 30 -> n - k < -2147483648 \/ 2147483647 < n - k ->
  exec_fun N X program_chk (S fuel) "c_combi" [AVI n; AVI k] = Err (Overflow true (n - k)).
Proof.
  intros Hk Hnk. cbn. rewrite ?truth_b2z.
  replace (30 <? k) with false by (symmetry; apply Z.ltb_ge; lia).
  cbn. rewrite (in_width_W32_false (n - k)) by exact Hnk. reflexivity.
Qed.

(* ------------------------------------------------------------------ *)
(* c_olsleverage                                                        *)

Definition ols_state (nval np i j k : Z) (p1 p2 xx lev : T) (P Xi L : list T) : state T :=
  {| s_i := [("nval", nval); ("npreds", np); ("i", i); ("j", j); ("k", k)];
     s_f := [("pred1", p1); ("pred2", p2); ("xx", xx); ("lev", lev)];
     s_ai := [];
     s_af := [("predictors", P); ("tXXinv", Xi); ("leverage", L)] |}.

Definition ols_kbody : stmt :=
  seq [(SSetF "xx" (FArr "tXXinv" (IChk W32 (IBin IAdd (IChk W32 (IBin IMul (IVar "npreds") (IVar "j"))) (IVar "k")))));
       (SSetF "pred2" (FArr "predictors" (IChk W32 (IBin IAdd (IChk W32 (IBin IMul (IVar "npreds") (IVar "i"))) (IVar "k")))));
       (SSetF "lev" (FBin FAdd (FVar "lev") (FBin FMul (FBin FMul (FVar "pred1") (FVar "pred2")) (FVar "xx"))))].

Definition ols_kloop_stmt : stmt :=
  SFor (ICmp CLt (IVar "k") (IVar "npreds"))
       (SSetI "k" (IChk W32 (IBin IAdd (IVar "k") (IConst 1)))) ols_kbody.

Definition ols_jbody : stmt :=
  seq [(SSetF "pred1" (FArr "predictors" (IChk W32 (IBin IAdd (IChk W32 (IBin IMul (IVar "npreds") (IVar "i"))) (IVar "j")))));
       (SSetI "k" (IConst 0));
       ols_kloop_stmt;
       (SStoreF "leverage" (IVar "i") (FVar "lev"))].

Definition ols_jloop_stmt : stmt :=
  SFor (ICmp CLt (IVar "j") (IVar "npreds"))
       (SSetI "j" (IChk W32 (IBin IAdd (IVar "j") (IConst 1)))) ols_jbody.

(* innermost loop: for(k=0; k<npreds; k++).  The int expressions npreds*j, npreds*j+k,
   npreds*i, npreds*i+k (k < npreds) and k+1 (<= npreds) must fit an int. *)
Lemma ols_kloop (callf : callee T) fuel nval np i j p1 p2 xx lev P Xi L :
  0 <= i -> 0 <= j < np -> np * i + np <= zlen P -> np * j + np <= zlen Xi ->
  np <= 2147483647 -> np * i + np <= 2147483648 -> np * j + np <= 2147483648 ->
  (Z.to_nat np < fuel)%nat ->
  exists p2' xx' lev',
    exec N X callf fuel ols_kloop_stmt (ols_state nval np i j 0 p1 p2 xx lev P Xi L)
    = Ok (ONormal, ols_state nval np i j np p1 p2' xx' lev' P Xi L).
Proof.
  intros Hi Hj HP HXi Hnpw HPw HXiw Hfuel. rewrite !zlen_eq in *.
  set (Inv := fun (kk : nat) (st : state T) =>
         Z.of_nat kk <= np /\ exists p2' xx' lev',
           st = ols_state nval np i j (Z.of_nat kk) p1 p2' xx' lev' P Xi L).
  set (Post := fun (r : outcome T * state T) =>
         exists p2' xx' lev', r = (ONormal, ols_state nval np i j np p1 p2' xx' lev' P Xi L)).
  cbn.
  loop_with Inv Post (Z.to_nat np).
  - intros kk st (Hkk & p2' & xx' & lev' & ->).
    split; [lia|]. unfold ols_state. cbn.
    destruct (Z.ltb_spec (Z.of_nat kk) np) as [Hlt|Hge].
    + assert (Hnpi : 0 <= np * i) by nia.
      assert (Hnpj : 0 <= np * j) by nia.
      cbn. chk. cbn. chk. cbn.
      rewrite (zget_ok Xi _ (n0 N)) by lia. cbn. chk. cbn. chk. cbn.
      rewrite (zget_ok P _ (n0 N)) by lia. cbn. chk. cbn.
      split; [lia|]. do 3 eexists. norm_state. unfold ols_state.
      replace (Z.of_nat kk + 1) with (Z.of_nat (S kk)) by lia. reflexivity.
    + cbn. exists p2', xx', lev'. unfold ols_state.
      assert (Hnp : np = Z.of_nat kk) by lia. rewrite <- Hnp. reflexivity.
  - split; [lia|]. exists p2, xx, lev. reflexivity.
  - lia.
  - destruct HL as (r & E & p2' & xx' & lev' & ->). exists p2', xx', lev'. exact E.
Qed.

Definition ols_post (nval np i : Z) (P Xi : list T) (len : nat) (r : outcome T * state T) : Prop :=
  exists j k p1 p2 xx lev L',
    List.length L' = len /\ r = (ONormal, ols_state nval np i j k p1 p2 xx lev P Xi L').

(* middle loop: for(j=0; j<npreds; j++) *)
Lemma ols_jloop (callf : callee T) fuel nval np i k0 p1 p2 xx lev P Xi L :
  0 <= i ->
  (0 < np -> np * i + np <= zlen P /\ np * np <= zlen Xi /\ i < zlen L /\
             np * i + np <= 2147483648 /\ np * np <= 2147483648) ->
  (Z.to_nat np < fuel)%nat ->
  exists r,
    exec N X callf fuel ols_jloop_stmt (ols_state nval np i 0 k0 p1 p2 xx lev P Xi L) = Ok r
    /\ ols_post nval np i P Xi (List.length L) r.
Proof.
  intros Hi Hlen Hfuel. rewrite !zlen_eq in *.
  set (Inv := fun (jj : nat) (st : state T) =>
         Z.of_nat jj <= Z.max 0 np /\ exists k p1 p2 xx lev L',
           List.length L' = List.length L /\
           st = ols_state nval np i (Z.of_nat jj) k p1 p2 xx lev P Xi L').
  cbn.
  loop_with Inv (ols_post nval np i P Xi (List.length L)) (Z.to_nat np).
  - intros jj st (Hjj & k & q1 & q2 & qx & ql & L' & HL' & ->).
    split; [lia|]. unfold ols_state. cbn.
    destruct (Z.ltb_spec (Z.of_nat jj) np) as [Hlt|Hge].
    + destruct Hlen as (HP & HXi & HL & HPw & HXiw); [lia|].
      assert (Hnpi : 0 <= np * i) by nia.
      assert (Hnpj : np * Z.of_nat jj + np <= np * np) by nia.
      assert (Hnpw : np <= 2147483647) by nia.
      cbn. chk. cbn. chk. cbn.
      rewrite (zget_ok P _ (n0 N)) by lia. cbn.
      set (q1' := nth _ P (n0 N)).
      destruct (ols_kloop callf fuel nval np i (Z.of_nat jj) q1' q2 qx ql P Xi L')
        as (p2' & xx' & lev' & E); try rewrite zlen_eq; try lia.
      unfold ols_kloop_stmt in E. cbn in E.
      fold_loop_state fuel (ols_state nval np i (Z.of_nat jj) 0 q1' q2 qx ql P Xi L').
      rewrite E. unfold ols_state. cbn.
      destruct (zset_ok_len L' i lev') as (L'' & EL & HL''); [lia|].
      rewrite EL. cbn. chk. cbn.
      split; [lia|]. do 6 eexists. split; [|norm_state; unfold ols_state;
        replace (Z.of_nat jj + 1) with (Z.of_nat (S jj)) by lia; reflexivity].
      lia.
    + cbn. exists (Z.of_nat jj), k, q1, q2, qx, ql, L'. split; [exact HL'|reflexivity].
  - split; [lia|]. exists k0, p1, p2, xx, lev, L. split; reflexivity.
  - lia.
  - exact HL.
Qed.

(* int c_olsleverage(int nval, int npreds, double* predictors, double* tXXinv, double* leverage).
   Source theorem: safe_c_olsleverage (same conclusion, same buffer-length hypotheses).
   Extra hypotheses, all about C [int] arithmetic:
   - nval <= INT_MAX (it is a C int): the last i++ yields nval;
   - when both loops run, the flat indices are computed in [int]:
       npreds*i + j, npreds*i + k  (i < nval, j,k < npreds)  : up to nval*npreds - 1
       npreds*j + k                (j,k < npreds)            : up to npreds*npreds - 1
     hence nval*npreds <= INT_MAX + 1 and npreds*npreds <= INT_MAX + 1 (which also bound
     j++ and k++ by npreds <= INT_MAX). *)
Theorem chk_safe_c_olsleverage (nval np : Z) (P Xi L : list T) (fuel : nat) :
  (0 < nval -> 0 < np -> nval * np <= zlen P /\ np * np <= zlen Xi /\ nval <= zlen L) ->
  nval <= 2147483647 ->
  (0 < nval -> 0 < np -> nval * np <= 2147483648 /\ np * np <= 2147483648) ->
  (Z.to_nat nval < fuel)%nat -> (Z.to_nat np < fuel)%nat ->
  exists L',
    exec_fun N X program_chk (S fuel) "c_olsleverage"
      [AVI nval; AVI np; AVArrF P; AVArrF Xi; AVArrF L]
    = Ok (RI 0, [VArrF P; VArrF Xi; VArrF L'])
    /\ List.length L' = List.length L.
Proof.
  intros Hlen Hnval Hw Hf1 Hf2. rewrite !zlen_eq in *.
  set (Inv := fun (ii : nat) (st : state T) =>
         Z.of_nat ii <= Z.max 0 nval /\ exists j k p1 p2 xx lev L',
           List.length L' = List.length L /\
           st = ols_state nval np (Z.of_nat ii) j k p1 p2 xx lev P Xi L').
  set (Post := fun (r : outcome T * state T) =>
         exists i, ols_post nval np i P Xi (List.length L) r).
  cbn. norm_state.
  loop_with Inv Post (Z.to_nat nval).
  - intros ii st (Hii & j & k & q1 & q2 & qx & ql & L' & HL' & ->).
    split; [lia|]. unfold ols_state. cbn.
    destruct (Z.ltb_spec (Z.of_nat ii) nval) as [Hlt|Hge].
    + cbn.
      destruct (ols_jloop (exec_fun N X program_chk fuel) fuel nval np (Z.of_nat ii) k q1 q2 qx
                  (nofZ N 0) P Xi L') as (r & E & HP); try lia.
      { intros Hnp. rewrite !zlen_eq. destruct Hlen as (H1 & H2 & H3); try lia.
        destruct Hw as (H4 & H5); try lia.
        repeat split; try lia; nia. }
      unfold ols_jloop_stmt, ols_jbody, ols_kloop_stmt, ols_kbody in E. cbn in E.
      fold_loop_state fuel (ols_state nval np (Z.of_nat ii) 0 k q1 q2 qx (nofZ N 0) P Xi L').
      rewrite E.
      destruct HP as (j' & k' & p1' & p2' & xx' & lev' & L'' & HL'' & ->).
      unfold ols_state. cbn. chk. cbn.
      split; [lia|]. do 7 eexists. split; [|norm_state; unfold ols_state;
        replace (Z.of_nat ii + 1) with (Z.of_nat (S ii)) by lia; reflexivity].
      lia.
    + cbn. exists (Z.of_nat ii), j, k, q1, q2, qx, ql, L'. split; [exact HL'|reflexivity].
  - split; [lia|]. do 7 eexists. split; [|unfold ols_state; reflexivity]. reflexivity.
  - lia.
  - destruct HL as (r & -> & i & j' & k' & p1' & p2' & xx' & lev' & L'' & HL'' & ->).
    cbn. exists L''. split; [reflexivity|exact HL''].
Qed.

(* ------------------------------------------------------------------ *)
(* Anderson-Darling: the libm functions                                 *)

Definition ext_total (f : string) : Prop := forall args, next X f args <> None.

Lemma ext_total_ex f : ext_total f -> forall v, exists y, next X f [v] = Some y.
Proof.
  intros H v. destruct (next X f [v]) as [y|] eqn:E; [exists y; reflexivity|].
  exfalso. exact (H _ E).
Qed.

Ltac ext_step H :=
  match goal with
  | |- context[next X ?f [?v]] =>
      let y := fresh "y" in let Hy := fresh "Hy" in
      destruct (ext_total_ex f H v) as [y Hy]; rewrite Hy; clear Hy
  end.

(* ---- the comparator of qsort: the only int operation is the literal -1 ---- *)

Lemma chk_safe_ad_compare (a b : T) (r1 r2 : list T) (fuel : nat) :
  exists c,
    exec_fun N X program_chk (S fuel) "c_andersondarling.compare" [AVArrF (a :: r1); AVArrF (b :: r2)]
    = Ok (RI c, [VArrF (a :: r1); VArrF (b :: r2)]) /\ -1 <= c <= 1.
Proof.
  cbn. rewrite ?truth_b2z.
  destruct (nltb N b a); cbn; [eexists; split; [reflexivity|lia]|].
  rewrite ?truth_b2z.
  destruct (neqb N a b); cbn; [eexists; split; [reflexivity|lia]|].
  rewrite ?truth_b2z.
  destruct (nltb N a b); cbn; chk; cbn; eexists; (split; [reflexivity|lia]).
Qed.

(* ---- adinf (no integer arithmetic at all) ---- *)

Lemma chk_safe_adinf (z : T) (fuel : nat) :
  ext_total "exp" ->
  exists r, exec_fun N X program_chk (S fuel) "adinf" [AVF z] = Ok (RF r, []).
Proof.
  intros Hexp. cbn. rewrite ?truth_b2z.
  destruct (nltb N z _); cbn.
  - ext_step Hexp. cbn. eexists; reflexivity.
  - ext_step Hexp. cbn. ext_step Hexp. cbn. eexists; reflexivity.
Qed.

(* ---- errfix, AD: the term .0037/(n*n) was computed with an INT product n*n (finding of
        the first version of this file: UB for |n| > 46340); the library now computes
        .0037/((double)n*n) (AnDarl.c), so that neither function performs any integer
        arithmetic ---- *)

(* double errfix(int n, double x).  Source theorem: safe_errfix.  No extra hypothesis. *)
Lemma chk_safe_errfix (n : Z) (x : T) (fuel : nat) :
  exists r, exec_fun N X program_chk (S fuel) "errfix" [AVI n; AVF x] = Ok (RF r, []).
Proof.
  cbn. rewrite ?truth_b2z.
  destruct (nltb N _ x); cbn; [eexists; reflexivity|].
  rewrite ?truth_b2z.
  destruct (nltb N x _); cbn; chk; cbn; eexists; reflexivity.
Qed.

(* double AD(int n, double z).  Source theorem: safe_AD.  No extra hypothesis. *)
Lemma chk_safe_AD (n : Z) (z : T) (fuel : nat) :
  ext_total "exp" -> (0 < fuel)%nat ->
  exists r, exec_fun N X program_chk (S fuel) "AD" [AVI n; AVF z] = Ok (RF r, []).
Proof.
  intros Hexp Hfuel.
  cbn. destruct fuel as [|fuel]; [lia|].
  destruct (chk_safe_adinf z fuel Hexp) as (x & Ex). rewrite Ex. cbn.
  rewrite ?truth_b2z.
  destruct (nltb N _ x); cbn; [eexists; reflexivity|].
  rewrite ?truth_b2z.
  destruct (nltb N x _); cbn; chk; cbn; eexists; reflexivity.
Qed.

(* ---- ADtest ---- *)

Definition adt_state (n i : Z) (nanv t z prev zero : T) (x outs : list T) : state T :=
  {| s_i := [("n", n); ("i", i)];
     s_f := [("nan", nanv); ("t", t); ("z", z); ("prev", prev); ("zero", zero)];
     s_ai := [];
     s_af := [("x", x); ("outputs", outs)] |}.

Definition adt_loop_stmt (c1 c2 c3 : Z) : stmt :=
  SFor (ICmp CLt (IVar "i") (IVar "n")) (SSetI "i" (IChk W32 (IBin IAdd (IVar "i") (IConst 1))))
  (seq [(SIf (IOr (IFCmp CLt (FArr "x" (IVar "i")) (FOfInt (IConst 0))) (IFCmp CGt (FArr "x" (IVar "i")) (FOfInt (IConst 1))))
          (SRetI (IChk W32 (IBin IAdd (IConst 500000) (IConst c1)))) SSkip);
       (SIf (IIsnan (FArr "x" (IVar "i")))
          (SRetI (IChk W32 (IBin IAdd (IConst 500000) (IConst c2)))) SSkip);
       (SIf (IFCmp CLt (FArr "x" (IVar "i")) (FVar "prev"))
          (SRetI (IChk W32 (IBin IAdd (IConst 500000) (IConst c3)))) SSkip);
       (SSetF "t" (FBin FMul (FArr "x" (IVar "i")) (FBin FSub (FLit (0x1.0000000000000p+0)%float 1 1) (FArr "x" (IChk W32 (IBin ISub (IChk W32 (IBin ISub (IVar "n") (IConst 1))) (IVar "i")))))));
       (SSetF "z" (FBin FSub (FVar "z") (FBin FMul (FOfInt (IChk W32 (IBin IAdd (IChk W32 (IBin IAdd (IVar "i") (IVar "i"))) (IConst 1)))) (FExt1 "log" (FVar "t")))));
       (SSetF "prev" (FArr "x" (IVar "i")))]).

Definition adt_post (n : Z) (nanv zero : T) (x outs : list T) (r : outcome T * state T) : Prop :=
  exists i t z prev,
    r = (ONormal, adt_state n i nanv t z prev zero x outs) \/
    exists code, 0 < code /\ r = (ORet (RI code), adt_state n i nanv t z prev zero x outs).

(* the loop of ADtest: int expressions i++ (<= n), n-1, n-1-i (>= 0), i+i and i+i+1
   (<= 2n-1): they fit an int iff n <= 2^30 = 1073741824.  The error codes are
   ANDARL_ERROR + __LINE__ (the translator abstracts __LINE__): the lemma is generic in the
   three constants *)
Lemma adt_loop (callf : callee T) fuel c1 c2 c3 n nanv t z prev zero x outs :
  ext_total "log" -> 0 <= c1 <= 1000000 -> 0 <= c2 <= 1000000 -> 0 <= c3 <= 1000000 ->
  n <= zlen x -> n <= 1073741824 -> (Z.to_nat n < fuel)%nat ->
  exists r,
    exec N X callf fuel (adt_loop_stmt c1 c2 c3) (adt_state n 0 nanv t z prev zero x outs) = Ok r
    /\ adt_post n nanv zero x outs r.
Proof.
  intros Hlog Hc1 Hc2 Hc3 Hx Hn30 Hfuel. rewrite zlen_eq in Hx.
  set (Inv := fun (ii : nat) (st : state T) =>
         Z.of_nat ii <= Z.max 0 n /\ exists t z prev,
           st = adt_state n (Z.of_nat ii) nanv t z prev zero x outs).
  cbn.
  loop_with Inv (adt_post n nanv zero x outs) (Z.to_nat n).
  - intros ii st (Hii & t' & z' & prev' & ->).
    split; [lia|]. unfold adt_state. cbn.
    destruct (Z.ltb_spec (Z.of_nat ii) n) as [Hlt|Hge].
    + destruct (zget_ok_ex x (Z.of_nat ii)) as (a & Ha); [lia|].
      destruct (zget_ok_ex x (n - 1 - Z.of_nat ii)) as (b & Hb); [lia|].
      cbn. rewrite Ha. cbn. rewrite ?truth_b2z.
      destruct (nltb N a (nofZ N 0)); cbn.
      { chk. cbn. exists (Z.of_nat ii), t', z', prev'. right. eexists; split; [|reflexivity]. lia. }
      rewrite ?Ha; cbn; rewrite ?truth_b2z.
      destruct (nltb N (nofZ N 1) a); cbn.
      { chk. cbn. exists (Z.of_nat ii), t', z', prev'. right. eexists; split; [|reflexivity]. lia. }
      rewrite ?Ha; cbn; rewrite ?truth_b2z.
      destruct (nisnan N a); cbn.
      { chk. cbn. exists (Z.of_nat ii), t', z', prev'. right. eexists; split; [|reflexivity]. lia. }
      rewrite ?Ha; cbn; rewrite ?truth_b2z.
      destruct (nltb N a prev'); cbn.
      { chk. cbn. exists (Z.of_nat ii), t', z', prev'. right. eexists; split; [|reflexivity]. lia. }
      rewrite ?Ha; cbn. chk. cbn. chk. cbn.
      rewrite Hb. cbn. chk. cbn. chk. cbn. ext_step Hlog. cbn. rewrite ?Ha; cbn. chk. cbn.
      split; [lia|]. do 3 eexists. norm_state. unfold adt_state.
      replace (Z.of_nat ii + 1) with (Z.of_nat (S ii)) by lia. reflexivity.
    + cbn. exists (Z.of_nat ii), t', z', prev'. left. reflexivity.
  - split; [lia|]. exists t, z, prev. reflexivity.
  - lia.
  - exact HL.
Qed.

Ltac norm_loop_state fuel :=
  match goal with
  | |- context[loop fuel _ _ ?s] =>
      let s' := eval cbv [set_i set_f set_ai set_af aupd s_i s_f s_ai s_af st_empty
                          String.eqb Ascii.eqb Bool.eqb] in s in
      change s with s'
  end.

(* int ADtest(int n, double *x, double *outputs).
   Source theorem: safe_ADtest (same conclusion, same buffer / libm / fuel hypotheses).
   Extra hypotheses, the int arithmetic of ADtest itself (AD, adinf perform none):
   - n <= 2^30 = 1073741824: in the loop, i+i+1 reaches 2n-1 (i = n-1), which must be
     <= INT_MAX; this also covers i++ (<= n), n-1 and n-1-i (in [0, n-1]);
   - INT_MIN < n: after the loop the code evaluates -n (twice), also when n <= 0. *)
Theorem chk_safe_ADtest (n : Z) (x outs : list T) (fuel : nat) :
  ext_total "exp" -> ext_total "log" ->
  n <= zlen x -> 2 <= zlen outs ->
  -2147483647 <= n <= 1073741824 ->
  (Z.to_nat n < fuel)%nat -> (1 < fuel)%nat ->
  exists code outs',
    exec_fun N X program_chk (S fuel) "ADtest" [AVI n; AVArrF x; AVArrF outs]
    = Ok (RI code, [VArrF x; VArrF outs']) /\ 0 <= code /\ List.length outs' = List.length outs.
Proof.
  intros Hexp Hlog Hx Houts Hn Hf1 Hf2.
  destruct outs as [|o0 [|o1 outs]]; try (cbn in Houts; lia).
  cbn. norm_loop_state fuel.
  (* the three error codes are ANDARL_ERROR + <constant>: read the constants off the goal *)
  match goal with
  | |- context[loop fuel _
         (for_body (exec _ _ _ _
            (SSeq (SIf _ (SRetI (IChk W32 (IBin IAdd _ (IConst ?c1)))) _)
            (SSeq (SIf _ (SRetI (IChk W32 (IBin IAdd _ (IConst ?c2)))) _)
            (SSeq (SIf _ (SRetI (IChk W32 (IBin IAdd _ (IConst ?c3)))) _) _)))) _) _] =>
      edestruct (adt_loop (exec_fun N X program_chk fuel) fuel c1 c2 c3 n) as (r & E & HP);
        [exact Hlog|lia|lia|lia|exact Hx|lia|exact Hf1|]
  end.
  unfold adt_loop_stmt, adt_state in E. cbn in E. rewrite E. clear E.
  destruct HP as (i & t & z & prev & [->|(code & Hcode & ->)]).
  - unfold adt_state. cbn. chk. cbn.
    destruct fuel as [|fuel]; [lia|].
    destruct (chk_safe_AD n (nadd N (nofZ N (- n)) (ndiv N z (nofZ N n))) fuel Hexp) as (p & Ep);
      [lia|].
    chk. cbn -[exec_fun]. rewrite Ep. cbn. rewrite ?truth_b2z.
    destruct (nltb N _ (nlit X 0 0 1)); cbn.
    + do 2 eexists. split; [reflexivity|]. split; [lia|reflexivity].
    + rewrite ?truth_b2z. destruct (nltb N (nlit X 1 1 1) _); cbn.
      * do 2 eexists. split; [reflexivity|]. split; [lia|reflexivity].
      * do 2 eexists. split; [reflexivity|]. split; [lia|reflexivity].
  - unfold adt_state. cbn.
    do 2 eexists. split; [reflexivity|]. split; [lia|reflexivity].
Qed.

(* ---- c_ad_test ---- *)

(* int c_ad_test(int nval, double *unifdata, double *outputs) = qsort + ADtest.
   Source theorem: safe_c_ad_test (same conclusion and hypotheses).
   Extra hypothesis: nval <= 2^30 = 1073741824, required by the callee ADtest (i+i+1 reaches
   2*nval-1).  c_ad_test itself performs no integer arithmetic. *)
Theorem chk_safe_c_ad_test (nval : Z) (unifdata outs : list T) (fuel : nat) :
  ext_total "exp" -> ext_total "log" ->
  0 <= nval <= zlen unifdata -> 2 <= zlen outs ->
  nval <= 1073741824 ->
  (S (Z.to_nat nval) < fuel)%nat -> (2 < fuel)%nat ->
  exists code data' outs',
    exec_fun N X program_chk (S fuel) "c_ad_test" [AVI nval; AVArrF unifdata; AVArrF outs]
    = Ok (RI code, [VArrF data'; VArrF outs']) /\ 0 <= code /\
    List.length data' = List.length unifdata /\ List.length outs' = List.length outs.
Proof.
  intros Hexp Hlog Hn Houts Hnn Hf1 Hf2.
  cbn -[qsort_list].
  destruct (qsort_list_safe1 (exec_fun N X program_chk fuel) "c_andersondarling.compare"
              (@AVArrF T) "unifdata" nval unifdata Hn) as (srt & Es & Hls).
  { intros a b Ha Hb.
    destruct a as [|a0 [|? ?]]; try discriminate Ha.
    destruct b as [|b0 [|? ?]]; try discriminate Hb.
    destruct fuel as [|fuel]; [lia|].
    destruct (chk_safe_ad_compare a0 b0 [] [] fuel) as (c & Ec & _).
    unfold cmp_call. rewrite Ec. cbn. exists c. reflexivity. }
  rewrite Es. cbn. rewrite !zlen_eq.
  replace (Z.of_nat (List.length srt) <? 0) with false by (symmetry; apply Z.ltb_ge; lia).
  replace (Z.of_nat (List.length outs) <? 0) with false by (symmetry; apply Z.ltb_ge; lia).
  cbn.
  destruct fuel as [|fuel]; [lia|].
  destruct (chk_safe_ADtest nval srt outs fuel Hexp Hlog) as (code & outs' & Et & Hcode & Hlo);
    try lia.
  { rewrite !zlen_eq in *. lia. }
  rewrite Et. cbn.
  exists code, srt, outs'. repeat split; assumption.
Qed.

(* ---- c_ad_probn, c_ad_probapproxinf:
        for(i=0; i<nval; i++) prob[i] = f(.., unifdata[i]) ---- *)

Definition prob_state (extra : list (string * Z)) (nval i : Z) (sf : list (string * T))
           (U P : list T) : state T :=
  {| s_i := ("nval", nval) :: extra ++ [("i", i)];
     s_f := sf; s_ai := [];
     s_af := [("unifdata", U); ("prob", P)] |}.

Definition prob_loop_stmt (cs : stmt) : stmt :=
  SFor (ICmp CLt (IVar "i") (IVar "nval"))
       (SSetI "i" (IChk W32 (IBin IAdd (IVar "i") (IConst 1))))
       (SSeq cs (SStoreF "prob" (IVar "i") (FVar "_t1"))).

(* the only int operation of the loop is i++ (<= nval <= INT_MAX) *)
Lemma prob_loop (callf : callee T) fuel (cs : stmt) extra nval U P :
  (extra = [] \/ exists ns, extra = [("nsample", ns)]) ->
  (forall i sf P', 0 <= i < nval -> List.length P' = List.length P ->
     exists v, exec N X callf fuel cs (prob_state extra nval i sf U P')
               = Ok (ONormal, set_f (prob_state extra nval i sf U P') "_t1" v)) ->
  nval <= zlen P -> nval <= 2147483647 -> (Z.to_nat nval < fuel)%nat ->
  exists i sf P', List.length P' = List.length P /\
    exec N X callf fuel (prob_loop_stmt cs) (prob_state extra nval 0 [] U P)
    = Ok (ONormal, prob_state extra nval i sf U P').
Proof.
  intros Hextra Hcall HP Hmax Hfuel. rewrite zlen_eq in HP.
  set (Inv := fun (ii : nat) (st : state T) =>
         Z.of_nat ii <= Z.max 0 nval /\ exists sf P',
           List.length P' = List.length P /\
           st = prob_state extra nval (Z.of_nat ii) sf U P').
  set (Post := fun (r : outcome T * state T) =>
         exists i sf P', List.length P' = List.length P /\
                         r = (ONormal, prob_state extra nval i sf U P')).
  cbn.
  loop_with Inv Post (Z.to_nat nval).
  - intros ii st (Hii & sf & P' & HP' & ->).
    split; [lia|].
    destruct (Z.ltb_spec (Z.of_nat ii) nval) as [Hlt|Hge].
    + destruct (Hcall (Z.of_nat ii) sf P') as (v & Ev); [lia|exact HP'|].
      destruct (zset_ok_len P' (Z.of_nat ii) v) as (P'' & EP & HP''); [lia|].
      destruct Hextra as [->|(ns & ->)]; unfold prob_state in *; cbn in *.
      all: replace (Z.of_nat ii <? nval) with true by (symmetry; apply Z.ltb_lt; lia); cbn.
      all: rewrite Ev; cbn; unfold get_f; cbn; rewrite alookup_aupd_eq; cbn.
      all: rewrite EP; cbn.
      all: rewrite (in_width_W32 (Z.of_nat ii + 1)) by lia; cbn.
      all: split; [lia|]; exists (aupd "_t1" v sf), P''; split; [lia|].
      all: replace (Z.of_nat ii + 1) with (Z.of_nat (S ii)) by lia; reflexivity.
    + destruct Hextra as [->|(ns & ->)]; unfold prob_state; cbn.
      all: replace (Z.of_nat ii <? nval) with false by (symmetry; apply Z.ltb_ge; lia); cbn.
      all: exists (Z.of_nat ii), sf, P'; split; [exact HP'|reflexivity].
  - split; [lia|]. exists [], P. split; reflexivity.
  - lia.
  - destruct HL as (r & E & i & sf & P' & HP' & ->). exists i, sf, P'. split; assumption.
Qed.

(* int c_ad_probapproxinf(int nval, double *unifdata, double *prob).
   Source theorem: safe_c_ad_probapproxinf.  Extra hypothesis: nval <= INT_MAX (it is a C
   int): the last i++ yields nval.  adinf performs no integer arithmetic. *)
Theorem chk_safe_c_ad_probapproxinf (nval : Z) (U P : list T) (fuel : nat) :
  ext_total "exp" ->
  nval <= zlen U -> nval <= zlen P ->
  nval <= 2147483647 ->
  (Z.to_nat nval < fuel)%nat -> (0 < fuel)%nat ->
  exists P',
    exec_fun N X program_chk (S fuel) "c_ad_probapproxinf" [AVI nval; AVArrF U; AVArrF P]
    = Ok (RI 0, [VArrF U; VArrF P']) /\ List.length P' = List.length P.
Proof.
  intros Hexp HU HP Hmax Hf1 Hf2. cbn.
  destruct (prob_loop (exec_fun N X program_chk fuel) fuel
              (SCall (DF "_t1") "adinf" [(AF (FArr "unifdata" (IVar "i")))]) [] nval U P)
    as (i & sf & P' & HP' & E); try assumption.
  { left; reflexivity. }
  { intros i sf P' Hi HP'. rewrite zlen_eq in HU.
    destruct (zget_ok_ex U i) as (u & Hu); [lia|].
    unfold prob_state. cbn. rewrite Hu. cbn.
    destruct fuel as [|fuel]; [lia|].
    destruct (chk_safe_adinf u fuel Hexp) as (r & Er). rewrite Er. cbn.
    exists r. reflexivity. }
  unfold prob_loop_stmt in E. cbn in E.
  fold_loop_state fuel (prob_state [] nval 0 [] U P).
  rewrite E. unfold prob_state. cbn.
  exists P'. split; [reflexivity|exact HP'].
Qed.

(* int c_ad_probn(int nval, int nsample, double *unifdata, double *prob).
   Source theorem: safe_c_ad_probn.  Extra hypothesis: nval <= INT_MAX (it is a C int): the
   last i++ yields nval.  Nothing on nsample: AD performs no integer arithmetic. *)
Theorem chk_safe_c_ad_probn (nval nsample : Z) (U P : list T) (fuel : nat) :
  ext_total "exp" ->
  nval <= zlen U -> nval <= zlen P ->
  nval <= 2147483647 ->
  (Z.to_nat nval < fuel)%nat -> (1 < fuel)%nat ->
  exists P',
    exec_fun N X program_chk (S fuel) "c_ad_probn" [AVI nval; AVI nsample; AVArrF U; AVArrF P]
    = Ok (RI 0, [VArrF U; VArrF P']) /\ List.length P' = List.length P.
Proof.
  intros Hexp HU HP Hmax Hf1 Hf2. cbn.
  destruct (prob_loop (exec_fun N X program_chk fuel) fuel
              (SCall (DF "_t1") "AD" [(AI (IVar "nsample")); (AF (FArr "unifdata" (IVar "i")))])
              [("nsample", nsample)] nval U P)
    as (i & sf & P' & HP' & E); try assumption.
  { right; eexists; reflexivity. }
  { intros i sf P' Hi HP'. rewrite zlen_eq in HU.
    destruct (zget_ok_ex U i) as (u & Hu); [lia|].
    unfold prob_state. cbn. rewrite Hu. cbn.
    destruct fuel as [|fuel]; [lia|].
    destruct (chk_safe_AD nsample u fuel Hexp) as (r & Er); [lia|].
    rewrite Er. cbn.
    exists r. reflexivity. }
  unfold prob_loop_stmt in E. cbn in E.
  fold_loop_state fuel (prob_state [("nsample", nsample)] nval 0 [] U P).
  rewrite E. unfold prob_state. cbn.
  exists P'. split; [reflexivity|exact HP'].
Qed.

End Chk.

(* ================================================================== *)
(* Concrete witnesses (binary64)                                        *)
(* ================================================================== *)

(* errfix(46341, 0.001): 46341*46341 = 2147488281 > INT_MAX overflowed the int product n*n
   of the former C text; with .0037/((double)n*n) the checked program runs to the end *)
Example errfix_46341_ok :
  exists r, exec_fun F64 XF64 program_chk 2 "errfix" [AVI 46341; AVF (0x1.0624dd2f1a9fcp-10)%float]
            = Ok (RF r, []).
Proof. vm_compute. eexists. reflexivity. Qed.

(* c_combi: n - k is an int subtraction *)
Lemma overflow_c_combi_intmax :
  exec_fun F64 XF64 program_chk 40 "c_combi" [AVI 2147483647; AVI (-1)]
  = Err (Overflow true 2147483648).
Proof. vm_compute. reflexivity. Qed.

(* c_combi(60, 30) = 118264581564861424: the largest value returned, no overflow *)
Lemma c_combi_60_30 :
  exec_fun F64 XF64 program_chk 40 "c_combi" [AVI 60; AVI 30] = Ok (RI 118264581564861424, []).
Proof. vm_compute. reflexivity. Qed.
