(* C07 on the regenerated program (MiniC translation of src/hydrodiy/gis/c_grid.c):
   coord2cell(cell2coord c) = c executed on the translated kernels over the reals -
   model theorems of Proofs/GridGeomProofs.v transported through Proofs/RefineGridGeom.v. *)
From Coq Require Import ZArith Bool List String Lia Reals.
From Hy Require Import Base.Num Base.MiniC Gen.KernelsAst Model.Grid
  Proofs.GridGeomProofs Proofs.RefineGrid Proofs.RefineGridGeom.
Import ListNotations.
Open Scope string_scope.
Open Scope list_scope.
Open Scope Z_scope.

Lemma pairs_cc_out nrows ncols (xll yll csz : R) idx :
  pairs (cc_out RR nrows ncols xll yll csz idx) = map (cell2coord RR nrows ncols xll yll csz) idx.
Proof.
  induction idx as [|c r IH]; [reflexivity|].
  unfold cc_out in *. cbn [flat_map map].
  destruct (cell2coord RR nrows ncols xll yll csz c) as [x y]. cbn [app pairs]. rewrite IH. reflexivity.
Qed.

Lemma cc_out_length {T} (N : NumOps T) nrows ncols (xll yll csz : T) idx :
  List.length (cc_out N nrows ncols xll yll csz idx) = (2 * List.length idx)%nat.
Proof.
  induction idx as [|c r IH]; [reflexivity|]. unfold cc_out in *. cbn [flat_map].
  destruct (cell2coord N nrows ncols xll yll csz c). cbn [app List.length]. rewrite IH. lia.
Qed.

(* for every grid with positive cell size, every list of VALID cell numbers and any
   initial buffer contents: c_cell2coord followed by c_coord2cell (both as translated
   from the C source) gives the cell numbers back *)
Theorem kernel_coord2cell_cell2coord nrows ncols (xll yll csz : R) idx bufxy bufc n :
  (0 < csz)%R -> 0 < ncols -> nrows <= cmax64 -> ncols <= cmax64 ->
  Forall (fun c => 0 <= c < nrows * ncols) idx ->
  List.length bufxy = (2 * List.length idx)%nat -> List.length bufc = List.length idx ->
  (List.length idx < n)%nat ->
  exists xy,
    exec_fun RR XRR program (S n) "c_cell2coord"
      [AVI nrows; AVI ncols; AVF xll; AVF yll; AVF csz; AVI (zlen idx); AVArrI idx; AVArrF bufxy]
      = Ok (RI 0, [VArrI idx; VArrF xy]) /\
    exec_fun RR XRR program (S n) "c_coord2cell"
      [AVI nrows; AVI ncols; AVF xll; AVF yll; AVF csz; AVI (zlen bufc); AVArrF xy; AVArrI bufc]
      = Ok (RI 0, [VArrF xy; VArrI idx]).
Proof.
  intros Hcsz Hnc Hr Hc Hv Hxy Hbc Hn.
  exists (cc_out RR nrows ncols xll yll csz idx). split.
  - apply refine_cell2coord_RR; assumption.
  - rewrite (refine_coord2cell_raw_RR nrows ncols xll yll csz _ bufc n Hr Hc);
      [|rewrite cc_out_length; lia|lia].
    rewrite pairs_cc_out, map_map.
    assert (E : map (fun x => coord2cell RR nrows ncols xll yll csz
                               (cell2coord RR nrows ncols xll yll csz x)) idx = idx).
    { clear Hxy Hbc Hn bufxy bufc. induction Hv as [|c r Hc' _ IH]; [reflexivity|].
      cbn [map]. rewrite IH. f_equal. apply coord2cell_cell2coord; assumption. }
    rewrite E. reflexivity.
Qed.
