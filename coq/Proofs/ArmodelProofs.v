(* Theorems about Model/Armodel.v (property C17). *)
From Coq Require Import ZArith Bool List Reals Lra Lia.
From Hy Require Import Base.Num Gen.Consts Model.Armodel.
Import ListNotations.
Open Scope R_scope.

(* ---------- sums ---------- *)
Fixpoint rsum (l : list R) : R := match l with [] => 0 | x :: r => x + rsum r end.
Definition prods (l : list (R * R)) : list R := map (fun pc => fst pc * snd pc) l.
Definition dot (a b : list R) : R := rsum (prods (combine a b)).

Lemma rsum_app l1 l2 : rsum (l1 ++ l2) = rsum l1 + rsum l2.
Proof. induction l1 as [|x l1 IH]; simpl; [lra | rewrite IH; lra]. Qed.

Lemma rsum_rev l : rsum (rev l) = rsum l.
Proof. induction l as [|x l IH]; simpl; [reflexivity | rewrite rsum_app, IH; simpl; lra]. Qed.

Lemma prods_rev l : prods (rev l) = rev (prods l).
Proof. unfold prods; apply map_rev. Qed.

Lemma fold_sim_term_RR l v : fold_left (sim_term RR) l v = v + rsum (prods l).
Proof.
  revert v; induction l as [|[p c] l IH]; intros v; simpl; [lra|].
  rewrite IH; unfold sim_term; simpl; lra.
Qed.

Lemma fold_sub_RR l v :
  fold_left (fun acc pc => nsub RR acc (nmul RR (fst pc) (snd pc))) l v = v - rsum (prods l).
Proof.
  revert v; induction l as [|[p c] l IH]; intros v; simpl; [lra|].
  rewrite IH; simpl; lra.
Qed.

Lemma fold_add_RR l v :
  fold_left (fun acc pc => nadd RR acc (nmul RR (fst pc) (snd pc))) l v = v + rsum (prods l).
Proof.
  revert v; induction l as [|[p c] l IH]; intros v; simpl; [lra|].
  rewrite IH; simpl; lra.
Qed.

Lemma sim_step_RR m params prev e :
  sim_step RR m params prev e =
  (e + dot params prev :: removelast prev, e + dot params prev + m).
Proof.
  unfold sim_step; cbn [nisnan RR]. rewrite fold_sim_term_RR, prods_rev, rsum_rev.
  reflexivity.
Qed.

Lemma res_step_RR m params prev x :
  res_step RR m params prev x =
  (x - m :: removelast prev, x - m - dot params prev).
Proof.
  unfold res_step; cbn [nisnan RR nsub]. rewrite fold_sub_RR, prods_rev, rsum_rev.
  reflexivity.
Qed.

(* ---------- the two kernels are mutually inverse (real numbers) ---------- *)
Lemma res_sim_loop m params prev e :
  res_loop RR m params prev (sim_loop RR m params prev e) = e.
Proof.
  revert prev; induction e as [|x e IH]; intros prev; [reflexivity|].
  cbn [sim_loop]. rewrite sim_step_RR. cbn [res_loop]. rewrite res_step_RR.
  replace (x + dot params prev + m - m) with (x + dot params prev) by lra.
  rewrite IH. f_equal. lra.
Qed.

Lemma sim_res_loop m params prev y :
  sim_loop RR m params prev (res_loop RR m params prev y) = y.
Proof.
  revert prev; induction y as [|x y IH]; intros prev; [reflexivity|].
  cbn [res_loop]. rewrite res_step_RR. cbn [sim_loop]. rewrite sim_step_RR.
  replace (x - m - dot params prev + dot params prev) with (x - m) by lra.
  rewrite IH. f_equal. lra.
Qed.

Theorem residual_of_sim m ini params e :
  ar_params_ok RR m ini params = true ->
  exists y, armodel_sim RR m ini params e = ArOk y /\
            armodel_residual RR m ini params y = ArOk e.
Proof.
  intros H. unfold armodel_sim, armodel_residual. rewrite H.
  eexists; split; [reflexivity|]. rewrite res_sim_loop. reflexivity.
Qed.

Theorem sim_of_residual m ini params y :
  ar_params_ok RR m ini params = true ->
  exists e, armodel_residual RR m ini params y = ArOk e /\
            armodel_sim RR m ini params e = ArOk y.
Proof.
  intros H. unfold armodel_sim, armodel_residual. rewrite H.
  eexists; split; [reflexivity|]. rewrite sim_res_loop. reflexivity.
Qed.

(* ---------- the simulation is the textbook recursion ---------- *)
(* centred history, most recent first; values before the start are [c] *)
Definition lagsum (params hist : list R) (c : R) : R :=
  rsum (map (fun k => nth k params 0 * nth k hist c) (seq 0 (length params))).

Fixpoint ar_rec (params : list R) (c : R) (hist innov : list R) : list R :=
  match innov with
  | [] => []
  | e :: rest =>
      let z := lagsum params hist c + e in
      z :: ar_rec params c (z :: hist) rest
  end.

Lemma dot_nth params prev d :
  length prev = length params ->
  dot params prev =
  rsum (map (fun k => nth k params 0 * nth k prev d) (seq 0 (length params))).
Proof.
  unfold dot. revert prev; induction params as [|p params IH]; intros prev H.
  - reflexivity.
  - destruct prev as [|c prev]; [discriminate|].
    injection H as H.
    change (combine (p :: params) (c :: prev)) with ((p, c) :: combine params prev).
    change (length (p :: params)) with (S (length params)).
    rewrite <- cons_seq, <- seq_shift, map_cons, map_map.
    unfold prods in *. cbn [map rsum fst snd nth]. rewrite (IH prev H). reflexivity.
Qed.

Lemma length_removelast {A} (l : list A) : length (removelast l) = (length l - 1)%nat.
Proof.
  induction l as [|a l IH]; [reflexivity|].
  destruct l as [|b l]; [reflexivity|].
  change (removelast (a :: b :: l)) with (a :: removelast (b :: l)).
  cbn [length] in *. rewrite IH. lia.
Qed.

Lemma nth_removelast {A} (l : list A) k d :
  (S k < length l)%nat -> nth k (removelast l) d = nth k l d.
Proof.
  revert k; induction l as [|a l IH]; intros k H; [simpl in H; lia|].
  destruct l as [|b l]; [simpl in H; lia|].
  change (removelast (a :: b :: l)) with (a :: removelast (b :: l)).
  destruct k as [|k]; [reflexivity|].
  cbn [nth]. apply IH. cbn [length] in *. lia.
Qed.

Definition agree (n : nat) (prev hist : list R) (c : R) : Prop :=
  length prev = n /\ forall k, (k < n)%nat -> nth k prev c = nth k hist c.

Lemma agree_step n prev hist c z :
  (1 <= n)%nat ->
  agree n prev hist c -> agree n (z :: removelast prev) (z :: hist) c.
Proof.
  intros Hn [Hl Hk]. split.
  - cbn [length]. rewrite length_removelast. lia.
  - intros k Hlt. destruct k as [|k]; [reflexivity|]. cbn [nth].
    rewrite nth_removelast by lia. apply Hk. lia.
Qed.

Lemma lagsum_agree params prev hist c :
  agree (length params) prev hist c -> dot params prev = lagsum params hist c.
Proof.
  intros [Hl Hk]. rewrite (dot_nth params prev c Hl). unfold lagsum.
  f_equal. apply map_ext_in. intros k Hin. apply in_seq in Hin.
  rewrite Hk by lia. reflexivity.
Qed.

Lemma sim_loop_rec m params c prev hist innov :
  (1 <= length params)%nat ->
  agree (length params) prev hist c ->
  sim_loop RR m params prev innov =
  map (fun z => z + m) (ar_rec params c hist innov).
Proof.
  intros Hn. revert prev hist; induction innov as [|e innov IH]; intros prev hist Hag.
  - reflexivity.
  - cbn [sim_loop ar_rec]. rewrite sim_step_RR.
    rewrite (lagsum_agree _ _ _ _ Hag).
    replace (e + lagsum params hist c) with (lagsum params hist c + e) by lra.
    cbn [map]. f_equal. apply IH. apply agree_step; assumption.
Qed.

Lemma nth_const {A B} (l : list A) (c : B) k : nth k (map (fun _ => c) l) c = c.
Proof. revert k; induction l as [|a l IH]; intros [|k]; simpl; auto. Qed.

Lemma ar_params_ok_length {T} (O : NumOps T) m ini params :
  ar_params_ok O m ini params = true ->
  (1 <= length params)%nat /\ (Z.of_nat (length params) <= ARMODEL_NPARAMSMAX)%Z.
Proof.
  unfold ar_params_ok. rewrite !andb_true_iff, !negb_true_iff.
  intros [[[[H1 H2] _] _] _].
  apply Nat.ltb_ge in H1. apply Nat.eqb_neq in H2.
  split; [lia|]. unfold ARMODEL_NPARAMSMAX in *. lia.
Qed.

Theorem sim_is_recursion m ini params innov :
  ar_params_ok RR m ini params = true ->
  armodel_sim RR m ini params innov =
  ArOk (map (fun z => z + m) (ar_rec params (ini - m) [] innov)).
Proof.
  intros H. unfold armodel_sim. rewrite H. f_equal.
  apply sim_loop_rec.
  - apply (ar_params_ok_length RR m ini params H).
  - split; [apply map_length|]. intros k _.
    change (nsub RR ini m) with (ini - m). rewrite nth_const. destruct k; reflexivity.
Qed.

(* ---------- missing data: instance-independent and on [RN] ---------- *)
Section Generic.
Context {T : Type} (O : NumOps T).
Hypothesis zero_not_nan : nisnan O (n0 O) = false.

Definition zero_fill (e : T) : T := if nisnan O e then n0 O else e.

Lemma sim_step_zero_fill m params prev e :
  sim_step O m params prev e = sim_step O m params prev (zero_fill e).
Proof.
  unfold sim_step, zero_fill. destruct (nisnan O e) eqn:E.
  - rewrite zero_not_nan. reflexivity.
  - rewrite E. reflexivity.
Qed.

Lemma sim_loop_zero_fill m params prev innov :
  sim_loop O m params prev innov = sim_loop O m params prev (map zero_fill innov).
Proof.
  revert prev; induction innov as [|e innov IH]; intros prev; [reflexivity|].
  cbn [sim_loop map]. rewrite <- sim_step_zero_fill.
  destruct (sim_step O m params prev e) as [p y]. rewrite IH. reflexivity.
Qed.

Theorem sim_missing_innov_is_zero m ini params innov :
  armodel_sim O m ini params innov = armodel_sim O m ini params (map zero_fill innov).
Proof.
  unfold armodel_sim. destruct (ar_params_ok O m ini params); [|reflexivity].
  rewrite sim_loop_zero_fill. reflexivity.
Qed.

(* rejections *)
Theorem reject_order_zero m ini innov :
  armodel_sim O m ini [] innov = ArErr /\ armodel_residual O m ini [] innov = ArErr.
Proof. unfold armodel_sim, armodel_residual, ar_params_ok; cbn [length Nat.eqb negb].
  rewrite andb_false_r. auto. Qed.

Theorem reject_order_too_large m ini params series :
  (ARMODEL_NPARAMSMAX < Z.of_nat (length params))%Z ->
  armodel_sim O m ini params series = ArErr /\
  armodel_residual O m ini params series = ArErr.
Proof.
  intros H. unfold armodel_sim, armodel_residual, ar_params_ok.
  assert (E : Nat.ltb (Z.to_nat ARMODEL_NPARAMSMAX) (length params) = true).
  { apply Nat.ltb_lt. unfold ARMODEL_NPARAMSMAX in *. lia. }
  rewrite E. cbn [negb andb]. auto.
Qed.

Theorem reject_nan_param m ini params series :
  existsb (nisnan O) params = true ->
  armodel_sim O m ini params series = ArErr /\
  armodel_residual O m ini params series = ArErr.
Proof.
  intros H. unfold armodel_sim, armodel_residual, ar_params_ok.
  assert (E : forallb (fun p => negb (nisnan O p)) params = false).
  { induction params as [|p ps IH]; [discriminate|]. cbn [existsb forallb] in *.
    destruct (nisnan O p); [reflexivity|]. cbn [negb andb orb] in *. auto. }
  rewrite E. rewrite !andb_false_r, ?andb_false_l. cbn [andb]. auto.
Qed.

Theorem reject_nan_mean_or_ini m ini params series :
  nisnan O m = true \/ nisnan O ini = true ->
  armodel_sim O m ini params series = ArErr /\
  armodel_residual O m ini params series = ArErr.
Proof.
  intros H. unfold armodel_sim, armodel_residual, ar_params_ok.
  destruct H as [H|H]; rewrite H; cbn [negb]; rewrite ?andb_false_r; auto.
Qed.
End Generic.

(* the accepted orders fit the C stack buffers (sizes re-extracted from the source) *)
Theorem order_fits_buffers {T} (O : NumOps T) m ini params :
  ar_params_ok O m ini params = true ->
  Forall (fun b => (Z.of_nat (length params) <= b)%Z) ARMODEL_BUFSIZES.
Proof.
  intros H. destruct (ar_params_ok_length O m ini params H) as [_ Hle].
  assert (Hb : forallb (fun b => (ARMODEL_NPARAMSMAX <=? b)%Z) ARMODEL_BUFSIZES = true)
    by (vm_compute; reflexivity).
  rewrite forallb_forall in Hb. apply Forall_forall. intros b Hin.
  specialize (Hb b Hin). apply Z.leb_le in Hb. lia.
Qed.

(* ---------- [RN]: real numbers with a missing value ---------- *)
Definition somes (l : list R) : list (option R) := map Some l.
Definition spairs (l : list (R * R)) : list (option R * option R) :=
  map (fun pc => (Some (fst pc), Some (snd pc))) l.

Lemma combine_somes a b : combine (somes a) (somes b) = spairs (combine a b).
Proof.
  revert b; induction a as [|x a IH]; intros [|y b]; try reflexivity.
  cbn. f_equal. apply IH.
Qed.

Lemma spairs_rev l : spairs (rev l) = rev (spairs l).
Proof. unfold spairs; apply map_rev. Qed.

Lemma fold_sim_term_RN l v :
  fold_left (sim_term RN) (spairs l) (Some v) = Some (fold_left (sim_term RR) l v).
Proof.
  revert v; induction l as [|[p c] l IH]; intros v; [reflexivity|].
  cbn [spairs map fold_left fst snd]. unfold sim_term at 2 4. cbn. apply IH.
Qed.

Lemma fold_add_RN l v :
  fold_left (fun acc pc => nadd RN acc (nmul RN (fst pc) (snd pc))) (spairs l) (Some v)
  = Some (fold_left (fun acc pc => nadd RR acc (nmul RR (fst pc) (snd pc))) l v).
Proof.
  revert v; induction l as [|[p c] l IH]; intros v; [reflexivity|]. cbn. apply IH.
Qed.

Lemma fold_sub_RN l v :
  fold_left (fun acc pc => nsub RN acc (nmul RN (fst pc) (snd pc))) (spairs l) (Some v)
  = Some (fold_left (fun acc pc => nsub RR acc (nmul RR (fst pc) (snd pc))) l v).
Proof.
  revert v; induction l as [|[p c] l IH]; intros v; [reflexivity|]. cbn. apply IH.
Qed.

Lemma removelast_somes l : removelast (somes l) = somes (removelast l).
Proof.
  induction l as [|a l IH]; [reflexivity|]. destruct l as [|b l]; [reflexivity|].
  change (somes (a :: b :: l)) with (Some a :: somes (b :: l)).
  change (somes (b :: l)) with (Some b :: somes l) at 1.
  change (removelast (Some a :: Some b :: somes l))
    with (Some a :: removelast (Some b :: somes l)).
  change (Some b :: somes l) with (somes (b :: l)). rewrite IH. reflexivity.
Qed.

Definition fill0 (e : option R) : R := match e with Some x => x | None => 0 end.

(* a missing innovation is a zero innovation; the output is never missing *)
Theorem sim_RN m params prev innov :
  sim_loop RN (Some m) (somes params) (somes prev) innov =
  somes (sim_loop RR m params prev (map fill0 innov)).
Proof.
  revert prev; induction innov as [|e innov IH]; intros prev; [reflexivity|].
  cbn [sim_loop map]. unfold sim_step at 1 2.
  rewrite combine_somes, <- spairs_rev.
  assert (E : (if nisnan RN e then n0 RN else e) = Some (fill0 e)) by (destruct e; reflexivity).
  rewrite E, fold_sim_term_RN. cbn [nisnan RR].
  rewrite removelast_somes.
  change (Some ?a :: somes ?l) with (somes (a :: l)).
  rewrite IH. reflexivity.
Qed.

(* a missing input gives a zero residual (and the buffer receives the AR prediction) *)
Theorem res_step_missing m params prev :
  res_step RN (Some m) (somes params) (somes prev) None =
  (somes (dot params prev :: removelast prev), Some 0).
Proof.
  unfold res_step. cbn [nsub RN olift2 nisnan].
  unfold res_pred. rewrite combine_somes. change (n0 RN) with (Some 0).
  rewrite fold_add_RN, fold_add_RR. rewrite <- spairs_rev, fold_sub_RN, fold_sub_RR.
  rewrite prods_rev, rsum_rev, removelast_somes. unfold dot.
  cbn [somes map]. f_equal; [f_equal; f_equal; lra | f_equal; lra].
Qed.

(* non-vacuity: the hypotheses are met by an AR(2) model *)
Example params_ok_example : ar_params_ok RR 1 3 [1/2; -1/4] = true.
Proof.
  unfold ar_params_ok. cbn. reflexivity.
Qed.
