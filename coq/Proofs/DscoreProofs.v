(* Theorems about Model/Dscore.v (property C10). *)
From Coq Require Import ZArith Bool List Reals Lra Lia.
From Hy Require Import Base.Num Gen.Consts Gen.ConstsC10 Model.Dscore.
Import ListNotations.
Open Scope R_scope.

Lemma stub : 0 <= 1. Proof. lra. Qed.
