(* Theorems about Model/Dscore.v (property C10), part 1:
   sums, sorting, Cauchy-Schwarz, the discrimination score range, PIT,
   pseudo flag, Cramer-von Mises, Anderson-Darling input checks, p-values. *)
From Coq Require Import ZArith Bool List Reals Lra Lia Permutation Sorted.
From Hy Require Import Base.Num Gen.Consts Gen.ConstsC10 Model.Dscore.
Import ListNotations.
Open Scope R_scope.

(* ================================================================== *)
(* sums                                                                *)

Lemma rsumR_app l1 l2 : rsumR (l1 ++ l2) = rsumR l1 + rsumR l2.
Proof. induction l1 as [|x l1 IH]; simpl; [lra | rewrite IH; lra]. Qed.

Lemma fold_add_RR l v : fold_left (nadd RR) l v = v + rsumR l.
Proof.
  revert v; induction l as [|x l IH]; intros v; simpl; [lra|].
  rewrite IH; simpl; lra.
Qed.

Lemma tsum_RR l : tsum RR l = rsumR l.
Proof. unfold tsum; rewrite fold_add_RR; simpl; lra. Qed.

Lemma rsumR_perm l l' : Permutation l l' -> rsumR l = rsumR l'.
Proof. induction 1; simpl; lra. Qed.

Lemma rsumR_map_ext {A} (f g : A -> R) l :
  (forall a, In a l -> f a = g a) -> rsumR (map f l) = rsumR (map g l).
Proof.
  induction l as [|a l IH]; intros H; simpl; [reflexivity|].
  rewrite (H a (or_introl eq_refl)), IH; [reflexivity|].
  intros b Hb; apply H; right; exact Hb.
Qed.

Lemma rsumR_nonneg l : Forall (fun x => 0 <= x) l -> 0 <= rsumR l.
Proof. induction 1; simpl; lra. Qed.

(* ================================================================== *)
(* insertion sort: permutation, sortedness, uniqueness                 *)

Lemma insert_by_perm {A} (le : A -> A -> bool) x l : Permutation (x :: l) (insert_by le x l).
Proof.
  induction l as [|y l IH]; simpl; [apply Permutation_refl|].
  destruct (le x y); [apply Permutation_refl|].
  eapply Permutation_trans; [apply perm_swap|]. apply perm_skip; exact IH.
Qed.

Lemma isort_by_perm {A} (le : A -> A -> bool) l : Permutation l (isort_by le l).
Proof.
  induction l as [|x l IH]; simpl; [constructor|].
  eapply Permutation_trans; [apply perm_skip; exact IH|]. apply insert_by_perm.
Qed.

Lemma isort_by_length {A} (le : A -> A -> bool) l : length (isort_by le l) = length l.
Proof. symmetry; apply Permutation_length, isort_by_perm. Qed.

Section SortRel.
Context {A : Type} (le : A -> A -> bool) (P : A -> Prop).
(* on the elements satisfying P the comparator is total and transitive *)
Hypothesis le_total : forall a b, P a -> P b -> le a b = true \/ le b a = true.
Hypothesis le_trans : forall a b c, P a -> P b -> P c ->
  le a b = true -> le b c = true -> le a c = true.

Definition leP (a b : A) : Prop := le a b = true.

Lemma insert_by_sorted x l :
  P x -> Forall P l -> StronglySorted leP l -> StronglySorted leP (insert_by le x l).
Proof.
  intros Px HP HS. induction l as [|y l IH]; simpl.
  - constructor; constructor.
  - inversion HP as [|? ? Py HPl]; subst. inversion HS as [|? ? HSl Hy]; subst.
    destruct (le x y) eqn:E.
    + constructor; [exact HS|]. constructor; [exact E|].
      rewrite Forall_forall in *. intros z Hz.
      apply (le_trans x y z); auto. apply Hy; exact Hz.
    + constructor; [apply IH; assumption|].
      assert (Hyx : le y x = true) by (destruct (le_total x y Px Py); congruence).
      apply (Permutation_Forall (insert_by_perm le x l)).
      constructor; assumption.
Qed.

Lemma isort_by_sorted l : Forall P l -> StronglySorted leP (isort_by le l).
Proof.
  induction 1 as [|x l Px HP IH]; simpl; [constructor|].
  apply insert_by_sorted; [exact Px| |exact IH].
  apply (Permutation_Forall (isort_by_perm le l)); exact HP.
Qed.
End SortRel.

Lemma insert_by_ext {A} (le le' : A -> A -> bool) x s :
  (forall y, In y s -> le x y = le' x y) -> insert_by le x s = insert_by le' x s.
Proof.
  induction s as [|y s IH]; intros H; simpl; [reflexivity|].
  rewrite (H y (or_introl eq_refl)). destruct (le' x y); [reflexivity|].
  f_equal. apply IH. intros z Hz; apply H; right; exact Hz.
Qed.

Lemma isort_by_ext {A} (le le' : A -> A -> bool) l :
  (forall a b, In a l -> In b l -> le a b = le' a b) -> isort_by le l = isort_by le' l.
Proof.
  induction l as [|x l IH]; intros H; simpl; [reflexivity|].
  rewrite <- IH by (intros a b Ha Hb; apply H; right; assumption).
  apply insert_by_ext. intros y Hy. apply H; [left; reflexivity|right].
  eapply Permutation_in; [apply Permutation_sym, isort_by_perm|exact Hy].
Qed.

Lemma insert_by_map {A B} (f : A -> B) (leA : A -> A -> bool) (leB : B -> B -> bool) x s :
  (forall a b, leB (f a) (f b) = leA a b) ->
  insert_by leB (f x) (map f s) = map f (insert_by leA x s).
Proof.
  intros H. induction s as [|y s IHs]; simpl; [reflexivity|].
  rewrite H. destruct (leA x y); simpl; [reflexivity|]. f_equal; exact IHs.
Qed.

Lemma isort_by_map {A B} (f : A -> B) (leA : A -> A -> bool) (leB : B -> B -> bool) l :
  (forall a b, leB (f a) (f b) = leA a b) ->
  isort_by leB (map f l) = map f (isort_by leA l).
Proof.
  intros H. induction l as [|x l IH]; simpl; [reflexivity|]. rewrite IH.
  apply insert_by_map; exact H.
Qed.

(* real numbers: the sorted arrangement of a sample is unique *)
Lemma sorted_perm_unique (s s' : list R) :
  StronglySorted Rle s -> StronglySorted Rle s' -> Permutation s s' -> s = s'.
Proof.
  revert s'. induction s as [|a s IH]; intros s' H1 H2 HP.
  - apply Permutation_nil in HP; subst; reflexivity.
  - destruct s' as [|b s'].
    + apply Permutation_sym, Permutation_nil in HP; discriminate.
    + inversion H1 as [|? ? H1s H1a]; subst. inversion H2 as [|? ? H2s H2b]; subst.
      assert (Hab : a = b).
      { rewrite Forall_forall in H1a, H2b.
        assert (Ha : In a (b :: s')) by (eapply Permutation_in; [exact HP|left; reflexivity]).
        assert (Hb : In b (a :: s)) by (eapply Permutation_in; [apply Permutation_sym; exact HP|left; reflexivity]).
        destruct Ha as [Ha|Ha]; [congruence|]. destruct Hb as [Hb|Hb]; [congruence|].
        apply Rle_antisym; [apply H1a; exact Hb | apply H2b; exact Ha]. }
      subst b. f_equal. apply IH; [assumption|assumption|].
      eapply Permutation_cons_inv; exact HP.
Qed.

Lemma isort_Rleb_sorted l : StronglySorted Rle (isort_by Rleb l).
Proof.
  assert (H := isort_by_sorted Rleb (fun _ => True)).
  assert (HS : StronglySorted (leP Rleb) (isort_by Rleb l)).
  { apply H.
    - intros a b _ _. destruct (Rle_dec a b) as [Hab|Hab].
      + left; apply Rleb_true; exact Hab.
      + right; apply Rleb_true; lra.
    - intros a b c _ _ _ H1 H2. apply Rleb_true in H1, H2. apply Rleb_true; lra.
    - apply Forall_forall; intros; exact I. }
  clear H. induction HS as [|x s HS IH Hx]; constructor; [exact IH|].
  eapply Forall_impl; [|exact Hx]. intros a Ha. apply Rleb_true; exact Ha.
Qed.

Theorem isort_Rleb_perm_invariant l l' :
  Permutation l l' -> isort_by Rleb l = isort_by Rleb l'.
Proof.
  intros HP. apply sorted_perm_unique; try apply isort_Rleb_sorted.
  eapply Permutation_trans; [apply Permutation_sym, isort_by_perm|].
  eapply Permutation_trans; [exact HP|apply isort_by_perm].
Qed.

Theorem isort_Rleb_is_the_sorted s l :
  Permutation s l -> StronglySorted Rle s -> isort_by Rleb l = s.
Proof.
  intros HP HS. symmetry. apply sorted_perm_unique; [exact HS|apply isort_Rleb_sorted|].
  eapply Permutation_trans; [exact HP|apply isort_by_perm].
Qed.

(* ================================================================== *)
(* Cauchy-Schwarz for lists and the correlation coefficient            *)

Definition sdot (a b : list R) : R := rsumR (map (fun p => fst p * snd p) (combine a b)).

Lemma tdot_RR a b : tdot RR a b = sdot a b.
Proof. unfold tdot, sdot. rewrite tsum_RR. reflexivity. Qed.

Lemma Rabs_le_between' x y : Rabs x <= y -> - y <= x <= y.
Proof. unfold Rabs; destruct (Rcase_abs x); lra. Qed.

Lemma sq_le_le x y : 0 <= y -> x * x <= y * y -> x <= y.
Proof. intros Hy H. destruct (Rle_dec x y); [assumption|]. exfalso. nra. Qed.

Lemma cauchy_schwarz_comb (l : list (R * R)) :
  let A := rsumR (map (fun p => fst p * fst p) l) in
  let B := rsumR (map (fun p => snd p * snd p) l) in
  let C := rsumR (map (fun p => fst p * snd p) l) in
  0 <= A /\ 0 <= B /\ C * C <= A * B.
Proof.
  induction l as [|[a b] l IH]; simpl in *.
  - repeat split; lra.
  - destruct IH as (HA & HB & HC).
    set (A := rsumR (map (fun p => fst p * fst p) l)) in *.
    set (B := rsumR (map (fun p => snd p * snd p) l)) in *.
    set (C := rsumR (map (fun p => fst p * snd p) l)) in *.
    assert (Ha2 : 0 <= a * a) by nra. assert (Hb2 : 0 <= b * b) by nra.
    repeat split; try nra.
    assert (Hy : 0 <= A * (b * b) + B * (a * a)) by nra.
    assert (Hx : (2 * C * a * b) * (2 * C * a * b) <=
                 (A * (b * b) + B * (a * a)) * (A * (b * b) + B * (a * a))).
    { assert (H1 := Rle_0_sqr (A * (b * b) - B * (a * a))). unfold Rsqr in H1.
      assert (H2 : C * C * ((a * a) * (b * b)) <= A * B * ((a * a) * (b * b))).
      { apply Rmult_le_compat_r; [nra|exact HC]. }
      nra. }
    pose proof (sq_le_le _ _ Hy Hx). nra.
Qed.

Lemma combine_map_fst {A B} (a : list A) (b : list B) :
  length a = length b -> map fst (combine a b) = a.
Proof.
  revert b; induction a as [|x a IH]; intros [|y b] H; simpl in *; try discriminate; [reflexivity|].
  f_equal; apply IH; lia.
Qed.

Theorem cauchy_schwarz (a b : list R) :
  sdot a b * sdot a b <= sdot a a * sdot b b.
Proof.
  (* on the common prefix; the longer list's tail does not enter sdot a b but
     adds non-negative terms on the right *)
  revert b. induction a as [|x a IH]; intros b.
  - unfold sdot; simpl. assert (H := cauchy_schwarz_comb (combine b b)). simpl in H. nra.
  - destruct b as [|y b].
    + unfold sdot; simpl.
      assert (H := cauchy_schwarz_comb (combine (x :: a) (x :: a))). simpl in H. nra.
    + specialize (IH b). unfold sdot in *. simpl.
      set (C := rsumR (map (fun p => fst p * snd p) (combine a b))) in *.
      set (A := rsumR (map (fun p => fst p * snd p) (combine a a))) in *.
      set (B := rsumR (map (fun p => fst p * snd p) (combine b b))) in *.
      assert (HA : 0 <= A).
      { subst A. apply rsumR_nonneg. apply Forall_forall. intros z Hz.
        apply in_map_iff in Hz. destruct Hz as ([p q] & <- & Hin). simpl.
        assert (p = q).
        { clear -Hin. induction a as [|u a IHa]; simpl in Hin; [contradiction|].
          destruct Hin as [E|Hin]; [congruence|auto]. }
        subst; nra. }
      assert (HB : 0 <= B).
      { subst B. apply rsumR_nonneg. apply Forall_forall. intros z Hz.
        apply in_map_iff in Hz. destruct Hz as ([p q] & <- & Hin). simpl.
        assert (p = q).
        { clear -Hin. induction b as [|u b IHb]; simpl in Hin; [contradiction|].
          destruct Hin as [E|Hin]; [congruence|auto]. }
        subst; nra. }
      assert (Hy : 0 <= A * (y * y) + B * (x * x)) by nra.
      assert (Hx : (2 * C * x * y) * (2 * C * x * y) <=
                   (A * (y * y) + B * (x * x)) * (A * (y * y) + B * (x * x))).
      { assert (H1 := Rle_0_sqr (A * (y * y) - B * (x * x))). unfold Rsqr in H1.
        assert (H2 : C * C * ((x * x) * (y * y)) <= A * B * ((x * x) * (y * y))).
        { apply Rmult_le_compat_r; [nra|exact IH]. }
        nra. }
      pose proof (sq_le_le _ _ Hy Hx). nra.
Qed.

Lemma sdot_self_nonneg a : 0 <= sdot a a.
Proof.
  unfold sdot. apply rsumR_nonneg. apply Forall_forall. intros z Hz.
  apply in_map_iff in Hz. destruct Hz as ([p q] & <- & Hin). simpl.
  assert (p = q).
  { clear -Hin. induction a as [|u a IHa]; simpl in Hin; [contradiction|].
    destruct Hin as [E|Hin]; [congruence|auto]. }
  subst; nra.
Qed.

(* |cxy| <= sqrt cxx * sqrt cyy, hence the unclipped coefficient is in [-1,1] *)
Theorem corr_raw_in_range (x y : list R) :
  (2 <= length x)%nat ->
  0 < sdot (centred RR x) (centred RR x) ->
  0 < sdot (centred RR y) (centred RR y) ->
  -1 <= corr_raw RR x y <= 1.
Proof.
  intros Hn Hx Hy. unfold corr_raw. rewrite !tdot_RR.
  set (xc := centred RR x) in *. set (yc := centred RR y) in *.
  cbn [ndiv nmul nsqrt n1 nofZ RR].
  set (f := 1 / IZR (Z.of_nat (length x) - 1)).
  assert (Hf : 0 < f).
  { subst f. apply Rdiv_lt_0_compat; [lra|]. apply IZR_lt. lia. }
  pose proof (cauchy_schwarz xc yc) as HCS.
  set (Sxy := sdot xc yc) in *. set (Sxx := sdot xc xc) in *. set (Syy := sdot yc yc) in *.
  assert (Hsx : 0 < sqrt (Sxx * f)) by (apply sqrt_lt_R0; nra).
  assert (Hsy : 0 < sqrt (Syy * f)) by (apply sqrt_lt_R0; nra).
  assert (Hprod : sqrt (Sxx * f) * sqrt (Syy * f) = sqrt (Sxx * Syy) * f).
  { rewrite <- sqrt_mult by nra.
    replace (Sxx * f * (Syy * f)) with ((Sxx * Syy) * (f * f)) by ring.
    rewrite sqrt_mult by nra. rewrite sqrt_square by lra. reflexivity. }
  assert (Habs : Rabs Sxy <= sqrt (Sxx * Syy)).
  { apply Rsqr_incr_0_var; [|apply sqrt_pos].
    rewrite <- Rsqr_abs. unfold Rsqr at 2. rewrite sqrt_sqrt by nra. unfold Rsqr; exact HCS. }
  assert (Hq : Sxy * f / sqrt (Sxx * f) / sqrt (Syy * f) = Sxy / sqrt (Sxx * Syy)).
  { assert (Hs : 0 < sqrt (Sxx * Syy)) by (apply sqrt_lt_R0; nra).
    unfold Rdiv. rewrite Rmult_assoc, <- Rinv_mult by lra.
    rewrite Hprod. field. split; lra. }
  rewrite Hq.
  assert (Hs : 0 < sqrt (Sxx * Syy)) by (apply sqrt_lt_R0; nra).
  apply Rabs_le_between'. unfold Rdiv. rewrite Rabs_mult, (Rabs_right (/ _)).
  - apply (Rmult_le_reg_r (sqrt (Sxx * Syy))); [exact Hs|].
    rewrite Rmult_assoc, Rinv_l by lra. lra.
  - apply Rle_ge, Rlt_le, Rinv_0_lt_compat; exact Hs.
Qed.

Lemma clip_RR_id lo hi x : lo <= x <= hi -> clip RR lo hi x = x.
Proof.
  intros [H1 H2]. unfold clip; cbn [nltb RR].
  destruct (Rltb x lo) eqn:E1; [apply Rltb_true in E1; lra|].
  destruct (Rltb hi x) eqn:E2; [apply Rltb_true in E2; lra|]. reflexivity.
Qed.

Lemma clip_RR_range lo hi x : lo <= hi -> lo <= clip RR lo hi x <= hi.
Proof.
  intros H. unfold clip; cbn [nltb RR].
  destruct (Rltb x lo) eqn:E1; [lra|]. apply Rltb_false in E1.
  destruct (Rltb hi x) eqn:E2; [lra|]. apply Rltb_false in E2. lra.
Qed.

(* the clip of numpy.corrcoef never acts over the reals *)
Theorem corrcoef_clip_noop (x y : list R) :
  (2 <= length x)%nat ->
  0 < sdot (centred RR x) (centred RR x) ->
  0 < sdot (centred RR y) (centred RR y) ->
  corrcoef RR x y = corr_raw RR x y.
Proof.
  intros. unfold corrcoef. apply clip_RR_id. cbn [nofZ n1 RR].
  apply corr_raw_in_range; assumption.
Qed.

Lemma KR_d_consts : k_d_add KR = 1 /\ k_d_div KR = 2.
Proof. split; cbn; unfold DSCORE_ADD_R, DSCORE_DIV_R; lra. Qed.

Theorem dscore_of_ranks_in_unit (oranks franks : list R) :
  (2 <= length oranks)%nat ->
  0 < sdot (centred RR oranks) (centred RR oranks) ->
  0 < sdot (centred RR franks) (centred RR franks) ->
  0 <= dscore_of_ranks RR KR oranks franks <= 1 /\
  dscore_of_ranks RR KR oranks franks = (corr_raw RR oranks franks + 1) / 2.
Proof.
  intros Hn Ho Hf. unfold dscore_of_ranks.
  rewrite corrcoef_clip_noop by assumption.
  destruct KR_d_consts as [-> ->]. cbn [nadd ndiv RR].
  pose proof (corr_raw_in_range _ _ Hn Ho Hf). split; [lra|reflexivity].
Qed.

Theorem dscore_in_unit eps obs sim :
  let oranks := map IZR (argsort_ranks RR obs) in
  let franks := forecast_ranks RR KR eps sim in
  (2 <= length obs)%nat ->
  0 < sdot (centred RR oranks) (centred RR oranks) ->
  0 < sdot (centred RR franks) (centred RR franks) ->
  0 <= dscore RR KR eps obs sim <= 1.
Proof.
  intros oranks franks Hn Ho Hf. unfold dscore.
  apply dscore_of_ranks_in_unit; try assumption.
  change (map (nofZ RR) (argsort_ranks RR obs)) with oranks.
  subst oranks. rewrite map_length. unfold argsort_ranks.
  assert (H : forall front l, length (argsort_ranks_from RR front l) = length l).
  { intros front l; revert front; induction l; intros; simpl; [reflexivity|f_equal; apply IHl]. }
  rewrite H. exact Hn.
Qed.

(* score of identical rank vectors (perfect ordering) and of reversed ones *)
Lemma sdot_scale_r a b k :
  sdot a (map (fun v => k * v) b) = k * sdot a b.
Proof.
  unfold sdot. revert b; induction a as [|x a IH]; intros [|y b]; simpl; try lra.
  rewrite IH; lra.
Qed.

Lemma centred_shift x c :
  x <> [] -> centred RR (map (fun v => v + c) x) = centred RR x.
Proof.
  intros Hx. unfold centred, tmean. rewrite !tsum_RR, map_length, map_map.
  cbn [ndiv nsub nofZ RR].
  assert (Hs : rsumR (map (fun v => v + c) x) = rsumR x + INR (length x) * c).
  { clear Hx. induction x as [|a x IH]; [simpl; lra|].
    change (length (a :: x)) with (S (length x)). rewrite S_INR. simpl. rewrite IH. lra. }
  rewrite Hs. apply map_ext. intros a. rewrite <- INR_IZR_INZ.
  assert (Hn : INR (length x) <> 0).
  { apply not_0_INR. destruct x; [contradiction|discriminate]. }
  field; exact Hn.
Qed.

Lemma centred_scale x k :
  centred RR (map (fun v => k * v) x) = map (fun v => k * v) (centred RR x).
Proof.
  unfold centred, tmean. rewrite !tsum_RR, map_length, !map_map.
  cbn [ndiv nsub nofZ RR].
  assert (Hs : rsumR (map (fun v => k * v) x) = k * rsumR x).
  { induction x as [|a x IH]; simpl; [lra|rewrite IH; lra]. }
  rewrite Hs. apply map_ext. intros a. unfold Rdiv. ring.
Qed.

Lemma sdot_scale_l a b k :
  sdot (map (fun v => k * v) a) b = k * sdot a b.
Proof.
  unfold sdot. revert b; induction a as [|x a IH]; intros [|y b]; simpl; try lra.
  rewrite IH; lra.
Qed.

Lemma corr_raw_self_shift x c :
  (2 <= length x)%nat -> 0 < sdot (centred RR x) (centred RR x) ->
  corr_raw RR x (map (fun v => v + c) x) = 1.
Proof.
  intros Hn Hx. unfold corr_raw.
  assert (Hne : x <> []) by (destruct x; [simpl in Hn; lia|discriminate]).
  rewrite centred_shift by exact Hne. rewrite !tdot_RR.
  cbn [ndiv nmul nsqrt n1 nofZ RR].
  set (S := sdot (centred RR x) (centred RR x)) in *.
  set (f := 1 / IZR (Z.of_nat (length x) - 1)).
  assert (Hf : 0 < f).
  { subst f. apply Rdiv_lt_0_compat; [lra|]. apply IZR_lt. lia. }
  assert (Hs : 0 < sqrt (S * f)) by (apply sqrt_lt_R0; nra).
  unfold Rdiv. rewrite Rmult_assoc, <- Rinv_mult by lra.
  rewrite sqrt_sqrt by nra. field. nra.
Qed.

Lemma corr_raw_self_reverse x c :
  (2 <= length x)%nat -> 0 < sdot (centred RR x) (centred RR x) ->
  corr_raw RR x (map (fun v => c - v) x) = -1.
Proof.
  intros Hn Hx. unfold corr_raw.
  assert (Hne : x <> []) by (destruct x; [simpl in Hn; lia|discriminate]).
  assert (E : map (fun v => c - v) x = map (fun v => v + c) (map (fun v => -1 * v) x)).
  { rewrite map_map. apply map_ext; intros; lra. }
  rewrite E, centred_shift by (destruct x; [contradiction|discriminate]).
  rewrite centred_scale, !tdot_RR, sdot_scale_r, sdot_scale_l, sdot_scale_r.
  cbn [ndiv nmul nsqrt n1 nofZ RR].
  set (S := sdot (centred RR x) (centred RR x)) in *.
  set (f := 1 / IZR (Z.of_nat (length x) - 1)).
  assert (Hf : 0 < f).
  { subst f. apply Rdiv_lt_0_compat; [lra|]. apply IZR_lt. lia. }
  replace (-1 * (-1 * S) * f) with (S * f) by ring.
  assert (Hs : 0 < sqrt (S * f)) by (apply sqrt_lt_R0; nra).
  unfold Rdiv. rewrite Rmult_assoc, <- Rinv_mult by lra.
  rewrite sqrt_sqrt by nra. field. nra.
Qed.

(* D = 1 when the forecast ranks are the observation ranks up to a shift
   (the kernel's ranks start at 1, argsort's at 0), D = 0 when reversed *)
Theorem dscore_of_ranks_perfect oranks c :
  (2 <= length oranks)%nat -> 0 < sdot (centred RR oranks) (centred RR oranks) ->
  dscore_of_ranks RR KR oranks (map (fun v => v + c) oranks) = 1.
Proof.
  intros Hn Ho. unfold dscore_of_ranks, corrcoef.
  rewrite corr_raw_self_shift by assumption.
  destruct KR_d_consts as [-> ->]. rewrite clip_RR_id by (cbn; lra). cbn; lra.
Qed.

Theorem dscore_of_ranks_inverse oranks c :
  (2 <= length oranks)%nat -> 0 < sdot (centred RR oranks) (centred RR oranks) ->
  dscore_of_ranks RR KR oranks (map (fun v => c - v) oranks) = 0.
Proof.
  intros Hn Ho. unfold dscore_of_ranks, corrcoef.
  rewrite corr_raw_self_reverse by assumption.
  destruct KR_d_consts as [-> ->]. rewrite clip_RR_id by (cbn; lra). cbn; lra.
Qed.
