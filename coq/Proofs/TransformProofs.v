(* C01 - every data transform is invertible on its domain: proofs over R about
   Model/Transform.v.  The extracted bounds of Gen/ConstsC01.v are used where
   an inverse needs them (scale > 0, xmax > 0, EPS > 0, inner BoxCox2 clip). *)
From Coq Require Import Reals List Bool Lra.
From Coquelicot Require Import Rbar.
From Hy Require Import Base.Num Gen.ConstsC01 Model.Transform.
Import ListNotations.
Open Scope R_scope.

(* ------------------------------------------------------------------ *)
(* constants                                                            *)
Lemma EPS_pos : 0 < EPS.
Proof. unfold EPS, TR_EPS; lra. Qed.
Lemma EPS_lt_1 : EPS < 1.
Proof. unfold EPS, TR_EPS; lra. Qed.
Lemma isclose_tol_nonneg b : 0 <= TR_ISCLOSE_ATOL + TR_ISCLOSE_RTOL * Rabs b.
Proof.
  assert (0 <= Rabs b) by apply Rabs_pos.
  assert (0 <= TR_ISCLOSE_ATOL) by (unfold TR_ISCLOSE_ATOL; lra).
  assert (0 <= TR_ISCLOSE_RTOL) by (unfold TR_ISCLOSE_RTOL; lra).
  assert (0 <= TR_ISCLOSE_RTOL * Rabs b) by (apply Rmult_le_pos; assumption).
  lra.
Qed.

Lemma not_isclose_neq a b : isclose a b = false -> a <> b.
Proof.
  unfold isclose; intros H E. apply Rleb_false in H.
  subst a. replace (b - b) with 0 in H by ring. rewrite Rabs_R0 in H.
  pose proof (isclose_tol_nonneg b). lra.
Qed.

(* booleans of the model <-> propositions *)
Lemma Rltb_cases x y : (Rltb x y = true /\ x < y) \/ (Rltb x y = false /\ y <= x).
Proof.
  destruct (Rltb x y) eqn:E.
  - left; split; auto. apply Rltb_true; auto.
  - right; split; auto. apply Rltb_false; auto.
Qed.
Lemma Rleb_cases x y : (Rleb x y = true /\ x <= y) \/ (Rleb x y = false /\ y < x).
Proof.
  destruct (Rleb x y) eqn:E.
  - left; split; auto. apply Rleb_true; auto.
  - right; split; auto. apply Rleb_false; auto.
Qed.

(* bounds *)
Lemma in_bounds_fin_lo a hi v : in_bounds (Finite a) hi v -> a <= v.
Proof. intros [H _]; exact H. Qed.
Lemma in_bounds_fin_hi lo b v : in_bounds lo (Finite b) v -> v <= b.
Proof. intros [_ H]; exact H. Qed.

Lemma vclip_id lo hi v : in_bounds lo hi v -> vclip lo hi v = v.
Proof.
  intros [H1 H2]. unfold vclip, clip_hi, clip_lo.
  destruct lo as [l| |]; destruct hi as [h| |]; simpl in *; try tauto;
    try (rewrite Rmax_left by assumption); try (rewrite Rmin_left by assumption); reflexivity.
Qed.

(* small real-analysis helpers *)
Lemma div_lt_1 a d : 0 < d -> a < d -> a / d < 1.
Proof.
  intros Hd H. apply (Rmult_lt_reg_r d); [assumption|].
  unfold Rdiv. rewrite Rmult_assoc, Rinv_l by lra. lra.
Qed.

Lemma Rpower_pos x y : 0 < Rpower x y.
Proof. unfold Rpower; apply exp_pos. Qed.

Lemma Rpower_inv_l x lam : 0 < x -> lam <> 0 -> Rpower (Rpower x lam) (1 / lam) = x.
Proof.
  intros Hx Hl. rewrite Rpower_mult.
  replace (lam * (1 / lam)) with 1 by (field; assumption).
  apply Rpower_1; assumption.
Qed.
Lemma Rpower_inv_r x lam : 0 < x -> lam <> 0 -> Rpower (Rpower x (1 / lam)) lam = x.
Proof.
  intros Hx Hl. rewrite Rpower_mult.
  replace (1 / lam * lam) with 1 by (field; assumption).
  apply Rpower_1; assumption.
Qed.

Lemma Rabs_gt_neq0 e lam : 0 < e -> e < Rabs lam -> lam <> 0.
Proof. intros He H E; subst lam; rewrite Rabs_R0 in H; lra. Qed.

(* ------------------------------------------------------------------ *)
(* Identity                                                             *)
Lemma id_bwd_fwd x : id_bwd (id_fwd x) = x.
Proof. reflexivity. Qed.
Lemma id_fwd_bwd y : id_fwd (id_bwd y) = y.
Proof. reflexivity. Qed.

(* ------------------------------------------------------------------ *)
(* Logit                                                                *)
Lemma logit_bwd_fwd lower logdelta x :
  lower < x < lower + exp logdelta ->
  logit_bwd lower logdelta (logit_fwd lower logdelta x) = x.
Proof.
  intros [H1 H2]. unfold logit_bwd, logit_fwd.
  set (d := exp logdelta) in *.
  assert (Hd : 0 < d) by apply exp_pos.
  replace (lower + d - lower) with d by ring.
  set (v := (x - lower) / d).
  assert (Hv0 : 0 < v) by (unfold v; apply Rdiv_lt_0_compat; lra).
  assert (Hv1 : v < 1) by (unfold v; apply div_lt_1; lra).
  assert (E : 1 / (1 - v) - 1 = v / (1 - v)) by (field; lra).
  rewrite E, exp_ln by (apply Rdiv_lt_0_compat; lra).
  assert (E2 : 1 - 1 / (1 + v / (1 - v)) = v) by (field; split; lra).
  rewrite E2. unfold v; field; lra.
Qed.

Lemma logit_fwd_bwd lower logdelta y :
  logit_fwd lower logdelta (logit_bwd lower logdelta y) = y.
Proof.
  unfold logit_bwd, logit_fwd.
  set (d := exp logdelta).
  assert (Hd : 0 < d) by apply exp_pos.
  replace (lower + d - lower) with d by ring.
  set (e := exp y). assert (He : 0 < e) by apply exp_pos.
  replace ((1 - 1 / (1 + e)) * d + lower - lower) with ((1 - 1 / (1 + e)) * d) by ring.
  replace ((1 - 1 / (1 + e)) * d / d) with (1 - 1 / (1 + e)) by (field; split; lra).
  replace (1 / (1 - (1 - 1 / (1 + e))) - 1) with e by (field; lra).
  apply ln_exp.
Qed.

(* the image of backward is the open interval (lower, upper) *)
Lemma logit_bwd_range lower logdelta y :
  lower < logit_bwd lower logdelta y < lower + exp logdelta.
Proof.
  unfold logit_bwd. set (d := exp logdelta).
  assert (Hd : 0 < d) by apply exp_pos.
  replace (lower + d - lower) with d by ring.
  set (e := exp y). assert (He : 0 < e) by apply exp_pos.
  assert (E : 1 - 1 / (1 + e) = e / (1 + e)) by (field; lra). rewrite E.
  assert (H0 : 0 < e / (1 + e)) by (apply Rdiv_lt_0_compat; lra).
  assert (H1 : e / (1 + e) < 1) by (apply div_lt_1; lra).
  split; nra.
Qed.

(* ------------------------------------------------------------------ *)
(* Log                                                                  *)
Lemma log_basefactor_neq0 base : log_base_ok base -> log_basefactor base <> 0.
Proof.
  destruct base as [b|]; simpl; [|intros _; lra].
  intros [Hb Hn] E.
  apply Hn. rewrite <- (exp_ln b Hb), E. apply exp_0.
Qed.

Lemma log_bwd_fwd base nu x :
  log_base_ok base -> 0 < x + nu ->
  log_bwd (log_basefactor base) nu (log_fwd (log_basefactor base) nu x) = x.
Proof.
  intros Hb Hx. pose proof (log_basefactor_neq0 base Hb) as Hn.
  unfold log_bwd, log_fwd.
  replace (log_basefactor base * (ln (x + nu) / log_basefactor base)) with (ln (x + nu))
    by (field; assumption).
  rewrite exp_ln by assumption. ring.
Qed.

Lemma log_fwd_bwd base nu y :
  log_base_ok base ->
  log_fwd (log_basefactor base) nu (log_bwd (log_basefactor base) nu y) = y.
Proof.
  intros Hb. pose proof (log_basefactor_neq0 base Hb) as Hn.
  unfold log_bwd, log_fwd.
  replace (exp (log_basefactor base * y) - nu + nu) with (exp (log_basefactor base * y)) by ring.
  rewrite ln_exp. field; assumption.
Qed.

(* ------------------------------------------------------------------ *)
(* BoxCox2                                                              *)
Lemma bc2_bwd_fwd nu lam x :
  0 < x + nu -> bc2_bwd nu lam (bc2_fwd nu lam x) = x.
Proof.
  intros Hx. unfold bc2_bwd, bc2_fwd.
  destruct (Rltb_cases EPS (Rabs lam)) as [[E H]|[E H]]; rewrite E.
  - assert (Hl : lam <> 0) by (eapply Rabs_gt_neq0; [apply EPS_pos | exact H]).
    cbv zeta.
    replace (lam * ((Rpower (x + nu) lam - 1) / lam) + 1) with (Rpower (x + nu) lam)
      by (field; assumption).
    rewrite Rpower_inv_l by assumption. ring.
  - rewrite exp_ln by assumption. ring.
Qed.

(* on the image: for the power branch the argument of the root must be positive *)
Lemma bc2_fwd_bwd nu lam y :
  (EPS < Rabs lam -> 0 < lam * y + 1) ->
  bc2_fwd nu lam (bc2_bwd nu lam y) = y.
Proof.
  intros Hy. unfold bc2_bwd, bc2_fwd.
  destruct (Rltb_cases EPS (Rabs lam)) as [[E H]|[E H]]; rewrite E.
  - assert (Hl : lam <> 0) by (eapply Rabs_gt_neq0; [apply EPS_pos | exact H]).
    cbv zeta.
    replace (Rpower (lam * y + 1) (1 / lam) - nu + nu) with (Rpower (lam * y + 1) (1 / lam)) by ring.
    rewrite Rpower_inv_r by auto. field; assumption.
  - replace (exp y - nu + nu) with (exp y) by ring. apply ln_exp.
Qed.

(* backward lands in the domain of forward *)
Lemma bc2_bwd_in_domain nu lam y : 0 < bc2_bwd nu lam y + nu.
Proof.
  unfold bc2_bwd. destruct (Rltb EPS (Rabs lam)); cbv zeta.
  - replace (Rpower (lam * y + 1) (1 / lam) - nu + nu) with (Rpower (lam * y + 1) (1 / lam)) by ring.
    apply Rpower_pos.
  - replace (exp y - nu + nu) with (exp y) by ring. apply exp_pos.
Qed.

(* forward is strictly increasing on its domain, for every lam (used by
   BoxCox2sym here and by C02) *)
Lemma Rpower_lt_l a b c : 0 < c -> 0 < a -> a < b -> Rpower a c < Rpower b c.
Proof. intros; apply Rlt_Rpower_l; lra. Qed.

Lemma Rpower_gt_l_neg a b c : c < 0 -> 0 < a -> a < b -> Rpower b c < Rpower a c.
Proof.
  intros Hc Ha Hab. unfold Rpower. apply exp_increasing.
  assert (ln a < ln b) by (apply ln_increasing; lra).
  nra.
Qed.

Lemma bc2_fwd_incr nu lam x1 x2 :
  0 < x1 + nu -> x1 < x2 -> bc2_fwd nu lam x1 < bc2_fwd nu lam x2.
Proof.
  intros H1 H12. unfold bc2_fwd.
  destruct (Rltb_cases EPS (Rabs lam)) as [[E H]|[E H]]; rewrite E.
  - assert (Hl : lam <> 0) by (eapply Rabs_gt_neq0; [apply EPS_pos | exact H]).
    destruct (Rlt_dec 0 lam) as [Hp|Hn].
    + assert (Rpower (x1 + nu) lam < Rpower (x2 + nu) lam) by (apply Rpower_lt_l; lra).
      unfold Rdiv. apply Rmult_lt_compat_r; [apply Rinv_0_lt_compat; lra | lra].
    + assert (Hneg : lam < 0) by lra.
      assert (Rpower (x2 + nu) lam < Rpower (x1 + nu) lam) by (apply Rpower_gt_l_neg; lra).
      assert (Hi : / lam < 0) by (apply Rinv_lt_0_compat; lra).
      unfold Rdiv. nra.
  - apply ln_increasing; lra.
Qed.

(* ------------------------------------------------------------------ *)
(* BoxCox1lam / BoxCox1nu : delegation to the re-synchronised BoxCox2    *)
Lemma bc2_sync_id mininu minilam nu lam :
  bc2_params_ok mininu minilam nu lam ->
  bc2_sync_nu mininu minilam nu = nu /\ bc2_sync_lam mininu minilam lam = lam.
Proof.
  intros [Hn Hl]. unfold bc2_sync_nu, bc2_sync_lam.
  split; apply vclip_id; assumption.
Qed.

Lemma bc1lam_ok_bc2 mininu minilam nu lam :
  bc1lam_params_ok mininu minilam nu lam -> bc2_params_ok mininu minilam nu lam.
Proof. intros H; exact H. Qed.
Lemma bc1nu_ok_bc2 mininu minilam nu lam :
  bc1nu_params_ok mininu minilam nu lam -> bc2_params_ok mininu minilam nu lam.
Proof. intros H; exact H. Qed.
Lemma bc2sym_ok_bc2 mininu minilam nu lam :
  bc2sym_params_ok mininu minilam nu lam -> bc2_params_ok mininu minilam nu lam.
Proof. intros H; exact H. Qed.

Lemma bc1lam_is_bc2 mininu minilam nu lam :
  bc1lam_params_ok mininu minilam nu lam ->
  (forall x, bc1lam_fwd mininu minilam nu lam x = bc2_fwd nu lam x) /\
  (forall y, bc1lam_bwd mininu minilam nu lam y = bc2_bwd nu lam y) /\
  (forall x, bc1lam_jac mininu minilam nu lam x = bc2_jac mininu nu lam x).
Proof.
  intros H. destruct (bc2_sync_id _ _ _ _ (bc1lam_ok_bc2 _ _ _ _ H)) as [E1 E2].
  unfold bc1lam_fwd, bc1lam_bwd, bc1lam_jac. rewrite E1, E2. auto.
Qed.

Lemma bc1nu_is_bc2 mininu minilam nu lam :
  bc1nu_params_ok mininu minilam nu lam ->
  (forall x, bc1nu_fwd mininu minilam nu lam x = bc2_fwd nu lam x) /\
  (forall y, bc1nu_bwd mininu minilam nu lam y = bc2_bwd nu lam y) /\
  (forall x, bc1nu_jac mininu minilam nu lam x = bc2_jac mininu nu lam x).
Proof.
  intros H. destruct (bc2_sync_id _ _ _ _ (bc1nu_ok_bc2 _ _ _ _ H)) as [E1 E2].
  unfold bc1nu_fwd, bc1nu_bwd, bc1nu_jac. rewrite E1, E2. auto.
Qed.

Lemma bc1lam_bwd_fwd mininu minilam nu lam x :
  bc1lam_params_ok mininu minilam nu lam -> 0 < x + nu ->
  bc1lam_bwd mininu minilam nu lam (bc1lam_fwd mininu minilam nu lam x) = x.
Proof.
  intros H Hx. destruct (bc1lam_is_bc2 _ _ _ _ H) as (Ef & Eb & _).
  rewrite Ef, Eb. apply bc2_bwd_fwd; assumption.
Qed.
Lemma bc1lam_fwd_bwd mininu minilam nu lam y :
  bc1lam_params_ok mininu minilam nu lam -> (EPS < Rabs lam -> 0 < lam * y + 1) ->
  bc1lam_fwd mininu minilam nu lam (bc1lam_bwd mininu minilam nu lam y) = y.
Proof.
  intros H Hy. destruct (bc1lam_is_bc2 _ _ _ _ H) as (Ef & Eb & _).
  rewrite Eb, Ef. apply bc2_fwd_bwd; assumption.
Qed.
Lemma bc1nu_bwd_fwd mininu minilam nu lam x :
  bc1nu_params_ok mininu minilam nu lam -> 0 < x + nu ->
  bc1nu_bwd mininu minilam nu lam (bc1nu_fwd mininu minilam nu lam x) = x.
Proof.
  intros H Hx. destruct (bc1nu_is_bc2 _ _ _ _ H) as (Ef & Eb & _).
  rewrite Ef, Eb. apply bc2_bwd_fwd; assumption.
Qed.
Lemma bc1nu_fwd_bwd mininu minilam nu lam y :
  bc1nu_params_ok mininu minilam nu lam -> (EPS < Rabs lam -> 0 < lam * y + 1) ->
  bc1nu_fwd mininu minilam nu lam (bc1nu_bwd mininu minilam nu lam y) = y.
Proof.
  intros H Hy. destruct (bc1nu_is_bc2 _ _ _ _ H) as (Ef & Eb & _).
  rewrite Eb, Ef. apply bc2_fwd_bwd; assumption.
Qed.

(* ------------------------------------------------------------------ *)
(* BoxCox2sym                                                           *)
Lemma Rsign_pos x : 0 < x -> Rsign x = 1.
Proof. intros H; unfold Rsign. destruct (Rltb_cases 0 x) as [[E _]|[_ F]]; [rewrite E; auto | lra]. Qed.
Lemma Rsign_neg x : x < 0 -> Rsign x = -1.
Proof.
  intros H; unfold Rsign.
  destruct (Rltb_cases 0 x) as [[_ F]|[E _]]; [lra | rewrite E].
  destruct (Rltb_cases x 0) as [[E2 _]|[_ F]]; [rewrite E2; auto | lra].
Qed.
Lemma Rsign_0 : Rsign 0 = 0.
Proof.
  unfold Rsign.
  destruct (Rltb_cases 0 0) as [[_ F]|[E _]]; [lra | rewrite E]. reflexivity.
Qed.

Lemma bc2sym_is_core mininu minilam nu lam :
  bc2sym_params_ok mininu minilam nu lam ->
  (forall x, bc2sym_fwd mininu minilam nu lam x =
             Rsign x * (bc2_fwd nu lam (Rabs x) - bc2_fwd nu lam 0)) /\
  (forall y, bc2sym_bwd mininu minilam nu lam y =
             Rsign y * bc2_bwd nu lam (Rabs y + bc2_fwd nu lam 0)) /\
  (forall x, bc2sym_jac mininu minilam nu lam x = bc2_jac mininu nu lam (Rabs x)).
Proof.
  intros H. destruct (bc2_sync_id _ _ _ _ (bc2sym_ok_bc2 _ _ _ _ H)) as [E1 E2].
  unfold bc2sym_fwd, bc2sym_bwd, bc2sym_jac. cbv zeta. rewrite E1, E2. auto.
Qed.

(* all real x, provided 0 < nu (so that |x| + nu and 0 + nu are in BoxCox2's domain) *)
Lemma bc2sym_bwd_fwd mininu minilam nu lam x :
  bc2sym_params_ok mininu minilam nu lam -> 0 < nu ->
  bc2sym_bwd mininu minilam nu lam (bc2sym_fwd mininu minilam nu lam x) = x.
Proof.
  intros H Hnu. destruct (bc2sym_is_core _ _ _ _ H) as (Ef & Eb & _).
  rewrite Eb, Ef. set (y0 := bc2_fwd nu lam 0).
  destruct (Rtotal_order x 0) as [Hx|[Hx|Hx]].
  - rewrite (Rsign_neg x Hx), (Rabs_left x Hx).
    assert (Hi : y0 < bc2_fwd nu lam (- x)) by (apply bc2_fwd_incr; lra).
    rewrite Rsign_neg by lra.
    rewrite Rabs_left by lra.
    replace (- (-1 * (bc2_fwd nu lam (- x) - y0)) + y0) with (bc2_fwd nu lam (- x)) by ring.
    rewrite bc2_bwd_fwd by lra. ring.
  - subst x. rewrite Rsign_0. rewrite Rmult_0_l, Rsign_0. ring.
  - rewrite (Rsign_pos x Hx), (Rabs_right x) by lra.
    assert (Hi : y0 < bc2_fwd nu lam x) by (apply bc2_fwd_incr; lra).
    rewrite Rsign_pos by lra.
    rewrite Rabs_right by lra.
    replace (1 * (bc2_fwd nu lam x - y0) + y0) with (bc2_fwd nu lam x) by ring.
    rewrite bc2_bwd_fwd by lra. ring.
Qed.

(* on the image: |y| + y0 must be a value of the inner forward *)
Lemma bc2sym_fwd_bwd mininu minilam nu lam y :
  bc2sym_params_ok mininu minilam nu lam -> 0 < nu ->
  (EPS < Rabs lam -> 0 < lam * (Rabs y + bc2_fwd nu lam 0) + 1) ->
  bc2sym_fwd mininu minilam nu lam (bc2sym_bwd mininu minilam nu lam y) = y.
Proof.
  intros H Hnu Him. destruct (bc2sym_is_core _ _ _ _ H) as (Ef & Eb & _).
  rewrite Ef, Eb. set (y0 := bc2_fwd nu lam 0) in *.
  set (g := bc2_bwd nu lam (Rabs y + y0)).
  assert (Hfg : bc2_fwd nu lam g = Rabs y + y0) by (apply bc2_fwd_bwd; assumption).
  assert (Hdom : 0 < g + nu) by apply bc2_bwd_in_domain.
  (* g > 0 as soon as y <> 0 : forward is increasing and fwd g > fwd 0 *)
  assert (Hg : y <> 0 -> 0 < g).
  { intros Hy. destruct (Rlt_dec 0 g) as [|Hn]; [assumption|exfalso].
    assert (Hle : g <= 0) by lra.
    assert (Habs : 0 < Rabs y) by (apply Rabs_pos_lt; assumption).
    destruct Hle as [Hlt|Heq].
    - assert (bc2_fwd nu lam g < y0) by (apply bc2_fwd_incr; lra). lra.
    - rewrite Heq in Hfg. fold y0 in Hfg. lra. }
  destruct (Rtotal_order y 0) as [Hy|[Hy|Hy]].
  - specialize (Hg ltac:(lra)).
    rewrite (Rsign_neg y Hy).
    replace (-1 * g) with (- g) by ring.
    rewrite Rsign_neg by lra. rewrite Rabs_left by lra.
    replace (- - g) with g by ring. rewrite Hfg. rewrite Rabs_left by lra. ring.
  - subst y. rewrite Rsign_0, Rmult_0_l, Rsign_0. ring.
  - specialize (Hg ltac:(lra)).
    rewrite (Rsign_pos y Hy). rewrite Rmult_1_l.
    rewrite Rsign_pos by lra. rewrite Rabs_right by lra.
    rewrite Hfg. rewrite Rabs_right by lra. ring.
Qed.

(* ------------------------------------------------------------------ *)
(* YeoJohnson                                                           *)
Lemma yj_scale_pos nu scale lam : yj_params_ok nu scale lam -> 0 < scale.
Proof.
  intros (_ & [Hs _] & _). unfold TR_YeoJohnson_scale_min in Hs. simpl in Hs. lra.
Qed.

Lemma yj_bwd_fwd_w lam w :
  yj_same_side lam w -> yj_bwd_w lam (yj_fwd_w lam w) = w.
Proof.
  intros Hss. unfold yj_same_side in Hss.
  pose proof EPS_pos as He. pose proof EPS_lt_1 as He1.
  destruct (Rleb_cases EPS w) as [[E H]|[E H]].
  - assert (Hy : EPS <= yj_fwd_w lam w) by (apply Hss; assumption).
    unfold yj_bwd_w. apply Rleb_true in Hy. rewrite Hy.
    unfold yj_fwd_w. rewrite E.
    destruct (isclose lam 0) eqn:Ec; simpl.
    + rewrite exp_ln by lra. ring.
    + assert (Hl : lam <> 0) by (apply not_isclose_neq; assumption).
      replace (lam * ((Rpower (w + 1) lam - 1) / lam) + 1) with (Rpower (w + 1) lam)
        by (field; assumption).
      rewrite Rpower_inv_l by (auto; lra). ring.
  - assert (Hy : yj_fwd_w lam w < EPS).
    { destruct (Rlt_dec (yj_fwd_w lam w) EPS); [assumption|].
      exfalso. assert (EPS <= w) by (apply Hss; lra). lra. }
    unfold yj_bwd_w. apply Rleb_false in Hy. rewrite Hy.
    unfold yj_fwd_w. rewrite E.
    destruct (isclose lam 2) eqn:Ec; simpl.
    + replace (- - ln (- w + 1)) with (ln (- w + 1)) by ring.
      rewrite exp_ln by lra. ring.
    + assert (Hl : lam <> 2) by (apply not_isclose_neq; assumption).
      assert (Hl2 : 2 - lam <> 0) by lra.
      replace (- (2 - lam) * (- (Rpower (- w + 1) (2 - lam) - 1) / (2 - lam)) + 1)
        with (Rpower (- w + 1) (2 - lam)) by (field; assumption).
      rewrite Rpower_inv_l by (auto; lra). ring.
Qed.

Lemma yj_bwd_fwd nu scale lam x :
  yj_params_ok nu scale lam -> yj_same_side lam (yj_w nu scale x) ->
  yj_bwd nu scale lam (yj_fwd nu scale lam x) = x.
Proof.
  intros Hp Hss. pose proof (yj_scale_pos _ _ _ Hp) as Hs.
  unfold yj_bwd, yj_fwd. rewrite yj_bwd_fwd_w by assumption.
  unfold yj_w. field. lra.
Qed.

(* on the image: the arguments of the two roots must be positive *)
Definition yj_image (lam y : R) : Prop :=
  (EPS <= y -> isclose lam 0 = false -> 0 < lam * y + 1) /\
  (y < EPS -> isclose lam 2 = false -> 0 < - (2 - lam) * y + 1).

Lemma yj_fwd_bwd_w lam y :
  yj_same_side_bwd lam y -> yj_image lam y -> yj_fwd_w lam (yj_bwd_w lam y) = y.
Proof.
  intros Hss [Hi1 Hi2]. unfold yj_same_side_bwd in Hss.
  destruct (Rleb_cases EPS y) as [[E H]|[E H]].
  - assert (Hb : EPS <= yj_bwd_w lam y) by (apply Hss; assumption).
    unfold yj_fwd_w. apply Rleb_true in Hb. rewrite Hb.
    unfold yj_bwd_w. rewrite E.
    destruct (isclose lam 0) eqn:Ec; simpl.
    + replace (exp y - 1 + 1) with (exp y) by ring. apply ln_exp.
    + assert (Hl : lam <> 0) by (apply not_isclose_neq; assumption).
      replace (Rpower (lam * y + 1) (1 / lam) - 1 + 1) with (Rpower (lam * y + 1) (1 / lam)) by ring.
      rewrite Rpower_inv_r by auto. field; assumption.
  - assert (Hb : yj_bwd_w lam y < EPS).
    { destruct (Rlt_dec (yj_bwd_w lam y) EPS); [assumption|].
      exfalso. assert (EPS <= y) by (apply Hss; lra). lra. }
    unfold yj_fwd_w. apply Rleb_false in Hb. rewrite Hb.
    unfold yj_bwd_w. rewrite E.
    destruct (isclose lam 2) eqn:Ec; simpl.
    + replace (- (- exp (- y) + 1) + 1) with (exp (- y)) by ring.
      rewrite ln_exp. ring.
    + assert (Hl : lam <> 2) by (apply not_isclose_neq; assumption).
      assert (Hl2 : 2 - lam <> 0) by lra.
      replace (- (- Rpower (- (2 - lam) * y + 1) (1 / (2 - lam)) + 1) + 1)
        with (Rpower (- (2 - lam) * y + 1) (1 / (2 - lam))) by ring.
      rewrite Rpower_inv_r by auto. field; assumption.
Qed.

Lemma yj_fwd_bwd nu scale lam y :
  yj_params_ok nu scale lam -> yj_same_side_bwd lam y -> yj_image lam y ->
  yj_fwd nu scale lam (yj_bwd nu scale lam y) = y.
Proof.
  intros Hp Hss Hi. pose proof (yj_scale_pos _ _ _ Hp) as Hs.
  unfold yj_fwd, yj_bwd, yj_w.
  replace (nu + (yj_bwd_w lam y - nu) / scale * scale) with (yj_bwd_w lam y) by (field; lra).
  apply yj_fwd_bwd_w; assumption.
Qed.

(* the same-side hypothesis holds for every w <= 0 (negative branch: y <= 0) *)
Lemma Rpower_1_l c : Rpower 1 c = 1.
Proof. unfold Rpower. rewrite ln_1, Rmult_0_r. apply exp_0. Qed.

Lemma yj_fwd_w_nonpos lam w : w <= 0 -> yj_fwd_w lam w <= 0.
Proof.
  intros Hw. pose proof EPS_pos as He.
  unfold yj_fwd_w. destruct (Rleb_cases EPS w) as [[E H]|[E H]]; [lra|rewrite E].
  destruct (isclose lam 2) eqn:Ec; simpl.
  - destruct Hw as [Hw|Hw].
    + assert (ln 1 < ln (- w + 1)) by (apply ln_increasing; lra). rewrite ln_1 in *. lra.
    + subst w. replace (- 0 + 1) with 1 by ring. rewrite ln_1. lra.
  - assert (Hl : lam <> 2) by (apply not_isclose_neq; assumption).
    destruct Hw as [Hw|Hw].
    + destruct (Rlt_dec 0 (2 - lam)) as [Hp|Hn].
      * assert (Rpower 1 (2 - lam) < Rpower (- w + 1) (2 - lam)) by (apply Rpower_lt_l; lra).
        rewrite Rpower_1_l in *.
        assert (0 < / (2 - lam)) by (apply Rinv_0_lt_compat; lra).
        unfold Rdiv. nra.
      * assert (Hneg : 2 - lam < 0) by lra.
        assert (Rpower (- w + 1) (2 - lam) < Rpower 1 (2 - lam)) by (apply Rpower_gt_l_neg; lra).
        rewrite Rpower_1_l in *.
        assert (/ (2 - lam) < 0) by (apply Rinv_lt_0_compat; lra).
        unfold Rdiv. nra.
    + subst w. replace (- 0 + 1) with 1 by ring. rewrite Rpower_1_l.
      unfold Rdiv. lra.
Qed.

Lemma yj_same_side_nonpos lam w : w <= 0 -> yj_same_side lam w.
Proof.
  intros Hw. pose proof EPS_pos as He. pose proof (yj_fwd_w_nonpos lam w Hw).
  unfold yj_same_side. split; intros; lra.
Qed.

(* ------------------------------------------------------------------ *)
(* LogSinh                                                              *)
Lemma logsinh_xmax_pos loga logb xmax : logsinh_params_ok loga logb xmax -> 0 < xmax.
Proof.
  intros (_ & _ & [Hx _]). unfold TR_LogSinh_xmax_min in Hx. simpl in Hx.
  pose proof EPS_pos. unfold EPS in *. lra.
Qed.

Lemma sinh_pos w : 0 < w -> 0 < sinh w.
Proof. intros H. rewrite <- sinh_0. apply sinh_lt; assumption. Qed.

(* w + ln((1 - exp(-2w))/2) = ln (sinh w) *)
Lemma logsinh_core_fwd w : 0 < w -> w + ln ((1 - exp (-2 * w)) / 2) = ln (sinh w).
Proof.
  intros Hw.
  assert (Hq : 0 < (1 - exp (-2 * w)) / 2).
  { assert (exp (-2 * w) < exp 0) by (apply exp_increasing; lra). rewrite exp_0 in *. lra. }
  rewrite <- (ln_exp w) at 1. rewrite <- ln_mult by (auto; apply exp_pos).
  f_equal. unfold sinh.
  replace (-2 * w) with (- w + - w) by ring. rewrite exp_plus.
  rewrite (exp_Ropp w). field. apply Rgt_not_eq, exp_pos.
Qed.

(* t + ln(1 + sqrt(1 + exp(-2t))) = arcsinh (exp t) *)
Lemma logsinh_core_bwd t : t + ln (1 + sqrt (1 + exp (-2 * t))) = arcsinh (exp t).
Proof.
  assert (He : 0 < exp t) by apply exp_pos.
  assert (Hs : 0 <= sqrt (1 + exp (-2 * t))) by apply sqrt_pos.
  rewrite <- (ln_exp t) at 1. rewrite <- ln_mult by lra.
  unfold arcsinh. f_equal.
  rewrite Rmult_plus_distr_l, Rmult_1_r. f_equal.
  rewrite <- (sqrt_square (exp t)) at 1 by lra.
  rewrite <- sqrt_mult.
  - f_equal. replace (-2 * t) with (- t + - t) by ring. rewrite exp_plus, exp_Ropp.
    field. lra.
  - nra.
  - pose proof (exp_pos (-2 * t)). lra.
Qed.

Lemma logsinh_bwd_fwd loga logb xmax x :
  logsinh_params_ok loga logb xmax ->
  logsinh_guard loga logb xmax x = true ->
  exists y, logsinh_fwd loga logb xmax x = Some y /\ logsinh_bwd loga logb xmax y = x.
Proof.
  intros Hp Hg. pose proof (logsinh_xmax_pos _ _ _ Hp) as Hx.
  unfold logsinh_guard in Hg. unfold logsinh_fwd, logsinh_bwd.
  set (a := exp loga) in *. set (b := exp logb) in *.
  assert (Ha : 0 < a) by apply exp_pos. assert (Hb : 0 < b) by apply exp_pos.
  cbv zeta in *. rewrite Hg. apply Rltb_true in Hg.
  set (xn := x / xmax) in *. set (w := a + b * xn).
  assert (Hw : 0 < w).
  { unfold w. pose proof EPS_pos.
    assert (b * (- a / b + EPS) < b * xn) by (apply Rmult_lt_compat_l; assumption).
    replace (b * (- a / b + EPS)) with (- a + b * EPS) in H0 by (field; lra).
    assert (0 < b * EPS) by (apply Rmult_lt_0_compat; assumption). lra. }
  eexists; split; [reflexivity|].
  rewrite logsinh_core_fwd by assumption.
  replace (b * (ln (sinh w) / b)) with (ln (sinh w)) by (field; lra).
  set (t := ln (sinh w)).
  replace (xmax * (t / b + (ln (1 + sqrt (1 + exp (-2 * t))) - a) / b))
    with (xmax * ((t + ln (1 + sqrt (1 + exp (-2 * t))) - a) / b)) by (field; lra).
  rewrite logsinh_core_bwd. unfold t. rewrite exp_ln by (apply sinh_pos; assumption).
  rewrite arcsinh_sinh. unfold w, xn. field. split; lra.
Qed.

Lemma arcsinh_pos u : 0 < u -> 0 < arcsinh u.
Proof. intros H. rewrite <- arcsinh_0. apply arcsinh_lt; assumption. Qed.

Lemma logsinh_fwd_bwd loga logb xmax y :
  logsinh_params_ok loga logb xmax ->
  logsinh_guard loga logb xmax (logsinh_bwd loga logb xmax y) = true ->
  logsinh_fwd loga logb xmax (logsinh_bwd loga logb xmax y) = Some y.
Proof.
  intros Hp Hg. pose proof (logsinh_xmax_pos _ _ _ Hp) as Hx.
  unfold logsinh_guard in Hg. unfold logsinh_fwd. cbv zeta in *. rewrite Hg. clear Hg.
  unfold logsinh_bwd. cbv zeta.
  set (a := exp loga). set (b := exp logb).
  assert (Ha : 0 < a) by apply exp_pos. assert (Hb : 0 < b) by apply exp_pos.
  set (L := ln (1 + sqrt (1 + exp (-2 * (b * y))))).
  replace (a + b * (xmax * (y + (L - a) / b) / xmax)) with (b * y + L) by (field; split; lra).
  unfold L. rewrite logsinh_core_bwd.
  rewrite logsinh_core_fwd by (apply arcsinh_pos, exp_pos).
  rewrite sinh_arcsinh, ln_exp. f_equal. field. lra.
Qed.

(* ------------------------------------------------------------------ *)
(* Reciprocal                                                           *)
Lemma recip_bwd_fwd nu x :
  - nu < x -> exists y, recip_fwd nu x = Some y /\ recip_bwd nu y = Some x.
Proof.
  intros Hx. unfold recip_fwd, recip_bwd.
  rewrite (proj2 (Rltb_true (- nu) x)) by assumption.
  eexists; split; [reflexivity|].
  assert (Hp : 0 < nu + x) by lra.
  assert (Hn : - 1 / (nu + x) < 0).
  { unfold Rdiv. assert (0 < / (nu + x)) by (apply Rinv_0_lt_compat; assumption). nra. }
  rewrite (proj2 (Rltb_true _ 0)) by assumption.
  f_equal. field. lra.
Qed.

Lemma recip_fwd_bwd nu y :
  y < 0 -> exists x, recip_bwd nu y = Some x /\ recip_fwd nu x = Some y.
Proof.
  intros Hy. unfold recip_fwd, recip_bwd.
  rewrite (proj2 (Rltb_true y 0)) by assumption.
  eexists; split; [reflexivity|].
  assert (Hp : 0 < - 1 / y).
  { unfold Rdiv. assert (/ y < 0) by (apply Rinv_lt_0_compat; assumption). nra. }
  rewrite (proj2 (Rltb_true (- nu) _)) by lra.
  f_equal. field. lra.
Qed.

(* the pinned guard `y < -mininu` loses every x >= 1/mininu - nu *)
Lemma recip_pinned_loses mininu nu x :
  - nu < x -> 0 < mininu -> 1 / mininu - nu <= x ->
  exists y, recip_fwd nu x = Some y /\ recip_bwd_pinned mininu nu y = None.
Proof.
  intros Hx Hm Hge. unfold recip_fwd, recip_bwd_pinned.
  rewrite (proj2 (Rltb_true (- nu) x)) by assumption.
  eexists; split; [reflexivity|].
  rewrite (proj2 (Rltb_false _ _)); [reflexivity|].
  assert (Hp : 0 < nu + x) by lra.
  assert (H1 : 1 / mininu <= nu + x) by lra.
  assert (H2 : 1 <= mininu * (nu + x)).
  { apply (Rmult_le_compat_l mininu) in H1; [|lra].
    replace (mininu * (1 / mininu)) with 1 in H1 by (field; lra). exact H1. }
  assert (H3 : / (nu + x) <= mininu).
  { apply (Rmult_le_reg_r (nu + x)); [assumption|]. rewrite Rinv_l by lra. lra. }
  unfold Rdiv. lra.
Qed.

Lemma recip_pinned_refuted :
  exists mininu nu x, recip_params_ok mininu nu /\ - nu < x /\
    exists y, recip_fwd nu x = Some y /\ recip_bwd_pinned mininu nu y = None.
Proof.
  exists 1, 2, (1/2). split; [|split].
  - unfold recip_params_ok, in_bounds, TR_Reciprocal_nu_min, TR_Reciprocal_nu_max. simpl. lra.
  - lra.
  - apply recip_pinned_loses; lra.
Qed.

(* ------------------------------------------------------------------ *)
(* Softmax                                                              *)
Lemma rsum_map_div l c : rsum (map (fun v => v / c) l) = rsum l / c.
Proof.
  induction l as [|a l IH]; simpl.
  - unfold Rdiv; ring.
  - unfold rsum in *. simpl. rewrite IH. unfold Rdiv; ring.
Qed.

Lemma rsum_exp_pos y : 0 <= rsum (map exp y).
Proof.
  induction y as [|a y IH]; simpl; [lra|].
  unfold rsum in *; simpl. pose proof (exp_pos a). lra.
Qed.

Definition row_pos (x : list R) : Prop := Forall (fun v => 0 < v) x.

Lemma softmax_bwd_fwd_row x :
  row_pos x -> rsum x < 1 -> softmax_bwd_row (softmax_fwd_row x) = x.
Proof.
  intros Hpos Hs. unfold softmax_bwd_row, softmax_fwd_row. cbv zeta.
  set (s := rsum x) in *.
  assert (E : map exp (map (fun v => ln (v / (1 - s))) x) = map (fun v => v / (1 - s)) x).
  { rewrite map_map. apply map_ext_in. intros v Hv.
    apply exp_ln. apply Rdiv_lt_0_compat; [|lra].
    unfold row_pos in Hpos. rewrite Forall_forall in Hpos. auto. }
  rewrite E. rewrite rsum_map_div. fold s. rewrite map_map.
  rewrite <- (map_id x) at 2. apply map_ext. intros v. field. split; lra.
Qed.

Lemma softmax_fwd_bwd_row y : softmax_fwd_row (softmax_bwd_row y) = y.
Proof.
  unfold softmax_bwd_row, softmax_fwd_row. cbv zeta.
  set (e := map exp y). set (S := rsum e).
  assert (HS : 0 <= S) by apply rsum_exp_pos.
  rewrite rsum_map_div. fold S. rewrite map_map. unfold e. rewrite map_map.
  rewrite <- (map_id y) at 2. apply map_ext. intros v.
  replace (exp v / (1 + S) / (1 - S / (1 + S))) with (exp v) by (field; split; lra).
  apply ln_exp.
Qed.

Lemma softmax_row_ok_spec x :
  softmax_row_ok x = true <-> (Forall (fun v => 0 <= v) x /\ rsum x <= 1 - EPS).
Proof.
  unfold softmax_row_ok. rewrite andb_true_iff, forallb_forall, Forall_forall.
  rewrite negb_true_iff, Rltb_false.
  split; intros [H1 H2]; split; auto; intros v Hv; specialize (H1 v Hv).
  - rewrite negb_true_iff, Rltb_false in H1. assumption.
  - rewrite negb_true_iff, Rltb_false. assumption.
Qed.

(* domain of the 2-D forward: rows of positive entries with sum <= 1 - EPS *)
Definition softmax_dom (xs : list (list R)) : Prop :=
  Forall (fun x => row_pos x /\ rsum x <= 1 - EPS) xs.

Lemma softmax_dom_ok xs : softmax_dom xs -> forallb softmax_row_ok xs = true.
Proof.
  intros H. apply forallb_forall. intros x Hx.
  unfold softmax_dom in H. rewrite Forall_forall in H. destruct (H x Hx) as [Hp Hs].
  apply softmax_row_ok_spec. split; [|assumption].
  unfold row_pos in Hp. rewrite Forall_forall in *. intros v Hv. specialize (Hp v Hv). lra.
Qed.

Lemma softmax_bwd_fwd xs :
  softmax_dom xs -> exists ys, softmax_fwd xs = Some ys /\ softmax_bwd ys = xs.
Proof.
  intros H. unfold softmax_fwd. rewrite (softmax_dom_ok xs H).
  eexists; split; [reflexivity|].
  unfold softmax_bwd. rewrite map_map. rewrite <- (map_id xs) at 2.
  apply map_ext_in. intros x Hx.
  unfold softmax_dom in H. rewrite Forall_forall in H. destruct (H x Hx) as [Hp Hs].
  apply softmax_bwd_fwd_row; [assumption|]. pose proof EPS_pos. lra.
Qed.

Lemma softmax_bwd_row_pos y : row_pos (softmax_bwd_row y).
Proof.
  unfold row_pos, softmax_bwd_row. cbv zeta. rewrite Forall_forall. intros v Hv.
  rewrite map_map in Hv. apply in_map_iff in Hv. destruct Hv as (u & <- & _).
  pose proof (rsum_exp_pos y). apply Rdiv_lt_0_compat; [apply exp_pos | lra].
Qed.

(* forward raises unless every back-transformed row sums to at most 1 - EPS *)
Lemma softmax_fwd_bwd ys :
  Forall (fun y => rsum (softmax_bwd_row y) <= 1 - EPS) ys ->
  softmax_fwd (softmax_bwd ys) = Some ys.
Proof.
  intros H. unfold softmax_fwd.
  assert (Hd : softmax_dom (softmax_bwd ys)).
  { unfold softmax_dom, softmax_bwd. rewrite Forall_forall. intros x Hx.
    apply in_map_iff in Hx. destruct Hx as (y & <- & Hy). split.
    - apply softmax_bwd_row_pos.
    - rewrite Forall_forall in H. auto. }
  rewrite (softmax_dom_ok _ Hd). f_equal.
  unfold softmax_bwd. rewrite map_map. rewrite <- (map_id ys) at 2.
  apply map_ext. intros y. apply softmax_fwd_bwd_row.
Qed.

(* the back-transformed row always sums to less than 1 *)
Lemma softmax_bwd_row_sum y : rsum (softmax_bwd_row y) < 1.
Proof.
  unfold softmax_bwd_row. cbv zeta. rewrite rsum_map_div.
  pose proof (rsum_exp_pos y). apply div_lt_1; lra.
Qed.

(* ------------------------------------------------------------------ *)
(* Sinh                                                                 *)
Lemma sinh_scale_pos nu scale : sinh_params_ok nu scale -> 0 < scale.
Proof.
  intros (_ & [Hs _]). unfold TR_Sinh_scale_min in Hs. simpl in Hs.
  pose proof EPS_pos. unfold EPS in *. lra.
Qed.

Lemma sinh_bwd_fwd nu scale x :
  sinh_params_ok nu scale -> sinh_bwd nu scale (sinh_fwd nu scale x) = x.
Proof.
  intros Hp. pose proof (sinh_scale_pos _ _ Hp).
  unfold sinh_bwd, sinh_fwd. rewrite sinh_arcsinh. field. lra.
Qed.

Lemma sinh_fwd_bwd nu scale y :
  sinh_params_ok nu scale -> sinh_fwd nu scale (sinh_bwd nu scale y) = y.
Proof.
  intros Hp. pose proof (sinh_scale_pos _ _ Hp).
  unfold sinh_bwd, sinh_fwd.
  replace ((sinh y / scale + nu - nu) * scale) with (sinh y) by (field; lra).
  apply arcsinh_sinh.
Qed.

(* ------------------------------------------------------------------ *)
(* Manly (repaired code)                                                *)
Lemma manly_xmax_pos lam xmax : manly_params_ok lam xmax -> 0 < xmax.
Proof.
  intros (_ & [Hx _]). unfold TR_Manly_xmax_min in Hx. simpl in Hx.
  pose proof EPS_pos. unfold EPS in *. lra.
Qed.

Lemma manly_bwd_fwd lam xmax x :
  manly_params_ok lam xmax -> manly_bwd lam xmax (manly_fwd lam xmax x) = x.
Proof.
  intros Hp. pose proof (manly_xmax_pos _ _ Hp) as Hx.
  unfold manly_bwd, manly_fwd. cbv zeta.
  destruct (Rltb_cases EPS (Rabs lam)) as [[E H]|[E H]]; rewrite E.
  - assert (Hl : lam <> 0) by (eapply Rabs_gt_neq0; [apply EPS_pos | exact H]).
    replace (1 + lam * ((exp (lam * (x / xmax)) - 1) / lam)) with (exp (lam * (x / xmax)))
      by (field; assumption).
    rewrite ln_exp. field. split; lra.
  - field. lra.
Qed.

Lemma manly_fwd_bwd lam xmax y :
  manly_params_ok lam xmax -> (EPS < Rabs lam -> 0 < 1 + lam * y) ->
  manly_fwd lam xmax (manly_bwd lam xmax y) = y.
Proof.
  intros Hp Hy. pose proof (manly_xmax_pos _ _ Hp) as Hx.
  unfold manly_bwd, manly_fwd. cbv zeta.
  destruct (Rltb_cases EPS (Rabs lam)) as [[E H]|[E H]]; rewrite E.
  - assert (Hl : lam <> 0) by (eapply Rabs_gt_neq0; [apply EPS_pos | exact H]).
    replace (lam * (xmax * ln (1 + lam * y) / lam / xmax)) with (ln (1 + lam * y))
      by (field; split; lra).
    rewrite exp_ln by auto. field. assumption.
  - field. lra.
Qed.

(* pinned code: no value at lam = EPS (exception) nor at lam = 0 (NaN) *)
Lemma manly_ok_at lam : -5 <= lam <= 5 -> manly_params_ok lam 2.
Proof.
  intros H. unfold manly_params_ok, in_bounds, TR_Manly_lam_min, TR_Manly_lam_max,
    TR_Manly_xmax_min, TR_Manly_xmax_max. simpl. pose proof EPS_lt_1. unfold EPS in *. lra.
Qed.

Lemma manly_pinned_refuted_eps :
  exists lam xmax x, manly_params_ok lam xmax /\ manly_fwd_pinned lam xmax x = None.
Proof.
  exists EPS, 2, (1/2). split.
  - apply manly_ok_at. pose proof EPS_pos. pose proof EPS_lt_1. lra.
  - unfold manly_fwd_pinned. replace (EPS - EPS) with 0 by ring. rewrite Rabs_R0.
    rewrite (proj2 (Rltb_false 0 0)) by lra. reflexivity.
Qed.

Lemma manly_pinned_refuted_zero :
  exists lam xmax x, manly_params_ok lam xmax /\
    manly_fwd_pinned lam xmax x = None /\ manly_bwd_pinned lam xmax x = None.
Proof.
  exists 0, 2, (1/2). split; [apply manly_ok_at; lra|].
  unfold manly_fwd_pinned, manly_bwd_pinned.
  assert (H : 0 < Rabs (0 - EPS)).
  { apply Rabs_pos_lt. pose proof EPS_pos. lra. }
  rewrite (proj2 (Rltb_true _ _) H).
  rewrite (proj2 (Reqb_true 0 0)) by reflexivity. split; reflexivity.
Qed.

(* ------------------------------------------------------------------ *)
(* backward_censored, for any transform with an increasing forward and  *)
(* backward (forward x) = x                                             *)
Section Censored.
  Variables fwd bwd : R -> option R.
  Hypothesis round_trip : forall x y, fwd x = Some y -> bwd y = Some x.
  Hypothesis increasing : forall x1 x2 y1 y2,
    fwd x1 = Some y1 -> fwd x2 = Some y2 -> x1 <= x2 -> y1 <= y2.

  Lemma backward_censored_spec censor tc x y :
    fwd censor = Some tc -> fwd x = Some y ->
    backward_censored fwd bwd censor y = Some (Rmax x censor).
  Proof.
    intros Hc Hx. unfold backward_censored. rewrite Hc.
    destruct (Rle_dec censor x) as [Hle|Hgt].
    - assert (tc <= y) by (eapply increasing; eauto).
      rewrite Rmax_left by assumption. rewrite (round_trip _ _ Hx). simpl. reflexivity.
    - assert (Hlt : x <= censor) by lra.
      assert (y <= tc) by (eapply increasing; eauto).
      rewrite Rmax_right by assumption. rewrite (round_trip _ _ Hc). simpl.
      rewrite Rmax_left by lra. rewrite Rmax_right by lra. reflexivity.
  Qed.

  (* censor outside the domain (forward gives NaN): plain backward, floored *)
  Lemma backward_censored_nan censor y :
    fwd censor = None -> backward_censored fwd bwd censor y = omax (bwd y) censor.
  Proof. intros Hc. unfold backward_censored. rewrite Hc. reflexivity. Qed.
End Censored.

(* ------------------------------------------------------------------ *)
(* non-vacuity: the hypotheses of the theorems are met at branch values *)
Lemma ex_logit : logit_params_ok 0 0 /\ 0 < 1 / 2 < 0 + exp 0.
Proof.
  split.
  - unfold logit_params_ok, in_bounds, TR_Logit_lower_min, TR_Logit_lower_max,
      TR_Logit_logdelta_min, TR_Logit_logdelta_max. simpl. lra.
  - rewrite exp_0. lra.
Qed.

Lemma ex_log : log_base_ok (Some 10) /\ log_base_ok None /\ log_params_ok EPS EPS /\ 0 < 1 + EPS.
Proof.
  pose proof EPS_pos.
  repeat split; simpl; lra.
Qed.

(* lam = 0 exactly, lam = EPS exactly (log branch), lam just above EPS (power branch) *)
Lemma ex_bc2 :
  bc2_params_ok EPS 0 EPS 0 /\ bc2_params_ok EPS 0 EPS EPS /\ bc2_params_ok EPS 0 EPS (2 * EPS) /\
  0 < 1 + EPS /\ Rltb EPS (Rabs 0) = false /\ Rltb EPS (Rabs EPS) = false /\
  Rltb EPS (Rabs (2 * EPS)) = true.
Proof.
  pose proof EPS_pos. pose proof EPS_lt_1.
  assert (B : forall lam, 0 <= lam <= 3 -> bc2_params_ok EPS 0 EPS lam).
  { intros lam Hl. unfold bc2_params_ok, in_bounds, TR_BoxCox2_nu_min, TR_BoxCox2_nu_max,
      TR_BoxCox2_lam_min, TR_BoxCox2_lam_max. simpl. lra. }
  split; [apply B; lra|]. split; [apply B; lra|]. split; [apply B; lra|].
  split; [lra|]. split; [|split].
  - apply Rltb_false. rewrite Rabs_R0. lra.
  - apply Rltb_false. rewrite Rabs_right by lra. lra.
  - apply Rltb_true. rewrite Rabs_right by lra. lra.
Qed.

Lemma ex_bc2_image : (EPS < Rabs 1 -> 0 < 1 * 1 + 1) /\ (EPS < Rabs 0 -> 0 < 0 * 1 + 1).
Proof. split; intros; lra. Qed.

Lemma ex_bc1 :
  bc1lam_params_ok EPS 0 1 0 /\ bc1nu_params_ok EPS 0 1 0 /\ bc2sym_params_ok EPS 0 1 0 /\
  0 < 1 + 1 /\ (0 : R) < 1.
Proof.
  pose proof EPS_pos. pose proof EPS_lt_1.
  repeat split; simpl; lra.
Qed.

Lemma ex_bc2sym_image :
  EPS < Rabs 0 -> 0 < 0 * (Rabs (-3) + bc2_fwd 1 0 0) + 1.
Proof. intros; lra. Qed.

(* lam = 2 (log branch of the negative side) at w = -1; lam = 0 at w = 0 *)
Lemma ex_yj :
  yj_params_ok 0 1 2 /\ yj_same_side 2 (yj_w 0 1 (-1)) /\ isclose 2 2 = true /\
  yj_params_ok 0 1 0 /\ yj_same_side 0 (yj_w 0 1 0) /\ isclose 0 0 = true.
Proof.
  assert (B : forall lam, -1 <= lam <= 3 -> yj_params_ok 0 1 lam).
  { intros lam Hl. unfold yj_params_ok, in_bounds, TR_YeoJohnson_nu_min, TR_YeoJohnson_nu_max,
      TR_YeoJohnson_scale_min, TR_YeoJohnson_scale_max, TR_YeoJohnson_lam_min,
      TR_YeoJohnson_lam_max. simpl. lra. }
  assert (C : forall b, isclose b b = true).
  { intros b. unfold isclose. apply Rleb_true. replace (b - b) with 0 by ring.
    rewrite Rabs_R0. apply isclose_tol_nonneg. }
  split; [apply B; lra|]. split; [apply yj_same_side_nonpos; unfold yj_w; lra|].
  split; [apply C|]. split; [apply B; lra|].
  split; [apply yj_same_side_nonpos; unfold yj_w; lra|]. apply C.
Qed.

(* the positive side at lam = 1 (power branch): w = 1, y = 1 *)
Lemma ex_yj_pos : yj_same_side 1 (yj_w 0 1 1) /\ isclose 1 0 = false.
Proof.
  assert (C : isclose 1 0 = false).
  { unfold isclose. apply Rleb_false. rewrite Rabs_R0, Rmult_0_r.
    replace (1 - 0) with 1 by ring. rewrite Rabs_R1.
    unfold TR_ISCLOSE_ATOL. lra. }
  split; [|exact C].
  pose proof EPS_pos. pose proof EPS_lt_1.
  unfold yj_same_side, yj_w, yj_fwd_w.
  replace (0 + 1 * 1) with 1 by ring.
  rewrite (proj2 (Rleb_true EPS 1)) by lra. rewrite C. simpl.
  rewrite Rpower_1 by lra. split; intros; lra.
Qed.

Lemma ex_yj_image : yj_image 2 (-1) /\ yj_same_side_bwd 2 (-1).
Proof.
  pose proof EPS_pos.
  assert (C : isclose 2 2 = true).
  { unfold isclose. apply Rleb_true. replace (2 - 2) with 0 by ring.
    rewrite Rabs_R0. apply isclose_tol_nonneg. }
  split.
  - split; intros; try lra; try congruence.
  - unfold yj_same_side_bwd, yj_bwd_w.
    rewrite (proj2 (Rleb_false EPS (-1))) by lra. rewrite C. simpl.
    replace (- -1) with 1 by ring.
    assert (exp 0 < exp 1) by (apply exp_increasing; lra). rewrite exp_0 in *.
    split; intros; lra.
Qed.

Lemma ex_logsinh :
  logsinh_params_ok (-1) 0 1 /\ logsinh_guard (-1) 0 1 1 = true.
Proof.
  pose proof EPS_pos. pose proof EPS_lt_1. split.
  - unfold logsinh_params_ok, in_bounds, TR_LogSinh_loga_min, TR_LogSinh_loga_max,
      TR_LogSinh_logb_min, TR_LogSinh_logb_max, TR_LogSinh_xmax_min, TR_LogSinh_xmax_max.
    simpl. unfold EPS in *. lra.
  - unfold logsinh_guard. cbv zeta. apply Rltb_true. rewrite exp_0.
    pose proof (exp_pos (-1)). lra.
Qed.

Lemma ex_softmax : softmax_dom [[1/4; 1/4]; [1/2]].
Proof.
  pose proof EPS_lt_1. assert (EPS < 1/4) by (unfold EPS, TR_EPS; lra).
  unfold softmax_dom, row_pos, rsum.
  repeat constructor; simpl; lra.
Qed.

Lemma ex_sinh : sinh_params_ok 0 1.
Proof.
  pose proof EPS_lt_1.
  unfold sinh_params_ok, in_bounds, TR_Sinh_nu_min, TR_Sinh_nu_max, TR_Sinh_scale_min,
    TR_Sinh_scale_max. simpl. unfold EPS in *. lra.
Qed.

(* lam = 0 exactly (identity branch), lam = 1 (exponential branch) *)
Lemma ex_manly :
  manly_params_ok 0 2 /\ manly_params_ok 1 2 /\ Rltb EPS (Rabs 0) = false /\
  Rltb EPS (Rabs 1) = true /\ (EPS < Rabs 1 -> 0 < 1 + 1 * 1).
Proof.
  pose proof EPS_pos. pose proof EPS_lt_1.
  split; [apply manly_ok_at; lra|]. split; [apply manly_ok_at; lra|].
  split; [|split].
  - apply Rltb_false. rewrite Rabs_R0. lra.
  - apply Rltb_true. rewrite Rabs_R1. lra.
  - intros; lra.
Qed.

(* ------------------------------------------------------------------ *)
(* YeoJohnson: the same-side hypothesis also holds for every w >= 2 EPS  *)
(* (uses the extracted lower bound lam >= -1): exact invertibility fails *)
(* only inside the band 0 < w < 2 EPS                                    *)
Lemma exp_ge_1_plus x : 1 + x <= exp x.
Proof. apply exp_ineq1_le. Qed.

(* ln (1+w) >= w/(1+w) for w > -1 *)
Lemma ln_1p_lower w : 0 < 1 + w -> w / (1 + w) <= ln (1 + w).
Proof.
  intros Hw. set (L := ln (1 + w)).
  pose proof (exp_ge_1_plus (- L)) as H. unfold L in H. rewrite exp_Ropp, exp_ln in H by assumption.
  fold L in H.
  assert (E : / (1 + w) = 1 - w / (1 + w)) by (field; lra).
  rewrite E in H. lra.
Qed.

(* 1 - exp(-s) >= s/(1+s) for s >= 0 *)
Lemma one_minus_exp_neg s : 0 <= s -> s / (1 + s) <= 1 - exp (- s).
Proof.
  intros Hs. pose proof (exp_ge_1_plus s) as H. rewrite exp_Ropp.
  assert (Hp : 0 < 1 + s) by lra.
  assert (Hi : / exp s <= / (1 + s)) by (apply Rinv_le_contravar; lra).
  assert (E : s / (1 + s) = 1 - / (1 + s)) by (field; lra).
  rewrite E. lra.
Qed.

Lemma yj_lam_ge_m1 nu scale lam : yj_params_ok nu scale lam -> -1 <= lam.
Proof.
  intros (_ & _ & [Hl _]). unfold TR_YeoJohnson_lam_min in Hl. simpl in Hl. lra.
Qed.

(* on the positive side y >= L/(1+L), L = ln(1+w) *)
Lemma yj_fwd_w_lower lam w :
  -1 <= lam -> EPS <= w -> ln (1 + w) / (1 + ln (1 + w)) <= yj_fwd_w lam w.
Proof.
  intros Hl Hw. pose proof EPS_pos as He.
  assert (HL : 0 < ln (1 + w)) by (rewrite <- ln_1; apply ln_increasing; lra).
  set (L := ln (1 + w)) in *.
  assert (Hq : L / (1 + L) <= L).
  { apply (Rmult_le_reg_r (1 + L)); [lra|]. unfold Rdiv. rewrite Rmult_assoc, Rinv_l by lra. nra. }
  unfold yj_fwd_w. rewrite (proj2 (Rleb_true EPS w) Hw).
  replace (w + 1) with (1 + w) by ring.
  destruct (isclose lam 0) eqn:Ec; simpl.
  - fold L. exact Hq.
  - assert (Hn : lam <> 0) by (apply not_isclose_neq; assumption).
    unfold Rpower. fold L.
    destruct (Rlt_dec 0 lam) as [Hp|Hp].
    + (* exp(lam L) - 1 >= lam L *)
      pose proof (exp_ge_1_plus (lam * L)).
      assert (L <= (exp (lam * L) - 1) / lam).
      { apply (Rmult_le_reg_r lam); [assumption|]. unfold Rdiv. rewrite Rmult_assoc, Rinv_l by lra. lra. }
      lra.
    + assert (Hneg : lam < 0) by lra.
      set (s := - lam * L).
      assert (Hs : 0 <= s).
      { assert (0 <= (- lam) * L) by (apply Rmult_le_pos; lra). unfold s. lra. }
      pose proof (one_minus_exp_neg s Hs) as H1.
      replace (- s) with (lam * L) in H1 by (unfold s; ring).
      (* (exp(lam L) - 1)/lam = (1 - exp(lam L))/(-lam) >= (s/(1+s))/(-lam) = L/(1+s) >= L/(1+L) *)
      assert (Hs1 : s <= L).
      { assert (0 <= (1 + lam) * L) by (apply Rmult_le_pos; lra). unfold s. nra. }
      assert (H2 : L / (1 + L) <= L / (1 + s)).
      { unfold Rdiv. apply Rmult_le_compat_l; [lra|]. apply Rinv_le_contravar; lra. }
      assert (H3 : L / (1 + s) = (s / (1 + s)) / (- lam)).
      { assert (Es : s / (- lam) = L) by (unfold s; field; lra).
        rewrite <- Es at 1. field. split; lra. }
      assert (H4 : (s / (1 + s)) / (- lam) <= (1 - exp (lam * L)) / (- lam)).
      { unfold Rdiv. apply Rmult_le_compat_r; [|exact H1]. left. apply Rinv_0_lt_compat. lra. }
      assert (H5 : (1 - exp (lam * L)) / (- lam) = (exp (lam * L) - 1) / lam) by (field; lra).
      lra.
Qed.

Lemma yj_same_side_pos lam w : -1 <= lam -> 2 * EPS <= w -> yj_same_side lam w.
Proof.
  intros Hl Hw. pose proof EPS_pos as He. pose proof EPS_lt_1 as He1.
  assert (He4 : EPS < 1 / 4) by (unfold EPS, TR_EPS; lra).
  unfold yj_same_side. split; intros _; [|lra].
  assert (Hw1 : EPS <= w) by lra.
  pose proof (yj_fwd_w_lower lam w Hl Hw1) as Hy.
  pose proof (ln_1p_lower w ltac:(lra)) as HL.
  set (L := ln (1 + w)) in *.
  assert (HL0 : 0 < w / (1 + w)) by (apply Rdiv_lt_0_compat; lra).
  (* t |-> t/(1+t) is increasing: L/(1+L) >= (w/(1+w))/(1+w/(1+w)) = w/(1+2w) >= EPS *)
  assert (Hm : (w / (1 + w)) / (1 + w / (1 + w)) <= L / (1 + L)).
  { set (a := w / (1 + w)) in *.
    apply (Rmult_le_reg_r ((1 + a) * (1 + L))); [nra|].
    replace (a / (1 + a) * ((1 + a) * (1 + L))) with (a * (1 + L)) by (field; lra).
    replace (L / (1 + L) * ((1 + a) * (1 + L))) with (L * (1 + a)) by (field; lra).
    nra. }
  assert (Hv : (w / (1 + w)) / (1 + w / (1 + w)) = w / (1 + 2 * w)) by (field; split; lra).
  assert (Hf : EPS <= w / (1 + 2 * w)).
  { apply (Rmult_le_reg_r (1 + 2 * w)); [lra|].
    unfold Rdiv. rewrite Rmult_assoc, Rinv_l by lra. nra. }
  lra.
Qed.

Lemma yj_bwd_fwd_outside_band nu scale lam x :
  yj_params_ok nu scale lam ->
  (yj_w nu scale x <= 0 \/ 2 * EPS <= yj_w nu scale x) ->
  yj_bwd nu scale lam (yj_fwd nu scale lam x) = x.
Proof.
  intros Hp Hw. apply yj_bwd_fwd; [assumption|].
  destruct Hw as [Hw|Hw].
  - apply yj_same_side_nonpos; assumption.
  - apply yj_same_side_pos; [eapply yj_lam_ge_m1; eassumption | assumption].
Qed.

Lemma ex_yj_band : yj_params_ok 0 1 (1/2) /\ 2 * EPS <= yj_w 0 1 1.
Proof.
  pose proof EPS_pos. assert (EPS < 1 / 4) by (unfold EPS, TR_EPS; lra).
  split.
  - unfold yj_params_ok, in_bounds, TR_YeoJohnson_nu_min, TR_YeoJohnson_nu_max,
      TR_YeoJohnson_scale_min, TR_YeoJohnson_scale_max, TR_YeoJohnson_lam_min,
      TR_YeoJohnson_lam_max. simpl. lra.
  - unfold yj_w. lra.
Qed.
