(* Theorems about Model/Summary.v (property C20), part 1:
   plotting positions, normal scores, numpy.linspace, Latin-hypercube strata. *)
From Coq Require Import ZArith Bool List Reals Lra Lia Permutation.
From Hy Require Import Base.Num Gen.ConstsC20 Model.Summary.
Import ListNotations.
Open Scope R_scope.

(* ---------- extracted constants: the three renderings agree ---------- *)
Lemma qc_RR num den : qc RR num den = IZR num / IZR den.
Proof. reflexivity. Qed.

Lemma consts_R_agree :
  qc RR PPOS_CST_MIN_NUM PPOS_CST_MIN_DEN = PPOS_CST_MIN_R /\
  qc RR PPOS_CST_MAX_NUM PPOS_CST_MAX_DEN = PPOS_CST_MAX_R /\
  qc RR PCT_TOTAL_NUM PCT_TOTAL_DEN = PCT_TOTAL_R /\
  qc RR PCT_HALVE_NUM PCT_HALVE_DEN = PCT_HALVE_R /\
  qc RR PCT_COMPL_NUM PCT_COMPL_DEN = PCT_COMPL_R /\
  qc RR PCT_MEDIAN_NUM PCT_MEDIAN_DEN = PCT_MEDIAN_R /\
  qc RR BOX_COVERAGE_MIN_NUM BOX_COVERAGE_MIN_DEN = BOX_COVERAGE_MIN_R /\
  qc RR VIOLIN_COVERAGE_CENTER_NUM VIOLIN_COVERAGE_CENTER_DEN = VIOLIN_COVERAGE_CENTER_R /\
  qc RR VIOLIN_COVERAGE_EXTREMES_NUM VIOLIN_COVERAGE_EXTREMES_DEN = VIOLIN_COVERAGE_EXTREMES_R /\
  qc RR VIOLIN_ERR_SCALE_NUM VIOLIN_ERR_SCALE_DEN = VIOLIN_ERR_SCALE_R.
Proof. repeat split; rewrite qc_RR; unfold PPOS_CST_MIN_R, PPOS_CST_MAX_R, PCT_TOTAL_R, PCT_HALVE_R,
  PCT_COMPL_R, PCT_MEDIAN_R, BOX_COVERAGE_MIN_R, VIOLIN_COVERAGE_CENTER_R, VIOLIN_COVERAGE_EXTREMES_R,
  VIOLIN_ERR_SCALE_R, PPOS_CST_MIN_NUM, PPOS_CST_MIN_DEN, PPOS_CST_MAX_NUM, PPOS_CST_MAX_DEN,
  PCT_TOTAL_NUM, PCT_TOTAL_DEN, PCT_HALVE_NUM, PCT_HALVE_DEN, PCT_COMPL_NUM, PCT_COMPL_DEN,
  PCT_MEDIAN_NUM, PCT_MEDIAN_DEN, BOX_COVERAGE_MIN_NUM, BOX_COVERAGE_MIN_DEN,
  VIOLIN_COVERAGE_CENTER_NUM, VIOLIN_COVERAGE_CENTER_DEN, VIOLIN_COVERAGE_EXTREMES_NUM,
  VIOLIN_COVERAGE_EXTREMES_DEN, VIOLIN_ERR_SCALE_NUM, VIOLIN_ERR_SCALE_DEN; lra. Qed.

Lemma consts_F_agree :
  qc F64 PPOS_CST_MIN_NUM PPOS_CST_MIN_DEN = PPOS_CST_MIN_F /\
  qc F64 PPOS_CST_MAX_NUM PPOS_CST_MAX_DEN = PPOS_CST_MAX_F /\
  qc F64 PCT_TOTAL_NUM PCT_TOTAL_DEN = PCT_TOTAL_F /\
  qc F64 PCT_HALVE_NUM PCT_HALVE_DEN = PCT_HALVE_F /\
  qc F64 PCT_COMPL_NUM PCT_COMPL_DEN = PCT_COMPL_F /\
  qc F64 PCT_MEDIAN_NUM PCT_MEDIAN_DEN = PCT_MEDIAN_F /\
  qc F64 BOX_COVERAGE_MIN_NUM BOX_COVERAGE_MIN_DEN = BOX_COVERAGE_MIN_F /\
  qc F64 VIOLIN_COVERAGE_CENTER_NUM VIOLIN_COVERAGE_CENTER_DEN = VIOLIN_COVERAGE_CENTER_F /\
  qc F64 VIOLIN_COVERAGE_EXTREMES_NUM VIOLIN_COVERAGE_EXTREMES_DEN = VIOLIN_COVERAGE_EXTREMES_F /\
  qc F64 VIOLIN_ERR_SCALE_NUM VIOLIN_ERR_SCALE_DEN = VIOLIN_ERR_SCALE_F.
Proof. repeat split; vm_compute; reflexivity. Qed.

Ltac rb := repeat match goal with
  | H : Rltb _ _ = true |- _ => apply Rltb_true in H
  | H : Rltb _ _ = false |- _ => apply Rltb_false in H
  | H : Rleb _ _ = true |- _ => apply Rleb_true in H
  | H : Rleb _ _ = false |- _ => apply Rleb_false in H
  | H : Reqb _ _ = true |- _ => apply Reqb_true in H
  | H : Reqb _ _ = false |- _ => apply Reqb_false in H
  end.

(* ---------- zseq ---------- *)
Lemma zseq_length s n : length (zseq s n) = n.
Proof. revert s; induction n; intros; simpl; auto. Qed.

Lemma zseq_nth s n k d : (k < n)%nat -> nth k (zseq s n) d = (s + Z.of_nat k)%Z.
Proof.
  revert s k; induction n; intros s k H; [lia|].
  destruct k; simpl; [lia|]. rewrite IHn by lia. lia.
Qed.

Lemma zseq_In s n z : In z (zseq s n) <-> (s <= z < s + Z.of_nat n)%Z.
Proof.
  revert s; induction n; intros s; simpl; [lia|].
  rewrite IHn. lia.
Qed.

Lemma zseq_NoDup s n : NoDup (zseq s n).
Proof.
  revert s; induction n; intros s; simpl; constructor; auto.
  rewrite zseq_In. lia.
Qed.

(* =====================================================================
   plotting positions
   ===================================================================== *)

Lemma ppos_cst_ok_RR cst :
  ppos_cst_ok RR cst = true <-> PPOS_CST_MIN_R <= cst <= PPOS_CST_MAX_R.
Proof.
  unfold ppos_cst_ok. rewrite negb_true_iff, orb_false_iff.
  cbn [nltb RR]. rewrite !Rltb_false.
  destruct consts_R_agree as (-> & -> & _). lra.
Qed.

Lemma ppos_den_RR n cst : ppos_den RR n cst = IZR n + 1 - 2 * cst.
Proof. unfold ppos_den; cbn [nsub nmul nofZ RR]. rewrite plus_IZR. reflexivity. Qed.

Lemma ppos_at_RR n cst i : ppos_at RR n cst i = (IZR i - cst) / (IZR n + 1 - 2 * cst).
Proof. unfold ppos_at; cbn [ndiv nsub nofZ RR]. rewrite ppos_den_RR. reflexivity. Qed.

Lemma ppos_den_pos n cst : (1 <= n)%Z -> 0 <= cst <= 1/2 -> 0 < IZR n + 1 - 2 * cst.
Proof. intros Hn Hc. apply IZR_le in Hn. lra. Qed.

Theorem ppos_accepts n cst : PPOS_CST_MIN_R <= cst <= PPOS_CST_MAX_R ->
  ppos RR n cst = Some (map (ppos_at RR n cst) (zseq 1 (Z.to_nat n))).
Proof. intros H. unfold ppos. apply ppos_cst_ok_RR in H. rewrite H. reflexivity. Qed.

Theorem ppos_rejects n cst : cst < PPOS_CST_MIN_R \/ PPOS_CST_MAX_R < cst -> ppos RR n cst = None.
Proof.
  intros H. unfold ppos. destruct (ppos_cst_ok RR cst) eqn:E; auto.
  apply ppos_cst_ok_RR in E. lra.
Qed.

(* the list returned has n elements, the k-th (from 0) being the position of i = k+1 *)
Theorem ppos_list n cst l : ppos RR n cst = Some l ->
  length l = Z.to_nat n /\
  forall k, (k < Z.to_nat n)%nat -> nth k l 0 = ppos_at RR n cst (Z.of_nat k + 1).
Proof.
  unfold ppos. destruct (ppos_cst_ok RR cst); [|discriminate]. intros E; inversion E; subst l.
  split; [rewrite map_length, zseq_length; reflexivity|].
  intros k Hk. rewrite nth_indep with (d' := ppos_at RR n cst 0%Z)
    by (rewrite map_length, zseq_length; lia).
  rewrite map_nth, zseq_nth by lia. f_equal. lia.
Qed.

Theorem ppos_in_unit n cst i : 0 <= cst <= 1/2 -> (1 <= i <= n)%Z ->
  0 < ppos_at RR n cst i < 1.
Proof.
  intros Hc Hi. rewrite ppos_at_RR.
  assert (Hd := ppos_den_pos n cst ltac:(lia) Hc).
  assert (1 <= IZR i) by (apply IZR_le; lia).
  assert (IZR i <= IZR n) by (apply IZR_le; lia).
  split.
  - apply Rdiv_lt_0_compat; lra.
  - apply Rmult_lt_reg_r with (IZR n + 1 - 2 * cst); [lra|].
    unfold Rdiv. rewrite Rmult_assoc, Rinv_l by lra. lra.
Qed.

Theorem ppos_increasing n cst i j : 0 <= cst <= 1/2 -> (1 <= n)%Z -> (i < j)%Z ->
  ppos_at RR n cst i < ppos_at RR n cst j.
Proof.
  intros Hc Hn Hij. rewrite !ppos_at_RR.
  assert (Hd := ppos_den_pos n cst Hn Hc).
  apply IZR_lt in Hij. unfold Rdiv.
  apply Rmult_lt_compat_r; [apply Rinv_0_lt_compat; lra | lra].
Qed.

Theorem ppos_symmetric n cst i : 0 <= cst <= 1/2 -> (1 <= n)%Z ->
  ppos_at RR n cst i + ppos_at RR n cst (n + 1 - i) = 1.
Proof.
  intros Hc Hn. rewrite !ppos_at_RR.
  assert (Hd := ppos_den_pos n cst Hn Hc).
  rewrite minus_IZR, plus_IZR. field. lra.
Qed.

(* the same three facts on the elements of the returned array *)
Theorem ppos_array n cst l : 0 <= cst <= 1/2 -> ppos RR n cst = Some l ->
  length l = Z.to_nat n /\
  (forall k, (k < length l)%nat -> 0 < nth k l 0 < 1) /\
  (forall k k', (k < k' < length l)%nat -> nth k l 0 < nth k' l 0) /\
  (forall k, (k < length l)%nat -> nth k l 0 + nth (length l - 1 - k) l 0 = 1).
Proof.
  intros Hc E. destruct (ppos_list _ _ _ E) as [HL Hnth]. split; [exact HL|].
  rewrite HL. repeat split.
  - rewrite Hnth by lia. apply ppos_in_unit; auto; lia.
  - rewrite Hnth by lia. apply ppos_in_unit; auto; lia.
  - intros k k' H. rewrite !Hnth by lia. apply ppos_increasing; auto; lia.
  - intros k H. rewrite !Hnth by lia.
    replace (Z.of_nat (Z.to_nat n - 1 - k) + 1)%Z with (n + 1 - (Z.of_nat k + 1))%Z by lia.
    apply ppos_symmetric; auto; lia.
Qed.

Example ppos_example : exists l, ppos RR 3 (3/10) = Some l /\ nth 1 l 0 = 1/2.
Proof.
  destruct (ppos RR 3 (3/10)) eqn:E.
  2:{ rewrite ppos_accepts in E by (unfold PPOS_CST_MIN_R, PPOS_CST_MAX_R; lra). discriminate. }
  exists l; split; auto. destruct (ppos_list _ _ _ E) as [_ H].
  rewrite (H 1%nat) by (change (Z.to_nat 3) with 3%nat; lia).
  rewrite ppos_at_RR. change (Z.of_nat 1 + 1)%Z with 2%Z. lra.
Qed.

(* =====================================================================
   normal scores
   ===================================================================== *)

Lemma nscore_arg_RR n cst r : nscore_arg RR n cst r = (r + 1 - cst) / (IZR n + 1 - 2 * cst).
Proof. unfold nscore_arg; cbn [ndiv nsub nadd n1 RR]. rewrite ppos_den_RR. reflexivity. Qed.

Theorem nscore_arg_in_unit n cst r : 0 <= cst <= 1/2 -> (1 <= n)%Z -> 0 <= r <= IZR n - 1 ->
  0 < nscore_arg RR n cst r < 1.
Proof.
  intros Hc Hn Hr. rewrite nscore_arg_RR.
  assert (Hd := ppos_den_pos n cst Hn Hc). split.
  - apply Rdiv_lt_0_compat; lra.
  - apply Rmult_lt_reg_r with (IZR n + 1 - 2 * cst); [lra|].
    unfold Rdiv. rewrite Rmult_assoc, Rinv_l by lra. lra.
Qed.

Theorem nscore_arg_increasing n cst r1 r2 : 0 <= cst <= 1/2 -> (1 <= n)%Z -> r1 < r2 ->
  nscore_arg RR n cst r1 < nscore_arg RR n cst r2.
Proof.
  intros Hc Hn H. rewrite !nscore_arg_RR.
  assert (Hd := ppos_den_pos n cst Hn Hc). unfold Rdiv.
  apply Rmult_lt_compat_r; [apply Rinv_0_lt_compat; lra | lra].
Qed.

(* counting *)
Lemma count_lt_RR l x : count_lt RR l x = Z.of_nat (length (filter (fun y => Rltb y x) l)).
Proof. reflexivity. Qed.
Lemma count_eq_RR l x : count_eq RR l x = Z.of_nat (length (filter (fun y => Reqb y x) l)).
Proof. reflexivity. Qed.

Lemma filter_length_le {A} (f : A -> bool) l : (length (filter f l) <= length l)%nat.
Proof. induction l; simpl; [lia|]. destruct (f a); simpl; lia. Qed.

Lemma filter_length_imp {A} (f g : A -> bool) l :
  (forall a, In a l -> f a = true -> g a = true) ->
  (length (filter f l) <= length (filter g l))%nat.
Proof.
  induction l; intros H; simpl; [lia|].
  assert (IH : (length (filter f l) <= length (filter g l))%nat)
    by (apply IHl; intros; apply H; simpl; auto).
  destruct (f a) eqn:Ef.
  - rewrite (H a (or_introl eq_refl) Ef). simpl. lia.
  - destruct (g a); simpl; lia.
Qed.

Lemma filter_length_disj {A} (f g : A -> bool) l :
  (forall a, In a l -> f a = true -> g a = true -> False) ->
  (length (filter f l) + length (filter g l) <= length l)%nat.
Proof.
  induction l; intros H; simpl; [lia|].
  assert (IH : (length (filter f l) + length (filter g l) <= length l)%nat)
    by (apply IHl; intros b Hb; apply H; simpl; auto).
  specialize (H a (or_introl eq_refl)).
  destruct (f a) eqn:Ef; destruct (g a) eqn:Eg; simpl; try lia; exfalso; auto.
Qed.

Lemma filter_length_pos {A} (f : A -> bool) l a : In a l -> f a = true ->
  (1 <= length (filter f l))%nat.
Proof.
  induction l; intros H Hf; [destruct H|]. simpl. destruct H as [->|H].
  - rewrite Hf. simpl. lia.
  - destruct (f a0); simpl; [lia | auto].
Qed.

Lemma count_eq_pos l x : In x l -> (1 <= count_eq RR l x)%Z.
Proof.
  intros H. rewrite count_eq_RR.
  assert (1 <= length (filter (fun y => Reqb y x) l))%nat
    by (eapply filter_length_pos; eauto; apply Reqb_true; reflexivity). lia.
Qed.

Lemma count_lt_eq_le l x : (count_lt RR l x + count_eq RR l x <= Z.of_nat (length l))%Z.
Proof.
  rewrite count_lt_RR, count_eq_RR.
  assert (length (filter (fun y => Rltb y x) l) + length (filter (fun y => Reqb y x) l) <= length l)%nat.
  { apply filter_length_disj. intros a _ H1 H2. apply Rltb_true in H1. apply Reqb_true in H2. lra. }
  lia.
Qed.

(* everything below or equal to x is below y when x < y *)
Lemma count_lt_step l x y : x < y ->
  (count_lt RR l x + count_eq RR l x <= count_lt RR l y)%Z.
Proof.
  intros Hxy. rewrite !count_lt_RR, count_eq_RR.
  assert (H : (length (filter (fun z => Rltb z x) l) + length (filter (fun z => Reqb z x) l)
          <= length (filter (fun z => Rltb z y) l))%nat).
  { induction l as [|a l IH]; simpl; [lia|].
    destruct (Rltb a x) eqn:E1; destruct (Reqb a x) eqn:E2; destruct (Rltb a y) eqn:E3; simpl; try lia;
      exfalso; rb; lra. }
  lia.
Qed.

Lemma rank_avg_RR l x :
  rank_avg RR l x = IZR (2 * count_lt RR l x + count_eq RR l x + 1) / 2 - 1.
Proof. reflexivity. Qed.

(* the average rank is a strictly increasing function of the data value *)
Theorem rank_avg_increasing l x y : In x l -> In y l -> x < y ->
  rank_avg RR l x < rank_avg RR l y.
Proof.
  intros Hx Hy Hxy. rewrite !rank_avg_RR.
  assert (H1 := count_lt_step l x y Hxy).
  assert (H2 := count_eq_pos l x Hx). assert (H3 := count_eq_pos l y Hy).
  assert (IZR (2 * count_lt RR l x + count_eq RR l x + 1) < IZR (2 * count_lt RR l y + count_eq RR l y + 1))
    by (apply IZR_lt; lia).
  lra.
Qed.

Lemma count_lt_nonneg l x : (0 <= count_lt RR l x)%Z.
Proof. rewrite count_lt_RR. lia. Qed.

Theorem rank_avg_range l x : In x l -> 0 <= rank_avg RR l x <= IZR (Z.of_nat (length l)) - 1.
Proof.
  intros Hx. rewrite rank_avg_RR.
  assert (H1 := count_eq_pos l x Hx). assert (H2 := count_lt_eq_le l x).
  assert (H0 := count_lt_nonneg l x).
  assert (IZR 2 <= IZR (2 * count_lt RR l x + count_eq RR l x + 1)) by (apply IZR_le; lia).
  assert (IZR (2 * count_lt RR l x + count_eq RR l x + 1) <= IZR (2 * Z.of_nat (length l)))
    by (apply IZR_le; lia).
  rewrite mult_IZR in *. lra.
Qed.

Section NormalScores.
(* the standard normal quantile function is external (scipy): any function that is
   strictly increasing on (0,1) *)
Variable ppf : R -> R.
Hypothesis ppf_increasing : forall p q, 0 < p -> p < q -> q < 1 -> ppf p < ppf q.

Theorem nscore_increasing_in_rank n cst r1 r2 :
  0 <= cst <= 1/2 -> (1 <= n)%Z -> 0 <= r1 -> r1 < r2 -> r2 <= IZR n - 1 ->
  ppf (nscore_arg RR n cst r1) < ppf (nscore_arg RR n cst r2).
Proof.
  intros Hc Hn H0 H12 H2.
  apply ppf_increasing.
  - apply nscore_arg_in_unit; auto; lra.
  - apply nscore_arg_increasing; auto.
  - apply nscore_arg_in_unit; auto; lra.
Qed.

(* end to end on standard_normal: the scores of two data values compare as the values *)
Theorem standard_normal_scores x cst ranks args :
  0 <= cst <= 1/2 ->
  standard_normal_args RR x cst false = Some (ranks, args) ->
  length ranks = length x /\ length args = length x /\
  forall i j, (i < length x)%nat -> (j < length x)%nat ->
    (nth i x 0 < nth j x 0 -> nth i ranks 0 < nth j ranks 0 /\ ppf (nth i args 0) < ppf (nth j args 0)) /\
    (nth i x 0 = nth j x 0 -> nth i ranks 0 = nth j ranks 0 /\ nth i args 0 = nth j args 0).
Proof.
  intros Hc. unfold standard_normal_args.
  destruct (existsb (nisnan RR) x); [discriminate|]. intros E; inversion E; subst ranks args; clear E.
  rewrite !map_length. split; [reflexivity|]. split; [reflexivity|].
  intros i j Hi Hj.
  set (n := Z.of_nat (length x)).
  assert (Er : forall k, (k < length x)%nat ->
            nth k (map (rank_avg RR x) x) 0 = rank_avg RR x (nth k x 0)).
  { intros k Hk. rewrite nth_indep with (d' := rank_avg RR x 0) by (rewrite map_length; lia).
    apply map_nth. }
  assert (Ea : forall k, (k < length x)%nat ->
            nth k (map (nscore_arg RR n cst) (map (rank_avg RR x) x)) 0 =
            nscore_arg RR n cst (rank_avg RR x (nth k x 0))).
  { intros k Hk.
    rewrite nth_indep with (d' := nscore_arg RR n cst (rank_avg RR x 0)) by (rewrite !map_length; lia).
    rewrite map_nth. f_equal. apply map_nth. }
  rewrite !Er, !Ea by assumption.
  assert (Ri := rank_avg_range x (nth i x 0) (nth_In _ _ Hi)).
  assert (Rj := rank_avg_range x (nth j x 0) (nth_In _ _ Hj)).
  split.
  - intros Hlt.
    assert (Hr : rank_avg RR x (nth i x 0) < rank_avg RR x (nth j x 0))
      by (apply rank_avg_increasing; auto using nth_In).
    split; [exact Hr|].
    subst n. apply nscore_increasing_in_rank; auto; try lia; lra.
  - intros Heq. rewrite Heq. split; reflexivity.
Qed.

End NormalScores.

Example standard_normal_example :
  standard_normal_args RR [3; 1; 3] 0 false = Some ([3/2; 0; 3/2], [5/8; 1/4; 5/8]).
Proof.
  unfold standard_normal_args. cbn [existsb nisnan RR orb length map].
  assert (R1 : rank_avg RR [3; 1; 3] 3 = 3/2).
  { rewrite rank_avg_RR, count_lt_RR, count_eq_RR. cbn [filter].
    repeat match goal with
    | |- context [Rltb ?a ?b] => let E := fresh in destruct (Rltb a b) eqn:E;
        [apply Rltb_true in E | apply Rltb_false in E]; try lra
    | |- context [Reqb ?a ?b] => let E := fresh in destruct (Reqb a b) eqn:E;
        [apply Reqb_true in E | apply Reqb_false in E]; try lra
    end.
    match goal with |- IZR ?z / 2 - 1 = _ => let v := eval vm_compute in z in change z with v end. clear. lra. }
  assert (R2 : rank_avg RR [3; 1; 3] 1 = 0).
  { rewrite rank_avg_RR, count_lt_RR, count_eq_RR. cbn [filter].
    repeat match goal with
    | |- context [Rltb ?a ?b] => let E := fresh in destruct (Rltb a b) eqn:E;
        [apply Rltb_true in E | apply Rltb_false in E]; try lra
    | |- context [Reqb ?a ?b] => let E := fresh in destruct (Reqb a b) eqn:E;
        [apply Reqb_true in E | apply Reqb_false in E]; try lra
    end.
    match goal with |- IZR ?z / 2 - 1 = _ => let v := eval vm_compute in z in change z with v end. clear. lra. }
  rewrite R1, R2. rewrite !nscore_arg_RR. change (Z.of_nat 3) with 3%Z.
  replace ((3 / 2 + 1 - 0) / (3 + 1 - 2 * 0)) with (5 / 8) by lra.
  replace ((0 + 1 - 0) / (3 + 1 - 2 * 0)) with (1 / 4) by lra. reflexivity.
Qed.
