(* Theorems about Model/Dscore.v (property C10), part 3: the pinned code's
   Anderson-Darling p-value 1 - AD(n, A2) leaves [0,1] (interval arithmetic on
   the real-number model of AnDarl.c), and the tactics of the E3 correspondence
   files.  This file needs coq-interval (Flocq, Coquelicot, ...); it is built
   and kernel-checked by coqc on every run as an extra target, but kept OUT of
   the closure of Props/C10.v so that the thorough tier's coqchk of that
   closure stays affordable. *)
From Coq Require Import ZArith Bool List Reals Lra Lia Permutation Sorted.
From Interval Require Import Tactic.
From Hy Require Import Base.Num Gen.Consts Gen.ConstsC10 Model.Dscore
                       Proofs.DscoreProofs Proofs.DscoreStatProofs.
Import ListNotations.
Open Scope R_scope.

(* the ten mid-points (i - 1/2)/10 *)
Definition midpoints10 : list R :=
  [1/20; 3/20; 5/20; 7/20; 9/20; 11/20; 13/20; 15/20; 17/20; 19/20].

Lemma midpoints10_in_unit : Forall (fun x => 0 < x < 1) midpoints10.
Proof. unfold midpoints10. repeat constructor; lra. Qed.

Lemma midpoints10_sorted : StronglySorted Rle midpoints10.
Proof. unfold midpoints10. repeat constructor; lra. Qed.

Lemma ad_stat_midpoints10_bounds :
  765 / 10000 <= ad_stat midpoints10 <= 767 / 10000.
Proof.
  unfold ad_stat.
  rewrite (isort_Rleb_is_the_sorted midpoints10 midpoints10 (Permutation_refl _) midpoints10_sorted).
  unfold ad_stat_sorted, ad_terms, midpoints10.
  cbn [length zenum combine rev app map rsumR fst snd Z.mul Z.add Pos.mul Pos.add INR].
  cbn [Z.add Z.mul Pos.add Pos.mul Pos.succ].
  replace (1 + 1 + 1 + 1 + 1 + 1 + 1 + 1 + 1 + 1) with 10 by lra.
  split; interval with (i_prec 60).
Qed.

Lemma AD10_negative z :
  765 / 10000 <= z <= 767 / 10000 -> AD 10 z < - (7 / 1000000).
Proof.
  intros Hz. unfold AD, adinf, ADINF_SPLIT.
  destruct (Rlt_dec z 2) as [_|H]; [|exfalso; lra].
  assert (Hx : 6 / 10000000 <= adinf_lo z <= 9 / 10000000).
  { unfold adinf_lo. split; interval with (i_prec 60). }
  set (x := adinf_lo z) in *. clearbody x.
  unfold AD_SPLIT_HI.
  destruct (Rlt_dec (4 / 5) x) as [H|_]; [exfalso; lra|].
  unfold AD_c.
  destruct (Rlt_dec x (253 / 20000 + 1757 / 10000 / 10)) as [_|H]; [|exfalso; lra].
  unfold AD_lo_ret, AD_lo_v2, AD_lo_v1.
  interval with (i_prec 60, i_bisect x, i_depth 20).
Qed.

(* the statement "the Anderson-Darling p-value lies in [0,1]" is false of the
   pinned code: 1 - AD(10, A2) > 1 for the ten mid-points *)
Theorem ad_pvalue_noclip_refuted :
  exists data, Forall (fun x => 0 < x < 1) data /\
               1 < ad_pvalue_noclip (INR (length data)) (ad_stat data).
Proof.
  exists midpoints10. split; [exact midpoints10_in_unit|].
  unfold ad_pvalue_noclip.
  replace (INR (length midpoints10)) with 10 by (unfold midpoints10; simpl; lra).
  pose proof (AD10_negative _ ad_stat_midpoints10_bounds). lra.
Qed.

(* ---- tactics used by the generated E3 correspondence files (harness/props/c10.py):
   the real-number model of the statistic / p-value at a sample, against the
   value returned by the implementation ---- *)
Ltac ad_stat_e3 :=
  unfold ad_stat_sorted, ad_terms;
  cbn [length zenum combine rev app map rsumR fst snd Z.mul Z.add Pos.mul Pos.add Pos.succ INR];
  interval with (i_prec 90).

Ltac ad_decide_if z :=
  match goal with
  | |- context [Rlt_dec ?a ?b] =>
      lazymatch a with context [Rlt_dec] => fail | _ => idtac end;
      lazymatch b with context [Rlt_dec] => fail | _ => idtac end;
      let H := fresh "Hif" in
      destruct (Rlt_dec a b) as [H|H];
      [ try (exfalso; revert H; apply Rle_not_lt; interval with (i_prec 70))
      | try (exfalso; apply H; interval with (i_prec 70)) ];
      clear H
  end.

Ltac ad_pvalue_e3 :=
  let z := fresh "z" in let Hz := fresh "Hz" in
  intros z Hz;
  unfold ad_pvalue, ad_pvalue_noclip, clamp01, AD, adinf, ADINF_SPLIT, AD_SPLIT_HI, AD_c,
         AD_lo_ret, AD_lo_v2, AD_lo_v1, AD_mid_ret, AD_mid_v2, AD_mid_v1, AD_v_hi,
         adinf_lo, adinf_hi;
  cbv zeta;
  repeat ad_decide_if z;
  first [ interval with (i_prec 70) | interval with (i_prec 70, i_bisect z, i_depth 12) ].

Print Assumptions ad_pvalue_noclip_refuted.
