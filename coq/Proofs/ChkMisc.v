(* Overflow-checked refinement (program_chk, Gen/KernelsAstChk.v) of
     c_inside                       (src/hydrodiy/gis/c_points_inside_polygon.c)
     c_dscore.compare, c_ensrank    (src/hydrodiy/stat/c_dscore.c)

   The theorems are the ones of Proofs/RefinePolygon.v and Proofs/RefineEnsrank.v (same
   conclusions, same models) about the translation in which every signed integer
   + - * / unary- ++ -- op= is wrapped in [IChk W32] (C int) / [IChk W64] (long long):
   besides memory safety they state that no signed integer operation of the kernel
   overflows, under explicit size hypotheses (C types, INT_MAX = 2147483647).

   Main statements:
     Module ChkInside
       chk_refine_c_inside, chk_refine_c_inside_wrapper, chk_refine_c_inside_raw
       overflow_c_inside_nvertices  the size hypothesis is needed: nvertices = INT_MAX
                                    overflows nvertices+1
     Module ChkEnsrank
       chk_compare_run, chk_refine_c_dscore_compare
       chk_refine_c_ensrank_qsort, chk_refine_c_ensrank (+ _RR / _RN instances)
       overflow_c_ensrank_2ncol     the size hypothesis is needed: ncol = 2^30 overflows 2*ncol *)
From Coq Require Import ZArith Bool List String Lia PrimFloat Reals.
From Hy Require Import Base.Num Base.MiniC Gen.Consts Gen.ConstsC10 Gen.KernelsAstChk
                       Model.Polygon Model.Dscore.
From Hy Require Proofs.RefinePolygon Proofs.RefineEnsrank.
Import ListNotations.
Open Scope string_scope.
Open Scope list_scope.
Open Scope Z_scope.

(* ================================================================== *)
(* the overflow test                                                    *)

Lemma in_width_W32 v : in_width W32 v = true <-> -2147483648 <= v <= 2147483647.
Proof. unfold in_width. rewrite andb_true_iff, !Z.leb_le. reflexivity. Qed.

Lemma in_width_W64 v :
  in_width W64 v = true <-> -9223372036854775808 <= v <= 9223372036854775807.
Proof. unfold in_width. rewrite andb_true_iff, !Z.leb_le. reflexivity. Qed.

Lemma in_width_W32_false v : in_width W32 v = false <-> v < -2147483648 \/ 2147483647 < v.
Proof.
  unfold in_width. rewrite andb_false_iff, !Z.leb_gt. reflexivity.
Qed.

Lemma in_width_b2z_sub b : in_width W32 (1 - b2z b) = true.
Proof. destruct b; reflexivity. Qed.

(* the tests stay folded under cbn and are discharged explicitly, by [lia] from the context *)
#[local] Arguments in_width : simpl never.

Ltac chk1 :=
  match goal with
  | |- context[in_width W32 ?e] =>
      replace (in_width W32 e) with true by (symmetry; apply in_width_W32; lia)
  | |- context[in_width W64 ?e] =>
      replace (in_width W64 e) with true by (symmetry; apply in_width_W64; lia)
  end.
Ltac chk := repeat chk1.
(* run, discharging the overflow tests met on the way *)
Ltac chks := cbn; repeat (chk1; cbn).

(* ================================================================== *)
(* running the body of a function statement by statement (no [cbn] over the whole body:
   the conversion is re-checked by the kernel at Qed)                      *)

Section SeqLemmas.
Context {T : Type} (N : NumOps T) (X : NumLit T).

Lemma exec_seq_normal (callf : callee T) fuel a b st st' :
  exec N X callf fuel a st = Ok (ONormal, st') ->
  exec N X callf fuel (SSeq a b) st = exec N X callf fuel b st'.
Proof. intros H. cbn [exec]. rewrite H. reflexivity. Qed.

Lemma exec_seq_ret (callf : callee T) fuel a b st v st' :
  exec N X callf fuel a st = Ok (ORet v, st') ->
  exec N X callf fuel (SSeq a b) st = Ok (ORet v, st').
Proof. intros H. cbn [exec]. rewrite H. reflexivity. Qed.

Lemma exec_seq_err (callf : callee T) fuel a b st e :
  exec N X callf fuel a st = Err e ->
  exec N X callf fuel (SSeq a b) st = Err e.
Proof. intros H. cbn [exec]. rewrite H. reflexivity. Qed.

Lemma exec_fun_unfold p n f args :
  exec_fun N X p (S n) f args =
  (do fd <- find_fun p f;
   do st0 <- bind_params f (fst fd) args st_empty;
   match exec N X (exec_fun N X p n) n (snd fd) st0 with
   | Ok (ORet v, st) => do o <- out_arrays (fst fd) st; Ok (v, o)
   | Ok (_, _) => Err (BadRet f)
   | Err e => Err e
   end).
Proof. reflexivity. Qed.

End SeqLemmas.

Ltac seq_open :=
  match goal with
  | |- exec ?N ?X ?c ?n (SSeq ?a ?b) ?st = _ =>
      eassert (Hs : exec N X c n a st = Ok (ONormal, _))
  end.
Ltac seq_open_ret :=
  match goal with
  | |- exec ?N ?X ?c ?n (SSeq ?a ?b) ?st = _ =>
      eassert (Hs : exec N X c n a st = Ok (ORet _, _))
  end.
Ltac seq_close :=
  match goal with
  | Hs : exec ?N ?X ?c ?n ?a ?st = Ok (ONormal, ?st') |- exec _ _ _ _ (SSeq ?a ?b) ?st = _ =>
      rewrite (exec_seq_normal N X c n a b st st' Hs); clear Hs
  | Hs : exec ?N ?X ?c ?n ?a ?st = Ok (ORet ?v, ?st') |- exec _ _ _ _ (SSeq ?a ?b) ?st = _ =>
      rewrite (exec_seq_ret N X c n a b st v st' Hs); clear Hs
  end.
(* a statement that runs by computation alone *)
Ltac step := seq_open; [cbn; rewrite ?if_same; norm_state; reflexivity|]; seq_close.

(* ================================================================== *)
(* c_inside                                                             *)
(* ================================================================== *)

Module ChkInside.
Import RefinePolygon.

(* the loop over the vertices, named by its position in the regenerated text *)
Definition inner_loop : iexp * stmt * stmt :=
  Eval cbv in nth 1 (for_loops (fun_body c_inside_chk_def)) (IConst 0, SSkip, SSkip).
Definition inner_cond : iexp := Eval cbv in fst (fst inner_loop).
Definition inner_step : stmt := Eval cbv in snd (fst inner_loop).
Definition inner_body : stmt := Eval cbv in snd inner_loop.

Definition ins_body : stmt := Eval cbv in fun_body c_inside_chk_def.
Definition ins_params : list param :=
  Eval cbv in match c_inside_chk_def with Fun ps _ => ps | Untranslated _ => [] end.
Definition outer_loop : iexp * stmt * stmt :=
  Eval cbv in nth 0 (for_loops ins_body) (IConst 0, SSkip, SSkip).
Definition outer_cond : iexp := Eval cbv in fst (fst outer_loop).
Definition outer_step : stmt := Eval cbv in snd (fst outer_loop).
Definition outer_body : stmt := Eval cbv in snd outer_loop.

Lemma find_inside : find_fun program_chk "c_inside" = Ok (ins_params, ins_body).
Proof. reflexivity. Qed.

Section Refine.
Context {T : Type} (N : NumOps T) (X : NumLit T).

Section Fixed.
Variables (nprint : Z) (pts poly : list (T * T)) (atol xl0 xl1 yl0 yl1 : T).

Notation pst := (pst nprint pts poly atol xl0 xl1 yl0 yl1).
Notation tog := (tog N atol).
Notation in_inv := (in_inv N nprint pts poly atol xl0 xl1 yl0 yl1).
Notation in_post := (in_post N nprint pts poly atol xl0 xl1 yl0 yl1).
Notation out_inv := (out_inv N nprint pts poly atol xl0 xl1 yl0 yl1).
Notation out_post := (out_post N nprint pts poly atol xl0 xl1 yl0 yl1).

(* size hypothesis of the loop over the vertices:
     2*(ivert % nvertices) + 1   (k+1, ivert % nvertices <= nvertices-1)   fits an int;
   it implies  nvertices + 1 <= INT_MAX  (loop condition, ivert++) as soon as nvertices >= 1 *)
Lemma inner_run cf f f' v0 ptl x y insL insR ipt k0 p2x0 p2y0 xi0 di0 :
  poly = v0 :: ptl -> (List.length poly < f)%nat -> ipt = Z.of_nat (List.length insL) ->
  2 * zlen poly - 1 <= 2147483647 ->
  exists r,
    loop f (cond_of N X inner_cond)
      (for_body (exec N X cf f' inner_body) (exec N X cf f' inner_step))
      (pst ipt 1 k0 x y (fst v0) (snd v0) p2x0 p2y0 xi0 di0
           (insL ++ 0 :: insR)) = Ok r /\ in_post v0 x y insL insR r.
Proof.
  intros Hpoly Hf -> Hsz. rewrite zlen_eq in Hsz.
  assert (Hedges : edges poly = path (poly ++ [v0])) by (rewrite Hpoly; reflexivity).
  assert (Hpos : (0 < List.length poly)%nat) by (rewrite Hpoly; cbn; lia).
  apply (loop_rule (in_inv v0 x y insL insR) (in_post v0 x y insL insR) (List.length poly))
    with (k := O); [| |lia].
  - intros j st (pre & p1 & todo & k & p2x & p2y & xi & di & E & Hj & ->).
    subst j.
    assert (HL : (List.length poly + 1 = List.length pre + 1 + List.length todo)%nat).
    { apply (f_equal (@List.length (T * T))) in E. rewrite !app_length in E. cbn in E. lia. }
    split; [lia|].
    unfold RefinePolygon.pst, inner_cond. cbn. rewrite zlen_eq. chk. cbn.
    destruct todo as [|p2 todo].
    + replace (Z.of_nat (List.length pre) + 1 <? Z.of_nat (List.length poly) + 1) with false
        by (symmetry; apply Z.ltb_ge; cbn in HL; lia).
      cbn. apply app_inj_tail in E. destruct E as [<- <-].
      exists k, p2x, p2y, xi, di. unfold RefinePolygon.pst. rewrite !zlen_eq.
      unfold crossing_parity. rewrite Hedges. cbn [fst snd]. reflexivity.
    + replace (Z.of_nat (List.length pre) + 1 <? Z.of_nat (List.length poly) + 1) with true
        by (symmetry; apply Z.ltb_lt; cbn in HL; lia).
      destruct (nth_wrap poly pre todo v0 p1 p2 v0) as (i & Hi & Hrem & Hnth);
        [rewrite Hpoly; reflexivity|rewrite Hpoly; discriminate|exact E|].
      assert (HLt : (List.length pre + 1 <= List.length poly)%nat) by (cbn in HL; lia).
      unfold inner_body. cbn. zb. cbn. rewrite Hrem. chk. cbn.
      rewrite (zget_flat_fst poly i v0 Hi). cbn. chk. cbn.
      rewrite (zget_flat_snd poly i v0 Hi). cbn. rewrite Hnth.
      rewrite ?truth_b2z.
      destruct (nltb N (sem_fmin N (snd p1) (snd p2)) y) eqn:C1;
        [destruct (nleb N y (sem_fmax N (snd p1) (snd p2))) eqn:C2;
          [destruct (nleb N x (sem_fmax N (fst p1) (fst p2))) eqn:C3;
            [destruct (nltb N atol (nabs N (nsub N (snd p1) (snd p2)))) eqn:C4;
             cbn; rewrite ?truth_b2z, ?b2z_truth_b2z, ?or_ok, ?truth_b2z;
             match goal with |- context[b2z (?a || ?b)] =>
               destruct (a || b) eqn:C56 end;
             cbn; rewrite ?(zget_app insL insR) by reflexivity; cbn;
             rewrite ?in_width_b2z_sub; cbn;
             rewrite ?(zset_app insL insR) by reflexivity; cbn | ] | ] | ].
      all: cbn; chk; cbn.
      all: exists (pre ++ [p1]), p2, todo; do 5 eexists;
        (split; [rewrite <- app_assoc; exact E|]);
        (split; [rewrite app_length; cbn; lia|]);
        rewrite path_snoc, fold_left_app; cbn [fold_left];
        match goal with |- context[RefinePolygon.tog ?NN ?at' ?u ?v ?a ?e] =>
          change (RefinePolygon.tog NN at' u v a e)
            with (if edge_toggle N atol u v e then negb a else a) end;
        unfold edge_toggle, xinters;
        change (nfmin N) with (sem_fmin N); change (nfmax N) with (sem_fmax N);
        cbn [fst snd]; rewrite ?C1, ?C2, ?C3, ?C4, ?C56; rewrite ?b2z_negb;
        norm_state; unfold RefinePolygon.pst; rewrite !zlen_eq;
        replace (Z.of_nat (List.length pre) + 1 + 1)
          with (Z.of_nat (S (List.length pre)) + 1) by lia;
        reflexivity.
  - exists [], v0, (ptl ++ [v0]). do 5 eexists.
    split; [rewrite Hpoly; reflexivity|]. split; [reflexivity|].
    cbn. reflexivity.
Qed.

(* ---- the loop over the points ---- *)

Notation xlim := (xl0, xl1).
Notation ylim := (yl0, yl1).
Notation cin := (c_inside N atol xlim ylim poly).

(* the loop over the points, from the state left by the declarations *)
Lemma outer_run cf ins n z :
  List.length ins = List.length pts ->
  (poly = [] -> forall p, In p pts -> outside_box N xlim ylim p = true) ->
  (List.length pts < n)%nat -> (List.length poly < n)%nat ->
  2 * zlen pts - 1 <= 2147483647 ->
  2 * zlen poly - 1 <= 2147483647 ->
  exists r,
    loop n (cond_of N X outer_cond)
      (for_body (exec N X cf n outer_body) (exec N X cf n outer_step))
      (pst 0 0 0 z z z z z z z z ins) = Ok r /\ out_post ins r.
Proof.
  intros Hins Hempty Hn1 Hn2 Hsz1 Hsz2.
  pose proof Hsz1 as Hsz1'. rewrite zlen_eq in Hsz1'.
  apply (loop_rule (out_inv ins) (out_post ins) (List.length pts)) with (k := O); [| |lia].
  - intros kk st (doneP & todoP & doneI & todoI & ivert & k & x & y & p1x & p1y & p2x & p2y
                  & xi & di & HP & HI & HkP & HkI & ->).
    assert (HLP : List.length pts = (kk + List.length todoP)%nat)
      by (rewrite HP, app_length; lia).
    assert (HLI : List.length ins = (kk + List.length todoI)%nat)
      by (rewrite HI, app_length; lia).
    split; [lia|].
    unfold RefinePolygon.pst, outer_cond, outer_body, outer_step. cbn. rewrite zlen_eq.
    destruct todoP as [|p todoP].
    + replace (Z.of_nat kk <? Z.of_nat (List.length pts)) with false
        by (symmetry; apply Z.ltb_ge; cbn in HLP; lia).
      cbn. destruct todoI as [|? ?]; [|cbn in HLP, HLI; lia].
      rewrite app_nil_r in HP, HI. subst doneP doneI.
      do 10 eexists. unfold RefinePolygon.pst. rewrite !zlen_eq, app_nil_r.
      replace (List.length pts) with kk by (cbn in HLP; lia). reflexivity.
    + replace (Z.of_nat kk <? Z.of_nat (List.length pts)) with true
        by (symmetry; apply Z.ltb_lt; cbn in HLP; lia).
      destruct todoI as [|o todoI]; [cbn in HLP, HLI; lia|].
      assert (Hk : (kk < List.length pts)%nat) by (cbn in HLP; lia).
      assert (Hnth : nth kk pts p = p) by (rewrite HP, <- HkP; apply nth_middle).
      chks. rewrite (zget_flat_fst pts kk p Hk). chks.
      rewrite (zget_flat_snd pts kk p Hk). cbn. rewrite Hnth.
      assert (Hob : outside_box N xlim ylim p =
                    (nltb N (fst p) xl0 || nltb N xl1 (fst p) || nltb N (snd p) yl0
                     || nltb N yl1 (snd p))) by reflexivity.
      do 3 (cbn; rewrite ?truth_b2z, ?b2z_truth_b2z, ?or_ok).
      rewrite <- Hob.
      assert (Hcd : List.length (cin doneP doneI) = kk)
        by (rewrite c_inside_length; lia).
      destruct (outside_box N xlim ylim p) eqn:Hout.
      * (* outside the box: continue, inside[ipt] untouched *)
        cbn. chk. cbn.
        exists (doneP ++ [p]), todoP, (doneI ++ [o]), todoI. do 10 eexists.
        split; [rewrite <- app_assoc; exact HP|].
        split; [rewrite <- app_assoc; exact HI|].
        split; [rewrite app_length; cbn; lia|].
        split; [rewrite app_length; cbn; lia|].
        rewrite c_inside_app by lia. cbn [c_inside]. unfold c_inside_point. rewrite Hout.
        rewrite <- app_assoc. cbn [app].
        norm_state. unfold RefinePolygon.pst. rewrite !zlen_eq.
        replace (Z.of_nat kk + 1) with (Z.of_nat (S kk)) by lia. reflexivity.
      * (* inside the box: the polygon has a vertex *)
        destruct (list_cases poly) as [Hnil|(v0 & ptl & Hpoly)].
        { rewrite (Hempty Hnil p) in Hout; [discriminate|].
          rewrite HP. apply in_or_app. right. left. reflexivity. }
        destruct (zget_flat_01 poly v0 ptl Hpoly) as [Hg0 Hg1].
        cbn.
        destruct (0 <? nprint) eqn:Hnp;
          [apply Z.ltb_lt in Hnp; cbn; zb; cbn; rewrite ?truth_b2z, ?and_ok, ?if_same; cbn;
           rewrite ?if_same|].
        all: cbn; rewrite Hg0; cbn; rewrite Hg1; cbn;
          rewrite (zset_app (cin doneP doneI) todoI) by lia; cbn; norm_state.
        all: destruct (inner_run cf n n v0 ptl (fst p) (snd p)
                        (cin doneP doneI) todoI (Z.of_nat kk) k p2x p2y xi di Hpoly Hn2)
               as (r & Hr & (k' & p2x' & p2y' & xi' & di' & ->)); [lia|exact Hsz2|];
          unfold RefinePolygon.pst, inner_cond, inner_body, inner_step in Hr;
          rewrite (zlen_eq pts) in Hr; rewrite Hr.
        all: clear Hr; cbn; chk; cbn;
          exists (doneP ++ [p]), todoP, (doneI ++ [o]), todoI; do 10 eexists;
          (split; [rewrite <- app_assoc; exact HP|]);
          (split; [rewrite <- app_assoc; exact HI|]);
          (split; [rewrite app_length; cbn; lia|]);
          (split; [rewrite app_length; cbn; lia|]);
          rewrite c_inside_app by lia; cbn [c_inside]; unfold c_inside_point; rewrite Hout;
          rewrite <- app_assoc; cbn [app];
          norm_state; unfold RefinePolygon.pst; rewrite !zlen_eq, ?Hcd;
          replace (Z.of_nat kk + 1) with (Z.of_nat (S kk)) by lia;
          rewrite <- (surjective_pairing p); reflexivity.
  - exists [], pts, [], ins. do 10 eexists.
    split; [reflexivity|]. split; [reflexivity|]. split; [reflexivity|]. split; [reflexivity|].
    unfold RefinePolygon.pst. cbn. reflexivity.
Qed.

(* c_inside, overflow-checked: the statement of [refine_c_inside] about [program_chk]
   under the size hypotheses
     2*npoints   - 1 <= INT_MAX    points[2*ipt+1], ipt <= npoints-1   (=> ipt++ fits)
     2*nvertices - 1 <= INT_MAX    polygon[k+1], k = 2*(ivert % nvertices)
                                   (=> nvertices+1 and ivert++ fit when nvertices >= 1)
   i.e. npoints, nvertices <= 2^30.  inside[ipt] = 1-inside[ipt] cannot overflow (the entry
   was set to 0 by the kernel and stays in {0,1}); the initial content of [inside] is
   arbitrary. *)
Theorem chk_refine_c_inside ins n :
  List.length ins = List.length pts ->
  (poly = [] -> forall p, In p pts -> outside_box N xlim ylim p = true) ->
  (List.length pts < n)%nat -> (List.length poly < n)%nat ->
  2 * zlen pts - 1 <= 2147483647 ->
  2 * zlen poly - 1 <= 2147483647 ->
  exec_fun N X program_chk (S n) "c_inside"
    [AVI nprint; AVI (zlen pts); AVArrF (flat pts); AVI (zlen poly); AVArrF (flat poly);
     AVF atol; AVArrF [xl0; xl1]; AVArrF [yl0; yl1]; AVArrI ins]
  = Ok (RI 0, [VArrF (flat pts); VArrF (flat poly); VArrF [xl0; xl1]; VArrF [yl0; yl1];
               VArrI (cin pts ins)]).
Proof.
  intros Hins Hempty Hn1 Hn2 Hsz1 Hsz2.
  destruct (outer_run (exec_fun N X program_chk n) ins n (nofZ N 0)
              Hins Hempty Hn1 Hn2 Hsz1 Hsz2)
    as (r & Hr & ivert & k & x & y & p1x & p1y & p2x & p2y & xi & di & ->).
  unfold RefinePolygon.pst in Hr.
  rewrite exec_fun_unfold, find_inside.
  cbn [bind fst snd bind_params ins_params]. norm_state.
  match goal with |- context[exec N X ?c n ins_body ?st] =>
    eassert (Hb : exec N X c n ins_body st = Ok (ORet (RI 0), _)) end.
  { unfold ins_body. do 13 step.
    seq_open. { exact Hr. }
    seq_close. step. cbn. reflexivity. }
  rewrite Hb. unfold RefinePolygon.pst. cbn. reflexivity.
Qed.
End Fixed.

(* what the Cython wrapper guarantees: polygon.shape[0] >= 1 *)
Corollary chk_refine_c_inside_wrapper nprint pts poly atol xl0 xl1 yl0 yl1 ins n :
  List.length ins = List.length pts -> poly <> [] ->
  (List.length pts < n)%nat -> (List.length poly < n)%nat ->
  2 * zlen pts - 1 <= 2147483647 ->
  2 * zlen poly - 1 <= 2147483647 ->
  exec_fun N X program_chk (S n) "c_inside"
    [AVI nprint; AVI (zlen pts); AVArrF (flat pts); AVI (zlen poly); AVArrF (flat poly);
     AVF atol; AVArrF [xl0; xl1]; AVArrF [yl0; yl1]; AVArrI ins]
  = Ok (RI 0, [VArrF (flat pts); VArrF (flat poly); VArrF [xl0; xl1]; VArrF [yl0; yl1];
               VArrI (c_inside N atol (xl0, xl1) (yl0, yl1) poly pts ins)]).
Proof.
  intros Hins Hne Hn1 Hn2 Hs1 Hs2. apply chk_refine_c_inside; try assumption.
  intros Hnil. contradiction.
Qed.

(* the same with the buffers as flat lists of doubles (what the kernel receives):
   npoints, nvertices <= 2^30 = 1073741824 *)
Corollary chk_refine_c_inside_raw nprint (npoints nvertices : nat) (points polygon : list T)
          atol xl0 xl1 yl0 yl1 ins n :
  List.length points = (2 * npoints)%nat -> List.length polygon = (2 * nvertices)%nat ->
  List.length ins = npoints -> (0 < nvertices)%nat ->
  (npoints < n)%nat -> (nvertices < n)%nat ->
  Z.of_nat npoints <= 1073741824 -> Z.of_nat nvertices <= 1073741824 ->
  exec_fun N X program_chk (S n) "c_inside"
    [AVI nprint; AVI (Z.of_nat npoints); AVArrF points; AVI (Z.of_nat nvertices);
     AVArrF polygon; AVF atol; AVArrF [xl0; xl1]; AVArrF [yl0; yl1]; AVArrI ins]
  = Ok (RI 0, [VArrF points; VArrF polygon; VArrF [xl0; xl1]; VArrF [yl0; yl1];
               VArrI (c_inside N atol (xl0, xl1) (yl0, yl1) (unflat polygon) (unflat points) ins)]).
Proof.
  intros Hp Hq Hi Hv Hn1 Hn2 Hs1 Hs2.
  destruct (flat_unflat npoints points Hp) as [E1 L1].
  destruct (flat_unflat nvertices polygon Hq) as [E2 L2].
  pose proof (chk_refine_c_inside_wrapper nprint (unflat points) (unflat polygon)
                atol xl0 xl1 yl0 yl1 ins n) as H.
  rewrite E1, E2, !zlen_eq, L1, L2 in H. apply H; try lia.
  intros Hnil. rewrite Hnil in L2. cbn in L2. lia.
Qed.

(* The size hypothesis on the polygon is needed (kernel contract; the Cython wrapper converts
   polygon.shape[0] to a C int and checks nothing else): with nvertices = INT_MAX - a
   polygon buffer of 32 GiB - the loop condition ivert < nvertices+1 overflows at the first
   point that falls inside the box, whatever the buffers contain. *)
Theorem overflow_c_inside_nvertices nprint p pts x0 y0 rest atol xl0 xl1 yl0 yl1 o ins n :
  outside_box N (xl0, xl1) (yl0, yl1) p = false ->
  exec_fun N X program_chk (S (S n)) "c_inside"
    [AVI nprint; AVI (zlen (p :: pts)); AVArrF (flat (p :: pts)); AVI 2147483647;
     AVArrF (x0 :: y0 :: rest);
     AVF atol; AVArrF [xl0; xl1]; AVArrF [yl0; yl1]; AVArrI (o :: ins)]
  = Err (Overflow true 2147483648).
Proof.
  intros Hout.
  assert (Hob : outside_box N (xl0, xl1) (yl0, yl1) p =
                (nltb N (fst p) xl0 || nltb N xl1 (fst p) || nltb N (snd p) yl0
                 || nltb N yl1 (snd p))) by reflexivity.
  rewrite exec_fun_unfold, find_inside.
  cbn [bind fst snd bind_params ins_params]. norm_state.
  match goal with |- context[exec N X ?c (S n) ins_body ?st] =>
    assert (Hb : exec N X c (S n) ins_body st = Err (Overflow true 2147483648)) end.
  { unfold ins_body. do 13 step. apply exec_seq_err.
    cbn. rewrite zlen_eq. zb. chks.
    do 4 (cbn; rewrite ?truth_b2z, ?b2z_truth_b2z, ?or_ok).
    rewrite <- Hob, Hout. cbn.
    destruct (0 <? nprint) eqn:Hnp;
      [apply Z.ltb_lt in Hnp; cbn; zb; cbn; rewrite ?truth_b2z, ?and_ok, ?if_same; cbn;
       rewrite ?if_same|]; cbn; reflexivity. }
  rewrite Hb. reflexivity.
Qed.

End Refine.
End ChkInside.

(* ================================================================== *)
(* c_dscore.compare, c_ensrank                                          *)
(* ================================================================== *)

Module ChkEnsrank.
Import RefineEnsrank.

#[local] Arguments qsort_list : simpl never.
#[local] Arguments Nat.min : simpl never.
#[local] Arguments skipn : simpl never.
#[local] Arguments firstn : simpl never.
#[local] Arguments repeat : simpl never.

Section Refine.
Context {T : Type} (N : NumOps T) (X : NumLit T) (K : DsConsts T).

(* stage 1: the comparator.  Its only integer arithmetic is the constant -1 (twice) *)
Lemma chk_compare_run n a ra b rb :
  cmp_lit_ok X K ->
  exec_fun N X program_chk (S n) "c_dscore.compare" [AVArrF (a :: ra); AVArrF (b :: rb)]
  = Ok (RI (cmp_code N K a b), [VArrF (a :: ra); VArrF (b :: rb)]).
Proof.
  intros HK. unfold cmp_code. unfold cmp_lit_ok in HK. rewrite HK. chks.
  rewrite !truth_b2z.
  destruct (nltb N (nsub N a b) _); [chks; reflexivity|]. cbn.
  destruct (nltb N _ (nsub N a b)); reflexivity.
Qed.

Theorem chk_refine_c_dscore_compare n (a b : T * Z) ra rb :
  cmp_lit_ok X K -> cmp_sign_ok N K ->
  exists c,
    exec_fun N X program_chk (S n) "c_dscore.compare" [AVArrF (fst a :: ra); AVArrF (fst b :: rb)]
    = Ok (RI c, [VArrF (fst a :: ra); VArrF (fst b :: rb)]) /\
    (c <=? 0) = ens_le N K a b /\ (c = -1 \/ c = 0 \/ c = 1).
Proof.
  intros HK HS. exists (cmp_code N K (fst a) (fst b)).
  split; [apply chk_compare_run; exact HK|]. split; [apply cmp_code_le; exact HS|].
  unfold cmp_code. destruct (nltb N _ _); [left; reflexivity|].
  destruct (nltb N _ _); [right; right|right; left]; reflexivity.
Qed.

(* stage 2: qsort(ensemb, 2*ncol, sizeof ensemb[0], compare) *)
Lemma chk_qsort_flat m nz l :
  cmp_lit_ok X K -> cmp_sign_ok N K -> nz = Z.of_nat (List.length l) ->
  qsort_list (exec_fun N X program_chk (S m)) "c_dscore.compare" AVArrF "ensemb" nz 2 (flat N l)
  = Ok (flat N (glibc_sort (ens_le N K) l)).
Proof.
  intros HK HS ->. unfold qsort_list.
  rewrite zlen_eq, flat_length.
  replace ((Z.of_nat (List.length l) <? 0) || (2 <? 1) ||
           (Z.of_nat (2 * List.length l) <? Z.of_nat (List.length l) * 2)) with false
    by (symmetry; apply orb_false_iff; split; [apply orb_false_iff; split|];
        [apply Z.ltb_ge; lia|reflexivity|apply Z.ltb_ge; lia]).
  rewrite Nat2Z.id. change (Z.to_nat 2) with 2%nat.
  replace (chunks 2 (List.length l) (flat N l)) with (map (item N) l).
  2:{ symmetry. rewrite <- (app_nil_r (flat N l)). unfold flat.
      rewrite <- (map_length (item N) l) at 1. apply chunks_concat. apply item_len. }
  rewrite (msortM_map (ens_le N K) (item N)).
  - cbn [bind]. unfold glibc_sort.
    rewrite skipn_all2 by (rewrite flat_length; lia). rewrite app_nil_r. reflexivity.
  - intros a b. exists (cmp_code N K (fst a) (fst b)). split; [|apply cmp_code_le; exact HS].
    unfold cmp_call, item. rewrite chk_compare_run by exact HK. reflexivity.
  - lia.
Qed.

End Refine.

(* ---- the statements of c_ensrank, taken from the regenerated (checked) AST ---- *)

Definition ens_body : stmt := Eval cbv in fun_body c_ensrank_chk_def.
Definition init_for : stmt := Eval cbv in seq_nth 26 ens_body.
Definition outer_for : stmt := Eval cbv in seq_nth 29 ens_body.
Definition inner_for : stmt := Eval cbv in seq_nth 1 (for_stmt outer_for).
Definition fill_for : stmt := Eval cbv in seq_nth 1 (for_stmt inner_for).
Definition scan_for : stmt := Eval cbv in seq_nth 11 (for_stmt inner_for).

Ltac fr_simpl := cbn [r_v r_vp r_vn r_ix r_u r_F r_sr r_rk r_d r_dn r_tol r_nt r_st r_en].

Section Refine.
Context {T : Type} (N : NumOps T) (X : NumLit T) (K : DsConsts T).

Notation run_for callf n s st :=
  (loop n (cond_of N X (for_cond s))
     (for_body (exec N X callf n (for_stmt s)) (exec N X callf n (for_step s))) st).

(* ---- loop 0: initialisation of ensemb and ranks ----
   j++ (j <= ninit) and 2*ncol *)
Lemma init_loop (callf : callee T) n (nval ncol : nat) ninit eps ncold r sim fmat ranks ens :
  List.length ranks = nval -> List.length ens = (4 * ncol)%nat ->
  Z.of_nat nval <= ninit -> 2 * Z.of_nat ncol <= ninit -> (Z.to_nat ninit < n)%nat ->
  ninit <= 2147483647 ->
  exists ens', List.length ens' = (4 * ncol)%nat /\
  run_for callf n init_for
    (esr (Z.of_nat nval) (Z.of_nat ncol) 0 0 0 ninit eps ncold r sim fmat ranks ens)
  = Ok (ONormal, esr (Z.of_nat nval) (Z.of_nat ncol) 0 0 ninit ninit eps ncold r sim fmat
                   (repeat (one_lit X) nval) ens').
Proof.
  intros Hr He Hn1 Hn2 Hn Hmax.
  destruct (loop_rule (init_inv X nval ncol ninit eps ncold r sim fmat ranks)
              (fun res => exists ens', List.length ens' = (4 * ncol)%nat /\
                 res = (ONormal, esr (Z.of_nat nval) (Z.of_nat ncol) 0 0 ninit ninit eps ncold r
                                   sim fmat (repeat (one_lit X) nval) ens'))
              (Z.to_nat ninit)
              (cond_of N X (for_cond init_for))
              (for_body (exec N X callf n (for_stmt init_for)) (exec N X callf n (for_step init_for))))
    with (fuel := n) (k := O)
         (st := esr (Z.of_nat nval) (Z.of_nat ncol) 0 0 0 ninit eps ncold r sim fmat ranks ens)
    as (res & Hres & ens' & Hl' & ->).
  - intros k st (ens_k & Hek & Hkn & ->).
    destruct r as [v vp vn ix u F sr rk d dn tol nt st0 en].
    unfold esr, es. cbn.
    destruct (Z.ltb_spec (Z.of_nat k) ninit) as [Hlt|Hge]; cbn.
    + split; [lia|]. chks.
      destruct (Z.ltb_spec (Z.of_nat k) (2 * Z.of_nat ncol)) as [H2|H2]; cbn.
      * destruct (zset_some ens_k (Z.of_nat k * 2 + 0) (nlit X 0 0 1)) as (e1 & -> & Hl1); [lia|].
        cbn.
        destruct (zset_some e1 (Z.of_nat k * 2 + 1) (nlit X 0 0 1)) as (e2 & -> & Hl2); [lia|].
        cbn.
        destruct (Z.ltb_spec (Z.of_nat k) (Z.of_nat nval)) as [H3|H3]; cbn.
        -- replace (Nat.min k nval) with k by lia.
           destruct (skipn_cons_nth' ranks k) as (x & Hx); [lia|]. rewrite Hx.
           rewrite zset_app by (rewrite repeat_length; reflexivity). chks.
           exists e2. split; [lia|]. split; [lia|]. norm_state. unfold esr, es. fr_simpl.
           replace (Nat.min (S k) nval) with (S k) by lia.
           replace (Z.of_nat k + 1) with (Z.of_nat (S k)) by lia.
           rewrite repeat_app_cons'. change (S k) with (1 + k)%nat. rewrite repeat_app. reflexivity.
        -- chks. exists e2. split; [lia|]. split; [lia|]. norm_state. unfold esr, es. fr_simpl.
           replace (Nat.min (S k) nval) with (Nat.min k nval) by lia.
           replace (Z.of_nat k + 1) with (Z.of_nat (S k)) by lia. reflexivity.
      * destruct (Z.ltb_spec (Z.of_nat k) (Z.of_nat nval)) as [H3|H3]; cbn.
        -- replace (Nat.min k nval) with k by lia.
           destruct (skipn_cons_nth' ranks k) as (x & Hx); [lia|]. rewrite Hx.
           rewrite zset_app by (rewrite repeat_length; reflexivity). chks.
           exists ens_k. split; [lia|]. split; [lia|]. norm_state. unfold esr, es. fr_simpl.
           replace (Nat.min (S k) nval) with (S k) by lia.
           replace (Z.of_nat k + 1) with (Z.of_nat (S k)) by lia.
           rewrite repeat_app_cons'. change (S k) with (1 + k)%nat. rewrite repeat_app. reflexivity.
        -- chks. exists ens_k. split; [lia|]. split; [lia|]. norm_state. unfold esr, es. fr_simpl.
           replace (Nat.min (S k) nval) with (Nat.min k nval) by lia.
           replace (Z.of_nat k + 1) with (Z.of_nat (S k)) by lia. reflexivity.
    + split; [lia|]. exists ens_k. split; [exact Hek|].
      replace (Nat.min k nval) with nval by lia.
      rewrite skipn_all2 by lia. rewrite app_nil_r.
      replace (Z.of_nat k) with ninit by lia. reflexivity.
  - exists ens. split; [exact He|]. split; [lia|]. reflexivity.
  - lia.
  - exists ens'. split; [exact Hl'|]. exact Hres.
Qed.

(* ---- loop 1: the pooled array of the ensembles i1 and i2 ----
   2*ncol, j++, sim[ncol*i1+j] (j < ncol), sim[ncol*(i2-1)+j] (ncol <= j < 2*ncol):
   the largest index formed is ncol*(i2+1)-1 *)
Lemma fill_loop (callf : callee T) n nval (ncol i1 i2 : nat) ninit eps ncold
      v vp vn ix u F sr rk d dn tol nt st0 en (rows : list (list T)) fmat ranks ens :
  Forall (fun r => List.length r = ncol) rows ->
  (i1 < List.length rows)%nat -> (i2 < List.length rows)%nat ->
  List.length ens = (4 * ncol)%nat -> (2 * ncol < n)%nat ->
  (i1 <= i2)%nat ->
  2 * Z.of_nat ncol <= 2147483647 ->
  Z.of_nat ncol * (Z.of_nat i2 + 1) - 1 <= 2147483647 ->
  run_for callf n fill_for
    (es nval (Z.of_nat ncol) (Z.of_nat i1) (Z.of_nat i2) 0 ninit eps ncold
        v vp vn ix u F sr rk d dn tol nt st0 en (List.concat rows) fmat ranks ens)
  = Ok (ONormal,
        es nval (Z.of_nat ncol) (Z.of_nat i1) (Z.of_nat i2) (2 * Z.of_nat ncol) ninit eps ncold
           v vp vn ix u F sr rk d dn tol nt st0 en (List.concat rows) fmat ranks
           (flat N (pool (nth i1 rows []) (nth i2 rows [])))).
Proof.
  intros HF Hi1 Hi2 He Hn Hi12 Hc2 Hci.
  assert (Hl1 : List.length (nth i1 rows []) = ncol) by (apply Forall_nth_len; assumption).
  assert (Hl2 : List.length (nth i2 rows []) = ncol) by (apply Forall_nth_len; assumption).
  assert (Hm0 : 0 <= Z.of_nat ncol * Z.of_nat i1) by (apply Z.mul_nonneg_nonneg; lia).
  assert (Hm1 : Z.of_nat ncol * Z.of_nat i1 <= Z.of_nat ncol * Z.of_nat i2)
    by (apply Z.mul_le_mono_nonneg_l; lia).
  apply (loop_rule_eq (fill_inv N nval ncol i1 i2 ninit eps ncold v vp vn ix u F sr rk d dn tol nt
                         st0 en rows fmat ranks) _ (2 * ncol)).
  - intros k st (done & todo & P & tail & Hv & Hd & HP & HPl & Ht & ->).
    assert (Hlen : (2 * ncol = k + List.length todo)%nat).
    { apply (f_equal (@List.length T)) in Hv. rewrite !app_length in Hv. lia. }
    split; [lia|].
    unfold es. chks.
    destruct todo as [|x todo].
    + replace (Z.of_nat k <? 2 * Z.of_nat ncol) with false
        by (symmetry; apply Z.ltb_ge; cbn in Hlen; lia).
      destruct tail; [|cbn in Ht; lia]. cbn [map zenum] in HP. rewrite app_nil_r in HP.
      rewrite app_nil_r. subst P. unfold es.
      replace (Z.of_nat k) with (2 * Z.of_nat ncol) by (cbn in Hlen; lia). reflexivity.
    + replace (Z.of_nat k <? 2 * Z.of_nat ncol) with true
        by (symmetry; apply Z.ltb_lt; cbn in Hlen; lia).
      destruct tail as [|t0 [|t1 tail]]; try (cbn in Ht; lia).
      assert (Hx : nth_error (nth i1 rows [] ++ nth i2 rows []) k = Some x).
      { rewrite Hv, <- Hd. apply nth_error_mid. }
      assert (HPf : Z.of_nat k * 2 + 0 = Z.of_nat (List.length (flat N P)))
        by (rewrite flat_length; lia).
      assert (Hk2 : Z.of_nat k < 2 * Z.of_nat ncol) by (cbn in Hlen; lia).
      cbn.
      destruct (Z.ltb_spec (Z.of_nat k) (Z.of_nat ncol)) as [Hk|Hk]; cbn.
      * assert (Hg : zget (List.concat rows) (Z.of_nat ncol * Z.of_nat i1 + Z.of_nat k) = Some x).
        { rewrite zget_nth_error by lia.
          replace (Z.to_nat (Z.of_nat ncol * Z.of_nat i1 + Z.of_nat k)) with (i1 * ncol + k)%nat by lia.
          rewrite (nth_error_concat_row ncol) by (try assumption; lia).
          rewrite <- Hx. symmetry. apply nth_error_app1. lia. }
        chks. rewrite Hg. cbn.
        rewrite (zset_app _ (t1 :: tail)) by exact HPf. cbn.
        rewrite (zset_app_off (flat N P) _ _ 1) by lia. chks.
        exists (done ++ [x]), todo, (P ++ [(x, Z.of_nat k)]), tail.
        split; [rewrite <- app_assoc; exact Hv|].
        split; [rewrite app_length; cbn; lia|].
        split; [rewrite <- app_assoc, <- HP; cbn [map zenum app sw fst snd];
                replace (Z.of_nat k + 1) with (Z.of_nat (S k)) by lia; reflexivity|].
        split; [rewrite app_length; cbn; lia|].
        split; [cbn in Ht; lia|].
        norm_state. unfold es. rewrite flat_app. cbn [flat map item List.concat fst snd app].
        rewrite <- app_assoc. cbn [app].
        replace (Z.of_nat k + 1) with (Z.of_nat (S k)) by lia. reflexivity.
      * assert (Hg : zget (List.concat rows)
                       (Z.of_nat ncol * (Z.of_nat i2 - 1) + Z.of_nat k) = Some x).
        { rewrite zget_nth_error by nia.
          replace (Z.to_nat (Z.of_nat ncol * (Z.of_nat i2 - 1) + Z.of_nat k))
            with (i2 * ncol + (k - ncol))%nat by nia.
          rewrite (nth_error_concat_row ncol) by (try assumption; cbn in Hlen; lia).
          rewrite <- Hx. symmetry. rewrite nth_error_app2 by lia. rewrite Hl1. reflexivity. }
        chks. rewrite Hg. cbn.
        rewrite (zset_app _ (t1 :: tail)) by exact HPf. cbn.
        rewrite (zset_app_off (flat N P) _ _ 1) by lia. chks.
        exists (done ++ [x]), todo, (P ++ [(x, Z.of_nat k)]), tail.
        split; [rewrite <- app_assoc; exact Hv|].
        split; [rewrite app_length; cbn; lia|].
        split; [rewrite <- app_assoc, <- HP; cbn [map zenum app sw fst snd];
                replace (Z.of_nat k + 1) with (Z.of_nat (S k)) by lia; reflexivity|].
        split; [rewrite app_length; cbn; lia|].
        split; [cbn in Ht; lia|].
        norm_state. unfold es. rewrite flat_app. cbn [flat map item List.concat fst snd app].
        rewrite <- app_assoc. cbn [app].
        replace (Z.of_nat k + 1) with (Z.of_nat (S k)) by lia. reflexivity.
  - exists [], (nth i1 rows [] ++ nth i2 rows []), [], ens.
    split; [reflexivity|]. split; [reflexivity|]. split; [reflexivity|]. split; [reflexivity|].
    split; [rewrite app_length; lia|]. reflexivity.
  - lia.
Qed.

(* ---- the body of the scan: 2*ncol, 2*ncol-1, j+1 ---- *)
Lemma scan_body (callf : callee T) n nval (ncol : nat) i1 i2 ninit eps ncold u F tol sim fmat ranks
      L done v i todo' (s : @scan T) v0 vn0 ix0 rk0 d0 dn0 :
  lits_ok N X K -> idx_ok N ncol ->
  L = done ++ (v, i) :: todo' -> List.length L = (2 * ncol)%nat -> 0 <= i < 2 * Z.of_nat ncol ->
  2 * Z.of_nat ncol <= 2147483647 ->
  let k := Z.of_nat (List.length done) in
  let diff := if (k =? 0) then eps else nabs N (nsub N v (sc_prev s)) in
  let diffnext := match todo' with (v', _) :: _ => nabs N (nsub N v v') | [] => eps end in
  let s' := scan_core N eps (Z.of_nat ncol) k i diff diffnext v s in
  exists v1 vn1 ix1 rk1 d1 dn1,
  exec N X callf n (for_stmt scan_for)
    (es nval (Z.of_nat ncol) i1 i2 k ninit eps ncold v0 (sc_prev s) vn0 ix0 u F (sc_sum s) rk0
        d0 dn0 tol (sc_nties s) (sc_start s) (sc_end s) sim fmat ranks (flat N L))
  = Ok (ONormal,
        es nval (Z.of_nat ncol) i1 i2 k ninit eps ncold v1 (sc_prev s') vn1 ix1 u F (sc_sum s') rk1
           d1 dn1 tol (sc_nties s') (sc_start s') (sc_end s') sim fmat ranks (flat N L)).
Proof.
  intros HL HI HLd Hlen Hi Hc2 k diff diffnext s'.
  assert (HE : flat N L = flat N done ++ v :: nofZ N i :: flat N todo').
  { rewrite HLd, flat_app. reflexivity. }
  assert (Hk : (List.length done + S (List.length todo') = 2 * ncol)%nat).
  { rewrite <- Hlen, HLd, app_length. reflexivity. }
  assert (Hkd : k = Z.of_nat (List.length done)) by reflexivity.
  assert (Hg0 : zget (flat N L) (k * 2 + 0) = Some v).
  { rewrite HE. apply zget_app. rewrite flat_length. subst k. lia. }
  assert (Hg1 : zget (flat N L) (k * 2 + 1) = Some (nofZ N i)).
  { rewrite HE. rewrite (zget_app_off _ _ _ 1) by (rewrite ?flat_length; subst k; lia). reflexivity. }
  remember (flat N L) as E eqn:HEq.
  destruct s as [sm0 st0 en0 nt0 pv0]. cbn [sc_sum sc_start sc_end sc_nties sc_prev] in *.
  destruct todo' as [|[v' i'] todo''].
  - do 6 eexists.
    match goal with
    | |- ?lhs = _ => eassert (Hrun : lhs = Ok (ONormal, _))
    end.
    { unfold es. cbv [for_stmt scan_for].
      peel. cbn. rewrite Hg0. cbn. subst rest. norm_state.
      peel. chks.
      replace (k <? 2 * Z.of_nat ncol - 1) with false
        by (symmetry; apply Z.ltb_ge; cbn in Hk; lia).
      cbn. subst rest. norm_state.
      peel. cbn. rewrite Hg1. cbn. subst rest. norm_state.
      peel. cbn. rewrite truth_b2z, if_ok. cbn. subst rest. norm_state.
      peel. chks.
      replace (k <? 2 * Z.of_nat ncol - 1) with false
        by (symmetry; apply Z.ltb_ge; cbn in Hk; lia).
      cbn. subst rest. norm_state.
      peel. cbn. rewrite ?truth_b2z, ?b2z_truth_b2z, ?and_ok. cbn. rewrite truth_b2z.
      merge_if_n. cbn. subst rest.
      peel. cbn. rewrite ?truth_b2z, ?b2z_truth_b2z, ?and_ok. cbn. rewrite ?truth_b2z.
      repeat merge_if_n. cbn. subst rest.
      peel. cbn. rewrite ?truth_b2z, ?b2z_truth_b2z, ?and_ok. cbn. rewrite ?truth_b2z.
      repeat merge_if_n. cbn. subst rest.
      cbn. norm_state. reflexivity. }
    rewrite Hrun. clear Hrun.
    rewrite (HI i Hi), (L_zero _ _ _ HL), (L_one _ _ _ HL), (L_m1 _ _ _ HL).
    replace (0 <? k) with (negb (k =? 0))
      by (subst k; destruct (Z.eqb_spec (Z.of_nat (List.length done)) 0);
          destruct (Z.ltb_spec 0 (Z.of_nat (List.length done))); try reflexivity; lia).
    rewrite if_negb.
    unfold es. subst s'. unfold scan_core. cbn [sc_sum sc_start sc_end sc_nties sc_prev].
    fold diff. reflexivity.
  - assert (Hg2 : zget E ((k + 1) * 2 + 0) = Some v').
    { rewrite HE. rewrite (zget_app_off _ _ _ 2) by (rewrite ?flat_length; subst k; lia).
      reflexivity. }
    do 6 eexists.
    match goal with
    | |- ?lhs = _ => eassert (Hrun : lhs = Ok (ONormal, _))
    end.
    { unfold es. cbv [for_stmt scan_for].
      peel. cbn. rewrite Hg0. cbn. subst rest. norm_state.
      peel. chks.
      replace (k <? 2 * Z.of_nat ncol - 1) with true
        by (symmetry; apply Z.ltb_lt; cbn in Hk; lia).
      chks. rewrite Hg2. cbn. subst rest. norm_state.
      peel. cbn. rewrite Hg1. cbn. subst rest. norm_state.
      peel. cbn. rewrite truth_b2z, if_ok. cbn. subst rest. norm_state.
      peel. chks.
      replace (k <? 2 * Z.of_nat ncol - 1) with true
        by (symmetry; apply Z.ltb_lt; cbn in Hk; lia).
      cbn. subst rest. norm_state.
      peel. cbn. rewrite ?truth_b2z, ?b2z_truth_b2z, ?and_ok. cbn. rewrite truth_b2z.
      merge_if_n. cbn. subst rest.
      peel. cbn. rewrite ?truth_b2z, ?b2z_truth_b2z, ?and_ok. cbn. rewrite ?truth_b2z.
      repeat merge_if_n. cbn. subst rest.
      peel. cbn. rewrite ?truth_b2z, ?b2z_truth_b2z, ?and_ok. cbn. rewrite ?truth_b2z.
      repeat merge_if_n. cbn. subst rest.
      cbn. norm_state. reflexivity. }
    rewrite Hrun. clear Hrun.
    rewrite (HI i Hi), (L_zero _ _ _ HL), (L_one _ _ _ HL), (L_m1 _ _ _ HL).
    replace (0 <? k) with (negb (k =? 0))
      by (subst k; destruct (Z.eqb_spec (Z.of_nat (List.length done)) 0);
          destruct (Z.ltb_spec 0 (Z.of_nat (List.length done))); try reflexivity; lia).
    rewrite if_negb.
    unfold es. subst s'. unfold scan_core. cbn [sc_sum sc_start sc_end sc_nties sc_prev].
    fold diff. reflexivity.
Qed.

(* ---- loop 2: the scan of the sorted pooled array ---- *)
Lemma scan_loop_run (callf : callee T) n nval (ncol : nat) i1 i2 ninit eps ncold
      v vp vn ix u F sr rk d dn tol nt st0 en sim fmat ranks (L : list (T * Z)) :
  lits_ok N X K -> idx_ok N ncol -> List.length L = (2 * ncol)%nat ->
  Forall (fun p => 0 <= snd p < 2 * Z.of_nat ncol) L -> (2 * ncol < n)%nat ->
  2 * Z.of_nat ncol <= 2147483647 ->
  let SF := scan_loop N eps (Z.of_nat ncol) 0 L (mkScan sr st0 en nt vp) in
  exists v1 vn1 ix1 rk1 d1 dn1,
  run_for callf n scan_for
    (es nval (Z.of_nat ncol) i1 i2 0 ninit eps ncold v vp vn ix u F sr rk d dn tol nt st0 en
        sim fmat ranks (flat N L))
  = Ok (ONormal,
        es nval (Z.of_nat ncol) i1 i2 (2 * Z.of_nat ncol) ninit eps ncold v1 (sc_prev SF) vn1 ix1 u F
           (sc_sum SF) rk1 d1 dn1 tol (sc_nties SF) (sc_start SF) (sc_end SF) sim fmat ranks (flat N L)).
Proof.
  intros HL HI Hlen HF Hn Hc2 SF.
  destruct (loop_rule
              (scan_inv N nval ncol i1 i2 ninit eps ncold u F tol sim fmat ranks L (mkScan sr st0 en nt vp))
              (fun res => exists v1 vn1 ix1 rk1 d1 dn1,
                 res = (ONormal,
                        es nval (Z.of_nat ncol) i1 i2 (2 * Z.of_nat ncol) ninit eps ncold v1 (sc_prev SF)
                           vn1 ix1 u F (sc_sum SF) rk1 d1 dn1 tol (sc_nties SF) (sc_start SF) (sc_end SF)
                           sim fmat ranks (flat N L)))
              (2 * ncol)%nat
              (cond_of N X (for_cond scan_for))
              (for_body (exec N X callf n (for_stmt scan_for)) (exec N X callf n (for_step scan_for))))
    with (fuel := n) (k := O)
         (st := es nval (Z.of_nat ncol) i1 i2 0 ninit eps ncold v vp vn ix u F sr rk d dn tol nt st0 en
                  sim fmat ranks (flat N L))
    as (res & Hres & v1 & vn1 & ix1 & rk1 & d1 & dn1 & ->).
  - intros k st (done & todo & s & v' & vn' & ix' & rk' & d' & dn' & HLd & Hd & Hs & ->).
    assert (Hk : (2 * ncol = k + List.length todo)%nat)
      by (rewrite <- Hlen, HLd, app_length; lia).
    split; [lia|].
    destruct todo as [|[x i] todo'].
    + unfold es. chks.
      replace (Z.of_nat k <? 2 * Z.of_nat ncol) with false
        by (symmetry; apply Z.ltb_ge; cbn in Hk; lia).
      cbn [scan_loop] in Hs. subst SF. rewrite <- Hs.
      exists v', vn', ix', rk', d', dn'. unfold es.
      replace (Z.of_nat k) with (2 * Z.of_nat ncol) by (cbn in Hk; lia). reflexivity.
    + assert (Hi : 0 <= i < 2 * Z.of_nat ncol).
      { rewrite Forall_forall in HF. apply (HF (x, i)). rewrite HLd. apply in_or_app. right. left. reflexivity. }
      subst k.
      destruct (scan_body callf n nval ncol i1 i2 ninit eps ncold u F tol sim fmat ranks
                  L done x i todo' s v' vn' ix' rk' d' dn' HL HI HLd Hlen Hi Hc2)
        as (v1 & vn1 & ix1 & rk1 & d1 & dn1 & Hb).
      unfold for_body. rewrite Hb. clear Hb.
      assert (Hk2 : Z.of_nat (List.length done) < 2 * Z.of_nat ncol) by (cbn in Hk; lia).
      unfold es. chks.
      replace (Z.of_nat (List.length done) <? 2 * Z.of_nat ncol) with true
        by (symmetry; apply Z.ltb_lt; cbn in Hk; lia).
      cbn.
      eexists (done ++ [(x, i)]), todo', _, v1, vn1, ix1, rk1, d1, dn1.
      split; [rewrite <- app_assoc; exact HLd|].
      split; [rewrite app_length; cbn; lia|].
      split.
      { rewrite <- Hs. cbn [scan_loop].
        replace (Z.of_nat (S (List.length done))) with (Z.of_nat (List.length done) + 1) by lia.
        reflexivity. }
      norm_state. unfold es.
      replace (Z.of_nat (List.length done) + 1) with (Z.of_nat (S (List.length done))) by lia.
      reflexivity.
  - exists [], L, (mkScan sr st0 en nt vp), v, vn, ix, rk, d, dn.
    split; [reflexivity|]. split; [reflexivity|]. split; [reflexivity|]. reflexivity.
  - lia.
  - exists v1, vn1, ix1, rk1, d1, dn1. exact Hres.
Qed.

End Refine.

#[local] Arguments upd_nth : simpl never.
#[local] Arguments nth : simpl never.

Section Refine.
Context {T : Type} (N : NumOps T) (X : NumLit T) (K : DsConsts T).

Notation run_for callf n s st :=
  (loop n (cond_of N X (for_cond s))
     (for_body (exec N X callf n (for_stmt s)) (exec N X callf n (for_step s))) st).

Notation qs := (qs N K).

(* one pair (i1, i2): 2*ncol (qsort count), the indices of sim (fill_loop) and
   fmat[i1*nval+i2] *)
Lemma pair_body m n (nval ncol i1 i2 : nat) j ninit eps (r : @fr T) (rows : list (list T))
      fmat ranks ens :
  lits_ok N X K -> cmp_lit_ok X K -> cmp_sign_ok N K -> idx_ok N ncol ->
  Forall (fun r => List.length r = ncol) rows -> List.length rows = nval -> (0 < ncol)%nat ->
  (i1 < i2)%nat -> (i2 < nval)%nat ->
  List.length fmat = (nval * nval)%nat -> List.length ranks = nval ->
  List.length ens = (4 * ncol)%nat -> (2 * ncol < n)%nat ->
  2 * Z.of_nat ncol <= 2147483647 ->
  Z.of_nat ncol * (Z.of_nat i2 + 1) - 1 <= 2147483647 ->
  Z.of_nat i1 * Z.of_nat nval + Z.of_nat i2 <= 2147483647 ->
  let F := pairF_s N qs eps (nth i1 rows []) (nth i2 rows []) in
  exists r' ens', List.length ens' = (4 * ncol)%nat /\
  exec N X (exec_fun N X program_chk (S m)) n (for_stmt inner_for)
    (esr (Z.of_nat nval) (Z.of_nat ncol) (Z.of_nat i1) (Z.of_nat i2) j ninit eps
         (nofZ N (Z.of_nat ncol)) r (List.concat rows) fmat ranks ens)
  = Ok (ONormal,
        esr (Z.of_nat nval) (Z.of_nat ncol) (Z.of_nat i1) (Z.of_nat i2) (2 * Z.of_nat ncol) ninit eps
            (nofZ N (Z.of_nat ncol)) r' (List.concat rows)
            (upd_nth (i1 * nval + i2) (fun _ => F) fmat)
            (rank_step N K ncol ranks (Z.of_nat i1, Z.of_nat i2, F)) ens').
Proof.
  intros HL HKc HS HI HF Hrows Hncol Hi12 Hi2 Hfm Hrk He Hn Hc2 Hci Hfi F.
  assert (Hl1 : List.length (nth i1 rows []) = ncol) by (apply Forall_nth_len; [assumption|lia]).
  assert (Hl2 : List.length (nth i2 rows []) = ncol) by (apply Forall_nth_len; [assumption|lia]).
  assert (Hp0 : 0 <= Z.of_nat i1 * Z.of_nat nval) by (apply Z.mul_nonneg_nonneg; lia).
  set (r1 := nth i1 rows []) in *. set (r2 := nth i2 rows []) in *.
  assert (Hsl : List.length (qs (pool r1 r2)) = (2 * ncol)%nat).
  { unfold RefineEnsrank.qs, glibc_sort. rewrite gsort_length, pool_length. lia. }
  assert (Hsi : Forall (fun p : T * Z => 0 <= snd p < 2 * Z.of_nat ncol) (qs (pool r1 r2))).
  { unfold RefineEnsrank.qs, glibc_sort. apply gsort_Forall. eapply Forall_impl; [|apply pool_idx].
    intros p Hp. cbn beta in Hp. lia. }
  assert (HFdef : F = F_of_sumrank N ncol
            (sc_sum (scan_loop N eps (Z.of_nat ncol) 0 (qs (pool r1 r2)) (scan_init N (qs (pool r1 r2)))))).
  { subst F. unfold pairF_s, sumrank_s. fold r1 r2. rewrite Hl1. reflexivity. }
  clearbody F.
  remember (qs (pool r1 r2)) as sorted eqn:Hsorted.
  destruct sorted as [|[a ia] [|[b ib] srt]]; try (cbn in Hsl; lia).
  destruct r as [v vp vn ix u F0 sr rk d dn tol nt st0 en].
  pose proof (chk_qsort_flat N X K m (2 * Z.of_nat ncol) (pool r1 r2) HKc HS
                ltac:(rewrite pool_length; lia)) as Hq.
  fold (RefineEnsrank.qs N K) in Hq. rewrite <- Hsorted in Hq.
  remember (exec_fun N X program_chk (S m)) as callf eqn:Hcf.
  change (scan_init N ((a, ia) :: (b, ib) :: srt))
    with (mkScan (n0 N) (nofZ N (-1)) (nofZ N (-1)) (n0 N) (nadd N a (n1 N))) in HFdef.
  destruct (scan_loop_run N X K callf n (Z.of_nat nval) ncol (Z.of_nat i1) (Z.of_nat i2) ninit eps
              (nofZ N (Z.of_nat ncol)) v (nadd N a (n1 N)) b (n0 N) u F0 (n0 N) rk d dn tol (n0 N)
              (nofZ N (-1)) (nofZ N (-1)) (List.concat rows) fmat ranks
              ((a, ia) :: (b, ib) :: srt) HL HI Hsl Hsi Hn Hc2)
    as (v1 & vn1 & ix1 & rk1 & d1 & dn1 & Hscan).
  remember (scan_loop N eps (Z.of_nat ncol) 0 ((a, ia) :: (b, ib) :: srt)
              (mkScan (n0 N) (nofZ N (-1)) (nofZ N (-1)) (n0 N) (nadd N a (n1 N)))) as SF eqn:HSF.
  assert (Hx1 : exists x1, nth_error ranks i1 = Some x1).
  { destruct (nth_error ranks i1) eqn:E; [eexists; reflexivity|].
    apply nth_error_None in E. lia. }
  destruct Hx1 as (x1 & Hx1).
  set (U := u_of_F N K ncol F).
  set (ranks1 := upd_nth i1 (fun x => nadd N x U) ranks).
  assert (Hx2 : exists x2, nth_error ranks1 i2 = Some x2).
  { destruct (nth_error ranks1 i2) eqn:E; [eexists; reflexivity|].
    apply nth_error_None in E. unfold ranks1 in E. rewrite upd_nth_length in E. lia. }
  destruct Hx2 as (x2 & Hx2).
  eassert (Hrun : exec N X callf n (for_stmt inner_for)
                    (es (Z.of_nat nval) (Z.of_nat ncol) (Z.of_nat i1) (Z.of_nat i2) j ninit eps
                        (nofZ N (Z.of_nat ncol)) v vp vn ix u F0 sr rk d dn tol nt st0 en
                        (List.concat rows) fmat ranks ens) = Ok (ONormal, _)).
  { unfold es. cbv [for_stmt inner_for].
    peel. cbn. subst rest. norm_state.
    peel. cbn.
    pose proof (fill_loop N X callf n (Z.of_nat nval) ncol i1 i2 ninit eps
                  (nofZ N (Z.of_nat ncol)) v vp vn ix u F0 sr rk d dn tol nt st0 en rows fmat ranks ens
                  HF ltac:(lia) ltac:(lia) He Hn ltac:(lia) Hc2 Hci) as Hfill.
    rw_loop Hfill. clear Hfill. cbn. subst rest. unfold es.
    peel. chks. fold r1 r2. rewrite Hq. cbn. subst rest. norm_state.
    peel. cbn. subst rest. norm_state.
    peel. cbn. subst rest. norm_state.
    peel. cbn. subst rest. norm_state.
    peel. cbn. subst rest. norm_state.
    peel. cbn. subst rest. norm_state.
    peel. cbn. subst rest. norm_state.
    peel. cbn. subst rest. norm_state.
    peel. cbn. subst rest. norm_state.
    rewrite (L_zero _ _ _ HL), (L_one _ _ _ HL), (L_m1 _ _ _ HL), (L_ofZ0 _ _ _ HL).
    peel. cbn. rw_loop Hscan. cbn. subst rest. unfold es.
    peel. cbn. rewrite (L_ofZ1 _ _ _ HL). unfold F_of_sumrank in HFdef. rewrite <- HFdef. subst rest. norm_state.
    peel. chks.
    rewrite zset_upd_nth by nia.
    replace (Z.to_nat (Z.of_nat i1 * Z.of_nat nval + Z.of_nat i2)) with (i1 * nval + i2)%nat by nia.
    cbn. subst rest. norm_state.
    peel. cbn. subst rest. norm_state.
    peel. cbn. rewrite !truth_b2z, !if_ok. cbn. subst rest. norm_state.
    match goal with
    | |- context[("u", ?e)] =>
        replace e with U
          by (subst U; unfold u_of_F, u_of_F_tol, u_tol;
              rewrite (L_lo_c _ _ _ HL), (L_hi_c _ _ _ HL), (L_tie _ _ _ HL), (L_low _ _ _ HL),
                      (L_high _ _ _ HL), (L_tolnum _ _ _ HL); reflexivity)
    end.
    peel. cbn.
    rewrite (zget_nth_error ranks) by lia. rewrite Nat2Z.id, Hx1. cbn.
    rewrite zset_upd_nth by lia. rewrite Nat2Z.id.
    rewrite (upd_nth_get (fun x => nadd N x U) ranks i1 x1 Hx1). fold ranks1.
    cbn. subst rest. norm_state.
    cbn.
    rewrite (zget_nth_error ranks1) by lia. rewrite Nat2Z.id, Hx2. cbn.
    rewrite zset_upd_nth by (unfold ranks1; rewrite upd_nth_length; lia). rewrite Nat2Z.id.
    rewrite (L_one _ _ _ HL).
    rewrite (upd_nth_get (fun x => nadd N x (nsub N (n1 N) U)) ranks1 i2 x2 Hx2).
    cbn. norm_state. reflexivity. }
  eexists (mkFr _ _ _ _ _ _ _ _ _ _ _ _ _ _), _. split; cycle 1.
  - unfold esr at 1. fr_simpl. rewrite Hrun. unfold esr, es. fr_simpl.
    unfold rank_step. fold U. rewrite !Nat2Z.id. fold ranks1. reflexivity.
  - change (a :: nofZ N ia :: b :: nofZ N ib :: List.concat (map (item N) srt))
      with (flat N ((a, ia) :: (b, ib) :: srt)).
    rewrite flat_length, Hsl. lia.
Qed.

(* ---- the loops over the pairs of ensembles ---- *)

#[local] Arguments rank_step : simpl never.
#[local] Arguments Nat.add : simpl never.
#[local] Arguments Nat.mul : simpl never.

Notation row_pairs := (row_pairs N K).
Notation inner_inv := (inner_inv N K).
Notation outer_inv := (outer_inv N K).

(* size hypotheses of c_ensrank (nval, ncol: C ints):
     Hc2  2*ncol                      <= INT_MAX   (2*ncol, 2*ncol-1, j++ up to 2*ncol)
     Hsz  nval*ncol - 1               <= INT_MAX   (sim[ncol*(i2-1)+j], i2 <= nval-1, j <= 2*ncol-1)
     Hfz  nval*nval - nval - 1        <= INT_MAX   (fmat[i1*nval+i2], i1 <= nval-2, i2 <= nval-1)
     Hvz  nval                        <= INT_MAX   (i1++, i2++, i1+1; implied by Hfz) *)
Lemma inner_loop (callf : callee T) m n (nval ncol i1 : nat) j ninit eps (r : @fr T)
      (rows : list (list T)) fmat ranks ens :
  callf = exec_fun N X program_chk (S m) ->
  lits_ok N X K -> cmp_lit_ok X K -> cmp_sign_ok N K -> idx_ok N ncol ->
  Forall (fun r => List.length r = ncol) rows -> List.length rows = nval -> (0 < ncol)%nat ->
  (i1 < nval)%nat ->
  List.length fmat = (nval * nval)%nat -> List.length ranks = nval ->
  List.length ens = (4 * ncol)%nat -> (2 * ncol < n)%nat -> (nval < n)%nat ->
  2 * Z.of_nat ncol <= 2147483647 ->
  Z.of_nat nval * Z.of_nat ncol - 1 <= 2147483647 ->
  Z.of_nat nval * Z.of_nat nval - Z.of_nat nval - 1 <= 2147483647 ->
  Z.of_nat nval <= 2147483647 ->
  let prs := row_pairs eps i1 (nth i1 rows []) 0 (skipn (S i1) rows) in
  exists r' ens' j', List.length ens' = (4 * ncol)%nat /\
  run_for callf n inner_for
    (esr (Z.of_nat nval) (Z.of_nat ncol) (Z.of_nat i1) (Z.of_nat (S i1)) j ninit eps
         (nofZ N (Z.of_nat ncol)) r (List.concat rows) fmat ranks ens)
  = Ok (ONormal,
        esr (Z.of_nat nval) (Z.of_nat ncol) (Z.of_nat i1) (Z.of_nat nval) j' ninit eps
            (nofZ N (Z.of_nat ncol)) r' (List.concat rows)
            (fold_left (fmat_set (Z.of_nat nval)) prs fmat)
            (fold_left (rank_step N K ncol) prs ranks) ens').
Proof.
  intros Hcf HL HKc HS HI HF Hrows Hncol Hi1 Hfm Hrk He Hn Hn2 Hc2 Hsz Hfz Hvz prs.
  destruct (loop_rule
              (inner_inv nval ncol i1 ninit eps rows fmat ranks)
              (fun res => exists r' ens' j', List.length ens' = (4 * ncol)%nat /\
                 res = (ONormal,
                        esr (Z.of_nat nval) (Z.of_nat ncol) (Z.of_nat i1) (Z.of_nat nval) j' ninit eps
                            (nofZ N (Z.of_nat ncol)) r' (List.concat rows)
                            (fold_left (fmat_set (Z.of_nat nval)) prs fmat)
                            (fold_left (rank_step N K ncol) prs ranks) ens'))
              nval
              (cond_of N X (for_cond inner_for))
              (for_body (exec N X callf n (for_stmt inner_for)) (exec N X callf n (for_step inner_for))))
    with (fuel := n) (k := O)
         (st := esr (Z.of_nat nval) (Z.of_nat ncol) (Z.of_nat i1) (Z.of_nat (S i1)) j ninit eps
                    (nofZ N (Z.of_nat ncol)) r (List.concat rows) fmat ranks ens)
    as (res & Hres & r' & ens' & j' & Hl' & ->).
  - intros k st (rr & ens_k & jk & fm & rk & Hek & Hfk & Hrkk & Hk & Hfold1 & Hfold2 & ->).
    split; [lia|].
    destruct (Nat.eq_dec (S i1 + k) nval) as [Hend|Hnot].
    + (* i2 = nval: end of the loop *)
      destruct rr as [v vp vn ix u F0 sr rk0 d dn tol nt st0 en].
      unfold esr, es. fr_simpl. cbn.
      replace (Z.of_nat (S i1 + k) <? Z.of_nat nval) with false
        by (symmetry; apply Z.ltb_ge; lia).
      rewrite skipn_all2 in Hfold1, Hfold2 by lia.
      cbn [RefineEnsrank.row_pairs zenum map fold_left] in Hfold1, Hfold2.
      subst prs. rewrite <- Hfold1, <- Hfold2.
      eexists (mkFr _ _ _ _ _ _ _ _ _ _ _ _ _ _), ens_k, jk. split; [exact Hek|].
      unfold esr, es. fr_simpl.
      replace (Z.of_nat (S i1 + k)) with (Z.of_nat nval) by lia. reflexivity.
    + assert (Hlt : (S i1 + k < nval)%nat) by lia.
      assert (Hci : Z.of_nat ncol * (Z.of_nat (S i1 + k) + 1) - 1 <= 2147483647).
      { assert (Z.of_nat ncol * (Z.of_nat (S i1 + k) + 1) <= Z.of_nat ncol * Z.of_nat nval)
          by (apply Z.mul_le_mono_nonneg_l; lia). lia. }
      assert (Hfi : Z.of_nat i1 * Z.of_nat nval + Z.of_nat (S i1 + k) <= 2147483647).
      { assert (Z.of_nat i1 * Z.of_nat nval <= (Z.of_nat nval - 2) * Z.of_nat nval)
          by (apply Z.mul_le_mono_nonneg_r; lia). lia. }
      destruct (pair_body m n nval ncol i1 (S i1 + k) jk ninit eps rr rows fm rk ens_k
                  HL HKc HS HI HF Hrows Hncol ltac:(lia) Hlt Hfk Hrkk Hek Hn Hc2 Hci Hfi)
        as (r2 & ens2 & Hl2 & Hp).
      rewrite <- Hcf in Hp.
      unfold for_body. rewrite Hp. clear Hp.
      destruct rr as [v vp vn ix u F0 sr rk0 d dn tol nt st0 en].
      destruct r2 as [v' vp' vn' ix' u' F0' sr' rk0' d' dn' tol' nt' st0' en'].
      unfold esr, es. fr_simpl. chks.
      replace (Z.of_nat (S i1 + k) <? Z.of_nat nval) with true
        by (symmetry; apply Z.ltb_lt; lia).
      rewrite (skipn_nth_cons rows [] (S i1 + k)) in Hfold1, Hfold2 by lia.
      cbn [RefineEnsrank.row_pairs zenum map fold_left fst snd] in Hfold1, Hfold2.
      eexists (mkFr _ _ _ _ _ _ _ _ _ _ _ _ _ _), ens2, _,
        (upd_nth (i1 * nval + (S i1 + k))
           (fun _ => pairF_s N qs eps (nth i1 rows []) (nth (S i1 + k) rows [])) fm),
        (rank_step N K ncol rk
           (Z.of_nat i1, Z.of_nat (S i1 + k),
            pairF_s N qs eps (nth i1 rows []) (nth (S i1 + k) rows []))).
      split; [exact Hl2|].
      split; [rewrite upd_nth_length; exact Hfk|].
      split; [rewrite rank_step_length; exact Hrkk|].
      split; [lia|].
      split; [|split].
      3:{ norm_state. unfold esr, es. fr_simpl.
          replace (Z.of_nat (S i1 + k) + 1) with (Z.of_nat (S i1 + S k)) by lia.
          reflexivity. }
      * rewrite <- Hfold1. unfold RefineEnsrank.row_pairs.
        replace (S i1 + S k)%nat with (S (S i1 + k)) by lia.
        replace (Z.of_nat (S k)) with (Z.of_nat k + 1) by lia.
        f_equal. unfold fmat_set.
        replace (Z.to_nat (Z.of_nat i1 * Z.of_nat nval + (Z.of_nat i1 + 1 + Z.of_nat k)))
          with (i1 * nval + (S i1 + k))%nat by nia.
        reflexivity.
      * rewrite <- Hfold2. unfold RefineEnsrank.row_pairs.
        replace (S i1 + S k)%nat with (S (S i1 + k)) by lia.
        replace (Z.of_nat (S k)) with (Z.of_nat k + 1) by lia.
        f_equal.
        replace (Z.of_nat i1 + 1 + Z.of_nat k) with (Z.of_nat (S i1 + k)) by lia.
        reflexivity.
  - exists r, ens, j, fmat, ranks.
    split; [exact He|]. split; [exact Hfm|]. split; [exact Hrk|]. split; [lia|].
    replace (S i1 + 0)%nat with (S i1) by lia.
    split; [reflexivity|]. split; [reflexivity|]. reflexivity.
  - lia.
  - exists r', ens', j'. split; [exact Hl'|]. exact Hres.
Qed.

Lemma outer_loop (callf : callee T) m n (nval ncol : nat) i2 j ninit eps (r : @fr T)
      (rows : list (list T)) fmat ranks ens :
  callf = exec_fun N X program_chk (S m) ->
  lits_ok N X K -> cmp_lit_ok X K -> cmp_sign_ok N K -> idx_ok N ncol ->
  Forall (fun r => List.length r = ncol) rows -> List.length rows = nval -> (0 < ncol)%nat ->
  List.length fmat = (nval * nval)%nat -> List.length ranks = nval ->
  List.length ens = (4 * ncol)%nat -> (2 * ncol < n)%nat -> (nval < n)%nat ->
  2 * Z.of_nat ncol <= 2147483647 ->
  Z.of_nat nval * Z.of_nat ncol - 1 <= 2147483647 ->
  Z.of_nat nval * Z.of_nat nval - Z.of_nat nval - 1 <= 2147483647 ->
  Z.of_nat nval <= 2147483647 ->
  let prs := pairs_from_s N qs eps 0 rows in
  exists r' ens' j' i2',
  run_for callf n outer_for
    (esr (Z.of_nat nval) (Z.of_nat ncol) 0 i2 j ninit eps
         (nofZ N (Z.of_nat ncol)) r (List.concat rows) fmat ranks ens)
  = Ok (ONormal,
        esr (Z.of_nat nval) (Z.of_nat ncol) (Z.of_nat nval) i2' j' ninit eps
            (nofZ N (Z.of_nat ncol)) r' (List.concat rows)
            (fold_left (fmat_set (Z.of_nat nval)) prs fmat)
            (fold_left (rank_step N K ncol) prs ranks) ens').
Proof.
  intros Hcf HL HKc HS HI HF Hrows Hncol Hfm Hrk He Hn Hn2 Hc2 Hsz Hfz Hvz prs.
  destruct (loop_rule
              (outer_inv nval ncol ninit eps rows fmat ranks)
              (fun res => exists r' ens' j' i2',
                 res = (ONormal,
                        esr (Z.of_nat nval) (Z.of_nat ncol) (Z.of_nat nval) i2' j' ninit eps
                            (nofZ N (Z.of_nat ncol)) r' (List.concat rows)
                            (fold_left (fmat_set (Z.of_nat nval)) prs fmat)
                            (fold_left (rank_step N K ncol) prs ranks) ens'))
              nval
              (cond_of N X (for_cond outer_for))
              (for_body (exec N X callf n (for_stmt outer_for)) (exec N X callf n (for_step outer_for))))
    with (fuel := n) (k := O)
         (st := esr (Z.of_nat nval) (Z.of_nat ncol) 0 i2 j ninit eps
                    (nofZ N (Z.of_nat ncol)) r (List.concat rows) fmat ranks ens)
    as (res & Hres & r' & ens' & j' & i2' & ->).
  - intros k st (rr & ens_k & jk & i2k & fm & rk & Hek & Hfk & Hrkk & Hk & Hfold1 & Hfold2 & ->).
    split; [lia|].
    destruct (Nat.eq_dec k nval) as [Hend|Hnot].
    + destruct rr as [v vp vn ix u F0 sr rk0 d dn tol nt st0 en].
      unfold esr, es. fr_simpl. cbn.
      replace (Z.of_nat k <? Z.of_nat nval) with false by (symmetry; apply Z.ltb_ge; lia).
      rewrite skipn_all2 in Hfold1, Hfold2 by lia.
      cbn [pairs_from_s fold_left] in Hfold1, Hfold2.
      subst prs. rewrite <- Hfold1, <- Hfold2.
      eexists (mkFr _ _ _ _ _ _ _ _ _ _ _ _ _ _), ens_k, jk, i2k.
      unfold esr, es. fr_simpl.
      replace (Z.of_nat k) with (Z.of_nat nval) by lia. reflexivity.
    + assert (Hlt : (k < nval)%nat) by lia.
      destruct (inner_loop callf m n nval ncol k jk ninit eps rr rows fm rk ens_k
                  Hcf HL HKc HS HI HF Hrows Hncol Hlt Hfk Hrkk Hek Hn Hn2 Hc2 Hsz Hfz Hvz)
        as (r2 & ens2 & j2 & Hl2 & Hin).
      rewrite (skipn_nth_cons rows [] k) in Hfold1, Hfold2 by lia.
      cbn [pairs_from_s] in Hfold1, Hfold2. rewrite fold_left_app in Hfold1, Hfold2.
      destruct rr as [v vp vn ix u F0 sr rk0 d dn tol nt st0 en].
      destruct r2 as [v' vp' vn' ix' u' F0' sr' rk0' d' dn' tol' nt' st0' en'].
      unfold esr, es in Hin |- *. fr_simpl. cbn [r_v r_vp r_vn r_ix r_u r_F r_sr r_rk r_d r_dn r_tol r_nt r_st r_en] in Hin.
      unfold for_body. chks.
      replace (Z.of_nat k <? Z.of_nat nval) with true by (symmetry; apply Z.ltb_lt; lia).
      replace (Z.of_nat k + 1) with (Z.of_nat (S k)) by lia.
      rw_loop Hin. clear Hin. chks.
      eexists (mkFr _ _ _ _ _ _ _ _ _ _ _ _ _ _), ens2, _, _, _, _.
      split; [exact Hl2|].
      split; [rewrite fold_fmat_length; exact Hfk|].
      split; [rewrite fold_rank_length; exact Hrkk|].
      split; [lia|].
      split; [|split].
      3:{ norm_state. unfold esr, es. fr_simpl.
          replace (Z.of_nat k + 1) with (Z.of_nat (S k)) by lia. reflexivity. }
      * rewrite <- Hfold1.
        replace (Z.of_nat (S k)) with (Z.of_nat k + 1) by lia. reflexivity.
      * rewrite <- Hfold2.
        replace (Z.of_nat (S k)) with (Z.of_nat k + 1) by lia. reflexivity.
  - exists r, ens, j, i2, fmat, ranks.
    split; [exact He|]. split; [exact Hfm|]. split; [exact Hrk|]. split; [lia|].
    split; [reflexivity|]. split; [reflexivity|]. reflexivity.
  - lia.
  - exists r', ens', j', i2'. exact Hres.
Qed.

End Refine.

#[local] Arguments rank_step : simpl never.
#[local] Arguments Nat.add : simpl never.
#[local] Arguments Nat.mul : simpl never.
#[local] Arguments fold_left : simpl never.
#[local] Arguments zrepeat : simpl never.

Section Refine.
Context {T : Type} (N : NumOps T) (X : NumLit T) (K : DsConsts T).

Notation run_for callf n s st :=
  (loop n (cond_of N X (for_cond s))
     (for_body (exec N X callf n (for_stmt s)) (exec N X callf n (for_step s))) st).

Lemma find_ensrank : find_fun program_chk "c_ensrank" = Ok (ens_params, ens_body).
Proof. reflexivity. Qed.

Lemma body_evalue (callf : callee T) n eps nval ncol sim fmat ranks :
  nltb N eps (nlit X (0x1.79ca10c924223p-67)%float 1 100000000000000000000) = true ->
  exists st,
    exec N X callf n ens_body (ens_st0 eps nval ncol sim fmat ranks) = Ok (ORet (RI 5001), st) /\
    out_arrays ens_params st = Ok [VArrF sim; VArrF fmat; VArrF ranks].
Proof.
  intros Heps. eexists. split.
  - unfold ens_st0, ens_body. do 20 step.
    seq_open_ret. { cbn. rewrite Heps. cbn. reflexivity. }
    seq_close. reflexivity.
  - reflexivity.
Qed.

Lemma body_esize (callf : callee T) n eps nval ncol sim fmat ranks :
  nltb N eps (nlit X (0x1.79ca10c924223p-67)%float 1 100000000000000000000) = false ->
  (ncol <=? 0) || (nval <=? 0) = true ->
  exists st,
    exec N X callf n ens_body (ens_st0 eps nval ncol sim fmat ranks) = Ok (ORet (RI 5000), st) /\
    out_arrays ens_params st = Ok [VArrF sim; VArrF fmat; VArrF ranks].
Proof.
  intros Heps Hsz. eexists. split.
  - unfold ens_st0, ens_body. do 20 step.
    seq_open. { cbn. rewrite Heps. cbn. reflexivity. }
    seq_close.
    seq_open_ret.
    { cbn. rewrite !truth_b2z, or_ok. cbn. rewrite truth_b2z, Hsz. cbn. reflexivity. }
    seq_close. reflexivity.
  - reflexivity.
Qed.

Lemma body_ok (callf : callee T) m n eps (sim : list (list T)) (nval ncol : nat) fmat ranks :
  callf = exec_fun N X program_chk (S m) ->
  lits_ok N X K -> cmp_lit_ok X K -> cmp_sign_ok N K -> idx_ok N ncol ->
  Forall (fun r => List.length r = ncol) sim -> List.length sim = nval ->
  List.length fmat = (nval * nval)%nat -> List.length ranks = nval ->
  (0 < ncol)%nat -> (0 < nval)%nat ->
  (Nat.max nval (2 * ncol) < n)%nat ->
  nltb N eps (nlit X (0x1.79ca10c924223p-67)%float 1 100000000000000000000) = false ->
  2 * Z.of_nat ncol <= 2147483647 ->
  Z.of_nat nval * Z.of_nat ncol - 1 <= 2147483647 ->
  Z.of_nat nval * Z.of_nat nval - Z.of_nat nval - 1 <= 2147483647 ->
  let prs := pairs_from_s N (qs N K) eps 0 sim in
  exists st,
    exec N X callf n ens_body
      (ens_st0 eps (Z.of_nat nval) (Z.of_nat ncol) (List.concat sim) fmat ranks)
    = Ok (ORet (RI 0), st) /\
    out_arrays ens_params st
    = Ok [VArrF (List.concat sim);
          VArrF (fold_left (fmat_set (Z.of_nat nval)) prs fmat);
          VArrF (fold_left (rank_step N K ncol) prs (repeat (n1 N) nval))].
Proof.
  intros Hcf HL HKc HS HI HF Hnval Hfm Hrk Hc0 Hv0 Hn Heps Hc2 Hsz Hfz prs.
  assert (Hvz : Z.of_nat nval <= 2147483647) by nia.
  set (ninit := if Z.of_nat nval <? 2 * Z.of_nat ncol then 2 * Z.of_nat ncol else Z.of_nat nval).
  assert (Hni : Z.of_nat nval <= ninit /\ 2 * Z.of_nat ncol <= ninit /\ (Z.to_nat ninit < n)%nat
                /\ ninit <= 2147483647).
  { subst ninit. destruct (Z.ltb_spec (Z.of_nat nval) (2 * Z.of_nat ncol)); lia. }
  destruct Hni as (Hni1 & Hni2 & Hni3 & Hni4).
  set (z := nofZ N 0).
  destruct (init_loop N X callf n nval ncol ninit eps z (mkFr z z z z z z z z z z z z z z)
              (List.concat sim) fmat ranks (zrepeat (n0 N) (2 * Z.of_nat ncol * 2 - 0)))
    as (ens1 & Hl1 & Hinit); try assumption.
  { rewrite zrepeat_eq, repeat_length. lia. }
  unfold one_lit in Hinit. rewrite (L_one _ _ _ HL) in Hinit.
  destruct (outer_loop N X K callf m n nval ncol 0 ninit ninit eps (mkFr z z z z z z z z z z z z z z)
              sim fmat (repeat (n1 N) nval) ens1 Hcf HL HKc HS HI HF Hnval)
    as (r2 & ens2 & j2 & i22 & Hout); try assumption; try lia.
  { apply repeat_length. }
  destruct r2 as [v' vp' vn' ix' u' F0' sr' rk0' d' dn' tol' nt' st0' en'].
  unfold esr, es in Hout, Hinit.
  cbn [r_v r_vp r_vn r_ix r_u r_F r_sr r_rk r_d r_dn r_tol r_nt r_st r_en] in Hout, Hinit.
  eexists. split.
  - unfold ens_st0, ens_body. do 20 step.
    seq_open. { cbn. rewrite Heps. cbn. reflexivity. }
    seq_close.
    seq_open.
    { cbn. rewrite !truth_b2z, or_ok. cbn. rewrite truth_b2z.
      replace ((Z.of_nat ncol <=? 0) || (Z.of_nat nval <=? 0)) with false
        by (symmetry; apply orb_false_iff; split; apply Z.leb_gt; lia).
      cbn. reflexivity. }
    seq_close.
    seq_open.
    { cbn. unfold new_arr.
      replace (2 * Z.of_nat ncol * 2 <? 0) with false by (symmetry; apply Z.ltb_ge; lia).
      replace (2 * Z.of_nat ncol * 2 <? zlen (@nil T)) with false
        by (symmetry; apply Z.ltb_ge; cbn; lia).
      cbn. norm_state. reflexivity. }
    seq_close.
    step.
    seq_open. { chks. rewrite truth_b2z, if_ok. cbn. norm_state. reflexivity. }
    seq_close.
    step.
    seq_open. { exact Hinit. }
    seq_close.
    step. step.
    seq_open. { exact Hout. }
    seq_close.
    cbn. reflexivity.
  - cbn. reflexivity.
Qed.

(* c_ensrank, overflow-checked: the statement of [refine_c_ensrank_qsort] about
   [program_chk] under the size hypotheses (nval = number of ensembles = len(sim), ncol =
   ensemble size, both C ints)
     2*ncol                 <= INT_MAX   2*ncol, 2*ncol-1, j++ (j <= max(nval, 2*ncol))
     nval*ncol - 1          <= INT_MAX   sim[ncol*(i2-1)+j], the last entry of sim
     nval*nval - nval - 1   <= INT_MAX   fmat[i1*nval+i2], i1 = nval-2, i2 = nval-1
                                         (i.e. nval <= 46341; implies nval <= INT_MAX)
   No hypothesis on ncol*(ncol+1): the expected rank sum is computed in double. *)
Theorem chk_refine_c_ensrank_qsort eps (sim : list (list T)) (ncol : nat) fmat ranks n :
  lits_ok N X K -> cmp_lit_ok X K -> cmp_sign_ok N K -> idx_ok N ncol ->
  Forall (fun r => List.length r = ncol) sim ->
  List.length fmat = (List.length sim * List.length sim)%nat ->
  List.length ranks = List.length sim ->
  (Nat.max (List.length sim) (2 * ncol) < n)%nat ->
  2 * Z.of_nat ncol <= 2147483647 ->
  Z.of_nat (List.length sim) * Z.of_nat ncol - 1 <= 2147483647 ->
  Z.of_nat (List.length sim) * Z.of_nat (List.length sim) - Z.of_nat (List.length sim) - 1
    <= 2147483647 ->
  exec_fun N X program_chk (S n) "c_ensrank"
    [AVF eps; AVI (Z.of_nat (List.length sim)); AVI (Z.of_nat ncol);
     AVArrF (List.concat sim); AVArrF fmat; AVArrF ranks]
  = Ok (ens_outputs (ensrank_s N K (qs N K) eps sim) sim fmat ranks).
Proof.
  intros HL HKc HS HI HF Hfm Hrk Hn Hc2 Hsz Hfz.
  destruct n as [|m]; [lia|].
  rewrite exec_fun_unfold, find_ensrank.
  cbn [bind fst snd bind_params ens_params].
  change (set_af (set_af (set_af (set_i (set_i (set_f st_empty "eps" eps) "nval"
            (Z.of_nat (List.length sim))) "ncol" (Z.of_nat ncol)) "sim" (List.concat sim))
            "fmat" fmat) "ranks" ranks)
    with (ens_st0 eps (Z.of_nat (List.length sim)) (Z.of_nat ncol) (List.concat sim) fmat ranks).
  unfold ensrank_s. rewrite (L_epsmin _ _ _ HL).
  destruct (nltb N eps _) eqn:Heps.
  { destruct (body_evalue (exec_fun N X program_chk (S m)) (S m) eps (Z.of_nat (List.length sim))
                (Z.of_nat ncol) (List.concat sim) fmat ranks Heps) as (st & Hb & Ho).
    rewrite Hb. cbn [bind ens_outputs]. rewrite Ho. reflexivity. }
  assert (Hsz0 : Nat.eqb (match sim with r :: _ => List.length r | [] => O end) 0
                || Nat.eqb (List.length sim) 0
                = (Z.of_nat ncol <=? 0) || (Z.of_nat (List.length sim) <=? 0)).
  { rewrite !eqb0_leb. destruct sim as [|r0 sim'].
    - cbn. rewrite !orb_true_r. reflexivity.
    - inversion HF as [|? ? Hr0 HF']. rewrite Hr0. reflexivity. }
  cbv zeta. rewrite Hsz0.
  destruct ((Z.of_nat ncol <=? 0) || (Z.of_nat (List.length sim) <=? 0)) eqn:Hsz2.
  { destruct (body_esize (exec_fun N X program_chk (S m)) (S m) eps (Z.of_nat (List.length sim))
                (Z.of_nat ncol) (List.concat sim) fmat ranks Heps Hsz2) as (st & Hb & Ho).
    rewrite Hb. cbn [bind ens_outputs]. rewrite Ho. reflexivity. }
  apply orb_false_iff in Hsz2. destruct Hsz2 as [Hc0 Hv0].
  apply Z.leb_gt in Hc0. apply Z.leb_gt in Hv0.
  destruct (body_ok (exec_fun N X program_chk (S m)) m (S m) eps sim (List.length sim) ncol fmat ranks
              eq_refl HL HKc HS HI HF eq_refl Hfm Hrk ltac:(lia) ltac:(lia) Hn Heps Hc2 Hsz Hfz)
    as (st & Hb & Ho).
  rewrite Hb. cbn [bind ens_outputs]. rewrite Ho.
  rewrite map_const_repeat'.
  replace (match sim with r :: _ => List.length r | [] => O end) with ncol.
  2:{ destruct sim as [|r0 sim']; [cbn in Hv0; lia|]. inversion HF; subst. reflexivity. }
  reflexivity.
Qed.

(* c_ensrank = the model [ensrank] of Model/Dscore.v, whenever the stable insertion sort of
   the model and glibc's merge sort agree on the pooled arrays *)
Theorem chk_refine_c_ensrank eps (sim : list (list T)) (ncol : nat) fmat ranks n :
  lits_ok N X K -> cmp_lit_ok X K -> cmp_sign_ok N K -> idx_ok N ncol ->
  pairs_agree N K sim ->
  Forall (fun r => List.length r = ncol) sim ->
  List.length fmat = (List.length sim * List.length sim)%nat ->
  List.length ranks = List.length sim ->
  (Nat.max (List.length sim) (2 * ncol) < n)%nat ->
  2 * Z.of_nat ncol <= 2147483647 ->
  Z.of_nat (List.length sim) * Z.of_nat ncol - 1 <= 2147483647 ->
  Z.of_nat (List.length sim) * Z.of_nat (List.length sim) - Z.of_nat (List.length sim) - 1
    <= 2147483647 ->
  exec_fun N X program_chk (S n) "c_ensrank"
    [AVF eps; AVI (Z.of_nat (List.length sim)); AVI (Z.of_nat ncol);
     AVArrF (List.concat sim); AVArrF fmat; AVArrF ranks]
  = Ok (ens_outputs (ensrank N K eps sim) sim fmat ranks).
Proof.
  intros HL HKc HS HI HA HF Hfm Hrk Hn Hc2 Hsz Hfz.
  rewrite <- (ensrank_s_agree N K eps sim HA).
  apply chk_refine_c_ensrank_qsort; assumption.
Qed.

End Refine.

(* real numbers: no hypothesis on the arithmetic is left, only the sizes *)
Theorem chk_refine_c_ensrank_qsort_RR eps (sim : list (list R)) (ncol : nat) fmat ranks n :
  Forall (fun r => List.length r = ncol) sim ->
  List.length fmat = (List.length sim * List.length sim)%nat ->
  List.length ranks = List.length sim ->
  (Nat.max (List.length sim) (2 * ncol) < n)%nat ->
  2 * Z.of_nat ncol <= 2147483647 ->
  Z.of_nat (List.length sim) * Z.of_nat ncol - 1 <= 2147483647 ->
  Z.of_nat (List.length sim) * Z.of_nat (List.length sim) - Z.of_nat (List.length sim) - 1
    <= 2147483647 ->
  exec_fun RR XRR program_chk (S n) "c_ensrank"
    [AVF eps; AVI (Z.of_nat (List.length sim)); AVI (Z.of_nat ncol);
     AVArrF (List.concat sim); AVArrF fmat; AVArrF ranks]
  = Ok (ens_outputs (ensrank_s RR KR (qs RR KR) eps sim) sim fmat ranks).
Proof.
  apply chk_refine_c_ensrank_qsort;
    [exact lits_ok_RR|exact cmp_lit_ok_RR|exact cmp_sign_ok_RR|apply idx_ok_RR].
Qed.

Theorem chk_refine_c_ensrank_RR eps (sim : list (list R)) (ncol : nat) fmat ranks n :
  pairs_agree RR KR sim ->
  Forall (fun r => List.length r = ncol) sim ->
  List.length fmat = (List.length sim * List.length sim)%nat ->
  List.length ranks = List.length sim ->
  (Nat.max (List.length sim) (2 * ncol) < n)%nat ->
  2 * Z.of_nat ncol <= 2147483647 ->
  Z.of_nat (List.length sim) * Z.of_nat ncol - 1 <= 2147483647 ->
  Z.of_nat (List.length sim) * Z.of_nat (List.length sim) - Z.of_nat (List.length sim) - 1
    <= 2147483647 ->
  exec_fun RR XRR program_chk (S n) "c_ensrank"
    [AVF eps; AVI (Z.of_nat (List.length sim)); AVI (Z.of_nat ncol);
     AVArrF (List.concat sim); AVArrF fmat; AVArrF ranks]
  = Ok (ens_outputs (ensrank RR KR eps sim) sim fmat ranks).
Proof.
  apply chk_refine_c_ensrank;
    [exact lits_ok_RR|exact cmp_lit_ok_RR|exact cmp_sign_ok_RR|apply idx_ok_RR].
Qed.

(* reals with an explicit NaN *)
Theorem chk_refine_c_ensrank_qsort_RN eps (sim : list (list (option R))) (ncol : nat) fmat ranks n :
  Forall (fun r => List.length r = ncol) sim ->
  List.length fmat = (List.length sim * List.length sim)%nat ->
  List.length ranks = List.length sim ->
  (Nat.max (List.length sim) (2 * ncol) < n)%nat ->
  2 * Z.of_nat ncol <= 2147483647 ->
  Z.of_nat (List.length sim) * Z.of_nat ncol - 1 <= 2147483647 ->
  Z.of_nat (List.length sim) * Z.of_nat (List.length sim) - Z.of_nat (List.length sim) - 1
    <= 2147483647 ->
  exec_fun RN XRN program_chk (S n) "c_ensrank"
    [AVF eps; AVI (Z.of_nat (List.length sim)); AVI (Z.of_nat ncol);
     AVArrF (List.concat sim); AVArrF fmat; AVArrF ranks]
  = Ok (ens_outputs (ensrank_s RN KN (qs RN KN) eps sim) sim fmat ranks).
Proof.
  apply chk_refine_c_ensrank_qsort;
    [exact lits_ok_RN|exact cmp_lit_ok_RN|exact cmp_sign_ok_RN|apply idx_ok_RN].
Qed.

Theorem chk_refine_c_ensrank_RN eps (sim : list (list (option R))) (ncol : nat) fmat ranks n :
  pairs_agree RN KN sim ->
  Forall (fun r => List.length r = ncol) sim ->
  List.length fmat = (List.length sim * List.length sim)%nat ->
  List.length ranks = List.length sim ->
  (Nat.max (List.length sim) (2 * ncol) < n)%nat ->
  2 * Z.of_nat ncol <= 2147483647 ->
  Z.of_nat (List.length sim) * Z.of_nat ncol - 1 <= 2147483647 ->
  Z.of_nat (List.length sim) * Z.of_nat (List.length sim) - Z.of_nat (List.length sim) - 1
    <= 2147483647 ->
  exec_fun RN XRN program_chk (S n) "c_ensrank"
    [AVF eps; AVI (Z.of_nat (List.length sim)); AVI (Z.of_nat ncol);
     AVArrF (List.concat sim); AVArrF fmat; AVArrF ranks]
  = Ok (ens_outputs (ensrank RN KN eps sim) sim fmat ranks).
Proof.
  apply chk_refine_c_ensrank;
    [exact lits_ok_RN|exact cmp_lit_ok_RN|exact cmp_sign_ok_RN|apply idx_ok_RN].
Qed.

(* The hypothesis 2*ncol <= INT_MAX is needed: with ncol = 2^30 (one ensemble of 2^30 members is
   a [sim] of 8 GiB; the Cython wrapper converts sim.shape[1] to a C int and checks nothing
   else) and eps >= 1e-20, nval >= 1, the kernel overflows at  ninit = nval < 2*ncol ? ..
   before reading any buffer. *)
#[local] Arguments new_arr : simpl never.

Theorem overflow_c_ensrank_2ncol {T} (N : NumOps T) (X : NumLit T) eps nval sim fmat ranks n :
  nltb N eps (nlit X (0x1.79ca10c924223p-67)%float 1 100000000000000000000) = false ->
  0 < nval ->
  exec_fun N X program_chk (S n) "c_ensrank"
    [AVF eps; AVI nval; AVI 1073741824; AVArrF sim; AVArrF fmat; AVArrF ranks]
  = Err (Overflow true 2147483648).
Proof.
  intros Heps Hnv.
  rewrite exec_fun_unfold, find_ensrank.
  cbn [bind fst snd bind_params ens_params]. norm_state.
  match goal with |- context[exec N X ?c n ens_body ?st] =>
    assert (Hb : exec N X c n ens_body st = Err (Overflow true 2147483648)) end.
  { unfold ens_body. do 20 step.
    seq_open. { cbn. rewrite Heps. cbn. reflexivity. }
    seq_close.
    seq_open.
    { cbn. rewrite ?truth_b2z, ?b2z_truth_b2z, ?or_ok.
      replace (nval <=? 0) with false by (symmetry; apply Z.leb_gt; lia).
      cbn. reflexivity. }
    seq_close.
    seq_open. { cbn. unfold new_arr. cbn. norm_state. reflexivity. }
    seq_close.
    step.
    apply exec_seq_err. cbn. reflexivity. }
  rewrite Hb. reflexivity.
Qed.

End ChkEnsrank.
