(* C02 - the Jacobian of every transform is the derivative of forward, it is
   positive, and forward is strictly increasing: proofs over R about
   Model/Transform.v (Coquelicot's [is_derive]).  The extracted bounds of
   Gen/ConstsC01.v are what makes the Jacobians positive (scale > 0, xmax > 0). *)
From Coq Require Import Reals List Bool Lra.
From Coquelicot Require Import Coquelicot.
From Hy Require Import Base.Num Gen.ConstsC01 Model.Transform Proofs.TransformProofs.
Import ListNotations.
Open Scope R_scope.

(* value of a guarded result (None = NaN) *)
Definition oget (o : option R) : R := match o with Some v => v | None => 0 end.

(* ------------------------------------------------------------------ *)
(* local equality on an open half-line / interval is enough             *)
Lemma is_derive_loc_gt (f g : R -> R) a x l :
  a < x -> (forall t, a < t -> f t = g t) -> is_derive g x l -> is_derive f x l.
Proof.
  intros Hx Heq Hd. apply (is_derive_ext_loc g f); [|exact Hd].
  apply (filter_imp (fun t => a < t)).
  - intros t Ht. symmetry. apply Heq, Ht.
  - apply (open_gt a x Hx).
Qed.

Lemma is_derive_loc_lt (f g : R -> R) a x l :
  x < a -> (forall t, t < a -> f t = g t) -> is_derive g x l -> is_derive f x l.
Proof.
  intros Hx Heq Hd. apply (is_derive_ext_loc g f); [|exact Hd].
  apply (filter_imp (fun t => t < a)).
  - intros t Ht. symmetry. apply Heq, Ht.
  - apply (open_lt a x Hx).
Qed.

Lemma is_derive_loc_between (f g : R -> R) a b x l :
  a < x < b -> (forall t, a < t < b -> f t = g t) -> is_derive g x l -> is_derive f x l.
Proof.
  intros Hx Heq Hd. apply (is_derive_ext_loc g f); [|exact Hd].
  apply (filter_imp (fun t => a < t /\ t < b)).
  - intros t Ht. symmetry. apply Heq, Ht.
  - apply (open_and _ _ (open_gt a) (open_lt b) x Hx).
Qed.

Lemma Rpower_minus_1 z c : 0 < z -> Rpower z (c - 1) = Rpower z c / z.
Proof.
  intros Hz. unfold Rminus. rewrite Rpower_plus, Rpower_Ropp, Rpower_1 by assumption.
  reflexivity.
Qed.

Lemma is_derive_shift (f : R -> R) c x l :
  is_derive f x l -> is_derive (fun t => f t - c) x l.
Proof.
  intros Hd.
  pose proof (is_derive_plus _ _ x _ _ Hd (is_derive_const (- c) x)) as D.
  apply (is_derive_ext (fun t => plus (f t) (- c))).
  - intros t. unfold plus; simpl. ring.
  - replace l with (plus l zero); [exact D|]. unfold plus, zero; simpl. ring.
Qed.

Lemma is_derive_reflect (f : R -> R) c x l :
  is_derive f (- x) l -> is_derive (fun t => - (f (- t) - c)) x l.
Proof.
  intros Hd.
  assert (D1 : is_derive (fun t : R => - t) x (-1)) by (auto_derive; [exact I | ring]).
  pose proof (is_derive_comp f (fun t => - t) x l (-1) Hd D1) as D2.
  pose proof (is_derive_scal _ x (-1) _ D2) as D3.
  pose proof (is_derive_plus _ _ x _ _ D3 (is_derive_const c x)) as D4.
  apply (is_derive_ext (fun t => plus (-1 * f (- t)) c)).
  - intros t. unfold plus; simpl. ring.
  - replace l with (plus (-1 * scal (-1) l) zero); [exact D4|].
    unfold plus, zero, scal; simpl. unfold mult; simpl. ring.
Qed.

(* the core of the power family: t |-> (t^c - 1)/c, c <> 0 *)
Lemma pow_core_derive c a s x :
  c <> 0 -> 0 < a + s * x ->
  is_derive (fun t => (Rpower (a + s * t) c - 1) / c) x (Rpower (a + s * x) (c - 1) * s).
Proof.
  intros Hc Hz. rewrite Rpower_minus_1 by assumption. unfold Rpower.
  auto_derive.
  - assumption.
  - field. split; lra.
Qed.

Lemma pow_core_incr c z1 z2 :
  c <> 0 -> 0 < z1 -> z1 < z2 -> (Rpower z1 c - 1) / c < (Rpower z2 c - 1) / c.
Proof.
  intros Hc H1 H12.
  destruct (Rlt_dec 0 c) as [Hp|Hn].
  - assert (Rpower z1 c < Rpower z2 c) by (apply Rpower_lt_l; lra).
    unfold Rdiv. apply Rmult_lt_compat_r; [apply Rinv_0_lt_compat; lra | lra].
  - assert (Hneg : c < 0) by lra.
    assert (Rpower z2 c < Rpower z1 c) by (apply Rpower_gt_l_neg; lra).
    assert (Hi : / c < 0) by (apply Rinv_lt_0_compat; lra).
    unfold Rdiv. nra.
Qed.

(* ------------------------------------------------------------------ *)
(* Identity                                                             *)
Lemma id_jac_derive x : is_derive id_fwd x (id_jac x) /\ 0 < id_jac x.
Proof.
  split; [|unfold id_jac; lra].
  unfold id_fwd, id_jac. auto_derive; [exact I | ring].
Qed.
Lemma id_fwd_incr x1 x2 : x1 < x2 -> id_fwd x1 < id_fwd x2.
Proof. auto. Qed.

(* ------------------------------------------------------------------ *)
(* Logit                                                                *)
Lemma logit_jac_derive lower logdelta x j :
  logit_jac lower logdelta x = Some j ->
  is_derive (logit_fwd lower logdelta) x j /\ 0 < j.
Proof.
  unfold logit_jac. cbv zeta. set (d := exp logdelta).
  assert (Hd : 0 < d) by apply exp_pos. pose proof EPS_pos as He.
  destruct (Rltb_cases (lower + EPS) x) as [[E1 H1]|[E1 _]]; rewrite E1; simpl; [|discriminate].
  destruct (Rltb_cases x (lower + d - EPS)) as [[E2 H2]|[E2 _]]; rewrite E2; simpl; [|discriminate].
  intros Hj. inversion Hj as [Hj']. clear Hj.
  replace (lower + d - lower) with d by ring.
  set (v := (x - lower) / d).
  assert (Hv0 : 0 < v) by (unfold v; apply Rdiv_lt_0_compat; lra).
  assert (Hv1 : v < 1) by (unfold v; apply div_lt_1; lra).
  split.
  - (* on (lower, lower + d): forward t = ln (t - lower) - ln (lower + d - t) *)
    apply (is_derive_loc_between _ (fun t => ln (t - lower) - ln (lower + d - t)) lower (lower + d) x).
    + lra.
    + intros t [Ht1 Ht2]. unfold logit_fwd. cbv zeta. fold d.
      replace (lower + d - lower) with d by ring.
      set (u := (t - lower) / d).
      assert (Hu0 : 0 < u) by (unfold u; apply Rdiv_lt_0_compat; lra).
      assert (Hu1 : u < 1) by (unfold u; apply div_lt_1; lra).
      replace (1 / (1 - u) - 1) with ((t - lower) / (lower + d - t))
        by (unfold u; field; split; lra).
      unfold Rdiv at 1. rewrite ln_mult by (try apply Rinv_0_lt_compat; lra).
      rewrite ln_Rinv by lra. ring.
    + auto_derive.
      * repeat split; lra.
      * unfold v. field. repeat split; lra.
  - unfold Rdiv. rewrite Rmult_1_l.
    assert (0 < / d) by (apply Rinv_0_lt_compat; assumption).
    assert (0 < / v) by (apply Rinv_0_lt_compat; assumption).
    assert (0 < / (1 - v)) by (apply Rinv_0_lt_compat; lra).
    apply Rmult_lt_0_compat; [apply Rmult_lt_0_compat|]; assumption.
Qed.

Lemma logit_fwd_incr lower logdelta x1 x2 :
  lower < x1 -> x2 < lower + exp logdelta -> x1 < x2 ->
  logit_fwd lower logdelta x1 < logit_fwd lower logdelta x2.
Proof.
  intros H1 H2 H12. unfold logit_fwd. cbv zeta. set (d := exp logdelta) in *.
  assert (Hd : 0 < d) by apply exp_pos.
  replace (lower + d - lower) with d by ring.
  set (v1 := (x1 - lower) / d). set (v2 := (x2 - lower) / d).
  assert (Hv1 : 0 < v1) by (unfold v1; apply Rdiv_lt_0_compat; lra).
  assert (Hv2 : v2 < 1) by (unfold v2; apply div_lt_1; lra).
  assert (Hv : v1 < v2).
  { unfold v1, v2, Rdiv. apply Rmult_lt_compat_r; [apply Rinv_0_lt_compat; assumption | lra]. }
  assert (E1 : 1 / (1 - v1) - 1 = v1 / (1 - v1)) by (field; lra).
  assert (E2 : 1 / (1 - v2) - 1 = v2 / (1 - v2)) by (field; lra).
  rewrite E1, E2.
  apply ln_increasing; [apply Rdiv_lt_0_compat; lra|].
  assert (0 < / (1 - v1)) by (apply Rinv_0_lt_compat; lra).
  assert (/ (1 - v1) < / (1 - v2)) by (apply Rinv_lt_contravar; [nra | lra]).
  unfold Rdiv. nra.
Qed.

(* ------------------------------------------------------------------ *)
(* Log : increasing for a base > 1 (or the natural logarithm)           *)
Definition log_base_gt1 (base : option R) : Prop :=
  match base with None => True | Some b => 1 < b end.

Lemma log_basefactor_pos base : log_base_gt1 base -> 0 < log_basefactor base.
Proof.
  destruct base as [b|]; simpl; [|intros _; lra].
  intros Hb. rewrite <- ln_1. apply ln_increasing; lra.
Qed.

Lemma log_jac_derive mininu base nu x j :
  0 <= mininu -> log_base_ok base ->
  log_jac mininu (log_basefactor base) nu x = Some j ->
  is_derive (log_fwd (log_basefactor base) nu) x j /\ (log_base_gt1 base -> 0 < j).
Proof.
  intros Hm Hb. pose proof (log_basefactor_neq0 base Hb) as Hn.
  unfold log_jac. destruct (Rltb_cases mininu (x + nu)) as [[E H]|[E _]]; rewrite E; [|discriminate].
  intros Hj. inversion Hj as [Hj']. clear Hj. split.
  - unfold log_fwd. auto_derive.
    + lra.
    + field. repeat split; first [assumption | lra].
  - intros Hg. pose proof (log_basefactor_pos base Hg).
    unfold Rdiv. rewrite Rmult_1_l.
    apply Rmult_lt_0_compat; apply Rinv_0_lt_compat; lra.
Qed.

Lemma log_fwd_incr base nu x1 x2 :
  log_base_gt1 base -> 0 < x1 + nu -> x1 < x2 ->
  log_fwd (log_basefactor base) nu x1 < log_fwd (log_basefactor base) nu x2.
Proof.
  intros Hg H1 H12. pose proof (log_basefactor_pos base Hg).
  unfold log_fwd, Rdiv. apply Rmult_lt_compat_r; [apply Rinv_0_lt_compat; assumption|].
  apply ln_increasing; lra.
Qed.

(* ------------------------------------------------------------------ *)
(* BoxCox2 (monotonicity: bc2_fwd_incr in TransformProofs.v)            *)
Lemma bc2_jac_derive mininu nu lam x j :
  0 <= mininu -> bc2_jac mininu nu lam x = Some j ->
  is_derive (bc2_fwd nu lam) x j /\ 0 < j.
Proof.
  intros Hm. unfold bc2_jac, bc2_fwd.
  destruct (Rltb_cases EPS (Rabs lam)) as [[E H]|[E H]]; rewrite E;
    (destruct (Rltb_cases mininu (x + nu)) as [[E2 H2]|[E2 _]]; rewrite E2; [|discriminate]);
    intros Hj; inversion Hj as [Hj']; clear Hj.
  - assert (Hl : lam <> 0) by (eapply Rabs_gt_neq0; [apply EPS_pos | exact H]).
    split; [|apply Rpower_pos].
    apply (is_derive_ext (fun t => (Rpower (nu + 1 * t) lam - 1) / lam)).
    + intros t. replace (nu + 1 * t) with (t + nu) by ring. reflexivity.
    + replace (Rpower (x + nu) (lam - 1)) with (Rpower (nu + 1 * x) (lam - 1) * 1)
        by (replace (nu + 1 * x) with (x + nu) by ring; ring).
      apply pow_core_derive; [assumption | lra].
  - split.
    + auto_derive; [lra | field; lra].
    + unfold Rdiv. rewrite Rmult_1_l. apply Rinv_0_lt_compat. lra.
Qed.

(* ------------------------------------------------------------------ *)
(* BoxCox1lam / BoxCox1nu                                               *)
Lemma bc1lam_jac_derive mininu minilam nu lam x j :
  0 <= mininu -> bc1lam_params_ok mininu minilam nu lam ->
  bc1lam_jac mininu minilam nu lam x = Some j ->
  is_derive (bc1lam_fwd mininu minilam nu lam) x j /\ 0 < j.
Proof.
  intros Hm Hp. destruct (bc1lam_is_bc2 _ _ _ _ Hp) as (Ef & _ & Ej).
  rewrite Ej. intros Hj. destruct (bc2_jac_derive _ _ _ _ _ Hm Hj) as [Hd Hpos].
  split; [|assumption].
  apply (is_derive_ext (bc2_fwd nu lam)); [intros t; symmetry; apply Ef | assumption].
Qed.

Lemma bc1nu_jac_derive mininu minilam nu lam x j :
  0 <= mininu -> bc1nu_params_ok mininu minilam nu lam ->
  bc1nu_jac mininu minilam nu lam x = Some j ->
  is_derive (bc1nu_fwd mininu minilam nu lam) x j /\ 0 < j.
Proof.
  intros Hm Hp. destruct (bc1nu_is_bc2 _ _ _ _ Hp) as (Ef & _ & Ej).
  rewrite Ej. intros Hj. destruct (bc2_jac_derive _ _ _ _ _ Hm Hj) as [Hd Hpos].
  split; [|assumption].
  apply (is_derive_ext (bc2_fwd nu lam)); [intros t; symmetry; apply Ef | assumption].
Qed.

Lemma bc1lam_fwd_incr mininu minilam nu lam x1 x2 :
  bc1lam_params_ok mininu minilam nu lam -> 0 < x1 + nu -> x1 < x2 ->
  bc1lam_fwd mininu minilam nu lam x1 < bc1lam_fwd mininu minilam nu lam x2.
Proof.
  intros Hp H1 H12. destruct (bc1lam_is_bc2 _ _ _ _ Hp) as (Ef & _ & _).
  rewrite !Ef. apply bc2_fwd_incr; assumption.
Qed.
Lemma bc1nu_fwd_incr mininu minilam nu lam x1 x2 :
  bc1nu_params_ok mininu minilam nu lam -> 0 < x1 + nu -> x1 < x2 ->
  bc1nu_fwd mininu minilam nu lam x1 < bc1nu_fwd mininu minilam nu lam x2.
Proof.
  intros Hp H1 H12. destruct (bc1nu_is_bc2 _ _ _ _ Hp) as (Ef & _ & _).
  rewrite !Ef. apply bc2_fwd_incr; assumption.
Qed.

(* ------------------------------------------------------------------ *)
(* BoxCox2sym : away from 0 for the derivative; monotone on ALL reals    *)
Lemma bc2sym_jac_derive mininu minilam nu lam x j :
  0 <= mininu -> bc2sym_params_ok mininu minilam nu lam -> x <> 0 ->
  bc2sym_jac mininu minilam nu lam x = Some j ->
  is_derive (bc2sym_fwd mininu minilam nu lam) x j /\ 0 < j.
Proof.
  intros Hm Hp Hx0. destruct (bc2sym_is_core _ _ _ _ Hp) as (Ef & _ & Ej).
  rewrite Ej. intros Hj. set (y0 := bc2_fwd nu lam 0).
  destruct (bc2_jac_derive _ _ _ _ _ Hm Hj) as [Hd Hpos]. split; [|assumption].
  destruct (Rtotal_order x 0) as [Hx|[Hx|Hx]]; [|contradiction|].
  - (* x < 0 : forward t = - (bc2_fwd (-t) - y0) near x *)
    apply (is_derive_loc_lt _ (fun t => - (bc2_fwd nu lam (- t) - y0)) 0 x j Hx).
    + intros t Ht. rewrite Ef, (Rsign_neg t Ht), (Rabs_left t Ht). fold y0. ring.
    + rewrite (Rabs_left x Hx) in Hd. apply is_derive_reflect. exact Hd.
  - apply (is_derive_loc_gt _ (fun t => bc2_fwd nu lam t - y0) 0 x j Hx).
    + intros t Ht. rewrite Ef, (Rsign_pos t Ht), (Rabs_right t) by lra. fold y0. ring.
    + rewrite (Rabs_right x) in Hd by lra. apply is_derive_shift. exact Hd.
Qed.

Lemma bc2sym_fwd_incr mininu minilam nu lam x1 x2 :
  bc2sym_params_ok mininu minilam nu lam -> 0 < nu -> x1 < x2 ->
  bc2sym_fwd mininu minilam nu lam x1 < bc2sym_fwd mininu minilam nu lam x2.
Proof.
  intros Hp Hnu H12. destruct (bc2sym_is_core _ _ _ _ Hp) as (Ef & _ & _).
  rewrite !Ef. set (y0 := bc2_fwd nu lam 0).
  assert (Hpos : forall t, 0 < t -> Rsign t * (bc2_fwd nu lam (Rabs t) - y0) = bc2_fwd nu lam t - y0).
  { intros t Ht. rewrite (Rsign_pos t Ht), (Rabs_right t) by lra. ring. }
  assert (Hneg : forall t, t < 0 -> Rsign t * (bc2_fwd nu lam (Rabs t) - y0) = - (bc2_fwd nu lam (- t) - y0)).
  { intros t Ht. rewrite (Rsign_neg t Ht), (Rabs_left t Ht). ring. }
  assert (Hzero : Rsign 0 * (bc2_fwd nu lam (Rabs 0) - y0) = 0) by (rewrite Rsign_0; ring).
  assert (Hgt : forall t, 0 < t -> y0 < bc2_fwd nu lam t) by (intros; apply bc2_fwd_incr; lra).
  destruct (Rtotal_order x1 0) as [A|[A|A]]; destruct (Rtotal_order x2 0) as [B|[B|B]];
    try lra; subst;
    rewrite ?Hzero, ?(Hpos x1), ?(Hpos x2), ?(Hneg x1), ?(Hneg x2) by assumption.
  - assert (bc2_fwd nu lam (- x2) < bc2_fwd nu lam (- x1)) by (apply bc2_fwd_incr; lra). lra.
  - pose proof (Hgt (- x1) ltac:(lra)). lra.
  - pose proof (Hgt (- x1) ltac:(lra)). pose proof (Hgt x2 B). lra.
  - pose proof (Hgt x2 B). lra.
  - assert (bc2_fwd nu lam x1 < bc2_fwd nu lam x2) by (apply bc2_fwd_incr; lra). lra.
Qed.

(* ------------------------------------------------------------------ *)
(* YeoJohnson                                                           *)
Lemma yj_fwd_w_at_pos lam w : EPS <= w ->
  yj_fwd_w lam w = if negb (isclose lam 0) then (Rpower (w + 1) lam - 1) / lam else ln (w + 1).
Proof. intros H. unfold yj_fwd_w. rewrite (proj2 (Rleb_true EPS w) H). reflexivity. Qed.
Lemma yj_fwd_w_at_neg lam w : w < EPS ->
  yj_fwd_w lam w = if negb (isclose lam 2) then - (Rpower (- w + 1) (2 - lam) - 1) / (2 - lam)
                   else - ln (- w + 1).
Proof. intros H. unfold yj_fwd_w. rewrite (proj2 (Rleb_false EPS w) H). reflexivity. Qed.

Lemma yj_jac_derive nu scale lam x :
  yj_params_ok nu scale lam -> yj_w nu scale x <> EPS ->
  is_derive (yj_fwd nu scale lam) x (yj_jac nu scale lam x) /\ 0 < yj_jac nu scale lam x.
Proof.
  intros Hp Hne. pose proof (yj_scale_pos _ _ _ Hp) as Hs.
  pose proof EPS_pos as He. pose proof EPS_lt_1 as He1.
  set (a := (EPS - nu) / scale).
  assert (Ha : a * scale = EPS - nu) by (unfold a; field; lra).
  unfold yj_jac, yj_jac_w, yj_fwd. unfold yj_w in *.
  destruct (Rleb_cases EPS (nu + x * scale)) as [[E H]|[E H]]; rewrite E.
  - assert (Hx : a < x) by (apply (Rmult_lt_reg_r scale); [assumption | lra]).
    assert (Hloc : forall t, a < t -> EPS <= nu + t * scale).
    { intros t Ht. apply (Rmult_lt_compat_r scale) in Ht; [lra | assumption]. }
    destruct (isclose lam 0) eqn:Ec; simpl.
    + split.
      * apply (is_derive_loc_gt _ (fun t => ln (nu + t * scale + 1)) a x _ Hx).
        -- intros t Ht. unfold yj_w. rewrite yj_fwd_w_at_pos by (apply Hloc; assumption).
           rewrite Ec. reflexivity.
        -- auto_derive; [lra | field; lra].
      * apply Rmult_lt_0_compat; [|assumption].
        unfold Rdiv. rewrite Rmult_1_l. apply Rinv_0_lt_compat. lra.
    + assert (Hl : lam <> 0) by (apply not_isclose_neq; assumption).
      split; [|apply Rmult_lt_0_compat; [apply Rpower_pos | assumption]].
      apply (is_derive_loc_gt _ (fun t => (Rpower ((nu + 1) + scale * t) lam - 1) / lam) a x _ Hx).
      * intros t Ht. unfold yj_w. rewrite yj_fwd_w_at_pos by (apply Hloc; assumption).
        rewrite Ec. simpl. replace (nu + 1 + scale * t) with (nu + t * scale + 1) by ring. reflexivity.
      * replace (nu + x * scale + 1) with (nu + 1 + scale * x) by ring.
        apply pow_core_derive; [assumption | lra].
  - assert (Hx : x < a) by (apply (Rmult_lt_reg_r scale); [assumption | lra]).
    assert (Hloc : forall t, t < a -> nu + t * scale < EPS).
    { intros t Ht. apply (Rmult_lt_compat_r scale) in Ht; [lra | assumption]. }
    destruct (isclose lam 2) eqn:Ec; simpl.
    + split.
      * apply (is_derive_loc_lt _ (fun t => - ln (- (nu + t * scale) + 1)) a x _ Hx).
        -- intros t Ht. unfold yj_w. rewrite yj_fwd_w_at_neg by (apply Hloc; assumption).
           rewrite Ec. reflexivity.
        -- auto_derive; [lra | field; lra].
      * apply Rmult_lt_0_compat; [|assumption].
        unfold Rdiv. rewrite Rmult_1_l. apply Rinv_0_lt_compat. lra.
    + assert (Hl : lam <> 2) by (apply not_isclose_neq; assumption).
      assert (Hl2 : 2 - lam <> 0) by lra.
      split; [|apply Rmult_lt_0_compat; [apply Rpower_pos | assumption]].
      apply (is_derive_loc_lt _
               (fun t => -1 * ((Rpower ((1 - nu) + (- scale) * t) (2 - lam) - 1) / (2 - lam))) a x _ Hx).
      * intros t Ht. unfold yj_w. rewrite yj_fwd_w_at_neg by (apply Hloc; assumption).
        rewrite Ec. simpl.
        replace (1 - nu + - scale * t) with (- (nu + t * scale) + 1) by ring.
        unfold Rdiv. ring.
      * replace (Rpower (- (nu + x * scale) + 1) (1 - lam) * scale)
          with (-1 * (Rpower (1 - nu + - scale * x) (2 - lam - 1) * - scale)).
        -- apply is_derive_scal. apply pow_core_derive; [assumption | lra].
        -- replace (1 - nu + - scale * x) with (- (nu + x * scale) + 1) by ring.
           replace (2 - lam - 1) with (1 - lam) by ring. ring.
Qed.

Lemma yj_fwd_w_incr_pos lam w1 w2 :
  EPS <= w1 -> w1 < w2 -> yj_fwd_w lam w1 < yj_fwd_w lam w2.
Proof.
  intros H1 H12. pose proof EPS_pos.
  rewrite !yj_fwd_w_at_pos by lra.
  destruct (isclose lam 0) eqn:Ec; simpl.
  - apply ln_increasing; lra.
  - apply pow_core_incr; [apply not_isclose_neq; assumption | lra | lra].
Qed.

Lemma yj_fwd_w_incr_neg lam w1 w2 :
  w2 < EPS -> w1 < w2 -> yj_fwd_w lam w1 < yj_fwd_w lam w2.
Proof.
  intros H2 H12. pose proof EPS_lt_1.
  rewrite !yj_fwd_w_at_neg by lra.
  destruct (isclose lam 2) eqn:Ec; simpl.
  - assert (ln (- w2 + 1) < ln (- w1 + 1)) by (apply ln_increasing; lra). lra.
  - assert (Hl : 2 - lam <> 0) by (pose proof (not_isclose_neq _ _ Ec); lra).
    assert (Hc : (Rpower (- w2 + 1) (2 - lam) - 1) / (2 - lam)
                 < (Rpower (- w1 + 1) (2 - lam) - 1) / (2 - lam))
      by (apply pow_core_incr; [assumption | lra | lra]).
    unfold Rdiv in *. lra.
Qed.

Lemma yj_fwd_w_pos lam w : EPS <= w -> 0 < yj_fwd_w lam w.
Proof.
  intros H. pose proof EPS_pos. rewrite yj_fwd_w_at_pos by assumption.
  destruct (isclose lam 0) eqn:Ec; simpl.
  - rewrite <- ln_1. apply ln_increasing; lra.
  - assert (Hl : lam <> 0) by (apply not_isclose_neq; assumption).
    replace 0 with ((Rpower 1 lam - 1) / lam)
      by (rewrite Rpower_1_l; unfold Rdiv; ring).
    apply pow_core_incr; [assumption | lra | lra].
Qed.

(* strictly increasing inside each smooth branch, and across the switch for
   pairs with w1 <= 0 and EPS <= w2 (sign argument); the sliver 0 < w < EPS
   against the positive side is not claimed (DESIGN 5/C02 G) *)
Lemma yj_fwd_incr nu scale lam x1 x2 :
  yj_params_ok nu scale lam -> x1 < x2 ->
  (EPS <= yj_w nu scale x1 \/ yj_w nu scale x2 < EPS \/
   (yj_w nu scale x1 <= 0 /\ EPS <= yj_w nu scale x2)) ->
  yj_fwd nu scale lam x1 < yj_fwd nu scale lam x2.
Proof.
  intros Hp H12 Hc. pose proof (yj_scale_pos _ _ _ Hp) as Hs.
  assert (Hw : yj_w nu scale x1 < yj_w nu scale x2).
  { unfold yj_w. apply (Rmult_lt_compat_r scale) in H12; [lra | assumption]. }
  unfold yj_fwd. destruct Hc as [Hc|[Hc|[Hc1 Hc2]]].
  - apply yj_fwd_w_incr_pos; assumption.
  - apply yj_fwd_w_incr_neg; assumption.
  - pose proof (yj_fwd_w_nonpos lam _ Hc1). pose proof (yj_fwd_w_pos lam _ Hc2). lra.
Qed.

(* ------------------------------------------------------------------ *)
(* LogSinh                                                              *)
Lemma cosh_pos w : 0 < cosh w.
Proof. unfold cosh. pose proof (exp_pos w). pose proof (exp_pos (- w)). lra. Qed.

Lemma logsinh_guard_open loga logb xmax t :
  0 < xmax ->
  (logsinh_guard loga logb xmax t = true <->
   ((- exp loga) / exp logb + EPS) * xmax < t).
Proof.
  intros Hx. unfold logsinh_guard. cbv zeta. rewrite Rltb_true.
  set (c := - exp loga / exp logb + EPS). split; intros H.
  - apply (Rmult_lt_compat_r xmax) in H; [|assumption].
    replace (t / xmax * xmax) with t in H by (field; lra). exact H.
  - apply (Rmult_lt_reg_r xmax); [assumption|].
    replace (t / xmax * xmax) with t by (field; lra). exact H.
Qed.

Lemma logsinh_w_pos loga logb xmax x :
  0 < xmax -> logsinh_guard loga logb xmax x = true ->
  0 < exp loga + exp logb * (x / xmax).
Proof.
  intros Hx Hg. unfold logsinh_guard in Hg. cbv zeta in Hg. apply Rltb_true in Hg.
  set (a := exp loga) in *. set (b := exp logb) in *.
  assert (Ha : 0 < a) by apply exp_pos. assert (Hb : 0 < b) by apply exp_pos.
  pose proof EPS_pos.
  assert (H1 : b * (- a / b + EPS) < b * (x / xmax)) by (apply Rmult_lt_compat_l; assumption).
  replace (b * (- a / b + EPS)) with (- a + b * EPS) in H1 by (field; lra).
  assert (0 < b * EPS) by (apply Rmult_lt_0_compat; assumption). lra.
Qed.

Lemma logsinh_jac_derive loga logb xmax x j :
  logsinh_params_ok loga logb xmax -> logsinh_jac loga logb xmax x = Some j ->
  is_derive (fun t => oget (logsinh_fwd loga logb xmax t)) x j /\ 0 < j.
Proof.
  intros Hp. pose proof (logsinh_xmax_pos _ _ _ Hp) as Hx.
  unfold logsinh_jac. cbv zeta.
  destruct (Rltb (- exp loga / exp logb + EPS) (x / xmax)) eqn:Eg; [|discriminate].
  assert (Hg : logsinh_guard loga logb xmax x = true) by exact Eg.
  intros Hj. inversion Hj as [Hj']. clear Hj.
  pose proof (logsinh_w_pos _ _ _ _ Hx Hg) as Hw.
  set (a := exp loga) in *. set (b := exp logb) in *.
  assert (Ha : 0 < a) by apply exp_pos. assert (Hb : 0 < b) by apply exp_pos.
  set (w := a + b * (x / xmax)) in *.
  split.
  - apply (is_derive_loc_gt _
             (fun t => (a + b * (t / xmax) + ln ((1 - exp (-2 * (a + b * (t / xmax)))) / 2)) / b)
             ((- a / b + EPS) * xmax) x).
    + apply (logsinh_guard_open loga logb xmax x Hx). exact Hg.
    + intros t Ht. apply (logsinh_guard_open loga logb xmax t Hx) in Ht.
      unfold logsinh_guard in Ht. cbv zeta in Ht. unfold logsinh_fwd. cbv zeta.
      fold a b in Ht |- *. rewrite Ht. reflexivity.
    + assert (Hq : exp (-2 * w) < 1).
      { rewrite <- exp_0. apply exp_increasing. lra. }
      auto_derive.
      * change (x * / xmax) with (x / xmax). fold w. lra.
      * change (x * / xmax) with (x / xmax). fold w. unfold tanh, sinh, cosh.
        replace (-2 * w) with (- w + - w) by ring. rewrite exp_plus.
        assert (Hq2 : exp (- w) * exp (- w) < 1).
        { rewrite <- exp_plus. replace (- w + - w) with (-2 * w) by ring. exact Hq. }
        rewrite (exp_Ropp w) in *.
        set (p := exp w) in *. assert (Hp0 : 0 < p) by apply exp_pos.
        assert (Hp1 : 1 < p) by (unfold p; rewrite <- exp_0; apply exp_increasing; lra).
        field. repeat split; try lra; nra.
  - unfold Rdiv. rewrite !Rmult_1_l.
    apply Rmult_lt_0_compat; apply Rinv_0_lt_compat; [assumption|].
    unfold tanh. apply Rdiv_lt_0_compat; [apply sinh_pos; assumption | apply cosh_pos].
Qed.

Lemma logsinh_fwd_incr loga logb xmax x1 x2 :
  logsinh_params_ok loga logb xmax -> logsinh_guard loga logb xmax x1 = true -> x1 < x2 ->
  exists y1 y2, logsinh_fwd loga logb xmax x1 = Some y1 /\
                logsinh_fwd loga logb xmax x2 = Some y2 /\ y1 < y2.
Proof.
  intros Hp Hg1 H12. pose proof (logsinh_xmax_pos _ _ _ Hp) as Hx.
  assert (Hg2 : logsinh_guard loga logb xmax x2 = true).
  { apply (logsinh_guard_open _ _ _ _ Hx). apply (logsinh_guard_open _ _ _ _ Hx) in Hg1. lra. }
  pose proof (logsinh_w_pos _ _ _ _ Hx Hg1) as Hw1.
  pose proof (logsinh_w_pos _ _ _ _ Hx Hg2) as Hw2.
  unfold logsinh_fwd. cbv zeta. unfold logsinh_guard in Hg1, Hg2. cbv zeta in Hg1, Hg2.
  rewrite Hg1, Hg2. do 2 eexists. split; [reflexivity|]. split; [reflexivity|].
  set (a := exp loga) in *. set (b := exp logb) in *.
  assert (Hb : 0 < b) by apply exp_pos.
  rewrite !logsinh_core_fwd by assumption.
  unfold Rdiv. apply Rmult_lt_compat_r; [apply Rinv_0_lt_compat; assumption|].
  apply ln_increasing; [apply sinh_pos; assumption|]. apply sinh_lt.
  assert (x1 / xmax < x2 / xmax).
  { unfold Rdiv. apply Rmult_lt_compat_r; [apply Rinv_0_lt_compat; assumption | assumption]. }
  nra.
Qed.

(* ------------------------------------------------------------------ *)
(* Reciprocal                                                           *)
Lemma recip_jac_derive nu x j :
  recip_jac nu x = Some j ->
  is_derive (fun t => oget (recip_fwd nu t)) x j /\ 0 < j.
Proof.
  unfold recip_jac. destruct (Rltb_cases (- nu) x) as [[E H]|[E _]]; rewrite E; [|discriminate].
  intros Hj. inversion Hj as [Hj']. clear Hj. split.
  - apply (is_derive_loc_gt _ (fun t => - 1 / (nu + t)) (- nu) x _ H).
    + intros t Ht. unfold recip_fwd. rewrite (proj2 (Rltb_true _ _) Ht). reflexivity.
    + auto_derive; [lra | field; lra].
  - unfold Rdiv. rewrite Rmult_1_l. apply Rinv_0_lt_compat.
    simpl. rewrite Rmult_1_r. apply Rmult_lt_0_compat; lra.
Qed.

Lemma recip_fwd_incr nu x1 x2 :
  - nu < x1 -> x1 < x2 ->
  exists y1 y2, recip_fwd nu x1 = Some y1 /\ recip_fwd nu x2 = Some y2 /\ y1 < y2.
Proof.
  intros H1 H12. unfold recip_fwd.
  rewrite (proj2 (Rltb_true (- nu) x1)) by assumption.
  rewrite (proj2 (Rltb_true (- nu) x2)) by lra.
  do 2 eexists. split; [reflexivity|]. split; [reflexivity|].
  assert (/ (nu + x2) < / (nu + x1)) by (apply Rinv_lt_contravar; [nra | lra]).
  unfold Rdiv. lra.
Qed.

(* ------------------------------------------------------------------ *)
(* Sinh                                                                 *)
Lemma sinh_jac_derive nu scale x :
  sinh_params_ok nu scale ->
  is_derive (sinh_fwd nu scale) x (sinh_jac nu scale x) /\ 0 < sinh_jac nu scale x.
Proof.
  intros Hp. pose proof (sinh_scale_pos _ _ Hp) as Hs.
  unfold sinh_jac, sinh_fwd. cbv zeta. set (u := (x - nu) * scale).
  assert (Hq : 0 < sqrt (1 + u * u)) by (apply sqrt_lt_R0; nra).
  split.
  - assert (D1 : is_derive arcsinh u (/ sqrt (u ^ 2 + 1)))
      by (apply is_derive_Reals, derivable_pt_lim_arcsinh).
    assert (D2 : is_derive (fun t : R => (t - nu) * scale) x scale)
      by (auto_derive; [exact I | ring]).
    pose proof (is_derive_comp arcsinh (fun t => (t - nu) * scale) x _ _ D1 D2) as D3.
    replace (scale / sqrt (1 + u * u)) with (scal scale (/ sqrt (u ^ 2 + 1))); [exact D3|].
    change (scal scale (/ sqrt (u ^ 2 + 1))) with (scale * / sqrt (u ^ 2 + 1)).
    replace (u ^ 2 + 1) with (1 + u * u) by ring. reflexivity.
  - apply Rdiv_lt_0_compat; assumption.
Qed.

Lemma sinh_fwd_incr nu scale x1 x2 :
  sinh_params_ok nu scale -> x1 < x2 -> sinh_fwd nu scale x1 < sinh_fwd nu scale x2.
Proof.
  intros Hp H12. pose proof (sinh_scale_pos _ _ Hp) as Hs.
  unfold sinh_fwd. apply arcsinh_lt. apply Rmult_lt_compat_r; lra.
Qed.

(* ------------------------------------------------------------------ *)
(* Manly (repaired code)                                                *)
Lemma manly_jac_derive lam xmax x :
  manly_params_ok lam xmax ->
  is_derive (manly_fwd lam xmax) x (manly_jac lam xmax x) /\ 0 < manly_jac lam xmax x.
Proof.
  intros Hp. pose proof (manly_xmax_pos _ _ Hp) as Hx.
  unfold manly_jac, manly_fwd. cbv zeta.
  destruct (Rltb_cases EPS (Rabs lam)) as [[E H]|[E H]]; rewrite E.
  - assert (Hl : lam <> 0) by (eapply Rabs_gt_neq0; [apply EPS_pos | exact H]).
    split.
    + auto_derive; [exact I | unfold Rdiv; field; split; lra].
    + apply Rdiv_lt_0_compat; [apply exp_pos | assumption].
  - split.
    + auto_derive; [first [exact I | lra] | unfold Rdiv; field; lra].
    + apply Rdiv_lt_0_compat; lra.
Qed.

Lemma manly_fwd_incr lam xmax x1 x2 :
  manly_params_ok lam xmax -> x1 < x2 -> manly_fwd lam xmax x1 < manly_fwd lam xmax x2.
Proof.
  intros Hp H12. pose proof (manly_xmax_pos _ _ Hp) as Hx.
  assert (Hu : x1 / xmax < x2 / xmax).
  { unfold Rdiv. apply Rmult_lt_compat_r; [apply Rinv_0_lt_compat; assumption | assumption]. }
  unfold manly_fwd. cbv zeta.
  destruct (Rltb_cases EPS (Rabs lam)) as [[E H]|[E H]]; rewrite E; [|assumption].
  assert (Hl : lam <> 0) by (eapply Rabs_gt_neq0; [apply EPS_pos | exact H]).
  destruct (Rlt_dec 0 lam) as [Hp0|Hn0].
  - assert (exp (lam * (x1 / xmax)) < exp (lam * (x2 / xmax))) by (apply exp_increasing; nra).
    unfold Rdiv at 1 3. apply Rmult_lt_compat_r; [apply Rinv_0_lt_compat; lra | lra].
  - assert (Hneg : lam < 0) by lra.
    assert (exp (lam * (x2 / xmax)) < exp (lam * (x1 / xmax))) by (apply exp_increasing; nra).
    assert (/ lam < 0) by (apply Rinv_lt_0_compat; lra).
    unfold Rdiv at 1 3. nra.
Qed.

(* ------------------------------------------------------------------ *)
(* Softmax : positivity for every dimension; determinant of the matrix  *)
(* of partial derivatives for dimension 1 and 2                         *)
Lemma rprod_pos x : row_pos x -> 0 < rprod x.
Proof.
  unfold row_pos, rprod. induction 1; simpl; [lra|].
  apply Rmult_lt_0_compat; assumption.
Qed.

Lemma softmax_jac_row_pos x : row_pos x -> rsum x < 1 -> 0 < softmax_jac_row x.
Proof.
  intros Hp Hs. unfold softmax_jac_row. cbv zeta.
  replace (1 + rsum x / (1 - rsum x)) with (/ (1 - rsum x)) by (field; lra).
  apply Rdiv_lt_0_compat; [apply Rinv_0_lt_compat; lra | apply rprod_pos; assumption].
Qed.

Lemma softmax_jac_pos xs js :
  softmax_dom xs -> softmax_jac xs = Some js -> List.Forall (fun j => 0 < j) js.
Proof.
  intros Hd. unfold softmax_jac. rewrite (softmax_dom_ok xs Hd).
  intros Hj. inversion Hj. clear Hj. rewrite Forall_forall. intros j Hin.
  apply in_map_iff in Hin. destruct Hin as (x & <- & Hx).
  unfold softmax_dom in Hd. rewrite Forall_forall in Hd. destruct (Hd x Hx) as [Hp Hs].
  apply softmax_jac_row_pos; [assumption|]. pose proof EPS_pos. lra.
Qed.

Lemma softmax_jac_det_1 x1 :
  0 < x1 < 1 ->
  is_derive (fun t => nth 0 (softmax_fwd_row [t]) 0) x1 (softmax_jac_row [x1]).
Proof.
  intros [H0 H1]. unfold softmax_fwd_row, softmax_jac_row, rsum, rprod. simpl.
  auto_derive.
  - repeat split; try lra.
    apply Rdiv_lt_0_compat; lra.
  - field. repeat split; lra.
Qed.

(* dimension 2: the four partial derivatives and their determinant *)
Lemma softmax_jac_det_2 x1 x2 :
  0 < x1 -> 0 < x2 -> x1 + x2 < 1 ->
  exists d11 d12 d21 d22,
    is_derive (fun t => nth 0 (softmax_fwd_row [t; x2]) 0) x1 d11 /\
    is_derive (fun t => nth 0 (softmax_fwd_row [x1; t]) 0) x2 d12 /\
    is_derive (fun t => nth 1 (softmax_fwd_row [t; x2]) 0) x1 d21 /\
    is_derive (fun t => nth 1 (softmax_fwd_row [x1; t]) 0) x2 d22 /\
    d11 * d22 - d12 * d21 = softmax_jac_row [x1; x2].
Proof.
  intros H1 H2 Hs. set (q := 1 / (1 - (x1 + x2))).
  exists (1 / x1 + q), q, q, (1 / x2 + q).
  assert (Hq : 0 < 1 - (x1 + x2)) by lra.
  unfold softmax_fwd_row, softmax_jac_row, rsum, rprod. simpl.
  split; [|split; [|split; [|split]]].
  - auto_derive; [repeat split; try lra; apply Rdiv_lt_0_compat; lra | unfold q; field; repeat split; lra].
  - auto_derive; [repeat split; try lra; apply Rdiv_lt_0_compat; lra | unfold q; field; repeat split; lra].
  - auto_derive; [repeat split; try lra; apply Rdiv_lt_0_compat; lra | unfold q; field; repeat split; lra].
  - auto_derive; [repeat split; try lra; apply Rdiv_lt_0_compat; lra | unfold q; field; repeat split; lra].
  - unfold q. field. repeat split; lra.
Qed.

(* dimension 3: the nine partial derivatives and the 3 x 3 determinant *)
Lemma softmax_jac_det_3 x1 x2 x3 :
  0 < x1 -> 0 < x2 -> 0 < x3 -> x1 + x2 + x3 < 1 ->
  exists d11 d12 d13 d21 d22 d23 d31 d32 d33 : R,
    is_derive (fun t => nth 0 (softmax_fwd_row [t; x2; x3]) 0) x1 d11 /\
    is_derive (fun t => nth 0 (softmax_fwd_row [x1; t; x3]) 0) x2 d12 /\
    is_derive (fun t => nth 0 (softmax_fwd_row [x1; x2; t]) 0) x3 d13 /\
    is_derive (fun t => nth 1 (softmax_fwd_row [t; x2; x3]) 0) x1 d21 /\
    is_derive (fun t => nth 1 (softmax_fwd_row [x1; t; x3]) 0) x2 d22 /\
    is_derive (fun t => nth 1 (softmax_fwd_row [x1; x2; t]) 0) x3 d23 /\
    is_derive (fun t => nth 2 (softmax_fwd_row [t; x2; x3]) 0) x1 d31 /\
    is_derive (fun t => nth 2 (softmax_fwd_row [x1; t; x3]) 0) x2 d32 /\
    is_derive (fun t => nth 2 (softmax_fwd_row [x1; x2; t]) 0) x3 d33 /\
    d11 * (d22 * d33 - d23 * d32) - d12 * (d21 * d33 - d23 * d31)
      + d13 * (d21 * d32 - d22 * d31) = softmax_jac_row [x1; x2; x3].
Proof.
  intros H1 H2 H3 Hs. set (q := 1 / (1 - (x1 + (x2 + x3)))).
  exists (1 / x1 + q), q, q, q, (1 / x2 + q), q, q, q, (1 / x3 + q).
  assert (Hq : 0 < 1 - (x1 + (x2 + x3))) by lra.
  unfold softmax_fwd_row, softmax_jac_row, rsum, rprod. simpl.
  split; [|split; [|split; [|split; [|split; [|split; [|split; [|split; [|split]]]]]]]];
    try (auto_derive; [repeat split; try lra; apply Rdiv_lt_0_compat; lra
                      | unfold q; field; repeat split; lra]).
  unfold q. field. repeat split; lra.
Qed.

(* ------------------------------------------------------------------ *)
(* non-vacuity of the hypotheses (instances at branch values)           *)
Lemma ex2_logit :
  (exists j, logit_jac 0 0 (1 / 2) = Some j) /\
  (0 < 1 / 4 /\ 1 / 2 < 0 + exp 0 /\ (1 / 4 : R) < 1 / 2).
Proof.
  pose proof EPS_pos. assert (EPS < 1 / 4) by (unfold EPS, TR_EPS; lra).
  split; [|rewrite exp_0; lra].
  unfold logit_jac. cbv zeta. rewrite exp_0.
  rewrite (proj2 (Rltb_true (0 + EPS) (1 / 2))) by lra.
  rewrite (proj2 (Rltb_true (1 / 2) (0 + 1 - EPS))) by lra.
  simpl. eexists; reflexivity.
Qed.

Lemma ex2_log :
  0 <= EPS /\ log_base_ok (Some 10) /\ log_base_gt1 (Some 10) /\ log_base_gt1 None /\
  (exists j, log_jac EPS (log_basefactor (Some 10)) EPS 1 = Some j) /\ 0 < 1 + EPS.
Proof.
  pose proof EPS_pos. pose proof EPS_lt_1.
  split; [lra|]. split; [simpl; lra|]. split; [simpl; lra|]. split; [exact I|]. split; [|lra].
  unfold log_jac. rewrite (proj2 (Rltb_true EPS (1 + EPS))) by lra. eexists; reflexivity.
Qed.

Lemma ex2_bc2 :
  (exists j, bc2_jac EPS EPS 0 1 = Some j) /\ (exists j, bc2_jac EPS EPS 1 1 = Some j) /\
  (exists j, bc1lam_jac EPS 0 1 0 1 = Some j) /\ (exists j, bc1nu_jac EPS 0 1 0 1 = Some j) /\
  (exists j, bc2sym_jac EPS 0 1 0 (-1) = Some j) /\ (-1 <> 0).
Proof.
  pose proof EPS_pos. pose proof EPS_lt_1.
  assert (A : forall nu lam x, EPS < x + nu -> exists j, bc2_jac EPS nu lam x = Some j).
  { intros nu lam x Hx. unfold bc2_jac.
    rewrite (proj2 (Rltb_true EPS (x + nu))) by assumption.
    destruct (Rltb EPS (Rabs lam)); eexists; reflexivity. }
  destruct ex_bc1 as (P1 & P2 & P3 & _).
  split; [apply A; lra|]. split; [apply A; lra|].
  split; [destruct (bc1lam_is_bc2 _ _ _ _ P1) as (_ & _ & Ej); rewrite Ej; apply A; lra|].
  split; [destruct (bc1nu_is_bc2 _ _ _ _ P2) as (_ & _ & Ej); rewrite Ej; apply A; lra|].
  split; [|lra].
  destruct (bc2sym_is_core _ _ _ _ P3) as (_ & _ & Ej). rewrite Ej. apply A.
  rewrite Rabs_left by lra. lra.
Qed.

Lemma ex2_yj :
  yj_w 0 1 (-1) <> EPS /\ yj_w 0 1 1 <> EPS /\
  (yj_w 0 1 (-1) <= 0 /\ EPS <= yj_w 0 1 1) /\ (-1 < 1).
Proof. pose proof EPS_pos. pose proof EPS_lt_1. unfold yj_w. repeat split; lra. Qed.

Lemma ex2_logsinh : exists j, logsinh_jac (-1) 0 1 1 = Some j.
Proof.
  destruct ex_logsinh as [_ Hg]. unfold logsinh_guard in Hg. cbv zeta in Hg.
  unfold logsinh_jac. cbv zeta. rewrite Hg. eexists; reflexivity.
Qed.

Lemma ex2_recip : (exists j, recip_jac 2 (1 / 2) = Some j) /\ - 2 < 1 / 2 /\ (1 / 2 : R) < 1.
Proof.
  split; [|lra]. unfold recip_jac.
  match goal with |- context [Rltb ?a ?b] => rewrite (proj2 (Rltb_true a b)) by lra end.
  eexists; reflexivity.
Qed.

Lemma ex2_softmax :
  (exists js, softmax_jac [[1/4; 1/4]; [1/2]] = Some js) /\
  (0 < 1 / 4 < 1) /\ (0 < 1 / 4 /\ 0 < 1 / 4 /\ 1 / 4 + 1 / 4 < 1) /\
  (0 < 1 / 4 /\ 1 / 4 + 1 / 4 + 1 / 4 < 1).
Proof.
  split; [|lra]. unfold softmax_jac. rewrite (softmax_dom_ok _ ex_softmax). eexists; reflexivity.
Qed.
