(* Proofs about the wrapper dutils.var2h as modelled in Model/Var2h.v:
   conversion of the index to epoch seconds for every storage unit and zone,
   origin, number of periods, and the transfer of the kernel theorems. *)
From Coq Require Import ZArith Bool List Reals Lia.
From Hy Require Import Base.Num Gen.ConstsC14 Model.Var2h Proofs.Var2hProofs.
Import ListNotations.
Open Scope Z_scope.

Lemma unit_scale_pos u : 0 < unit_scale u.
Proof.
  unfold unit_scale.
  destruct (u =? 0); [lia|]. destruct (u =? 1); [lia|]. destruct (u =? 2); lia.
Qed.

(* the raw integers of an index of unit u whose zone is off seconds ahead of
   UTC and whose wall clock reads [wall] (integer seconds) *)
Definition encode_index (u off : Z) (wall : list Z) : list Z :=
  map (fun w => (w - off) * unit_scale u) wall.

(* * the repaired conversion returns the wall-clock seconds for every unit
   and every zone *)
Lemma index_seconds_encode u off wall :
  index_seconds u off (encode_index u off wall) = wall.
Proof.
  unfold index_seconds, encode_index. rewrite map_map.
  rewrite <- (map_id wall) at 2. apply map_ext. intros w.
  replace ((w - off) * unit_scale u + off * unit_scale u) with (w * unit_scale u) by ring.
  apply Z.div_mul. pose proof (unit_scale_pos u). lia.
Qed.

(* the conversion of the pinned commit is wrong for every unit but ns:
   one hour after the epoch stored in microseconds reads 3 s *)
Lemma index_seconds_old_refuted :
  exists u wall, index_seconds_old u 0 (encode_index u 0 wall) <> wall.
Proof. exists 2, [3600]. vm_compute. discriminate. Qed.

(* ... and right for ns *)
Lemma index_seconds_old_ns off wall :
  index_seconds_old 3 off (encode_index 3 off wall) = wall.
Proof.
  unfold index_seconds_old, encode_index. rewrite map_map.
  rewrite <- (map_id wall) at 2. apply map_ext. intros w.
  change (unit_scale 3) with 1000000000.
  replace ((w - off) * 1000000000 + off * 1000000000) with (w * 1000000000) by ring.
  apply Z.quot_mul. lia.
Qed.

(* * the result of the wrapper depends on the wall clock only, not on the
   storage unit nor on the zone of the index (any arithmetic instance) *)
Lemma py_unit_zone_independent {T} (N : NumOps T) ie oe ec u off u' off' wall vals P mg rain :
  py_var2h N ie oe ec index_seconds u off (encode_index u off wall) vals P mg rain =
  py_var2h N ie oe ec index_seconds u' off' (encode_index u' off' wall) vals P mg rain.
Proof. unfold py_var2h. now rewrite !index_seconds_encode. Qed.

(* the origin is the first whole hour strictly after the first stamp *)
Lemma hour_origin_spec t0 :
  t0 < hour_origin t0 <= t0 + 3600 /\ hour_origin t0 mod 3600 = 0.
Proof.
  unfold hour_origin, VAR2H_PY_ORIGIN_SHIFT.
  pose proof (Z.div_mod t0 3600 ltac:(lia)). pose proof (Z.mod_pos_bound t0 3600 ltac:(lia)).
  split; [lia|].
  replace (t0 / 3600 * 3600 + 3600) with ((t0 / 3600 + 1) * 3600) by ring.
  apply Z.mod_mul. lia.
Qed.

Lemma py_periods_are_c_periods P : In P VAR2H_PY_PERIODS -> In P VAR2H_C_PERIODS.
Proof. unfold VAR2H_PY_PERIODS, VAR2H_C_PERIODS. simpl. tauto. Qed.

Lemma last_as_nth (a : Z) l d d' : last (a :: l) d = nth (length l) (a :: l) d'.
Proof.
  revert a; induction l as [|b l IH]; intros a; [reflexivity|].
  change (last (a :: b :: l) d) with (last (b :: l) d). rewrite IH. reflexivity.
Qed.

Lemma existsb_eqb_in P l : In P l -> existsb (Z.eqb P) l = true.
Proof. intros H. apply existsb_exists. exists P. split; [auto | apply Z.eqb_refl]. Qed.

Section WrapperRN.
Variable ec : bool.
Variables (u off t0 : Z) (rest : list Z) (vals : list (option R)).
Variables (P maxgap : Z) (rain : bool).

Local Notation wall := (t0 :: rest).
Local Notation tend := (last wall t0).
Local Notation hstart := (hour_origin t0).
Local Notation rf := (if rain then 1 else 0).

Hypothesis Hsorted : sorted_secs wall.
Hypothesis HP : In P VAR2H_PY_PERIODS.
Hypothesis Hgap : VAR2H_PY_MAXGAP_MIN <= maxgap.
(* a stamp later than the origin (otherwise the kernel is outside its
   memory-safety contract, property C05) *)
Hypothesis Hend : hstart < tend.

Lemma wrapper_pre : var2h_pre P rf hstart wall.
Proof.
  unfold var2h_pre. split; [exact Hsorted|]. split; [destruct rain; lia|].
  split; [now apply py_periods_are_c_periods|]. split.
  - unfold tsec; simpl. pose proof (hour_origin_spec t0). lia.
  - exists (length rest). split; [simpl; lia|].
    unfold tsec. rewrite <- (last_as_nth t0 rest t0 0). exact Hend.
Qed.

Lemma wrapper_P_pos : 0 < P.
Proof. apply periods_pos, py_periods_are_c_periods, HP. Qed.

(* * the wrapper returns, for every unit and zone: origin = first whole hour
   after the first stamp, floor((tend-t0)/P) values, computed by the kernel
   on the wall-clock seconds; the last value is missing *)
Lemma py_var2h_ok :
  exists out,
    py_var2h_RN ec index_seconds u off (encode_index u off wall) vals P maxgap rain
      = PyOk hstart out /\
    Z.of_nat (length out) = (tend - t0) / P /\
    c_var2h_RN ec P rf maxgap hstart wall vals (repeat None (length out)) = VOk out /\
    (forall d, nth (length out - 1) out d = None \/ out = []).
Proof.
  pose proof wrapper_P_pos as HPp. pose proof (hour_origin_spec t0) as [Ho _].
  assert (Hq : Z.quot (tend - t0) P = (tend - t0) / P) by (apply Z.quot_div_nonneg; lia).
  assert (Hnn : 0 <= (tend - t0) / P) by (apply Z.div_pos; lia).
  set (nvalh := Z.to_nat ((tend - t0) / P)).
  destruct (kernel_ok ec P rf maxgap hstart wall vals (repeat None nvalh) wrapper_pre)
    as (out & Hrun & Hlen & Hlast).
  rewrite repeat_length in Hlen.
  exists out. split; [|split; [|split]].
  - unfold py_var2h_RN, py_var2h. rewrite index_seconds_encode.
    rewrite (existsb_eqb_in P _ HP). cbn [negb].
    destruct (Z.ltb_spec maxgap VAR2H_PY_MAXGAP_MIN); [lia|].
    rewrite Hq. destruct (Z.ltb_spec ((tend - t0) / P) 0); [lia|].
    fold nvalh. change (nnan RN) with (@None R).
    unfold c_var2h_RN in Hrun. now rewrite Hrun.
  - rewrite Hlen. unfold nvalh. lia.
  - rewrite Hlen. exact Hrun.
  - intros d. destruct nvalh as [|m] eqn:E.
    + right. destruct out; [reflexivity|simpl in Hlen; lia].
    + left. rewrite Hlen. rewrite repeat_length in Hlast. rewrite Hlast.
      rewrite (nth_indep _ d None) by (rewrite repeat_length; lia). apply nth_repeat.
Qed.

(* hourly output: every computed period lies inside the data, so the end
   test of the repaired kernel never fires through the wrapper *)
Lemma hourly_periods_covered (out : list (option R)) i : P = 3600 ->
  Z.of_nat (length out) = (tend - t0) / P ->
  (i < length out - 1)%nat -> pend P hstart (Z.of_nat i) <= tend.
Proof.
  intros -> Hlen Hi. pose proof (hour_origin_spec t0) as [Ho _].
  unfold pend. pose proof (Z.mul_div_le (tend - t0) 3600 ltac:(lia)). nia.
Qed.

End WrapperRN.

(* rejections of the wrapper (any instance, any conversion) *)
Lemma py_reject_period {T} (N : NumOps T) ie oe ec conv u off raw vals P mg rain :
  ~ In P VAR2H_PY_PERIODS -> py_var2h N ie oe ec conv u off raw vals P mg rain = PyErr.
Proof.
  intros H. unfold py_var2h.
  destruct (existsb (Z.eqb P) VAR2H_PY_PERIODS) eqn:E; [exfalso|reflexivity].
  apply existsb_exists in E as (x & Hx & Ex). apply Z.eqb_eq in Ex. now subst.
Qed.

Lemma py_reject_maxgap {T} (N : NumOps T) ie oe ec conv u off raw vals P mg rain :
  mg < VAR2H_PY_MAXGAP_MIN -> py_var2h N ie oe ec conv u off raw vals P mg rain = PyErr.
Proof.
  intros H. unfold py_var2h.
  destruct (negb (existsb (Z.eqb P) VAR2H_PY_PERIODS)); [reflexivity|].
  destruct (Z.ltb_spec mg VAR2H_PY_MAXGAP_MIN); [reflexivity|lia].
Qed.

(* the hypotheses of [py_var2h_ok] are satisfiable (the series of
   Var2hProofs.fixed_kernel_example, stored in any unit and zone) *)
Lemma wrapper_example :
  sorted_secs w_sec /\ In 1800 VAR2H_PY_PERIODS /\ VAR2H_PY_MAXGAP_MIN <= 432000 /\
  hour_origin 0 < last w_sec 0 /\ hour_origin 0 = 3600.
Proof.
  split; [apply w_pre|]. split; [unfold VAR2H_PY_PERIODS; simpl; auto|].
  split; [unfold VAR2H_PY_MAXGAP_MIN; lia|]. split; vm_compute; reflexivity.
Qed.
