(* Overflow-checked refinement of c_var2h: the theorems of Proofs/RefineVar2h.v about
   the CHECKED translation (Gen/KernelsAstChk.v: program_chk), in which every signed
   integer +, -, *, ++, -- of the C text is wrapped in [IChk W32] (C int) or [IChk W64]
   (long long).  The conclusions are those of RefineVar2h.v (same model, same
   [var2h_args], same [no_underflow]); the additional hypotheses are size hypotheses
   in terms of the C types:

     zlen sec   <= INT_MAX            nvalvar is a C int      (varindex+1, varindex++)
     zlen hinit <= INT_MAX            nvalh is a C int        (nvalh-1, i++)
     LLONG_MIN <= hstart <= LLONG_MAX hstartsec is a C long long
     hstart + (nvalh-2)*P <= LLONG_MAX   the start of the LAST period,
                                      hstartsec + (long long)i*nbsec_per_period,
                                      computed in long long (only for P = 1800, 3600 and
                                      nvalh >= 2: otherwise the expression is not evaluated)

   Nothing is assumed about  nvalh*P <= INT_MAX : the product is a 64-bit product in
   the (repaired) C text, and i*P <= INT_MAX*3600 < 2^43 always fits.

   Main results (end of the file):
     chk_refine_c_var2h        generic over (N : NumOps T) (X : NumLit T)
     chk_refine_c_var2h_RN     reals with a missing value
     start_bound_realistic     |hstart| <= 2^62 implies the 64-bit hypothesis for every int nvalh
     overflow_c_var2h_start    the 64-bit hypothesis is not vacuous: hstartsec near LLONG_MAX

   The definitions that do not depend on the program (states, invariants,
   postconditions, [no_underflow], facts about the model) are those of
   Proofs/RefineVar2h.v, imported; the loop lemmas are re-proved for the checked
   statements. *)
From Coq Require Import ZArith Bool List String Lia.
From Coq Require Import PrimFloat Reals Lra.
From Hy Require Import Base.Num Base.MiniC Gen.ConstsC14 Gen.KernelsAstChk Model.Var2h.
From Hy Require Import Proofs.RefineVar2h.
Import ListNotations.
Open Scope string_scope.
Open Scope list_scope.
Open Scope Z_scope.

(* ================================================================== *)
(* The overflow tests                                                   *)
(* ================================================================== *)

Lemma in_width_32 v : in_width W32 v = true <-> -2147483648 <= v <= 2147483647.
Proof. unfold in_width. rewrite andb_true_iff, !Z.leb_le. reflexivity. Qed.

Lemma in_width_64 v :
  in_width W64 v = true <-> -9223372036854775808 <= v <= 9223372036854775807.
Proof. unfold in_width. rewrite andb_true_iff, !Z.leb_le. reflexivity. Qed.

(* keep the tests folded under cbn; [chk] discharges those that follow from the context *)
#[local] Arguments in_width : simpl never.

Ltac chk1 :=
  match goal with
  | |- context[in_width W32 ?e] =>
      replace (in_width W32 e) with true by (symmetry; apply in_width_32; lia)
  | |- context[in_width W64 ?e] =>
      replace (in_width W64 e) with true by (symmetry; apply in_width_64; lia)
  end.
Ltac chk := repeat chk1.
(* run the interpreter through the overflow tests *)
Ltac run := cbn; repeat (progress chk; cbn).

Ltac step_with tac := erewrite exec_seq_ok; [ | tac ]; norm_state.
Ltac step := step_with ltac:(run; reflexivity).

Section Chk.
Context {T : Type} (N : NumOps T) (X : NumLit T).

(* the data that no statement of the kernel modifies *)
Variables (P rain disp maxgap hstart : Z) (sec : list Z) (vals : list T) (nvalh : Z).

Local Notation lit_eps := (RefineVar2h.lit_eps X).
Local Notation inv_eps := (RefineVar2h.inv_eps N X).
Local Notation vst := (RefineVar2h.vst N X P rain disp maxgap hstart sec vals nvalh).
Local Notation vst0 := (RefineVar2h.vst0 N X P rain disp maxgap hstart sec vals nvalh).
Local Notation vst1 := (RefineVar2h.vst1 N X P rain disp maxgap hstart sec vals nvalh).
Local Notation nan_fill := (RefineVar2h.nan_fill N).
Local Notation arrays_of := (RefineVar2h.arrays_of sec vals).
Local Notation wpost := (RefineVar2h.wpost N X P rain disp maxgap hstart sec vals nvalh).
Local Notation pwalk := (RefineVar2h.pwalk N X P rain maxgap hstart sec vals).
Local Notation pbpost := (RefineVar2h.pbpost N X P rain disp maxgap hstart sec vals nvalh).
Local Notation no_underflow := (RefineVar2h.no_underflow N X P rain maxgap hstart sec vals).
Local Notation ppost := (RefineVar2h.ppost N X P rain disp maxgap hstart sec vals nvalh).
Local Notation fpost := (RefineVar2h.fpost N X P rain maxgap hstart sec vals).
Local Notation st_init := (RefineVar2h.st_init P rain disp maxgap hstart sec vals nvalh).
Local Notation mwalk := (walk N inv_eps lit_eps true rain maxgap sec vals).
Local Notation mperiods := (periods N inv_eps lit_eps true P rain maxgap hstart sec vals).
Local Notation mvar2h := (c_var2h N inv_eps lit_eps true P rain maxgap hstart sec vals).

(* ---- loop 1: while(varindex<nvalvar && varsec[varindex]<=hstartsec) varindex++ ---- *)
(* varindex++ : varindex+1 <= nvalvar <= INT_MAX *)

Lemma pos_loop_c (callf : callee T) n hvs :
  Z.of_nat (List.length sec) <= 2147483647 ->
  (List.length sec < n)%nat ->
  loop n
    (cond_of N X
       (IAnd (ICmp CLt (IVar "varindex") (IVar "nvalvar"))
          (ICmp CLe (IArr "varsec" (IVar "varindex")) (IVar "hstartsec"))))
    (exec N X callf n (SSetI "varindex" (IChk W32 (IBin IAdd (IVar "varindex") (IConst 1)))))
    (vst0 0 hvs)
  = Ok (ONormal, vst0 (Z.of_nat (pcount sec hstart)) hvs).
Proof.
  intros H32 Hn.
  apply (loop_rule_eq
           (fun k st => (k <= pcount sec hstart)%nat /\ st = vst0 (Z.of_nat k) hvs)
           _ (List.length sec)).
  - intros k st (Hk & ->).
    pose proof (pcount_le sec hstart) as Hle.
    split; [lia|].
    unfold RefineVar2h.vst0, RefineVar2h.vst. cbn. rewrite zlen_eq.
    destruct (Z.ltb_spec (Z.of_nat k) (Z.of_nat (List.length sec))) as [Hlt|Hge]; cbn.
    + rewrite (zget_nth sec k 0) by lia. cbn. rewrite !truth_b2z.
      destruct (Z.leb_spec (nth k sec 0) hstart) as [Hv|Hv]; cbn.
      * chk. cbn.
        destruct (Nat.eq_dec k (pcount sec hstart)) as [E|E].
        { exfalso. pose proof (pcount_at sec hstart). subst k. lia. }
        split; [lia|]. norm_state. unfold RefineVar2h.vst0, RefineVar2h.vst. rewrite ?zlen_eq.
        replace (Z.of_nat k + 1) with (Z.of_nat (S k)) by lia. reflexivity.
      * destruct (Nat.eq_dec k (pcount sec hstart)) as [E|E].
        { subst k. unfold RefineVar2h.vst0, RefineVar2h.vst. rewrite ?zlen_eq. reflexivity. }
        exfalso. pose proof (pcount_before sec hstart k). lia.
    + replace k with (pcount sec hstart) by lia.
      unfold RefineVar2h.vst0, RefineVar2h.vst. rewrite ?zlen_eq. reflexivity.
  - split; [lia|reflexivity].
  - lia.
Qed.

(* ---- loop 2 (no stamp after hstart): for(i=0; i<nvalh-1; i++) hvalues[i] = nan ---- *)
(* nvalh-1 >= -1 ; i++ : i+1 <= nvalh-1 *)

Definition pcond_c : iexp := ICmp CLt (IVar "i") (IChk W32 (IBin ISub (IVar "nvalh") (IConst 1))).
Definition pstep_c : stmt := SSetI "i" (IChk W32 (IBin IAdd (IVar "i") (IConst 1))).

Lemma nan_loop_c (callf : callee T) n vi hinit :
  nvalh = zlen hinit ->
  Z.of_nat (List.length hinit) <= 2147483647 ->
  (List.length hinit < n)%nat ->
  loop n (cond_of N X pcond_c)
    (for_body
       (exec N X callf n (SStoreF "hvalues" (IVar "i") (FVar "nan")))
       (exec N X callf n pstep_c))
    (vst1 0 vi hinit)
  = Ok (ONormal, vst1 (Z.of_nat (List.length hinit - 1)) vi (nan_fill hinit)).
Proof.
  intros Hh H32 Hn.
  apply (loop_rule_eq
           (fun k st => (k <= List.length hinit - 1)%nat /\
                        st = vst1 (Z.of_nat k) vi (repeat (nnan N) k ++ skipn k hinit))
           _ (List.length hinit)).
  - intros k st (Hk & ->). split; [lia|].
    unfold pcond_c, pstep_c, RefineVar2h.vst1, RefineVar2h.vst. cbn. rewrite Hh, zlen_eq. chk. cbn.
    destruct (Z.ltb_spec (Z.of_nat k) (Z.of_nat (List.length hinit) - 1)) as [Hlt|Hge]; cbn.
    + rewrite (skipn_cons_nth_d hinit k (nnan N)) by lia.
      rewrite zset_app by (rewrite repeat_length; reflexivity). cbn. chk. cbn.
      split; [lia|]. norm_state. unfold RefineVar2h.vst1, RefineVar2h.vst. rewrite ?zlen_eq.
      replace (Z.of_nat k + 1) with (Z.of_nat (S k)) by lia.
      rewrite repeat_app_cons'. reflexivity.
    + unfold RefineVar2h.nan_fill. replace (List.length hinit - 1)%nat with k by lia.
      unfold RefineVar2h.vst1, RefineVar2h.vst. rewrite ?zlen_eq. reflexivity.
  - split; [lia|]. reflexivity.
  - lia.
Qed.

(* ---- loop 3: the inner loop  while(t1<end) { ... }  vs [walk] ---- *)
(* varindex+1 (index, twice), varindex++ and (varindex+1)+1 <= nvalvar <= INT_MAX *)

Definition wbody_c : stmt :=
(seq [(SSetF "t2" (FOfInt (IArr "varsec" (IChk W32 (IBin IAdd (IVar "varindex") (IConst 1))))));
(SSetF "val2" (FArr "varvalues" (IChk W32 (IBin IAdd (IVar "varindex") (IConst 1)))));
(SIf (IFCmp CLt (FVar "t2") (FVar "t1"))
(seq [(SIf (ICmp CEq (IVar "display") (IConst 1))
SSkip
SSkip);
(SRetI (IChk W32 (IBin IAdd (IConst 130000) (IConst 1))))])
SSkip);
(SIf (IOr (IOr (IOr (IOr (IFCmp CLt (FVar "val1") (FUn FNeg (FLit (0x1.5798ee2308c3ap-27)%float 1 100000000))) (IFCmp CLt (FVar "val2") (FUn FNeg (FLit (0x1.5798ee2308c3ap-27)%float 1 100000000)))) (IFCmp CGt (FBin FSub (FVar "t2") (FVar "t1")) (FOfInt (IVar "maxgapsec")))) (IIsnan (FVar "val2"))) (IIsnan (FVar "val1")))
(SSetI "miss" (IConst 1))
SSkip);
(SSetF "it1" (FCond (IFCmp CLt (FVar "t1") (FVar "start")) (FVar "start") (FVar "t1")));
(SSetF "it2" (FCond (IFCmp CGt (FVar "t2") (FVar "end")) (FVar "end") (FVar "t2")));
(SIf (IFCmp CGt (FBin FSub (FVar "it2") (FVar "it1")) (FLit (0x1.5798ee2308c3ap-27)%float 1 100000000))
(SIf (ICmp CEq (IVar "rainfall") (IConst 1))
(SSetF "hvalue" (FBin FAdd (FVar "hvalue") (FBin FMul (FBin FDiv (FBin FMul (FVar "val2") (FBin FSub (FVar "it2") (FVar "it1"))) (FBin FSub (FVar "t2") (FVar "t1"))) (FVar "nbsec_per_period_d"))))
(seq [(SSetF "a" (FBin FDiv (FBin FSub (FVar "val2") (FVar "val1")) (FBin FSub (FVar "t2") (FVar "t1"))));
(SSetF "vali1" (FBin FAdd (FBin FMul (FVar "a") (FBin FSub (FVar "it1") (FVar "t1"))) (FVar "val1")));
(SSetF "vali2" (FBin FAdd (FBin FMul (FVar "a") (FBin FSub (FVar "it2") (FVar "t1"))) (FVar "val1")));
(SSetF "hvalue" (FBin FAdd (FVar "hvalue") (FBin FDiv (FBin FMul (FBin FAdd (FVar "vali2") (FVar "vali1")) (FBin FSub (FVar "it2") (FVar "it1"))) (FOfInt (IConst 2)))))]))
SSkip);
(SSetI "varindex" (IChk W32 (IBin IAdd (IVar "varindex") (IConst 1))));
(SIf (ICmp CGe (IChk W32 (IBin IAdd (IVar "varindex") (IConst 1))) (IVar "nvalvar"))
(seq [(SIf (IFCmp CLt (FVar "t2") (FVar "end"))
(SSetI "miss" (IConst 1))
SSkip);
SBreak])
SSkip);
(SSetF "t1" (FVar "t2"));
(SSetF "val1" (FVar "val2"))]).

(* one execution of the body of the inner loop, in closed form *)
Lemma wbody_exec_c (callf : callee T) n i s e nan hvs k t1 v1 hv miss a t2 it1 it2 val2 vali1 vali2 :
  nofZ N 2 = two N ->
  List.length vals = List.length sec ->
  Z.of_nat (List.length sec) <= 2147483647 ->
  (S k < List.length sec)%nat ->
  let t2n := nofZ N (tsec sec (S k)) in
  let v2n := vval N vals (S k) in
  let hv1 := add_piece N lit_eps rain (nofZ N P) s e t1 t2n v1 v2n hv in
  let miss1 := miss || invalid_iv N inv_eps maxgap t1 t2n v1 v2n in
  exists a' vali1' vali2',
  exec N X callf n wbody_c
    (vst i (Z.of_nat k) (b2z miss) a hv t1 t2 it1 it2 v1 val2 s e nan vali1 vali2 hvs)
  = if nltb N t2n t1 then
      Ok (ORet (RI 130001),
          vst i (Z.of_nat k) (b2z miss) a hv t1 t2n it1 it2 v1 v2n s e nan vali1 vali2 hvs)
    else if (List.length sec <=? S (S k))%nat then
      Ok (OBreak,
          vst i (Z.of_nat (S k)) (b2z (miss1 || nltb N t2n e)) a' hv1 t1 t2n
              (clip_lo N t1 s) (clip_hi N t2n e) v1 v2n s e nan vali1' vali2' hvs)
    else
      Ok (ONormal,
          vst i (Z.of_nat (S k)) (b2z miss1) a' hv1 t2n t2n
              (clip_lo N t1 s) (clip_hi N t2n e) v2n v2n s e nan vali1' vali2' hvs).
Proof.
  intros H2 Hlv H32 Hk t2n v2n hv1 miss1.
  assert (Hg1 : zget sec (Z.of_nat k + 1) = Some (tsec sec (S k))).
  { replace (Z.of_nat k + 1) with (Z.of_nat (S k)) by lia. apply zget_nth. lia. }
  assert (Hg2 : zget vals (Z.of_nat k + 1) = Some (vval N vals (S k))).
  { replace (Z.of_nat k + 1) with (Z.of_nat (S k)) by lia. apply zget_nth. lia. }
  remember (invalid_iv N inv_eps maxgap t1 t2n v1 v2n) as inval eqn:Hinv.
  unfold invalid_iv, RefineVar2h.inv_eps, RefineVar2h.lit_eps in Hinv.
  assert (Hbrk : (zlen sec <=? Z.of_nat (S k) + 1) = (List.length sec <=? S (S k))%nat).
  { rewrite zlen_eq. destruct (Nat.leb_spec (List.length sec) (S (S k)));
      [apply Z.leb_le|apply Z.leb_gt]; lia. }
  subst hv1 miss1. unfold add_piece.
  unfold wbody_c, RefineVar2h.vst. cbn [seq].
  step_with ltac:(run; rewrite Hg1; cbn; reflexivity).
  step_with ltac:(run; rewrite Hg2; cbn; reflexivity).
  fold t2n v2n.
  destruct (nltb N t2n t1) eqn:Ht21.
  { erewrite exec_seq_stop;
      [ | cbn; rewrite truth_b2z, Ht21; cbn; rewrite if_same; run; reflexivity | discriminate ].
    exists a, vali1, vali2. reflexivity. }
  step_with ltac:(cbn; rewrite truth_b2z, Ht21; cbn; reflexivity).
  destruct inval.
  all: step_with ltac:(cbn; repeat (rewrite ?truth_b2z, ?b2z_truth_b2z, ?or_ok; cbn);
                       rewrite <- Hinv; cbn; reflexivity).
  all: step_with ltac:(cbn; rewrite truth_b2z, if_ok; cbn; reflexivity).
  all: step_with ltac:(cbn; rewrite truth_b2z, if_ok; cbn; reflexivity).
  all: change (if nltb N t1 s then s else t1) with (clip_lo N t1 s).
  all: change (if nltb N e t2n then e else t2n) with (clip_hi N t2n e).
  all: destruct (nltb N lit_eps (nsub N (clip_hi N t2n e) (clip_lo N t1 s))) eqn:Hov.
  all: destruct (rain =? 1) eqn:Hrain.
  all: step_with ltac:(cbn; fold lit_eps; rewrite truth_b2z, Hov; cbn;
                       rewrite ?truth_b2z, ?Hrain, ?H2; cbn; reflexivity).
  all: step.
  all: replace (Z.of_nat k + 1) with (Z.of_nat (S k)) by lia.
  all: destruct (List.length sec <=? S (S k))%nat eqn:Hb;
    [ destruct (nltb N t2n e) eqn:Ht2e;
      (erewrite exec_seq_stop;
       [ | run; rewrite truth_b2z, Hbrk; cbn; rewrite truth_b2z, Ht2e; cbn; reflexivity
         | discriminate ])
    | step_with ltac:(run; rewrite truth_b2z, Hbrk; cbn; reflexivity);
      step; cbn ].
  all: rewrite ?orb_true_r, ?orb_false_r.
  all: norm_state.
  all: do 3 eexists; reflexivity.
Qed.

Lemma walk_loop_c (callf : callee T) n i s e nan hvs :
  nofZ N 2 = two N ->
  List.length vals = List.length sec ->
  Z.of_nat (List.length sec) <= 2147483647 ->
  forall f m k t1 v1 hv miss a t2 it1 it2 val2 vali1 vali2,
  (S k < List.length sec)%nat -> (f < m)%nat ->
  mwalk f (nofZ N P) s e k t1 v1 hv miss <> WFuel ->
  exists r,
    loop m (cond_of N X wcond) (exec N X callf n wbody_c)
      (vst i (Z.of_nat k) (b2z miss) a hv t1 t2 it1 it2 v1 val2 s e nan vali1 vali2 hvs) = Ok r /\
    wpost i s e nan hvs (mwalk f (nofZ N P) s e k t1 v1 hv miss) r.
Proof.
  intros H2 Hlv H32.
  induction f as [|f IH]; intros m k t1 v1 hv miss a t2 it1 it2 val2 vali1 vali2 Hk Hm HW;
    [exfalso; apply HW; reflexivity|].
  destruct m as [|m]; [lia|].
  revert HW. cbn [walk]. rewrite loop_S.
  assert (Hc : cond_of N X wcond
                 (vst i (Z.of_nat k) (b2z miss) a hv t1 t2 it1 it2 v1 val2 s e nan vali1 vali2 hvs)
               = Ok (nltb N t1 e)).
  { cbn. rewrite truth_b2z. reflexivity. }
  rewrite Hc. clear Hc.
  destruct (nltb N t1 e) eqn:Hte.
  2:{ intros _. eexists. split; [reflexivity|].
      exists a, t1, t2, it1, it2, v1, val2, vali1, vali2. reflexivity. }
  destruct (wbody_exec_c callf n i s e nan hvs k t1 v1 hv miss a t2 it1 it2 val2 vali1 vali2
              H2 Hlv H32 Hk)
    as (a' & vali1' & vali2' & Hb).
  cbv zeta in Hb. rewrite Hb. clear Hb.
  destruct (nltb N (nofZ N (tsec sec (S k))) t1) eqn:Ht21.
  { intros _. eexists. split; [reflexivity|].
    exists 130001. eexists. split; [lia|]. split; [|reflexivity]. split; reflexivity. }
  destruct (List.length sec <=? S (S k))%nat eqn:Hbrk.
  { intros _. eexists. split; [reflexivity|]. cbn [RefineVar2h.wpost].
    do 9 eexists. reflexivity. }
  intros HW.
  apply IH; [|lia|exact HW].
  apply Nat.leb_gt in Hbrk. lia.
Qed.

(* ---- loop 4: the loop over the periods  for(i=0; i<nvalh-1; i++) { ... }  vs [periods] ---- *)

Definition pbody_c : stmt :=
(seq [(SIf (ICmp CEq (IVar "display") (IConst 1))
(seq [(SIf (ICmp CEq (IBin IRem (IVar "i") (IConst 10000)) (IConst 0))
SSkip
SSkip);
(SIf (IAnd (ICmp CEq (IBin IRem (IVar "i") (IConst 50000)) (IConst 0)) (ICmp CGt (IVar "i") (IConst 0)))
SSkip
SSkip)])
SSkip);
(SSetF "start" (FOfInt (IChk W64 (IBin IAdd (IVar "hstartsec") (IChk W64 (IBin IMul (IVar "i") (IVar "nbsec_per_period")))))));
(SSetF "end" (FBin FAdd (FVar "start") (FVar "nbsec_per_period_d")));
(SSetF "t1" (FOfInt (IArr "varsec" (IVar "varindex"))));
(SSetF "val1" (FArr "varvalues" (IVar "varindex")));
(SSetF "hvalue" (FOfInt (IConst 0)));
(SSetI "miss" (IConst 0));
(SSetF "vali1" (FLit 0%float 0 1));
(SSetF "vali2" (FLit 0%float 0 1));
(SSetF "it1" (FLit 0%float 0 1));
(SSetF "it2" (FLit 0%float 0 1));
(SStoreF "hvalues" (IVar "i") (FVar "nan"));
(SWhile wcond wbody_c);
(SSetI "varindex" (IChk W32 (IBin ISub (IVar "varindex") (IConst 1))));
(SStoreF "hvalues" (IVar "i") (FCond (ICmp CEq (IVar "miss") (IConst 0)) (FBin FDiv (FVar "hvalue") (FVar "nbsec_per_period_d")) (FVar "nan")))]).

(* the 64-bit computations of period number i:  (long long)i*nbsec_per_period  and
   hstartsec + (long long)i*nbsec_per_period  fit a long long *)
Definition start_ok (i : nat) : Prop :=
  -9223372036854775808 <= Z.of_nat i * P <= 9223372036854775807 /\
  -9223372036854775808 <= hstart + Z.of_nat i * P <= 9223372036854775807.

Lemma period_body_c (callf : callee T) n i k done x rest
      ms a hv t1 t2 it1 it2 v1 val2 s e vali1 vali2 :
  nofZ N 0 = n0 N -> nofZ N 2 = two N ->
  List.length vals = List.length sec ->
  Z.of_nat (List.length sec) <= 2147483647 ->
  start_ok i ->
  (List.length sec < n)%nat ->
  (S k < List.length sec)%nat ->
  List.length done = i ->
  exists r,
    exec N X callf n pbody_c
      (vst (Z.of_nat i) (Z.of_nat k) ms a hv t1 t2 it1 it2 v1 val2 s e (nnan N) vali1 vali2
           (done ++ x :: rest)) = Ok r /\
    pbpost i k done rest r.
Proof.
  intros H0 H2 Hlv H32 (Hmul & Hadd) Hn Hk Hi.
  assert (Hg1 : zget sec (Z.of_nat k) = Some (tsec sec k)) by (apply zget_nth; lia).
  assert (Hg2 : zget vals (Z.of_nat k) = Some (vval N vals k)) by (apply zget_nth; lia).
  unfold pbody_c, RefineVar2h.vst. cbn [seq].
  step_with ltac:(cbn; destruct (disp =? 1); cbn; rewrite ?if_same; cbn; rewrite ?and_ok; cbn;
                  rewrite ?if_same; reflexivity).
  step. step.
  step_with ltac:(cbn; rewrite Hg1; cbn; reflexivity).
  step_with ltac:(cbn; rewrite Hg2; cbn; reflexivity).
  step. step. step. step. step. step.
  step_with ltac:(cbn; rewrite zset_app by lia; cbn; reflexivity).
  rewrite H0.
  set (sn := nofZ N (hstart + Z.of_nat i * P)).
  set (en := nadd N sn (nofZ N P)).
  destruct (walk_loop_c callf n (Z.of_nat i) sn en (nnan N) (done ++ nnan N :: rest) H2 Hlv H32
              (List.length sec) n k (nofZ N (tsec sec k)) (vval N vals k) (n0 N) false
              a t2 (nlit X 0%float 0 1) (nlit X 0%float 0 1) val2
              (nlit X 0%float 0 1) (nlit X 0%float 0 1) Hk Hn)
    as (r & Hr & Hpost).
  { apply walk_fuel; [exact Hk|lia]. }
  unfold RefineVar2h.pbpost, RefineVar2h.pwalk. fold sn en.
  destruct (mwalk (List.length sec) (nofZ N P) sn en k (nofZ N (tsec sec k)) (vval N vals k) (n0 N) false)
    as [| |k' hv' miss'] eqn:HW; cbn [RefineVar2h.wpost] in Hpost.
  - destruct Hpost as (code & st' & Hcode & Harr & ->).
    erewrite exec_seq_stop; [ | exact Hr | discriminate ].
    eexists. split; [reflexivity|]. exists code, st'. repeat split; try assumption; apply Harr.
  - exfalso. revert HW. apply walk_fuel; [exact Hk|lia].
  - destruct Hpost as (a' & t1' & t2' & it1' & it2' & v1' & val2' & vali1' & vali2' & ->).
    pose proof (walk_bound N X rain maxgap sec vals _ _ _ _ _ _ _ _ _ _ _ _ Hk HW) as Hb.
    step_with ltac:(exact Hr).
    unfold RefineVar2h.vst. step.
    cbn. rewrite truth_b2z, b2z_eq0, if_ok, if_negb. cbn.
    rewrite zset_app by lia. cbn.
    eexists. split; [reflexivity|].
    norm_state. do 13 eexists. reflexivity.
Qed.

Lemma periods_loop_c (callf : callee T) n :
  nofZ N 0 = n0 N -> nofZ N 2 = two N ->
  List.length vals = List.length sec ->
  Z.of_nat (List.length sec) <= 2147483647 ->
  0 <= nvalh <= 2147483647 ->
  (List.length sec < n)%nat ->
  forall cnt m i k done todo vi ms a hv t1 t2 it1 it2 v1 val2 s e vali1 vali2,
  List.length done = i -> (cnt <= List.length todo)%nat ->
  nvalh - 1 <= Z.of_nat (i + cnt) -> (cnt = O \/ nvalh - 1 = Z.of_nat (i + cnt)) ->
  (cnt = O \/ (vi = Z.of_nat k /\ (S k < List.length sec)%nat)) ->
  no_underflow cnt (Z.of_nat i) k ->
  (forall j, (j < i + cnt)%nat -> start_ok j) ->
  (cnt < m)%nat ->
  exists r,
    loop m (cond_of N X pcond_c) (for_body (exec N X callf n pbody_c) (exec N X callf n pstep_c))
      (vst (Z.of_nat i) vi ms a hv t1 t2 it1 it2 v1 val2 s e (nnan N) vali1 vali2 (done ++ todo))
    = Ok r /\
    ppost cnt i k done todo r.
Proof.
  intros H0 H2 Hlv H32 Hh32 Hn.
  induction cnt as [|c IH];
    intros m i k done todo vi ms a hv t1 t2 it1 it2 v1 val2 s e vali1 vali2 Hi Ht Hnv Hnv' Hvi Hnu Hso Hm.
  - destruct m as [|m]; [lia|]. rewrite loop_S.
    assert (Hc : cond_of N X pcond_c
              (vst (Z.of_nat i) vi ms a hv t1 t2 it1 it2 v1 val2 s e (nnan N) vali1 vali2 (done ++ todo))
              = Ok false).
    { run. rewrite truth_b2z. f_equal. apply Z.ltb_ge. lia. }
    rewrite Hc. eexists. split; [reflexivity|].
    unfold RefineVar2h.ppost. cbn [periods]. do 14 eexists.
    replace (i + 0)%nat with i by lia. cbn [skipn app]. reflexivity.
  - destruct m as [|m]; [lia|]. rewrite loop_S.
    assert (Hc : cond_of N X pcond_c
              (vst (Z.of_nat i) vi ms a hv t1 t2 it1 it2 v1 val2 s e (nnan N) vali1 vali2 (done ++ todo))
              = Ok true).
    { run. rewrite truth_b2z. f_equal. apply Z.ltb_lt. lia. }
    rewrite Hc. clear Hc.
    destruct Hvi as [Hvi|[-> Hk]]; [discriminate|].
    destruct todo as [|x rest]; [cbn in Ht; lia|].
    destruct (period_body_c callf n i k done x rest ms a hv t1 t2 it1 it2 v1 val2 s e vali1 vali2
                H0 H2 Hlv H32 (Hso i ltac:(lia)) Hn Hk Hi) as (r1 & Hr1 & Hp1).
    unfold for_body. rewrite Hr1. clear Hr1.
    unfold RefineVar2h.ppost. rewrite periods_S.
    unfold RefineVar2h.pbpost in Hp1. cbn [RefineVar2h.no_underflow] in Hnu.
    destruct (pwalk (Z.of_nat i) k) as [| |k' hv' miss'] eqn:HW.
    + destruct Hp1 as (code & st' & Hcode & Harr & ->).
      eexists. split; [reflexivity|]. exists code, st', (done ++ nnan N :: rest).
      split; [exact Hcode|]. split; [exact Harr|]. split; [|reflexivity].
      rewrite !app_length. reflexivity.
    + exfalso. revert HW. apply walk_fuel; [exact Hk|lia].
    + destruct Hp1 as (ms1 & a1 & hv1 & t11 & t21 & it11 & it21 & v11 & val21 & s1 & e1 & vali11 & vali21 & ->).
      destruct Hnu as (Hk' & Hnu).
      pose proof (walk_bound N X rain maxgap sec vals _ _ _ _ _ _ _ _ _ _ _ _ Hk HW) as Hb.
      set (h := if miss' then nnan N else ndiv N hv' (nofZ N P)).
      assert (Hs : exec N X callf n pstep_c
                (vst (Z.of_nat i) (Z.of_nat k' - 1) ms1 a1 hv1 t11 t21 it11 it21 v11 val21 s1 e1 (nnan N)
                     vali11 vali21 (done ++ h :: rest))
              = Ok (ONormal,
                    vst (Z.of_nat (S i)) (Z.of_nat k' - 1) ms1 a1 hv1 t11 t21 it11 it21 v11 val21 s1 e1 (nnan N)
                        vali11 vali21 ((done ++ [h]) ++ rest))).
      { unfold pstep_c, RefineVar2h.vst. run. rewrite <- app_assoc. cbn [app].
        replace (Z.of_nat i + 1) with (Z.of_nat (S i)) by lia. reflexivity. }
      rewrite Hs. clear Hs.
      destruct (IH m (S i) (pred k') (done ++ [h]) rest (Z.of_nat k' - 1) ms1 a1 hv1 t11 t21 it11 it21
                   v11 val21 s1 e1 vali11 vali21) as (r & Hr & Hp).
      * rewrite app_length. cbn. lia.
      * cbn in Ht. lia.
      * lia.
      * right. lia.
      * destruct Hk' as [Hc0|Hpos]; [left; exact Hc0|right]. split; lia.
      * replace (Z.of_nat (S i)) with (Z.of_nat i + 1) by lia. exact Hnu.
      * intros j Hj. apply Hso. lia.
      * lia.
      * exists r. split; [exact Hr|].
        unfold RefineVar2h.ppost in Hp.
        replace (Z.of_nat (S i)) with (Z.of_nat i + 1) in Hp by lia.
        destruct (mperiods c (Z.of_nat i + 1) (pred k')) as [| |l].
        -- destruct Hp as (code & st' & hvs' & Hcode & Harr & Hlen & ->).
           exists code, st', hvs'. split; [exact Hcode|]. split; [exact Harr|]. split; [|reflexivity].
           rewrite Hlen, !app_length. cbn. lia.
        -- exact I.
        -- destruct Hp as (vi' & ms' & a' & hvv & t1' & t2' & it1' & it2' & v1' & val2' & s' & e' & vali1' & vali2' & ->).
           do 14 eexists.
           replace (S i + c)%nat with (i + S c)%nat by lia.
           rewrite <- app_assoc. cbn [app skipn]. reflexivity.
Qed.

(* ---- the whole function ---- *)

Definition fbody_c : stmt :=
(seq [(SSetI "ierr" (IConst 0));
(SSetI "i" (IConst 0));
(SSetI "varindex" (IConst 0));
(SSetI "miss" (IConst 0));
(SSetF "a" (FOfInt (IConst 0)));
(SSetF "hvalue" (FOfInt (IConst 0)));
(SSetF "t1" (FOfInt (IConst 0)));
(SSetF "t2" (FOfInt (IConst 0)));
(SSetF "it1" (FOfInt (IConst 0)));
(SSetF "it2" (FOfInt (IConst 0)));
(SSetF "val1" (FOfInt (IConst 0)));
(SSetF "val2" (FOfInt (IConst 0)));
(SSetF "start" (FOfInt (IConst 0)));
(SSetF "end" (FOfInt (IConst 0)));
(SSetF "nan" (FOfInt (IConst 0)));
(SSetF "vali1" (FOfInt (IConst 0)));
(SSetF "vali2" (FOfInt (IConst 0)));
(SSetF "nbsec_per_period_d" (FOfInt (IVar "nbsec_per_period")));
(SSetF "zero" (FLit 0%float 0 1));
(SIf (IOr (ICmp CLt (IVar "rainfall") (IConst 0)) (ICmp CGt (IVar "rainfall") (IConst 1)))
(SRetI (IChk W32 (IBin IAdd (IConst 130000) (IConst 1))))
SSkip);
(SIf (IAnd (ICmp CNe (IVar "nbsec_per_period") (IConst 1800)) (ICmp CNe (IVar "nbsec_per_period") (IConst 3600)))
(SRetI (IChk W32 (IBin IAdd (IConst 130000) (IConst 1))))
SSkip);
(SIf (ICmp CEq (IVar "display") (IConst 1))
SSkip
SSkip);
(SSetI "varindex" (IConst 0));
(SWhile (IAnd (ICmp CLt (IVar "varindex") (IVar "nvalvar")) (ICmp CLe (IArr "varsec" (IVar "varindex")) (IVar "hstartsec")))
(SSetI "varindex" (IChk W32 (IBin IAdd (IVar "varindex") (IConst 1)))));
(SSetI "varindex" (IChk W32 (IBin ISub (IVar "varindex") (IConst 1))));
(SIf (ICmp CLt (IVar "varindex") (IConst 0))
(seq [(SIf (ICmp CEq (IVar "display") (IConst 1))
SSkip
SSkip);
(SRetI (IChk W32 (IBin IAdd (IConst 130000) (IConst 1))))])
SSkip);
(SSetF "nan" FNan);
(SSetI "ierr" (IConst 0));
(SIf (ICmp CGe (IChk W32 (IBin IAdd (IVar "varindex") (IConst 1))) (IVar "nvalvar"))
(seq [(SSetI "i" (IConst 0));
(SFor (ICmp CLt (IVar "i") (IChk W32 (IBin ISub (IVar "nvalh") (IConst 1))))
(SSetI "i" (IChk W32 (IBin IAdd (IVar "i") (IConst 1))))
(SStoreF "hvalues" (IVar "i") (FVar "nan")));
(SRetI (IVar "ierr"))])
SSkip);
(SSetI "i" (IConst 0));
(SFor pcond_c pstep_c pbody_c);
(SIf (ICmp CEq (IVar "display") (IConst 1))
SSkip
SSkip);
(SRetI (IVar "ierr"))]).

Lemma c_var2h_chk_def_eq : c_var2h_chk_def = Fun fparams fbody_c.
Proof. reflexivity. Qed.

Lemma find_var2h_c : find_fun program_chk "c_var2h" = Ok (fparams, fbody_c).
Proof. reflexivity. Qed.

(* the start of every period fits a long long: from the bound on the LAST period *)
Lemma start_ok_all (hinit : list T) :
  In P VAR2H_C_PERIODS ->
  Z.of_nat (List.length hinit) <= 2147483647 ->
  -9223372036854775808 <= hstart <= 9223372036854775807 ->
  (2 <= Z.of_nat (List.length hinit) ->
   hstart + (Z.of_nat (List.length hinit) - 2) * P <= 9223372036854775807) ->
  forall j, (j < List.length hinit - 1)%nat -> start_ok j.
Proof.
  intros HP H32 Hh Hlast j Hj. unfold start_ok.
  specialize (Hlast ltac:(lia)).
  unfold VAR2H_C_PERIODS in HP. cbn [In] in HP.
  destruct HP as [E|[E|[]]]; rewrite <- E in *; lia.
Qed.

Lemma fbody_run_c (callf : callee T) hinit n :
  nofZ N 0 = n0 N -> nofZ N 2 = two N ->
  nvalh = zlen hinit ->
  List.length vals = List.length sec ->
  Z.of_nat (List.length sec) <= 2147483647 ->
  Z.of_nat (List.length hinit) <= 2147483647 ->
  -9223372036854775808 <= hstart <= 9223372036854775807 ->
  (In P VAR2H_C_PERIODS -> 2 <= Z.of_nat (List.length hinit) ->
   hstart + (Z.of_nat (List.length hinit) - 2) * P <= 9223372036854775807) ->
  (Nat.max (List.length sec) (List.length hinit) < n)%nat ->
  (In P VAR2H_C_PERIODS ->
   forall v, position sec hstart = Some (S v) -> no_underflow (List.length hinit - 1) 0 v) ->
  exists r, exec N X callf n fbody_c (st_init hinit) = Ok r /\ fpost hinit r.
Proof.
  intros H0 H2 Hnv Hlv H32 Hh32 Hhs Hlast Hn Hnu.
  unfold RefineVar2h.fpost, c_var2h.
  unfold fbody_c, RefineVar2h.st_init. cbn [seq].
  do 19 step.
  destruct ((rain <? 0) || (1 <? rain)) eqn:Hr.
  { erewrite exec_seq_stop;
      [ | cbn; rewrite !truth_b2z, or_ok; cbn; rewrite truth_b2z, Hr; run; reflexivity | discriminate ].
    eexists. split; [reflexivity|]. exists 130001. do 2 eexists.
    split; [lia|]. split; [reflexivity|]. split; [|reflexivity]. split; reflexivity. }
  step_with ltac:(cbn; rewrite !truth_b2z, or_ok; cbn; rewrite truth_b2z, Hr; cbn; reflexivity).
  cbn [VAR2H_C_PERIODS existsb].
  replace (negb ((P =? 1800) || ((P =? 3600) || false))) with (negb (P =? 1800) && negb (P =? 3600))
    by (destruct (P =? 1800), (P =? 3600); reflexivity).
  destruct (negb (P =? 1800) && negb (P =? 3600)) eqn:HP.
  { erewrite exec_seq_stop;
      [ | cbn; rewrite !truth_b2z, and_ok; cbn; rewrite truth_b2z, HP; run; reflexivity | discriminate ].
    eexists. split; [reflexivity|]. exists 130001. do 2 eexists.
    split; [lia|]. split; [reflexivity|]. split; [|reflexivity]. split; reflexivity. }
  step_with ltac:(cbn; rewrite !truth_b2z, and_ok; cbn; rewrite truth_b2z, HP; cbn; reflexivity).
  step_with ltac:(cbn; rewrite if_same; reflexivity).
  step.
  step_with ltac:(exact (pos_loop_c callf n hinit H32 ltac:(lia))).
  pose proof (pcount_le sec hstart) as Hple.
  unfold RefineVar2h.vst0, RefineVar2h.vst. step.
  rewrite position_pcount.
  destruct (pcount sec hstart) as [|v] eqn:Hpc.
  { (* varindex < 0 *)
    erewrite exec_seq_stop;
      [ | cbn; rewrite if_same; run; reflexivity | discriminate ].
    eexists. split; [reflexivity|].
    destruct (Nat.ltb_spec 0 (List.length sec)) as [Hl|Hl].
    - exists 130001. do 2 eexists.
      split; [lia|]. split; [reflexivity|]. split; [|reflexivity]. split; reflexivity.
    - split.
      + intros _. exists 130001. eexists. split; [lia|]. split; [|reflexivity]. split; reflexivity.
      + intros Hne. exfalso. apply Hne. apply length_zero_iff_nil. lia. }
  replace (Z.of_nat (S v) - 1) with (Z.of_nat v) by lia.
  step_with ltac:(cbn; zb; cbn; reflexivity).
  step. step.
  assert (Hbrk : (zlen sec <=? Z.of_nat v + 1) = negb (S v <? List.length sec)%nat).
  { rewrite zlen_eq. destruct (Nat.ltb_spec (S v) (List.length sec));
      [apply Z.leb_gt|apply Z.leb_le]; lia. }
  destruct (Nat.ltb_spec (S v) (List.length sec)) as [Hv|Hv]; cbn [negb] in Hbrk.
  - (* a stamp after hstart exists: the loop over the periods *)
    step_with ltac:(run; rewrite truth_b2z, Hbrk; cbn; reflexivity).
    step.
    assert (Hpos : position sec hstart = Some (S v)).
    { rewrite position_pcount, Hpc. destruct (Nat.ltb_spec (S v) (List.length sec)); [reflexivity|lia]. }
    assert (HPin : In P VAR2H_C_PERIODS).
    { unfold VAR2H_C_PERIODS. destruct (Z.eqb_spec P 1800) as [->|]; [left; reflexivity|].
      destruct (Z.eqb_spec P 3600) as [->|]; [right; left; reflexivity|discriminate HP]. }
    specialize (Hnu HPin v Hpos).
    destruct (periods_loop_c callf n H0 H2 Hlv H32 ltac:(rewrite Hnv, zlen_eq; lia) ltac:(lia)
                (List.length hinit - 1) n 0%nat v [] hinit
                (Z.of_nat v) 0 (nofZ N 0) (nofZ N 0) (nofZ N 0) (nofZ N 0) (nofZ N 0) (nofZ N 0)
                (nofZ N 0) (nofZ N 0) (nofZ N 0) (nofZ N 0) (nofZ N 0) (nofZ N 0))
      as (r & Hlr & Hp).
    { reflexivity. } { lia. } { rewrite Hnv, zlen_eq. lia. }
    { rewrite Hnv, zlen_eq. destruct (List.length hinit); [left; reflexivity|right; lia]. }
    { right. split; [reflexivity|exact Hv]. } { exact Hnu. }
    { cbn [Nat.add]. exact (start_ok_all hinit HPin Hh32 Hhs (Hlast HPin)). }
    { lia. }
    unfold RefineVar2h.ppost in Hp. change (Z.of_nat 0) with 0 in Hp.
    pose proof (periods_fuel N X P rain maxgap hstart sec vals (List.length hinit - 1) 0 v Hv) as Hpf.
    pose proof (periods_length N X P rain maxgap hstart sec vals (List.length hinit - 1) 0 v) as Hpl.
    destruct (mperiods (List.length hinit - 1) 0 v) as [| |l].
    + destruct Hp as (code & st' & hvs' & Hcode & Harr & Hlen & ->).
      erewrite exec_seq_stop; [ | exact Hlr | discriminate ].
      eexists. split; [reflexivity|]. exists code, st', hvs'. repeat split; try assumption; apply Harr.
    + contradiction.
    + destruct Hp as (vi' & ms' & a' & hvv & t1' & t2' & it1' & it2' & v1' & val2' & s' & e' & vali1' & vali2' & ->).
      step_with ltac:(exact Hlr).
      unfold RefineVar2h.vst.
      step_with ltac:(cbn; rewrite if_same; reflexivity).
      cbn. eexists. split; [reflexivity|]. eexists. split; [|reflexivity].
      rewrite (Hpl l eq_refl). split; reflexivity.
  - (* no stamp after hstart: all periods are missing *)
    erewrite exec_seq_stop;
      [ | erewrite exec_if_true;
          [ cbn [seq]; step;
            step_with ltac:(exact (nan_loop_c callf n (Z.of_nat v) hinit Hnv Hh32 ltac:(lia)));
            unfold RefineVar2h.vst1, RefineVar2h.vst; cbn; reflexivity
          | run; reflexivity
          | rewrite truth_b2z; exact Hbrk ]
        | discriminate ].
    eexists. split; [reflexivity|]. split.
    + intros Hnil. rewrite Hnil in Hple. cbn in Hple. lia.
    + intros _. eexists. split; [|reflexivity]. split; reflexivity.
Qed.

End Chk.

(* ================================================================== *)
(* The refinement theorem for the overflow-checked program              *)
(* ================================================================== *)

(* The statement of [RefineVar2h.refine_c_var2h] about [program_chk]: for EVERY period
   length, rainfall flag, display flag, maximum gap, origin, stamps, values and initial
   content of hvalues, the checked kernel (which stops with [Err (Overflow ..)] at the
   first signed integer operation whose result does not fit its C type) returns what
   the model of Model/Var2h.v computes.  Size hypotheses, in terms of the C types:
     [zlen sec <= INT_MAX], [zlen hinit <= INT_MAX]   nvalvar, nvalh are C ints;
     [LLONG_MIN <= hstart <= LLONG_MAX]               hstartsec is a C long long;
     the start of the last period, hstartsec + (long long)(nvalh-2)*nbsec_per_period,
     is at most LLONG_MAX (64-bit arithmetic; required only when the kernel accepts the
     period length and there are at least two values, i.e. one period).
   No hypothesis on the stamps (varsec is only read and converted to double) nor on
   rainfall, display, maxgapsec (compared or converted only), nor on nvalh*P as an int. *)
Theorem chk_refine_c_var2h {T} (N : NumOps T) (X : NumLit T)
        (P rain disp maxgap hstart : Z) (sec : list Z) (vals hinit : list T) (n : nat) :
  nofZ N 0 = n0 N -> nofZ N 2 = nadd N (n1 N) (n1 N) ->
  List.length vals = List.length sec ->
  zlen sec <= 2147483647 ->
  zlen hinit <= 2147483647 ->
  -9223372036854775808 <= hstart <= 9223372036854775807 ->
  (In P VAR2H_C_PERIODS -> 2 <= zlen hinit ->
   hstart + (zlen hinit - 2) * P <= 9223372036854775807) ->
  (Nat.max (List.length sec) (List.length hinit) < n)%nat ->
  (In P VAR2H_C_PERIODS ->
   forall v, position sec hstart = Some (S v) ->
             no_underflow N X P rain maxgap hstart sec vals (List.length hinit - 1) 0 v) ->
  match c_var2h N (inv_eps N X) (lit_eps X) true P rain maxgap hstart sec vals hinit with
  | VOk h =>
      exec_fun N X program_chk (S n) "c_var2h" (var2h_args P rain disp maxgap hstart sec vals hinit)
      = Ok (RI 0, [VArrI sec; VArrF vals; VArrF h])
  | VErr =>
      exists code h', 0 < code /\ List.length h' = List.length hinit /\
      exec_fun N X program_chk (S n) "c_var2h" (var2h_args P rain disp maxgap hstart sec vals hinit)
      = Ok (RI code, [VArrI sec; VArrF vals; VArrF h'])
  | VUndef =>
      (sec = [] -> exists code, 0 < code /\
         exec_fun N X program_chk (S n) "c_var2h" (var2h_args P rain disp maxgap hstart sec vals hinit)
         = Ok (RI code, [VArrI sec; VArrF vals; VArrF hinit])) /\
      (sec <> [] ->
         exec_fun N X program_chk (S n) "c_var2h" (var2h_args P rain disp maxgap hstart sec vals hinit)
         = Ok (RI 0, [VArrI sec; VArrF vals; VArrF (nan_fill N hinit)]))
  end.
Proof.
  intros H0 H2 Hlv H32 Hh32 Hhs Hlast Hn Hnu.
  rewrite zlen_eq in H32. rewrite zlen_eq in Hh32. rewrite zlen_eq in Hlast.
  destruct (fbody_run_c N X P rain disp maxgap hstart sec vals (zlen hinit)
              (exec_fun N X program_chk n) hinit n H0 H2 eq_refl Hlv H32 Hh32 Hhs Hlast Hn Hnu)
    as (r & Hr & Hp).
  assert (Hrun : forall v st' h, arrays_of sec vals st' h -> r = (ORet v, st') ->
            exec_fun N X program_chk (S n) "c_var2h" (var2h_args P rain disp maxgap hstart sec vals hinit)
            = Ok (v, [VArrI sec; VArrF vals; VArrF h])).
  { intros v st' h Harr ->.
    rewrite (exec_fun_S N X program_chk n "c_var2h"), find_var2h_c.
    unfold var2h_args. cbn [bind fst snd fparams bind_params]. norm_state.
    change (exec N X (exec_fun N X program_chk n) n fbody_c
              (st_init P rain disp maxgap hstart sec vals (zlen hinit) hinit) = Ok (ORet v, st')) in Hr.
    unfold st_init in Hr. rewrite Hr.
    change [PI "nvalvar"; PI "nvalh"; PI "nbsec_per_period"; PI "rainfall"; PI "display";
            PI "maxgapsec"; PArrI "varsec"; PArrF "varvalues"; PI "hstartsec"; PArrF "hvalues"]
      with fparams.
    rewrite (out_arrays_of sec vals st' h Harr). reflexivity. }
  unfold fpost in Hp.
  destruct (c_var2h N (inv_eps N X) (lit_eps X) true P rain maxgap hstart sec vals hinit) as [| |h].
  - destruct Hp as [Hp1 Hp2]. split.
    + intros Hs. destruct (Hp1 Hs) as (code & st' & Hcode & Harr & Hre).
      exists code. split; [exact Hcode|]. exact (Hrun _ _ _ Harr Hre).
    + intros Hs. destruct (Hp2 Hs) as (st' & Harr & Hre). exact (Hrun _ _ _ Harr Hre).
  - destruct Hp as (code & st' & h' & Hcode & Hlen & Harr & Hre).
    exists code, h'. split; [exact Hcode|]. split; [exact Hlen|]. exact (Hrun _ _ _ Harr Hre).
  - destruct Hp as (st' & Harr & Hre). exact (Hrun _ _ _ Harr Hre).
Qed.

(* the 64-bit hypothesis holds for every C int nvalh as soon as |hstartsec| <= 2^62
   (1.4e11 years): INT_MAX * 3600 < 2^43.  In particular nvalh * P may exceed INT_MAX
   (more than 68 years of hourly data). *)
Lemma start_bound_realistic {T} (P hstart : Z) (hinit : list T) :
  In P VAR2H_C_PERIODS ->
  zlen hinit <= 2147483647 ->
  hstart <= 4611686018427387904 ->
  hstart + (zlen hinit - 2) * P <= 9223372036854775807.
Proof.
  intros HP H32 Hh. unfold VAR2H_C_PERIODS in HP. cbn [In] in HP.
  destruct HP as [E|[E|[]]]; rewrite <- E; lia.
Qed.

(* ---- reals with a missing value (the instance of the property theorems, Props/C14.v) ---- *)

(* in RN nothing is assumed beyond the buffer lengths of the wrapper and the sizes *)
Theorem chk_refine_c_var2h_RN (P rain disp maxgap hstart : Z) (sec : list Z)
        (vals hinit : list (option R)) (n : nat) :
  List.length vals = List.length sec ->
  zlen sec <= 2147483647 ->
  zlen hinit <= 2147483647 ->
  -9223372036854775808 <= hstart <= 9223372036854775807 ->
  (In P VAR2H_C_PERIODS -> 2 <= zlen hinit ->
   hstart + (zlen hinit - 2) * P <= 9223372036854775807) ->
  (Nat.max (List.length sec) (List.length hinit) < n)%nat ->
  match c_var2h_RN true P rain maxgap hstart sec vals hinit with
  | VOk h =>
      exec_fun RN XRN program_chk (S n) "c_var2h" (var2h_args P rain disp maxgap hstart sec vals hinit)
      = Ok (RI 0, [VArrI sec; VArrF vals; VArrF h])
  | VErr =>
      exists code h', 0 < code /\ List.length h' = List.length hinit /\
      exec_fun RN XRN program_chk (S n) "c_var2h" (var2h_args P rain disp maxgap hstart sec vals hinit)
      = Ok (RI code, [VArrI sec; VArrF vals; VArrF h'])
  | VUndef =>
      (sec = [] -> exists code, 0 < code /\
         exec_fun RN XRN program_chk (S n) "c_var2h" (var2h_args P rain disp maxgap hstart sec vals hinit)
         = Ok (RI code, [VArrI sec; VArrF vals; VArrF hinit])) /\
      (sec <> [] ->
         exec_fun RN XRN program_chk (S n) "c_var2h" (var2h_args P rain disp maxgap hstart sec vals hinit)
         = Ok (RI 0, [VArrI sec; VArrF vals; VArrF (nan_fill RN hinit)]))
  end.
Proof.
  intros Hlv H32 Hh32 Hhs Hlast Hn.
  pose proof (chk_refine_c_var2h RN XRN P rain disp maxgap hstart sec vals hinit n) as H.
  rewrite RN_inv_eps, RN_ov_eps in H. apply H; clear H.
  - reflexivity.
  - cbn. f_equal; try lra.
  - exact Hlv.
  - exact H32.
  - exact Hh32.
  - exact Hhs.
  - exact Hlast.
  - exact Hn.
  - intros HP v Hpos.
    assert (0 < P) by (unfold VAR2H_C_PERIODS in HP; cbn in HP; lia).
    apply no_underflow_first; [assumption| |intros x b b'; apply RN_end_mono|exact Hpos].
    intros a b. apply RN_end_after. assumption.
Qed.

(* ---- binary64 ---- *)

Theorem chk_refine_c_var2h_F64 (P rain disp maxgap hstart : Z) (sec : list Z)
        (vals hinit : list float) (n : nat) :
  List.length vals = List.length sec ->
  zlen sec <= 2147483647 ->
  zlen hinit <= 2147483647 ->
  -9223372036854775808 <= hstart <= 9223372036854775807 ->
  (In P VAR2H_C_PERIODS -> 2 <= zlen hinit ->
   hstart + (zlen hinit - 2) * P <= 9223372036854775807) ->
  (Nat.max (List.length sec) (List.length hinit) < n)%nat ->
  (In P VAR2H_C_PERIODS ->
   forall v, position sec hstart = Some (S v) ->
             no_underflow F64 XF64 P rain maxgap hstart sec vals (List.length hinit - 1) 0 v) ->
  match c_var2h_F64 P rain maxgap hstart sec vals hinit with
  | VOk h =>
      exec_fun F64 XF64 program_chk (S n) "c_var2h" (var2h_args P rain disp maxgap hstart sec vals hinit)
      = Ok (RI 0, [VArrI sec; VArrF vals; VArrF h])
  | VErr =>
      exists code h', 0 < code /\ List.length h' = List.length hinit /\
      exec_fun F64 XF64 program_chk (S n) "c_var2h" (var2h_args P rain disp maxgap hstart sec vals hinit)
      = Ok (RI code, [VArrI sec; VArrF vals; VArrF h'])
  | VUndef =>
      (sec = [] -> exists code, 0 < code /\
         exec_fun F64 XF64 program_chk (S n) "c_var2h" (var2h_args P rain disp maxgap hstart sec vals hinit)
         = Ok (RI code, [VArrI sec; VArrF vals; VArrF hinit])) /\
      (sec <> [] ->
         exec_fun F64 XF64 program_chk (S n) "c_var2h" (var2h_args P rain disp maxgap hstart sec vals hinit)
         = Ok (RI 0, [VArrI sec; VArrF vals; VArrF (nan_fill F64 hinit)]))
  end.
Proof.
  intros Hlv H32 Hh32 Hhs Hlast Hn Hnu.
  exact (chk_refine_c_var2h F64 XF64 P rain disp maxgap hstart sec vals hinit n
           eq_refl eq_refl Hlv H32 Hh32 Hhs Hlast Hn Hnu).
Qed.

(* ---- the 64-bit hypothesis is not vacuous ---- *)

(* hstartsec = LLONG_MAX - 3599 (a long long), hourly periods, three values (two periods):
   the start of the second period, hstartsec + 1*3600 = 2^63, does not fit a long long *)
Example overflow_c_var2h_start :
  exec_fun F64 XF64 program_chk 10 "c_var2h"
    (var2h_args 3600 0 0 432000 9223372036854772208
                [9223372036854772208; 9223372036854772209] [1%float; 1%float]
                [0%float; 0%float; 0%float])
  = Err (Overflow false 9223372036854775808).
Proof. vm_compute. reflexivity. Qed.

(* the same input is accepted by the unchecked program (unbounded integers) *)
Example no_overflow_unchecked_start :
  exists r, exec_fun F64 XF64 KernelsAst.program 10 "c_var2h"
    (var2h_args 3600 0 0 432000 9223372036854772208
                [9223372036854772208; 9223372036854772209] [1%float; 1%float]
                [0%float; 0%float; 0%float])
  = Ok r.
Proof. vm_compute. eexists. reflexivity. Qed.
