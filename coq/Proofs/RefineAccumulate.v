(* Refinement: c_accumulate (with its callees c_downstream on one cell, c_neighbours,
   getnxy) of the MiniC program regenerated from src/hydrodiy/gis/c_grid.c
   (Gen/KernelsAst.v) computes, for ALL inputs, what the models of Model/Grid.v
   (downstream_with, neighbours_raw) and Model/Accumulate.v (accumulate) compute.

   Main results (generic over the arithmetic [N : NumOps T], [X : NumLit T]):
     neighbours_run         c_neighbours on a valid cell = neighbours_raw
     refine_downstream1     c_downstream, nval = 1, every cell number = downstream_with
     refine_accumulate_gen  c_accumulate, any 9 codes, any initial accumulation buffer
     refine_accumulate      c_accumulate as called by grid.accumulate = Model accumulate

   Remarks:
   - the error return of c_accumulate after the call of c_downstream (ierr > 0) is
     unreachable under the buffer-length hypotheses (the walk only visits cells of the grid);
   - the input check of the C text reads [nrows < 1 || nrows < 1]: ncols is never
     checked; with ncols <= 0 the kernel returns 0 without touching the buffers, and so
     does the model (no divergence);
   - no Err (OOB / DivZero / CastRange) for any input satisfying the length hypotheses
     ([i % nprint] is guarded by [nprint != 0]). *)
From Coq Require Import ZArith Bool List String Lia.
From Hy Require Import Base.Num Base.MiniC Gen.Consts Gen.KernelsAst Model.Grid Model.Accumulate.
Import ListNotations.
Open Scope string_scope.
Open Scope list_scope.
Open Scope Z_scope.

(* ================================================================== *)
(* GENERIC BLOCK (candidates for Base/MiniC.v): small-step symbolic     *)
(* execution by rewriting, so that every conversion checked at Qed is   *)
(* about ONE statement (no cbn over a whole function body).             *)
(* ================================================================== *)

#[local] Arguments exec_fun {T} N X p fuel f args : simpl never.
#[local] Arguments loop {T} fuel cond body st : simpl never.

Section Generic.
Context {T : Type} (N : NumOps T) (X : NumLit T).
Notation state := (state T).
Notation outcome := (outcome T).

Lemma exec_fun_intro (p : MiniC.program) n f args ps body st0 v st o :
  find_fun p f = Ok (ps, body) ->
  bind_params f ps args st_empty = Ok st0 ->
  exec N X (exec_fun N X p n) n body st0 = Ok (ORet v, st) ->
  out_arrays ps st = Ok o ->
  exec_fun N X p (S n) f args = Ok (v, o).
Proof.
  intros H1 H2 H3 H4. unfold exec_fun; fold (exec_fun N X p n).
  rewrite H1. cbn [bind fst snd]. rewrite H2. cbn [bind]. rewrite H3, H4. reflexivity.
Qed.

Variable cf : callee T.
Variable fuel : nat.
Notation ex := (exec N X cf fuel).

Lemma exec_seq_step a b st st1 :
  ex a st = Ok (ONormal, st1) -> ex (SSeq a b) st = ex b st1.
Proof. intros H. cbn [exec]. rewrite H. reflexivity. Qed.

Lemma exec_seq_stop a b st o st1 :
  ex a st = Ok (o, st1) -> o <> ONormal -> ex (SSeq a b) st = Ok (o, st1).
Proof. intros H Ho. cbn [exec]. rewrite H. destruct o; try reflexivity. contradiction. Qed.

Lemma exec_seq_cons a b l : seq (a :: b :: l) = SSeq a (seq (b :: l)).
Proof. reflexivity. Qed.
Lemma exec_seq_one a : seq [a] = a.
Proof. reflexivity. Qed.

Lemma exec_if_true c a b st v :
  eval_i N X st c = Ok v -> truth v = true -> ex (SIf c a b) st = ex a st.
Proof. intros H Hv. cbn [exec]. rewrite H. cbn [bind]. rewrite Hv. reflexivity. Qed.

Lemma exec_if_false c a b st v :
  eval_i N X st c = Ok v -> truth v = false -> ex (SIf c a b) st = ex b st.
Proof. intros H Hv. cbn [exec]. rewrite H. cbn [bind]. rewrite Hv. reflexivity. Qed.

Lemma exec_for c step b st :
  ex (SFor c step b) st = loop fuel (cond_of N X c) (for_body (ex b) (ex step)) st.
Proof. reflexivity. Qed.

Lemma exec_while c b st :
  ex (SWhile c b) st = loop fuel (cond_of N X c) (ex b) st.
Proof. reflexivity. Qed.

Lemma for_body_normal (eb es : state -> result (outcome * state)) st st1 :
  eb st = Ok (ONormal, st1) -> for_body eb es st = es st1.
Proof. intros H. unfold for_body. rewrite H. reflexivity. Qed.

Lemma for_body_continue (eb es : state -> result (outcome * state)) st st1 :
  eb st = Ok (OContinue, st1) -> for_body eb es st = es st1.
Proof. intros H. unfold for_body. rewrite H. reflexivity. Qed.

Lemma for_body_ret (eb es : state -> result (outcome * state)) st v st1 :
  eb st = Ok (ORet v, st1) -> for_body eb es st = Ok (ORet v, st1).
Proof. intros H. unfold for_body. rewrite H. reflexivity. Qed.

Lemma loop_S f (cond : state -> result bool) body st :
  loop (S f) cond body st =
  match cond st with
  | Err e => Err e
  | Ok false => Ok (ONormal, st)
  | Ok true =>
      match body st with
      | Err e => Err e
      | Ok (ONormal, st') => loop f cond body st'
      | Ok (OContinue, st') => loop f cond body st'
      | Ok (OBreak, st') => Ok (ONormal, st')
      | Ok (ORet v, st') => Ok (ORet v, st')
      end
  end.
Proof. reflexivity. Qed.

Lemma loop_next f (cond : state -> result bool) body st st1 :
  cond st = Ok true -> body st = Ok (ONormal, st1) ->
  loop (S f) cond body st = loop f cond body st1.
Proof. intros H1 H2. rewrite loop_S, H1, H2. reflexivity. Qed.

Lemma loop_ret f (cond : state -> result bool) body st v st1 :
  cond st = Ok true -> body st = Ok (ORet v, st1) ->
  loop (S f) cond body st = Ok (ORet v, st1).
Proof. intros H1 H2. rewrite loop_S, H1, H2. reflexivity. Qed.

Lemma loop_done f (cond : state -> result bool) body st :
  cond st = Ok false -> loop (S f) cond body st = Ok (ONormal, st).
Proof. intros H1. rewrite loop_S, H1. reflexivity. Qed.

(* the step obligation of [loop_rule], case by case *)
Lemma lstep_next (Inv : nat -> state -> Prop) (Post : outcome * state -> Prop) k
      (cond : state -> result bool) (body : state -> result (outcome * state)) st st1 :
  cond st = Ok true -> body st = Ok (ONormal, st1) -> Inv (S k) st1 ->
  match cond st with
  | Ok false => Post (ONormal, st)
  | Ok true =>
      match body st with
      | Ok (ONormal, st') => Inv (S k) st'
      | Ok (OContinue, st') => Inv (S k) st'
      | Ok (OBreak, st') => Post (ONormal, st')
      | Ok (ORet v, st') => Post (ORet v, st')
      | Err _ => False
      end
  | Err _ => False
  end.
Proof. intros -> -> H. exact H. Qed.

Lemma lstep_continue (Inv : nat -> state -> Prop) (Post : outcome * state -> Prop) k
      (cond : state -> result bool) (body : state -> result (outcome * state)) st st1 :
  cond st = Ok true -> body st = Ok (OContinue, st1) -> Inv (S k) st1 ->
  match cond st with
  | Ok false => Post (ONormal, st)
  | Ok true =>
      match body st with
      | Ok (ONormal, st') => Inv (S k) st'
      | Ok (OContinue, st') => Inv (S k) st'
      | Ok (OBreak, st') => Post (ONormal, st')
      | Ok (ORet v, st') => Post (ORet v, st')
      | Err _ => False
      end
  | Err _ => False
  end.
Proof. intros -> -> H. exact H. Qed.

Lemma lstep_break (Inv : nat -> state -> Prop) (Post : outcome * state -> Prop) k
      (cond : state -> result bool) (body : state -> result (outcome * state)) st st1 :
  cond st = Ok true -> body st = Ok (OBreak, st1) -> Post (ONormal, st1) ->
  match cond st with
  | Ok false => Post (ONormal, st)
  | Ok true =>
      match body st with
      | Ok (ONormal, st') => Inv (S k) st'
      | Ok (OContinue, st') => Inv (S k) st'
      | Ok (OBreak, st') => Post (ONormal, st')
      | Ok (ORet v, st') => Post (ORet v, st')
      | Err _ => False
      end
  | Err _ => False
  end.
Proof. intros -> -> H. exact H. Qed.

Lemma lstep_ret (Inv : nat -> state -> Prop) (Post : outcome * state -> Prop) k
      (cond : state -> result bool) (body : state -> result (outcome * state)) st v st1 :
  cond st = Ok true -> body st = Ok (ORet v, st1) -> Post (ORet v, st1) ->
  match cond st with
  | Ok false => Post (ONormal, st)
  | Ok true =>
      match body st with
      | Ok (ONormal, st') => Inv (S k) st'
      | Ok (OContinue, st') => Inv (S k) st'
      | Ok (OBreak, st') => Post (ONormal, st')
      | Ok (ORet v, st') => Post (ORet v, st')
      | Err _ => False
      end
  | Err _ => False
  end.
Proof. intros -> -> H. exact H. Qed.

Lemma lstep_done (Inv : nat -> state -> Prop) (Post : outcome * state -> Prop) k
      (cond : state -> result bool) (body : state -> result (outcome * state)) st :
  cond st = Ok false -> Post (ONormal, st) ->
  match cond st with
  | Ok false => Post (ONormal, st)
  | Ok true =>
      match body st with
      | Ok (ONormal, st') => Inv (S k) st'
      | Ok (OContinue, st') => Inv (S k) st'
      | Ok (OBreak, st') => Post (ONormal, st')
      | Ok (ORet v, st') => Post (ORet v, st')
      | Err _ => False
      end
  | Err _ => False
  end.
Proof. intros -> H. exact H. Qed.

(* deterministic form of [loop_rule] whose step obligation has the shape expected by
   the [lstep_*] lemmas *)
Definition is_res (r x : outcome * state) : Prop := x = r.

Lemma loop_rule_res (Inv : nat -> state -> Prop) (r : outcome * state) (m : nat)
      (cond : state -> result bool) (body : state -> result (outcome * state)) :
  (forall k st, Inv k st ->
     (k <= m)%nat /\
     match cond st with
     | Ok false => is_res r (ONormal, st)
     | Ok true =>
         match body st with
         | Ok (ONormal, st') => Inv (S k) st'
         | Ok (OContinue, st') => Inv (S k) st'
         | Ok (OBreak, st') => is_res r (ONormal, st')
         | Ok (ORet v, st') => is_res r (ORet v, st')
         | Err _ => False
         end
     | Err _ => False
     end) ->
  forall fuel st, Inv O st -> (m < fuel)%nat ->
  loop fuel cond body st = Ok r.
Proof.
  intros Hstep fuel' st HI Hf.
  destruct (loop_rule Inv (is_res r) m cond body Hstep fuel' O st HI) as [r' [E HP]];
    [lia|]. unfold is_res in HP. subst r'. exact E.
Qed.

(* a call whose arguments, callee result and write-back are known *)
Lemma exec_call d f args st vs r st1 st2 :
  first_dup (arr_names args) = None ->
  eval_args N X st args = Ok vs ->
  cf f vs = Ok r ->
  write_back N X f st args (snd r) = Ok st1 ->
  assign_ret N f st1 d (fst r) = Ok st2 ->
  ex (SCall d f args) st = Ok (ONormal, st2).
Proof.
  intros H0 H1 H2 H3 H4. cbn [exec]. rewrite H0, H1. cbn [bind]. rewrite H2. cbn [bind].
  rewrite H3. cbn [bind]. rewrite H4. reflexivity.
Qed.

Lemma for_body_normal' (eb es : state -> result (outcome * state)) st st1 R :
  eb st = Ok (ONormal, st1) -> es st1 = R -> for_body eb es st = R.
Proof. intros H <-. apply for_body_normal. exact H. Qed.

Lemma for_body_continue' (eb es : state -> result (outcome * state)) st st1 R :
  eb st = Ok (OContinue, st1) -> es st1 = R -> for_body eb es st = R.
Proof. intros H <-. apply for_body_continue. exact H. Qed.

Lemma loop_next' f (cond : state -> result bool) body st st1 R :
  cond st = Ok true -> body st = Ok (ONormal, st1) ->
  loop f cond body st1 = R -> loop (S f) cond body st = R.
Proof. intros H1 H2 <-. apply loop_next; assumption. Qed.

Lemma exec_seq_step' a b st st1 R :
  ex a st = Ok (ONormal, st1) -> ex b st1 = R -> ex (SSeq a b) st = R.
Proof. intros H <-. apply exec_seq_step. exact H. Qed.

Lemma zlen_ltb_0 {A} (l : list A) : (zlen l <? 0) = false.
Proof. apply Z.ltb_ge. rewrite zlen_eq. lia. Qed.

End Generic.

(* run one deterministic statement: the goal is [exec .. s st = Ok (?o, ?st')] *)
Ltac mcl := repeat (progress mc_step).
Ltac run1 :=
  first [ solve [cbn; norm_state; reflexivity]
        | solve [mcl; norm_state; reflexivity]
        | solve [mc; norm_state; reflexivity] ].

(* execute the first statement of a sequence (goal: [exec .. (SSeq a b) st = R]) *)
Ltac step_with tac :=
  rewrite ?exec_seq_cons, ?exec_seq_one;
  first [ erewrite exec_seq_step; [| solve [tac] ]
        | erewrite exec_seq_stop; [| solve [tac] | discriminate ] ].
Ltac step := step_with run1.
Ltac steps := repeat step.
(* a conditional whose condition stays symbolic, both branches ending normally: merge.
   (merge_terms of Base/MiniC.v builds ill-typed terms when the heads differ,
   e.g. [-1] against [a + b]; this version only descends under identical heads) *)
Ltac merge_terms2 b A B :=
  match A with
  | B => A
  | ?f ?x =>
      match B with
      | ?g ?y =>
          let fg := merge_fn2 b f g in
          let xy := merge_terms2 b x y in
          constr:(fg xy)
      end
  | _ => constr:(if b then A else B)
  end
with merge_fn2 b F G :=
  match F with
  | G => F
  | ?f ?x =>
      match G with
      | ?g ?y =>
          let fg := merge_fn2 b f g in
          let xy := merge_terms2 b x y in
          constr:(fg xy)
      end
  end.
Ltac merge_if2 :=
  match goal with
  | |- context[if ?b then Ok ?A else Ok ?B] =>
      let t := merge_terms2 b A B in
      replace (if b then Ok A else Ok B) with (Ok t) by (destruct b; reflexivity)
  end.
Ltac run_if := mcl; merge_if2; norm_state; reflexivity.
(* one iteration of a for loop (goal: [loop (S f) cond (for_body ..) st = R]);
   [last] runs the last statement of the body *)
Ltac for_iter last :=
  eapply loop_next';
  [ first [ solve [cbn; reflexivity] | solve [mc; reflexivity] ]
  | first [ eapply for_body_normal'; [ solve [steps; last] | run1 ]
          | eapply for_body_continue'; [ solve [steps; reflexivity] | run1 ] ]
  | ].
(* a call statement at the head of a sequence; [tac] proves the callee's run lemma *)
Ltac call_with tac :=
  rewrite ?exec_seq_cons, ?exec_seq_one;
  eapply exec_seq_step';
  [ eapply exec_call;
    [ reflexivity
    | cbn; rewrite ?zlen_ltb_0; cbn; reflexivity
    | tac
    | cbn; reflexivity
    | cbn; reflexivity ]
  | norm_state ].
Ltac for_end := apply loop_done; first [ solve [cbn; reflexivity] | solve [mc; reflexivity] ].

Section Refine.
Context {T : Type} (N : NumOps T) (X : NumLit T).

Lemma getnxy_run' n ncols idx a b :
  ncols <> 0 ->
  exec_fun N X program (S n) "getnxy" [AVI ncols; AVI idx; AVArrI [a; b]]
  = Ok (RI 0, [VArrI [getnx ncols idx; getny ncols idx]]).
Proof.
  intros H. eapply exec_fun_intro; [reflexivity|reflexivity| |].
  - steps. run1.
  - reflexivity.
Qed.

Lemma neighbours_run n nrows ncols idx junk :
  List.length junk = 9%nat -> 0 <= idx < nrows * ncols -> (4 <= n)%nat ->
  exec_fun N X program (S n) "c_neighbours" [AVI nrows; AVI ncols; AVI idx; AVArrI junk]
  = Ok (RI 0, [VArrI (neighbours_raw nrows ncols idx)]).
Proof.
  intros HJ Hv Hn.
  do 9 (destruct junk as [|? junk]; [discriminate HJ|]). destruct junk; [|discriminate HJ].
  do 4 (destruct n as [|n]; [lia|]).
  eapply exec_fun_intro; [reflexivity|reflexivity| |].
  - steps.
    eapply exec_seq_step'.
    { eapply exec_call; [reflexivity | cbn; reflexivity | apply getnxy_run'; nia
                        | cbn; reflexivity | cbn; reflexivity ]. }
    norm_state. steps.
    eapply exec_seq_step'.
    { rewrite exec_for.
      do 3 (for_iter ltac:(rewrite exec_for; do 3 (for_iter run_if); for_end)).
      for_end. }
    run1.
  - reflexivity.
Qed.

(* ---------------- c_downstream on one cell ---------------- *)

Definition dn_step (codes ng : list Z) (f : Z) (acc j : Z) : Z :=
  if f =? zn codes j 0 then zn ng j (-1) else acc.

Definition dj_state nrows ncols codes fd up f ng (k : nat) (dd : Z) : state T :=
  {| s_i := [("nrows", nrows); ("ncols", ncols); ("nval", 1); ("i", 0); ("j", Z.of_nat k);
             ("fd", f); ("idxcell", up)];
     s_f := [];
     s_ai := [("flowdircode", codes); ("flowdir", fd); ("idxup", [up]); ("idxdown", [dd]);
              ("neighbours", ng)];
     s_af := [] |}.

Definition dj_inv nrows ncols codes fd up f ng (k : nat) (st : state T) : Prop :=
  (k <= 9)%nat /\
  st = dj_state nrows ncols codes fd up f ng k
         (fold_left (dn_step codes ng f) (firstn k slots) (-1)).

Lemma firstn_slots_S k : (k < 9)%nat -> firstn (S k) slots = firstn k slots ++ [Z.of_nat k].
Proof. intros H. do 9 (destruct k as [|k]; [reflexivity|]). lia. Qed.

Lemma dj_loop nrows ncols codes fd up f ng n cf :
  List.length codes = 9%nat -> List.length ng = 9%nat -> (9 < n)%nat ->
  loop n (cond_of N X (ICmp CLt (IVar "j") (IConst 9)))
    (for_body
       (exec N X cf n
          (SIf (ICmp CEq (IVar "fd") (IArr "flowdircode" (IVar "j")))
             (seq [SStoreI "idxdown" (IVar "i") (IArr "neighbours" (IVar "j")); SContinue])
             SSkip))
       (exec N X cf n (SSetI "j" (IBin IAdd (IVar "j") (IConst 1)))))
    (dj_state nrows ncols codes fd up f ng 0 (-1))
  = Ok (ONormal, dj_state nrows ncols codes fd up f ng 9
                   (fold_left (dn_step codes ng f) slots (-1))).
Proof.
  intros Hc Hg Hn.
  apply (loop_rule_res (dj_inv nrows ncols codes fd up f ng) _ 9%nat);
    [ | split; [lia|reflexivity] | lia].
  intros k st [Hk ->]. split; [exact Hk|].
  destruct (Nat.eq_dec k 9) as [->|Hk9].
  - apply lstep_done; [reflexivity|]. reflexivity.
  - assert (Hk' : (k < 9)%nat) by lia.
    eapply lstep_next with
      (st1 := dj_state nrows ncols codes fd up f ng (S k)
                (dn_step codes ng f (fold_left (dn_step codes ng f) (firstn k slots) (-1))
                         (Z.of_nat k))).
    + unfold dj_state. cbn. zb. reflexivity.
    + remember (fold_left (dn_step codes ng f) (firstn k slots) (-1)) as acc eqn:Hacc.
      unfold dj_state. cbn.
      rewrite (zget_ok codes _ 0), (zget_ok ng _ (-1)) by lia.
      cbn. rewrite truth_b2z. unfold dn_step, zn. rewrite !Nat2Z.id.
      destruct (f =? nth k codes 0); cbn; norm_state;
        replace (Z.of_nat k + 1) with (Z.of_nat (S k)) by lia; reflexivity.
    + split; [lia|]. rewrite firstn_slots_S by exact Hk'. rewrite fold_left_app. reflexivity.
Qed.

#[local] Arguments neighbours_raw : simpl never.

Definition dn_val (codes : list Z) (nrows ncols : Z) (fd : list Z) (up : Z) : Z :=
  let f := zn fd up 0 in
  if f =? 0 then -2
  else fold_left (dn_step codes (neighbours_raw nrows ncols up) f) slots (-1).

Lemma downstream_with_valid codes nrows ncols fd up :
  0 <= up < nrows * ncols ->
  downstream_with codes nrows ncols fd up = Some (dn_val codes nrows ncols fd up).
Proof.
  intros H. unfold downstream_with, valid_cell, dn_val.
  replace (up <? 0) with false by (symmetry; apply Z.ltb_ge; lia).
  replace (nrows * ncols <=? up) with false by (symmetry; apply Z.leb_gt; lia).
  cbn [orb negb]. destruct (zn fd up 0 =? 0); reflexivity.
Qed.

Lemma downstream_with_invalid codes nrows ncols fd up :
  ~ (0 <= up < nrows * ncols) -> downstream_with codes nrows ncols fd up = None.
Proof.
  intros H. unfold downstream_with, valid_cell.
  destruct (Z.ltb_spec up 0); [reflexivity|].
  destruct (Z.leb_spec (nrows * ncols) up); [reflexivity|]. lia.
Qed.

Lemma neighbours_raw_length nrows ncols idx : List.length (neighbours_raw nrows ncols idx) = 9%nat.
Proof. reflexivity. Qed.

Lemma downstream_run n nrows ncols codes fd up dd :
  List.length codes = 9%nat -> List.length fd = Z.to_nat (nrows * ncols) ->
  0 <= up < nrows * ncols -> (10 <= n)%nat ->
  exec_fun N X program (S n) "c_downstream"
    [AVI nrows; AVI ncols; AVArrI codes; AVArrI fd; AVI 1; AVArrI [up]; AVArrI [dd]]
  = Ok (RI 0, [VArrI codes; VArrI fd; VArrI [up]; VArrI [dn_val codes nrows ncols fd up]]).
Proof.
  intros Hc Hfd Hv Hn.
  do 2 (destruct n as [|n]; [lia|]).
  unfold dn_val. cbv zeta.
  assert (Hz : zget fd up = Some (zn fd up 0)) by (apply zget_ok; lia).
  remember (zn fd up 0) as f eqn:Hf.
  destruct (Z.eqb_spec f 0) as [Hf0|Hf0].
  - eapply exec_fun_intro; [reflexivity|reflexivity| |].
    + steps.
      eapply exec_seq_step'.
      { rewrite exec_for.
        eapply loop_next'; [cbn; reflexivity | | ].
        { eapply for_body_continue'.
          { steps.
            call_with ltac:(apply neighbours_run; [reflexivity | lia | lia]).
            step_with ltac:(cbn; rewrite Hz; cbn; norm_state; reflexivity).
            steps. reflexivity. }
          run1. }
        for_end. }
      run1.
    + reflexivity.
  - eapply exec_fun_intro; [reflexivity|reflexivity| |].
    + steps.
      eapply exec_seq_step'.
      { rewrite exec_for.
        eapply loop_next'; [cbn; reflexivity | | ].
        { eapply for_body_normal'.
          { steps.
            call_with ltac:(apply neighbours_run; [reflexivity | lia | lia]).
            step_with ltac:(cbn; rewrite Hz; cbn; norm_state; reflexivity).
            steps.
            rewrite exec_for. apply dj_loop; [exact Hc | reflexivity | lia]. }
          run1. }
        for_end. }
      run1.
    + reflexivity.
Qed.

Lemma downstream_run_invalid n nrows ncols codes fd up dd :
  ~ (0 <= up < nrows * ncols) -> (1 <= n)%nat ->
  exists code, 0 < code /\
    exec_fun N X program (S n) "c_downstream"
      [AVI nrows; AVI ncols; AVArrI codes; AVArrI fd; AVI 1; AVArrI [up]; AVArrI [dd]]
    = Ok (RI code, [VArrI codes; VArrI fd; VArrI [up]; VArrI [dd]]).
Proof.
  intros Hv Hn. destruct n as [|n]; [lia|].
  eexists. split; [|eapply exec_fun_intro; [reflexivity|reflexivity| |]].
  2:{ steps.
      eapply exec_seq_stop; [|discriminate].
      rewrite exec_for. eapply loop_ret; [cbn; reflexivity|].
      eapply for_body_ret.
      step.
      destruct (Z.ltb_spec up 0).
      - step. reflexivity.
      - step. reflexivity. }
  2:{ reflexivity. }
  reflexivity.
Qed.

(* c_downstream called on ONE cell (nval = 1), every cell number (valid or not), any
   table of 9 codes, any previous content of the one-element output buffer *)
Theorem refine_downstream1 n nrows ncols codes fd up dd :
  List.length codes = 9%nat -> List.length fd = Z.to_nat (nrows * ncols) -> (10 <= n)%nat ->
  match downstream_with codes nrows ncols fd up with
  | Some d =>
      exec_fun N X program (S n) "c_downstream"
        [AVI nrows; AVI ncols; AVArrI codes; AVArrI fd; AVI 1; AVArrI [up]; AVArrI [dd]]
      = Ok (RI 0, [VArrI codes; VArrI fd; VArrI [up]; VArrI [d]])
  | None =>
      exists code, 0 < code /\
        exec_fun N X program (S n) "c_downstream"
          [AVI nrows; AVI ncols; AVArrI codes; AVArrI fd; AVI 1; AVArrI [up]; AVArrI [dd]]
        = Ok (RI code, [VArrI codes; VArrI fd; VArrI [up]; VArrI [dd]])
  end.
Proof.
  intros Hc Hfd Hn.
  destruct (Z.le_gt_cases 0 up) as [H0|H0]; [destruct (Z.lt_ge_cases up (nrows * ncols)) as [H1|H1]|].
  - rewrite downstream_with_valid by lia. apply downstream_run; [exact Hc|exact Hfd|lia|exact Hn].
  - rewrite downstream_with_invalid by lia. apply downstream_run_invalid; lia.
  - rewrite downstream_with_invalid by lia. apply downstream_run_invalid; lia.
Qed.

End Refine.


(* ---------------- model side: lists, downstream values, the walk ---------------- *)

Lemma upd_len {A} (l : list A) i f : List.length (upd l i f) = List.length l.
Proof.
  revert i; induction l as [|x r IH]; intros i; cbn [upd]; [reflexivity|].
  destruct (i =? 0); cbn [List.length]; [reflexivity|]. rewrite IH. reflexivity.
Qed.

Lemma zset_upd {A} (l : list A) i (f : A -> A) d :
  0 <= i < Z.of_nat (List.length l) ->
  zset l i (f (zn l i d)) = Some (upd l i f).
Proof.
  revert i; induction l as [|x r IH]; intros i H; cbn [List.length] in H; [lia|].
  cbn [zset upd]. destruct (Z.eqb_spec i 0) as [->|Hne]; [reflexivity|].
  unfold zn in *. replace (Z.to_nat i) with (S (Z.to_nat (i - 1))) by lia. cbn [nth].
  rewrite IH by lia. reflexivity.
Qed.

Lemma zset_upd_const {A} (l : list A) i (v : A) :
  0 <= i < Z.of_nat (List.length l) ->
  zset l i v = Some (upd l i (fun _ => v)).
Proof. intros H. apply (zset_upd l i (fun _ => v) v H). Qed.

Lemma zget_zn {A} (l : list A) i d :
  0 <= i < Z.of_nat (List.length l) -> zget l i = Some (zn l i d).
Proof. intros H. apply zget_ok. exact H. Qed.

Lemma zseq_snoc a k : zseq a (S k) = zseq a k ++ [a + Z.of_nat k].
Proof.
  revert a; induction k as [|k IH]; intros a.
  - cbn [zseq app]. replace (a + Z.of_nat 0) with a by lia. reflexivity.
  - change (zseq a (S (S k))) with (a :: zseq (a + 1) (S k)). rewrite IH. cbn [zseq app].
    replace (a + 1 + Z.of_nat k) with (a + Z.of_nat (S k)) by lia. reflexivity.
Qed.

Lemma fold_left_ext_in {A B} (f g : A -> B -> A) l :
  (forall a b, f a b = g a b) -> forall a, fold_left f l a = fold_left g l a.
Proof. intros H. induction l as [|b l IH]; intros a; cbn [fold_left]; [reflexivity|]. rewrite H. apply IH. Qed.

(* every entry of the neighbour table is -1 or a cell of the grid *)
Definition cell_or_neg (nrows ncols c : Z) : Prop := c < 0 \/ 0 <= c < nrows * ncols.

Lemma neighbour_at_range nrows ncols nx0 ny0 o :
  cell_or_neg nrows ncols (neighbour_at nrows ncols nx0 ny0 o).
Proof.
  unfold neighbour_at, cell_or_neg. destruct o as [ix iy].
  destruct ((ix =? 0) && (iy =? 0)); [left; lia|].
  destruct (Z.ltb_spec (nx0 + ix) 0); cbn [orb]; [left; lia|].
  destruct (Z.ltb_spec (ncols - 1) (nx0 + ix)); cbn [orb]; [left; lia|].
  destruct (Z.ltb_spec (ny0 + iy) 0); cbn [orb]; [left; lia|].
  destruct (Z.ltb_spec (nrows - 1) (ny0 + iy)); cbn [orb]; [left; lia|].
  right. nia.
Qed.

Lemma zn_neighbours_range nrows ncols idx j :
  cell_or_neg nrows ncols (zn (neighbours_raw nrows ncols idx) j (-1)).
Proof.
  unfold zn. remember (neighbours_raw nrows ncols idx) as ng eqn:Hng.
  destruct (nth_in_or_default (Z.to_nat j) ng (-1)) as [H|H].
  - rewrite Hng in H at 2. unfold neighbours_raw in H. apply in_map_iff in H.
    destruct H as [o [<- _]]. apply neighbour_at_range.
  - rewrite H. left. lia.
Qed.

Lemma dn_val_range codes nrows ncols fd up :
  cell_or_neg nrows ncols (dn_val codes nrows ncols fd up).
Proof.
  unfold dn_val. cbv zeta. destruct (zn fd up 0 =? 0); [left; lia|].
  assert (G : forall l a, cell_or_neg nrows ncols a ->
            cell_or_neg nrows ncols
              (fold_left (dn_step codes (neighbours_raw nrows ncols up) (zn fd up 0)) l a)).
  { induction l as [|j l IH]; intros a Ha; cbn [fold_left]; [exact Ha|].
    apply IH. unfold dn_step. destruct (_ =? _); [apply zn_neighbours_range|exact Ha]. }
  apply G. left. lia.
Qed.

Section Walk.
Context {T : Type} (N : NumOps T).

(* the capped walk of one start cell, one step at a time (what the while loop does);
   [v] = the value added to every visited cell *)
Fixpoint walkw (codes : list Z) (v : T) (fuel : nat) (nrows ncols : Z) (fd : list Z)
         (nodata : T) (acc : list T) (up : Z) : list T :=
  match fuel with
  | O => acc
  | S f =>
      match downstream_with codes nrows ncols fd up with
      | Some d =>
          if d <? 0 then upd acc up (fun _ => nodata)
          else walkw codes v f nrows ncols fd nodata (upd acc d (fun x => nadd N x v)) d
      | None => acc
      end
  end.

Lemma walkw_length codes v fuel nrows ncols fd nodata : forall acc up,
  List.length (walkw codes v fuel nrows ncols fd nodata acc up) = List.length acc.
Proof.
  induction fuel as [|f IH]; intros acc up; cbn [walkw]; [reflexivity|].
  destruct (downstream_with codes nrows ncols fd up) as [d|]; [|reflexivity].
  destruct (d <? 0); [apply upd_len|]. rewrite IH. apply upd_len.
Qed.

Lemma walk_apply_gen_walkw (v : T) fuel nrows ncols fd nodata : forall acc i,
  walk_apply_gen N (fun _ => v) fuel nrows ncols fd nodata acc i
  = walkw FLOWDIRCODE v fuel nrows ncols fd nodata acc i.
Proof.
  unfold walk_apply_gen.
  induction fuel as [|f IH]; intros acc i; [reflexivity|].
  cbn [dpath walkw]. unfold downstream.
  destruct (downstream_with FLOWDIRCODE nrows ncols fd i) as [d|]; [|reflexivity].
  destruct (d <? 0); [reflexivity|].
  specialize (IH (upd acc d (fun x => nadd N x v)) d).
  destruct (dpath f nrows ncols fd d) as [p t]. cbn [fold_left]. exact IH.
Qed.

(* the kernel's result for arbitrary direction codes and an arbitrary initial
   content of the accumulation buffer *)
Definition accw (codes : list Z) (nrows ncols maxcells : Z) (nodata : T) (fd : list Z)
           (field acc0 : list T) : list T :=
  fold_left (fun acc i => walkw codes (zn field i (n0 N)) (Z.to_nat (maxcells + 1))
                                nrows ncols fd nodata acc i)
            (zseq 0 (Z.to_nat (nrows * ncols))) acc0.

Lemma accumulate_accw nrows ncols maxcells nodata fd field :
  accumulate N nrows ncols maxcells nodata fd field =
  if (maxcells <? 1) || (nrows <? 1) then None
  else Some (accw FLOWDIRCODE nrows ncols maxcells nodata fd field field).
Proof.
  unfold accumulate, accumulate_with, accw.
  destruct (maxcells <? 1); [reflexivity|]. destruct (nrows <? 1); [reflexivity|].
  cbn [orb]. f_equal. apply fold_left_ext_in. intros a b. unfold walk_apply.
  apply walk_apply_gen_walkw.
Qed.

End Walk.

(* ---------------- c_accumulate ---------------- *)

(* the loops of c_accumulate, extracted from the generated AST *)
Fixpoint nth_stmt (k : nat) (s : stmt) : stmt :=
  match k, s with
  | O, SSeq a _ => a
  | O, a => a
  | S k', SSeq _ b => nth_stmt k' b
  | S _, _ => SSkip
  end.
Definition fun_body (f : fundef) : stmt := match f with Fun _ b => b | Untranslated _ => SSkip end.
Definition loop_body (s : stmt) : stmt :=
  match s with SFor _ _ b => b | SWhile _ b => b | _ => SSkip end.

Definition acc_for : stmt := Eval cbv in nth_stmt 11 (fun_body c_accumulate_def).
Definition acc_while : stmt := Eval cbv in nth_stmt 4 (loop_body acc_for).

Section Acc.
Context {T : Type} (N : NumOps T) (X : NumLit T).

Lemma zset_upd_add (l : list T) i (v d : T) :
  0 <= i < Z.of_nat (List.length l) ->
  zset l i (nadd N (zn l i d) v) = Some (upd l i (fun x => nadd N x v)).
Proof. intros H. exact (zset_upd l i (fun x => nadd N x v) d H). Qed.

Variables (nrows ncols nprint mx : Z) (nodata : T) (codes fd : list Z) (field : list T).
Hypothesis Hcodes : List.length codes = 9%nat.
Hypothesis Hfd : List.length fd = Z.to_nat (nrows * ncols).
Hypothesis Hfield : List.length field = Z.to_nat (nrows * ncols).

Definition wl_state (i kc ierr : Z) (av : T) (dd up : Z) (acc : list T) : state T :=
  {| s_i := [("nrows", nrows); ("ncols", ncols); ("nprint", nprint);
             ("max_accumulated_cells", mx); ("accumulated_cells", kc); ("i", i);
             ("ierr", ierr); ("ntot", nrows * ncols)];
     s_f := [("nodata_to_accumulate", nodata); ("accvalue", av)];
     s_ai := [("flowdircode", codes); ("flowdir", fd); ("idxdown", [dd]); ("idxup", [up])];
     s_af := [("to_accumulate", field); ("accumulation", acc)] |}.

Notation F := (Z.to_nat (mx + 1)).
Notation wk v fuel acc up := (walkw N codes v fuel nrows ncols fd nodata acc up).

Definition wl_inv (i : Z) (W : list T) (k : nat) (st : state T) : Prop :=
  exists ierr av dd up acc,
    st = wl_state i (Z.of_nat k) ierr av dd up acc /\
    0 <= up < nrows * ncols /\
    List.length acc = Z.to_nat (nrows * ncols) /\
    (k <= F)%nat /\
    wk (zn field i (n0 N)) (F - k)%nat acc up = W.

Definition wl_post (i : Z) (W : list T) (r : outcome T * state T) : Prop :=
  exists kc ierr av dd up, r = (ONormal, wl_state i kc ierr av dd up W).

Lemma wl_loop n i ierr0 av0 acc :
  0 <= i < nrows * ncols -> List.length acc = Z.to_nat (nrows * ncols) ->
  1 <= mx -> (F < n)%nat -> (11 <= n)%nat ->
  exists kc ierr av dd up,
    exec N X (exec_fun N X program n) n acc_while (wl_state i 0 ierr0 av0 0 i acc)
    = Ok (ONormal, wl_state i kc ierr av dd up (wk (zn field i (n0 N)) F acc i)).
Proof.
  intros Hi Hacc Hmx HnF Hn11.
  destruct n as [|n']; [lia|].
  unfold acc_while. rewrite exec_while.
  set (v := zn field i (n0 N)).
  set (W := wk v F acc i).
  match goal with
  | |- context[loop ?f ?c ?b ?s] =>
      destruct (loop_rule (wl_inv i W) (wl_post i W) F c b) with (fuel := f) (k := O) (st := s)
        as (r & Hr & HP)
  end.
  - intros k st (ierr & av & dd & up & acc' & -> & Hup & Hlen & Hk & HW).
    split; [exact Hk|].
    destruct (Nat.eq_dec k F) as [HkF|HkF].
    + apply lstep_done.
      * unfold wl_state. cbn. zb. reflexivity.
      * replace (F - k)%nat with O in HW by lia. cbn [walkw] in HW. subst acc'.
        exists (Z.of_nat k), ierr, av, dd, up. reflexivity.
    + replace (F - k)%nat with (S (F - S k)) in HW by lia. cbn [walkw] in HW.
      rewrite (downstream_with_valid codes nrows ncols fd up Hup) in HW.
      pose proof (dn_val_range codes nrows ncols fd up) as Hd.
      remember (dn_val codes nrows ncols fd up) as d eqn:Hdv.
      assert (Hcall : exec_fun N X program (S n') "c_downstream"
                [AVI nrows; AVI ncols; AVArrI codes; AVArrI fd; AVI 1; AVArrI [up]; AVArrI [dd]]
              = Ok (RI 0, [VArrI codes; VArrI fd; VArrI [up]; VArrI [d]])).
      { rewrite Hdv.
        apply downstream_run; [exact Hcodes | exact Hfd | exact Hup | lia]. }
      destruct (Z.ltb_spec d 0) as [Hneg|Hpos].
      * eapply lstep_break with
          (st1 := wl_state i (Z.of_nat k) 0 av d up (upd acc' up (fun _ => nodata))).
        -- unfold wl_state. cbn. zb. reflexivity.
        -- unfold wl_state.
           call_with ltac:(exact Hcall).
           step.
           step_with ltac:(cbn; zb; cbn;
                           rewrite (zset_upd_const acc' up nodata) by lia;
                           cbn; norm_state; reflexivity).
           reflexivity.
        -- exists (Z.of_nat k), 0, av, d, up. rewrite HW. reflexivity.
      * assert (Hdr : 0 <= d < nrows * ncols) by (destruct Hd; lia).
        eapply lstep_next with
          (st1 := wl_state i (Z.of_nat k + 1) 0 v d d (upd acc' d (fun x => nadd N x v))).
        -- unfold wl_state. cbn. zb. reflexivity.
        -- unfold wl_state.
           call_with ltac:(exact Hcall).
           step. step.
           step_with ltac:(cbn; rewrite (zget_zn field i (n0 N)) by lia;
                           cbn; norm_state; reflexivity).
           step_with ltac:(cbn; rewrite (zget_zn acc' d (n0 N)) by lia; cbn;
                           rewrite (zset_upd_add acc' d) by lia;
                           cbn; norm_state; reflexivity).
           step. run1.
        -- exists 0, v, d, d, (upd acc' d (fun x => nadd N x v)).
           split; [unfold wl_state; replace (Z.of_nat (S k)) with (Z.of_nat k + 1) by lia; reflexivity|].
           split; [exact Hdr|]. split; [rewrite upd_len; exact Hlen|]. split; [lia|exact HW].
  - exists ierr0, av0, 0, i, acc. split; [reflexivity|]. split; [exact Hi|].
    split; [exact Hacc|]. split; [lia|]. rewrite Nat.sub_0_r. reflexivity.
  - lia.
  - destruct HP as (kc & ierr & av & dd & up & ->). exists kc, ierr, av, dd, up. exact Hr.
Qed.

Notation NT := (Z.to_nat (nrows * ncols)).
Notation wstep := (fun a c => wk (zn field c (n0 N)) F a c).

Definition ol_inv (acc0 : list T) (k : nat) (st : state T) : Prop :=
  exists kc ierr av dd up,
    st = wl_state (Z.of_nat k) kc ierr av dd up (fold_left wstep (zseq 0 k) acc0) /\
    (k <= NT)%nat.

Definition ol_post (acc0 : list T) (r : outcome T * state T) : Prop :=
  exists kc ierr av dd up,
    r = (ONormal, wl_state (Z.of_nat NT) kc ierr av dd up
                    (accw N codes nrows ncols mx nodata fd field acc0)).

Lemma fold_wstep_length l : forall a, List.length (fold_left wstep l a) = List.length a.
Proof.
  induction l as [|c l IH]; intros a; cbn [fold_left]; [reflexivity|].
  rewrite IH. apply walkw_length.
Qed.

Lemma ol_loop n av0 acc0 :
  List.length acc0 = NT -> 1 <= mx -> (F < n)%nat -> (NT < n)%nat -> (11 <= n)%nat ->
  exists kc ierr av dd up,
    exec N X (exec_fun N X program n) n acc_for (wl_state 0 0 0 av0 0 0 acc0)
    = Ok (ONormal, wl_state (Z.of_nat NT) kc ierr av dd up
                     (accw N codes nrows ncols mx nodata fd field acc0)).
Proof.
  intros Hacc Hmx HnF HnT Hn11.
  unfold acc_for. rewrite exec_for.
  match goal with
  | |- context[loop ?f ?c ?b ?s] =>
      destruct (loop_rule (ol_inv acc0) (ol_post acc0) NT c b) with (fuel := f) (k := O) (st := s)
        as (r & Hr & HP)
  end.
  - intros k st (kc & ierr & av & dd & up & -> & Hk).
    split; [exact Hk|].
    destruct (Nat.eq_dec k NT) as [HkN|HkN].
    + apply lstep_done.
      * unfold wl_state. cbn. zb. reflexivity.
      * exists kc, ierr, av, dd, up. unfold accw. rewrite <- HkN. reflexivity.
    + assert (Hi : 0 <= Z.of_nat k < nrows * ncols) by lia.
      remember (fold_left wstep (zseq 0 k) acc0) as acck eqn:Hacck.
      assert (Hlk : List.length acck = NT) by (rewrite Hacck, fold_wstep_length; exact Hacc).
      destruct (wl_loop n (Z.of_nat k) ierr av acck Hi Hlk Hmx HnF Hn11)
        as (kc' & ierr' & av' & dd' & up' & Hwl).
      eapply lstep_next with
        (st1 := wl_state (Z.of_nat k + 1) kc' ierr' av' dd' up'
                  (wk (zn field (Z.of_nat k) (n0 N)) F acck (Z.of_nat k))).
      * unfold wl_state. cbn. zb. reflexivity.
      * eapply for_body_normal'.
        { unfold wl_state.
          destruct (Z.eqb_spec nprint 0) as [Hnp|Hnp].
          - step_with ltac:(mc; rewrite ?if_same; norm_state; reflexivity).
            steps. exact Hwl.
          - step_with ltac:(mc; rewrite ?if_same; norm_state; reflexivity).
            steps. exact Hwl. }
        unfold wl_state. run1.
      * exists kc', ierr', av', dd', up'. split; [|lia].
        replace (Z.of_nat (S k)) with (Z.of_nat k + 1) by lia.
        rewrite zseq_snoc, fold_left_app, <- Hacck. cbn [fold_left]. reflexivity.
  - exists 0, 0, av0, 0, 0. split; [reflexivity|lia].
  - lia.
  - destruct HP as (kc & ierr & av & dd & up & ->). exists kc, ierr, av, dd, up. exact Hr.
Qed.
End Acc.

Section Main.
Context {T : Type} (N : NumOps T) (X : NumLit T).

(* c_accumulate, most general form: ANY table of 9 direction codes, ANY initial content
   of the accumulation buffer, any nprint (0 included), any grid shape.
   [n] = fuel left for the loops (ntot iterations of the for loop, at most
   max_accumulated_cells+1 of the while loop, 9 of the loop of c_downstream) and for
   the calls (c_downstream -> c_neighbours -> getnxy). *)
Theorem refine_accumulate_gen nrows ncols nprint maxcells (nodata : T) codes fd field acc0 n :
  List.length codes = 9%nat ->
  List.length fd = Z.to_nat (nrows * ncols) ->
  List.length field = Z.to_nat (nrows * ncols) ->
  List.length acc0 = Z.to_nat (nrows * ncols) ->
  (Nat.max (Nat.max (Z.to_nat (nrows * ncols)) (Z.to_nat (maxcells + 1))) 10 < n)%nat ->
  if (maxcells <? 1) || (nrows <? 1)
  then exists code, 0 < code /\
         exec_fun N X program (S n) "c_accumulate"
           [AVI nrows; AVI ncols; AVI nprint; AVI maxcells; AVF nodata;
            AVArrI codes; AVArrI fd; AVArrF field; AVArrF acc0]
         = Ok (RI code, [VArrI codes; VArrI fd; VArrF field; VArrF acc0])
  else exec_fun N X program (S n) "c_accumulate"
         [AVI nrows; AVI ncols; AVI nprint; AVI maxcells; AVF nodata;
          AVArrI codes; AVArrI fd; AVArrF field; AVArrF acc0]
       = Ok (RI 0, [VArrI codes; VArrI fd; VArrF field;
                    VArrF (accw N codes nrows ncols maxcells nodata fd field acc0)]).
Proof.
  intros Hcodes Hfd Hfield Hacc Hn.
  destruct (Z.ltb_spec maxcells 1) as [Hmx|Hmx]; cbn [orb].
  - eexists. split; [|eapply exec_fun_intro; [reflexivity|reflexivity| |]].
    2:{ steps. reflexivity. }
    2:{ reflexivity. }
    reflexivity.
  - destruct (Z.ltb_spec nrows 1) as [Hnr|Hnr].
    + eexists. split; [|eapply exec_fun_intro; [reflexivity|reflexivity| |]].
      2:{ steps. reflexivity. }
      2:{ reflexivity. }
      reflexivity.
    + destruct (ol_loop N X nrows ncols nprint maxcells nodata codes fd field
                  Hcodes Hfd Hfield n (nofZ N 0) acc0 Hacc Hmx)
        as (kc & ierr & av & dd & up & Hol); [lia|lia|lia|].
      eapply exec_fun_intro; [reflexivity|reflexivity| |].
      * steps.
        eapply exec_seq_step'; [exact Hol|].
        unfold wl_state. run1.
      * reflexivity.
Qed.

(* the wrapper hydrodiy.gis.grid.accumulate: the codes are the constant FLOWDIRCODE and
   the accumulation buffer starts as a copy of the field: the kernel computes the
   model [accumulate] of Model/Accumulate.v (the one of property C11) *)
Theorem refine_accumulate nrows ncols nprint maxcells (nodata : T) fd field n :
  List.length fd = Z.to_nat (nrows * ncols) ->
  List.length field = Z.to_nat (nrows * ncols) ->
  (Nat.max (Nat.max (Z.to_nat (nrows * ncols)) (Z.to_nat (maxcells + 1))) 10 < n)%nat ->
  match accumulate N nrows ncols maxcells nodata fd field with
  | Some res =>
      exec_fun N X program (S n) "c_accumulate"
        [AVI nrows; AVI ncols; AVI nprint; AVI maxcells; AVF nodata;
         AVArrI FLOWDIRCODE; AVArrI fd; AVArrF field; AVArrF field]
      = Ok (RI 0, [VArrI FLOWDIRCODE; VArrI fd; VArrF field; VArrF res])
  | None =>
      exists code, 0 < code /\
        exec_fun N X program (S n) "c_accumulate"
          [AVI nrows; AVI ncols; AVI nprint; AVI maxcells; AVF nodata;
           AVArrI FLOWDIRCODE; AVArrI fd; AVArrF field; AVArrF field]
        = Ok (RI code, [VArrI FLOWDIRCODE; VArrI fd; VArrF field; VArrF field])
  end.
Proof.
  intros Hfd Hfield Hn.
  pose proof (refine_accumulate_gen nrows ncols nprint maxcells nodata FLOWDIRCODE fd field field n
                eq_refl Hfd Hfield Hfield Hn) as H.
  rewrite accumulate_accw. destruct ((maxcells <? 1) || (nrows <? 1)); exact H.
Qed.

End Main.
