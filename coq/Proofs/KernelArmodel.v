(* C17 on the regenerated program: the property theorems of Proofs/ArmodelProofs.v
   transported through the refinement theorems of Proofs/RefineArmodel.v.
   Every statement is about [exec_fun RR XRR program] - the MiniC translation of
   src/hydrodiy/stat/c_armodels.c regenerated from the tree under test - run on
   real numbers. *)
From Coq Require Import ZArith Bool List String Lia Reals.
From Hy Require Import Base.Num Base.MiniC Gen.KernelsAst Gen.Consts Model.Armodel
  Proofs.ArmodelProofs Proofs.RefineArmodel.
Import ListNotations.
Open Scope string_scope.
Open Scope list_scope.

Definition ar_args (e params : list R) (m ini : R) (out : list R) : list (argval R) :=
  [AVI (zlen e); AVI (zlen params); AVF m; AVF ini; AVArrF params; AVArrF e; AVArrF out].

Definition run_sim (n : nat) (m ini : R) (params e buf : list R) :=
  exec_fun RR XRR program (S n) "c_armodel_sim" (ar_args e params m ini buf).
Definition run_res (n : nat) (m ini : R) (params y buf : list R) :=
  exec_fun RR XRR program (S n) "c_armodel_residual" (ar_args y params m ini buf).

Lemma sim_loop_length {T} (O : NumOps T) m params prev innov :
  List.length (sim_loop O m params prev innov) = List.length innov.
Proof.
  revert prev; induction innov as [|e r IH]; intros prev; [reflexivity|].
  cbn [sim_loop]. destruct (sim_step O m params prev e) as [p y]. cbn [List.length]. rewrite IH. reflexivity.
Qed.

Lemma res_loop_length {T} (O : NumOps T) m params prev inputs :
  List.length (res_loop O m params prev inputs) = List.length inputs.
Proof.
  revert prev; induction inputs as [|e r IH]; intros prev; [reflexivity|].
  cbn [res_loop]. destruct (res_step O m params prev e) as [p y]. cbn [List.length]. rewrite IH. reflexivity.
Qed.

Lemma armodel_sim_length {T} (O : NumOps T) m ini params innov out :
  armodel_sim O m ini params innov = ArOk out -> List.length out = List.length innov.
Proof.
  unfold armodel_sim. destruct (ar_params_ok O m ini params); [|discriminate].
  intros [= <-]. apply sim_loop_length.
Qed.

Lemma armodel_residual_length {T} (O : NumOps T) m ini params inputs out :
  armodel_residual O m ini params inputs = ArOk out -> List.length out = List.length inputs.
Proof.
  unfold armodel_residual. destruct (ar_params_ok O m ini params); [|discriminate].
  intros [= <-]. apply res_loop_length.
Qed.

(* the translated simulation kernel computes the AR recursion, for every order
   accepted by the model's parameter check, every length, every buffer content *)
Theorem kernel_sim_is_recursion m ini params e buf n :
  ar_params_ok RR m ini params = true ->
  List.length buf = List.length e -> (Nat.max (List.length e) 10 < n)%nat ->
  run_sim n m ini params e buf =
  Ok (RI 0%Z, [VArrF params; VArrF e;
               VArrF (map (fun z => (z + m)%R) (ar_rec params (ini - m)%R [] e))]).
Proof.
  intros Hok Hb Hn. unfold run_sim, ar_args.
  apply (refine_armodel_sim_ok RR XRR); try assumption; [reflexivity|].
  apply sim_is_recursion; assumption.
Qed.

(* residual(sim(e)) = e, executed on the translated kernels *)
Theorem kernel_residual_of_sim m ini params e buf1 buf2 n :
  ar_params_ok RR m ini params = true ->
  List.length buf1 = List.length e -> List.length buf2 = List.length e ->
  (Nat.max (List.length e) 10 < n)%nat ->
  exists y,
    run_sim n m ini params e buf1 = Ok (RI 0%Z, [VArrF params; VArrF e; VArrF y]) /\
    run_res n m ini params y buf2 = Ok (RI 0%Z, [VArrF params; VArrF y; VArrF e]).
Proof.
  intros Hok H1 H2 Hn.
  destruct (residual_of_sim m ini params e Hok) as (y & Hs & Hr).
  pose proof (armodel_sim_length RR _ _ _ _ _ Hs) as Hly.
  exists y. split.
  - unfold run_sim, ar_args. apply (refine_armodel_sim_ok RR XRR); try assumption; reflexivity.
  - unfold run_res, ar_args. apply (refine_armodel_residual_ok RR XRR); try assumption;
      [reflexivity|congruence|rewrite Hly; assumption].
Qed.

(* sim(residual(y)) = y, executed on the translated kernels *)
Theorem kernel_sim_of_residual m ini params y buf1 buf2 n :
  ar_params_ok RR m ini params = true ->
  List.length buf1 = List.length y -> List.length buf2 = List.length y ->
  (Nat.max (List.length y) 10 < n)%nat ->
  exists e,
    run_res n m ini params y buf1 = Ok (RI 0%Z, [VArrF params; VArrF y; VArrF e]) /\
    run_sim n m ini params e buf2 = Ok (RI 0%Z, [VArrF params; VArrF e; VArrF y]).
Proof.
  intros Hok H1 H2 Hn.
  destruct (sim_of_residual m ini params y Hok) as (e & Hr & Hs).
  pose proof (armodel_residual_length RR _ _ _ _ _ Hr) as Hle.
  exists e. split.
  - unfold run_res, ar_args. apply (refine_armodel_residual_ok RR XRR); try assumption; reflexivity.
  - unfold run_sim, ar_args. apply (refine_armodel_sim_ok RR XRR); try assumption;
      [reflexivity|congruence|rewrite Hle; assumption].
Qed.

(* unsupported orders / NaN parameters: the translated kernels return a positive
   error code and leave all three arrays untouched (any arithmetic instance) *)
Theorem kernel_rejects {T} (N : NumOps T) (X : NumLit T) m ini params s buf n :
  nofZ N 0 = n0 N ->
  ar_params_ok N m ini params = false ->
  List.length buf = List.length s -> (Nat.max (List.length s) 10 < n)%nat ->
  (exists code, (0 < code)%Z /\
     exec_fun N X program (S n) "c_armodel_sim"
       [AVI (zlen s); AVI (zlen params); AVF m; AVF ini; AVArrF params; AVArrF s; AVArrF buf]
     = Ok (RI code, [VArrF params; VArrF s; VArrF buf])) /\
  (exists code, (0 < code)%Z /\
     exec_fun N X program (S n) "c_armodel_residual"
       [AVI (zlen s); AVI (zlen params); AVF m; AVF ini; AVArrF params; AVArrF s; AVArrF buf]
     = Ok (RI code, [VArrF params; VArrF s; VArrF buf])).
Proof.
  intros HZ Hbad Hb Hn. split.
  - apply (refine_armodel_sim_err N X); try assumption. unfold armodel_sim. rewrite Hbad. reflexivity.
  - apply (refine_armodel_residual_err N X); try assumption. unfold armodel_residual. rewrite Hbad. reflexivity.
Qed.

(* memory safety (C05) of both kernels for every input satisfying the wrapper's
   contract inputs.shape[0] == outputs.shape[0]: the execution never leaves a buffer
   (the interpreter would stop with Err (OOB ..)) *)
Theorem kernel_armodel_memsafe {T} (N : NumOps T) (X : NumLit T) m ini params s buf n :
  nofZ N 0 = n0 N ->
  List.length buf = List.length s -> (Nat.max (List.length s) 10 < n)%nat ->
  (exists r out, exec_fun N X program (S n) "c_armodel_sim"
       [AVI (zlen s); AVI (zlen params); AVF m; AVF ini; AVArrF params; AVArrF s; AVArrF buf]
     = Ok (RI r, [VArrF params; VArrF s; VArrF out]) /\ List.length out = List.length s) /\
  (exists r out, exec_fun N X program (S n) "c_armodel_residual"
       [AVI (zlen s); AVI (zlen params); AVF m; AVF ini; AVArrF params; AVArrF s; AVArrF buf]
     = Ok (RI r, [VArrF params; VArrF s; VArrF out]) /\ List.length out = List.length s).
Proof.
  intros HZ Hb Hn. split.
  - generalize (refine_armodel_sim N X m ini params s buf n HZ Hb Hn).
    destruct (armodel_sim N m ini params s) as [|out] eqn:E.
    + intros (code & _ & H). exists code, buf. split; assumption.
    + intros H. exists 0%Z, out. split; [assumption|]. eapply armodel_sim_length; eassumption.
  - generalize (refine_armodel_residual N X m ini params s buf n HZ Hb Hn).
    destruct (armodel_residual N m ini params s) as [|out] eqn:E.
    + intros (code & _ & H). exists code, buf. split; assumption.
    + intros H. exists 0%Z, out. split; [assumption|]. eapply armodel_residual_length; eassumption.
Qed.
