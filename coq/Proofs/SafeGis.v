(* Memory safety ("safe execution") of the MiniC programs regenerated from
   src/hydrodiy/gis/c_grid.c and c_catchment.c (Gen/KernelsAst.v):
   celldist, c_catchment.stepsquaredist, c_slice, c_slope,
   c_exclude_zero_area_boundary, c_delineate_boundary.

   [exists ret outs, exec_fun N X program (S n) "<kernel>" args = Ok (ret, outs) /\ ...]:
   for these arguments the kernel terminates, never reads or writes outside a
   buffer, never divides an integer by zero and never converts NaN / an
   out-of-range double to an integer (the interpreter of Base/MiniC.v checks all
   of these).  The theorems are generic over the arithmetic [N : NumOps T],
   [X : NumLit T] and hold for ALL inputs satisfying the buffer-length contract of
   the wrapper (any size, any content).  MiniC integers are unbounded: nothing is
   said about signed overflow.

   Organisation:
   1. generic helpers about MiniC arrays, qsort (glibc merge sort) on integers,
      and a weakest-precondition layer ([wp], [wp_seq], [wp_for], ...) used to run
      a kernel statement by statement;
   2. Section Safe: run lemmas of the callees (getnxy, c_neighbours, c_downstream on
      one cell, getcoord, c_coord2cell on one point, c_catchment.compare), one lemma
      per nested loop, and the theorems safe_<kernel>;
   3. the hypotheses on the arithmetic ([floor_total], [trunc_ok], [perc_ok]) hold in
      the instances; findings (the unsafe_... lemmas). *)
From Coq Require Import ZArith Bool List String Lia Sorted.
From Coq Require Import PrimFloat Reals Lra.
From Hy Require Import Base.Num Base.MiniC Gen.KernelsAst Model.Grid.
Import ListNotations.
Open Scope string_scope.
Open Scope list_scope.
Open Scope Z_scope.

(* ================================================================== *)
(* Generic helpers about MiniC (candidates for Base/MiniC.v)            *)
(* ================================================================== *)

Lemma zget_some {A} (l : list A) (i : Z) :
  0 <= i < Z.of_nat (List.length l) -> exists x, zget l i = Some x.
Proof.
  intros H. destruct l as [|d l']; [cbn in H; lia|].
  eexists. apply (zget_ok _ _ d). exact H.
Qed.

Lemma zset_some {A} (l : list A) (i : Z) (v : A) :
  0 <= i < Z.of_nat (List.length l) ->
  exists l', zset l i v = Some l' /\ List.length l' = List.length l.
Proof.
  intros H. rewrite (zset_ok l i v H). eexists. split; [reflexivity|].
  rewrite app_length. cbn [List.length]. rewrite firstn_length, skipn_length. lia.
Qed.

Lemma zget_In {A} (l : list A) (i : Z) (x : A) : zget l i = Some x -> In x l.
Proof.
  revert i; induction l as [|y r IH]; intros i; cbn [zget]; [discriminate|].
  destruct (i =? 0); [intros [= ->]; left; reflexivity|].
  intros H. right. eapply IH. exact H.
Qed.

Lemma zget_Forall {A} (P : A -> Prop) (l : list A) (i : Z) (x : A) :
  Forall P l -> zget l i = Some x -> P x.
Proof. intros HF H. rewrite Forall_forall in HF. apply HF. eapply zget_In. exact H. Qed.

Lemma zset_Forall {A} (P : A -> Prop) (l l' : list A) (i : Z) (v : A) :
  Forall P l -> P v -> zset l i v = Some l' -> Forall P l'.
Proof.
  revert i l'; induction l as [|y r IH]; intros i l' HF Hv; cbn [zset]; [discriminate|].
  inversion HF as [|? ? Hy Hr]; subst.
  destruct (i =? 0); [intros [= <-]; constructor; assumption|].
  destruct (zset r (i - 1) v) eqn:E; [|discriminate].
  intros [= <-]. constructor; [assumption|]. eapply IH; eassumption.
Qed.

(* reading back an array after a store *)
Lemma zget_zset_same {A} (l l' : list A) (i : Z) (v : A) :
  zset l i v = Some l' -> zget l' i = Some v.
Proof.
  revert i l'; induction l as [|a l IH]; intros i l'; cbn [zset]; [discriminate|].
  destruct (Z.eqb_spec i 0) as [->|Hi]; [intros [= <-]; reflexivity|].
  destruct (zset l (i - 1) v) as [r|] eqn:E; [|discriminate].
  intros [= <-]. rewrite zget_cons by exact Hi. apply IH. exact E.
Qed.

Lemma zget_zset_other {A} (l l' : list A) (i j : Z) (v : A) :
  zset l i v = Some l' -> j <> i -> zget l' j = zget l j.
Proof.
  revert i j l'; induction l as [|a l IH]; intros i j l'; cbn [zset]; [discriminate|].
  destruct (Z.eqb_spec i 0) as [->|Hi].
  - intros [= <-] Hj. rewrite !zget_cons by exact Hj. reflexivity.
  - destruct (zset l (i - 1) v) as [r|] eqn:E; [|discriminate].
    intros [= <-] Hj. destruct (Z.eq_dec j 0) as [->|Hj0]; [reflexivity|].
    rewrite !zget_cons by exact Hj0. eapply IH; [exact E|lia].
Qed.

Lemma all_zget_repeat {A} (l : list A) (v : A) :
  (forall j, 0 <= j < Z.of_nat (List.length l) -> zget l j = Some v) -> l = repeat v (List.length l).
Proof.
  induction l as [|a l IH]; intros H; [reflexivity|].
  cbn [List.length repeat]. f_equal.
  - specialize (H 0). cbn in H. assert (Some a = Some v) as [= ->] by (apply H; lia). reflexivity.
  - apply IH. intros j Hj. specialize (H (j + 1)).
    rewrite zget_cons in H by lia. replace (j + 1 - 1) with j in H by lia.
    apply H. cbn [List.length]. lia.
Qed.

Lemma zlen_nonneg {A} (l : list A) : 0 <= zlen l.
Proof. rewrite zlen_eq. lia. Qed.

(* passing a whole array [a] (offset 0) to a callee *)
Lemma zlen_ltb0 {A} (l : list A) : (zlen l <? 0) = false.
Proof. apply Z.ltb_ge. apply zlen_nonneg. Qed.

Lemma skipn_two {A} (l : list A) (k : nat) :
  (k + 2 <= List.length l)%nat -> exists x y rest, skipn k l = x :: y :: rest.
Proof.
  revert k; induction l as [|a l IH]; intros k H; cbn in H; [lia|].
  destruct k as [|k].
  - destruct l as [|b l]; [cbn in H; lia|]. exists a, b, l. reflexivity.
  - cbn [skipn]. apply IH. lia.
Qed.

(* ------------------------------------------------------------------ *)
(* qsort (glibc merge sort as modelled by MiniC) of an array of integers, one element
   per item, with a comparator that answers like Z.compare: the result is sorted,
   has the same length and the same elements *)

Definition sing {A} (x : A) : list A := [x].

Lemma chunks_one {A} (l : list A) : chunks 1 (List.length l) l = map sing l.
Proof. induction l as [|a l IH]; [reflexivity|]. cbn [List.length chunks map]. cbn. rewrite IH. reflexivity. Qed.

Lemma concat_sing {A} (l : list A) : List.concat (map sing l) = l.
Proof. induction l as [|a l IH]; [reflexivity|]. cbn. rewrite IH. reflexivity. Qed.

Section SortZ.
Variable cmp : list Z -> list Z -> result Z.
Variable c : Z -> Z -> Z.
Hypothesis cmp_sing : forall x y, cmp [x] [y] = Ok (c x y).
Hypothesis c_le : forall x y, c x y <= 0 <-> x <= y.

Lemma mergeM_sing : forall (f : nat) (l1 l2 : list Z),
  (List.length l1 + List.length l2 <= f)%nat -> (0 < f)%nat ->
  exists l, mergeM cmp f (map sing l1) (map sing l2) = Ok (map sing l) /\
            List.length l = (List.length l1 + List.length l2)%nat /\
            (forall z, In z l -> In z l1 \/ In z l2) /\
            (StronglySorted Z.le l1 -> StronglySorted Z.le l2 -> StronglySorted Z.le l).
Proof.
  induction f as [|f IH]; intros l1 l2 Hlen Hf; [lia|].
  destruct l1 as [|x r1].
  { exists l2. cbn. split; [reflexivity|]. split; [reflexivity|]. split; [auto|auto]. }
  destruct l2 as [|y r2].
  { exists (x :: r1). cbn. split; [reflexivity|]. split; [lia|]. split; [auto|auto]. }
  cbn [map mergeM]. change (sing x) with [x]. change (sing y) with [y]. rewrite cmp_sing. cbn [bind].
  cbn [List.length] in Hlen.
  destruct (Z.leb_spec (c x y) 0) as [Hc|Hc].
  - destruct (IH r1 (y :: r2)) as (l & E & Hl & Hin & Hs); [cbn [List.length]; lia|lia|].
    cbn [map] in E. change (sing y) with [y] in E. rewrite E. cbn [bind]. exists (x :: l).
    split; [reflexivity|]. split; [cbn [List.length] in *; lia|].
    split.
    + intros z [->|Hz]; [left; left; reflexivity|].
      destruct (Hin z Hz) as [H|H]; [left; right; exact H|right; exact H].
    + intros S1 S2. inversion S1 as [|? ? S1' F1]; subst.
      constructor; [apply Hs; assumption|].
      apply Forall_forall. intros z Hz.
      assert (Hxy : x <= y) by (apply c_le; exact Hc).
      destruct (Hin z Hz) as [H|[->|H]].
      * rewrite Forall_forall in F1. apply F1. exact H.
      * exact Hxy.
      * inversion S2 as [|? ? S2' F2]; subst. rewrite Forall_forall in F2.
        specialize (F2 z H). lia.
  - destruct (IH (x :: r1) r2) as (l & E & Hl & Hin & Hs); [cbn [List.length]; lia|lia|].
    cbn [map] in E. change (sing x) with [x] in E. rewrite E. cbn [bind]. exists (y :: l).
    split; [reflexivity|]. split; [cbn [List.length] in *; lia|].
    split.
    + intros z [->|Hz]; [right; left; reflexivity|].
      destruct (Hin z Hz) as [H|H]; [left; exact H|right; right; exact H].
    + intros S1 S2. inversion S2 as [|? ? S2' F2]; subst.
      constructor; [apply Hs; assumption|].
      apply Forall_forall. intros z Hz.
      assert (Hxy : y <= x) by (assert (~ x <= y) by (rewrite <- c_le; lia); lia).
      destruct (Hin z Hz) as [[->|H]|H].
      * exact Hxy.
      * inversion S1 as [|? ? S1' F1]; subst. rewrite Forall_forall in F1.
        specialize (F1 z H). lia.
      * rewrite Forall_forall in F2. apply F2. exact H.
Qed.

Lemma div2_bounds n : (2 <= n)%nat -> (1 <= Nat.div2 n /\ Nat.div2 n < n)%nat.
Proof.
  intros H. split; [|apply Nat.lt_div2; lia].
  destruct n as [|[|n]]; try lia. cbn. lia.
Qed.

Lemma msortM_sing : forall (f : nat) (l : list Z),
  (List.length l <= f)%nat -> (0 < f)%nat ->
  exists l', msortM cmp f (map sing l) = Ok (map sing l') /\
             List.length l' = List.length l /\
             (forall z, In z l' -> In z l) /\ StronglySorted Z.le l'.
Proof.
  induction f as [|f IH]; intros l Hlen Hf; [lia|].
  cbn [msortM]. rewrite map_length.
  destruct (Nat.leb_spec (List.length l) 1) as [H1|H1].
  - exists l. split; [reflexivity|]. split; [reflexivity|]. split; [auto|].
    destruct l as [|a [|b l]]; cbn in H1; try lia; repeat constructor.
  - destruct (div2_bounds (List.length l)) as [Hd1 Hd2]; [lia|].
    set (n1 := Nat.div2 (List.length l)) in *.
    rewrite firstn_map, skipn_map.
    destruct (IH (firstn n1 l)) as (a & Ea & Hla & Hina & Hsa);
      [rewrite firstn_length; lia|lia|].
    destruct (IH (skipn n1 l)) as (b & Eb & Hlb & Hinb & Hsb);
      [rewrite skipn_length; lia|lia|].
    rewrite Ea, Eb. cbn [bind].
    rewrite firstn_length in Hla. rewrite skipn_length in Hlb.
    destruct (mergeM_sing (S (List.length l)) a b) as (m & Em & Hlm & Hinm & Hsm); [lia|lia|].
    rewrite Em. exists m. split; [reflexivity|]. split; [lia|]. split.
    + intros z Hz. destruct (Hinm z Hz) as [H|H].
      * apply Hina in H. rewrite <- (firstn_skipn n1 l). apply in_or_app. left; exact H.
      * apply Hinb in H. rewrite <- (firstn_skipn n1 l). apply in_or_app. right; exact H.
    + apply Hsm; assumption.
Qed.

End SortZ.

Lemma qsort_sorted {T} (callf : callee T) (cmpf name : string) (c : Z -> Z -> Z) (l : list Z) :
  (forall x y, cmp_call callf cmpf AVArrI [x] [y] = Ok (c x y)) ->
  (forall x y, c x y <= 0 <-> x <= y) ->
  exists l', qsort_list callf cmpf AVArrI name (Z.of_nat (List.length l)) 1 l = Ok l' /\
             List.length l' = List.length l /\
             (forall z, In z l' -> In z l) /\ StronglySorted Z.le l'.
Proof.
  intros Hc Hle. unfold qsort_list.
  replace (Z.of_nat (List.length l) <? 0) with false by (symmetry; apply Z.ltb_ge; lia).
  rewrite zlen_eq.
  replace (Z.of_nat (List.length l) <? Z.of_nat (List.length l) * 1) with false
    by (symmetry; apply Z.ltb_ge; lia).
  cbn [orb Z.ltb Z.compare]. change (1 <? 1) with false. cbn [orb].
  rewrite Nat2Z.id. change (Z.to_nat 1) with 1%nat. rewrite chunks_one.
  destruct (msortM_sing (cmp_call callf cmpf AVArrI) c Hc Hle (S (List.length l)) l)
    as (l' & E & Hl & Hin & Hs); [lia|lia|].
  rewrite E. cbn [bind]. rewrite concat_sing.
  replace (Z.to_nat (Z.of_nat (List.length l) * 1)) with (List.length l) by lia.
  rewrite skipn_all. rewrite app_nil_r.
  exists l'. auto.
Qed.

(* in a sorted array every element lies between the first and the last one *)
Lemma sorted_zget_le (l : list Z) : StronglySorted Z.le l ->
  forall i j x y, zget l i = Some x -> zget l j = Some y -> i <= j -> x <= y.
Proof.
  induction 1 as [|h t S IH F]; intros i j x y Hx Hy Hij; [discriminate Hx|].
  cbn [zget] in Hx, Hy.
  destruct (Z.eqb_spec i 0) as [->|Hi].
  - injection Hx as <-. destruct (Z.eqb_spec j 0) as [->|Hj]; [injection Hy as <-; lia|].
    rewrite Forall_forall in F. apply F. eapply zget_In. exact Hy.
  - destruct (Z.eqb_spec j 0) as [->|Hj].
    + assert (0 <= i).
      { destruct (Z.lt_ge_cases i 0) as [Hneg|]; [|assumption].
        rewrite zget_none in Hx by (left; lia). discriminate Hx. }
      lia.
    + eapply IH; [exact Hx|exact Hy|lia].
Qed.

Lemma In_zget {A} (l : list A) (z : A) :
  In z l -> exists j, 0 <= j < Z.of_nat (List.length l) /\ zget l j = Some z.
Proof.
  induction l as [|a l IH]; intros H; [contradiction|].
  destruct H as [->|H].
  - exists 0. cbn. split; [lia|reflexivity].
  - destruct (IH H) as (j & Hj & E). exists (j + 1). split; [cbn [List.length]; lia|].
    rewrite zget_cons by lia. replace (j + 1 - 1) with j by lia. exact E.
Qed.

Lemma sorted_bounds (l : list Z) (a b : Z) :
  StronglySorted Z.le l ->
  zget l 0 = Some a -> zget l (Z.of_nat (List.length l) - 1) = Some b ->
  Forall (fun z => a <= z <= b) l.
Proof.
  intros S Ha Hb. apply Forall_forall. intros z Hz.
  destruct (In_zget l z Hz) as (j & Hj & E). split.
  - eapply sorted_zget_le; [exact S|exact Ha|exact E|lia].
  - eapply sorted_zget_le; [exact S|exact E|exact Hb|lia].
Qed.

(* sub-statements of a translated function (the loops the lemmas below are about are
   computed from the regenerated definitions, not copied) *)
Definition body_of (fd : fundef) : stmt := match fd with Fun _ b => b | _ => SSkip end.
Fixpoint seq_nth (n : nat) (s : stmt) : stmt :=
  match n, s with
  | O, SSeq a _ => a
  | O, _ => s
  | S n', SSeq _ b => seq_nth n' b
  | S _, _ => SSkip
  end.
Definition loop_body_of (s : stmt) : stmt :=
  match s with SFor _ _ b => b | SWhile _ b => b | _ => SSkip end.

(* a cell number answered by the grid kernels: -1 (none) or a cell of the grid *)
Definition cellok (ngrid v : Z) : Prop := v = -1 \/ 0 <= v < ngrid.

(* ------------------------------------------------------------------ *)
(* A weakest-precondition layer over the interpreter: goals have the form
   [wp (xexec N X callf fuel stmt st) Q]; [xexec] is [exec] that cbn does not
   unfold, so that only the statement in focus is executed and the
   continuation stays folded (small conversion steps, fast Qed). *)

Definition xexec {T} := @exec T.
Arguments xexec : simpl never.

Section WP.
Context {T : Type} (N : NumOps T) (X : NumLit T).
Notation state := (state T).
Notation outcome := (outcome T).

Definition wp (r : result (outcome * state)) (Q : outcome -> state -> Prop) : Prop :=
  match r with Ok (o, st) => Q o st | Err _ => False end.

Lemma wp_mono r (Q Q' : outcome -> state -> Prop) :
  wp r Q -> (forall o st, Q o st -> Q' o st) -> wp r Q'.
Proof. destruct r as [[o st]|e]; cbn; auto. Qed.

Lemma wp_inv r Q : wp r Q -> exists o st, r = Ok (o, st) /\ Q o st.
Proof. destruct r as [[o st]|e]; cbn; [eauto|contradiction]. Qed.

(* postcondition of the first statement of a sequence *)
Definition seq_post (k : state -> result (outcome * state)) (Q : outcome -> state -> Prop)
  : outcome -> state -> Prop :=
  fun o st' => match o with ONormal => wp (k st') Q | _ => Q o st' end.

Lemma wp_seq cf f a b st Q :
  wp (xexec N X cf f a st) (seq_post (xexec N X cf f b) Q) ->
  wp (xexec N X cf f (SSeq a b) st) Q.
Proof.
  unfold xexec, seq_post. cbn [exec]. destruct (exec N X cf f a st) as [[[| | |v] st']|e]; cbn; auto.
Qed.

(* sequencing through an explicit intermediate assertion (forgets the values
   computed so far: merges the paths of the conditionals of [a]) *)
Definition mid_post (R : state -> Prop) (Q : outcome -> state -> Prop) : outcome -> state -> Prop :=
  fun o st' => match o with ONormal => R st' | _ => Q o st' end.

Lemma wp_seq_mid (R : state -> Prop) cf f a b st Q :
  wp (xexec N X cf f a st) (mid_post R Q) ->
  (forall st', R st' -> wp (xexec N X cf f b st') Q) ->
  wp (xexec N X cf f (SSeq a b) st) Q.
Proof.
  intros H1 H2. apply wp_seq. eapply wp_mono; [exact H1|].
  intros [| | |v] st'; cbn; auto.
Qed.

(* a conditional whose branches are run statement by statement *)
Lemma wp_if cf f c a b st Q v :
  eval_i N X st c = Ok v ->
  wp (if truth v then xexec N X cf f a st else xexec N X cf f b st) Q ->
  wp (xexec N X cf f (SIf c a b) st) Q.
Proof. unfold xexec. cbn [exec]. intros ->. cbn. auto. Qed.

(* what one iteration of a loop must establish *)
Definition loop_post (I : state -> Prop) (Q : outcome -> state -> Prop) : outcome -> state -> Prop :=
  fun o st' => match o with
               | ONormal | OContinue => I st'
               | OBreak => Q ONormal st'
               | ORet v => Q (ORet v) st'
               end.

(* ... and the body of a for loop (the step runs after a normal end and after continue) *)
Definition for_post (kstep : state -> result (outcome * state)) (I : state -> Prop)
           (Q : outcome -> state -> Prop) : outcome -> state -> Prop :=
  fun o st2 => match o with
               | ONormal | OContinue => wp (kstep st2) (loop_post I Q)
               | _ => loop_post I Q o st2
               end.

Lemma wp_loop (Inv : nat -> state -> Prop) (m : nat) cond body Q fuel st :
  (forall k st, Inv k st ->
     (k <= m)%nat /\
     match cond st with
     | Ok true => wp (body st) (loop_post (Inv (S k)) Q)
     | Ok false => Q ONormal st
     | Err _ => False
     end) ->
  Inv O st -> (m < fuel)%nat ->
  wp (loop fuel cond body st) Q.
Proof.
  intros Hstep HI Hf.
  destruct (loop_rule Inv (fun r => Q (fst r) (snd r)) m cond body) with (fuel := fuel) (k := O) (st := st)
    as (r & E & HP); [|exact HI|lia|].
  - intros k st1 H1. destruct (Hstep k st1 H1) as [Hk H]. split; [exact Hk|].
    destruct (cond st1) as [[|]|]; [|exact H|exact H].
    destruct (body st1) as [[[| | |v] st']|e]; exact H.
  - rewrite E. destruct r. exact HP.
Qed.

Lemma wp_for (Inv : nat -> state -> Prop) (m : nat) cf f c step b st Q :
  (forall k st, Inv k st ->
     (k <= m)%nat /\
     match cond_of N X c st with
     | Ok true => wp (xexec N X cf f b st) (for_post (xexec N X cf f step) (Inv (S k)) Q)
     | Ok false => Q ONormal st
     | Err _ => False
     end) ->
  Inv O st -> (m < f)%nat ->
  wp (xexec N X cf f (SFor c step b) st) Q.
Proof.
  intros Hstep HI Hf. unfold xexec. cbn [exec].
  apply (wp_loop Inv m); [|exact HI|exact Hf].
  intros k st1 H1. destruct (Hstep k st1 H1) as [Hk H]. split; [exact Hk|].
  destruct (cond_of N X c st1) as [[|]|]; [|exact H|exact H].
  unfold for_body, for_post, xexec in *.
  destruct (exec N X cf f b st1) as [[[| | |v] st2]|e]; exact H.
Qed.

Lemma wp_while (Inv : nat -> state -> Prop) (m : nat) cf f c b st Q :
  (forall k st, Inv k st ->
     (k <= m)%nat /\
     match cond_of N X c st with
     | Ok true => wp (xexec N X cf f b st) (loop_post (Inv (S k)) Q)
     | Ok false => Q ONormal st
     | Err _ => False
     end) ->
  Inv O st -> (m < f)%nat ->
  wp (xexec N X cf f (SWhile c b) st) Q.
Proof.
  intros Hstep HI Hf. unfold xexec. cbn [exec].
  apply (wp_loop Inv m); [exact Hstep|exact HI|exact Hf].
Qed.

(* a function call: the body is run under [wp]; the postcondition speaks of the
   return value and the final contents of the array parameters *)
Definition fun_post (ps : list param) (P : retval T -> list (arrval T) -> Prop)
  : outcome -> state -> Prop :=
  fun o st => match o with
              | ORet v => exists outs, out_arrays ps st = Ok outs /\ P v outs
              | _ => False
              end.

Lemma exec_fun_wp (p : MiniC.program) n fname ps body args st0
      (P : retval T -> list (arrval T) -> Prop) :
  find_fun p fname = Ok (ps, body) ->
  bind_params fname ps args st_empty = Ok st0 ->
  wp (xexec N X (exec_fun N X p n) n body st0) (fun_post ps P) ->
  exists v outs, exec_fun N X p (S n) fname args = Ok (v, outs) /\ P v outs.
Proof.
  intros Hf Hb H. cbn [exec_fun]. rewrite Hf. cbn [bind fst snd]. rewrite Hb. cbn [bind].
  unfold xexec, fun_post in H.
  destruct (exec N X (exec_fun N X p n) n body st0) as [[[| | |v] st]|e]; cbn in H; try contradiction.
  destruct H as (outs & Ho & HP). rewrite Ho. cbn [bind]. eauto.
Qed.

End WP.

Arguments wp : simpl never.
Arguments seq_post : simpl never.
Arguments mid_post : simpl never.
Arguments loop_post : simpl never.
Arguments for_post : simpl never.
Arguments fun_post : simpl never.

(* the statement in focus: expose [exec] (cbn then runs it) *)
Ltac wfocus :=
  lazymatch goal with
  | |- wp (xexec ?N ?X ?cf ?f ?s ?st) ?Q => change (wp (exec N X cf f s st) Q)
  end.
(* first statement of a sequence; the continuation is hidden behind a local definition
   [K] so that cbn / cbv only traverse the statement in focus *)
Ltac whide :=
  lazymatch goal with
  | |- wp ?r ?Q => let K := fresh "K" in set (K := Q)
  end.
Ltac wseq := apply wp_seq; whide.
(* execute the statement in focus as far as cbn goes *)
Ltac wsimp := repeat (progress (cbn; rewrite ?truth_b2z, ?b2z_truth_b2z, ?or_ok, ?and_ok, ?zlen_ltb0)).
Ltac wrun := wfocus; wsimp.

(* the statement in focus has been executed ([wp (Ok (o, st)) Q]): enter the continuation *)
Ltac wnext1 :=
  lazymatch goal with
  | |- wp (Ok (?o, ?st)) ?Q => change (Q o st)
  | |- seq_post ?k ?Q ONormal ?st => change (wp (k st) Q)
  | |- seq_post ?k ?Q ?o ?st =>
      lazymatch o with
      | OBreak => idtac | OContinue => idtac | ORet _ => idtac
      end; change (Q o st)
  | |- mid_post ?R ?Q ONormal ?st => change (R st)
  | |- mid_post ?R ?Q ?o ?st =>
      lazymatch o with
      | OBreak => idtac | OContinue => idtac | ORet _ => idtac
      end; change (Q o st)
  | |- for_post ?ks ?I ?Q ONormal ?st => change (wp (ks st) (loop_post I Q))
  | |- for_post ?ks ?I ?Q OContinue ?st => change (wp (ks st) (loop_post I Q))
  | |- for_post ?ks ?I ?Q OBreak ?st => change (Q ONormal st)
  | |- for_post ?ks ?I ?Q (ORet ?v) ?st => change (Q (ORet v) st)
  | |- loop_post ?I ?Q ONormal ?st => change (I st)
  | |- loop_post ?I ?Q OContinue ?st => change (I st)
  | |- loop_post ?I ?Q OBreak ?st => change (Q ONormal st)
  | |- loop_post ?I ?Q (ORet ?v) ?st => change (Q (ORet v) st)
  | |- fun_post ?ps ?P (ORet ?v) ?st =>
      change (exists outs, out_arrays ps st = Ok outs /\ P v outs)
  | |- ?K ?o ?st => is_var K; unfold K; try clear K
  | |- wp ?r ?K => is_var K; unfold K; try clear K
  end.
Ltac wnext := repeat wnext1; norm_state.
(* simple statement of a sequence: run it and go on *)
Ltac wstep := wseq; wrun; wnext.
(* conditional: evaluate the condition, leave [if truth v then .. else ..] over the branches *)
Ltac wif := eapply wp_if; [wsimp; reflexivity|]; rewrite ?truth_b2z.
(* enter a translated function *)
Ltac wfun := eapply exec_fun_wp; [vm_compute; reflexivity|reflexivity|]; cbn [bind_params]; norm_state.

(* read / write of a symbolic array at an index proved in range by lia *)
Ltac len_lia := first [lia | rewrite ?zlen_eq; cbn [List.length]; lia | rewrite ?zlen_eq in *; cbn [List.length] in *; lia].
Ltac wget :=
  match goal with
  | |- context[zget ?l ?i] =>
      let x := fresh "x" in let E := fresh "E" in
      destruct (zget_some l i) as (x & E); [len_lia|rewrite E]
  end.
Ltac wset :=
  match goal with
  | |- context[zset ?l ?i ?v] =>
      let l' := fresh "l" in let E := fresh "E" in let HL := fresh "HL" in
      destruct (zset_some l i v) as (l' & E & HL); [len_lia|rewrite E]
  end.

(* ================================================================== *)

Section Safe.
Context {T : Type} (N : NumOps T) (X : NumLit T).

(* ------------------------------------------------------------------ *)
(* getnxy (c_grid.c): needs ncols <> 0 (integer % and / by ncols)       *)

Lemma getnxy_run n ncols idx a b :
  ncols <> 0 -> (0 < n)%nat ->
  exec_fun N X program n "getnxy" [AVI ncols; AVI idx; AVArrI [a; b]]
  = Ok (RI 0, [VArrI [getnx ncols idx; getny ncols idx]]).
Proof.
  intros H Hn. destruct n as [|n']; [lia|]. cbn. zb. cbn. zb. cbn. reflexivity.
Qed.

Lemma unsafe_getnxy_ncols0 n idx a b :
  exec_fun N X program (S n) "getnxy" [AVI 0; AVI idx; AVArrI [a; b]] = Err DivZero.
Proof. reflexivity. Qed.

(* ------------------------------------------------------------------ *)
(* celldist (c_catchment.c): safe for ALL arguments (the validity test
   n1, n2 in [0, nrows*ncols) implies ncols <> 0)                        *)

Definition celldist_spec (nrows ncols n1 n2 : Z) : Z :=
  Z.max (Z.max 0 (getnx ncols n1 - getnx ncols n2)) (Z.max 0 (getny ncols n1 - getny ncols n2)).

Theorem safe_celldist nrows ncols n1 n2 n :
  (0 < n)%nat ->
  exists ret, exec_fun N X program (S n) "celldist" [AVI nrows; AVI ncols; AVI n1; AVI n2]
              = Ok (RI ret, []) /\
    (if (n1 <? 0) || (nrows * ncols <=? n1) || (n2 <? 0) || (nrows * ncols <=? n2)
     then 0 < ret else ret = celldist_spec nrows ncols n1 n2).
Proof.
  intros Hn.
  enough (H : exists v outs,
             exec_fun N X program (S n) "celldist" [AVI nrows; AVI ncols; AVI n1; AVI n2] = Ok (v, outs) /\
             (outs = [] /\ exists z, v = RI z /\
              (if (n1 <? 0) || (nrows * ncols <=? n1) || (n2 <? 0) || (nrows * ncols <=? n2)
               then 0 < z else z = celldist_spec nrows ncols n1 n2))).
  { destruct H as (v & outs & E & -> & z & -> & H). exists z. split; assumption. }
  wfun.
  do 4 wstep. wseq. wrun. cbn. rewrite ?truth_b2z, ?b2z_truth_b2z, ?or_ok, ?and_ok.
  cbn. rewrite ?truth_b2z, ?b2z_truth_b2z, ?or_ok, ?and_ok.
  destruct ((n1 <? 0) || (nrows * ncols <=? n1) || (n2 <? 0) || (nrows * ncols <=? n2)) eqn:Hv.
  - cbn. wnext. cbn. eexists; split; [reflexivity|]. split; [reflexivity|].
    eexists; split; [reflexivity|]. try rewrite Hv. lia.
  - assert (Hnc : ncols <> 0) by nia.
    cbn. wnext.
    wseq. wrun. rewrite getnxy_run by assumption. cbn. wnext.
    wseq. wrun. rewrite getnxy_run by assumption. cbn. wnext.
    wstep. wseq. wrun. unfold celldist_spec.
    destruct (Z.ltb_spec (getnx ncols n1 - getnx ncols n2) 0); cbn; wnext.
    all: wstep; wseq; wrun.
    all: destruct (Z.ltb_spec (getny ncols n1 - getny ncols n2) 0); cbn; wnext; wrun.
    all: try match goal with |- context[if ?a <? ?b then _ else _] => destruct (Z.ltb_spec a b) end; cbn.
    all: wnext; cbn; eexists; split; [reflexivity|]; split; [reflexivity|];
      eexists; split; [reflexivity|]; try rewrite Hv; unfold celldist_spec; lia.
Qed.

(* ------------------------------------------------------------------ *)
(* c_catchment.stepsquaredist: two calls of getnxy, hence ncols <> 0.
   (static helper; its only caller c_delineate_flowpathlengths_in_catchment
   passes the ncols of a grid that contains a valid cell)                 *)

Theorem safe_stepsquaredist ncols n1 n2 n :
  ncols <> 0 -> (0 < n)%nat ->
  exec_fun N X program (S n) "c_catchment.stepsquaredist" [AVI ncols; AVI n1; AVI n2]
  = Ok (RF (nofZ N (if (getnx ncols n1 =? getnx ncols n2) || (getny ncols n1 =? getny ncols n2)
                    then 1 else 2)), []).
Proof.
  intros Hnc Hn. cbn. rewrite getnxy_run by assumption. cbn.
  rewrite getnxy_run by assumption. mc.
  destruct ((getnx ncols n1 =? getnx ncols n2) || (getny ncols n1 =? getny ncols n2)); reflexivity.
Qed.

Theorem unsafe_stepsquaredist_ncols0 n1 n2 n :
  exec_fun N X program (S (S n)) "c_catchment.stepsquaredist" [AVI 0; AVI n1; AVI n2] = Err DivZero.
Proof. reflexivity. Qed.

(* ------------------------------------------------------------------ *)
(* c_exclude_zero_area_boundary (c_catchment.c).  Wrapper: idxok.shape[0] ==
   xycoords.shape[0] (pyx); two columns are NOT asserted by the pyx wrapper, the
   only caller (grid.py, Catchment.delineate_boundary) passes the (n,2) result of
   cell2coord.  Any nval (nval <= 2 is refused), any coordinates, any deteps.  *)

Definition ez_state (nval i : Z) (deteps det proj norm x1 y1 x2 y2 x3 y3 : T) (xy : list T) (idxok : list Z) : state T :=
  {| s_i := [("nval", nval); ("ierr", 0); ("i", i)];
     s_f := [("deteps", deteps); ("det", det); ("proj", proj); ("norm", norm);
             ("x1", x1); ("y1", y1); ("x2", x2); ("y2", y2); ("x3", x3); ("y3", y3)];
     s_ai := [("idxok", idxok)];
     s_af := [("xycoords", xy)] |}.

(* idxok[0 .. k] and idxok[len-1] hold 1 *)
Definition ez_ones (len : nat) (k : nat) (ok : list Z) : Prop :=
  forall j, 0 <= j <= Z.of_nat k \/ j = Z.of_nat len - 1 -> zget ok j = Some 1.

Definition ez_inv (nval : Z) (deteps : T) (xy : list T) (len : nat) (k : nat) (st : state T) : Prop :=
  exists i det proj norm x1 y1 x2 y2 x3 y3 idxok',
    st = ez_state nval i deteps det proj norm x1 y1 x2 y2 x3 y3 xy idxok' /\
    i = 1 + Z.of_nat k /\ List.length idxok' = len /\ (k + 2 <= len)%nat /\ ez_ones len k idxok'.

(* safety, and what is answered: an error code and idxok untouched when nval <= 2;
   otherwise 0 and idxok = all ones WHATEVER the coordinates: both branches of the
   alignment test store 1 (a functional defect of the kernel: no point is ever excluded) *)
Theorem safe_exclude_zero_area_boundary (deteps : T) (xy : list T) (idxok : list Z) n :
  List.length xy = (2 * List.length idxok)%nat ->
  (List.length idxok < n)%nat ->
  exists ret outs,
    exec_fun N X program (S n) "c_exclude_zero_area_boundary"
      [AVI (zlen idxok); AVF deteps; AVArrF xy; AVArrI idxok] = Ok (ret, outs) /\
    exists c idxok', ret = RI c /\ outs = [VArrF xy; VArrI idxok'] /\
      List.length idxok' = List.length idxok /\
      (if zlen idxok <=? 2 then 0 < c /\ idxok' = idxok
       else c = 0 /\ idxok' = repeat 1 (List.length idxok)).
Proof.
  intros Hxy Hn.
  wfun. rewrite zlen_eq.
  do 11 wstep.
  wseq. wrun.
  destruct (Z.leb_spec (Z.of_nat (List.length idxok)) 2) as [Hle|Hgt]; cbn.
  { wnext. cbn. eexists; split; [reflexivity|]. do 2 eexists. split; [reflexivity|].
    split; [reflexivity|]. split; [reflexivity|]. split; [lia|reflexivity]. }
  wnext.
  wseq. wrun. wset. cbn. wnext.
  wseq. wrun. wset. cbn. wnext.
  wstep.
  wseq.
  apply (wp_for N X (ez_inv (Z.of_nat (List.length idxok)) deteps xy (List.length idxok)) (List.length idxok)).
  - intros k st (i & det & proj & norm & x1 & y1 & x2 & y2 & x3 & y3 & ok & -> & -> & Hok & Hk & Hones).
    unfold ez_state. cbn. rewrite truth_b2z.
    destruct (Z.ltb_spec (1 + Z.of_nat k) (Z.of_nat (List.length idxok) - 1)) as [Hlt|Hge].
    + split; [lia|].
      do 7 (wseq; wrun; repeat wget; cbn; wnext).
      wrun. rewrite if_same. wset. cbn. wnext.
      wrun. wnext.
      do 11 eexists. split; [unfold ez_state; reflexivity|].
      split; [lia|]. split; [lia|]. split; [lia|].
      intros j Hj. destruct (Z.eq_dec j (1 + Z.of_nat k)) as [->|Hne].
      * eapply zget_zset_same. eassumption.
      * erewrite zget_zset_other; [|eassumption|exact Hne]. apply Hones. lia.
    + split; [lia|]. wnext. wrun. wnext. cbn.
      eexists; split; [reflexivity|]. do 2 eexists. split; [reflexivity|].
      split; [reflexivity|]. split; [lia|]. split; [reflexivity|].
      rewrite <- Hok. apply all_zget_repeat. intros j Hj. apply Hones. lia.
  - do 11 eexists. split; [unfold ez_state; reflexivity|].
    split; [lia|]. split; [lia|]. split; [lia|].
    intros j Hj. change (Z.of_nat 0) with 0 in Hj.
    destruct (Z.eq_dec j (Z.of_nat (List.length idxok) - 1)) as [->|Hne].
    * eapply zget_zset_same. eassumption.
    * erewrite zget_zset_other; [|eassumption|exact Hne].
      replace j with 0 by lia. eapply zget_zset_same. eassumption.
  - lia.
Qed.

(* ------------------------------------------------------------------ *)
(* c_neighbours (c_grid.c) on a valid cell: the 3x3 double loop          *)

Definition nb_outer_loop : stmt := Eval cbv in seq_nth 13 (body_of c_neighbours_def).
Definition nb_inner_loop : stmt := Eval cbv in seq_nth 1 (loop_body_of nb_outer_loop).

Definition nb_state (nrows ncols idx ix iy nx0 nx ny0 ny k : Z) (nb nxy : list Z) : state T :=
  {| s_i := [("nrows", nrows); ("ncols", ncols); ("idxcell", idx); ("ix", ix); ("iy", iy);
             ("nx0", nx0); ("nx", nx); ("ny0", ny0); ("ny", ny); ("k", k)];
     s_f := [];
     s_ai := [("neighbours", nb); ("nxy", nxy)];
     s_af := [] |}.

Definition nb_good (nrows ncols : Z) (nb : list Z) : Prop :=
  List.length nb = 9%nat /\ Forall (cellok (nrows * ncols)) nb.

Definition nb_inner_inv nrows ncols idx iy nx0 ny0 nxy (j : nat) (st : state T) : Prop :=
  exists ix nx ny k nb,
    st = nb_state nrows ncols idx ix iy nx0 nx ny0 ny k nb nxy /\
    ix = -1 + Z.of_nat j /\ (j <= 3)%nat /\ nb_good nrows ncols nb.

Definition nb_inner_post nrows ncols idx iy nx0 ny0 nxy (o : outcome T) (st : state T) : Prop :=
  o = ONormal /\ exists ix nx ny k nb,
    st = nb_state nrows ncols idx ix iy nx0 nx ny0 ny k nb nxy /\ nb_good nrows ncols nb.

Lemma nb_inner cf f nrows ncols idx iy nx0 nx ny0 ny k nb nxy :
  -1 <= iy <= 1 -> nb_good nrows ncols nb -> (3 < f)%nat ->
  wp (xexec N X cf f nb_inner_loop (nb_state nrows ncols idx (-1) iy nx0 nx ny0 ny k nb nxy))
     (nb_inner_post nrows ncols idx iy nx0 ny0 nxy).
Proof.
  intros Hiy Hnb Hf.
  apply (wp_for N X (nb_inner_inv nrows ncols idx iy nx0 ny0 nxy) 3).
  - intros j st (ix & nx1 & ny1 & k1 & nb1 & -> & -> & Hj & Hlen & Hok).
    split; [exact Hj|].
    unfold nb_state. cbn. rewrite truth_b2z.
    destruct (Z.ltb_spec (-1 + Z.of_nat j) 2) as [Hlt|Hge].
    + wstep. wseq. wrun. cbn. rewrite ?truth_b2z, ?b2z_truth_b2z, ?or_ok, ?and_ok.
      destruct (((-1 + Z.of_nat j =? 0) && (iy =? 0))%bool) eqn:Hc.
      * cbn. wset. cbn. wnext. wrun. wnext.
        do 5 eexists. split; [unfold nb_state; reflexivity|].
        split; [lia|]. split; [lia|]. split; [lia|].
        eapply zset_Forall; [exact Hok| |eassumption]. left; reflexivity.
      * cbn. wnext. wstep. wstep. wrun.
        destruct ((nx0 + (-1 + Z.of_nat j) <? 0) || (ncols - 1 <? nx0 + (-1 + Z.of_nat j))
                  || (ny0 + iy <? 0) || (nrows - 1 <? ny0 + iy)) eqn:Hout.
        -- cbn. wset. cbn. wnext. wrun. wnext.
           do 5 eexists. split; [unfold nb_state; reflexivity|].
           split; [lia|]. split; [lia|]. split; [lia|].
           eapply zset_Forall; [exact Hok| |eassumption]. left; reflexivity.
        -- cbn. wset. cbn. wnext. wrun. wnext.
           do 5 eexists. split; [unfold nb_state; reflexivity|].
           split; [lia|]. split; [lia|]. split; [lia|].
           eapply zset_Forall; [exact Hok| |eassumption]. right. nia.
    + wnext. split; [reflexivity|]. do 5 eexists. split; [unfold nb_state; reflexivity|].
      split; assumption.
  - do 5 eexists. split; [unfold nb_state; reflexivity|]. split; [lia|]. split; [lia|]. exact Hnb.
  - exact Hf.
Qed.

Definition nb_outer_inv nrows ncols idx nx0 ny0 nxy (j : nat) (st : state T) : Prop :=
  exists ix iy nx ny k nb,
    st = nb_state nrows ncols idx ix iy nx0 nx ny0 ny k nb nxy /\
    iy = -1 + Z.of_nat j /\ (j <= 3)%nat /\ nb_good nrows ncols nb.

Definition nb_outer_post nrows ncols idx nx0 ny0 nxy (o : outcome T) (st : state T) : Prop :=
  o = ONormal /\ exists ix iy nx ny k nb,
    st = nb_state nrows ncols idx ix iy nx0 nx ny0 ny k nb nxy /\ nb_good nrows ncols nb.

Lemma nb_outer cf f nrows ncols idx ix nx0 nx ny0 ny k nb nxy :
  nb_good nrows ncols nb -> (3 < f)%nat ->
  wp (xexec N X cf f nb_outer_loop (nb_state nrows ncols idx ix (-1) nx0 nx ny0 ny k nb nxy))
     (nb_outer_post nrows ncols idx nx0 ny0 nxy).
Proof.
  intros Hnb Hf.
  apply (wp_for N X (nb_outer_inv nrows ncols idx nx0 ny0 nxy) 3).
  - intros j st (ix1 & iy & nx1 & ny1 & k1 & nb1 & -> & -> & Hj & Hgood).
    split; [exact Hj|].
    unfold nb_state. cbn. rewrite truth_b2z.
    destruct (Z.ltb_spec (-1 + Z.of_nat j) 2) as [Hlt|Hge].
    + wstep.
      eapply wp_mono; [apply nb_inner; [lia|exact Hgood|exact Hf]|].
      intros o st (-> & ix2 & nx2 & ny2 & k2 & nb2 & -> & Hgood2).
      unfold nb_state. wnext. wrun. wnext.
      do 6 eexists. split; [unfold nb_state; reflexivity|].
      split; [lia|]. split; [lia|]. exact Hgood2.
    + wnext. split; [reflexivity|]. do 6 eexists. split; [unfold nb_state; reflexivity|]. exact Hgood.
  - do 6 eexists. split; [unfold nb_state; reflexivity|]. split; [lia|]. split; [lia|]. exact Hnb.
  - exact Hf.
Qed.

(* c_neighbours on a cell of the grid, the 9 slots holding -1 or cells of the grid on
   entry (zeros in c_downstream): returns 0, the 9 slots hold -1 or cells of the grid *)
Lemma neighbours_run nrows ncols idx nb n :
  nb_good nrows ncols nb -> 0 <= idx < nrows * ncols -> (4 < n)%nat ->
  exists nb', exec_fun N X program n "c_neighbours" [AVI nrows; AVI ncols; AVI idx; AVArrI nb]
              = Ok (RI 0, [VArrI nb']) /\ nb_good nrows ncols nb'.
Proof.
  intros Hgood Hidx Hn. destruct n as [|n]; [lia|].
  enough (H : exists v outs,
             exec_fun N X program (S n) "c_neighbours" [AVI nrows; AVI ncols; AVI idx; AVArrI nb] = Ok (v, outs) /\
             (v = RI 0 /\ exists nb', outs = [VArrI nb'] /\ nb_good nrows ncols nb')).
  { destruct H as (v & outs & E & -> & nb' & -> & H). exists nb'. split; assumption. }
  wfun.
  do 8 wstep. wseq. wrun. zb. cbn. wnext.
  assert (Hnc : ncols <> 0) by nia.
  wseq. wrun. rewrite getnxy_run by (assumption || lia). cbn. wnext.
  do 3 wstep. wseq.
  eapply wp_mono; [apply nb_outer; [exact Hgood|lia]|].
  intros o st (-> & ix2 & iy2 & nx2 & ny2 & k2 & nb2 & -> & Hgood2).
  unfold nb_state. wnext. wrun. wnext. cbn.
  eexists; split; [reflexivity|]. split; [reflexivity|].
  eexists; split; [reflexivity|exact Hgood2].
Qed.

(* ------------------------------------------------------------------ *)
(* c_downstream (c_grid.c) called on ONE cell of the grid (as c_slope does)  *)

Definition ds_outer_loop : stmt := Eval cbv in seq_nth 6 (body_of c_downstream_def).
Definition ds_inner_loop : stmt := Eval cbv in seq_nth 7 (loop_body_of ds_outer_loop).

Definition ds_state (nrows ncols i j fd idxcell : Z) (code flowdir : list Z) (c d : Z) (nb : list Z)
  : state T :=
  {| s_i := [("nrows", nrows); ("ncols", ncols); ("nval", 1); ("i", i); ("j", j); ("fd", fd);
             ("idxcell", idxcell)];
     s_f := [];
     s_ai := [("flowdircode", code); ("flowdir", flowdir); ("idxup", [c]); ("idxdown", [d]);
              ("neighbours", nb)];
     s_af := [] |}.

(* what c_downstream answers for a cell: -2 (no flow direction), -1, or a cell of the grid *)
Definition dgood (ngrid d : Z) : Prop := d = -2 \/ cellok ngrid d.

Definition ds_inner_inv nrows ncols fd idxcell code flowdir c nb (k : nat) (st : state T) : Prop :=
  exists j d,
    st = ds_state nrows ncols 0 j fd idxcell code flowdir c d nb /\
    j = Z.of_nat k /\ (k <= 9)%nat /\ dgood (nrows * ncols) d.

Definition ds_inner_post nrows ncols fd idxcell code flowdir c nb (o : outcome T) (st : state T) : Prop :=
  o = ONormal /\ exists j d,
    st = ds_state nrows ncols 0 j fd idxcell code flowdir c d nb /\ dgood (nrows * ncols) d.

Lemma ds_inner cf f nrows ncols fd idxcell code flowdir c d nb :
  List.length code = 9%nat -> nb_good nrows ncols nb -> dgood (nrows * ncols) d -> (9 < f)%nat ->
  wp (xexec N X cf f ds_inner_loop (ds_state nrows ncols 0 0 fd idxcell code flowdir c d nb))
     (ds_inner_post nrows ncols fd idxcell code flowdir c nb).
Proof.
  intros Hcode [Hnbl Hnb] Hd Hf.
  apply (wp_for N X (ds_inner_inv nrows ncols fd idxcell code flowdir c nb) 9).
  - intros k st (j & d1 & -> & -> & Hk & Hd1).
    split; [exact Hk|].
    unfold ds_state. cbn. rewrite truth_b2z.
    destruct (Z.ltb_spec (Z.of_nat k) 9) as [Hlt|Hge].
    + wrun. wget. wsimp.
      destruct (fd =? x) eqn:Hfd.
      * cbn. wget. cbn. wnext. wrun. wnext.
        do 2 eexists. split; [unfold ds_state; reflexivity|].
        split; [lia|]. split; [lia|]. right. eapply zget_Forall; eassumption.
      * cbn. wnext. wrun. wnext.
        do 2 eexists. split; [unfold ds_state; reflexivity|].
        split; [lia|]. split; [lia|]. exact Hd1.
    + wnext. split; [reflexivity|]. do 2 eexists. split; [unfold ds_state; reflexivity|]. exact Hd1.
  - do 2 eexists. split; [unfold ds_state; reflexivity|]. split; [lia|]. split; [lia|]. exact Hd.
  - exact Hf.
Qed.

Definition ds_outer_inv nrows ncols code flowdir c (k : nat) (st : state T) : Prop :=
  exists i j fd idxcell d nb,
    st = ds_state nrows ncols i j fd idxcell code flowdir c d nb /\
    i = Z.of_nat k /\ (k <= 1)%nat /\ nb_good nrows ncols nb /\
    (k = 1%nat -> dgood (nrows * ncols) d).

Lemma downstream1_run nrows ncols code flowdir c d n :
  List.length code = 9%nat -> Z.of_nat (List.length flowdir) = nrows * ncols ->
  0 <= c < nrows * ncols -> (10 < n)%nat ->
  exists d', exec_fun N X program n "c_downstream"
               [AVI nrows; AVI ncols; AVArrI code; AVArrI flowdir; AVI 1; AVArrI [c]; AVArrI [d]]
             = Ok (RI 0, [VArrI code; VArrI flowdir; VArrI [c]; VArrI [d']]) /\
             dgood (nrows * ncols) d'.
Proof.
  intros Hcode Hfl Hc Hn. destruct n as [|n]; [lia|].
  enough (H : exists v outs,
             exec_fun N X program (S n) "c_downstream"
               [AVI nrows; AVI ncols; AVArrI code; AVArrI flowdir; AVI 1; AVArrI [c]; AVArrI [d]] = Ok (v, outs) /\
             (v = RI 0 /\ exists d', outs = [VArrI code; VArrI flowdir; VArrI [c]; VArrI [d']] /\
                                     dgood (nrows * ncols) d')).
  { destruct H as (v & outs & E & -> & d' & -> & H). exists d'. split; assumption. }
  wfun. do 6 wstep. wseq.
  apply (wp_for N X (ds_outer_inv nrows ncols code flowdir c) 1).
  - intros k st (i & j & fd & idxcell & d1 & nb & -> & -> & Hk & Hgood & Hd1).
    split; [exact Hk|].
    unfold ds_state. cbn. rewrite truth_b2z.
    destruct (Z.ltb_spec (Z.of_nat k) 1) as [Hlt|Hge].
    + assert (k = 0%nat) by lia. subst k. change (Z.of_nat 0) with 0.
      wstep. wseq. wrun. zb. cbn. wnext.
      wseq. wrun.
      destruct (neighbours_run nrows ncols c nb n Hgood Hc) as (nb' & Enb & Hgood'); [lia|].
      rewrite Enb. cbn. wnext.
      wseq. wrun. wget. cbn. wnext.
      wstep. wseq. wrun.
      destruct (x =? 0) eqn:Hx.
      * cbn. wnext. wrun. wnext.
        do 6 eexists. split; [unfold ds_state; reflexivity|].
        split; [lia|]. split; [lia|]. split; [exact Hgood'|]. intros _. left; reflexivity.
      * cbn. wnext. wstep.
        eapply wp_mono; [apply ds_inner; [exact Hcode|exact Hgood'| |lia]|].
        { right; left; reflexivity. }
        intros o st (-> & j2 & d2 & -> & Hd2).
        unfold ds_state. wnext. wrun. wnext.
        do 6 eexists. split; [unfold ds_state; reflexivity|].
        split; [lia|]. split; [lia|]. split; [exact Hgood'|]. intros _. exact Hd2.
    + assert (k = 1%nat) by lia. subst k.
      wnext. wrun. wnext. cbn.
      eexists; split; [reflexivity|]. split; [reflexivity|].
      eexists; split; [reflexivity|]. apply Hd1. reflexivity.
  - do 6 eexists. split; [unfold ds_state; reflexivity|].
    split; [reflexivity|]. split; [lia|]. split; [|intros H; discriminate H].
    split; [reflexivity|]. repeat (constructor; [right; lia|]). constructor.
  - lia.
Qed.

(* ------------------------------------------------------------------ *)
(* c_slope (c_grid.c).  Wrapper (pyx): flowdircode is 3x3, altitude and slopeval
   have the shape (nrows, ncols) of flowdir.  Any flow direction values, any
   nprint (0 included), any altitudes / cell size.                         *)

Definition sl_state (nrows ncols nprint i ierr ntot fd : Z) (cellsize altup altdown dist sqrt2 : T)
           (code flowdir : list Z) (down up : Z) (altitude slopeval : list T) : state T :=
  {| s_i := [("nrows", nrows); ("ncols", ncols); ("nprint", nprint); ("i", i); ("ierr", ierr);
             ("ntot", ntot); ("fd", fd)];
     s_f := [("cellsize", cellsize); ("altup", altup); ("altdown", altdown); ("dist", dist);
             ("sqrt2", sqrt2)];
     s_ai := [("flowdircode", code); ("flowdir", flowdir); ("idxdown", [down]); ("idxup", [up])];
     s_af := [("altitude", altitude); ("slopeval", slopeval)] |}.

Definition sl_inv nrows ncols nprint (cellsize sqrt2 : T) code flowdir altitude (len : nat)
           (k : nat) (st : state T) : Prop :=
  exists i ierr fd altup altdown dist down up slopeval,
    st = sl_state nrows ncols nprint i ierr (nrows * ncols) fd cellsize altup altdown dist sqrt2
                  code flowdir down up altitude slopeval /\
    i = Z.of_nat k /\ Z.of_nat k <= nrows * ncols /\ List.length slopeval = len.

Theorem safe_slope nrows ncols nprint (cellsize : T) code flowdir altitude slopeval n :
  List.length code = 9%nat ->
  Z.of_nat (List.length flowdir) = nrows * ncols ->
  List.length altitude = List.length flowdir ->
  List.length slopeval = List.length flowdir ->
  (List.length flowdir + 10 < n)%nat ->
  exists ret outs,
    exec_fun N X program (S n) "c_slope"
      [AVI nrows; AVI ncols; AVI nprint; AVF cellsize; AVArrI code; AVArrI flowdir;
       AVArrF altitude; AVArrF slopeval] = Ok (ret, outs) /\
    exists c slopeval', ret = RI c /\
      outs = [VArrI code; VArrI flowdir; VArrF altitude; VArrF slopeval'] /\
      List.length slopeval' = List.length slopeval /\
      (if nrows <? 1 then 0 < c /\ slopeval' = slopeval else c = 0).
Proof.
  intros Hcode Hfl Halt Hsl Hn.
  destruct code as [|c0 [|c1 [|c2 [|c3 [|c4 [|c5 [|c6 [|c7 [|c8 [|c9 code]]]]]]]]]]; try discriminate Hcode.
  set (code := [c0; c1; c2; c3; c4; c5; c6; c7; c8]) in *.
  wfun. do 10 wstep. wseq. wrun. rewrite orb_diag.
  destruct (nrows <? 1) eqn:Hnr.
  { wnext. cbn. eexists; split; [reflexivity|]. do 2 eexists. split; [reflexivity|].
    split; [reflexivity|]. split; [reflexivity|]. split; [lia|reflexivity]. }
  wnext. do 2 wstep. wseq.
  apply (wp_for N X (sl_inv nrows ncols nprint cellsize (nsqrt N (nofZ N 2)) code flowdir altitude
                            (List.length slopeval)) (List.length flowdir)).
  - intros k st (i & ierr & fd & altup & altdown & dist & down & up & sv & -> & -> & Hk & Hsv).
    split; [lia|].
    unfold sl_state. cbn. rewrite truth_b2z.
    destruct (Z.ltb_spec (Z.of_nat k) (nrows * ncols)) as [Hlt|Hge].
    + (* the progress message: nothing happens, whatever nprint *)
      lazymatch goal with
      | |- wp (xexec _ _ _ _ (SSeq _ _) ?st) _ => apply (wp_seq_mid N X (fun st' => st' = st))
      end.
      { wrun. destruct (Z.eqb_spec nprint 0) as [Hnp|Hnp]; wsimp; rewrite ?if_same; wnext; reflexivity. }
      intros st' ->.
      do 2 wstep. wseq. wrun.
      destruct (downstream1_run nrows ncols code flowdir (Z.of_nat k) 0 n Hcode Hfl)
        as (d' & Ed & Hd'); [lia|lia|].
      rewrite Ed. wsimp. wnext.
      wstep. wif.
      destruct (Z.leb_spec 0 d') as [Hd0|Hd0].
      2:{ wrun. wnext. wrun. wnext. do 9 eexists. (split; [unfold sl_state; reflexivity|]). lia. }
      assert (Hdr : 0 <= d' < nrows * ncols) by (destruct Hd' as [?|[?|?]]; lia).
      wseq. wrun. wget. wsimp. wnext.
      wseq. wrun. wget. wsimp. wnext.
      wseq. wrun. wget. wsimp. wnext.
      wstep.
      wseq. wrun.
      match goal with |- context[if ?c then _ else _] => destruct c end; wnext.
      all: wrun; wset; wsimp; wnext; wrun; wnext.
      all: do 9 eexists; (split; [unfold sl_state; reflexivity|]); lia.
    + wnext. wrun. wnext. cbn.
      eexists; split; [reflexivity|]. do 2 eexists. split; [reflexivity|].
      split; [reflexivity|]. split; [lia|reflexivity].
  - do 9 eexists. split; [unfold sl_state; reflexivity|]. lia.
  - lia.
Qed.

(* ------------------------------------------------------------------ *)
(* getcoord and c_coord2cell on ONE point (as c_slice calls them)         *)

Lemma getcoord_run nrows ncols (xll yll csz : T) idx a b n :
  ncols <> 0 -> (1 < n)%nat ->
  exists x y, exec_fun N X program n "getcoord"
                [AVI nrows; AVI ncols; AVF xll; AVF yll; AVF csz; AVI idx; AVArrF [a; b]]
              = Ok (RI 0, [VArrF [x; y]]).
Proof.
  intros Hnc Hn. destruct n as [|n]; [lia|].
  enough (H : exists v outs,
             exec_fun N X program (S n) "getcoord"
               [AVI nrows; AVI ncols; AVF xll; AVF yll; AVF csz; AVI idx; AVArrF [a; b]] = Ok (v, outs) /\
             (v = RI 0 /\ exists x y, outs = [VArrF [x; y]])).
  { destruct H as (v & outs & E & -> & x & y & ->). exists x, y. exact E. }
  wfun. wstep. wseq. wrun. rewrite getnxy_run by (assumption || lia). wsimp. wnext.
  do 2 wstep. wrun. wnext. cbn.
  eexists; split; [reflexivity|]. split; [reflexivity|]. do 2 eexists. reflexivity.
Qed.

(* the libm function floor is defined on every argument (it is in F64, RR, RN) *)
Definition floor_total : Prop := forall v : T, next X "floor" [v] <> None.

(* a double that compared inside [0, n) converts to a long long *)
Definition trunc_ok (n : Z) : Prop :=
  forall x : T, nleb N (nofZ N 0) x = true -> nltb N x (nofZ N n) = true ->
    exists z, ntrunc N x = Some z /\ in_width W64 z = true.

Definition cc_state (nrows ncols i nx ny : Z) (xll yll csz fx fy : T) (c : Z) (xy : list T) : state T :=
  {| s_i := [("nrows", nrows); ("ncols", ncols); ("nval", 1); ("ierr", 0); ("i", i); ("nx", nx);
             ("ny", ny)];
     s_f := [("xll", xll); ("yll", yll); ("csz", csz); ("fx", fx); ("fy", fy)];
     s_ai := [("idxcell", [c])];
     s_af := [("xycoords", xy)] |}.

Definition cc_inv nrows ncols (xll yll csz : T) xy (k : nat) (st : state T) : Prop :=
  exists i nx ny fx fy c,
    st = cc_state nrows ncols i nx ny xll yll csz fx fy c xy /\
    i = Z.of_nat k /\ (k <= 1)%nat /\ (k = 1%nat -> cellok (nrows * ncols) c).

Lemma coord2cell1_run nrows ncols (xll yll csz x y : T) rest a n :
  floor_total -> trunc_ok nrows -> trunc_ok ncols -> (2 < n)%nat ->
  exists c, exec_fun N X program n "c_coord2cell"
              [AVI nrows; AVI ncols; AVF xll; AVF yll; AVF csz; AVI 1; AVArrF (x :: y :: rest); AVArrI [a]]
            = Ok (RI 0, [VArrF (x :: y :: rest); VArrI [c]]) /\ cellok (nrows * ncols) c.
Proof.
  intros Hfl Htr Htc Hn. destruct n as [|n]; [lia|].
  enough (H : exists v outs,
             exec_fun N X program (S n) "c_coord2cell"
               [AVI nrows; AVI ncols; AVF xll; AVF yll; AVF csz; AVI 1; AVArrF (x :: y :: rest); AVArrI [a]]
             = Ok (v, outs) /\
             (v = RI 0 /\ exists c, outs = [VArrF (x :: y :: rest); VArrI [c]] /\ cellok (nrows * ncols) c)).
  { destruct H as (v & outs & E & -> & c & -> & H). exists c. split; assumption. }
  wfun. do 8 wstep. wseq.
  apply (wp_for N X (cc_inv nrows ncols xll yll csz (x :: y :: rest)) 1).
  - intros k st (i & nx & ny & fx & fy & c & -> & -> & Hk & Hc).
    split; [exact Hk|].
    unfold cc_state. cbn. rewrite truth_b2z.
    destruct (Z.ltb_spec (Z.of_nat k) 1) as [Hlt|Hge].
    + assert (k = 0%nat) by lia. subst k. change (Z.of_nat 0) with 0.
      wseq. wrun.
      destruct (next X "floor" [ndiv N (nsub N x xll) csz]) as [fx1|] eqn:Efx; [|exfalso; eapply Hfl; eassumption].
      wsimp. wnext.
      wseq. wrun.
      destruct (next X "floor" [ndiv N (nsub N y yll) csz]) as [fy1|] eqn:Efy; [|exfalso; eapply Hfl; eassumption].
      wsimp. wnext.
      wseq. wrun.
      destruct (nleb N (nofZ N 0) fx1 && nltb N fx1 (nofZ N ncols) &&
                nleb N (nofZ N 0) fy1 && nltb N fy1 (nofZ N nrows))%bool eqn:Hin; cbn.
      2:{ wnext. wrun. wnext. do 6 eexists. split; [unfold cc_state; reflexivity|].
          split; [reflexivity|]. split; [lia|]. intros _. left; reflexivity. }
      apply andb_true_iff in Hin. destruct Hin as [Hin Hy2].
      apply andb_true_iff in Hin. destruct Hin as [Hin Hy1].
      apply andb_true_iff in Hin. destruct Hin as [Hx1 Hx2].
      destruct (Htc fx1 Hx1 Hx2) as (zx & Ezx & Wzx).
      destruct (Htr fy1 Hy1 Hy2) as (zy & Ezy & Wzy).
      wnext. wseq. wrun. rewrite Ezx. unfold sem_cast. rewrite Wzx. wsimp. wnext.
      wseq. wrun. rewrite Ezy. unfold sem_cast. rewrite Wzy. wsimp. wnext.
      wrun.
      destruct ((zx <? 0) || (ncols <=? zx) || (nrows - 1 - zy <? 0) || (nrows <=? nrows - 1 - zy)) eqn:Hout;
        wsimp; wnext; wrun; wnext.
      * do 6 eexists. split; [unfold cc_state; reflexivity|].
        split; [reflexivity|]. split; [lia|]. intros _. left; reflexivity.
      * do 6 eexists. split; [unfold cc_state; reflexivity|].
        split; [reflexivity|]. split; [lia|]. intros _. right. nia.
    + assert (k = 1%nat) by lia. subst k.
      wnext. wrun. wnext. cbn.
      eexists; split; [reflexivity|]. split; [reflexivity|].
      eexists; split; [reflexivity|]. apply Hc. reflexivity.
  - do 6 eexists. split; [unfold cc_state; reflexivity|].
    split; [reflexivity|]. split; [lia|]. intros H; discriminate H.
  - lia.
Qed.

(* ------------------------------------------------------------------ *)
(* c_slice (c_grid.c).  Wrapper: xyslice has two columns (pyx), zslice has one
   entry per point (allocated by Grid.slice; the pyx wrapper does not assert it),
   data is the (nrows, ncols) grid.  Any coordinates (NaN, huge), any cell size. *)

Definition ss_state (nrows ncols nval ierr i : Z)
           (xll yll csz dx dy val1 val2 val3 tol nan denom t1 t2 zero : T)
           (c1 c2 c3 : Z) (data xys zs : list T) (a1 b1 a2 b2 a3 b3 : T) : state T :=
  {| s_i := [("nrows", nrows); ("ncols", ncols); ("nval", nval); ("ierr", ierr); ("i", i)];
     s_f := [("xll", xll); ("yll", yll); ("csz", csz); ("dx", dx); ("dy", dy); ("val1", val1);
             ("val2", val2); ("val3", val3); ("tol", tol); ("nan", nan); ("denom", denom);
             ("t1", t1); ("t2", t2); ("zero", zero)];
     s_ai := [("idxcell1", [c1]); ("idxcell2", [c2]); ("idxcell3", [c3])];
     s_af := [("data", data); ("xyslice", xys); ("zslice", zs); ("xy1", [a1; b1]);
              ("xy2", [a2; b2]); ("xy3", [a3; b3])] |}.

(* a state of the loop at index i: the scalars and the scratch arrays hold anything *)
Definition ss_any (nrows ncols nval : Z) (xll yll csz tol nan zero : T) (data xys : list T) (len : nat)
           (i : Z) (st : state T) : Prop :=
  exists ierr dx dy val1 val2 val3 denom t1 t2 c1 c2 c3 zs a1 b1 a2 b2 a3 b3,
    st = ss_state nrows ncols nval ierr i xll yll csz dx dy val1 val2 val3 tol nan denom t1 t2 zero
                  c1 c2 c3 data xys zs a1 b1 a2 b2 a3 b3 /\
    List.length zs = len.

Definition ss_inv nrows ncols nval (xll yll csz tol nan zero : T) data xys len (k : nat) (st : state T) : Prop :=
  ss_any nrows ncols nval xll yll csz tol nan zero data xys len (Z.of_nat k) st /\ (k <= len)%nat.

Ltac ss_end :=
  wrun; wnext; (split; [|lia]); rewrite Nat2Z.inj_succ; unfold Z.succ;
  unfold ss_any; do 19 eexists; (split; [unfold ss_state; reflexivity|]); lia.
Ltac ss_close :=
  unfold ss_any; do 19 eexists; split; [unfold ss_state; reflexivity|]; try assumption; try lia.

Theorem safe_slice nrows ncols (xll yll csz : T) data xys zs n :
  floor_total -> trunc_ok nrows -> trunc_ok ncols ->
  Z.of_nat (List.length data) = nrows * ncols ->
  List.length xys = (2 * List.length zs)%nat ->
  (List.length zs + 2 < n)%nat ->
  exists ret outs,
    exec_fun N X program (S n) "c_slice"
      [AVI nrows; AVI ncols; AVF xll; AVF yll; AVF csz; AVArrF data; AVI (zlen zs); AVArrF xys; AVArrF zs]
    = Ok (ret, outs) /\
    ret = RI 0 /\
    exists zs', outs = [VArrF data; VArrF xys; VArrF zs'] /\ List.length zs' = List.length zs.
Proof.
  intros Hfl Htr Htc Hdata Hxys Hn.
  wfun. rewrite zlen_eq. do 24 wstep. wseq.
  match goal with |- context[("tol", ?v)] => set (tol := v) end.
  match goal with |- context[("zero", ?v)] => set (zero := v) end.
  set (nval := Z.of_nat (List.length zs)).
  apply (wp_for N X (ss_inv nrows ncols nval xll yll csz tol (nnan N) zero data xys (List.length zs))
                (List.length zs)).
  - intros k st [(ierr & dx & dy & val1 & val2 & val3 & denom & t1 & t2 & c1 & c2 & c3 & zs1 &
                  a1 & b1 & a2 & b2 & a3 & b3 & -> & Hzs) Hk].
    split; [exact Hk|].
    unfold ss_state. cbn. rewrite truth_b2z. subst nval.
    destruct (Z.ltb_spec (Z.of_nat k) (Z.of_nat (List.length zs))) as [Hlt|Hge].
    + (* zslice[i] = nan *)
      wseq. wrun. wset. wsimp. wnext.
      (* c_coord2cell on the point i *)
      destruct (skipn_two xys (Z.to_nat (2 * Z.of_nat k))) as (px & py & prest & Esk); [lia|].
      wseq. wrun. rewrite (zlen_eq xys). zb. wsimp. rewrite Esk.
      destruct (coord2cell1_run nrows ncols xll yll csz px py prest c1 n Hfl Htr Htc) as (c1' & Ec1 & Hc1');
        [lia|].
      rewrite Ec1. wsimp. rewrite <- Esk, firstn_skipn. wnext.
      (* invalid cell: continue *)
      wseq. wrun.
      destruct (Z.ltb_spec c1' 0) as [Hneg|Hpos]; wsimp; wnext; [ss_end|].
      assert (Hc1 : 0 <= c1' < nrows * ncols) by (destruct Hc1' as [?|?]; lia).
      assert (Hnc : ncols <> 0) by nia.
      (* getcoord *)
      destruct (getcoord_run nrows ncols xll yll csz c1' a1 b1 n Hnc) as (gx & gy & Egc); [lia|].
      wseq. wrun. rewrite Egc. wsimp. wnext.
      wstep.
      wseq. wrun. wget. wsimp. wnext.
      wseq. wrun. wset. wsimp. wnext.
      wseq. wrun. wget. wsimp. wnext.
      wseq. wrun. wget. wsimp. wnext.
      do 2 wstep.
      (* if (fabs(dx) > tol) xy2[0] = ... : merge the two paths *)
      apply (wp_seq_mid N X (ss_any nrows ncols (Z.of_nat (List.length zs)) xll yll csz tol (nnan N) zero
                                    data xys (List.length zs) (Z.of_nat k))).
      { wrun. match goal with |- context[if ?c then _ else _] => destruct c end; wsimp; wnext; ss_close. }
      clear - Hfl Htr Htc Hdata Hxys Hn Hk Hlt.
      intros st (ierr & dx & dy & val1 & val2 & val3 & denom & t1 & t2 & c1 & c2 & c3 & zs1 &
                 a1 & b1 & a2 & b2 & a3 & b3 & -> & Hzs).
      unfold ss_state.
      do 2 wstep.
      apply (wp_seq_mid N X (ss_any nrows ncols (Z.of_nat (List.length zs)) xll yll csz tol (nnan N) zero
                                    data xys (List.length zs) (Z.of_nat k))).
      { wrun. match goal with |- context[if ?c then _ else _] => destruct c end; wsimp; wnext; ss_close. }
      clear - Hfl Htr Htc Hdata Hxys Hn Hk Hlt.
      intros st (ierr & dx & dy & val1 & val2 & val3 & denom & t1 & t2 & c1 & c2 & c3 & zs1 &
                 a1 & b1 & a2 & b2 & a3 & b3 & -> & Hzs).
      unfold ss_state.
      (* c_coord2cell on xy2 *)
      destruct (coord2cell1_run nrows ncols xll yll csz a2 b2 [] c2 n Hfl Htr Htc) as (c2' & Ec2 & Hc2');
        [lia|].
      wseq. wrun. rewrite Ec2. wsimp. wnext.
      wseq. wrun.
      destruct (Z.ltb_spec c2' 0) as [Hneg|Hpos]; wsimp; wnext; [ss_end|].
      assert (Hc2 : 0 <= c2' < nrows * ncols) by (destruct Hc2' as [?|?]; lia).
      (* c_coord2cell on xy3 *)
      destruct (coord2cell1_run nrows ncols xll yll csz a3 b3 [] c3 n Hfl Htr Htc) as (c3' & Ec3 & Hc3');
        [lia|].
      wseq. wrun. rewrite Ec3. wsimp. wnext.
      wseq. wrun.
      destruct (Z.ltb_spec c3' 0) as [Hneg3|Hpos3]; wsimp; wnext; [ss_end|].
      assert (Hc3 : 0 <= c3' < nrows * ncols) by (destruct Hc3' as [?|?]; lia).
      wseq. wrun. wget. wsimp. wnext.
      wseq. wrun. wget. wsimp. wnext.
      wseq. wrun. wset. wsimp. wnext.
      (* the three interpolation cases *)
      wseq. wif. match goal with |- context[if ?c then _ else _] => destruct c end.
      { wseq. wrun. wset. wsimp. wnext. wrun. wnext. ss_end. }
      wrun. wnext.
      wseq. wif. match goal with |- context[if ?c then _ else _] => destruct c end.
      { wseq. wrun. wset. wsimp. wnext. wrun. wnext. ss_end. }
      wrun. wnext.
      wif. match goal with |- context[if ?c then _ else _] => destruct c end.
      { do 3 wstep. wrun. wset. wsimp. wnext. ss_end. }
      wrun. wnext. ss_end.
    + wnext. wrun. wnext. cbn.
      eexists; split; [reflexivity|]. split; [reflexivity|].
      eexists; split; [reflexivity|]. lia.
  - split; [|lia]. ss_close.
  - lia.
Qed.

(* ------------------------------------------------------------------ *)
(* c_delineate_boundary (c_catchment.c)                                   *)

(* the comparator of qsort: answers like Z.compare *)
Definition cmpz (x y : Z) : Z := if y <? x then 1 else if x =? y then 0 else -1.

Lemma cmpz_le x y : cmpz x y <= 0 <-> x <= y.
Proof. unfold cmpz. destruct (Z.ltb_spec y x); destruct (Z.eqb_spec x y); lia. Qed.

Lemma compare_run x y n :
  (0 < n)%nat ->
  exec_fun N X program n "c_catchment.compare" [AVArrI [x]; AVArrI [y]]
  = Ok (RI (cmpz x y), [VArrI [x]; VArrI [y]]).
Proof.
  intros Hn. destruct n as [|n]; [lia|].
  enough (H : exists v outs,
             exec_fun N X program (S n) "c_catchment.compare" [AVArrI [x]; AVArrI [y]] = Ok (v, outs) /\
             (v = RI (cmpz x y) /\ outs = [VArrI [x]; VArrI [y]])).
  { destruct H as (v & outs & E & -> & ->). exact E. }
  wfun. do 4 wstep. unfold cmpz.
  wseq. wrun. destruct (Z.ltb_spec y x) as [H1|H1]; wsimp; wnext.
  { cbn. eexists; split; [reflexivity|]. split; reflexivity. }
  wseq. wrun. destruct (Z.eqb_spec x y) as [H2|H2]; wsimp; wnext.
  { cbn. eexists; split; [reflexivity|]. split; reflexivity. }
  wseq. wrun. zb. wsimp. wnext.
  cbn. eexists; split; [reflexivity|]. split; reflexivity.
Qed.

Lemma compare_call x y n :
  (0 < n)%nat ->
  cmp_call (exec_fun N X program n) "c_catchment.compare" AVArrI [x] [y] = Ok (cmpz x y).
Proof. intros Hn. unfold cmp_call. rewrite compare_run by exact Hn. reflexivity. Qed.

Definition db_loop1 : stmt := Eval cbv in seq_nth 36 (body_of c_delineate_boundary_def).
Definition db_loop1_inner : stmt := Eval cbv in seq_nth 4 (loop_body_of db_loop1).
Definition db_loop2 : stmt := Eval cbv in seq_nth 44 (body_of c_delineate_boundary_def).
Definition db_loop2_inner : stmt := Eval cbv in seq_nth 4 (loop_body_of db_loop2).

Definition db_state (nrows ncols nval i k ngrid nbuffer isout idxcell idxcelln distmax next buf ibnd
                     start dx dy dist dmin knext : Z) (percmax : T)
           (area buffer mask bnd shift : list Z) (c1 c2 b1 b2 s1 s2 : Z) : state T :=
  {| s_i := [("nrows", nrows); ("ncols", ncols); ("nval", nval); ("i", i); ("k", k);
             ("ngrid", ngrid); ("nbuffer", nbuffer); ("isout", isout); ("idxcell", idxcell);
             ("idxcelln", idxcelln); ("distmax", distmax); ("next", next); ("buf", buf);
             ("ibnd", ibnd); ("start", start); ("dx", dx); ("dy", dy); ("dist", dist);
             ("dmin", dmin); ("knext", knext)];
     s_f := [("percmax", percmax)];
     s_ai := [("idxcells_area", area); ("buffer", buffer); ("catchment_area_mask", mask);
              ("idxcells_boundary", bnd); ("shift", shift); ("nxycell", [c1; c2]);
              ("nxybuf", [b1; b2]); ("nxystart", [s1; s2])];
     s_af := [] |}.

(* a state of the kernel after its initialisation: the two work arrays keep their length,
   [P i k nbuffer ibnd knext idxcell] constrains the loop counters *)
Definition db_any (nrows ncols nval ngrid distmax : Z) (percmax : T) (area mask shift : list Z)
           (len : nat) (P : Z -> Z -> Z -> Z -> Z -> Z -> Prop) (st : state T) : Prop :=
  exists i k nbuffer isout idxcell idxcelln next buf ibnd start dx dy dist dmin knext
         buffer bnd c1 c2 b1 b2 s1 s2,
    st = db_state nrows ncols nval i k ngrid nbuffer isout idxcell idxcelln distmax next buf ibnd
                  start dx dy dist dmin knext percmax area buffer mask bnd shift c1 c2 b1 b2 s1 s2 /\
    List.length buffer = len /\ List.length bnd = len /\ P i k nbuffer ibnd knext idxcell.

Ltac db_close :=
  unfold db_any; do 23 eexists; split; [unfold db_state; reflexivity|];
  split; [try assumption; try lia|]; split; [try assumption; try lia|]; cbv beta; try lia.

(* ---- phase 1, inner loop: for(k=0; k<4; k++) is the neighbour idxcell+shift[k] in the mask ---- *)

Lemma db_inner1 cf f nrows ncols nval i0 nb0 ic0 ngrid distmax (percmax : T) area mask len
      isout idxcelln next buf ibnd start dx dy dist dmin knext buffer bnd c1 c2 b1 b2 s1 s2 :
  Z.of_nat (List.length mask) = ngrid -> List.length buffer = len -> List.length bnd = len ->
  (4 < f)%nat ->
  wp (xexec N X cf f db_loop1_inner
        (db_state nrows ncols nval i0 0 ngrid nb0 isout ic0 idxcelln distmax next buf ibnd
                  start dx dy dist dmin knext percmax area buffer mask bnd [-1; 1; - ncols; ncols]
                  c1 c2 b1 b2 s1 s2))
     (fun o st => o = ONormal /\
        db_any nrows ncols nval ngrid distmax percmax area mask [-1; 1; - ncols; ncols] len
               (fun i _ nb _ _ ic => i = i0 /\ nb = nb0 /\ ic = ic0) st).
Proof.
  intros Hmask Hbuf Hbnd Hf.
  apply (wp_for N X (fun (j : nat) st =>
           db_any nrows ncols nval ngrid distmax percmax area mask [-1; 1; - ncols; ncols] len
                  (fun i k nb _ _ ic => i = i0 /\ nb = nb0 /\ ic = ic0 /\ k = Z.of_nat j /\ (j <= 4)%nat) st) 4).
  - intros j st (i & k1 & nb & isout1 & ic & icn & next1 & buf1 & ibnd1 & start1 & dx1 & dy1 & dist1 &
                 dmin1 & knext1 & buffer1 & bnd1 & c11 & c21 & b11 & b21 & s11 & s21 & Est & Hb1 & Hd1 &
                 Ei & Enb & Eic & Ek & Hj).
    subst st i nb ic k1.
    split; [exact Hj|].
    unfold db_state. cbn. rewrite truth_b2z.
    destruct (Z.ltb_spec (Z.of_nat j) 4) as [Hlt|Hge].
    + assert (Hj4 : (j = 0 \/ j = 1 \/ j = 2 \/ j = 3)%nat) by lia.
      destruct Hj4 as [-> | [-> | [-> | ->]]].
      all: change (Z.of_nat 0) with 0; change (Z.of_nat 1) with 1; change (Z.of_nat 2) with 2;
        change (Z.of_nat 3) with 3.
      all: wseq; wrun; wnext; wrun.
      all: match goal with |- context[if ?c then _ else _] => destruct c eqn:Hin end.
      all: wsimp; try wget; wsimp; wnext; wrun; wnext; db_close.
    + wnext. split; [reflexivity|]. db_close.
  - db_close.
  - exact Hf.
Qed.

(* ---- phase 2, inner loop: for(k=0; k<nbuffer; k++) nearest remaining boundary cell ---- *)

Lemma db_inner2 n nrows ncols nval ib0 nb0 ngrid distmax (percmax : T) area mask shift len
      i isout idxcell idxcelln next buf start dx dy dist dmin knext buffer bnd c1 c2 b1 b2 s1 s2 :
  ncols <> 0 -> List.length buffer = len -> List.length bnd = len ->
  0 <= nb0 <= Z.of_nat len -> -1 <= knext < nb0 ->
  (len < n)%nat ->
  wp (xexec N X (exec_fun N X program n) n db_loop2_inner
        (db_state nrows ncols nval i 0 ngrid nb0 isout idxcell idxcelln distmax next buf ib0
                  start dx dy dist dmin knext percmax area buffer mask bnd shift
                  c1 c2 b1 b2 s1 s2))
     (fun o st => o = ONormal /\
        db_any nrows ncols nval ngrid distmax percmax area mask shift len
               (fun _ _ nb ibnd kn _ => nb = nb0 /\ ibnd = ib0 /\ -1 <= kn < nb0) st).
Proof.
  intros Hnc Hbuf Hbnd Hnb Hkn Hf.
  apply (wp_for N X (fun (j : nat) st =>
           db_any nrows ncols nval ngrid distmax percmax area mask shift len
                  (fun _ k nb ibnd kn _ => nb = nb0 /\ ibnd = ib0 /\ -1 <= kn < nb0 /\
                                           k = Z.of_nat j /\ Z.of_nat j <= nb0) st) len).
  - intros j st (i1 & k1 & nb & isout1 & ic & icn & next1 & buf1 & ibnd1 & start1 & dx1 & dy1 & dist1 &
                 dmin1 & knext1 & buffer1 & bnd1 & c11 & c21 & b11 & b21 & s11 & s21 & Est & Hb1 & Hd1 &
                 Enb & Eib & Hkn1 & Ek & Hj).
    subst st nb ibnd1 k1.
    split; [lia|].
    unfold db_state. cbn. rewrite truth_b2z.
    destruct (Z.ltb_spec (Z.of_nat j) nb0) as [Hlt|Hge].
    + wseq. wrun. wget. wsimp. wnext.
      wseq. wrun. destruct (Z.ltb_spec x 0) as [Hneg|Hpos]; wsimp; wnext.
      { wrun. wnext. replace (Z.of_nat j + 1) with (Z.of_nat (S j)) by lia. db_close. }
      wseq. wrun. rewrite getnxy_run by (assumption || lia). wsimp. wnext.
      do 3 wstep.
      wseq. wrun.
      match goal with |- context[if ?c then _ else _] => destruct c eqn:Hc end; wsimp; wnext.
      all: wrun.
      all: match goal with |- context[if ?c then _ else _] => destruct c eqn:Hc1 end; wsimp; wnext.
      all: try (split; [reflexivity|]; db_close).
      all: wrun; wnext; replace (Z.of_nat j + 1) with (Z.of_nat (S j)) by lia; db_close.
    + wnext. split; [reflexivity|]. db_close.
  - db_close.
  - exact Hf.
Qed.

(* the end of c_delineate_boundary: ibnd = min(ibnd, nval-1); boundary[ibnd] = start; return 0 *)
Ltac db_ret :=
  cbn; (eexists; split; [reflexivity|]); do 4 eexists; (split; [reflexivity|]); (split; [lia|]);
  (split; [reflexivity|]); repeat split; (reflexivity || assumption || lia).
Ltac db_tail :=
  wseq; wrun;
  match goal with |- context[if ?a <? ?b then _ else _] => destruct (Z.ltb_spec a b) end;
  wsimp; wnext; (wseq; wrun; wset; wsimp; wnext); wrun; wnext; db_ret.

(* the 80 % threshold  (long long)(nbuffer * 0.8)  converts to a long long *)
Definition perc_ok (len : Z) : Prop :=
  forall nb, 1 <= nb <= len ->
    exists z, ntrunc N (nmul N (nofZ N nb) (nlit X (0x1.999999999999ap-1)%float 4 5)) = Some z /\
              in_width W64 z = true.

Theorem safe_delineate_boundary nrows ncols area buffer mask bnd n :
  List.length buffer = List.length area -> List.length bnd = List.length area ->
  Z.of_nat (List.length mask) = nrows * ncols ->
  perc_ok (Z.of_nat (List.length area)) ->
  (List.length area + 4 < n)%nat ->
  exists ret outs,
    exec_fun N X program (S n) "c_delineate_boundary"
      [AVI nrows; AVI ncols; AVI (zlen area); AVArrI area; AVArrI buffer; AVArrI mask; AVArrI bnd]
    = Ok (ret, outs) /\
    exists c area' buffer' bnd',
      ret = RI c /\ 0 <= c /\
      outs = [VArrI area'; VArrI buffer'; VArrI mask; VArrI bnd'] /\
      List.length area' = List.length area /\ List.length buffer' = List.length buffer /\
      List.length bnd' = List.length bnd.
Proof.
  intros Hbuf Hbnd Hmask Hperc Hn.
  wfun. rewrite zlen_eq. do 22 wstep.
  (* the two argument checks *)
  wseq. wrun. destruct (Z.ltb_spec (Z.of_nat (List.length area)) 1) as [Hnv|Hnv]; wsimp; wnext.
  { db_ret. }
  wseq. wrun. destruct ((nrows <? 1) || (ncols <? 1)) eqn:Hrc; wsimp; wnext.
  { db_ret. }
  wstep. wseq. wrun. rewrite if_ok. wsimp. wnext.
  wstep.
  (* qsort *)
  destruct (qsort_sorted (exec_fun N X program n) "c_catchment.compare" "idxcells_area" cmpz area)
    as (sa & Esa & Hsa & Hin & Hsorted).
  { intros x y. apply compare_call. lia. }
  { apply cmpz_le. }
  wseq. wrun. rewrite Esa. wsimp. wnext.
  (* the sorted-range check: afterwards every area cell is a cell of the grid *)
  destruct (zget_some sa 0) as (a0 & Ea0); [lia|].
  destruct (zget_some sa (Z.of_nat (List.length area) - 1)) as (aN & EaN); [lia|].
  wseq. wrun. rewrite Ea0. wsimp. rewrite ?EaN. wsimp.
  destruct ((a0 <? 0) || (nrows * ncols <=? aN)) eqn:Hchk; wsimp; wnext.
  { db_ret. }
  assert (Hrange : Forall (fun z => 0 <= z < nrows * ncols) sa).
  { assert (Hb : Forall (fun z => a0 <= z <= aN) sa).
    { apply sorted_bounds; [exact Hsorted|exact Ea0|rewrite Hsa; exact EaN]. }
    eapply Forall_impl; [|exact Hb]. cbv beta. intros z Hz. lia. }
  do 5 wstep.
  wseq. wrun. rewrite Ea0. wsimp. wset. wsimp. wnext.
  wstep.
  (* phase 1: the boundary cells of the area go to buffer[1 .. nbuffer-1], nbuffer <= i *)
  set (len := List.length area) in *.
  set (distmax := if ncols <? nrows then nrows else ncols).
  match goal with |- context[("percmax", ?v)] => set (percmax := v) end.
  set (shift := [-1; 1; - ncols; ncols]).
  wseq.
  apply (wp_for N X (fun (j : nat) st =>
           db_any nrows ncols (Z.of_nat len) (nrows * ncols) distmax percmax sa mask shift len
                  (fun i _ nb _ _ _ => i = 1 + Z.of_nat j /\ 1 <= nb <= i /\ 1 + Z.of_nat j <= Z.of_nat len) st) len).
  - intros j st (i1 & k1 & nb & isout1 & ic & icn & next1 & buf1 & ibnd1 & start1 & dx1 & dy1 & dist1 &
                 dmin1 & knext1 & buffer1 & bnd1 & c11 & c21 & b11 & b21 & s11 & s21 & Est & Hb1 & Hd1 &
                 Ei & Hnb & Hj).
    subst st i1.
    split; [lia|].
    unfold db_state. cbn. rewrite truth_b2z.
    destruct (Z.ltb_spec (1 + Z.of_nat j) (Z.of_nat len)) as [Hlt|Hge].
    + wseq. wrun. wget. wsimp. wnext.
      assert (Hx : 0 <= x < nrows * ncols)
        by (apply (zget_Forall (fun z => 0 <= z < nrows * ncols) sa (1 + Z.of_nat j) x Hrange); assumption).
      wseq. wrun. wget. wsimp.
      destruct (x0 =? 1) eqn:Hm; wsimp; wnext.
      2:{ db_ret. }
      do 2 wstep.
      wseq.
      eapply wp_mono; [apply db_inner1 with (len := len); [exact Hmask|exact Hb1|exact Hd1|lia]|].
      intros o st (-> & i2 & k2 & nb2 & isout2 & ic2 & icn2 & next2 & buf2 & ibnd2 & start2 & dx2 & dy2 &
                   dist2 & dmin2 & knext2 & buffer2 & bnd2 & c12 & c22 & b12 & b22 & s12 & s22 & Est &
                   Hb2 & Hd2 & Ei2 & Enb2 & Eic2).
      subst st i2 nb2 ic2. unfold db_state. wnext.
      wif. destruct (isout2 =? 0) eqn:Hiso.
      * wseq. wrun. zb. wsimp. wnext.
        wseq. wrun. wset. wsimp. wnext.
        wrun. wnext. wrun. wnext.
        fold shift. db_close.
      * wrun. wnext. wrun. wnext. fold shift. db_close.
    + (* phase 2: walk along the boundary *)
      assert (Hnc : ncols <> 0) by lia.
      wnext.
      wseq. wrun. wget. wsimp. wnext.
      wseq. wrun. wget. wsimp. wnext.
      wseq. wrun. rewrite getnxy_run by (assumption || lia). wsimp. wnext.
      wseq. wrun. wset. wsimp. wnext.
      do 3 wstep.
      wseq.
      apply (wp_for N X (fun (j2 : nat) st =>
               db_any nrows ncols (Z.of_nat len) (nrows * ncols) distmax percmax sa mask shift len
                      (fun _ _ nb2 ibnd kn _ => nb2 = nb /\ ibnd = Z.of_nat j2 /\ -1 <= kn < nb /\
                                                Z.of_nat j2 <= nb) st) len).
      * intros j2 st (i2 & k2 & nb2 & isout2 & ic2 & icn2 & next2 & buf2 & ibnd2 & start2 & dx2 & dy2 &
                      dist2 & dmin2 & knext2 & buffer2 & bnd2 & c12 & c22 & b12 & b22 & s12 & s22 & Est &
                      Hb2 & Hd2 & Enb2 & Eib2 & Hkn2 & Hj2).
        subst st nb2 ibnd2.
        split; [lia|].
        unfold db_state. cbn. rewrite truth_b2z.
        destruct (Z.ltb_spec (Z.of_nat j2) nb) as [Hlt2|Hge2].
        -- wseq. wrun. rewrite getnxy_run by (assumption || lia). wsimp. wnext.
           wseq. wrun. wset. wsimp. wnext.
           do 2 wstep.
           wseq.
           eapply wp_mono; [apply db_inner2 with (len := len); [exact Hnc|exact Hb2|lia|lia|lia|lia]|].
           intros o st (-> & i3 & k3 & nb3 & isout3 & ic3 & icn3 & next3 & buf3 & ibnd3 & start3 & dx3 & dy3 &
                        dist3 & dmin3 & knext3 & buffer3 & bnd3 & c13 & c23 & b13 & b23 & s13 & s23 & Est &
                        Hb3 & Hd3 & Enb3 & Eib3 & Hkn3).
           subst st nb3 ibnd3. unfold db_state. wnext.
           (* the 80 % threshold *)
           destruct (Hperc nb) as (zt & Ezt & Wzt); [lia|].
           wseq.
           eapply wp_if; [wsimp; fold percmax; unfold percmax; rewrite Ezt; unfold sem_cast; rewrite Wzt; wsimp; reflexivity|].
           rewrite ?truth_b2z.
           assert (Hrest : forall dx4 dy4 dist4,
             wp (xexec N X (exec_fun N X program n) n (seq_nth 6 (loop_body_of db_loop2))
                  (db_state nrows ncols (Z.of_nat len) i3 k3 (nrows * ncols) nb isout3 ic3 icn3 distmax
                     next3 buf3 (Z.of_nat j2) start3 dx4 dy4 dist4 dmin3 knext3 percmax sa buffer3 mask
                     bnd3 shift c13 c23 b13 b23 s13 s23))
                (seq_post (xexec N X (exec_fun N X program n) n (seq_nth 7 (loop_body_of db_loop2)))
                   (for_post (xexec N X (exec_fun N X program n) n
                                (SSetI "ibnd" (IBin IAdd (IVar "ibnd") (IConst 1))))
                      (fun st => db_any nrows ncols (Z.of_nat len) (nrows * ncols) distmax percmax sa mask
                                   shift len
                                   (fun _ _ nb2 ibnd kn _ => nb2 = nb /\ ibnd = Z.of_nat (S j2) /\
                                                             -1 <= kn < nb /\ Z.of_nat (S j2) <= nb) st)
                      K))).
           { intros dx4 dy4 dist4. unfold db_state. cbn [seq_nth loop_body_of db_loop2].
             wif. destruct (Z.leb_spec 0 knext3) as [Hk0|Hk0].
             - wrun. wset. wsimp. wnext. wrun. wnext. wrun. wnext.
               replace (Z.of_nat j2 + 1) with (Z.of_nat (S j2)) by lia. db_close.
             - wrun. wnext. wrun. wnext. wrun. wnext.
               replace (Z.of_nat j2 + 1) with (Z.of_nat (S j2)) by lia. db_close. }
           destruct (Z.ltb_spec zt (Z.of_nat j2)) as [Hthr|Hthr].
           ++ do 3 wstep. wrun.
              match goal with |- context[if ?a <? ?b then _ else _] => destruct (Z.ltb_spec a b) end;
                wsimp; wnext.
              ** db_tail.
              ** wseq. apply Hrest.
           ++ wrun. wnext. wseq. apply Hrest.
        -- wnext. db_tail.
      * db_close.
      * lia.
  - db_close.
  - lia.
Qed.

End Safe.

(* ================================================================== *)
(* The hypotheses on the arithmetic are satisfied by the instances       *)
(* ================================================================== *)

Lemma floor_total_F64 : floor_total XF64.
Proof. intros v. cbn. discriminate. Qed.
Lemma floor_total_RR : floor_total XRR.
Proof. intros v. cbn. discriminate. Qed.
Lemma floor_total_RN : floor_total XRN.
Proof. intros [x|]; cbn; discriminate. Qed.

Definition MAXLL : Z := 9223372036854775807.

Lemma Int_part_range (x : R) (n : Z) : (0 <= x)%R -> (x < IZR n)%R -> 0 <= Int_part x < n.
Proof.
  intros H0 Hn. destruct (base_Int_part x) as [B1 B2]. split.
  - apply Z.lt_succ_r. apply lt_IZR. rewrite succ_IZR. lra.
  - apply lt_IZR. lra.
Qed.

Lemma trunc_ok_RR n : 0 <= n <= MAXLL -> trunc_ok RR n.
Proof.
  intros Hn x H1 H2. cbn in *. apply Rleb_true in H1. apply Rltb_true in H2.
  unfold R_trunc. destruct (Rle_dec 0 x) as [_|Hc]; [|contradiction].
  exists (Int_part x). split; [reflexivity|].
  destruct (Int_part_range x n H1 H2) as [A B].
  unfold in_width, MAXLL in *. apply andb_true_intro. split; apply Z.leb_le; lia.
Qed.

Lemma trunc_ok_RN n : 0 <= n <= MAXLL -> trunc_ok RN n.
Proof.
  intros Hn [x|] H1 H2; cbn in *; try discriminate.
  apply Rleb_true in H1. apply Rltb_true in H2.
  unfold R_trunc. destruct (Rle_dec 0 x) as [_|Hc]; [|contradiction].
  exists (Int_part x). split; [reflexivity|].
  destruct (Int_part_range x n H1 H2) as [A B].
  unfold in_width, MAXLL in *. apply andb_true_intro. split; apply Z.leb_le; lia.
Qed.

Lemma perc_ok_RR len : len < MAXLL -> perc_ok RR XRR len.
Proof.
  intros Hl nb Hnb. cbn. unfold lit_R.
  set (x := (IZR nb * (4 / 5))%R).
  assert (Hx : (0 <= x < IZR (nb + 1))%R).
  { unfold x. rewrite plus_IZR. assert (1 <= IZR nb)%R by (apply IZR_le; lia). lra. }
  unfold R_trunc. destruct (Rle_dec 0 x) as [_|C]; [|lra].
  exists (Int_part x). split; [reflexivity|].
  destruct (Int_part_range x (nb + 1)) as [A B]; [lra|lra|].
  unfold in_width, MAXLL in *. apply andb_true_intro. split; apply Z.leb_le; lia.
Qed.

Lemma perc_ok_RN len : len < MAXLL -> perc_ok RN XRN len.
Proof.
  intros Hl nb Hnb. cbn. unfold lit_R.
  set (x := (IZR nb * (4 / 5))%R).
  assert (Hx : (0 <= x < IZR (nb + 1))%R).
  { unfold x. rewrite plus_IZR. assert (1 <= IZR nb)%R by (apply IZR_le; lia). lra. }
  unfold R_trunc. destruct (Rle_dec 0 x) as [_|C]; [|lra].
  exists (Int_part x). split; [reflexivity|].
  destruct (Int_part_range x (nb + 1)) as [A B]; [lra|lra|].
  unfold in_width, MAXLL in *. apply andb_true_intro. split; apply Z.leb_le; lia.
Qed.

(* c_slice over the reals extended with NaN (None): NaN and huge coordinates included *)
Corollary safe_slice_reals_with_nan nrows ncols (xll yll csz : option R) data xys zs n :
  0 <= nrows <= MAXLL -> 0 <= ncols <= MAXLL ->
  Z.of_nat (List.length data) = nrows * ncols ->
  List.length xys = (2 * List.length zs)%nat ->
  (List.length zs + 2 < n)%nat ->
  exists ret outs,
    exec_fun RN XRN program (S n) "c_slice"
      [AVI nrows; AVI ncols; AVF xll; AVF yll; AVF csz; AVArrF data; AVI (zlen zs); AVArrF xys; AVArrF zs]
    = Ok (ret, outs) /\
    ret = RI 0 /\
    exists zs', outs = [VArrF data; VArrF xys; VArrF zs'] /\ List.length zs' = List.length zs.
Proof.
  intros Hr Hc. apply safe_slice; [exact floor_total_RN|apply trunc_ok_RN; exact Hr|apply trunc_ok_RN; exact Hc].
Qed.

(* c_delineate_boundary over the reals: no hypothesis on the arithmetic is left *)
Corollary safe_delineate_boundary_reals nrows ncols area buffer mask bnd n :
  List.length buffer = List.length area -> List.length bnd = List.length area ->
  Z.of_nat (List.length mask) = nrows * ncols ->
  Z.of_nat (List.length area) < MAXLL ->
  (List.length area + 4 < n)%nat ->
  exists ret outs,
    exec_fun RR XRR program (S n) "c_delineate_boundary"
      [AVI nrows; AVI ncols; AVI (zlen area); AVArrI area; AVArrI buffer; AVArrI mask; AVArrI bnd]
    = Ok (ret, outs) /\
    exists c area' buffer' bnd',
      ret = RI c /\ 0 <= c /\
      outs = [VArrI area'; VArrI buffer'; VArrI mask; VArrI bnd'] /\
      List.length area' = List.length area /\ List.length buffer' = List.length buffer /\
      List.length bnd' = List.length bnd.
Proof.
  intros Hb Hd Hm Hl Hn. apply safe_delineate_boundary; try assumption. apply perc_ok_RR. exact Hl.
Qed.

(* non-vacuity in binary64: a run of the translated kernels on a 3x3 grid *)
Example delineate_boundary_runs_F64 :
  exec_fun F64 XF64 program 50 "c_delineate_boundary"
    [AVI 3; AVI 3; AVI 3; AVArrI [5; 4; 1]; AVArrI [9; 9; 9]; AVArrI [0; 1; 0; 0; 1; 1; 0; 0; 0]; AVArrI [9; 9; 9]]
  = Ok (RI 0, [VArrI [1; 4; 5]; VArrI [-1; -1; -1]; VArrI [0; 1; 0; 0; 1; 1; 0; 0; 0]; VArrI [1; 4; 1]]).
Proof. vm_compute. reflexivity. Qed.

(* ================================================================== *)
(* Findings: wrapper-admissible (pyx level) inputs on which the interpreter stops *)
(* ================================================================== *)

(* c_hydrodiy_gis.slice asserts xyslice.shape[1] == 2 only: a zslice shorter than xyslice is
   written past its end (Grid.slice, the only caller in the package, allocates len(xyslice)) *)
Example unsafe_slice_short_zslice :
  exec_fun F64 XF64 program 50 "c_slice"
    [AVI 1; AVI 1; AVF 0%float; AVF 0%float; AVF 1%float; AVArrF [1%float]; AVI 1;
     AVArrF [0.5%float; 0.5%float]; AVArrF []]
  = Err (OOB "zslice" 0).
Proof. vm_compute. reflexivity. Qed.

(* c_hydrodiy_gis.exclude_zero_area_boundary asserts idxok.shape[0] == xycoords.shape[0] only:
   an (n,1) coordinate array is read as (n,2) (the only caller passes the (n,2) result of cell2coord) *)
Example unsafe_exclude_zero_area_boundary_one_column :
  exec_fun F64 XF64 program 50 "c_exclude_zero_area_boundary"
    [AVI 3; AVF 0%float; AVArrF [0%float; 0%float; 0%float]; AVArrI [0; 0; 0]]
  = Err (OOB "xycoords" 3).
Proof. vm_compute. reflexivity. Qed.
