(* Theorems about Model/GridIO.v (property C13), part 3: raw data (byte
   layout, byte order), complete save/load round trip, dictionaries, catchment
   dictionaries, and the refutations of the pinned code. *)
From Coq Require Import ZArith Bool List String Ascii Lia PrimFloat.
From Hy Require Import Base.Num Gen.ConstsC13 Model.Grid Model.GridIO
  Proofs.GridIOProofs Proofs.GridIOHeaderProofs.
Import ListNotations.
Open Scope string_scope. Open Scope list_scope. Open Scope Z_scope.

(* ---------------- bytes ---------------- *)
Lemma enc_le_length n v : List.length (enc_le n v) = n.
Proof. revert v. induction n; intros v; simpl; [reflexivity|]. rewrite IHn. reflexivity. Qed.

Lemma enc_length bo n v : List.length (enc bo n v) = n.
Proof. destruct bo; simpl; [|rewrite rev_length]; apply enc_le_length. Qed.

Lemma val_enc_le n v : 0 <= v < 256 ^ Z.of_nat n -> val_le (enc_le n v) = v.
Proof.
  revert v. induction n; intros v H.
  - simpl in *. lia.
  - rewrite Nat2Z.inj_succ, Z.pow_succ_r in H by lia.
    cbn [enc_le val_le]. rewrite IHn.
    + pose proof (Z.div_mod v 256 ltac:(lia)). lia.
    + split; [apply Z.div_pos; lia | apply Z.div_lt_upper_bound; lia].
Qed.

Lemma val_enc bo n v : 0 <= v < 256 ^ Z.of_nat n -> val_of bo (enc bo n v) = v.
Proof.
  intros H. destruct bo; simpl; [|rewrite rev_involutive]; apply val_enc_le; assumption.
Qed.

(* every byte written is a byte *)
Lemma enc_le_bytes n v : Forall (fun b => 0 <= b < 256) (enc_le n v).
Proof.
  revert v. induction n; intros v; simpl; constructor; [|apply IHn].
  apply Z.mod_pos_bound. lia.
Qed.

Lemma decode_aux_item n bo w : forall cur k rest,
  List.length w = S k ->
  decode_aux n bo cur k (w ++ rest) = val_of bo (cur ++ w) :: decode_aux n bo [] (n - 1) rest.
Proof.
  induction w as [|b w IH]; intros cur k rest H; [discriminate|].
  simpl in H. injection H as H. destruct k.
  - destruct w; [|discriminate]. reflexivity.
  - cbn [app decode_aux]. rewrite IH by assumption. rewrite <- app_assoc. reflexivity.
Qed.

(* fromfile(tofile(values)) = values, in either byte order *)
Theorem decode_encode bo n vals :
  (0 < n)%nat -> Forall (fun v => 0 <= v < 256 ^ Z.of_nat n) vals ->
  decode n bo (tofile_bo bo n vals) = vals.
Proof.
  intros Hn H. destruct n as [|k]; [lia|]. unfold decode, tofile_bo.
  induction H as [|v vals Hv _ IH]; [reflexivity|].
  cbn [flat_map]. rewrite decode_aux_item by (rewrite enc_length; reflexivity).
  cbn [app]. rewrite val_enc by assumption. f_equal.
  replace (S k - 1)%nat with k by lia. exact IH.
Qed.

Lemma tofile_is_le n vals : tofile n vals = tofile_bo LE n vals.
Proof. reflexivity. Qed.

(* the pinned loader ignored the byte order: a big-endian raster is not read back *)
Theorem bigendian_pinned_refuted :
  exists (m : gmeta float) vals,
    load m BE (tofile_bo BE 2 vals) = Some vals /\
    load_pinned_order m BE (tofile_bo BE 2 vals) <> Some vals.
Proof.
  exists (mkG "g" 1 1 1%float 0%float 0%float (KInt, 2) (NInt 0) "" []), [1].
  split; [reflexivity|]. vm_compute. discriminate.
Qed.

(* ---------------- load ---------------- *)
Definition dtype_bytes_ok (d : dtype) : Prop := In d all_dtypes.

Lemma all_dtypes_bytes d : In d all_dtypes -> 0 < snd d /\ (0 < Z.to_nat (snd d))%nat.
Proof.
  cbn [all_dtypes In]. intros H.
  repeat (destruct H as [H|H]; [subst d; cbn; lia|]). contradiction.
Qed.

Definition pattern_ok (d : dtype) (v : Z) : Prop := 0 <= v < 256 ^ snd d.

Theorem load_tofile {T} (m : gmeta T) bo vals :
  In (g_dtype m) all_dtypes -> Forall (pattern_ok (g_dtype m)) vals ->
  Z.of_nat (List.length vals) = g_nrows m * g_ncols m ->
  load m bo (tofile_bo bo (Z.to_nat (snd (g_dtype m))) vals) = Some vals.
Proof.
  intros Hd Hv Hl. destruct (all_dtypes_bytes _ Hd) as [Hp Hn]. unfold load.
  rewrite decode_encode; [rewrite Hl, Z.eqb_refl; reflexivity | assumption |].
  unfold pattern_ok in Hv. rewrite Z2Nat.id by lia. assumption.
Qed.

(* a raw file with another number of items is rejected *)
Theorem load_wrong_size {T} (m : gmeta T) bo bytes :
  Z.of_nat (List.length (decode (Z.to_nat (snd (g_dtype m))) bo bytes)) <> g_nrows m * g_ncols m ->
  load m bo bytes = None.
Proof. intros H. unfold load. apply Z.eqb_neq in H. rewrite H. reflexivity. Qed.

Lemma load_ext {T} (m m' : gmeta T) bo bytes :
  g_dtype m' = g_dtype m -> g_nrows m' = g_nrows m -> g_ncols m' = g_ncols m ->
  load m' bo bytes = load m bo bytes.
Proof. intros A B C. unfold load. rewrite A, B, C. reflexivity. Qed.

(* np.clip through binary64 (pinned data setter / load): 64-bit integers change *)
Theorem via_f64_pinned_refuted :
  exists v, in_range (KInt, 8) v = true /\ via_f64 F64 (KInt, 8) v <> Some v.
Proof. exists (2 ^ 62 + 1). split; [reflexivity|]. vm_compute. discriminate. Qed.

Theorem via_f64_pinned_refuted_unsigned :
  exists v, in_range (KUInt, 8) v = true /\ via_f64 F64 (KUInt, 8) v <> Some v.
Proof. exists (2 ^ 64 - 1). split; [reflexivity|]. vm_compute. discriminate. Qed.

(* ---------------- complete save / load ---------------- *)
Section SaveLoad.
Context {T : Type} (N : NumOps T) (IO : IoOps T).
Hypothesis pr_rd : forall x, io_rd IO (io_pr IO x) = Some x.
Hypothesis pr_tok : forall x, no_ws (io_pr IO x) = true.
Hypothesis pr_not_int : forall x, parse_Z (io_pr IO x) = None.

(* a raster in either byte order (header in the layout of Grid.save declaring
   the order, items written in that order) loads with the same attributes and
   bit-identical cells *)
Theorem raster_roundtrip defname bo m vals :
  meta_wf N IO m -> Forall (pattern_ok (g_dtype m)) vals ->
  Z.of_nat (List.length vals) = g_nrows m * g_ncols m ->
  exists m',
    from_stream N IO defname (header_text IO bo m)
                (Some (tofile_bo bo (Z.to_nat (snd (g_dtype m))) vals)) = Some (m', Some vals) /\
    g_nrows m' = g_nrows m /\ g_ncols m' = g_ncols m /\
    g_xll m' = g_xll m /\ g_yll m' = g_yll m /\ g_csz m' = g_csz m /\
    g_dtype m' = g_dtype m /\ g_nodata m' = g_nodata m.
Proof.
  intros Hwf Hv Hl.
  destruct (header_roundtrip_bo N IO pr_rd pr_tok pr_not_int defname bo m Hwf)
    as (m' & E & Hr & Hc & Hx & Hy & Hs & Hd & Hn).
  exists m'. split; [|repeat split; assumption].
  unfold from_stream. rewrite E.
  rewrite (load_ext m m') by assumption.
  destruct Hwf as (_ & _ & Hin & _). rewrite load_tofile by assumption. reflexivity.
Qed.

(* Grid.save then Grid.from_stream(header, data) *)
Theorem save_load_roundtrip defname m vals :
  meta_wf N IO m -> Forall (pattern_ok (g_dtype m)) vals ->
  Z.of_nat (List.length vals) = g_nrows m * g_ncols m ->
  exists m',
    from_stream N IO defname (render_header IO m)
                (Some (tofile (Z.to_nat (snd (g_dtype m))) vals)) = Some (m', Some vals) /\
    g_nrows m' = g_nrows m /\ g_ncols m' = g_ncols m /\
    g_xll m' = g_xll m /\ g_yll m' = g_yll m /\ g_csz m' = g_csz m /\
    g_dtype m' = g_dtype m /\ g_nodata m' = g_nodata m.
Proof. exact (raster_roundtrip defname LE m vals). Qed.

(* with a raw file of the wrong length the load raises *)
Theorem save_load_wrong_size defname m bytes :
  meta_wf N IO m ->
  Z.of_nat (List.length (decode (Z.to_nat (snd (g_dtype m))) LE bytes)) <> g_nrows m * g_ncols m ->
  from_stream N IO defname (render_header IO m) (Some bytes) = None.
Proof.
  intros Hwf H.
  destruct (header_roundtrip N IO pr_rd pr_tok pr_not_int defname m Hwf)
    as (m' & E & Hr & Hc & _ & _ & _ & Hd & _).
  unfold from_stream. rewrite E, (load_ext m m') by assumption.
  rewrite load_wrong_size by assumption. reflexivity.
Qed.

End SaveLoad.

(* ---------------- dictionaries ---------------- *)
Lemma rstrip_no_ws s : no_ws s = true -> rstrip s = s.
Proof.
  induction s; simpl; intros H; [reflexivity|].
  apply andb_true_iff in H. destruct H as [A B]. apply negb_true_iff in A.
  rewrite IHs, A by assumption. reflexivity.
Qed.
Lemma strip_no_ws s : no_ws s = true -> strip s = s.
Proof.
  intros H. unfold strip. destruct s as [|c r]; [reflexivity|].
  pose proof H as H'. simpl in H. apply andb_true_iff in H. destruct H as [A B].
  apply negb_true_iff in A. cbn [lstrip]. rewrite A. apply rstrip_no_ws. exact H'.
Qed.

Lemma np_dtype_any_str d : In d all_dtypes -> np_dtype_any (dtype_str d) = Some d.
Proof.
  cbn [all_dtypes In]. intros H.
  repeat (destruct H as [H|H]; [subst d; vm_compute; reflexivity|]). contradiction.
Qed.

Section Dict.
Context {T : Type} (N : NumOps T) (IO : IoOps T).
(* numpy: np.floatNN(str(np.floatNN(x))) = x for a value of that type - trusted *)
Hypothesis prs_rds : forall d x, io_rds IO d (io_prs IO d x) = Some x.

Definition dict_wf (m : gmeta T) : Prop :=
  0 <= g_nrows m < 2 ^ 63 /\ 0 <= g_ncols m < 2 ^ 63 /\
  In (g_dtype m) all_dtypes /\
  conv_nodata N IO (g_dtype m) (g_nodata m) = Some (g_nodata m).

Lemma nodata_of_str_nd d nd :
  conv_nodata N IO d nd = Some nd -> nodata_of_str IO d (str_nd IO d nd) = Some nd.
Proof.
  unfold conv_nodata, nodata_of_str, str_nd. destruct (fst d) eqn:K; destruct nd as [z|x]; intros H.
  - rewrite strip_no_ws by apply show_Z_no_ws. rewrite parse_show.
    destruct (in_range d z); [reflexivity|discriminate].
  - destruct (ntrunc N x); [|discriminate]. destruct (in_range d z); discriminate.
  - rewrite strip_no_ws by apply show_Z_no_ws. rewrite parse_show.
    destruct (in_range d z); [reflexivity|discriminate].
  - destruct (ntrunc N x); [|discriminate]. destruct (in_range d z); discriminate.
  - discriminate.
  - rewrite prs_rds. reflexivity.
Qed.

Definition drop_parent (m : gmeta T) : gmeta T :=
  mkG (g_name m) (g_ncols m) (g_nrows m) (g_csz m) (g_xll m) (g_yll m) (g_dtype m)
      (g_nodata m) (g_comment m) [].

(* Grid.from_dict(grid.to_dict()): every attribute of the constructor is back
   (the parent bookkeeping of a clip is not passed to the constructor) *)
Theorem dict_roundtrip m : dict_wf m -> from_dict N IO (to_dict IO m) = Some (drop_parent m).
Proof.
  intros (Hr & Hc & Hd & Hn).
  destruct m as [name nc nr csz xll yll d nd comment par].
  cbn [g_name g_ncols g_nrows g_csz g_xll g_yll g_dtype g_nodata g_comment g_parent] in *.
  unfold from_dict, to_dict, drop_parent.
  cbn -[np_dtype_any nodata_of_str mk_grid dtype_str str_nd].
  rewrite np_dtype_any_str by assumption.
  rewrite nodata_of_str_nd by assumption.
  apply mk_grid_ok; assumption.
Qed.

(* ---------------- catchments ---------------- *)
Definition catch_wf (c : catch (T := T)) : Prop :=
  (exists a, c_area c = Some a) /\ (exists f, c_filled c = Some f) /\ dict_wf (c_flow c).

Theorem catchment_dict_roundtrip c :
  catch_wf c ->
  exists d c',
    cat_to_dict IO c = Some d /\ cat_from_dict N IO d = Some c' /\
    c_name c' = c_name c /\ c_outlet c' = c_outlet c /\ c_inlets c' = c_inlets c /\
    c_area c' = c_area c /\ c_filled c' = c_filled c /\
    c_flow c' = as_int64 (drop_parent (c_flow c)).
Proof.
  intros ((a & Ha) & (f & Hf) & Hw).
  destruct c as [name o i ar fi flow]. cbn [c_name c_outlet c_inlets c_area c_filled c_flow] in *.
  subst ar fi. eexists. exists (mkC name o i (Some a) (Some f) (as_int64 (drop_parent flow))).
  split; [reflexivity|]. split; [|cbn; repeat split; reflexivity].
  unfold cat_from_dict, cat_from_dict_gen.
  cbn -[from_dict to_dict]. rewrite dict_roundtrip by assumption.
  destruct o; destruct i; reflexivity.
Qed.

(* a catchment that is not delineated cannot be exported *)
Theorem catchment_to_dict_undelineated c : c_area c = None -> cat_to_dict IO c = None.
Proof. intros H. unfold cat_to_dict. rewrite H. reflexivity. Qed.

End Dict.

(* ---------------- error branches ---------------- *)
Section Errors.
Context {T : Type} (N : NumOps T) (IO : IoOps T).

(* a line holding a single token under a non-text key raises (IndexError) *)
Theorem parse_line_one_token st l k :
  tokens l = [k] -> key_class (lower k) <> KCText -> parse_line IO st l = None.
Proof.
  intros Ht Hk. unfold parse_line, parse_line_gen, line_value. rewrite Ht. cbn [hd tl].
  destruct (key_class (lower k)); [congruence| | |]; reflexivity.
Qed.

(* an exception in one line aborts the whole header *)
Lemma parse_lines_none ls :
  fold_left (fun st l => match st with Some s => parse_line IO s l | None => None end) ls None = None.
Proof. induction ls; simpl; auto. Qed.

(* a byte order letter other than I/M is rejected (ValueError) *)
Theorem finish_stream_bad_byteorder c p b :
  get_text c "byteorder" = Some b -> b <> "m" -> b <> "i" -> finish_stream N IO (c, p) = None.
Proof.
  intros H Hm Hi. unfold finish_stream. cbn [fst]. rewrite H.
  apply String.eqb_neq in Hm. apply String.eqb_neq in Hi. rewrite Hm, Hi. reflexivity.
Qed.

(* an integer no-data value outside the range of an integer type is rejected (OverflowError) *)
Theorem conv_nodata_out_of_range d z :
  fst d <> KFloat -> in_range d z = false -> conv_nodata N IO d (NInt z) = None.
Proof.
  intros Hk Hr. unfold conv_nodata. destruct (fst d); [| |congruence]; rewrite Hr; reflexivity.
Qed.

Theorem mk_grid_bad_nodata name nc nr csz xll yll d nd comment :
  conv_nodata N IO d nd = None -> mk_grid N IO name nc nr csz xll yll d nd comment = None.
Proof.
  intros H. unfold mk_grid. rewrite H.
  destruct (negb (in_i64 nc && in_i64 match nr with Some r => r | None => nc end)); reflexivity.
Qed.

(* negative dimensions are rejected (np.zeros) *)
Theorem mk_grid_negative name nc nr csz xll yll d nd comment :
  nr < 0 \/ nc < 0 -> mk_grid N IO name nc (Some nr) csz xll yll d nd comment = None.
Proof.
  intros H. unfold mk_grid.
  destruct (negb (in_i64 nc && in_i64 nr)); [reflexivity|].
  destruct (conv_nodata N IO d nd); [|reflexivity].
  destruct (nr <? 0) eqn:E1; [reflexivity|]. destruct (nc <? 0) eqn:E2; [reflexivity|].
  apply Z.ltb_ge in E1. apply Z.ltb_ge in E2. lia.
Qed.

(* from_dict needs "name" and "ncols" (KeyError) *)
Theorem from_dict_missing d :
  lookup "name" d = None \/ lookup "ncols" d = None -> from_dict N IO d = None.
Proof.
  intros [H|H]; unfold from_dict; rewrite H; [reflexivity|].
  destruct (lookup "name" d) as [[]|]; reflexivity.
Qed.

End Errors.

(* number of items numpy.fromfile returns: whole items only *)
Lemma decode_aux_length n bo : forall bytes cur k,
  (k < n)%nat ->
  List.length (decode_aux n bo cur k bytes) = ((List.length bytes + (n - 1 - k)) / n)%nat.
Proof.
  induction bytes as [|b r IH]; intros cur k Hk.
  - simpl. symmetry. apply Nat.div_small. lia.
  - cbn [decode_aux]. destruct k.
    + cbn [List.length]. rewrite IH by lia.
      replace (n - 1 - (n - 1))%nat with 0%nat by lia.
      replace (S (List.length r) + (n - 1 - 0))%nat with (List.length r + 0 + 1 * n)%nat by lia.
      rewrite Nat.div_add by lia. lia.
    + rewrite IH by lia. cbn [List.length]. f_equal. lia.
Qed.

Theorem decode_length n bo bytes :
  (0 < n)%nat -> List.length (decode n bo bytes) = (List.length bytes / n)%nat.
Proof.
  intros Hn. destruct n as [|k]; [lia|]. unfold decode.
  rewrite decode_aux_length by lia. f_equal. lia.
Qed.

(* Grid.load: the file must hold exactly nrows*ncols whole items *)
Theorem load_size_iff {T} (m : gmeta T) bo bytes :
  In (g_dtype m) all_dtypes ->
  (load m bo bytes <> None <->
   Z.of_nat (List.length bytes / Z.to_nat (snd (g_dtype m))) = g_nrows m * g_ncols m).
Proof.
  intros Hd. destruct (all_dtypes_bytes _ Hd) as [_ Hn]. unfold load.
  rewrite decode_length by assumption.
  destruct (Z.of_nat (List.length bytes / Z.to_nat (snd (g_dtype m))) =? g_nrows m * g_ncols m) eqn:E.
  - apply Z.eqb_eq in E. split; [intros _; exact E | intros _; discriminate].
  - apply Z.eqb_neq in E. split; [intros H; congruence | intros H; contradiction].
Qed.

(* binary64 instance used by the refutations: tokens of the few values involved *)
Definition demoIO : IoOps float :=
  tabIO [(1%float, "1.0"); (0%float, "0.0")] [("1.0", 1%float); ("0.0", 0%float)].

Definition demo_grid : gmeta float :=
  mkG "g" 1 2 1%float 0%float 0%float (KInt, 2) (NInt (-99)) "" [].

(* the header of the pinned commit carries no no-data value: it comes back as 0 *)
Theorem header_nodata_pinned_refuted :
  exists m m',
    from_stream_header_pinned F64 demoIO "g" (render_header_pinned demoIO m) = Some (m', LE) /\
    g_nodata m = NInt (-99) /\ g_nodata m' = NInt 0.
Proof.
  exists demo_grid. eexists. split; [vm_compute; reflexivity|]. split; reflexivity.
Qed.

(* ... while the repaired writer/parser give it back (same grid, same tokens) *)
Example header_nodata_repaired :
  exists m', from_stream_header F64 demoIO "g" (render_header demoIO demo_grid) = Some (m', LE) /\
             g_nodata m' = NInt (-99).
Proof. eexists. split; [vm_compute; reflexivity|]. reflexivity. Qed.

(* pinned no-data parser: a 64-bit integer no-data value went through binary64 *)
Theorem header_nodata_int64_pinned_refuted :
  exists text,
    (exists m', from_stream_header F64 (tabIO [] [("9223372036854775807", 0x1p+63%float)]) "g" text
                = Some (m', LE) /\ g_nodata m' = NInt 9223372036854775807) /\
    from_stream_header_pinned F64 (tabIO [] [("9223372036854775807", 0x1p+63%float)]) "g" text = None.
Proof.
  exists ("NROWS 1" +++ NL +++ "NCOLS 1" +++ NL +++ "NBITS 64" +++ NL +++ "PIXELTYPE SIGNEDINT" +++ NL
          +++ "NODATA_VALUE 9223372036854775807" +++ NL).
  split; [eexists; split; [vm_compute; reflexivity|reflexivity]|]. vm_compute. reflexivity.
Qed.

Definition demo_catch : catch (T := float) :=
  mkC "c" (Some 7) (Some [1]) (Some [4; 7]) (Some [4; 7])
      (mkG "fd" 3 3 1%float 0%float 0%float (KInt, 8) (NInt 0) "" []).

(* pinned Catchment.from_dict: the inlets are lost *)
Theorem catchment_inlets_pinned_refuted :
  exists c d c',
    cat_to_dict demoIO c = Some d /\ cat_from_dict_pinned F64 demoIO d = Some c' /\
    c_inlets c = Some [1] /\ c_inlets c' = None.
Proof.
  exists demo_catch. eexists. eexists. split; [vm_compute; reflexivity|].
  split; [vm_compute; reflexivity|]. split; reflexivity.
Qed.

(* ---------------- non-vacuity of the hypotheses on the printers ---------------- *)
(* a two-valued "float" type with a printer/reader pair meeting every hypothesis *)
Definition BN : NumOps bool :=
  mkNumOps bool false true orb orb andb andb negb (fun a b => negb a && b) (fun a b => negb a || b)
           Bool.eqb (fun _ => false) (fun x => x) (fun x => x) false
           (fun z => negb (z =? 0)) (fun b => Some (if b then 1 else 0)) (fun b => Some (if b then 1 else 0)).
Definition BIO : IoOps bool :=
  mkIoOps bool (fun b => if b then "1.5" else "nan")
          (fun s => if String.eqb s "1.5" then Some true else if String.eqb s "nan" then Some false else None)
          (fun _ b => if b then "1.5" else "nan")
          (fun _ s => if String.eqb s "1.5" then Some true else if String.eqb s "nan" then Some false else None)
          (fun _ b => b) false.

Lemma BIO_pr_rd : forall x, io_rd BIO (io_pr BIO x) = Some x.
Proof. intros []; reflexivity. Qed.
Lemma BIO_pr_tok : forall x, no_ws (io_pr BIO x) = true.
Proof. intros []; reflexivity. Qed.
Lemma BIO_pr_not_int : forall x, parse_Z (io_pr BIO x) = None.
Proof. intros []; reflexivity. Qed.
Lemma BIO_prs_rds : forall d x, io_rds BIO d (io_prs BIO d x) = Some x.
Proof. intros d []; reflexivity. Qed.

Definition demo_bgrid : gmeta bool :=
  mkG "My grid" 3 2 true false true (KFloat, 4) (NFlt false) "a comment" [("parentgrid_nrows", PInt 7)].

Example demo_bgrid_wf : meta_wf BN BIO demo_bgrid.
Proof.
  unfold meta_wf, demo_bgrid; cbn [g_nrows g_ncols g_dtype g_nodata g_name g_comment].
  change (2 ^ 63) with 9223372036854775808.
  split; [lia|]. split; [lia|]. split; [do 9 right; left; reflexivity|].
  split; [reflexivity|]. split; reflexivity.
Qed.

Example demo_bgrid_dict_wf : dict_wf BN BIO demo_bgrid.
Proof.
  unfold dict_wf, demo_bgrid; cbn [g_nrows g_ncols g_dtype g_nodata].
  change (2 ^ 63) with 9223372036854775808.
  split; [lia|]. split; [lia|]. split; [do 9 right; left; reflexivity|]. reflexivity.
Qed.
