(* Theorems about Model/Intersect.v, part 3 (property C16): c_voronoi - the
   nearest-point search (strict comparison: the lowest index wins a tie), the
   counts, the normalisation. *)
From Coq Require Import ZArith Bool List Reals Lra Lia Psatz.
From Hy Require Import Base.Num Gen.Consts Gen.ConstsC16 Model.Grid Model.Intersect
     Proofs.GridGeomProofs Proofs.IntersectProofs Proofs.IntersectGridProofs.
Import ListNotations.
Open Scope R_scope.

Definition p0 : R * R := (0, 0).

Lemma dist_RR xy p :
  dist RR xy p = sqrt ((fst xy - fst p) * (fst xy - fst p) + (snd xy - snd p) * (snd xy - snd p)).
Proof. reflexivity. Qed.

Lemma dist_nonneg xy p : 0 <= dist RR xy p.
Proof. rewrite dist_RR. apply sqrt_pos. Qed.

(* point i is a nearest point of xy and every point before it is strictly farther *)
Definition lowest_nearest (xy : R * R) (pts : list (R * R)) (i : nat) : Prop :=
  (i < List.length pts)%nat /\
  (forall i', (i' < List.length pts)%nat -> dist RR xy (nth i pts p0) <= dist RR xy (nth i' pts p0)) /\
  (forall i', (i' < i)%nat -> dist RR xy (nth i pts p0) < dist RR xy (nth i' pts p0)).

Lemma lowest_nearest_unique xy pts i i' :
  lowest_nearest xy pts i -> lowest_nearest xy pts i' -> i = i'.
Proof.
  intros (L & A & B) (L' & A' & B').
  destruct (Nat.lt_trichotomy i i') as [H|[H|H]]; [|assumption|].
  - specialize (B' i H). specialize (A i' L'). lra.
  - specialize (B i' H). specialize (A' i L). lra.
Qed.

(* the search loop *)
Lemma nearest_from_spec xy pts : forall j dm jm,
  let r := nearest_from RR xy pts j dm jm in
  (r = jm /\ forall i, (i < List.length pts)%nat -> dm <= dist RR xy (nth i pts p0)) \/
  (exists i, r = (j + Z.of_nat i)%Z /\ dist RR xy (nth i pts p0) < dm /\ lowest_nearest xy pts i).
Proof.
  induction pts as [|p pts IH]; intros j dm jm; cbv zeta; cbn [nearest_from].
  - left. split; [reflexivity|]. intros i Hi. cbn in Hi. lia.
  - change (nltb RR (dist RR xy p) dm) with (Rltb (dist RR xy p) dm).
    destruct (Rltb (dist RR xy p) dm) eqn:E.
    + apply Rltb_true in E. right.
      destruct (IH (j + 1)%Z (dist RR xy p) j) as [[Er Hall]|(i & Er & Hd & L & A & B)].
      * exists O. split; [rewrite Er; lia|]. split; [exact E|]. split; [cbn; lia|]. split.
        -- intros [|i'] Hi'; cbn [nth]; [lra|]. apply Hall. cbn in Hi'. lia.
        -- intros i' Hi'. lia.
      * exists (S i). split; [rewrite Er; lia|]. cbn [nth]. split; [lra|]. split; [cbn; lia|]. split.
        -- intros [|i'] Hi'; cbn [nth]; [lra|]. apply A. cbn in Hi'. lia.
        -- intros [|i'] Hi'; cbn [nth]; [lra|]. apply B. lia.
    + apply Rltb_false in E.
      destruct (IH (j + 1)%Z dm jm) as [[Er Hall]|(i & Er & Hd & L & A & B)].
      * left. split; [exact Er|]. intros [|i] Hi; cbn [nth]; [exact E|]. apply Hall. cbn in Hi. lia.
      * right. exists (S i). split; [rewrite Er; lia|]. cbn [nth]. split; [exact Hd|].
        split; [cbn; lia|]. split.
        -- intros [|i'] Hi'; cbn [nth]; [lra|]. apply A. cbn in Hi'. lia.
        -- intros [|i'] Hi'; cbn [nth]; [lra|]. apply B. lia.
Qed.

(* for every arithmetic (NaN distances included) the loop returns the initial
   jmin or the number of one of the points *)
Lemma nearest_from_range_any {T} (N : NumOps T) xy pts : forall j dm jm,
  nearest_from N xy pts j dm jm = jm \/
  (j <= nearest_from N xy pts j dm jm < j + Z.of_nat (List.length pts))%Z.
Proof.
  induction pts as [|p pts IH]; intros j dm jm; cbn [nearest_from]; [left; reflexivity|].
  destruct (nltb N (dist N xy p) dm).
  - right. destruct (IH (j + 1)%Z (dist N xy p) j) as [->|H]; cbn [List.length]; lia.
  - destruct (IH (j + 1)%Z dm jm) as [->|H]; [left; reflexivity|right; cbn [List.length]; lia].
Qed.

Theorem nearest_in_range_any {T} (N : NumOps T) distmax xy pts :
  pts <> [] -> (0 <= nearest N distmax xy pts < Z.of_nat (List.length pts))%Z.
Proof.
  intros Hne. unfold nearest. destruct (nearest_from_range_any N xy pts 0%Z distmax 0%Z) as [->|H]; [|lia].
  destruct pts; [congruence|cbn [List.length]; lia].
Qed.

(* the selected index is always a valid point number *)
Theorem nearest_in_range distmax xy pts :
  pts <> [] -> (0 <= nearest RR distmax xy pts < Z.of_nat (List.length pts))%Z.
Proof.
  intros Hne. unfold nearest.
  destruct (nearest_from_spec xy pts 0%Z distmax 0%Z) as [[-> _]|(i & -> & _ & L & _)].
  - destruct pts; [congruence|cbn [List.length]; lia].
  - lia.
Qed.

(* ★ when some point is closer than the initial distmin, the selected point is
   the nearest one, the lowest index among equidistant points *)
Theorem nearest_is_lowest_nearest distmax xy pts i :
  (exists i0, (i0 < List.length pts)%nat /\ dist RR xy (nth i0 pts p0) < distmax) ->
  (nearest RR distmax xy pts = Z.of_nat i <-> lowest_nearest xy pts i).
Proof.
  intros (i0 & L0 & D0). unfold nearest.
  destruct (nearest_from_spec xy pts 0%Z distmax 0%Z) as [[_ Hall]|(i1 & E & _ & LN)].
  - specialize (Hall i0 L0). lra.
  - rewrite E. split.
    + intros H. assert (i1 = i) by lia. subst. exact LN.
    + intros H. rewrite (lowest_nearest_unique _ _ _ _ LN H). lia.
Qed.

(* no point is ever selected at or beyond the initial distmin: cell goes to point 0 *)
Theorem nearest_all_far distmax xy pts :
  (forall i, (i < List.length pts)%nat -> distmax <= dist RR xy (nth i pts p0)) ->
  nearest RR distmax xy pts = 0%Z.
Proof.
  intros H. unfold nearest.
  destruct (nearest_from_spec xy pts 0%Z distmax 0%Z) as [[E _]|(i1 & _ & D & L & _)]; [exact E|].
  specialize (H i1 L). lra.
Qed.

(* ---------------- counting ---------------- *)
Lemma Rsum_upd_nat l : forall n v, (n < List.length l)%nat ->
  Rsum (upd_nat l n v) = Rsum l - nth n l 0 + v.
Proof.
  induction l as [|a l IH]; intros n v Hn; [cbn in Hn; lia|].
  destruct n as [|n]; cbn [upd_nat nth]; unfold Rsum in *; cbn [fold_right]; [lra|].
  rewrite IH by (cbn in Hn; lia). lra.
Qed.

Section Counts.
Variable f : Z -> Z.            (* the point chosen for a cell *)
Variable npts : nat.
Hypothesis Hf : forall c, (0 <= f c < Z.of_nat npts)%Z.

Definition count_fold (cells : list Z) (w0 : list R) : list R :=
  fold_left (fun w c => incr RR w (f c)) cells w0.

Lemma count_fold_spec cells : forall w0, List.length w0 = npts ->
  List.length (count_fold cells w0) = npts /\
  (forall q, (0 <= q < Z.of_nat npts)%Z ->
     zn (count_fold cells w0) q 0 = zn w0 q 0 + INR (countb (fun c => (f c =? q)%Z) cells)) /\
  Rsum (count_fold cells w0) = Rsum w0 + INR (List.length cells).
Proof.
  induction cells as [|c cells IH]; intros w0 L; cbn [count_fold fold_left].
  - split; [assumption|]. split; [intros; cbn; lra|cbn; lra].
  - assert (L' : List.length (incr RR w0 (f c)) = npts) by (unfold incr; rewrite upd_length; assumption).
    destruct (IH _ L') as (A & B & C). fold (count_fold cells (incr RR w0 (f c))).
    split; [exact A|]. split.
    + intros q Hq. rewrite (B q Hq). unfold incr. rewrite zn_upd by (pose proof (Hf c); lia).
      unfold countb. cbn [filter].
      destruct (Z.eqb_spec q (f c)) as [->|ne].
      * rewrite Z.eqb_refl. destruct (Z.ltb_spec (f c) (Z.of_nat (List.length w0))); [|pose proof (Hf c); lia].
        cbn [andb List.length]. rewrite S_INR. cbn [nadd RR n0 n1]. lra.
      * destruct (Z.eqb_spec (f c) q); [congruence|]. cbn [andb]. reflexivity.
    + rewrite C. unfold incr, upd. pose proof (Hf c) as Hc.
      destruct (Z.ltb_spec (f c) 0); [lia|]. rewrite Rsum_upd_nat by lia.
      cbn [List.length]. rewrite S_INR. unfold zn. cbn [nadd RR n0 n1]. lra.
Qed.
End Counts.

Lemma Rsum_repeat0 n : Rsum (repeat 0 n) = 0.
Proof. induction n; cbn; [reflexivity|]. unfold Rsum in IHn. rewrite IHn. lra. Qed.

Lemma Rsum_map_div l d : Rsum (map (fun w => w / d) l) = Rsum l / d.
Proof.
  unfold Rsum. induction l as [|a l IH]; cbn; [unfold Rdiv; lra|]. rewrite IH. unfold Rdiv. lra.
Qed.

Section Voronoi.
Variable distmax : R.
Variables (nrows ncols : Z) (xll yll csz : R).
Variable cells : list Z.
Variable pts : list (R * R).
Hypothesis Hpts : pts <> [].

Let centre (c : Z) := getcoord RR nrows ncols xll yll csz c.
Let chosen (c : Z) : Z := nearest RR distmax (centre c) pts.

Lemma chosen_range c : (0 <= chosen c < Z.of_nat (List.length pts))%Z.
Proof. apply nearest_in_range, Hpts. Qed.

Lemma counts_eq :
  voronoi_counts RR distmax nrows ncols xll yll csz cells pts =
  count_fold chosen cells (repeat 0 (List.length pts)).
Proof. reflexivity. Qed.

Theorem voronoi_length :
  List.length (voronoi RR distmax nrows ncols xll yll csz cells pts) = List.length pts.
Proof.
  unfold voronoi. rewrite map_length, counts_eq.
  apply (count_fold_spec chosen (List.length pts) chosen_range cells). apply repeat_length.
Qed.

(* ★ weight j = (number of cells whose chosen point is j) / (number of cells) *)
Theorem voronoi_weight q :
  (0 <= q < Z.of_nat (List.length pts))%Z ->
  zn (voronoi RR distmax nrows ncols xll yll csz cells pts) q 0 =
  INR (countb (fun c => (chosen c =? q)%Z) cells) / INR (List.length cells).
Proof.
  intros Hq. unfold voronoi.
  destruct (count_fold_spec chosen (List.length pts) chosen_range cells (repeat 0 (List.length pts))
              (repeat_length _ _)) as (A & B & _).
  rewrite (zn_map _ _ q 0) by (rewrite counts_eq, A; exact Hq).
  rewrite counts_eq, (B q Hq). rewrite zn_repeat by exact Hq.
  cbn [ndiv nofZ RR]. rewrite <- INR_IZR_INZ. f_equal. lra.
Qed.

(* ★ weights are non-negative *)
Theorem voronoi_nonneg w :
  cells <> [] -> In w (voronoi RR distmax nrows ncols xll yll csz cells pts) -> 0 <= w.
Proof.
  intros Hc I. destruct (In_nth _ _ 0 I) as (n & Hn & <-).
  rewrite voronoi_length in Hn.
  pose proof (voronoi_weight (Z.of_nat n) ltac:(lia)) as E. unfold zn in E. rewrite Nat2Z.id in E.
  rewrite E. unfold Rdiv. apply Rmult_le_pos; [apply pos_INR|].
  left. apply Rinv_0_lt_compat. apply lt_0_INR. destruct cells; [congruence|cbn; lia].
Qed.

(* ★ weights sum to 1 for a non-empty catchment *)
Theorem voronoi_sum_one :
  cells <> [] -> Rsum (voronoi RR distmax nrows ncols xll yll csz cells pts) = 1.
Proof.
  intros Hc. unfold voronoi. cbn [ndiv nofZ RR]. rewrite Rsum_map_div, counts_eq.
  destruct (count_fold_spec chosen (List.length pts) chosen_range cells (repeat 0 (List.length pts))
              (repeat_length _ _)) as (_ & _ & C).
  rewrite C, Rsum_repeat0, <- INR_IZR_INZ.
  assert (0 < INR (List.length cells)) by (apply lt_0_INR; destruct cells; [congruence|cbn; lia]).
  field. lra.
Qed.

End Voronoi.

(* the point used for a cell is the centre of the cell *)
Lemma getcoord_centre nrows ncols xll yll csz row col :
  (0 <= col < ncols)%Z -> (0 <= row < nrows)%Z ->
  getcoord RR nrows ncols xll yll csz (row * ncols + col) =
  (xll + csz * (IZR col + / 2), yll + csz * (IZR (nrows - 1 - row) + / 2)).
Proof.
  intros Hc Hr. rewrite <- (cell2coord_centre nrows ncols xll yll csz row col Hc Hr).
  unfold cell2coord. rewrite valid_cell_rowcol by assumption. reflexivity.
Qed.
