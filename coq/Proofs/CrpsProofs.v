(* C03, part 2: the CRPS kernel of Model/Crps.v over the reals:
   closed form of the run on well-formed data, accumulator invariants,
   crps = reliability + potential, signs, rows with a missing observation. *)
From Coq Require Import ZArith Bool List Reals Lra Lia Permutation Sorted.
From Hy Require Import Base.Num Gen.ConstsC03 Model.Crps Proofs.CrpsSort.
Import ListNotations.
Open Scope R_scope.

Notation rrow := (R * list R)%type.

(* ---------- well-formed input: n >= 1 forecasts with m >= 1 members each ---------- *)
Definition wfrows (m : nat) (rows : list rrow) : Prop :=
  (1 <= m)%nat /\ rows <> [] /\ Forall (fun r => length (snd r) = m) rows.

Lemma row_valid_RR (r : rrow) : snd r <> [] -> row_valid RR r = true.
Proof.
  unfold row_valid; cbn [RR nisnan]. destruct (snd r) as [|x e]; [congruence|reflexivity].
Qed.

Lemma filter_valid_RR m rows :
  (1 <= m)%nat -> Forall (fun r : rrow => length (snd r) = m) rows ->
  filter (row_valid RR) rows = rows.
Proof.
  intros Hm; induction 1 as [|r rows Hr _ IH]; [reflexivity|].
  simpl. rewrite row_valid_RR, IH; [reflexivity|].
  intros E; rewrite E in Hr; simpl in Hr; lia.
Qed.

(* ---------- the run on well-formed data ---------- *)
Definition sortrows (rows : list rrow) : list rrow :=
  map (fun r => (fst r, sortR (snd r))) rows.
Definition wgt (rows : list rrow) : R := 1 / INR (length rows).
Definition kstate (m : nat) (rows : list rrow) : acc :=
  fold_left (row_step RR (wgt rows)) (sortrows rows) (acc0 RR (m - 1)).
Definition kunc (rows : list rrow) : R :=
  unc_loop RR (wgt rows) [] (map fst rows) 0.

Lemma weight_RR n : weight RR (Z.of_nat n) = 1 / INR n.
Proof. unfold weight. cbn. rewrite <- INR_IZR_INZ. reflexivity. Qed.

Lemma sortrows_not_unsorted rows :
  existsb (fun r : rrow => unsorted RR (snd r)) (sortrows rows) = false.
Proof.
  induction rows as [|r rows IH]; [reflexivity|].
  simpl. rewrite unsorted_sorted by apply sort_sorted. exact IH.
Qed.

Lemma crps_RR_eq c m rows :
  wfrows m rows ->
  crps_gen RR c rows =
  Some (finish RR c (Z.of_nat m) (kstate m rows) (kunc rows)).
Proof.
  intros (Hm & Hne & Hlen). unfold crps_gen.
  rewrite (filter_valid_RR m rows Hm Hlen).
  destruct rows as [|r0 rows']; [congruence|].
  set (rows := r0 :: rows') in *.
  assert (Hm0 : length (snd r0) = m) by (inversion Hlen; auto).
  rewrite Hm0, weight_RR.
  change (map (fun r : R * list R => (fst r, presort RR (snd r))) rows) with (sortrows rows).
  rewrite sortrows_not_unsorted. reflexivity.
Qed.

(* ---------- one bin over the reals ---------- *)
Definition da (y x1 x2 : R) : R :=
  (if Rleb x2 y then x2 - x1 else 0) + (if Rltb x1 y && Rltb y x2 then y - x1 else 0).
Definition db (y x1 x2 : R) : R :=
  (if Rleb y x1 then x2 - x1 else 0) + (if Rltb x1 y && Rltb y x2 then x2 - y else 0).

Lemma bin_upd_RR y w x1 x2 p :
  bin_upd RR y w x1 x2 p = (fst p + da y x1 x2 * w, snd p + db y x1 x2 * w).
Proof.
  unfold bin_upd, da, db; cbn [RR nadd nsub nmul nleb nltb].
  destruct (Rleb y x1), (Rleb x2 y), (Rltb x1 y), (Rltb y x2); cbn [andb]; f_equal; ring.
Qed.

(* the bin between two ordered members: alpha = clamp(y) - x1, beta = x2 - clamp(y) *)
Lemma dab_cases y x1 x2 :
  x1 <= x2 ->
  (y <= x1 /\ da y x1 x2 = 0 /\ db y x1 x2 = x2 - x1) \/
  (x1 < y < x2 /\ da y x1 x2 = y - x1 /\ db y x1 x2 = x2 - y) \/
  (x2 <= y /\ da y x1 x2 = x2 - x1 /\ db y x1 x2 = 0).
Proof.
  intros H. unfold da, db.
  destruct (Rle_dec y x1) as [H1|H1]; [left | right; destruct (Rlt_dec y x2) as [H2|H2]; [left|right]];
    (split; [lra|]); rcases; cbn [andb]; split; lra.
Qed.

Lemma dab_nonneg y x1 x2 : x1 <= x2 -> 0 <= da y x1 x2 /\ 0 <= db y x1 x2.
Proof. intros H; destruct (dab_cases y x1 x2 H) as [(?&->&->)|[(?&->&->)|(?&->&->)]]; lra. Qed.

Lemma dab_sum y x1 x2 : x1 <= x2 -> da y x1 x2 + db y x1 x2 = x2 - x1.
Proof. intros H; destruct (dab_cases y x1 x2 H) as [(?&->&->)|[(?&->&->)|(?&->&->)]]; lra. Qed.

Lemma bins_upd_cons {T} (N : NumOps T) y w x x' e p ab :
  bins_upd N y w (x :: x' :: e) (p :: ab) =
  bin_upd N y w x x' p :: bins_upd N y w (x' :: e) ab.
Proof. reflexivity. Qed.

Lemma bins_upd_length {T} (N : NumOps T) y w e ab :
  length (bins_upd N y w e ab) = length ab.
Proof.
  revert e; induction ab as [|p ab IH]; intros e.
  - destruct e as [|x [|x' e]]; reflexivity.
  - destruct e as [|x [|x' e]]; try reflexivity.
    rewrite bins_upd_cons. cbn [length]. rewrite IH. reflexivity.
Qed.

(* ---------- invariants of the accumulators ---------- *)
Definition nonneg2 (p : R * R) : Prop := 0 <= fst p /\ 0 <= snd p.

Record inv (B : R) (s : @acc R) : Prop := mkInv {
  inv_ab : Forall nonneg2 (ac_ab s);
  inv_b0 : 0 <= ac_b0 s;
  inv_aN : 0 <= ac_aN s;
  inv_o0 : 0 <= ac_o0 s <= B;
  inv_oN : 0 <= ac_oN s <= B;
  inv_b0z : ac_o0 s = 0 -> ac_b0 s = 0;
  inv_aNz : ac_oN s = B -> ac_aN s = 0 }.

Lemma inv_acc0 n : inv 0 (acc0 RR n).
Proof.
  constructor; cbn; try lra; auto.
  induction n; simpl; constructor; auto. split; simpl; lra.
Qed.

Lemma bins_upd_nonneg y w e ab :
  0 < w -> StronglySorted Rle e -> Forall nonneg2 ab ->
  Forall nonneg2 (bins_upd RR y w e ab).
Proof.
  intros Hw Hs; revert ab; induction Hs as [|x e Hs IH Hx]; intros ab Hab; [exact Hab|].
  destruct e as [|x' e]; [exact Hab|]. destruct ab as [|p ab]; [constructor|].
  rewrite bins_upd_cons. inversion Hab; subst. inversion Hx; subst.
  constructor; [|apply IH; auto].
  rewrite bin_upd_RR. destruct (dab_nonneg y x x' H3) as [Ha Hb].
  destruct H1 as [Hp1 Hp2]. split; cbn [fst snd]; nra.
Qed.

Lemma inv_step B w s y e :
  0 < w -> StronglySorted Rle e -> inv B s -> inv (B + w) (row_step RR w s (y, e)).
Proof.
  intros Hw Hs [Hab Hb0 HaN Ho0 HoN Hb0z HaNz].
  unfold row_step; cbn [fst snd RR nadd nsub nmul nleb nltb n0].
  set (x0 := hd 0 e). set (xl := last e 0).
  constructor; cbn [ac_ab ac_b0 ac_aN ac_o0 ac_oN].
  - apply bins_upd_nonneg; auto.
  - destruct (Rltb y x0) eqn:E; rcmp; nra.
  - destruct (Rleb xl y) eqn:E; rcmp; nra.
  - destruct (Rltb y x0); lra.
  - destruct (Rltb y xl); lra.
  - destruct (Rltb y x0); [lra | auto].
  - destruct (Rltb y xl) eqn:E1; destruct (Rleb xl y) eqn:E2; rcmp; intros; lra.
Qed.

Lemma inv_fold B w s rows :
  0 < w -> Forall (fun r : rrow => StronglySorted Rle (snd r)) rows -> inv B s ->
  inv (B + INR (length rows) * w) (fold_left (row_step RR w) rows s).
Proof.
  intros Hw H; revert B s; induction H as [|[y e] rows Hr _ IH]; intros B s Hs.
  - simpl. replace (B + 0 * w) with B by lra. exact Hs.
  - change (length ((y, e) :: rows)) with (S (length rows)). rewrite S_INR.
    cbn [fold_left]. replace (B + (INR (length rows) + 1) * w) with (B + w + INR (length rows) * w) by lra.
    apply IH, inv_step; auto.
Qed.

Lemma sortrows_sorted rows :
  Forall (fun r : rrow => StronglySorted Rle (snd r)) (sortrows rows).
Proof. induction rows; simpl; constructor; auto. apply sort_sorted. Qed.

Lemma sortrows_length rows : length (sortrows rows) = length rows.
Proof. apply map_length. Qed.

Lemma INR_length_pos {A} (l : list A) : l <> [] -> 0 < INR (length l).
Proof. destruct l; [congruence|]. intros _. apply lt_0_INR. simpl; lia. Qed.

Lemma wgt_pos rows : rows <> [] -> 0 < wgt rows.
Proof.
  intros H. unfold wgt. apply Rdiv_lt_0_compat; [lra | apply INR_length_pos; auto].
Qed.

Lemma wgt_total rows : rows <> [] -> INR (length rows) * wgt rows = 1.
Proof.
  intros H. unfold wgt. field. apply Rgt_not_eq, INR_length_pos; auto.
Qed.

Lemma kstate_inv m rows : rows <> [] -> inv 1 (kstate m rows).
Proof.
  intros H. unfold kstate.
  pose proof (inv_fold 0 (wgt rows) (acc0 RR (m - 1)) (sortrows rows) (wgt_pos rows H)
                (sortrows_sorted rows) (inv_acc0 _)) as I.
  rewrite sortrows_length, wgt_total in I by auto.
  replace (0 + 1) with 1 in I by lra. exact I.
Qed.

(* ---------- the final loop over the bins ---------- *)
Definition g_r (r : @trow R) : R := if Rltb 0 (t_g r) then t_r r else 0.
Definition g_c (r : @trow R) : R := if Rltb 0 (t_g r) then t_c r else 0.

Lemma fold_left_cond {A} (c : A -> bool) (f : A -> R) l s :
  fold_left (fun s x => if c x then s + f x else s) l s =
  s + Rsum (map (fun x => if c x then f x else 0) l).
Proof.
  revert s; induction l as [|a l IH]; intros s; simpl; [lra|].
  rewrite IH. destruct (c a); lra.
Qed.

Lemma sum_crps_RR tb : sum_crps RR tb = Rsum (map (crps_term RR) tb).
Proof.
  unfold sum_crps; cbn [RR nadd n0].
  rewrite (fold_left_add (crps_term RR)). lra.
Qed.
Lemma sum_reli_RR tb : sum_reli RR tb = Rsum (map g_r tb).
Proof.
  unfold sum_reli; cbn [RR nadd n0 nltb].
  rewrite (fold_left_cond (fun r => Rltb 0 (t_g r)) (fun r => t_r r)). unfold g_r. lra.
Qed.
Lemma sum_pot_RR tb : sum_pot RR tb = Rsum (map g_c tb).
Proof.
  unfold sum_pot; cbn [RR nadd n0 nltb].
  rewrite (fold_left_cond (fun r => Rltb 0 (t_g r)) (fun r => t_c r)). unfold g_c. lra.
Qed.

(* what is needed of one table row *)
Definition rowgood (r : @trow R) : Prop :=
  crps_term RR r = g_r r + g_c r /\ 0 <= g_r r /\ 0 <= g_c r.

Lemma prob_RR j m : prob RR j m = IZR j / IZR m.
Proof. reflexivity. Qed.

Lemma rowgood_first m b0 o0 :
  0 <= b0 -> 0 <= o0 <= 1 -> (o0 = 0 -> b0 = 0) -> rowgood (row_first RR m b0 o0).
Proof.
  intros Hb Ho Hz. unfold rowgood, row_first, g_r, g_c, crps_term, mkrow, sq.
  cbn [t_p t_a t_b t_g t_o t_r t_c RR nadd nsub nmul ndiv n0 n1 neqb nofZ prob].
  replace (0 / IZR m) with 0 by (unfold Rdiv; ring).
  destruct (Reqb o0 0) eqn:E; rcmp; cbn [negb].
  - rewrite (Hz E). destruct (Rltb 0 0) eqn:E0; rcmp; [lra|]. split; [ring | lra].
  - assert (Hpos : 0 < o0) by lra.
    assert (Hb0 : b0 = b0 / o0 * o0) by (field; lra).
    destruct (Rltb 0 (b0 / o0)) eqn:E0; rcmp.
    + split; [field; lra|]. split.
      * apply Rmult_le_pos; [lra|]. nra.
      * apply Rmult_le_pos; [apply Rmult_le_pos; lra | lra].
    + assert (b0 = 0) by nra. subst b0. split; [ring | lra].
Qed.

Lemma rowgood_last m aN oN :
  m <> 0%Z -> 0 <= aN -> 0 <= oN <= 1 -> (oN = 1 -> aN = 0) -> rowgood (row_last RR m aN oN).
Proof.
  intros Hm Ha Ho Hz. unfold rowgood, row_last, g_r, g_c, crps_term, mkrow, sq.
  cbn [t_p t_a t_b t_g t_o t_r t_c RR nadd nsub nmul ndiv n0 n1 neqb nofZ prob].
  assert (Hm' : IZR m <> 0) by (apply not_0_IZR; auto).
  replace (IZR m / IZR m) with 1 by (field; auto).
  destruct (Reqb oN 1) eqn:E; rcmp; cbn [negb].
  - rewrite (Hz E). destruct (Rltb 0 0) eqn:E0; rcmp; [lra|]. split; [ring | lra].
  - assert (Hpos : 0 < 1 - oN) by lra.
    assert (Ha0 : aN = aN / (1 - oN) * (1 - oN)) by (field; lra).
    destruct (Rltb 0 (aN / (1 - oN))) eqn:E0; rcmp.
    + split; [field; lra|]. split.
      * apply Rmult_le_pos; [lra|]. nra.
      * apply Rmult_le_pos; [apply Rmult_le_pos; lra | lra].
    + assert (aN = 0) by nra. subst aN. split; [ring | lra].
Qed.

Lemma rowgood_interior p a b :
  0 <= a -> 0 <= b -> rowgood (mkrow RR p a b (a + b) (b / (a + b))).
Proof.
  intros Ha Hb. unfold rowgood, g_r, g_c, crps_term, mkrow, sq.
  cbn [t_p t_a t_b t_g t_o t_r t_c RR nadd nsub nmul ndiv n0 n1].
  destruct (Rltb 0 (a + b)) eqn:E0; rcmp.
  - split; [field; lra|].
    assert (Ho : 0 <= b / (a + b) <= 1).
    { split; [apply Rmult_le_pos; [lra | left; apply Rinv_0_lt_compat; lra]|].
      apply Rmult_le_reg_r with (a + b); [lra|].
      replace (b / (a + b) * (a + b)) with b by (field; lra). lra. }
    split.
    + apply Rmult_le_pos; [lra|]. generalize (b / (a + b) - p); intros t; nra.
    + apply Rmult_le_pos; [apply Rmult_le_pos; lra | lra].
  - assert (a = 0) by lra. assert (b = 0) by lra. subst. split; [ring | lra].
Qed.

Lemma rows_interior_good m j ab :
  Forall nonneg2 ab -> Forall rowgood (rows_interior RR m j ab).
Proof.
  intros H; revert j; induction H as [|[a b] ab [Ha Hb] _ IH]; intros j; simpl; constructor; auto.
  apply rowgood_interior; auto.
Qed.

Lemma clamp1_RR c o : o <= 1 -> clamp1 RR c o = o.
Proof.
  intros H. unfold clamp1; cbn [RR nltb n1].
  destruct c; cbn [andb]; [|reflexivity].
  destruct (Rltb 1 o) eqn:E; rcmp; [lra | reflexivity].
Qed.

Lemma table_good c m s :
  m <> 0%Z -> inv 1 s -> Forall rowgood (table RR c m s).
Proof.
  intros Hm [Hab Hb0 HaN Ho0 HoN Hb0z HaNz]. unfold table.
  rewrite !clamp1_RR by lra.
  constructor; [apply rowgood_first; auto|].
  apply Forall_app; split; [apply rows_interior_good; auto|].
  constructor; [|constructor]. apply rowgood_last; auto.
Qed.

Lemma good_sums tb :
  Forall rowgood tb ->
  Rsum (map (crps_term RR) tb) = Rsum (map g_r tb) + Rsum (map g_c tb) /\
  0 <= Rsum (map g_r tb) /\ 0 <= Rsum (map g_c tb).
Proof.
  induction 1 as [|r tb (H1 & H2 & H3) _ (I1 & I2 & I3)]; cbn [map Rsum]; [lra|].
  rewrite H1, I1. lra.
Qed.

(* ---------- uncertainty ---------- *)
Lemma unc_row_RR w y seen u :
  unc_row RR w y seen u = u + w * w * Rsum (map (fun yk => Rabs (yk - y)) seen).
Proof.
  unfold unc_row; cbn [RR nadd nsub nmul nabs].
  rewrite (fold_left_add (fun yk => w * w * Rabs (yk - y))).
  rewrite (Rsum_map_scal (w * w)). reflexivity.
Qed.

(* sum over the pairs k<i of a list *)
Fixpoint pairabs (l : list R) : R :=
  match l with
  | [] => 0
  | y :: l' => Rsum (map (fun x => Rabs (y - x)) l') + pairabs l'
  end.
(* sum over i in [rest], k in [seen] *)
Definition cross (seen rest : list R) : R :=
  Rsum (map (fun y => Rsum (map (fun yk => Rabs (yk - y)) seen)) rest).

Lemma cross_snoc seen y rest :
  cross (seen ++ [y]) rest = cross seen rest + Rsum (map (fun x => Rabs (y - x)) rest).
Proof.
  unfold cross. induction rest as [|z rest IH]; simpl; [lra|].
  rewrite IH, map_app, Rsum_app. simpl. lra.
Qed.

Lemma unc_loop_RR w seen rest u :
  unc_loop RR w seen rest u = u + w * w * (cross seen rest + pairabs rest).
Proof.
  revert seen u; induction rest as [|y rest IH]; intros seen u.
  - simpl. unfold cross; simpl. lra.
  - cbn [unc_loop]. rewrite IH, unc_row_RR, cross_snoc.
    unfold cross; simpl. lra.
Qed.

Lemma cross_nil rest : cross [] rest = 0.
Proof. unfold cross; induction rest as [|y rest IH]; simpl in *; lra. Qed.

Lemma kunc_eq rows : kunc rows = wgt rows * wgt rows * pairabs (map fst rows).
Proof. unfold kunc. rewrite unc_loop_RR, cross_nil. lra. Qed.

Lemma pairabs_nonneg l : 0 <= pairabs l.
Proof.
  induction l as [|y l IH]; simpl; [lra|].
  assert (0 <= Rsum (map (fun x => Rabs (y - x)) l))
    by (apply Rsum_map_nonneg; intros; apply Rabs_pos). lra.
Qed.

(* ---------- the starred identities ---------- *)
Section Decomposition.
Variables (c : bool) (m : nat) (rows : list rrow).
Hypothesis Hwf : wfrows m rows.

Let out := finish RR c (Z.of_nat m) (kstate m rows) (kunc rows).

Lemma crps_some : crps_gen RR c rows = Some out.
Proof. apply crps_RR_eq, Hwf. Qed.

Lemma m_nonzero : Z.of_nat m <> 0%Z.
Proof. destruct Hwf as (Hm & _). lia. Qed.

Lemma out_table_good : Forall rowgood (o_table out).
Proof.
  apply table_good; [apply m_nonzero|]. apply kstate_inv. apply Hwf.
Qed.

Lemma out_crps_reli_pot : o_crps out = o_reli out + o_pot out.
Proof.
  unfold out, finish; cbn [o_crps o_reli o_pot].
  rewrite sum_crps_RR, sum_reli_RR, sum_pot_RR.
  apply good_sums, out_table_good.
Qed.

Lemma out_resolution : o_resol out = o_unc out - o_pot out.
Proof. reflexivity. Qed.

Lemma out_nonneg : 0 <= o_reli out /\ 0 <= o_pot out /\ 0 <= o_unc out.
Proof.
  unfold out, finish; cbn [o_crps o_reli o_pot o_unc].
  rewrite sum_reli_RR, sum_pot_RR.
  destruct (good_sums _ out_table_good) as (_ & H2 & H3).
  split; [exact H2|]. split; [exact H3|].
  rewrite kunc_eq. apply Rmult_le_pos; [nra | apply pairabs_nonneg].
Qed.

End Decomposition.

(* ---------- rows with a missing observation (every arithmetic instance) ---------- *)
Lemma filter_idem {A} (f : A -> bool) l : filter f (filter f l) = filter f l.
Proof.
  induction l as [|a l IH]; [reflexivity|]. simpl.
  destruct (f a) eqn:E; simpl; [rewrite E, IH|]; auto.
Qed.

Lemma crps_filter {T} (N : NumOps T) c rows :
  crps_gen N c rows = crps_gen N c (filter (row_valid N) rows).
Proof. unfold crps_gen. rewrite filter_idem. reflexivity. Qed.

Lemma crps_missing_obs {T} (N : NumOps T) c rows1 y e rows2 :
  nisnan N y = true ->
  crps_gen N c (rows1 ++ (y, e) :: rows2) = crps_gen N c (rows1 ++ rows2).
Proof.
  intros H. rewrite crps_filter, (crps_filter N c (rows1 ++ rows2)).
  rewrite !filter_app. cbn [filter]. unfold row_valid at 2; cbn [fst]. rewrite H.
  reflexivity.
Qed.

Lemma crps_all_missing {T} (N : NumOps T) c rows :
  Forall (fun r => nisnan N (fst r) = true) rows -> crps_gen N c rows = None.
Proof.
  intros H. unfold crps_gen.
  replace (filter (row_valid N) rows) with (@nil (T * list T)); [reflexivity|].
  induction H as [|r rows Hr _ IH]; [reflexivity|].
  simpl. unfold row_valid at 1. rewrite Hr. exact IH.
Qed.
