(* Theorems about Model/Dscore.v (property C10), part 2:
   PIT values, pseudo flag, Cramer-von Mises and Anderson-Darling statistics,
   input checks of ADtest, p-values. *)
From Coq Require Import ZArith Bool List Reals Lra Lia Permutation Sorted.
From Hy Require Import Base.Num Gen.Consts Gen.ConstsC10 Model.Dscore Proofs.DscoreProofs.
Import ListNotations.
Open Scope R_scope.

(* ================================================================== *)
(* counting                                                            *)

Lemma countb_range {A} (p : A -> bool) l : (0 <= countb p l <= Z.of_nat (length l))%Z.
Proof.
  unfold countb. split; [lia|]. apply inj_le.
  induction l as [|a l IH]; simpl; [lia|]. destruct (p a); simpl; lia.
Qed.

Lemma countb_le {A} (p q : A -> bool) l :
  (forall a, In a l -> p a = true -> q a = true) -> (countb p l <= countb q l)%Z.
Proof.
  unfold countb. intros H. apply inj_le.
  induction l as [|a l IH]; simpl; [lia|].
  assert (IH' : (length (filter p l) <= length (filter q l))%nat).
  { apply IH. intros b Hb; apply H; right; exact Hb. }
  destruct (p a) eqn:E.
  - rewrite (H a (or_introl eq_refl) E). simpl; lia.
  - destruct (q a); simpl; lia.
Qed.

Lemma countb_ext {A} (p q : A -> bool) l :
  (forall a, In a l -> p a = q a) -> countb p l = countb q l.
Proof.
  unfold countb. intros H. f_equal.
  induction l as [|a l IH]; simpl; [reflexivity|].
  rewrite (H a (or_introl eq_refl)).
  assert (IH' := IH (fun b Hb => H b (or_intror Hb))).
  destruct (q a); simpl; rewrite IH'; reflexivity.
Qed.

Lemma countb_pos_iff {A} (p : A -> bool) l :
  (0 <? countb p l)%Z = true <-> exists a, In a l /\ p a = true.
Proof.
  unfold countb. rewrite Z.ltb_lt. split.
  - intros H. destruct (filter p l) as [|a r] eqn:E; [simpl in H; lia|].
    exists a. apply filter_In. rewrite E. left; reflexivity.
  - intros (a & Ha & Hp). assert (Hin : In a (filter p l)) by (apply filter_In; auto).
    destruct (filter p l); [contradiction|simpl; lia].
Qed.

(* ================================================================== *)
(* PIT                                                                 *)

Lemma KR_pit_consts :
  k_cst_max KR = 1/2 /\ k_num_add KR = 1/2 /\ k_den_one KR = 1 /\ k_pct_div KR = 100.
Proof. cbn. unfold PIT_CST_MAX_R, PIT_NUM_ADD_R, PIT_DEN_ONE_R, PIT_PCT_DIV_R. repeat split; lra. Qed.

Lemma pit_cst_le_half cst : pit_cst RR KR cst <= 1/2 /\ (cst <= 1/2 -> pit_cst RR KR cst = cst).
Proof.
  unfold pit_cst. destruct KR_pit_consts as (-> & _). cbn [nltb RR].
  destruct (Rltb cst (1/2)) eqn:E.
  - apply Rltb_true in E. split; [lra|reflexivity].
  - apply Rltb_false in E. split; [lra|]. intros; lra.
Qed.

Lemma pit_of_count_formula c m k :
  pit_of_count RR KR c m k = (IZR k + 1/2 - c) / (1 - c + IZR m).
Proof.
  unfold pit_of_count. destruct KR_pit_consts as (_ & -> & -> & _). reflexivity.
Qed.

(* the count formula lies in [0,1] whatever the plotting constant (capped at 1/2) *)
Theorem pit_of_count_in_unit c m k :
  c <= 1/2 -> (0 <= k <= m)%Z -> 0 <= pit_of_count RR KR c m k <= 1.
Proof.
  intros Hc [Hk Hm]. rewrite pit_of_count_formula.
  assert (H0 : 0 <= IZR k) by (apply IZR_le; exact Hk).
  assert (H1 : IZR k <= IZR m) by (apply IZR_le; exact Hm).
  assert (Hd : 0 < 1 - c + IZR m) by lra.
  split.
  - apply Rmult_le_reg_r with (1 - c + IZR m); [exact Hd|].
    unfold Rdiv. rewrite Rmult_assoc, Rinv_l by lra. lra.
  - apply Rmult_le_reg_r with (1 - c + IZR m); [exact Hd|].
    unfold Rdiv. rewrite Rmult_assoc, Rinv_l by lra. lra.
Qed.

(* ... and increases strictly with the number of members below the observation *)
Theorem pit_of_count_strict_mono c m k1 k2 :
  c <= 1/2 -> (0 <= m)%Z -> (k1 < k2)%Z ->
  pit_of_count RR KR c m k1 < pit_of_count RR KR c m k2.
Proof.
  intros Hc Hm Hk. rewrite !pit_of_count_formula.
  assert (H0 : 0 <= IZR m) by (apply IZR_le; exact Hm).
  assert (H1 : IZR k1 < IZR k2) by (apply IZR_lt; exact Hk).
  assert (Hd : 0 < / (1 - c + IZR m)) by (apply Rinv_0_lt_compat; lra).
  unfold Rdiv. apply Rmult_lt_compat_r; [exact Hd|lra].
Qed.

Lemma pit_count_range o dob e de :
  (0 <= pit_count RR o dob e de <= Z.of_nat (length e))%Z.
Proof.
  unfold pit_count.
  pose proof (countb_range (fun p : R * R => nltb RR (nsub RR (nadd RR (fst p) (snd p)) (nadd RR o dob)) (n0 RR))
                           (combine e de)) as H.
  rewrite combine_length in H. lia.
Qed.

Theorem pit_random_in_unit cst o dob e de :
  0 <= pit_random RR KR cst o dob e de <= 1.
Proof.
  unfold pit_random. apply pit_of_count_in_unit.
  - apply pit_cst_le_half.
  - apply pit_count_range.
Qed.

(* the jitter (at most EPS in size) does not change the count when every
   member is farther than 2 EPS from the observation *)
Theorem pit_count_ignores_jitter o dob e de :
  length de = length e ->
  Rabs dob <= k_eps KR ->
  Forall (fun d => Rabs d <= k_eps KR) de ->
  Forall (fun x => 2 * k_eps KR < Rabs (x - o)) e ->
  pit_count RR o dob e de = countb (fun x => Rltb x o) e.
Proof.
  unfold pit_count. set (E := k_eps KR). intros Hlen Hdo Hde He.
  revert de Hlen Hde. induction e as [|x e IH]; intros [|d de] Hlen Hde; simpl in Hlen; try discriminate.
  - reflexivity.
  - inversion He as [|? ? Hx He']; subst. inversion Hde as [|? ? Hd Hde']; subst.
    specialize (IH He' de ltac:(lia) Hde').
    unfold countb in *. simpl. cbn [nltb nsub nadd n0 RR fst snd] in *.
    assert (Eq : Rltb (x + d - (o + dob)) 0 = Rltb x o).
    { unfold Rabs in Hx, Hd, Hdo.
      destruct (Rcase_abs (x - o)); destruct (Rcase_abs d); destruct (Rcase_abs dob);
      destruct (Rltb x o) eqn:E1;
      try (apply Rltb_true in E1); try (apply Rltb_false in E1);
      try (apply Rltb_true; lra); try (apply Rltb_false; lra). }
    rewrite Eq. destruct (Rltb x o); simpl; lia.
Qed.

(* rank formula of scipy's percentileofscore *)
Lemma pit_rank_noclip_formula o e :
  e <> [] ->
  let n := Z.of_nat (length e) in
  let l := countb (fun x => Rltb x o) e in
  let r := countb (fun x => Rleb x o) e in
  pit_rank_noclip RR KR o e = IZR (l + r + (if (l <? r)%Z then 1 else 0)) / (2 * IZR n).
Proof.
  intros He n l r. unfold pit_rank_noclip, pct_rank, pct_rank_of.
  destruct KR_pit_consts as (_ & _ & _ & ->).
  assert (Hnan : existsb (nisnan RR) e = false).
  { clear. induction e; simpl; auto. }
  rewrite Hnan. cbn [nmul ndiv nofZ nltb nleb RR]. fold n l r.
  assert (Hn : IZR n <> 0).
  { apply not_0_IZR. subst n. destruct e; [contradiction|simpl; lia]. }
  field. exact Hn.
Qed.

Lemma count_lt_le_le o e :
  (0 <= countb (fun x => Rltb x o) e <= countb (fun x => Rleb x o) e)%Z /\
  (countb (fun x => Rleb x o) e <= Z.of_nat (length e))%Z.
Proof.
  split; [split|].
  - apply countb_range.
  - apply countb_le. intros a _ H. apply Rltb_true in H. apply Rleb_true. lra.
  - apply countb_range.
Qed.

Theorem pit_rank_noclip_in_unit o e :
  e <> [] -> 0 <= pit_rank_noclip RR KR o e <= 1.
Proof.
  intros He. rewrite pit_rank_noclip_formula by exact He. cbv zeta.
  destruct (count_lt_le_le o e) as [[H0 H1] H2].
  set (l := countb (fun x => Rltb x o) e) in *.
  set (r := countb (fun x => Rleb x o) e) in *.
  set (n := Z.of_nat (length e)) in *.
  assert (Hn : (1 <= n)%Z) by (subst n; destruct e; [contradiction|simpl; lia]).
  assert (Hnum : (0 <= l + r + (if (l <? r)%Z then 1 else 0) <= 2 * n)%Z).
  { destruct (l <? r)%Z eqn:E; [apply Z.ltb_lt in E|]; lia. }
  destruct Hnum as [Ha Hb]. apply IZR_le in Ha, Hb, Hn. rewrite mult_IZR in Hb.
  assert (Hd : 0 < 2 * IZR n) by lra.
  split.
  - apply Rmult_le_reg_r with (2 * IZR n); [exact Hd|].
    unfold Rdiv. rewrite Rmult_assoc, Rinv_l by lra. lra.
  - apply Rmult_le_reg_r with (2 * IZR n); [exact Hd|].
    unfold Rdiv. rewrite Rmult_assoc, Rinv_l by lra. lra.
Qed.

(* over the reals the clip of the repaired code never acts *)
Theorem pit_rank_in_unit o e :
  e <> [] ->
  0 <= pit_rank RR KR o e <= 1 /\ pit_rank RR KR o e = pit_rank_noclip RR KR o e.
Proof.
  intros He. pose proof (pit_rank_noclip_in_unit o e He) as H.
  unfold pit_rank. cbn [n0 n1 RR]. rewrite clip_RR_id by exact H. split; [exact H|reflexivity].
Qed.

(* no member equal to the observation: PIT = (members below)/n, strictly
   increasing in the number of members below *)
Theorem pit_rank_no_tie o e :
  e <> [] -> Forall (fun x => x <> o) e ->
  pit_rank RR KR o e = IZR (countb (fun x => Rltb x o) e) / IZR (Z.of_nat (length e)).
Proof.
  intros He Hne. destruct (pit_rank_in_unit o e He) as [_ ->].
  rewrite pit_rank_noclip_formula by exact He. cbv zeta.
  assert (Eq : countb (fun x => Rleb x o) e = countb (fun x => Rltb x o) e).
  { apply countb_ext. intros a Ha. rewrite Forall_forall in Hne. specialize (Hne a Ha).
    destruct (Rltb a o) eqn:E1.
    - apply Rltb_true in E1. apply Rleb_true; lra.
    - apply Rltb_false in E1. apply Rleb_false. lra. }
  rewrite Eq. rewrite Z.ltb_irrefl, Z.add_0_r.
  assert (Hn : IZR (Z.of_nat (length e)) <> 0).
  { apply not_0_IZR. destruct e; [contradiction|simpl; lia]. }
  rewrite plus_IZR. field. exact Hn.
Qed.

Theorem pit_rank_strict_mono o1 e1 o2 e2 :
  e1 <> [] -> length e1 = length e2 ->
  Forall (fun x => x <> o1) e1 -> Forall (fun x => x <> o2) e2 ->
  (countb (fun x => Rltb x o1) e1 < countb (fun x => Rltb x o2) e2)%Z ->
  pit_rank RR KR o1 e1 < pit_rank RR KR o2 e2.
Proof.
  intros He Hlen H1 H2 Hc.
  assert (He2 : e2 <> []) by (destruct e1, e2; simpl in *; try discriminate; congruence).
  rewrite !pit_rank_no_tie by assumption. rewrite <- Hlen.
  assert (Hn : 0 < IZR (Z.of_nat (length e1))).
  { apply IZR_lt. destruct e1; [contradiction|simpl; lia]. }
  unfold Rdiv. apply Rmult_lt_compat_r; [apply Rinv_0_lt_compat; exact Hn|].
  apply IZR_lt; exact Hc.
Qed.

(* pseudo flag: raised exactly when the observation and at least one member are
   below censor + EPS *)
Theorem is_sudo_iff censor o e :
  is_sudo RR KR censor o e = true <->
  o < censor + k_eps KR /\ exists x, In x e /\ x < censor + k_eps KR.
Proof.
  unfold is_sudo. cbn [nltb nadd RR]. rewrite andb_true_iff, Rltb_true, countb_pos_iff.
  split; intros [H1 (x & Hx & H2)]; (split; [exact H1|exists x; split; [exact Hx|]]).
  - apply Rltb_true; exact H2.
  - apply Rltb_true; exact H2.
Qed.

(* every PIT value returned by the model of pit lies in [0,1] *)
Theorem pit_values_in_unit random cst censor obs ens dobs dens pits sudo :
  Forall (fun e => e <> []) ens ->
  pit RR KR random cst censor obs ens dobs dens = PitOk pits sudo ->
  Forall (fun p => 0 <= p <= 1) pits.
Proof.
  intros Hne. unfold pit.
  set (rows := filter (fun r => row_valid RR (fst r) (snd r)) (combine obs ens)).
  destruct rows as [|r0 rows'] eqn:Er; [discriminate|]. rewrite <- Er.
  intros H. injection H as <- _.
  assert (Hrows : Forall (fun r : R * list R => snd r <> []) rows).
  { apply Forall_forall. intros [o e] Hin. subst rows. apply filter_In in Hin. destruct Hin as [Hin _].
    apply in_combine_r in Hin. rewrite Forall_forall in Hne. apply Hne; exact Hin. }
  destruct random.
  - apply Forall_forall. intros p Hp. apply in_map_iff in Hp. destruct Hp as (q & <- & _).
    apply pit_random_in_unit.
  - apply Forall_forall. intros p Hp. apply in_map_iff in Hp. destruct Hp as (q & <- & Hq).
    rewrite Forall_forall in Hrows. apply pit_rank_in_unit. apply Hrows; exact Hq.
Qed.

(* ================================================================== *)
(* Cramer-von Mises                                                    *)

Lemma KR_cvm_consts :
  k_unif_mul KR = 2 /\ k_unif_sub KR = 1 /\ k_unif_div KR = 2 /\ k_cvm_num KR = 1 /\ k_cvm_den KR = 12.
Proof.
  cbn. unfold CVM_UNIF_MUL_R, CVM_UNIF_SUB_R, CVM_UNIF_DIV_R, CVM_NUM_R, CVM_DEN_R. repeat split; lra.
Qed.

(* textbook statistic of an ordered sample x_(1) <= ... <= x_(n) *)
Definition cvm_textbook (s : list R) : R :=
  let n := INR (length s) in
  1 / (12 * n) + rsumR (map (fun p => Rsqr ((2 * IZR (fst p) - 1) / (2 * n) - snd p)) (zenum 1 s)).

Lemma cvm_stat_sorted_formula data :
  data <> [] -> cvm_stat RR KR data = cvm_textbook (isort_by Rleb data).
Proof.
  intros Hd. unfold cvm_stat, cvm_textbook, cvm_terms, cvm_unif.
  destruct KR_cvm_consts as (-> & -> & -> & -> & ->).
  rewrite tsum_RR. cbn [nadd ndiv nsub nmul nofZ nleb RR].
  rewrite isort_by_length. rewrite <- INR_IZR_INZ.
  assert (Hn : INR (length data) <> 0).
  { apply not_0_INR. destruct data; [contradiction|discriminate]. }
  f_equal; [field; exact Hn|].
  apply rsumR_map_ext. intros [i x] _. cbn [fst snd]. unfold Rsqr.
  replace ((2 * IZR i - 1) / 2 / INR (length data)) with ((2 * IZR i - 1) / (2 * INR (length data)))
    by (field; exact Hn).
  reflexivity.
Qed.

(* the statistic equals the textbook formula evaluated on THE ordered sample,
   whatever the order in which the data are given *)
Theorem cvm_stat_textbook data s :
  data <> [] -> Permutation s data -> StronglySorted Rle s ->
  cvm_stat RR KR data = cvm_textbook s.
Proof.
  intros Hd HP HS. rewrite cvm_stat_sorted_formula by exact Hd.
  rewrite (isort_Rleb_is_the_sorted s data HP HS). reflexivity.
Qed.

Theorem cvm_stat_perm_invariant data data' :
  Permutation data data' -> cvm_stat RR KR data = cvm_stat RR KR data'.
Proof.
  intros HP. unfold cvm_stat. change (nleb RR) with Rleb. rewrite (isort_Rleb_perm_invariant _ _ HP).
  rewrite (Permutation_length HP). reflexivity.
Qed.

(* ---- linear interpolation with clamping stays between the table's bounds *)
Lemma interp_go_step x x0 x1 xs y0 y1 ys :
  interp_go RR x (x0 :: x1 :: xs) (y0 :: y1 :: ys) =
  if Rltb x x1 then (if Reqb x0 x then y0 else (y1 - y0) / (x1 - x0) * (x - x0) + y0)
  else interp_go RR x (x1 :: xs) (y1 :: ys).
Proof. reflexivity. Qed.

Lemma interp_go_range lo hi x xs ys :
  length xs = length ys ->
  Forall (fun y => lo <= y <= hi) ys ->
  StronglySorted Rlt xs ->
  (match xs with x0 :: _ => x0 <= x | [] => True end) ->
  ys <> [] ->
  lo <= interp_go RR x xs ys <= hi.
Proof.
  revert ys. induction xs as [|x0 xs IH]; intros ys Hlen Hys Hs Hx Hne.
  - destruct ys; [contradiction|discriminate].
  - destruct ys as [|y0 ys]; [contradiction|].
    inversion Hys as [|? ? Hy0 Hys']; subst.
    destruct xs as [|x1 xs'].
    + destruct ys; simpl in Hlen; [|discriminate]. simpl. exact Hy0.
    + destruct ys as [|y1 ys']; [simpl in Hlen; discriminate|].
      rewrite interp_go_step.
      inversion Hs as [|? ? Hs' Hx0]; subst.
      assert (Hx01 : x0 < x1) by (inversion Hx0; assumption).
      destruct (Rltb x x1) eqn:E1.
      * apply Rltb_true in E1.
        destruct (Reqb x0 x) eqn:E2; [exact Hy0|].
        inversion Hys' as [|? ? Hy1 _]; subst.
        set (t := (x - x0) / (x1 - x0)).
        assert (Ht : 0 <= t <= 1).
        { subst t. split.
          - apply Rmult_le_pos; [lra|]. apply Rlt_le, Rinv_0_lt_compat; lra.
          - apply Rmult_le_reg_r with (x1 - x0); [lra|].
            unfold Rdiv. rewrite Rmult_assoc, Rinv_l by lra. lra. }
        replace ((y1 - y0) / (x1 - x0) * (x - x0) + y0) with (y0 + (y1 - y0) * t)
          by (subst t; field; lra).
        destruct Ht as [Ht0 Ht1]. nra.
      * apply Rltb_false in E1.
        apply IH; try assumption.
        -- simpl in Hlen; simpl; lia.
        -- discriminate.
Qed.

Theorem interp_in_range lo hi x xs ys :
  length xs = length ys -> ys <> [] ->
  Forall (fun y => lo <= y <= hi) ys ->
  StronglySorted Rlt xs ->
  lo <= interp RR x xs ys <= hi.
Proof.
  intros Hlen Hne Hys Hs. unfold interp. cbn [nisnan RR].
  destruct xs as [|x0 xs]; [destruct ys; [contradiction|discriminate]|].
  destruct ys as [|y0 ys]; [contradiction|].
  cbn [nltb RR].
  destruct (Rltb x x0) eqn:E0.
  - inversion Hys; assumption.
  - apply Rltb_false in E0.
    destruct (Rltb (last (x0 :: xs) x0) x) eqn:E1.
    + rewrite Forall_forall in Hys. apply Hys.
      destruct (exists_last (l := y0 :: ys) ltac:(discriminate)) as (l' & a & E).
      rewrite E, last_last. rewrite <- E. rewrite E. apply in_or_app; right; left; reflexivity.
    + apply interp_go_range; assumption.
Qed.

(* p-value of the Cramer-von Mises test: any table with entries in [0,1] over
   strictly increasing abscissae gives p-values in [0,1] *)
Theorem cvm_pvalue_in_unit nsample qq cols n stat :
  StronglySorted Rlt qq -> qq <> [] ->
  Forall (fun c => length c = length qq /\ Forall (fun y => 0 <= y <= 1) c) cols ->
  (closest_col n nsample < length cols)%nat ->
  0 <= cvm_pvalue RR nsample qq cols n stat <= 1.
Proof.
  intros Hq Hqne Hcols Hidx. unfold cvm_pvalue.
  rewrite Forall_forall in Hcols.
  destruct (Hcols (nth (closest_col n nsample) cols []) (nth_In _ _ Hidx)) as [Hl Hc].
  apply interp_in_range; [symmetry; exact Hl| |exact Hc|exact Hq].
  destruct qq; [contradiction|]. destruct (nth _ cols []); [discriminate|discriminate].
Qed.

(* the same facts for the shipped table, checked on its binary64 entries *)
Definition f_in_unit (v : PrimFloat.float) : bool :=
  PrimFloat.leb PrimFloat.zero v && PrimFloat.leb v PrimFloat.one.
Fixpoint f_increasing (l : list PrimFloat.float) : bool :=
  match l with
  | a :: ((b :: _) as r) => PrimFloat.ltb a b && f_increasing r
  | _ => true
  end.
Definition cvm_table_ok : bool :=
  f_increasing CVM_QQ && negb (Nat.eqb (length CVM_QQ) 0) &&
  Nat.eqb (length CVM_COLS) (length CVM_NSAMPLE) && negb (Nat.eqb (length CVM_COLS) 0) &&
  forallb (fun c => Nat.eqb (length c) (length CVM_QQ) && forallb f_in_unit c) CVM_COLS.

Lemma cvm_table_checked : cvm_table_ok = true.
Proof. vm_compute. reflexivity. Qed.

Lemma closest_col_bound n nsample : nsample <> [] -> (closest_col n nsample < length nsample)%nat.
Proof.
  intros Hne. unfold closest_col. destruct nsample as [|s0 r]; [contradiction|].
  cbn [map length].
  assert (H : forall l best bi i, (bi < i)%nat ->
            (argmin_go best bi i l < i + length l)%nat).
  { induction l as [|d l IH]; intros best bi i Hb; simpl; [lia|].
    destruct (d <? best)%Z.
    - specialize (IH d i (S i)). lia.
    - specialize (IH best bi (S i)). lia. }
  specialize (H (map (fun s => Z.abs (n - s)) r) (Z.abs (n - s0)) O 1%nat).
  rewrite map_length in H. lia.
Qed.

(* ================================================================== *)
(* Anderson-Darling statistic                                          *)

(* textbook: A2 = -n - (1/n) sum_{i=1..n} (2i-1) (ln x_(i) + ln (1 - x_(n+1-i)));
   with 0-based i the weight is 2i+1 and the partner is the reversed sample *)
Definition ad_textbook (s : list R) : R :=
  let n := INR (length s) in
  - n - (1 / n) * rsumR (map (fun p => IZR (2 * fst (fst p) + 1) * (ln (snd (fst p)) + ln (1 - snd p)))
                             (combine (zenum 0 s) (rev s))).

Lemma in_zenum_snd {A} i (l : list A) p : In p (zenum i l) -> In (snd p) l.
Proof.
  revert i; induction l as [|a l IH]; intros i H; simpl in *; [contradiction|].
  destruct H as [<-|H]; [left; reflexivity|right; eapply IH; exact H].
Qed.

Lemma rsumR_map_opp_ext {A} (f g : A -> R) l :
  (forall a, In a l -> f a = - g a) -> rsumR (map f l) = - rsumR (map g l).
Proof.
  induction l as [|a l IH]; intros H; simpl; [lra|].
  rewrite (H a (or_introl eq_refl)), IH by (intros b Hb; apply H; right; exact Hb). lra.
Qed.

Lemma ad_stat_sorted_textbook s :
  s <> [] -> Forall (fun x => 0 < x < 1) s -> ad_stat_sorted s = ad_textbook s.
Proof.
  intros Hne Hs. unfold ad_stat_sorted, ad_textbook, ad_terms.
  assert (Hn : INR (length s) <> 0).
  { apply not_0_INR. destruct s; [contradiction|discriminate]. }
  assert (E : rsumR (map (fun p : Z * R * R => - IZR (2 * fst (fst p) + 1) * ln (snd (fst p) * (1 - snd p)))
                         (combine (zenum 0 s) (rev s))) =
              - rsumR (map (fun p : Z * R * R => IZR (2 * fst (fst p) + 1) * (ln (snd (fst p)) + ln (1 - snd p)))
                           (combine (zenum 0 s) (rev s)))).
  { rewrite Forall_forall in Hs.
    assert (Hin : forall p, In p (combine (zenum 0 s) (rev s)) ->
                  0 < snd (fst p) < 1 /\ 0 < snd p < 1).
    { intros [[i x] y] Hp. cbn [fst snd]. split.
      - apply Hs. apply in_combine_l in Hp. apply in_zenum_snd in Hp. exact Hp.
      - apply Hs. apply in_combine_r in Hp. apply in_rev; exact Hp. }
    apply rsumR_map_opp_ext. intros p Hp. destruct (Hin p Hp) as [Hx Hy].
    rewrite ln_mult by lra. lra. }
  rewrite E. field. exact Hn.
Qed.

Theorem ad_stat_textbook data s :
  data <> [] -> Forall (fun x => 0 < x < 1) data ->
  Permutation s data -> StronglySorted Rle s ->
  ad_stat data = ad_textbook s.
Proof.
  intros Hd Hr HP HS. unfold ad_stat.
  rewrite (isort_Rleb_is_the_sorted s data HP HS).
  apply ad_stat_sorted_textbook.
  - intros ->. apply Permutation_nil in HP. contradiction.
  - eapply Permutation_Forall; [apply Permutation_sym; exact HP|exact Hr].
Qed.

Theorem ad_stat_perm_invariant data data' :
  Permutation data data' -> ad_stat data = ad_stat data'.
Proof. intros HP. unfold ad_stat. rewrite (isort_Rleb_perm_invariant _ _ HP). reflexivity. Qed.

(* ================================================================== *)
(* input checks of ADtest (reals with an explicit NaN)                 *)

Definition ad_value_ok (x : option R) : Prop :=
  match x with Some v => 0 <= v <= 1 | None => False end.

Lemma KN_ad_consts :
  k_ad_lo KN = Some 0 /\ k_ad_hi KN = Some 1 /\ k_ad_prev0 KN = Some AD_PREV0_R /\ AD_PREV0_R < 0.
Proof.
  cbn. unfold AD_RANGE_LO_R, AD_RANGE_HI_R, AD_PREV0_R. repeat split; try reflexivity.
  match goal with |- _ / ?b < 0 =>
    assert (Hb : 0 < b) by (apply IZR_lt; reflexivity);
    assert (0 < / b) by (apply Rinv_0_lt_compat; exact Hb); unfold Rdiv; lra end.
Qed.

(* the loop accepts exactly the arrays whose values are all numbers in [0,1],
   in non-decreasing order, starting not below prev *)
Fixpoint nondecreasing_from (prev : R) (l : list (option R)) : Prop :=
  match l with
  | [] => True
  | Some v :: r => prev <= v /\ nondecreasing_from v r
  | None :: _ => False
  end.

Lemma ad_check_loop_spec prev l :
  ad_check_loop RN KN (Some prev) l = None <->
  Forall ad_value_ok l /\ nondecreasing_from prev l.
Proof.
  destruct KN_ad_consts as (Elo & Ehi & _ & _).
  revert prev. induction l as [|x l IH]; intros prev.
  - simpl. split; [intros _; split; [constructor|exact I]|reflexivity].
  - cbn [ad_check_loop nondecreasing_from]. rewrite Elo, Ehi. destruct x as [v|]; cbn [nltb nisnan RN ocmp].
    + destruct (Rltb v 0) eqn:E0; cbn [orb].
      { apply Rltb_true in E0. split; [discriminate|]. intros [H _]. inversion H as [|? ? Hv _]; subst.
        simpl in Hv. lra. }
      apply Rltb_false in E0.
      destruct (Rltb 1 v) eqn:E1.
      { apply Rltb_true in E1. split; [discriminate|]. intros [H _]. inversion H as [|? ? Hv _]; subst.
        simpl in Hv. lra. }
      apply Rltb_false in E1.
      destruct (Rltb v prev) eqn:E2.
      { apply Rltb_true in E2. split; [discriminate|]. intros [_ [H _]]. lra. }
      apply Rltb_false in E2.
      rewrite IH. split.
      * intros [H1 H2]. split; [constructor; [simpl; lra|exact H1]|split; [exact E2|exact H2]].
      * intros [H1 [_ H2]]. inversion H1; subst. split; assumption.
    + cbn [orb]. split; [discriminate|]. intros [H _]. inversion H as [|? ? Hv _]; subst. contradiction.
Qed.

(* ADtest as called on an arbitrary (unsorted) array *)
Theorem adtest_check_spec l :
  adtest_check RN KN l = None <-> Forall ad_value_ok l /\ nondecreasing_from AD_PREV0_R l.
Proof.
  unfold adtest_check. destruct KN_ad_consts as (_ & _ & -> & _). apply ad_check_loop_spec.
Qed.

(* a value outside [0,1] or a NaN anywhere in the array is rejected, whatever
   the arrangement of the array *)
Theorem adtest_rejects_bad_value l x :
  In x l -> ~ ad_value_ok x -> adtest_check RN KN l <> None.
Proof.
  intros Hin Hbad H. apply adtest_check_spec in H. destruct H as [H _].
  rewrite Forall_forall in H. apply Hbad, H, Hin.
Qed.

(* an array that is not in non-decreasing order is rejected by ADtest *)
Theorem adtest_rejects_unsorted l1 a b l2 :
  b < a -> adtest_check RN KN (l1 ++ Some a :: Some b :: l2) <> None.
Proof.
  intros Hba H. apply adtest_check_spec in H. destruct H as [_ H].
  revert H. generalize AD_PREV0_R. induction l1 as [|x l1 IH]; intros prev H.
  - simpl in H. lra.
  - simpl in H. destruct x as [v|]; [|contradiction]. destruct H as [_ H]. eapply IH; exact H.
Qed.

(* c_ad_test (qsort, then ADtest): the sort only permutes, so the verdict on
   values is the same - and samples inside [0,1] are accepted in any order *)
Theorem ad_test_rejects_bad_value l x :
  In x l -> ~ ad_value_ok x -> ad_test_check RN KN l <> None.
Proof.
  intros Hin Hbad. unfold ad_test_check. apply adtest_rejects_bad_value with x; [|exact Hbad].
  eapply Permutation_in; [apply isort_by_perm|exact Hin].
Qed.

Lemma nondecreasing_of_sorted prev s :
  StronglySorted Rle s -> Forall (fun v => prev <= v) s ->
  nondecreasing_from prev (map Some s).
Proof.
  revert prev. induction s as [|v s IH]; intros prev HS Hp; simpl; [exact I|].
  inversion HS as [|? ? HS' Hv]; subst. inversion Hp; subst. split; [assumption|].
  apply IH; assumption.
Qed.

Theorem ad_test_accepts_unit_sample (data : list R) :
  Forall (fun v => 0 <= v <= 1) data ->
  ad_test_check RN KN (map Some data) = None.
Proof.
  intros Hd. unfold ad_test_check.
  assert (E : isort_by (ad_le RN) (map Some data) = map Some (isort_by Rleb data)).
  { apply isort_by_map. intros a b. unfold ad_le. cbn [nltb RN ocmp].
    destruct (Rltb b a) eqn:E1.
    - apply Rltb_true in E1. symmetry. apply Rleb_false. lra.
    - apply Rltb_false in E1. symmetry. apply Rleb_true. lra. }
  rewrite E. apply adtest_check_spec.
  assert (Hs : Forall (fun v => 0 <= v <= 1) (isort_by Rleb data)).
  { eapply Permutation_Forall; [apply isort_by_perm|exact Hd]. }
  split.
  - apply Forall_forall. intros x Hx. apply in_map_iff in Hx. destruct Hx as (v & <- & Hv).
    rewrite Forall_forall in Hs. simpl. apply Hs; exact Hv.
  - apply nondecreasing_of_sorted; [apply isort_Rleb_sorted|].
    destruct KN_ad_consts as (_ & _ & _ & Hneg).
    eapply Forall_impl; [|exact Hs]. intros v Hv. simpl in Hv. lra.
Qed.

(* ================================================================== *)
(* Anderson-Darling p-value                                            *)

Lemma clamp01_range p : 0 <= clamp01 p <= 1.
Proof.
  unfold clamp01. destruct (Rlt_dec p 0); [lra|]. destruct (Rlt_dec 1 p); lra.
Qed.

Lemma clamp01_id p : 0 <= p <= 1 -> clamp01 p = p.
Proof.
  intros H. unfold clamp01. destruct (Rlt_dec p 0); [lra|]. destruct (Rlt_dec 1 p); lra.
Qed.

Theorem ad_pvalue_in_unit n z : 0 <= ad_pvalue n z <= 1.
Proof. apply clamp01_range. Qed.
