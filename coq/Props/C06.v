(* C06 - catchment delineation is exactly upstream reachability on the flow grid.
   Statements only; proofs are `exact <lemma>` from Proofs/FlowProofs.v,
   Proofs/AreaProofs.v, Proofs/PathProofs.v.  [downstream]/[upstream_hits] use
   the direction-code table re-extracted from grid.py (Gen/Consts.v). *)
From Coq Require Import ZArith Bool List Reals.
From Hy Require Import Base.Num Gen.Consts Model.Grid Model.Catchment
     Proofs.FlowProofs Proofs.AreaProofs Proofs.PathProofs.
Import ListNotations.
Open Scope Z_scope.

(* the extracted table: centre 0, eight non-zero pairwise distinct codes *)
Theorem C06_direction_codes_wellformed : codes_wf FLOWDIRCODE = true.
Proof. exact flowdircode_wf. Qed.
Print Assumptions C06_direction_codes_wellformed.

(* upstream and downstream are inverse relations, on every grid of every shape *)
Theorem C06_up_down_inverse : forall nrows ncols fd,
  0 < ncols -> forall c d, 0 <= d < nrows * ncols ->
  (In c (upstream_hits nrows ncols fd d) <->
   (0 <= c < nrows * ncols /\ downstream nrows ncols fd c = Some d)).
Proof. exact (up_down_inverse FLOWDIRCODE flowdircode_wf). Qed.
Print Assumptions C06_up_down_inverse.

Theorem C06_upstream_lists_each_cell_once : forall nrows ncols fd d,
  0 <= d < nrows * ncols -> NoDup (upstream_hits nrows ncols fd d).
Proof. exact (hits_nodup FLOWDIRCODE flowdircode_wf). Qed.
Print Assumptions C06_upstream_lists_each_cell_once.

(* sinks -2, codes outside the table -1, invalid cell numbers an error *)
Theorem C06_downstream_sink : forall nrows ncols fd c,
  0 <= c < nrows * ncols -> zn fd c 0 = 0 -> downstream nrows ncols fd c = Some (-2).
Proof. exact (downstream_sink FLOWDIRCODE). Qed.
Print Assumptions C06_downstream_sink.

Theorem C06_downstream_unknown_code : forall nrows ncols fd c,
  0 <= c < nrows * ncols -> zn fd c 0 <> 0 ->
  (forall j, 0 <= j <= 8 -> zn fd c 0 <> zn FLOWDIRCODE j 0) ->
  downstream nrows ncols fd c = Some (-1).
Proof. exact (downstream_unknown_code FLOWDIRCODE). Qed.
Print Assumptions C06_downstream_unknown_code.

Theorem C06_downstream_invalid_cell : forall nrows ncols fd c,
  c < 0 \/ nrows * ncols <= c -> downstream nrows ncols fd c = None.
Proof. exact (downstream_invalid_cell FLOWDIRCODE). Qed.
Print Assumptions C06_downstream_invalid_cell.

(* a non-negative downstream cell is a valid, different cell (off-grid exits are -1) *)
Theorem C06_downstream_result_valid : forall nrows ncols fd c d,
  0 < ncols -> 0 <= c < nrows * ncols -> downstream nrows ncols fd c = Some d -> 0 <= d ->
  0 <= d < nrows * ncols /\ d <> c.
Proof. intros nrows ncols fd c d H. exact (downstream_result_valid FLOWDIRCODE flowdircode_wf nrows ncols fd H c d). Qed.
Print Assumptions C06_downstream_result_valid.

(* the delineated area is the outlet plus every cell whose downstream chain
   reaches the outlet without passing through an inlet; empty when nothing
   drains to the outlet.  [reach k x]: k steps, none of x .. down^(k-1) x an inlet *)
Theorem C06_area_is_reachability : forall nrows ncols fd inlets outlet nval res,
  0 < ncols -> 0 <= outlet < nrows * ncols ->
  delineate_area nrows ncols fd outlet inlets nval = DOk res ->
  forall x, In x res <->
    ((exists k, (1 <= k)%nat /\ reach nrows ncols fd inlets outlet k x) \/
     (x = outlet /\ exists y, reach nrows ncols fd inlets outlet 1 y)).
Proof. intros nrows ncols fd inlets outlet nval res H1 H2. exact (area_is_reachability nrows ncols fd inlets outlet H1 H2 nval res). Qed.
Print Assumptions C06_area_is_reachability.

(* each cell is listed once when the outlet does not drain back into itself *)
Theorem C06_area_nodup : forall nrows ncols fd inlets outlet nval res,
  0 < ncols -> 0 <= outlet < nrows * ncols ->
  (forall m, (1 <= m)%nat -> ~ reach nrows ncols fd inlets outlet m outlet) ->
  delineate_area nrows ncols fd outlet inlets nval = DOk res -> NoDup res.
Proof. intros nrows ncols fd inlets outlet nval res H1 H2. exact (area_nodup nrows ncols fd inlets outlet H1 H2 nval res). Qed.
Print Assumptions C06_area_nodup.

(* on ANY grid, flow cycles included, the loop ends with a result or an error
   within its fuel (nval+1 layers): never a hang *)
Theorem C06_delineate_terminates : forall nrows ncols fd inlets outlet nval,
  delineate_area nrows ncols fd outlet inlets nval <> DFuel.
Proof. exact delineate_terminates. Qed.
Print Assumptions C06_delineate_terminates.

Theorem C06_delineate_rejects : forall nrows ncols fd outlet inlets nval,
  nval < 1 \/ outlet < 0 \/ nrows * ncols <= outlet \/
  (exists i, In i inlets /\ (i < 0 \/ nrows * ncols <= i)) ->
  delineate_area nrows ncols fd outlet inlets nval = DErr.
Proof. exact delineate_rejects. Qed.
Print Assumptions C06_delineate_rejects.

(* flow-path length = length of the downstream chain to the outlet *)
Theorem C06_flowpath_is_chain_length : forall nrows ncols fd outlet nval x mids,
  x <> outlet -> 0 <= outlet ->
  chain nrows ncols fd (x :: mids ++ [outlet]) ->
  Forall (fun c => c <> outlet) mids ->
  Z.of_nat (List.length mids) + 1 < nval ->
  flowpath RR nrows ncols fd outlet nval x = (x, outlet, path_len ncols (x :: mids ++ [outlet])).
Proof. exact flowpath_is_chain_length. Qed.
Print Assumptions C06_flowpath_is_chain_length.

(* ... advancing 1 per orthogonal step and sqrt 2 per diagonal step *)
Theorem C06_steplen_cases : forall ncols a b,
  steplen RR ncols a b =
  if (getnx ncols a =? getnx ncols b) || (getny ncols a =? getny ncols b) then 1%R else sqrt 2.
Proof. exact steplen_cases. Qed.
Print Assumptions C06_steplen_cases.

Theorem C06_flowpath_outlet_zero : forall nrows ncols fd outlet nval,
  snd (flowpath RR nrows ncols fd outlet nval outlet) = 0%R.
Proof. exact flowpath_outlet_zero. Qed.
Print Assumptions C06_flowpath_outlet_zero.

(* river traces follow the same downstream chain *)
Theorem C06_river_cells_chain : forall nrows ncols fd,
  0 < ncols ->
  forall fuel xll yll csz cur dist dx dy,
  (1 <= fuel)%nat ->
  let rows := river_loop RR fuel nrows ncols xll yll csz fd cur dist dx dy in
  chain nrows ncols fd (map rcell rows) /\ (List.length rows <= fuel)%nat /\
  ((List.length rows < fuel)%nat ->
     forall d, downstream nrows ncols fd (last (map rcell rows) cur) = Some d -> d < 0).
Proof. exact river_cells_chain. Qed.
Print Assumptions C06_river_cells_chain.

Theorem C06_river_distances : forall nrows ncols fd fuel xll yll csz cur dist dx dy,
  river_dists_ok ncols (river_loop RR fuel nrows ncols xll yll csz fd cur dist dx dy).
Proof. exact river_distances. Qed.
Print Assumptions C06_river_distances.

Theorem C06_river_starts_at_zero : forall nrows ncols fd xll yll csz start nval rows,
  1 <= nval ->
  river RR nrows ncols xll yll csz fd start nval = Some rows ->
  exists row rest, rows = row :: rest /\ rcell row = start /\ rdist row = 0%R.
Proof. exact river_starts_at_zero. Qed.
Print Assumptions C06_river_starts_at_zero.

(* non-vacuity *)
Example C06_nonvacuous_area : delineate_area 2 2 [2; 4; 1; 0] 3 [] 10 = DOk [0; 1; 2; 3].
Proof. exact area_example. Qed.
Example C06_nonvacuous_chain : chain 3 2 [4; 8; 4; 4; 4; 0] (1 :: [2] ++ [4]).
Proof. exact flowpath_example. Qed.

(* ================================================================== *)
(* The same relations on the REGENERATED program: [program] is the MiniC *)
(* translation of src/hydrodiy/gis/c_grid.c produced from the tree under *)
(* test on every run (Gen/KernelsAst.v); [exec_fun] its interpreter.     *)
(* ================================================================== *)
From Coq Require Import String.
From Hy Require Import Base.MiniC Gen.KernelsAst Proofs.RefineFlow Proofs.KernelFlow.
Open Scope string_scope.
Open Scope list_scope.
Open Scope Z_scope.

(* refinement, any 3x3 code table, any grid shape, any list of cell numbers (valid
   or not), any initial buffer content: c_downstream either returns 0 and the model's
   answer for every cell, or stops at the first invalid cell number with a positive
   code, the entries before it written and the others untouched *)
Theorem C06_kernel_downstream_refines_model :
  forall {T} (N : NumOps T) (X : NumLit T) nrows ncols codes fdl idx junk n,
  List.length codes = 9%nat ->
  Z.of_nat (List.length fdl) = nrows * ncols ->
  List.length junk = List.length idx ->
  (List.length idx < n)%nat -> (9 < n)%nat ->
  (exists out,
     Forall2 (fun c v => downstream_with codes nrows ncols fdl c = Some v) idx out /\
     exec_fun N X program (S n) "c_downstream"
       [AVI nrows; AVI ncols; AVArrI codes; AVArrI fdl; AVI (MiniC.zlen idx); AVArrI idx; AVArrI junk]
     = Ok (RI 0, [VArrI codes; VArrI fdl; VArrI idx; VArrI out]))
  \/
  (exists done bad rest outd code,
     idx = done ++ bad :: rest /\
     Forall2 (fun c v => downstream_with codes nrows ncols fdl c = Some v) done outd /\
     downstream_with codes nrows ncols fdl bad = None /\ 0 < code /\
     exec_fun N X program (S n) "c_downstream"
       [AVI nrows; AVI ncols; AVArrI codes; AVArrI fdl; AVI (MiniC.zlen idx); AVArrI idx; AVArrI junk]
     = Ok (RI code, [VArrI codes; VArrI fdl; VArrI idx;
                     VArrI (outd ++ skipn (List.length done) junk)])).
Proof. exact @refine_downstream_total. Qed.
Print Assumptions C06_kernel_downstream_refines_model.

Theorem C06_kernel_upstream_refines_model :
  forall {T} (N : NumOps T) (X : NumLit T) nrows ncols codes fdl idx junk n,
  List.length codes = 9%nat ->
  Z.of_nat (List.length fdl) = nrows * ncols ->
  List.length junk = (9 * List.length idx)%nat ->
  (List.length idx < n)%nat -> (9 < n)%nat ->
  (exists outs,
     Forall2 (fun c l => upstream_with codes nrows ncols fdl c = Some l) idx outs /\
     exec_fun N X program (S n) "c_upstream"
       [AVI nrows; AVI ncols; AVArrI codes; AVArrI fdl; AVI (MiniC.zlen idx); AVArrI idx; AVArrI junk]
     = Ok (RI 0, [VArrI codes; VArrI fdl; VArrI idx; VArrI (List.concat outs)]))
  \/
  (exists done bad rest outsd code,
     idx = done ++ bad :: rest /\
     Forall2 (fun c l => upstream_with codes nrows ncols fdl c = Some l) done outsd /\
     upstream_with codes nrows ncols fdl bad = None /\ 0 < code /\
     exec_fun N X program (S n) "c_upstream"
       [AVI nrows; AVI ncols; AVArrI codes; AVArrI fdl; AVI (MiniC.zlen idx); AVArrI idx; AVArrI junk]
     = Ok (RI code, [VArrI codes; VArrI fdl; VArrI idx;
                     VArrI (List.concat outsd ++ skipn (9 * List.length done) junk)])).
Proof. exact @refine_upstream_total. Qed.
Print Assumptions C06_kernel_upstream_refines_model.

(* [upstream_with] with the extracted table is the model's [upstream] *)
Theorem C06_kernel_upstream_with_std : forall nrows ncols fd c,
  upstream_with FLOWDIRCODE nrows ncols fd c = upstream nrows ncols fd c.
Proof. reflexivity. Qed.

(* upstream and downstream are inverse relations ON THE TRANSLATED KERNELS: for valid
   cells c, d of any grid, c_upstream lists c for d exactly when c_downstream answers
   d for c *)
Theorem C06_kernel_up_down_inverse :
  forall {T} (N : NumOps T) (X : NumLit T) nrows ncols fd c d buf9 buf1 n,
  0 < ncols -> Z.of_nat (List.length fd) = nrows * ncols ->
  0 <= c < nrows * ncols -> 0 <= d < nrows * ncols ->
  List.length buf9 = 9%nat -> List.length buf1 = 1%nat -> (9 < n)%nat ->
  exists ups dn,
    run_upstream N X n nrows ncols fd [d] buf9
      = Ok (RI 0, [VArrI FLOWDIRCODE; VArrI fd; VArrI [d]; VArrI ups]) /\
    run_downstream N X n nrows ncols fd [c] buf1
      = Ok (RI 0, [VArrI FLOWDIRCODE; VArrI fd; VArrI [c]; VArrI [dn]]) /\
    List.length ups = 9%nat /\
    (In c ups <-> dn = d).
Proof. exact @kernel_up_down_inverse. Qed.
Print Assumptions C06_kernel_up_down_inverse.

(* non-vacuity: a 2x2 grid whose cell 0 drains east (code 1) into cell 1 *)
Example C06_kernel_runs :
  exec_fun F64 XF64 program 40 "c_downstream"
    [AVI 2; AVI 2; AVArrI FLOWDIRCODE; AVArrI [1; 0; 0; 0]; AVI 2; AVArrI [0; 1]; AVArrI [7; 7]]
  = Ok (RI 0, [VArrI FLOWDIRCODE; VArrI [1; 0; 0; 0]; VArrI [0; 1]; VArrI [1; -2]]).
Proof. vm_compute. reflexivity. Qed.

(* ================================================================== *)
(* Flow-path lengths and river traces on the REGENERATED program      *)
(* (MiniC translation of src/hydrodiy/gis/c_catchment.c, Gen/KernelsAst.v). *)
(* ================================================================== *)
From Coq Require Import String Lia PrimFloat.
From Hy Require Import Base.Num Base.MiniC Gen.KernelsAst Gen.Consts Model.Grid Model.Catchment.
From Hy Require Proofs.RefineRiver.
Import ListNotations.
Open Scope string_scope.
Open Scope list_scope.
Open Scope Z_scope.

(* c_delineate_flowpathlengths_in_catchment = the model [flowpaths]: any arithmetic with (double)0 = 0, any grid shape, any cell list (valid or not), any outlet; fp_flat lays each row (cell, downstream end, length) out as three doubles *)
Theorem C06_kernel_flowpathlengths_refines_model :
  forall (T : Type) (N : NumOps T) (X : NumLit T) (nrows ncols : Z) 
         (fd area : list Z) (outlet : Z) (junk : list T) (n : nat),
       nofZ N 0 = n0 N ->
       nrows * ncols <= Z.of_nat (Datatypes.length fd) ->
       Datatypes.length junk = (3 * Datatypes.length area)%nat ->
       (Nat.max (Datatypes.length area) 12 < n)%nat ->
       exec_fun N X program (S n) "c_delineate_flowpathlengths_in_catchment"
         [AVI nrows; AVI ncols; AVArrI FLOWDIRCODE; AVArrI fd; AVI (MiniC.zlen area); 
          AVArrI area; AVI outlet; AVArrF junk] =
       Ok
         (RI 0,
          [VArrI FLOWDIRCODE; VArrI fd; VArrI area;
           VArrF (RefineRiver.fp_flat N (flowpaths N nrows ncols fd outlet area))]).
Proof. exact @RefineRiver.refine_delineate_flowpathlengths_in_catchment. Qed.
Print Assumptions C06_kernel_flowpathlengths_refines_model.

(* c_delineate_river = the model [river]: rows written and their count, the rest of the buffers untouched; a positive code and untouched buffers for an invalid start cell *)
Theorem C06_kernel_river_refines_model :
  forall (T : Type) (N : NumOps T) (X : NumLit T) (nrows ncols : Z) 
         (xll yll csz : T) (fd : list Z) (start np0 : Z) (cjunk : list Z) 
         (djunk : list T) (n : nat),
       nofZ N 0 = n0 N ->
       nlit X 0.5 1 2 = nhalf N ->
       nrows * ncols <= Z.of_nat (Datatypes.length fd) ->
       Datatypes.length djunk = (5 * Datatypes.length cjunk)%nat ->
       (Nat.max (Datatypes.length cjunk) 12 < n)%nat ->
       match river N nrows ncols xll yll csz fd start (MiniC.zlen cjunk) with
       | Some rows =>
           exec_fun N X program (S n) "c_delineate_river"
             [AVI nrows; AVI ncols; AVF xll; AVF yll; AVF csz; AVArrI FLOWDIRCODE; 
              AVArrI fd; AVI start; AVI (MiniC.zlen cjunk); AVArrI [np0]; 
              AVArrI cjunk; AVArrF djunk] =
           Ok
             (RI 0,
              [VArrI FLOWDIRCODE; VArrI fd; VArrI [Z.of_nat (Datatypes.length rows)];
               VArrI (map RefineRiver.rv_cell rows ++ skipn (Datatypes.length rows) cjunk);
               VArrF (flat_map RefineRiver.rv_data rows ++ skipn (5 * Datatypes.length rows) djunk)])
       | None =>
           exists code : Z,
             0 < code /\
             exec_fun N X program (S n) "c_delineate_river"
               [AVI nrows; AVI ncols; AVF xll; AVF yll; AVF csz; AVArrI FLOWDIRCODE; 
                AVArrI fd; AVI start; AVI (MiniC.zlen cjunk); AVArrI [np0]; 
                AVArrI cjunk; AVArrF djunk] =
             Ok (RI code, [VArrI FLOWDIRCODE; VArrI fd; VArrI [np0]; VArrI cjunk; VArrF djunk])
       end.
Proof. exact @RefineRiver.refine_delineate_river. Qed.
Print Assumptions C06_kernel_river_refines_model.

(* the same for an arbitrary 3x3 direction-code table *)
Theorem C06_kernel_flowpathlengths_any_code_table :
  forall (T : Type) (N : NumOps T) (X : NumLit T) (nrows ncols : Z) 
         (codes fd area : list Z) (outlet : Z) (junk : list T) (n : nat),
       nofZ N 0 = n0 N ->
       Datatypes.length codes = 9%nat ->
       nrows * ncols <= Z.of_nat (Datatypes.length fd) ->
       Datatypes.length junk = (3 * Datatypes.length area)%nat ->
       (Nat.max (Datatypes.length area) 12 < n)%nat ->
       exec_fun N X program (S n) "c_delineate_flowpathlengths_in_catchment"
         [AVI nrows; AVI ncols; AVArrI codes; AVArrI fd; AVI (MiniC.zlen area); 
          AVArrI area; AVI outlet; AVArrF junk] =
       Ok
         (RI 0,
          [VArrI codes; VArrI fd; VArrI area;
           VArrF
             (RefineRiver.fp_flat N (RefineRiver.flowpaths_with N codes nrows ncols fd outlet area))]).
Proof. exact @RefineRiver.refine_delineate_flowpathlengths_in_catchment_with. Qed.
Print Assumptions C06_kernel_flowpathlengths_any_code_table.

(* ================================================================== *)
(* Catchment delineation on the REGENERATED program (MiniC translation of *)
(* c_delineate_area, src/hydrodiy/gis/c_catchment.c, Gen/KernelsAst.v). *)
(* ================================================================== *)
From Coq Require Import String Lia PrimFloat.
From Hy Require Import Base.Num Base.MiniC Gen.KernelsAst Gen.Consts Model.Grid Model.Catchment.
From Hy Require Proofs.RefineArea.
Import ListNotations.
Open Scope string_scope.
Open Scope list_scope.
Open Scope Z_scope.

(* c_delineate_area = the model [delineate_area] (the one whose result is proved to be upstream reachability above), for every grid, flow directions (cycles included), outlet, inlets and buffer size: the model's cells followed by the untouched tail of the buffer on success; a positive code otherwise (nothing written when the outlet / an inlet is invalid or nval < 1); the model never runs out of fuel *)
Theorem C06_kernel_delineate_area_refines_model :
  forall (T : Type) (N : NumOps T) (X : NumLit T) (nrows ncols : Z) 
         (fd : list Z) (outlet : Z) (inlets area0 b10 b20 : list Z) (n : nat),
       0 <= ncols ->
       Z.of_nat (Datatypes.length fd) = nrows * ncols ->
       Datatypes.length b10 = Datatypes.length area0 ->
       Datatypes.length b20 = Datatypes.length area0 ->
       (Datatypes.length inlets < n)%nat ->
       (Datatypes.length area0 < n)%nat ->
       (13 < n)%nat ->
       match delineate_area nrows ncols fd outlet inlets (Z.of_nat (Datatypes.length area0)) with
       | DErr =>
           exists (code : Z) (a b1 b2 : list Z),
             0 < code /\
             RefineArea.da_call N X n nrows ncols fd outlet inlets area0 b10 b20 =
             Ok (RI code, [VArrI FLOWDIRCODE; VArrI fd; VArrI inlets; VArrI a; VArrI b1; VArrI b2]) /\
             (RefineArea.da_rejected nrows ncols outlet (Z.of_nat (Datatypes.length area0)) inlets =
              true -> a = area0 /\ b1 = b10 /\ b2 = b20)
       | DFuel => False
       | DOk res =>
           RefineArea.da_call N X n nrows ncols fd outlet inlets area0 b10 b20 =
           Ok
             (RI 0,
              [VArrI FLOWDIRCODE; VArrI fd; VArrI inlets;
               VArrI (res ++ skipn (Datatypes.length res) area0);
               VArrI
                 (fst
                    (RefineArea.area_bufs nrows ncols outlet (Z.of_nat (Datatypes.length area0)) fd
                       inlets b10 b20));
               VArrI
                 (snd
                    (RefineArea.area_bufs nrows ncols outlet (Z.of_nat (Datatypes.length area0)) fd
                       inlets b10 b20))])
       end.
Proof. exact @RefineArea.refine_c_delineate_area. Qed.
Print Assumptions C06_kernel_delineate_area_refines_model.

(* the callee c_upstream on one cell, any 3x3 code table *)
Theorem C06_kernel_upstream_one_cell :
  forall (T : Type) (N : NumOps T) (X : NumLit T) (n : nat) (nrows ncols : Z)
         (codes fd : list Z) (c : Z) (up : list Z),
       0 <= ncols ->
       0 <= c < nrows * ncols ->
       Datatypes.length codes = 9%nat ->
       Z.of_nat (Datatypes.length fd) = nrows * ncols ->
       Datatypes.length up = 9%nat ->
       (12 < n)%nat ->
       exec_fun N X program (S n) "c_upstream"
         [AVI nrows; AVI ncols; AVArrI codes; AVArrI fd; AVI 1; AVArrI [c]; AVArrI up] =
       Ok
         (RI 0,
          [VArrI codes; VArrI fd; VArrI [c];
           VArrI (pad9 (upstream_hits_with codes nrows ncols fd c))]).
Proof. exact @RefineArea.refine_c_upstream_one. Qed.
Print Assumptions C06_kernel_upstream_one_cell.

(* ================================================================== *)
(* C06 ITSELF on the REGENERATED program (MiniC translation of src/hydrodiy/gis/c_catchment.c): the model theorems above composed with the refinement theorems *)
(*    (Proofs/KernelCatchment.v): delineated area = upstream reachability, flow-path length = length of the downstream chain, river trace = downstream chain. *)
(* ================================================================== *)
From Coq Require Import String Lia PrimFloat.
From Hy Require Import Base.Num Base.MiniC Gen.KernelsAst Gen.Consts Base.Num Base.MiniC Gen.KernelsAst Gen.Consts Model.Grid Model.Catchment.
From Hy Require Proofs.KernelCatchment.
Import ListNotations.
Open Scope string_scope.
Open Scope list_scope.
Open Scope Z_scope.

(* when the translated c_delineate_area returns 0, idxcells_area holds (before its untouched tail) exactly the outlet plus every cell whose downstream chain reaches the outlet without passing through an inlet, all valid cells, each once when the outlet does not drain back into itself; any grid (cycles included), any arithmetic instance *)
Theorem C06_kernel_area_is_reachability :
  forall (T : Type) (N : NumOps T) (X : NumLit T) (nrows ncols : Z) 
         (fd : list Z) (outlet : Z) (inlets area0 b10 b20 : list Z) (n : nat)
         (outs : list (arrval T)),
       0 < ncols ->
       0 <= outlet < nrows * ncols ->
       Z.of_nat (Datatypes.length fd) = nrows * ncols ->
       Datatypes.length b10 = Datatypes.length area0 ->
       Datatypes.length b20 = Datatypes.length area0 ->
       (Datatypes.length inlets < n)%nat ->
       (Datatypes.length area0 < n)%nat ->
       (13 < n)%nat ->
       RefineArea.da_call N X n nrows ncols fd outlet inlets area0 b10 b20 = Ok (RI 0, outs) ->
       exists res b1 b2 : list Z,
         outs =
         [VArrI FLOWDIRCODE; VArrI fd; VArrI inlets;
          VArrI (res ++ skipn (Datatypes.length res) area0); VArrI b1; 
          VArrI b2] /\
         (forall x : Z,
          In x res <->
          (exists k : nat, (1 <= k)%nat /\ AreaProofs.reach nrows ncols fd inlets outlet k x) \/
          x = outlet /\ (exists y : Z, AreaProofs.reach nrows ncols fd inlets outlet 1 y)) /\
         (forall x : Z, In x res -> 0 <= x < nrows * ncols) /\
         ((forall m : nat, (1 <= m)%nat -> ~ AreaProofs.reach nrows ncols fd inlets outlet m outlet) ->
          NoDup res).
Proof. exact @KernelCatchment.kernel_area_is_reachability. Qed.
Print Assumptions C06_kernel_area_is_reachability.

(* the same with the call convention of grid.py (the three arrays initialised with -1, the area read back as the non-negative entries): those entries are exactly the reachability set, each cell once *)
Theorem C06_kernel_area_python_convention :
  forall (T : Type) (N : NumOps T) (X : NumLit T) (nrows ncols : Z) 
         (fd : list Z) (outlet : Z) (inlets : list Z) (nval n : nat) (a b1 b2 : list Z),
       0 < ncols ->
       0 <= outlet < nrows * ncols ->
       Z.of_nat (Datatypes.length fd) = nrows * ncols ->
       (Datatypes.length inlets < n)%nat ->
       (nval < n)%nat ->
       (13 < n)%nat ->
       RefineArea.da_call N X n nrows ncols fd outlet inlets (repeat (-1) nval) 
         (repeat (-1) nval) (repeat (-1) nval) =
       Ok (RI 0, [VArrI FLOWDIRCODE; VArrI fd; VArrI inlets; VArrI a; VArrI b1; VArrI b2]) ->
       let cells := filter (fun x : Z => 0 <=? x) a in
       (forall x : Z,
        In x cells <->
        (exists k : nat, (1 <= k)%nat /\ AreaProofs.reach nrows ncols fd inlets outlet k x) \/
        x = outlet /\ (exists y : Z, AreaProofs.reach nrows ncols fd inlets outlet 1 y)) /\
       ((forall m : nat, (1 <= m)%nat -> ~ AreaProofs.reach nrows ncols fd inlets outlet m outlet) ->
        NoDup cells).
Proof. exact @KernelCatchment.kernel_area_python_convention. Qed.
Print Assumptions C06_kernel_area_python_convention.

(* nval < 1, invalid outlet or invalid inlet: the translated kernel returns a positive code and writes nothing *)
Theorem C06_kernel_area_rejects :
  forall (T : Type) (N : NumOps T) (X : NumLit T) (nrows ncols : Z) 
         (fd : list Z) (outlet : Z) (inlets area0 b10 b20 : list Z) (n : nat),
       0 <= ncols ->
       Z.of_nat (Datatypes.length fd) = nrows * ncols ->
       Datatypes.length b10 = Datatypes.length area0 ->
       Datatypes.length b20 = Datatypes.length area0 ->
       (Datatypes.length inlets < n)%nat ->
       (Datatypes.length area0 < n)%nat ->
       (13 < n)%nat ->
       Z.of_nat (Datatypes.length area0) < 1 \/
       outlet < 0 \/
       nrows * ncols <= outlet \/ (exists i : Z, In i inlets /\ (i < 0 \/ nrows * ncols <= i)) ->
       exists code : Z,
         0 < code /\
         RefineArea.da_call N X n nrows ncols fd outlet inlets area0 b10 b20 =
         Ok
           (RI code, [VArrI FLOWDIRCODE; VArrI fd; VArrI inlets; VArrI area0; VArrI b10; VArrI b20]).
Proof. exact @KernelCatchment.kernel_area_rejects. Qed.
Print Assumptions C06_kernel_area_rejects.

(* the translated c_delineate_flowpathlengths_in_catchment, over the reals: row i holds the cell, the outlet and the length of the cell's downstream chain to the outlet (path_len: 1 per orthogonal step, sqrt 2 per diagonal step, C06_steplen_cases); length 0 for the outlet itself *)
Theorem C06_kernel_flowpath_is_chain_length :
  forall (nrows ncols : Z) (fd area : list Z) (outlet : Z) (buf : list R) (n : nat),
       nrows * ncols <= Z.of_nat (Datatypes.length fd) ->
       0 <= outlet ->
       Datatypes.length buf = (3 * Datatypes.length area)%nat ->
       (Nat.max (Datatypes.length area) 12 < n)%nat ->
       exists out : list R,
         KernelCatchment.run_flowpaths n nrows ncols fd area outlet buf =
         Ok (RI 0, [VArrI FLOWDIRCODE; VArrI fd; VArrI area; VArrF out]) /\
         Datatypes.length out = (3 * Datatypes.length area)%nat /\
         (forall (i : nat) (x : Z) (mids : list Z),
          (i < Datatypes.length area)%nat ->
          nth i area 0 = x ->
          x <> outlet ->
          PathProofs.chain nrows ncols fd (x :: mids ++ [outlet]) ->
          Forall (fun c : Z => c <> outlet) mids ->
          Z.of_nat (Datatypes.length mids) + 1 < Z.of_nat (Datatypes.length area) ->
          nth (3 * i) out 0%R = IZR x /\
          nth (3 * i + 1) out 0%R = IZR outlet /\
          nth (3 * i + 2) out 0%R = PathProofs.path_len ncols (x :: mids ++ [outlet])) /\
         (forall i : nat,
          (i < Datatypes.length area)%nat ->
          nth i area 0 = outlet ->
          nth (3 * i) out 0%R = IZR outlet /\ nth (3 * i + 2) out 0%R = 0%R).
Proof. exact @KernelCatchment.kernel_flowpath_is_chain_length. Qed.
Print Assumptions C06_kernel_flowpath_is_chain_length.

(* the translated c_delineate_river, over the reals, from any valid start cell: the cells written are the downstream chain of the start cell (distance 0 at the start), at most as many as the buffer holds, stopping early only where the chain leaves the grid or reaches a sink; dx, dy, distance advance as river_dists_ok says; the rest of the buffers untouched *)
Theorem C06_kernel_river_follows_downstream_chain :
  forall (nrows ncols : Z) (xll yll csz : R) (fd : list Z) (start np0 : Z) 
         (cbuf : list Z) (dbuf : list R) (n : nat),
       0 < ncols ->
       0 <= start < nrows * ncols ->
       nrows * ncols <= Z.of_nat (Datatypes.length fd) ->
       (1 <= Datatypes.length cbuf)%nat ->
       Datatypes.length dbuf = (5 * Datatypes.length cbuf)%nat ->
       (Nat.max (Datatypes.length cbuf) 12 < n)%nat ->
       exists rows : list (Z * R * R * R * R * R),
         KernelCatchment.run_river n nrows ncols xll yll csz fd start np0 cbuf dbuf =
         Ok
           (RI 0,
            [VArrI FLOWDIRCODE; VArrI fd; VArrI [Z.of_nat (Datatypes.length rows)];
             VArrI (map PathProofs.rcell rows ++ skipn (Datatypes.length rows) cbuf);
             VArrF (flat_map RefineRiver.rv_data rows ++ skipn (5 * Datatypes.length rows) dbuf)]) /\
         (1 <= Datatypes.length rows <= Datatypes.length cbuf)%nat /\
         PathProofs.chain nrows ncols fd (map PathProofs.rcell rows) /\
         (exists (row : Z * R * R * R * R * R) (rest : list (Z * R * R * R * R * R)),
            rows = row :: rest /\ PathProofs.rcell row = start /\ PathProofs.rdist row = 0%R) /\
         ((Datatypes.length rows < Datatypes.length cbuf)%nat ->
          forall d : Z,
          downstream nrows ncols fd (last (map PathProofs.rcell rows) start) = Some d -> d < 0) /\
         PathProofs.river_dists_ok ncols rows.
Proof. exact @KernelCatchment.kernel_river_follows_downstream_chain. Qed.
Print Assumptions C06_kernel_river_follows_downstream_chain.

(* the abbreviations da_call, run_flowpaths, run_river, rcell, rdist, rv_data used above, unfolded *)
Theorem C06_kernel_catchment_abbreviations :
  (forall (T : Type) (N : NumOps T) (X : NumLit T) (n : nat) (nrows ncols : Z) 
          (fd : list Z) (outlet : Z) (inlets area0 b10 b20 : list Z),
        RefineArea.da_call N X n nrows ncols fd outlet inlets area0 b10 b20 =
        exec_fun N X program (S n) "c_delineate_area"
          [AVI nrows; AVI ncols; AVArrI FLOWDIRCODE; AVArrI fd; AVI outlet;
           AVI (Z.of_nat (Datatypes.length inlets)); AVArrI inlets;
           AVI (Z.of_nat (Datatypes.length area0)); AVArrI area0; AVArrI b10; 
           AVArrI b20]) /\
       (forall (n : nat) (nrows ncols : Z) (fd area : list Z) (outlet : Z) (buf : list R),
        KernelCatchment.run_flowpaths n nrows ncols fd area outlet buf =
        exec_fun RR XRR program (S n) "c_delineate_flowpathlengths_in_catchment"
          [AVI nrows; AVI ncols; AVArrI FLOWDIRCODE; AVArrI fd; AVI (MiniC.zlen area); 
           AVArrI area; AVI outlet; AVArrF buf]) /\
       (forall (n : nat) (nrows ncols : Z) (xll yll csz : R) (fd : list Z) 
          (start np0 : Z) (cbuf : list Z) (dbuf : list R),
        KernelCatchment.run_river n nrows ncols xll yll csz fd start np0 cbuf dbuf =
        exec_fun RR XRR program (S n) "c_delineate_river"
          [AVI nrows; AVI ncols; AVF xll; AVF yll; AVF csz; AVArrI FLOWDIRCODE; 
           AVArrI fd; AVI start; AVI (MiniC.zlen cbuf); AVArrI [np0]; AVArrI cbuf; 
           AVArrF dbuf]) /\
       (forall (c : Z) (dist dx dy x y : R),
        PathProofs.rcell (c, dist, dx, dy, x, y) = c /\
        PathProofs.rdist (c, dist, dx, dy, x, y) = dist /\
        RefineRiver.rv_data (c, dist, dx, dy, x, y) = [dist; dx; dy; x; y]).
Proof. exact @KernelCatchment.kernel_catchment_defs. Qed.
Print Assumptions C06_kernel_catchment_abbreviations.
