(* C01 - every data transform is invertible on its domain.
   Statements only; every proof is `exact <lemma(s) of Proofs/TransformProofs.v>`.
   All theorems are over the real numbers, for ALL parameter values inside the
   bounds re-extracted from transform.py (Gen/ConstsC01.v) - including the exact
   branch values lam = 0, |lam| = EPS, lam = 2 - all constructor options and all
   points of the stated domain.  The floating-point clause ("to 1e-6") is
   tested on the implementation, not proved.
   One theorem per class (both directions in one conjunction: `Print
   Assumptions` over the real-number library costs about a second each); the
   non-vacuity instances of all hypotheses are gathered in C01_nonvacuous. *)
From Coq Require Import Reals List Bool.
From Coquelicot Require Import Rbar.
From Hy Require Import Base.Num Gen.ConstsC01 Model.Transform Proofs.TransformProofs.
Import ListNotations.
Open Scope R_scope.

(* ---- Identity ---- *)
Theorem C01_identity_invertible :
  (forall x, id_bwd (id_fwd x) = x) /\ (forall y, id_fwd (id_bwd y) = y).
Proof. exact (conj id_bwd_fwd id_fwd_bwd). Qed.
Print Assumptions C01_identity_invertible.

(* ---- Logit : domain lower < x < lower + exp logdelta ; image = all reals,
   and backward lands in the domain ---- *)
Theorem C01_logit_invertible :
  (forall lower logdelta x, lower < x < lower + exp logdelta ->
     logit_bwd lower logdelta (logit_fwd lower logdelta x) = x) /\
  (forall lower logdelta y, logit_fwd lower logdelta (logit_bwd lower logdelta y) = y) /\
  (forall lower logdelta y, lower < logit_bwd lower logdelta y < lower + exp logdelta).
Proof. exact (conj logit_bwd_fwd (conj logit_fwd_bwd logit_bwd_range)). Qed.
Print Assumptions C01_logit_invertible.

(* ---- Log : any base > 0, <> 1 (or the natural logarithm) ; domain 0 < x + nu ---- *)
Theorem C01_log_invertible :
  (forall base nu x, log_base_ok base -> 0 < x + nu ->
     log_bwd (log_basefactor base) nu (log_fwd (log_basefactor base) nu x) = x) /\
  (forall base nu y, log_base_ok base ->
     log_fwd (log_basefactor base) nu (log_bwd (log_basefactor base) nu y) = y).
Proof. exact (conj log_bwd_fwd log_fwd_bwd). Qed.
Print Assumptions C01_log_invertible.

(* ---- BoxCox2 : EVERY lam (lam = 0, both sides of the EPS switch) ; 0 < x + nu ;
   on the image the argument of the root is positive; backward lands in the domain ---- *)
Theorem C01_boxcox2_invertible :
  (forall nu lam x, 0 < x + nu -> bc2_bwd nu lam (bc2_fwd nu lam x) = x) /\
  (forall nu lam y, (EPS < Rabs lam -> 0 < lam * y + 1) ->
     bc2_fwd nu lam (bc2_bwd nu lam y) = y) /\
  (forall nu lam y, 0 < bc2_bwd nu lam y + nu).
Proof. exact (conj bc2_bwd_fwd (conj bc2_fwd_bwd bc2_bwd_in_domain)). Qed.
Print Assumptions C01_boxcox2_invertible.

(* ---- BoxCox1lam / BoxCox1nu : the inner BoxCox2 is re-synchronised (its values
   clipped to its own bounds) on every call; inside the extracted bounds this
   is the identity, so the three methods are those of BoxCox2 ---- *)
Theorem C01_boxcox1lam_invertible : forall mininu minilam nu lam,
  bc1lam_params_ok mininu minilam nu lam ->
  ((forall x, bc1lam_fwd mininu minilam nu lam x = bc2_fwd nu lam x) /\
   (forall y, bc1lam_bwd mininu minilam nu lam y = bc2_bwd nu lam y) /\
   (forall x, bc1lam_jac mininu minilam nu lam x = bc2_jac mininu nu lam x)) /\
  (forall x, 0 < x + nu ->
     bc1lam_bwd mininu minilam nu lam (bc1lam_fwd mininu minilam nu lam x) = x) /\
  (forall y, (EPS < Rabs lam -> 0 < lam * y + 1) ->
     bc1lam_fwd mininu minilam nu lam (bc1lam_bwd mininu minilam nu lam y) = y).
Proof.
  intros mininu minilam nu lam H.
  exact (conj (bc1lam_is_bc2 _ _ _ _ H)
          (conj (fun x => bc1lam_bwd_fwd _ _ _ _ x H) (fun y => bc1lam_fwd_bwd _ _ _ _ y H))).
Qed.
Print Assumptions C01_boxcox1lam_invertible.

Theorem C01_boxcox1nu_invertible : forall mininu minilam nu lam,
  bc1nu_params_ok mininu minilam nu lam ->
  ((forall x, bc1nu_fwd mininu minilam nu lam x = bc2_fwd nu lam x) /\
   (forall y, bc1nu_bwd mininu minilam nu lam y = bc2_bwd nu lam y) /\
   (forall x, bc1nu_jac mininu minilam nu lam x = bc2_jac mininu nu lam x)) /\
  (forall x, 0 < x + nu ->
     bc1nu_bwd mininu minilam nu lam (bc1nu_fwd mininu minilam nu lam x) = x) /\
  (forall y, (EPS < Rabs lam -> 0 < lam * y + 1) ->
     bc1nu_fwd mininu minilam nu lam (bc1nu_bwd mininu minilam nu lam y) = y).
Proof.
  intros mininu minilam nu lam H.
  exact (conj (bc1nu_is_bc2 _ _ _ _ H)
          (conj (fun x => bc1nu_bwd_fwd _ _ _ _ x H) (fun y => bc1nu_fwd_bwd _ _ _ _ y H))).
Qed.
Print Assumptions C01_boxcox1nu_invertible.

(* ---- BoxCox2sym : ALL real x (through 0), 0 < nu ---- *)
Theorem C01_boxcox2sym_invertible : forall mininu minilam nu lam,
  bc2sym_params_ok mininu minilam nu lam -> 0 < nu ->
  (forall x, bc2sym_bwd mininu minilam nu lam (bc2sym_fwd mininu minilam nu lam x) = x) /\
  (forall y, (EPS < Rabs lam -> 0 < lam * (Rabs y + bc2_fwd nu lam 0) + 1) ->
     bc2sym_fwd mininu minilam nu lam (bc2sym_bwd mininu minilam nu lam y) = y).
Proof.
  intros mininu minilam nu lam H Hnu.
  exact (conj (fun x => bc2sym_bwd_fwd _ _ _ _ x H Hnu) (fun y => bc2sym_fwd_bwd _ _ _ _ y H Hnu)).
Qed.
Print Assumptions C01_boxcox2sym_invertible.

(* ---- YeoJohnson : every lam (the lam = 0 and lam = 2 branches included).
   Forward switches on w = nu + scale*x >= EPS, backward on y >= EPS: exact
   invertibility needs both to take the same side (it is FALSE in a band of
   relative width ~1e-10 above w = EPS when lam < 1; DESIGN 5/C01 G); the
   hypothesis is PROVED for every w <= 0 and every w >= 2 EPS (the latter uses
   the extracted bound lam >= -1), so the round trip is exact outside the band
   0 < w < 2 EPS (last conjunct). ---- *)
Theorem C01_yeojohnson_invertible :
  (forall nu scale lam x, yj_params_ok nu scale lam -> yj_same_side lam (yj_w nu scale x) ->
     yj_bwd nu scale lam (yj_fwd nu scale lam x) = x) /\
  (forall nu scale lam y, yj_params_ok nu scale lam -> yj_same_side_bwd lam y -> yj_image lam y ->
     yj_fwd nu scale lam (yj_bwd nu scale lam y) = y) /\
  (forall lam w, w <= 0 -> yj_same_side lam w) /\
  (forall lam w, -1 <= lam -> 2 * EPS <= w -> yj_same_side lam w) /\
  (* hence: exact for every x whose w lies outside the band 0 < w < 2 EPS *)
  (forall nu scale lam x, yj_params_ok nu scale lam ->
     (yj_w nu scale x <= 0 \/ 2 * EPS <= yj_w nu scale x) ->
     yj_bwd nu scale lam (yj_fwd nu scale lam x) = x).
Proof.
  exact (conj yj_bwd_fwd (conj yj_fwd_bwd (conj yj_same_side_nonpos
          (conj yj_same_side_pos yj_bwd_fwd_outside_band)))).
Qed.
Print Assumptions C01_yeojohnson_invertible.

(* ---- LogSinh : domain = the np.where guard  x/xmax > -a/b + EPS ---- *)
Theorem C01_logsinh_invertible :
  (forall loga logb xmax x, logsinh_params_ok loga logb xmax ->
     logsinh_guard loga logb xmax x = true ->
     exists y, logsinh_fwd loga logb xmax x = Some y /\ logsinh_bwd loga logb xmax y = x) /\
  (forall loga logb xmax y, logsinh_params_ok loga logb xmax ->
     logsinh_guard loga logb xmax (logsinh_bwd loga logb xmax y) = true ->
     logsinh_fwd loga logb xmax (logsinh_bwd loga logb xmax y) = Some y).
Proof. exact (conj logsinh_bwd_fwd logsinh_fwd_bwd). Qed.
Print Assumptions C01_logsinh_invertible.

(* ---- Reciprocal (repaired backward guard y < 0) : domain -nu < x, image y < 0 ---- *)
Theorem C01_reciprocal_invertible :
  (forall nu x, - nu < x -> exists y, recip_fwd nu x = Some y /\ recip_bwd nu y = Some x) /\
  (forall nu y, y < 0 -> exists x, recip_bwd nu y = Some x /\ recip_fwd nu x = Some y).
Proof. exact (conj recip_bwd_fwd recip_fwd_bwd). Qed.
Print Assumptions C01_reciprocal_invertible.

(* the pinned guard `y < -mininu` returns NaN for every x >= 1/mininu - nu;
   witness inside the bounds: mininu = 1, nu = 2, x = 1/2 *)
Theorem C01_reciprocal_pinned_refuted :
  (forall mininu nu x, - nu < x -> 0 < mininu -> 1 / mininu - nu <= x ->
     exists y, recip_fwd nu x = Some y /\ recip_bwd_pinned mininu nu y = None) /\
  (exists mininu nu x, recip_params_ok mininu nu /\ - nu < x /\
     exists y, recip_fwd nu x = Some y /\ recip_bwd_pinned mininu nu y = None).
Proof. exact (conj recip_pinned_loses recip_pinned_refuted). Qed.
Print Assumptions C01_reciprocal_pinned_refuted.

(* ---- Softmax : 2-D arrays, rows of positive entries with sum <= 1 - EPS ---- *)
Theorem C01_softmax_invertible :
  (forall xs, softmax_dom xs -> exists ys, softmax_fwd xs = Some ys /\ softmax_bwd ys = xs) /\
  (forall ys, Forall (fun y => rsum (softmax_bwd_row y) <= 1 - EPS) ys ->
     softmax_fwd (softmax_bwd ys) = Some ys) /\
  (forall y, softmax_fwd_row (softmax_bwd_row y) = y) /\
  (forall y, row_pos (softmax_bwd_row y) /\ rsum (softmax_bwd_row y) < 1).
Proof.
  exact (conj softmax_bwd_fwd (conj softmax_fwd_bwd (conj softmax_fwd_bwd_row
          (fun y => conj (softmax_bwd_row_pos y) (softmax_bwd_row_sum y))))).
Qed.
Print Assumptions C01_softmax_invertible.

(* ---- Sinh : all reals, scale >= its extracted minimum (> 0) ---- *)
Theorem C01_sinh_invertible :
  (forall nu scale x, sinh_params_ok nu scale -> sinh_bwd nu scale (sinh_fwd nu scale x) = x) /\
  (forall nu scale y, sinh_params_ok nu scale -> sinh_fwd nu scale (sinh_bwd nu scale y) = y).
Proof. exact (conj sinh_bwd_fwd sinh_fwd_bwd). Qed.
Print Assumptions C01_sinh_invertible.

(* ---- Manly (repaired: branch test abs(lam) > EPS) : every lam, lam = 0 included ---- *)
Theorem C01_manly_invertible :
  (forall lam xmax x, manly_params_ok lam xmax -> manly_bwd lam xmax (manly_fwd lam xmax x) = x) /\
  (forall lam xmax y, manly_params_ok lam xmax -> (EPS < Rabs lam -> 0 < 1 + lam * y) ->
     manly_fwd lam xmax (manly_bwd lam xmax y) = y).
Proof. exact (conj manly_bwd_fwd manly_fwd_bwd). Qed.
Print Assumptions C01_manly_invertible.

(* pinned code (branch test abs(lam - EPS) > 0): an exception at lam = EPS, NaN at lam = 0 *)
Theorem C01_manly_pinned_refuted :
  (exists lam xmax x, manly_params_ok lam xmax /\ manly_fwd_pinned lam xmax x = None) /\
  (exists lam xmax x, manly_params_ok lam xmax /\
     manly_fwd_pinned lam xmax x = None /\ manly_bwd_pinned lam xmax x = None).
Proof. exact (conj manly_pinned_refuted_eps manly_pinned_refuted_zero). Qed.
Print Assumptions C01_manly_pinned_refuted.

(* ---- backward_censored of the base class, for any transform whose forward is
   increasing and whose backward inverts it: max(x, censor); with a censor value
   outside the domain (forward gives NaN): plain backward floored at censor ---- *)
Theorem C01_backward_censored : forall (fwd bwd : R -> option R),
  ((forall x y, fwd x = Some y -> bwd y = Some x) ->
   (forall x1 x2 y1 y2, fwd x1 = Some y1 -> fwd x2 = Some y2 -> x1 <= x2 -> y1 <= y2) ->
   forall censor tc x y, fwd censor = Some tc -> fwd x = Some y ->
   backward_censored fwd bwd censor y = Some (Rmax x censor)) /\
  (forall censor y, fwd censor = None ->
   backward_censored fwd bwd censor y = omax (bwd y) censor).
Proof.
  intros fwd bwd.
  exact (conj (backward_censored_spec fwd bwd) (backward_censored_nan fwd bwd)).
Qed.
Print Assumptions C01_backward_censored.

(* ---- non-vacuity: every hypothesis above is met by a concrete instance at a
   branch value of the parameters (one conjunct per class, in the order above) ---- *)
Example C01_nonvacuous :
  (* Logit *) (logit_params_ok 0 0 /\ 0 < 1 / 2 < 0 + exp 0) /\
  (* Log: base 10, natural log *)
  (log_base_ok (Some 10) /\ log_base_ok None /\ log_params_ok EPS EPS /\ 0 < 1 + EPS) /\
  (* BoxCox2: lam = 0, lam = EPS (log branch), lam = 2 EPS (power branch) *)
  (bc2_params_ok EPS 0 EPS 0 /\ bc2_params_ok EPS 0 EPS EPS /\ bc2_params_ok EPS 0 EPS (2 * EPS) /\
   0 < 1 + EPS /\ Rltb EPS (Rabs 0) = false /\ Rltb EPS (Rabs EPS) = false /\
   Rltb EPS (Rabs (2 * EPS)) = true) /\
  ((EPS < Rabs 1 -> 0 < 1 * 1 + 1) /\ (EPS < Rabs 0 -> 0 < 0 * 1 + 1)) /\
  (* BoxCox1lam, BoxCox1nu, BoxCox2sym at lam = 0 *)
  (bc1lam_params_ok EPS 0 1 0 /\ bc1nu_params_ok EPS 0 1 0 /\ bc2sym_params_ok EPS 0 1 0 /\
   0 < 1 + 1 /\ (0 : R) < 1) /\
  (EPS < Rabs 0 -> 0 < 0 * (Rabs (-3) + bc2_fwd 1 0 0) + 1) /\
  (* YeoJohnson: lam = 2 at w = -1, lam = 0 at w = 0, lam = 1 at w = 1, image at lam = 2 *)
  (yj_params_ok 0 1 2 /\ yj_same_side 2 (yj_w 0 1 (-1)) /\ isclose 2 2 = true /\
   yj_params_ok 0 1 0 /\ yj_same_side 0 (yj_w 0 1 0) /\ isclose 0 0 = true) /\
  (yj_same_side 1 (yj_w 0 1 1) /\ isclose 1 0 = false) /\
  (yj_image 2 (-1) /\ yj_same_side_bwd 2 (-1)) /\
  (yj_params_ok 0 1 (1/2) /\ 2 * EPS <= yj_w 0 1 1) /\
  (* LogSinh *) (logsinh_params_ok (-1) 0 1 /\ logsinh_guard (-1) 0 1 1 = true) /\
  (* Softmax *) softmax_dom [[1/4; 1/4]; [1/2]] /\
  (* Sinh *) sinh_params_ok 0 1 /\
  (* Manly: lam = 0 (identity branch), lam = 1 (exponential branch) *)
  (manly_params_ok 0 2 /\ manly_params_ok 1 2 /\ Rltb EPS (Rabs 0) = false /\
   Rltb EPS (Rabs 1) = true /\ (EPS < Rabs 1 -> 0 < 1 + 1 * 1)).
Proof.
  exact (conj ex_logit (conj ex_log (conj ex_bc2 (conj ex_bc2_image (conj ex_bc1
        (conj ex_bc2sym_image (conj ex_yj (conj ex_yj_pos (conj ex_yj_image (conj ex_yj_band (conj ex_logsinh
        (conj ex_softmax (conj ex_sinh ex_manly))))))))))))).
Qed.
Print Assumptions C01_nonvacuous.
