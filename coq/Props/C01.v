(* C01 - every data transform is invertible on its domain.
   Statements only; every proof is `exact <lemma of Proofs/TransformProofs.v>`.
   All theorems are over the real numbers, for ALL parameter values inside the
   bounds re-extracted from transform.py (Gen/ConstsC01.v) - including the exact
   branch values lam = 0, |lam| = EPS, lam = 2 - all constructor options and all
   points of the stated domain.  The floating-point clause ("to 1e-6") is
   tested on the implementation, not proved. *)
From Coq Require Import Reals List Bool.
From Coquelicot Require Import Rbar.
From Hy Require Import Base.Num Gen.ConstsC01 Model.Transform Proofs.TransformProofs.
Import ListNotations.
Open Scope R_scope.

(* ---- Identity ---- *)
Theorem C01_identity_bwd_fwd : forall x, id_bwd (id_fwd x) = x.
Proof. exact id_bwd_fwd. Qed.
Print Assumptions C01_identity_bwd_fwd.
Theorem C01_identity_fwd_bwd : forall y, id_fwd (id_bwd y) = y.
Proof. exact id_fwd_bwd. Qed.
Print Assumptions C01_identity_fwd_bwd.

(* ---- Logit : domain lower < x < lower + exp logdelta ; image = all reals ---- *)
Theorem C01_logit_bwd_fwd : forall lower logdelta x,
  lower < x < lower + exp logdelta ->
  logit_bwd lower logdelta (logit_fwd lower logdelta x) = x.
Proof. exact logit_bwd_fwd. Qed.
Print Assumptions C01_logit_bwd_fwd.
Theorem C01_logit_fwd_bwd : forall lower logdelta y,
  logit_fwd lower logdelta (logit_bwd lower logdelta y) = y.
Proof. exact logit_fwd_bwd. Qed.
Print Assumptions C01_logit_fwd_bwd.
Theorem C01_logit_bwd_range : forall lower logdelta y,
  lower < logit_bwd lower logdelta y < lower + exp logdelta.
Proof. exact logit_bwd_range. Qed.
Print Assumptions C01_logit_bwd_range.
Example C01_logit_nonvacuous : logit_params_ok 0 0 /\ 0 < 1 / 2 < 0 + exp 0.
Proof. exact ex_logit. Qed.
Print Assumptions C01_logit_nonvacuous.

(* ---- Log : any base > 0, <> 1 (or natural log) ; domain 0 < x + nu ---- *)
Theorem C01_log_bwd_fwd : forall base nu x,
  log_base_ok base -> 0 < x + nu ->
  log_bwd (log_basefactor base) nu (log_fwd (log_basefactor base) nu x) = x.
Proof. exact log_bwd_fwd. Qed.
Print Assumptions C01_log_bwd_fwd.
Theorem C01_log_fwd_bwd : forall base nu y,
  log_base_ok base ->
  log_fwd (log_basefactor base) nu (log_bwd (log_basefactor base) nu y) = y.
Proof. exact log_fwd_bwd. Qed.
Print Assumptions C01_log_fwd_bwd.
Example C01_log_nonvacuous :
  log_base_ok (Some 10) /\ log_base_ok None /\ log_params_ok EPS EPS /\ 0 < 1 + EPS.
Proof. exact ex_log. Qed.
Print Assumptions C01_log_nonvacuous.

(* ---- BoxCox2 : every lam (both sides of the EPS switch, lam = 0) ; 0 < x + nu ---- *)
Theorem C01_boxcox2_bwd_fwd : forall nu lam x,
  0 < x + nu -> bc2_bwd nu lam (bc2_fwd nu lam x) = x.
Proof. exact bc2_bwd_fwd. Qed.
Print Assumptions C01_boxcox2_bwd_fwd.
Theorem C01_boxcox2_fwd_bwd : forall nu lam y,
  (EPS < Rabs lam -> 0 < lam * y + 1) ->
  bc2_fwd nu lam (bc2_bwd nu lam y) = y.
Proof. exact bc2_fwd_bwd. Qed.
Print Assumptions C01_boxcox2_fwd_bwd.
Example C01_boxcox2_nonvacuous :
  bc2_params_ok EPS 0 EPS 0 /\ bc2_params_ok EPS 0 EPS EPS /\ bc2_params_ok EPS 0 EPS (2 * EPS) /\
  0 < 1 + EPS /\ Rltb EPS (Rabs 0) = false /\ Rltb EPS (Rabs EPS) = false /\
  Rltb EPS (Rabs (2 * EPS)) = true.
Proof. exact ex_bc2. Qed.
Print Assumptions C01_boxcox2_nonvacuous.
Example C01_boxcox2_image_nonvacuous :
  (EPS < Rabs 1 -> 0 < 1 * 1 + 1) /\ (EPS < Rabs 0 -> 0 < 0 * 1 + 1).
Proof. exact ex_bc2_image. Qed.
Print Assumptions C01_boxcox2_image_nonvacuous.

(* ---- BoxCox1lam / BoxCox1nu : the inner BoxCox2 is re-synchronised (clipped to its
   own bounds) on every call; inside the extracted bounds this is the identity ---- *)
Theorem C01_boxcox1lam_delegates : forall mininu minilam nu lam,
  bc1lam_params_ok mininu minilam nu lam ->
  (forall x, bc1lam_fwd mininu minilam nu lam x = bc2_fwd nu lam x) /\
  (forall y, bc1lam_bwd mininu minilam nu lam y = bc2_bwd nu lam y) /\
  (forall x, bc1lam_jac mininu minilam nu lam x = bc2_jac mininu nu lam x).
Proof. exact bc1lam_is_bc2. Qed.
Print Assumptions C01_boxcox1lam_delegates.
Theorem C01_boxcox1lam_bwd_fwd : forall mininu minilam nu lam x,
  bc1lam_params_ok mininu minilam nu lam -> 0 < x + nu ->
  bc1lam_bwd mininu minilam nu lam (bc1lam_fwd mininu minilam nu lam x) = x.
Proof. exact bc1lam_bwd_fwd. Qed.
Print Assumptions C01_boxcox1lam_bwd_fwd.
Theorem C01_boxcox1lam_fwd_bwd : forall mininu minilam nu lam y,
  bc1lam_params_ok mininu minilam nu lam -> (EPS < Rabs lam -> 0 < lam * y + 1) ->
  bc1lam_fwd mininu minilam nu lam (bc1lam_bwd mininu minilam nu lam y) = y.
Proof. exact bc1lam_fwd_bwd. Qed.
Print Assumptions C01_boxcox1lam_fwd_bwd.
Theorem C01_boxcox1nu_delegates : forall mininu minilam nu lam,
  bc1nu_params_ok mininu minilam nu lam ->
  (forall x, bc1nu_fwd mininu minilam nu lam x = bc2_fwd nu lam x) /\
  (forall y, bc1nu_bwd mininu minilam nu lam y = bc2_bwd nu lam y) /\
  (forall x, bc1nu_jac mininu minilam nu lam x = bc2_jac mininu nu lam x).
Proof. exact bc1nu_is_bc2. Qed.
Print Assumptions C01_boxcox1nu_delegates.
Theorem C01_boxcox1nu_bwd_fwd : forall mininu minilam nu lam x,
  bc1nu_params_ok mininu minilam nu lam -> 0 < x + nu ->
  bc1nu_bwd mininu minilam nu lam (bc1nu_fwd mininu minilam nu lam x) = x.
Proof. exact bc1nu_bwd_fwd. Qed.
Print Assumptions C01_boxcox1nu_bwd_fwd.
Theorem C01_boxcox1nu_fwd_bwd : forall mininu minilam nu lam y,
  bc1nu_params_ok mininu minilam nu lam -> (EPS < Rabs lam -> 0 < lam * y + 1) ->
  bc1nu_fwd mininu minilam nu lam (bc1nu_bwd mininu minilam nu lam y) = y.
Proof. exact bc1nu_fwd_bwd. Qed.
Print Assumptions C01_boxcox1nu_fwd_bwd.

(* ---- BoxCox2sym : ALL real x (through 0), 0 < nu ---- *)
Theorem C01_boxcox2sym_bwd_fwd : forall mininu minilam nu lam x,
  bc2sym_params_ok mininu minilam nu lam -> 0 < nu ->
  bc2sym_bwd mininu minilam nu lam (bc2sym_fwd mininu minilam nu lam x) = x.
Proof. exact bc2sym_bwd_fwd. Qed.
Print Assumptions C01_boxcox2sym_bwd_fwd.
Theorem C01_boxcox2sym_fwd_bwd : forall mininu minilam nu lam y,
  bc2sym_params_ok mininu minilam nu lam -> 0 < nu ->
  (EPS < Rabs lam -> 0 < lam * (Rabs y + bc2_fwd nu lam 0) + 1) ->
  bc2sym_fwd mininu minilam nu lam (bc2sym_bwd mininu minilam nu lam y) = y.
Proof. exact bc2sym_fwd_bwd. Qed.
Print Assumptions C01_boxcox2sym_fwd_bwd.
Example C01_boxcox1_nonvacuous :
  bc1lam_params_ok EPS 0 1 0 /\ bc1nu_params_ok EPS 0 1 0 /\ bc2sym_params_ok EPS 0 1 0 /\
  0 < 1 + 1 /\ (0 : R) < 1.
Proof. exact ex_bc1. Qed.
Print Assumptions C01_boxcox1_nonvacuous.
Example C01_boxcox2sym_image_nonvacuous :
  EPS < Rabs 0 -> 0 < 0 * (Rabs (-3) + bc2_fwd 1 0 0) + 1.
Proof. exact ex_bc2sym_image. Qed.
Print Assumptions C01_boxcox2sym_image_nonvacuous.

(* ---- YeoJohnson : every lam (lam = 0 and lam = 2 branches included).
   Forward switches on w = nu + scale*x >= EPS, backward on y >= EPS: exact
   invertibility needs both to take the same side (it is FALSE in a band of
   relative width ~1e-10 above w = EPS when lam < 1; DESIGN 5/C01 G); the
   hypothesis holds for every w <= 0. ---- *)
Theorem C01_yeojohnson_bwd_fwd : forall nu scale lam x,
  yj_params_ok nu scale lam -> yj_same_side lam (yj_w nu scale x) ->
  yj_bwd nu scale lam (yj_fwd nu scale lam x) = x.
Proof. exact yj_bwd_fwd. Qed.
Print Assumptions C01_yeojohnson_bwd_fwd.
Theorem C01_yeojohnson_fwd_bwd : forall nu scale lam y,
  yj_params_ok nu scale lam -> yj_same_side_bwd lam y -> yj_image lam y ->
  yj_fwd nu scale lam (yj_bwd nu scale lam y) = y.
Proof. exact yj_fwd_bwd. Qed.
Print Assumptions C01_yeojohnson_fwd_bwd.
Theorem C01_yeojohnson_same_side_nonpos : forall lam w, w <= 0 -> yj_same_side lam w.
Proof. exact yj_same_side_nonpos. Qed.
Print Assumptions C01_yeojohnson_same_side_nonpos.
Example C01_yeojohnson_nonvacuous :
  yj_params_ok 0 1 2 /\ yj_same_side 2 (yj_w 0 1 (-1)) /\ isclose 2 2 = true /\
  yj_params_ok 0 1 0 /\ yj_same_side 0 (yj_w 0 1 0) /\ isclose 0 0 = true.
Proof. exact ex_yj. Qed.
Print Assumptions C01_yeojohnson_nonvacuous.
Example C01_yeojohnson_pos_nonvacuous : yj_same_side 1 (yj_w 0 1 1) /\ isclose 1 0 = false.
Proof. exact ex_yj_pos. Qed.
Print Assumptions C01_yeojohnson_pos_nonvacuous.
Example C01_yeojohnson_image_nonvacuous : yj_image 2 (-1) /\ yj_same_side_bwd 2 (-1).
Proof. exact ex_yj_image. Qed.
Print Assumptions C01_yeojohnson_image_nonvacuous.

(* ---- LogSinh : domain = the np.where guard  x/xmax > -a/b + EPS ---- *)
Theorem C01_logsinh_bwd_fwd : forall loga logb xmax x,
  logsinh_params_ok loga logb xmax ->
  logsinh_guard loga logb xmax x = true ->
  exists y, logsinh_fwd loga logb xmax x = Some y /\ logsinh_bwd loga logb xmax y = x.
Proof. exact logsinh_bwd_fwd. Qed.
Print Assumptions C01_logsinh_bwd_fwd.
Theorem C01_logsinh_fwd_bwd : forall loga logb xmax y,
  logsinh_params_ok loga logb xmax ->
  logsinh_guard loga logb xmax (logsinh_bwd loga logb xmax y) = true ->
  logsinh_fwd loga logb xmax (logsinh_bwd loga logb xmax y) = Some y.
Proof. exact logsinh_fwd_bwd. Qed.
Print Assumptions C01_logsinh_fwd_bwd.
Example C01_logsinh_nonvacuous :
  logsinh_params_ok (-1) 0 1 /\ logsinh_guard (-1) 0 1 1 = true.
Proof. exact ex_logsinh. Qed.
Print Assumptions C01_logsinh_nonvacuous.

(* ---- Reciprocal (repaired backward guard y < 0) : domain -nu < x, image y < 0 ---- *)
Theorem C01_reciprocal_bwd_fwd : forall nu x,
  - nu < x -> exists y, recip_fwd nu x = Some y /\ recip_bwd nu y = Some x.
Proof. exact recip_bwd_fwd. Qed.
Print Assumptions C01_reciprocal_bwd_fwd.
Theorem C01_reciprocal_fwd_bwd : forall nu y,
  y < 0 -> exists x, recip_bwd nu y = Some x /\ recip_fwd nu x = Some y.
Proof. exact recip_fwd_bwd. Qed.
Print Assumptions C01_reciprocal_fwd_bwd.
(* the pinned guard `y < -mininu` returns NaN for every x >= 1/mininu - nu *)
Theorem C01_reciprocal_pinned_loses : forall mininu nu x,
  - nu < x -> 0 < mininu -> 1 / mininu - nu <= x ->
  exists y, recip_fwd nu x = Some y /\ recip_bwd_pinned mininu nu y = None.
Proof. exact recip_pinned_loses. Qed.
Print Assumptions C01_reciprocal_pinned_loses.
Theorem C01_reciprocal_pinned_refuted :
  exists mininu nu x, recip_params_ok mininu nu /\ - nu < x /\
    exists y, recip_fwd nu x = Some y /\ recip_bwd_pinned mininu nu y = None.
Proof. exact recip_pinned_refuted. Qed.
Print Assumptions C01_reciprocal_pinned_refuted.

(* ---- Softmax : 2-D arrays, rows of positive entries with sum <= 1 - EPS ---- *)
Theorem C01_softmax_bwd_fwd : forall xs,
  softmax_dom xs -> exists ys, softmax_fwd xs = Some ys /\ softmax_bwd ys = xs.
Proof. exact softmax_bwd_fwd. Qed.
Print Assumptions C01_softmax_bwd_fwd.
Theorem C01_softmax_fwd_bwd : forall ys,
  Forall (fun y => rsum (softmax_bwd_row y) <= 1 - EPS) ys ->
  softmax_fwd (softmax_bwd ys) = Some ys.
Proof. exact softmax_fwd_bwd. Qed.
Print Assumptions C01_softmax_fwd_bwd.
Theorem C01_softmax_fwd_bwd_row : forall y, softmax_fwd_row (softmax_bwd_row y) = y.
Proof. exact softmax_fwd_bwd_row. Qed.
Print Assumptions C01_softmax_fwd_bwd_row.
Theorem C01_softmax_bwd_row_in_simplex : forall y,
  row_pos (softmax_bwd_row y) /\ rsum (softmax_bwd_row y) < 1.
Proof. intros y; exact (conj (softmax_bwd_row_pos y) (softmax_bwd_row_sum y)). Qed.
Print Assumptions C01_softmax_bwd_row_in_simplex.
Example C01_softmax_nonvacuous : softmax_dom [[1/4; 1/4]; [1/2]].
Proof. exact ex_softmax. Qed.
Print Assumptions C01_softmax_nonvacuous.

(* ---- Sinh : all reals, scale >= its extracted minimum (> 0) ---- *)
Theorem C01_sinh_bwd_fwd : forall nu scale x,
  sinh_params_ok nu scale -> sinh_bwd nu scale (sinh_fwd nu scale x) = x.
Proof. exact sinh_bwd_fwd. Qed.
Print Assumptions C01_sinh_bwd_fwd.
Theorem C01_sinh_fwd_bwd : forall nu scale y,
  sinh_params_ok nu scale -> sinh_fwd nu scale (sinh_bwd nu scale y) = y.
Proof. exact sinh_fwd_bwd. Qed.
Print Assumptions C01_sinh_fwd_bwd.
Example C01_sinh_nonvacuous : sinh_params_ok 0 1.
Proof. exact ex_sinh. Qed.
Print Assumptions C01_sinh_nonvacuous.

(* ---- Manly (repaired: branch test abs(lam) > EPS) : every lam, lam = 0 included ---- *)
Theorem C01_manly_bwd_fwd : forall lam xmax x,
  manly_params_ok lam xmax -> manly_bwd lam xmax (manly_fwd lam xmax x) = x.
Proof. exact manly_bwd_fwd. Qed.
Print Assumptions C01_manly_bwd_fwd.
Theorem C01_manly_fwd_bwd : forall lam xmax y,
  manly_params_ok lam xmax -> (EPS < Rabs lam -> 0 < 1 + lam * y) ->
  manly_fwd lam xmax (manly_bwd lam xmax y) = y.
Proof. exact manly_fwd_bwd. Qed.
Print Assumptions C01_manly_fwd_bwd.
Example C01_manly_nonvacuous :
  manly_params_ok 0 2 /\ manly_params_ok 1 2 /\ Rltb EPS (Rabs 0) = false /\
  Rltb EPS (Rabs 1) = true /\ (EPS < Rabs 1 -> 0 < 1 + 1 * 1).
Proof. exact ex_manly. Qed.
Print Assumptions C01_manly_nonvacuous.
(* pinned code (branch test abs(lam - EPS) > 0): an exception at lam = EPS, NaN at lam = 0 *)
Theorem C01_manly_pinned_refuted_at_eps :
  exists lam xmax x, manly_params_ok lam xmax /\ manly_fwd_pinned lam xmax x = None.
Proof. exact manly_pinned_refuted_eps. Qed.
Print Assumptions C01_manly_pinned_refuted_at_eps.
Theorem C01_manly_pinned_refuted_at_zero :
  exists lam xmax x, manly_params_ok lam xmax /\
    manly_fwd_pinned lam xmax x = None /\ manly_bwd_pinned lam xmax x = None.
Proof. exact manly_pinned_refuted_zero. Qed.
Print Assumptions C01_manly_pinned_refuted_at_zero.

(* ---- backward_censored of the base class, for any transform whose forward is
   increasing and whose backward inverts it ---- *)
Theorem C01_backward_censored : forall (fwd bwd : R -> option R),
  (forall x y, fwd x = Some y -> bwd y = Some x) ->
  (forall x1 x2 y1 y2, fwd x1 = Some y1 -> fwd x2 = Some y2 -> x1 <= x2 -> y1 <= y2) ->
  forall censor tc x y, fwd censor = Some tc -> fwd x = Some y ->
  backward_censored fwd bwd censor y = Some (Rmax x censor).
Proof. exact backward_censored_spec. Qed.
Print Assumptions C01_backward_censored.
Theorem C01_backward_censored_nan : forall (fwd bwd : R -> option R) censor y,
  fwd censor = None -> backward_censored fwd bwd censor y = omax (bwd y) censor.
Proof. exact backward_censored_nan. Qed.
Print Assumptions C01_backward_censored_nan.
