(* C10 - rank- and PIT-based forecast diagnostics depend only on ranks and stay
   in range.  Statements only; every proof is `exact <lemma of Proofs/Dscore*.v>`.
   Real-number instance RR/KR of Model/Dscore.v (RN/KN = reals with an explicit
   NaN for the input checks of ADtest); constants come from Gen/ConstsC10.v. *)
From Coq Require Import PrimFloat.
From Coq Require Import ZArith Bool List Reals Permutation Sorted.
From Hy Require Import Base.Num Gen.Consts Gen.ConstsC10 Model.Dscore
  Proofs.DscoreProofs Proofs.DscoreStatProofs Proofs.DscoreRankProofs
  Proofs.DscoreExamples.
Import ListNotations.
Open Scope R_scope.


(* To keep the compilation of this file short (each Print Assumptions walks the
   whole real-number library) related statements are bundled as conjunctions;
   every conjunct is a complete statement with its own quantifiers. *)

(* ------------------------------------------------------------------ *)
(* discrimination score                                                *)
Theorem C10_dscore_range :
  (* cauchy_schwarz: Cauchy-Schwarz for lists of any lengths *)
  (forall a b : list R,
  sdot a b * sdot a b <= sdot a a * sdot b b) /\
  (* the score lies in [0,1] for every number of forecasts n >= 2, every ensemble
     size, every tie tolerance - whenever the rank correlation is defined (both
     rank vectors non-constant); numpy's clip never acts over the reals *)
  (* dscore_in_unit *)
  (forall eps obs sim,
  let oranks := map IZR (argsort_ranks RR obs) in
  let franks := forecast_ranks RR KR eps sim in
  (2 <= length obs)%nat ->
  0 < sdot (centred RR oranks) (centred RR oranks) ->
  0 < sdot (centred RR franks) (centred RR franks) ->
  0 <= dscore RR KR eps obs sim <= 1) /\
  (* dscore_of_ranks_in_unit *)
  (forall oranks franks : list R,
  (2 <= length oranks)%nat ->
  0 < sdot (centred RR oranks) (centred RR oranks) ->
  0 < sdot (centred RR franks) (centred RR franks) ->
  0 <= dscore_of_ranks RR KR oranks franks <= 1 /\
  dscore_of_ranks RR KR oranks franks = (corr_raw RR oranks franks + 1) / 2).
Proof. exact (conj cauchy_schwarz (conj dscore_in_unit dscore_of_ranks_in_unit)). Qed.
Print Assumptions C10_dscore_range.

Theorem C10_dscore_extremes :
  (* D = 1 when the forecast ranks are the observation ranks up to a shift
     (perfect ordering: the kernel's ranks start at 1, argsort's at 0);
     D = 0 when they are reversed *)
  (* dscore_perfect_order *)
  (forall oranks c,
  (2 <= length oranks)%nat -> 0 < sdot (centred RR oranks) (centred RR oranks) ->
  dscore_of_ranks RR KR oranks (map (fun v => v + c) oranks) = 1) /\
  (* dscore_inverse_order *)
  (forall oranks c,
  (2 <= length oranks)%nat -> 0 < sdot (centred RR oranks) (centred RR oranks) ->
  dscore_of_ranks RR KR oranks (map (fun v => c - v) oranks) = 0).
Proof. exact (conj dscore_of_ranks_perfect dscore_of_ranks_inverse). Qed.
Print Assumptions C10_dscore_extremes.

Theorem C10_F_is_midrank :
  (* ------------------------------------------------------------------ *)
  (* ensemble ranks: the comparison F of c_ensrank (repaired scan) equals the
     pairwise mid-rank comparison of Weigel and Mason (2011) - every ensemble
     size, every tie pattern inside and across the two ensembles, provided any
     two pooled values are equal or farther apart than both tolerances *)
  (* F_is_midrank *)
  (forall eps e1 e2,
  0 < eps -> e1 <> [] -> separated eps (e1 ++ e2) ->
  pairF RR KR eps e1 e2 = wm_sum e1 e2 / (INR (length e1) * INR (length e1))) /\
  (* sumrank_is_midrank_sum *)
  (forall eps e1 e2,
  0 < eps -> separated eps (e1 ++ e2) ->
  sumrank RR KR eps e1 e2 = wm_sum e1 e2 + INR (length e1) * (INR (length e1) + 1) / 2).
Proof. exact (conj F_is_midrank sumrank_is_midrank). Qed.
Print Assumptions C10_F_is_midrank.

Theorem C10_F_range_and_symmetry :
  (* F_in_unit *)
  (forall eps e1 e2,
  0 < eps -> e1 <> [] -> length e2 = length e1 -> separated eps (e1 ++ e2) ->
  0 <= pairF RR KR eps e1 e2 <= 1) /\
  (* F_antisym *)
  (forall eps e1 e2,
  0 < eps -> e1 <> [] -> length e2 = length e1 -> separated eps (e1 ++ e2) ->
  pairF RR KR eps e2 e1 = 1 - pairF RR KR eps e1 e2) /\
  (* completely separated ensembles: F = 1 / 0, hence u = 1 / 0 *)
  (* F_all_above *)
  (forall eps e1 e2,
  0 < eps -> e1 <> [] -> length e2 = length e1 -> separated eps (e1 ++ e2) ->
  (forall a b, In a e1 -> In b e2 -> b < a) ->
  pairF RR KR eps e1 e2 = 1 /\ pairF RR KR eps e2 e1 = 0).
Proof. exact (conj F_in_unit (conj F_antisym F_all_above)). Qed.
Print Assumptions C10_F_range_and_symmetry.

Theorem C10_F_invariances :
  (* unchanged by a strictly increasing re-scaling of all forecast values *)
  (* F_increasing_map_invariant *)
  (forall eps eps' (g : R -> R) e1 e2,
  0 < eps -> 0 < eps' -> e1 <> [] ->
  (forall x y, x < y -> g x < g y) ->
  separated eps (e1 ++ e2) -> separated eps' (map g e1 ++ map g e2) ->
  pairF RR KR eps' (map g e1) (map g e2) = pairF RR KR eps e1 e2) /\
  (* unchanged by permuting ensemble members *)
  (* F_member_permutation_invariant *)
  (forall eps e1 e1' e2 e2',
  0 < eps -> e1 <> [] -> Permutation e1 e1' -> Permutation e2 e2' ->
  separated eps (e1 ++ e2) ->
  pairF RR KR eps e1' e2' = pairF RR KR eps e1 e2).
Proof. exact (conj F_increasing_map_invariant F_member_permutation_invariant). Qed.
Print Assumptions C10_F_invariances.

(* mapping F -> u of the repaired kernel (tolerance 0.25/m^2): for EVERY ensemble
   size m >= 1, u is the sign of F - 1/2 (1 / 0 / tie value 1/2), because the
   attainable values of F are the multiples of 1/(2 m^2) *)
Theorem C10_u_of_F :
  (* u_of_F_values *)
  (forall nc F, (1 <= nc)%nat ->
  (F = 1 -> u_of_F RR KR nc F = 1) /\ (F = 0 -> u_of_F RR KR nc F = 0) /\
  (F = 1 / 2 -> u_of_F RR KR nc F = 1 / 2)) /\
  (* u_of_F_is_sign *)
  (forall eps e1 e2,
  0 < eps -> e1 <> [] -> separated eps (e1 ++ e2) ->
  let F := pairF RR KR eps e1 e2 in
  u_of_F RR KR (length e1) F = (if Rltb F (1/2) then 0 else if Rltb (1/2) F then 1 else 1/2)) /\
  (* wm_sum_half_integer *)
  (forall e1 e2, exists k : Z, 2 * wm_sum e1 e2 = IZR k).
Proof. exact (conj u_of_F_values (conj u_of_F_is_sign wm_sum_half_integer)). Qed.
Print Assumptions C10_u_of_F.

(* the pinned kernel used the fixed thresholds 1/2 -+ 1e-8: correct while
   2e-8 m^2 < 1 (m <= 7071), and wrong for m = 7072: E1 = 7071 zeros and a 1,
   E2 = 7071 zeros and a 2 have F = 1/2 - 1/(2 m^2) < 1/2, the repaired mapping
   gives u = 0 (Weigel-Mason), the pinned one the tie value 1/2 *)
Theorem C10_u_of_F_pinned_refuted :
  (* u_of_F_pinned_is_sign *)
  (forall eps e1 e2,
  0 < eps -> e1 <> [] -> separated eps (e1 ++ e2) ->
  INR (length e1) * INR (length e1) * (2 * (1 / 100000000)) < 1 ->
  let F := pairF RR KR eps e1 e2 in
  u_of_F_pinned RR KR (1 / 100000000) F =
  (if Rltb F (1/2) then 0 else if Rltb (1/2) F then 1 else 1/2)) /\
  (* u_of_F_pinned_refuted *)
  (let k := Z.to_nat 7071 in
   let F := pairF RR KR (1 / 1000000) (big_e1 k) (big_e2 k) in
   length (big_e1 k) = Z.to_nat 7072 /\ F < 1 / 2 /\
   u_of_F RR KR (length (big_e1 k)) F = 0 /\
   u_of_F_pinned RR KR (1 / 100000000) F = 1 / 2).
Proof. exact (conj u_of_F_pinned_is_sign u_of_F_pinned_refuted). Qed.
Print Assumptions C10_u_of_F_pinned_refuted.

(* ranks returned by the kernel: 1 + the increments accumulated over the pairs
   (u for the first ensemble of a pair, 1-u for the second), for every number
   of forecasts; for rows ordered like a list of distinct keys the rank is
   1 + the number of smaller keys *)
Theorem C10_ensemble_ranks :
  (* ensrank_ranks *)
  (forall eps sim fs ranks,
     ensrank RR KR eps sim = EnsOk fs ranks ->
     ranks = map (fun d => 1 + d) (delta (length (hd [] sim)) eps sim)) /\
  (* delta_ordered *)
  (forall eps m ks,
     0 < eps -> (1 <= m)%nat -> NoDup (map fst ks) -> ordered_rows eps m ks ->
     delta m eps (map snd ks) =
     map (fun a => cntR (fun b : R * list R => Rltb (fst b) (fst a)) ks) ks) /\
  (* argsort_ranks_distinct: argsort(argsort(x)) of distinct values *)
  (forall obs, NoDup obs ->
     map IZR (argsort_ranks RR obs) = map (fun x => cntR (fun y => Rltb y x) obs) obs).
Proof. exact (conj ensrank_ranks (conj delta_ordered argsort_ranks_distinct)). Qed.
Print Assumptions C10_ensemble_ranks.

(* end to end: D = 1 when the forecasts order the (distinct) observations
   perfectly - every member of the forecast of a larger observation above every
   member of the forecast of a smaller one - and D = 0 when they order them
   inversely; any number n >= 2 of forecasts, any ensemble size m >= 2 through
   the kernel, single-member forecasts through argsort *)
Theorem C10_dscore_perfect_and_inverse_order :
  (* dscore_perfect_order *)
  (forall eps obs sim m,
     0 < eps -> nltb RR eps (k_eps_min KR) = false ->
     (2 <= length obs)%nat -> length sim = length obs -> NoDup obs -> (2 <= m)%nat ->
     ordered_rows eps m (combine obs sim) ->
     dscore RR KR eps obs sim = 1) /\
  (* dscore_inverse_order *)
  (forall eps obs sim m,
     0 < eps -> nltb RR eps (k_eps_min KR) = false ->
     (2 <= length obs)%nat -> length sim = length obs -> NoDup obs -> (2 <= m)%nat ->
     ordered_rows eps m (combine (map Ropp obs) sim) ->
     dscore RR KR eps obs sim = 0) /\
  (* dscore_perfect_order_single *)
  (forall eps obs fc,
     (2 <= length obs)%nat -> length fc = length obs -> NoDup obs -> NoDup fc ->
     (forall a b, In a (combine obs fc) -> In b (combine obs fc) -> fst b < fst a -> snd b < snd a) ->
     dscore RR KR eps obs (map (fun x => [x]) fc) = 1).
Proof. exact (conj dscore_perfect_order (conj dscore_inverse_order dscore_perfect_order_single)). Qed.
Print Assumptions C10_dscore_perfect_and_inverse_order.

Example C10_ordered_rows_nonvacuous :
  (0 < 1 / 1000000 /\ nltb RR (1 / 1000000) (k_eps_min KR) = false /\
   (2 <= length [1; 2])%nat /\ length [[1; 2]; [3; 4]] = length [1; 2] /\ NoDup [1; 2] /\ (2 <= 2)%nat /\
   ordered_rows (1 / 1000000) 2 (combine [1; 2] [[1; 2]; [3; 4]]) /\
   ordered_rows (1 / 1000000) 2 (combine (map Ropp [1; 2]) [[3; 4]; [1; 2]])) /\
  ((2 <= length [1; 3; 2])%nat /\ length [10; 30; 20] = length [1; 3; 2] /\
   NoDup [1; 3; 2] /\ NoDup [10; 30; 20] /\
   (forall a b, In a (combine [1; 3; 2] [10; 30; 20]) -> In b (combine [1; 3; 2] [10; 30; 20]) ->
                fst b < fst a -> snd b < snd a)).
Proof. exact (conj ordered_rows_example single_member_example). Qed.
Print Assumptions C10_ordered_rows_nonvacuous.

Theorem C10_pit_random :
  (* ------------------------------------------------------------------ *)
  (* PIT                                                                 *)
  
  (* random=True: (count + 1/2 - cst)/(1 - cst + m), cst capped at 1/2 *)
  (* pit_random_in_unit *)
  (forall cst o dob e de,
  0 <= pit_random RR KR cst o dob e de <= 1) /\
  (* pit_count_formula_in_unit *)
  (forall c m k,
  c <= 1/2 -> (0 <= k <= m)%Z -> 0 <= pit_of_count RR KR c m k <= 1) /\
  (* pit_count_formula_strict_mono *)
  (forall c m k1 k2,
  c <= 1/2 -> (0 <= m)%Z -> (k1 < k2)%Z ->
  pit_of_count RR KR c m k1 < pit_of_count RR KR c m k2) /\
  (* pit_cst_capped *)
  (forall cst,
  pit_cst RR KR cst <= 1/2 /\ (cst <= 1/2 -> pit_cst RR KR cst = cst)) /\
  (* the jitter does not change the count when members are farther than 2 EPS
     from the observation: the count is the number of members below it *)
  (* pit_count_ignores_jitter *)
  (forall o dob e de,
  length de = length e ->
  Rabs dob <= k_eps KR ->
  Forall (fun d => Rabs d <= k_eps KR) de ->
  Forall (fun x => 2 * k_eps KR < Rabs (x - o)) e ->
  pit_count RR o dob e de = countb (fun x => Rltb x o) e).
Proof. exact (conj pit_random_in_unit (conj pit_of_count_in_unit (conj pit_of_count_strict_mono (conj pit_cst_le_half pit_count_ignores_jitter)))). Qed.
Print Assumptions C10_pit_random.

Theorem C10_pit_rank :
  (* random=False: scipy's rank formula lies in [0,1]; the clip of the repaired
     code never acts over the reals *)
  (* pit_rank_in_unit *)
  (forall o e,
  e <> [] ->
  0 <= pit_rank RR KR o e <= 1 /\ pit_rank RR KR o e = pit_rank_noclip RR KR o e) /\
  (* pit_rank_no_tie *)
  (forall o e,
  e <> [] -> Forall (fun x => x <> o) e ->
  pit_rank RR KR o e = IZR (countb (fun x => Rltb x o) e) / IZR (Z.of_nat (length e))) /\
  (* pit_rank_strict_mono *)
  (forall o1 e1 o2 e2,
  e1 <> [] -> length e1 = length e2 ->
  Forall (fun x => x <> o1) e1 -> Forall (fun x => x <> o2) e2 ->
  (countb (fun x => Rltb x o1) e1 < countb (fun x => Rltb x o2) e2)%Z ->
  pit_rank RR KR o1 e1 < pit_rank RR KR o2 e2) /\
  (* every value returned by pit (both options, any cst, any censor) *)
  (* pit_values_in_unit *)
  (forall random cst censor obs ens dobs dens pits sudo,
  Forall (fun e => e <> []) ens ->
  pit RR KR random cst censor obs ens dobs dens = PitOk pits sudo ->
  Forall (fun p => 0 <= p <= 1) pits).
Proof. exact (conj pit_rank_in_unit (conj pit_rank_no_tie (conj pit_rank_strict_mono pit_values_in_unit))). Qed.
Print Assumptions C10_pit_rank.

(* pseudo flag *)
Theorem C10_pseudo_flag_iff :
  forall censor o e,
  is_sudo RR KR censor o e = true <->
  o < censor + k_eps KR /\ exists x, In x e /\ x < censor + k_eps KR.
Proof. exact is_sudo_iff. Qed.
Print Assumptions C10_pseudo_flag_iff.

Theorem C10_cvm_statistic :
  (* ------------------------------------------------------------------ *)
  (* Cramer-von Mises                                                    *)
  (* cvm_stat_textbook *)
  (forall data s,
  data <> [] -> Permutation s data -> StronglySorted Rle s ->
  cvm_stat RR KR data = cvm_textbook s) /\
  (* cvm_stat_perm_invariant *)
  (forall data data',
  Permutation data data' -> cvm_stat RR KR data = cvm_stat RR KR data').
Proof. exact (conj cvm_stat_textbook cvm_stat_perm_invariant). Qed.
Print Assumptions C10_cvm_statistic.

Theorem C10_cvm_pvalue :
  (* linear interpolation with clamping stays within the bounds of the table *)
  (* interp_in_range *)
  (forall lo hi x xs ys,
  length xs = length ys -> ys <> [] ->
  Forall (fun y => lo <= y <= hi) ys ->
  StronglySorted Rlt xs ->
  lo <= interp RR x xs ys <= hi) /\
  (* cvm_pvalue_in_unit *)
  (forall nsample qq cols n stat,
  StronglySorted Rlt qq -> qq <> [] ->
  Forall (fun c => length c = length qq /\ Forall (fun y => 0 <= y <= 1) c) cols ->
  (closest_col n nsample < length cols)%nat ->
  0 <= cvm_pvalue RR nsample qq cols n stat <= 1) /\
  (* the shipped table (binary64 entries re-read from the zip on every run):
     abscissae strictly increasing, one column per sample size, every entry in
     [0,1] - evaluated by vm_compute *)
  (* cvm_table_checked *)
  (cvm_table_ok = true) /\
  (* closest_col_in_table *)
  (forall n nsample,
  nsample <> [] -> (closest_col n nsample < length nsample)%nat).
Proof. exact (conj interp_in_range (conj cvm_pvalue_in_unit (conj cvm_table_checked closest_col_bound))). Qed.
Print Assumptions C10_cvm_pvalue.

Theorem C10_ad_statistic :
  (* ------------------------------------------------------------------ *)
  (* Anderson-Darling                                                    *)
  (* ad_stat_textbook *)
  (forall data s,
  data <> [] -> Forall (fun x => 0 < x < 1) data ->
  Permutation s data -> StronglySorted Rle s ->
  ad_stat data = ad_textbook s) /\
  (* ad_stat_perm_invariant *)
  (forall data data',
  Permutation data data' -> ad_stat data = ad_stat data').
Proof. exact (conj ad_stat_textbook ad_stat_perm_invariant). Qed.
Print Assumptions C10_ad_statistic.

Theorem C10_adtest_input_checks :
  (* ADtest accepts exactly arrays of numbers in [0,1] in non-decreasing order *)
  (* adtest_check_spec *)
  (forall l,
  adtest_check RN KN l = None <-> Forall ad_value_ok l /\ nondecreasing_from AD_PREV0_R l) /\
  (* values outside [0,1] and NaN are rejected wherever they stand, before and
     after the sort of c_ad_test *)
  (* adtest_rejects_bad_value *)
  (forall l x,
  In x l -> ~ ad_value_ok x -> adtest_check RN KN l <> None) /\
  (* ad_test_rejects_bad_value *)
  (forall l x,
  In x l -> ~ ad_value_ok x -> ad_test_check RN KN l <> None) /\
  (* adtest_rejects_unsorted *)
  (forall l1 a b l2,
  b < a -> adtest_check RN KN (l1 ++ Some a :: Some b :: l2) <> None) /\
  (* samples inside [0,1] are accepted by c_ad_test in any order *)
  (* ad_test_accepts_unit_sample *)
  (forall data : list R,
  Forall (fun v => 0 <= v <= 1) data ->
  ad_test_check RN KN (map Some data) = None).
Proof. exact (conj adtest_check_spec (conj adtest_rejects_bad_value (conj ad_test_rejects_bad_value (conj adtest_rejects_unsorted ad_test_accepts_unit_sample)))). Qed.
Print Assumptions C10_adtest_input_checks.

(* p-value of the repaired code *)
Theorem C10_ad_pvalue_in_unit :
  forall n z, 0 <= ad_pvalue n z <= 1.
Proof. exact ad_pvalue_in_unit. Qed.
Print Assumptions C10_ad_pvalue_in_unit.

(* p-value of the pinned code: above 1 for the ten mid-points (i-1/2)/10.
   Proved with interval arithmetic as Proofs/DscoreADProofs.v:
     ad_pvalue_noclip_refuted :
       exists data, Forall (fun x => 0 < x < 1) data /\
                    1 < ad_pvalue_noclip (INR (length data)) (ad_stat data)
   That file is compiled (and its Print Assumptions recorded) on every run as
   an extra target; it is not imported here because the closure of coq-interval
   would make the thorough tier's coqchk of this file take hours. *)

Example C10_binary64_refutations :
  (* the pinned scan (sentinels value+1) is wrong when eps > 1 or beyond 2^53:
     binary64 evaluation of the old model variant *)
  (* sentinel_scan_refuted *)
  ((PrimFloat.eqb (pairF_sentinel F64 KF 2 [0x1p+3] [0x1p+3]) (-1) = true /\
   PrimFloat.eqb (pairF F64 KF 2 [0x1p+3] [0x1p+3]) 0.5 = true /\
   PrimFloat.eqb (pairF_sentinel F64 KF 0x1p-20 [0x1p+62] [0x1p+61]) (-1) = true /\
   PrimFloat.eqb (pairF F64 KF 0x1p-20 [0x1p+62] [0x1p+61]) 1 = true)%float) /\
  (* in binary64 the unclipped rank formula exceeds 1 (pinned code), the clipped
     one does not *)
  (* pit_rank_noclip_refuted *)
  (PrimFloat.ltb 1%float (pit_rank_noclip F64 KF 11%float eleven_below) = true /\
  PrimFloat.eqb (pit_rank F64 KF 11%float eleven_below) 1%float = true).
Proof. exact (conj sentinel_scan_wrong_F64 pit_rank_noclip_exceeds_one_F64). Qed.
Print Assumptions C10_binary64_refutations.

Example C10_nonvacuous :
  (* dscore_nonvacuous *)
  ((2 <= length [0; 1; 2])%nat /\
  0 < sdot (centred RR [0; 1; 2]) (centred RR [0; 1; 2]) /\
  0 < sdot (centred RR [1; 5/2; 5/2]) (centred RR [1; 5/2; 5/2])) /\
  (* ties inside and across the ensembles *)
  (* F_nonvacuous *)
  (0 < 1 / 1000000 /\ [1; 2; 2] <> [] /\ separated (1 / 1000000) ([1; 2; 2] ++ [2; 3; 1]) /\
  wm_sum [1; 2; 2] [2; 3; 1] = 7 / 2) /\
  (* pit_jitter_nonvacuous *)
  (length [1 / 20000000000; - (1 / 10000000000)] = length [1; 3] /\
  Rabs (1 / 30000000000) <= k_eps KR /\
  Forall (fun d => Rabs d <= k_eps KR) [1 / 20000000000; - (1 / 10000000000)] /\
  Forall (fun x => 2 * k_eps KR < Rabs (x - 2)) [1; 3]) /\
  (* cvm_nonvacuous *)
  ([3/4; 1/4; 1/2] <> [] /\ Permutation [1/4; 1/2; 3/4] [3/4; 1/4; 1/2] /\
  StronglySorted Rle [1/4; 1/2; 3/4]) /\
  (* cvm_pvalue_nonvacuous *)
  (StronglySorted Rlt [0; 1/2; 1] /\ [0; 1/2; 1] <> [] /\
  Forall (fun c => length c = length [0; 1/2; 1] /\ Forall (fun y => 0 <= y <= 1) c)
         [[1; 1/2; 0]; [1; 1/4; 1/8]] /\
  (closest_col 7 [5%Z; 10%Z] < length [[1; 1/2; 0]; [1; 1/4; 1/8]])%nat) /\
  (* ad_nonvacuous *)
  ([3/4; 1/4; 1/2] <> [] /\ Forall (fun x => 0 < x < 1) [3/4; 1/4; 1/2] /\
  Permutation [1/4; 1/2; 3/4] [3/4; 1/4; 1/2] /\ StronglySorted Rle [1/4; 1/2; 3/4]) /\
  (* ad_reject_nonvacuous *)
  (In None [Some (1/2); None; Some (1/4)] /\ ~ ad_value_ok None /\
  In (Some (3/2)) [Some (3/2)] /\ ~ ad_value_ok (Some (3/2)) /\
  In (Some (-1/1000)) [Some (-1/1000)] /\ ~ ad_value_ok (Some (-1/1000))).
Proof. exact (conj dscore_hyps_example (conj F_hyps_example (conj pit_jitter_example (conj cvm_hyps_example (conj cvm_pvalue_hyps_example (conj ad_hyps_example ad_reject_example)))))). Qed.
Print Assumptions C10_nonvacuous.

(* ================================================================== *)
(* The ensemble ranking on the REGENERATED program: [program] is the     *)
(* MiniC translation of src/hydrodiy/stat/c_dscore.c produced from the   *)
(* tree under test on every run (Gen/KernelsAst.v); [exec_fun] its       *)
(* interpreter; qsort is glibc's merge sort with the translated          *)
(* comparator.                                                           *)
(* ================================================================== *)
From Coq Require Import String Lia.
From Hy Require Import Base.MiniC Gen.KernelsAst Proofs.RefineEnsrank.
Open Scope string_scope.
Open Scope list_scope.
Open Scope Z_scope.

(* c_ensrank over the reals = the model with glibc's merge sort in place of the model's
   insertion sort, for EVERY input: both error returns (the enum codes), empty input,
   0 members, any eps, any initial content of fmat and ranks *)
Theorem C10_kernel_ensrank_refines_model_with_glibc_sort :
  forall (eps : R) (sim : list (list R)) (ncol : nat) (fmat ranks : list R) (n : nat),
  Forall (fun r => List.length r = ncol) sim ->
  List.length fmat = (List.length sim * List.length sim)%nat ->
  List.length ranks = List.length sim ->
  (Nat.max (List.length sim) (2 * ncol) < n)%nat ->
  exec_fun RR XRR program (S n) "c_ensrank"
    [AVF eps; AVI (Z.of_nat (List.length sim)); AVI (Z.of_nat ncol); AVArrF (List.concat sim);
     AVArrF fmat; AVArrF ranks]
  = Ok (ens_outputs (ensrank_s RR KR (qs RR KR) eps sim) sim fmat ranks).
Proof. exact refine_c_ensrank_qsort_RR. Qed.
Print Assumptions C10_kernel_ensrank_refines_model_with_glibc_sort.

(* ... = the model of the theorems above whenever the two sorts agree on every pooled
   pair of ensembles, which holds whenever the tolerance comparator is total and
   transitive on the pooled values ([pairs_preorder]: no chain a ~ b ~ c with a not ~ c) *)
Theorem C10_kernel_ensrank_refines_model :
  forall (eps : R) (sim : list (list R)) (ncol : nat) (fmat ranks : list R) (n : nat),
  pairs_agree RR KR sim ->
  Forall (fun r => List.length r = ncol) sim ->
  List.length fmat = (List.length sim * List.length sim)%nat ->
  List.length ranks = List.length sim ->
  (Nat.max (List.length sim) (2 * ncol) < n)%nat ->
  exec_fun RR XRR program (S n) "c_ensrank"
    [AVF eps; AVI (Z.of_nat (List.length sim)); AVI (Z.of_nat ncol); AVArrF (List.concat sim);
     AVArrF fmat; AVArrF ranks]
  = Ok (ens_outputs (ensrank RR KR eps sim) sim fmat ranks).
Proof. exact refine_c_ensrank_RR. Qed.
Print Assumptions C10_kernel_ensrank_refines_model.

Theorem C10_kernel_sorts_agree_when_comparator_is_a_preorder :
  forall {T} (N : NumOps T) (K : DsConsts T) (rows : list (list T)),
  pairs_preorder N K rows -> pairs_agree N K rows.
Proof. exact @pairs_preorder_agree. Qed.
Print Assumptions C10_kernel_sorts_agree_when_comparator_is_a_preorder.

(* where the comparator is NOT transitive (members within its 1e-8 tolerance in a chain)
   the model's insertion sort and the kernel's merge sort differ: witness in binary64
   (the compiled kernel agrees with the translated program, not with the model) *)
Example C10_kernel_model_differs_on_intransitive_ties :
  ensrank F64 KF cx_eps cx_sim = EnsOk [(0, 1, 0%float)] [1%float; 2%float] /\
  ensrank_s F64 KF (qs F64 KF) cx_eps cx_sim = EnsOk [(0, 1, 1%float)] [2%float; 1%float] /\
  exec_fun F64 XF64 program 10 "c_ensrank"
    [AVF cx_eps; AVI 2; AVI 2; AVArrF (List.concat cx_sim); AVArrF [9; 9; 9; 9]%float;
     AVArrF [9; 9]%float]
  = Ok (RI 0, [VArrF (List.concat cx_sim); VArrF [9; 1; 9; 9]%float; VArrF [2; 1]%float]).
Proof. exact ensrank_model_differs. Qed.

(* ================================================================== *)
(* BINARY64 instances of the ensemble-ranking refinement (laws about  *)
(* comparisons and exact integer conversion proved for IEEE binary64). *)
(* ================================================================== *)
From Coq Require Import String Lia PrimFloat.
From Hy Require Import Base.Num Base.MiniC Gen.KernelsAst Gen.Consts Model.Dscore.
From Hy Require Proofs.F64Laws Proofs.RefineEnsrank.
Import ListNotations.
Open Scope string_scope.
Open Scope list_scope.
Open Scope Z_scope.

(* c_ensrank in binary64 = the model with glibc's merge sort, ensembles of at most 2^52 members (member indices are compared as doubles) *)
Theorem C10_kernel_ensrank_refines_model_with_glibc_sort_binary64 :
  forall (eps : float) (sim : list (list float)) (ncol : nat) (fmat ranks : list float)
         (n : nat),
       2 * Z.of_nat ncol <= 2 ^ 53 ->
       Forall (fun r : list float => Datatypes.length r = ncol) sim ->
       Datatypes.length fmat = (Datatypes.length sim * Datatypes.length sim)%nat ->
       Datatypes.length ranks = Datatypes.length sim ->
       (Nat.max (Datatypes.length sim) (2 * ncol) < n)%nat ->
       exec_fun F64 XF64 program (S n) "c_ensrank"
         [AVF eps; AVI (Z.of_nat (Datatypes.length sim)); AVI (Z.of_nat ncol);
          AVArrF (List.concat sim); AVArrF fmat; AVArrF ranks] =
       Ok
         (RefineEnsrank.ens_outputs
            (RefineEnsrank.ensrank_s F64 KF (RefineEnsrank.qs F64 KF) eps sim) sim fmat ranks).
Proof. exact @F64Laws.refine_c_ensrank_qsort_F64. Qed.
Print Assumptions C10_kernel_ensrank_refines_model_with_glibc_sort_binary64.

Theorem C10_kernel_ensrank_refines_model_binary64 :
  forall (eps : float) (sim : list (list float)) (ncol : nat) (fmat ranks : list float)
         (n : nat),
       2 * Z.of_nat ncol <= 2 ^ 53 ->
       RefineEnsrank.pairs_agree F64 KF sim ->
       Forall (fun r : list float => Datatypes.length r = ncol) sim ->
       Datatypes.length fmat = (Datatypes.length sim * Datatypes.length sim)%nat ->
       Datatypes.length ranks = Datatypes.length sim ->
       (Nat.max (Datatypes.length sim) (2 * ncol) < n)%nat ->
       exec_fun F64 XF64 program (S n) "c_ensrank"
         [AVF eps; AVI (Z.of_nat (Datatypes.length sim)); AVI (Z.of_nat ncol);
          AVArrF (List.concat sim); AVArrF fmat; AVArrF ranks] =
       Ok (RefineEnsrank.ens_outputs (ensrank F64 KF eps sim) sim fmat ranks).
Proof. exact @F64Laws.refine_c_ensrank_F64. Qed.
Print Assumptions C10_kernel_ensrank_refines_model_binary64.

(* ================================================================== *)
(* The ensemble-rank clauses of C10 ITSELF on the REGENERATED program (MiniC translation of c_ensrank, src/hydrodiy/stat/c_dscore.c, glibc merge sort): the model *)
(*    theorems above composed with C10_kernel_ensrank_refines_model (Proofs/KernelEnsrank.v); the preorder hypothesis follows from the separation hypothesis of the model theorems. *)
(* ================================================================== *)
From Coq Require Import String Lia PrimFloat.
From Hy Require Import Base.Num Base.MiniC Gen.KernelsAst Gen.Consts Base.Num Base.MiniC Gen.KernelsAst Gen.ConstsC10 Model.Dscore.
From Hy Require Proofs.KernelEnsrank.
Import ListNotations.
Open Scope string_scope.
Open Scope list_scope.
Open Scope Z_scope.

(* the translated c_ensrank over the reals, forecasts whose values are pairwise equal or separated by both tolerances: returns 0, fmat[i1,i2] (i1 < i2) is the pairwise mid-rank comparison of Weigel and Mason over ncol^2, the other entries are untouched, ranks = 1 + the accumulated increments, each increment u the sign of F - 1/2 (0, 1/2, 1) *)
Theorem C10_kernel_ensrank_F_is_midrank :
  forall (eps : R) (ncol : nat) (sim : list (list R)) (fmat ranks : list R) (n : nat),
       (DS_EPS_MIN_R <= eps)%R ->
       KernelEnsrank.all_separated eps sim ->
       KernelEnsrank.ens_shapes ncol sim fmat ranks n ->
       exists fm rk : list R,
         KernelEnsrank.run_ensrank n eps ncol sim fmat ranks =
         Ok (RI 0, [VArrF (List.concat sim); VArrF fm; VArrF rk]) /\
         Datatypes.length fm = Datatypes.length fmat /\
         (forall i1 i2 : nat,
          (i1 < i2 < Datatypes.length sim)%nat ->
          nth (i1 * Datatypes.length sim + i2) fm 0%R =
          (DscoreRankProofs.wm_sum (nth i1 sim []) (nth i2 sim []) / (INR ncol * INR ncol))%R) /\
         (forall i1 i2 : nat,
          (i2 <= i1)%nat ->
          (i2 < Datatypes.length sim)%nat ->
          nth (i1 * Datatypes.length sim + i2) fm 0%R =
          nth (i1 * Datatypes.length sim + i2) fmat 0%R) /\
         rk = map (fun d : R => (1 + d)%R) (DscoreRankProofs.delta ncol eps sim) /\
         (forall i1 i2 : nat,
          (i1 < Datatypes.length sim)%nat ->
          (i2 < Datatypes.length sim)%nat ->
          let F := pairF RR KR eps (nth i1 sim []) (nth i2 sim []) in
          DscoreRankProofs.uF ncol eps (nth i1 sim []) (nth i2 sim []) =
          (if Rltb F (1 / 2) then 0%R else if Rltb (1 / 2) F then 1%R else (1 / 2)%R)).
Proof. exact @KernelEnsrank.kernel_ensrank_F_is_midrank. Qed.
Print Assumptions C10_kernel_ensrank_F_is_midrank.

(* under the preorder hypothesis alone (no separation): the ranks written by the translated kernel are 1 + delta *)
Theorem C10_kernel_ensrank_ranks :
  forall (eps : R) (ncol : nat) (sim : list (list R)) (fmat ranks : list R) (n : nat),
       (DS_EPS_MIN_R <= eps)%R ->
       RefineEnsrank.pairs_preorder RR KR sim ->
       KernelEnsrank.ens_shapes ncol sim fmat ranks n ->
       exists fm : list R,
         KernelEnsrank.run_ensrank n eps ncol sim fmat ranks =
         Ok
           (RI 0,
            [VArrF (List.concat sim); VArrF fm;
             VArrF (map (fun d : R => (1 + d)%R) (DscoreRankProofs.delta ncol eps sim))]) /\
         Datatypes.length fm = Datatypes.length fmat.
Proof. exact @KernelEnsrank.kernel_ensrank_ranks. Qed.
Print Assumptions C10_kernel_ensrank_ranks.

(* forecasts that order a list of distinct keys (all members of a larger key above all members of a smaller key): the rank written for each forecast is 1 + the number of forecasts with a smaller key *)
Theorem C10_kernel_ensrank_ordered_rows :
  forall (eps : R) (m : nat) (ks : list (R * list R)) (fmat ranks : list R) (n : nat),
       (DS_EPS_MIN_R <= eps)%R ->
       NoDup (map fst ks) ->
       DscoreRankProofs.ordered_rows eps m ks ->
       KernelEnsrank.ens_shapes m (map snd ks) fmat ranks n ->
       exists fm : list R,
         KernelEnsrank.run_ensrank n eps m (map snd ks) fmat ranks =
         Ok
           (RI 0,
            [VArrF (List.concat (map snd ks)); VArrF fm;
             VArrF
               (map
                  (fun a : R * list R =>
                   (1 + DscoreRankProofs.cntR (fun b : R * list R => Rltb (fst b) (fst a)) ks)%R)
                  ks)]) /\ Datatypes.length fm = Datatypes.length fmat.
Proof. exact @KernelEnsrank.kernel_ensrank_ordered_rows. Qed.
Print Assumptions C10_kernel_ensrank_ordered_rows.

(* permuting the members inside each forecast changes neither the F matrix nor the ranks written by the translated kernel *)
Theorem C10_kernel_ensrank_member_permutation_invariant :
  forall (eps : R) (ncol : nat) (sim sim' : list (list R)) (fmat ranks : list R) (n : nat),
       (DS_EPS_MIN_R <= eps)%R ->
       KernelEnsrank.all_separated eps sim ->
       KernelEnsrank.ens_shapes ncol sim fmat ranks n ->
       Forall2 (Permutation.Permutation (A:=R)) sim sim' ->
       exists fm rk : list R,
         KernelEnsrank.run_ensrank n eps ncol sim fmat ranks =
         Ok (RI 0, [VArrF (List.concat sim); VArrF fm; VArrF rk]) /\
         KernelEnsrank.run_ensrank n eps ncol sim' fmat ranks =
         Ok (RI 0, [VArrF (List.concat sim'); VArrF fm; VArrF rk]).
Proof. exact @KernelEnsrank.kernel_ensrank_member_permutation_invariant. Qed.
Print Assumptions C10_kernel_ensrank_member_permutation_invariant.

(* a strictly increasing rescaling of all forecast values (rescaled values again separated for eps') changes neither the F matrix nor the ranks written by the translated kernel *)
Theorem C10_kernel_ensrank_increasing_map_invariant :
  forall (eps eps' : R) (g : R -> R) (ncol : nat) (sim : list (list R)) 
         (fmat ranks : list R) (n : nat),
       (DS_EPS_MIN_R <= eps)%R ->
       (DS_EPS_MIN_R <= eps')%R ->
       (forall x y : R, (x < y)%R -> (g x < g y)%R) ->
       KernelEnsrank.all_separated eps sim ->
       KernelEnsrank.all_separated eps' (map (map g) sim) ->
       KernelEnsrank.ens_shapes ncol sim fmat ranks n ->
       exists fm rk : list R,
         KernelEnsrank.run_ensrank n eps ncol sim fmat ranks =
         Ok (RI 0, [VArrF (List.concat sim); VArrF fm; VArrF rk]) /\
         KernelEnsrank.run_ensrank n eps' ncol (map (map g) sim) fmat ranks =
         Ok (RI 0, [VArrF (List.concat (map (map g) sim)); VArrF fm; VArrF rk]).
Proof. exact @KernelEnsrank.kernel_ensrank_increasing_map_invariant. Qed.
Print Assumptions C10_kernel_ensrank_increasing_map_invariant.

(* the abbreviations run_ensrank, ens_shapes, all_separated used above, unfolded; separated forecasts satisfy the preorder hypothesis pairs_preorder of the refinement theorem *)
Theorem C10_kernel_ensrank_abbreviations :
  (forall (n : nat) (eps : R) (ncol : nat) (sim : list (list R)) (fmat ranks : list R),
        KernelEnsrank.run_ensrank n eps ncol sim fmat ranks =
        exec_fun RR XRR program (S n) "c_ensrank"
          [AVF eps; AVI (Z.of_nat (Datatypes.length sim)); AVI (Z.of_nat ncol);
           AVArrF (List.concat sim); AVArrF fmat; AVArrF ranks]) /\
       (forall (ncol : nat) (sim : list (list R)) (fmat ranks : list R) (n : nat),
        KernelEnsrank.ens_shapes ncol sim fmat ranks n <->
        (1 <= ncol)%nat /\
        sim <> [] /\
        Forall (fun r : list R => Datatypes.length r = ncol) sim /\
        Datatypes.length fmat = (Datatypes.length sim * Datatypes.length sim)%nat /\
        Datatypes.length ranks = Datatypes.length sim /\
        (Nat.max (Datatypes.length sim) (2 * ncol) < n)%nat) /\
       (forall (eps : R) (sim : list (list R)),
        KernelEnsrank.all_separated eps sim <->
        (forall r1 r2 : list R, In r1 sim -> In r2 sim -> DscoreRankProofs.separated eps (r1 ++ r2))) /\
       (forall (eps : R) (sim : list (list R)),
        KernelEnsrank.all_separated eps sim -> RefineEnsrank.pairs_preorder RR KR sim).
Proof. exact @KernelEnsrank.kernel_ensrank_defs. Qed.
Print Assumptions C10_kernel_ensrank_abbreviations.
