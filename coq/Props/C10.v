From Coq Require Import ZArith Bool List Reals.
From Hy Require Import Base.Num Gen.Consts Gen.ConstsC10 Model.Dscore Proofs.DscoreProofs.
Import ListNotations.
Open Scope R_scope.
Theorem C10_stub : 0 <= 1.
Proof. exact stub. Qed.
Print Assumptions C10_stub.
