(* C19 - batches partition the work; option grids enumerate every combination once.
   Statements only; proofs are `exact <lemma of Proofs/HyrunsProofs.v>`. *)
From Coq Require Import ZArith Bool List String.
From Hy Require Import Model.Hyruns Proofs.HyrunsProofs.
Import ListNotations.
Open Scope Z_scope.

(* the batches 0..k-1, concatenated in order, are exactly 0..n-1: contiguous,
   ordered, pairwise disjoint, every element once - for all 1 <= k <= n *)
Theorem C19_batches_partition : forall n k,
  1 <= k <= n -> List.concat (all_batches n k) = zseq 0 (Z.to_nat n).
Proof. exact batches_partition. Qed.
Print Assumptions C19_batches_partition.

Theorem C19_batches_cover_once : forall n k,
  1 <= k <= n ->
  NoDup (List.concat (all_batches n k)) /\
  forall x, In x (List.concat (all_batches n k)) <-> 0 <= x < n.
Proof. exact batches_cover_once. Qed.
Print Assumptions C19_batches_cover_once.

Theorem C19_all_batches_are_get_batch : forall n k i,
  1 <= k <= n -> 0 <= i < k ->
  nth_error (all_batches n k) (Z.to_nat i) = get_batch n k i.
Proof. exact all_batches_are_get_batch. Qed.
Print Assumptions C19_all_batches_are_get_batch.

Theorem C19_batch_sizes_differ_by_at_most_one : forall n k i j,
  0 < k -> Z.abs (batch_size n k i - batch_size n k j) <= 1.
Proof. exact batch_sizes_differ_by_at_most_one. Qed.
Print Assumptions C19_batch_sizes_differ_by_at_most_one.

Theorem C19_batch_nonempty : forall n k i, 0 < k <= n -> 1 <= batch_size n k i.
Proof. exact batch_size_pos. Qed.
Print Assumptions C19_batch_nonempty.

Theorem C19_get_batch_rejects : forall n k i,
  n < 1 \/ n < k \/ i < 0 \/ k <= i -> get_batch n k i = None.
Proof. exact get_batch_rejects. Qed.
Print Assumptions C19_get_batch_rejects.

Theorem C19_search_finds_batch : forall {A} (eqb : A -> A -> bool),
  (forall a b, eqb a b = true <-> a = b) ->
  forall sites d k j,
  NoDup sites -> 1 <= k <= Z.of_nat (List.length sites) ->
  (j < List.length sites)%nat ->
  exists i, search eqb sites d k (nth j sites d) = Some i /\ 0 <= i < k /\
            batch_start (Z.of_nat (List.length sites)) k i <= Z.of_nat j
              < batch_start (Z.of_nat (List.length sites)) k (i + 1).
Proof. exact @search_finds_batch. Qed.
Print Assumptions C19_search_finds_batch.

Theorem C19_product_enumerates_once : forall (options : optdict),
  Forall (fun kv => NoDup (snd kv)) options ->
  NoDup (make_tasks options) /\
  List.length (make_tasks options) =
    fold_right (fun vs acc => (List.length vs * acc)%nat) 1%nat (map snd options) /\
  forall t, In t (product (map snd options)) <->
            Forall2 (fun v vs => In v vs) t (map snd options).
Proof. exact make_tasks_enumerates. Qed.
Print Assumptions C19_product_enumerates_once.

Theorem C19_find_spec : forall key v tasks i,
  In i (find key v tasks) <->
  0 <= i /\ exists t, nth_error tasks (Z.to_nat i) = Some t /\ lookup key t = Some v.
Proof. exact find_spec. Qed.
Print Assumptions C19_find_spec.

Theorem C19_dict_roundtrip : forall kn m,
  keys_ok kn -> from_dict kn (to_dict kn m) = Some m.
Proof. exact dict_roundtrip. Qed.
Print Assumptions C19_dict_roundtrip.

Theorem C19_roundtrip_equal_both_directions : forall kn m,
  keys_ok kn -> NoDup (map fst (m_context m)) -> NoDup (map fst (m_options m)) ->
  exists m', from_dict kn (to_dict kn m) = Some m' /\
             manager_eq m m' = true /\ manager_eq m' m = true.
Proof. exact roundtrip_equal_both_directions. Qed.
Print Assumptions C19_roundtrip_equal_both_directions.

Example C19_nonvacuous_batches :
  all_batches 20 5 = [[0;1;2;3]; [4;5;6;7]; [8;9;10;11]; [12;13;14;15]; [16;17;18;19]]
  /\ all_batches 7 3 = [[0;1;2]; [3;4]; [5;6]].
Proof. exact batches_example. Qed.

Example C19_nonvacuous_keys :
  keys_ok {| k_context := "context"; k_taskopt := "options"; k_manopt := "options" |}.
Proof. exact keys_ok_default. Qed.
