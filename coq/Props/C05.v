(* C05 - native kernels never touch memory outside their buffers.
   Statements only; every proof is `exact <lemma of Proofs/Safety*Proofs.v>`.

   Each `<k>_safe` theorem says: under the buffer relations the Cython wrapper asserts
   (re-extracted into Gen/ConstsC05.v, see the `pyx_contract` examples) and what the
   Python wrapper establishes when it allocates, the index-level model of the
   (repaired) kernel never reads or writes outside a buffer, never divides an integer
   by zero, never overflows a signed integer and never converts an unrepresentable
   double to an integer -- for every length and every content.
   `<k>_pinned_unsafe` exhibits, for the code as pinned, a wrapper-admissible input on
   which the model fails: these are the replays of known_findings.d/C05.json. *)
From Coq Require Import ZArith Bool List String Reals PrimFloat.
From Hy Require Import Base.Num Gen.ConstsC05 Model.Safety Proofs.SafetyProofs.
Import ListNotations.
Open Scope Z_scope.

(* ------------------------------------------------------------------ *)
(* wrapper contracts the preconditions below rely on *)
Example C05_pyx_contract_data :
  pyx_has "data" "aggregate" ["1==iend.shape[0]"; "aggindex.shape[0]==inputs.shape[0]";
                              "aggindex.shape[0]==outputs.shape[0]"] &&
  pyx_has "data" "flathomogen" ["aggindex.shape[0]==inputs.shape[0]";
                                "aggindex.shape[0]==outputs.shape[0]"] &&
  pyx_has "data" "islin" ["data.shape[0]==islin.shape[0]"] &&
  pyx_has "data" "eckhardt" ["bflow.shape[0]==flow.shape[0]"] &&
  pyx_has "data" "var2h" ["varsec.shape[0]==varvalues.shape[0]"] = true.
Proof. vm_compute. reflexivity. Qed.

(* ------------------------------------------------------------------ *)
(* c_aggregate: aggindex, inputs, outputs of one length (pyx), iend of length 1 (pyx) *)
Theorem C05_aggregate_safe : forall nval aggindex ninp outputs iend,
  Zlen aggindex = nval -> ninp = nval -> Zlen outputs = nval -> Zlen iend = 1 ->
  safe (aggregate true nval aggindex ninp outputs iend).
Proof. exact aggregate_safe. Qed.
Print Assumptions C05_aggregate_safe.

Example C05_aggregate_safe_nonvacuous :
  exists s, aggregate true 4 [1; 1; 2; 5] 4 [false; false; false; false] [None] = Ret 0 s /\
            ag_out s = [true; true; true; false] /\ ag_iend s = [Some 3].
Proof. eexists. vm_compute. repeat split. Qed.

Theorem C05_aggregate_pinned_unsafe :
  aggregate false 0 [] 0 [] [None] = Fail (OOB "aggindex" 0).
Proof. exact aggregate_pinned_unsafe. Qed.
Print Assumptions C05_aggregate_pinned_unsafe.

(* c_flathomogen *)
Theorem C05_flathomogen_safe : forall nval aggindex ninp outputs,
  Zlen aggindex = nval -> ninp = nval -> Zlen outputs = nval ->
  safe (flathomogen true nval aggindex ninp outputs).
Proof. exact flathomogen_safe. Qed.
Print Assumptions C05_flathomogen_safe.

Theorem C05_flathomogen_pinned_unsafe :
  flathomogen false 0 [] 0 [] = Fail (OOB "aggindex" 0).
Proof. exact flathomogen_pinned_unsafe. Qed.
Print Assumptions C05_flathomogen_pinned_unsafe.

(* c_islin: any arithmetic (binary64 included), any thresholds, any npoints *)
Theorem C05_islin_safe : forall {T} (N : NumOps T) nval thresh tol npoints data out,
  Zlen data = nval -> Zlen out = nval ->
  safe (islin N true nval thresh tol npoints data out).
Proof. exact @islin_safe. Qed.
Print Assumptions C05_islin_safe.

Theorem C05_islin_pinned_unsafe :
  islin F64 false 1 PrimFloat.zero PrimFloat.one 1 [PrimFloat.one] [None] = Fail (OOB "data" 1).
Proof. exact islin_pinned_unsafe. Qed.
Print Assumptions C05_islin_pinned_unsafe.

(* c_eckhardt: any arithmetic, any parameter values *)
Theorem C05_eckhardt_safe : forall {T} (N : NumOps T) nval ttype thresh bfi ninp outputs,
  0 <= nval -> ninp = nval -> Zlen outputs = nval ->
  safe (eckhardt N true nval ttype thresh bfi ninp outputs).
Proof. exact @eckhardt_safe. Qed.
Print Assumptions C05_eckhardt_safe.

Theorem C05_eckhardt_pinned_unsafe :
  eckhardt F64 false 0 1 PrimFloat.one PrimFloat.one 0 [] = Fail (OOB "inputs" 0).
Proof. exact eckhardt_pinned_unsafe. Qed.
Print Assumptions C05_eckhardt_pinned_unsafe.

(* c_var2h: every series (sorted or not), every start, every number of periods an int can
   hold; over any arithmetic in which the integers embed exactly (the reals; binary64 below
   2^53), and in particular over the reals.  hstartsec comes from a datetime: |.| <= 2^62. *)
Theorem C05_var2h_safe : forall {T} (N : NumOps T),
  (forall a b, nltb N (nofZ N a) (nofZ N b) = (a <? b)) ->
  (forall a b, nadd N (nofZ N a) (nofZ N b) = nofZ N (a + b)) ->
  forall nvalvar nvalh nbsec rainfall varsec nvals hstartsec hvalues,
  Zlen varsec = nvalvar -> nvals = nvalvar -> Zlen hvalues = nvalh ->
  nvalh <= 2147483647 -> -4611686018427387904 <= hstartsec <= 4611686018427387904 ->
  safe (var2h N true nvalvar nvalh nbsec rainfall varsec nvals hstartsec hvalues).
Proof. exact @var2h_safe. Qed.
Print Assumptions C05_var2h_safe.

Theorem C05_var2h_safe_reals : forall nvalvar nvalh nbsec rainfall varsec nvals hstartsec hvalues,
  Zlen varsec = nvalvar -> nvals = nvalvar -> Zlen hvalues = nvalh ->
  nvalh <= 2147483647 -> -4611686018427387904 <= hstartsec <= 4611686018427387904 ->
  safe (var2h RR true nvalvar nvalh nbsec rainfall varsec nvals hstartsec hvalues).
Proof. exact var2h_safe_RR. Qed.
Print Assumptions C05_var2h_safe_reals.

Theorem C05_var2h_pinned_unsafe_position :
  var2h F64 false 3 0 3600 0 [600; 1200; 3000] 3 3600 [] = Fail (OOB "varsec" 3).
Proof. exact var2h_pinned_unsafe_position. Qed.
Print Assumptions C05_var2h_pinned_unsafe_position.

Theorem C05_var2h_pinned_unsafe_product :
  exists s, for_loop 1 596524 (vh_period F64 false 2 3600 [0; 4000000000] 2 3600) s = Fail Overflow.
Proof. exact var2h_pinned_unsafe_product. Qed.
Print Assumptions C05_var2h_pinned_unsafe_product.
