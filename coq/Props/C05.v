(* C05 - native kernels never touch memory outside their buffers.
   Statements only; every proof is `exact <lemma of Proofs/Safety*Proofs.v>`.

   Each `<k>_safe` theorem says: under the buffer relations the Cython wrapper asserts
   (re-extracted into Gen/ConstsC05.v, see the `pyx_contract` examples) and what the
   Python wrapper establishes when it allocates, the index-level model of the
   (repaired) kernel never reads or writes outside a buffer, never divides an integer
   by zero, never overflows a signed integer and never converts an unrepresentable
   double to an integer -- for every length and every content.
   `<k>_pinned_unsafe` exhibits, for the code as pinned, a wrapper-admissible input on
   which the model fails: these are the replays of known_findings.d/C05.json. *)
From Coq Require Import ZArith Bool List String Reals PrimFloat.
From Hy Require Import Base.Num Gen.Consts Gen.ConstsC05 Model.Safety Model.SafetyGis Model.SafetyStat
  Proofs.SafetyProofs Proofs.SafetyGisProofs Proofs.SafetyGis2Proofs Proofs.SafetyStatProofs.
Import ListNotations.
Open Scope Z_scope.

(* ------------------------------------------------------------------ *)
(* wrapper contracts the preconditions below rely on *)
Example C05_pyx_contract_data :
  pyx_has "data" "aggregate" ["1==iend.shape[0]"; "aggindex.shape[0]==inputs.shape[0]";
                              "aggindex.shape[0]==outputs.shape[0]"] &&
  pyx_has "data" "flathomogen" ["aggindex.shape[0]==inputs.shape[0]";
                                "aggindex.shape[0]==outputs.shape[0]"] &&
  pyx_has "data" "islin" ["data.shape[0]==islin.shape[0]"] &&
  pyx_has "data" "eckhardt" ["bflow.shape[0]==flow.shape[0]"] &&
  pyx_has "data" "var2h" ["varsec.shape[0]==varvalues.shape[0]"] = true.
Proof. vm_compute. reflexivity. Qed.

(* ------------------------------------------------------------------ *)
(* c_aggregate: aggindex, inputs, outputs of one length (pyx), iend of length 1 (pyx) *)
Theorem C05_aggregate_safe : forall nval aggindex ninp outputs iend,
  Zlen aggindex = nval -> ninp = nval -> Zlen outputs = nval -> Zlen iend = 1 ->
  safe (aggregate true nval aggindex ninp outputs iend).
Proof. exact aggregate_safe. Qed.
Print Assumptions C05_aggregate_safe.

Example C05_aggregate_safe_nonvacuous :
  exists s, aggregate true 4 [1; 1; 2; 5] 4 [false; false; false; false] [None] = Ret 0 s /\
            ag_out s = [true; true; true; false] /\ ag_iend s = [Some 3].
Proof. eexists. vm_compute. repeat split. Qed.

Theorem C05_aggregate_pinned_unsafe :
  aggregate false 0 [] 0 [] [None] = Fail (OOB "aggindex" 0).
Proof. exact aggregate_pinned_unsafe. Qed.
Print Assumptions C05_aggregate_pinned_unsafe.

(* c_flathomogen *)
Theorem C05_flathomogen_safe : forall nval aggindex ninp outputs,
  Zlen aggindex = nval -> ninp = nval -> Zlen outputs = nval ->
  safe (flathomogen true nval aggindex ninp outputs).
Proof. exact flathomogen_safe. Qed.
Print Assumptions C05_flathomogen_safe.

Theorem C05_flathomogen_pinned_unsafe :
  flathomogen false 0 [] 0 [] = Fail (OOB "aggindex" 0).
Proof. exact flathomogen_pinned_unsafe. Qed.
Print Assumptions C05_flathomogen_pinned_unsafe.

(* c_islin: any arithmetic (binary64 included), any thresholds, any npoints *)
Theorem C05_islin_safe : forall {T} (N : NumOps T) nval thresh tol npoints data out,
  Zlen data = nval -> Zlen out = nval ->
  safe (islin N true nval thresh tol npoints data out).
Proof. exact @islin_safe. Qed.
Print Assumptions C05_islin_safe.

Theorem C05_islin_pinned_unsafe :
  islin F64 false 1 PrimFloat.zero PrimFloat.one 1 [PrimFloat.one] [None] = Fail (OOB "data" 1).
Proof. exact islin_pinned_unsafe. Qed.
Print Assumptions C05_islin_pinned_unsafe.

(* c_eckhardt: any arithmetic, any parameter values *)
Theorem C05_eckhardt_safe : forall {T} (N : NumOps T) nval ttype thresh bfi ninp outputs,
  0 <= nval -> ninp = nval -> Zlen outputs = nval ->
  safe (eckhardt N true nval ttype thresh bfi ninp outputs).
Proof. exact @eckhardt_safe. Qed.
Print Assumptions C05_eckhardt_safe.

Theorem C05_eckhardt_pinned_unsafe :
  eckhardt F64 false 0 1 PrimFloat.one PrimFloat.one 0 [] = Fail (OOB "inputs" 0).
Proof. exact eckhardt_pinned_unsafe. Qed.
Print Assumptions C05_eckhardt_pinned_unsafe.

(* c_var2h: every series (sorted or not), every start, every number of periods an int can
   hold; over any arithmetic in which the integers embed exactly (the reals; binary64 below
   2^53), and in particular over the reals.  hstartsec comes from a datetime: |.| <= 2^62. *)
Theorem C05_var2h_safe : forall {T} (N : NumOps T),
  (forall a b, nltb N (nofZ N a) (nofZ N b) = (a <? b)) ->
  (forall a b, nadd N (nofZ N a) (nofZ N b) = nofZ N (a + b)) ->
  forall nvalvar nvalh nbsec rainfall varsec nvals hstartsec hvalues,
  Zlen varsec = nvalvar -> nvals = nvalvar -> Zlen hvalues = nvalh ->
  nvalh <= 2147483647 -> -4611686018427387904 <= hstartsec <= 4611686018427387904 ->
  safe (var2h N true nvalvar nvalh nbsec rainfall varsec nvals hstartsec hvalues).
Proof. exact @var2h_safe. Qed.
Print Assumptions C05_var2h_safe.

Theorem C05_var2h_safe_reals : forall nvalvar nvalh nbsec rainfall varsec nvals hstartsec hvalues,
  Zlen varsec = nvalvar -> nvals = nvalvar -> Zlen hvalues = nvalh ->
  nvalh <= 2147483647 -> -4611686018427387904 <= hstartsec <= 4611686018427387904 ->
  safe (var2h RR true nvalvar nvalh nbsec rainfall varsec nvals hstartsec hvalues).
Proof. exact var2h_safe_RR. Qed.
Print Assumptions C05_var2h_safe_reals.

Theorem C05_var2h_pinned_unsafe_position :
  var2h F64 false 3 0 3600 0 [600; 1200; 3000] 3 3600 [] = Fail (OOB "varsec" 3).
Proof. exact var2h_pinned_unsafe_position. Qed.
Print Assumptions C05_var2h_pinned_unsafe_position.

Theorem C05_var2h_pinned_unsafe_product :
  exists s, for_loop 1 596524 (vh_period F64 false 2 3600 [0; 4000000000] 2 3600) s = Fail Overflow.
Proof. exact var2h_pinned_unsafe_product. Qed.
Print Assumptions C05_var2h_pinned_unsafe_product.

(* ================================================================== *)
(* gis kernels.  nrows, ncols are the shape of an allocated array (or the two attributes of
   a Grid): non-negative, product at most 2^63-1 (MAX64). *)

Example C05_pyx_contract_gis :
  pyx_has "gis" "coord2cell" ["idxcell.shape[0]==xycoords.shape[0]"] &&
  pyx_has "gis" "cell2coord" ["2==coords.shape[1]"; "coords.shape[0]==idxcell.shape[0]"] &&
  pyx_has "gis" "cell2rowcol" ["2==rowcols.shape[1]"; "idxcell.shape[0]==rowcols.shape[0]"] &&
  pyx_has "gis" "neighbours" ["9==neighbours.shape[0]"] &&
  pyx_has "gis" "downstream" ["3==flowdircode.shape[0]"; "3==flowdircode.shape[1]";
                              "idxdown.shape[0]==idxup.shape[0]"] &&
  pyx_has "gis" "accumulate" ["3==flowdircode.shape[0]"; "3==flowdircode.shape[1]";
      "accumulation.shape[0]==flowdir.shape[0]"; "accumulation.shape[1]==flowdir.shape[1]";
      "flowdir.shape[0]==to_accumulate.shape[0]"; "flowdir.shape[1]==to_accumulate.shape[1]"] &&
  pyx_has "gis" "slope" ["3==flowdircode.shape[0]"; "3==flowdircode.shape[1]";
      "altitude.shape[0]==flowdir.shape[0]"; "altitude.shape[1]==flowdir.shape[1]";
      "flowdir.shape[0]==slopeval.shape[0]"; "flowdir.shape[1]==slopeval.shape[1]"] &&
  pyx_has "gis" "voronoi" ["2==xypoints.shape[1]"; "weights.shape[0]==xypoints.shape[0]"] &&
  pyx_has "gis" "delineate_boundary" ["buffer.shape[0]==idxcells_area.shape[0]";
      "catchment_area_mask.shape[0]==nrows*ncols";
      "idxcells_area.shape[0]==idxcells_boundary.shape[0]"] = true.
Proof. vm_compute. reflexivity. Qed.

(* the .pyx wrapper of coord2cell does not assert that the coordinate array has two columns;
   the Python wrapper (Grid.coord2cell) does since the `fix:` commit *)
Example C05_coord2cell_wrapper_checks_two_columns : GRID_COORD2CELL_CHECKS_TWO_COLUMNS = true.
Proof. reflexivity. Qed.

(* c_coord2cell: over any arithmetic whose conversion to integer succeeds on values that
   compared inside [0, n) (binary64; the reals with a NaN), any coordinates, any cell size *)
Theorem C05_coord2cell_safe : forall {T} (N : NumOps T),
  (forall x n, 0 <= n <= MAX64 -> nleb N (n0 N) x = true -> nltb N x (nofZ N n) = true ->
     exists z, ntrunc N x = Some z /\ 0 <= z < n) ->
  forall nrows ncols xll yll csz nval xy idxcell,
  0 <= nrows <= MAX64 -> 0 <= ncols <= MAX64 -> nrows * ncols <= MAX64 ->
  Zlen xy = 2 * nval -> Zlen idxcell = nval ->
  safe (coord2cell N true nrows ncols xll yll csz nval xy idxcell).
Proof. exact @coord2cell_safe. Qed.
Print Assumptions C05_coord2cell_safe.

(* ... in particular over the reals extended with NaN (None): NaN and huge coordinates included *)
Theorem C05_coord2cell_safe_reals_with_nan : forall nrows ncols xll yll csz nval xy idxcell,
  0 <= nrows <= MAX64 -> 0 <= ncols <= MAX64 -> nrows * ncols <= MAX64 ->
  Zlen xy = 2 * nval -> Zlen idxcell = nval ->
  safe (coord2cell RN true nrows ncols xll yll csz nval xy idxcell).
Proof. exact coord2cell_safe_RN. Qed.
Print Assumptions C05_coord2cell_safe_reals_with_nan.

Example C05_coord2cell_nonvacuous :
  coord2cell F64 true 3 3 0%float 0%float 1%float 3 [0.5; 1.5; nan; 1; 0x1p+1000; 0.5]%float [9; 9; 9]
  = Ret 0 [3; -1; -1].
Proof. vm_compute. reflexivity. Qed.

Theorem C05_coord2cell_pinned_unsafe_nan :
  coord2cell F64 false 3 3 0%float 0%float 1%float 1 [nan; 1]%float [0] = Fail CastRange.
Proof. exact coord2cell_pinned_unsafe_nan. Qed.
Print Assumptions C05_coord2cell_pinned_unsafe_nan.
Theorem C05_coord2cell_pinned_unsafe_huge :
  coord2cell F64 false 3 3 0%float 0%float 1%float 1 [0x1p+1000; 1]%float [0] = Fail CastRange.
Proof. exact coord2cell_pinned_unsafe_huge. Qed.
Print Assumptions C05_coord2cell_pinned_unsafe_huge.
(* the precondition Zlen xy = 2*nval is needed: an (n,1) array read as (n,2) *)
Theorem C05_coord2cell_needs_two_columns :
  coord2cell F64 true 3 3 0%float 0%float 1%float 5 [0; 0; 0; 0; 0]%float [0; 0; 0; 0; 0]
  = Fail (OOB "xycoords" 5).
Proof. exact coord2cell_needs_two_columns. Qed.
Print Assumptions C05_coord2cell_needs_two_columns.

(* c_cell2rowcol, c_cell2coord, c_neighbours: any cell numbers *)
Theorem C05_cell2rowcol_safe : forall nrows ncols nval idxcell rowcols,
  0 <= nrows -> 0 <= ncols -> nrows * ncols <= MAX64 ->
  Zlen idxcell = nval -> Zlen rowcols = 2 * nval ->
  safe (cell2rowcol nrows ncols nval idxcell rowcols).
Proof. exact cell2rowcol_safe. Qed.
Print Assumptions C05_cell2rowcol_safe.

Theorem C05_cell2coord_safe : forall nrows ncols nval idxcell xy,
  0 <= nrows -> 0 <= ncols -> nrows * ncols <= MAX64 ->
  Zlen idxcell = nval -> Zlen xy = 2 * nval ->
  safe (cell2coord nrows ncols nval idxcell xy).
Proof. exact cell2coord_safe. Qed.
Print Assumptions C05_cell2coord_safe.

Theorem C05_neighbours_safe : forall nrows ncols idx nb,
  0 <= nrows -> 0 <= ncols -> nrows * ncols <= MAX64 -> Zlen nb = 9 ->
  safe (neighbours nrows ncols idx nb).
Proof. exact neighbours_safe. Qed.
Print Assumptions C05_neighbours_safe.

(* c_downstream: any flow direction values (valid codes or not), any cell numbers; and what it
   answers: an error, or for every cell -2, -1 or a cell of the grid *)
Theorem C05_downstream_safe : forall nrows ncols code flowdir nval idxup idxdown,
  0 <= nrows -> 0 <= ncols -> nrows * ncols <= MAX64 ->
  Zlen code = 9 -> Zlen flowdir = nrows * ncols -> Zlen idxup = nval -> Zlen idxdown = nval ->
  safe (downstream nrows ncols code flowdir nval idxup idxdown).
Proof. exact downstream_safe. Qed.
Print Assumptions C05_downstream_safe.

Theorem C05_downstream_answers_cells : forall nrows ncols code flowdir nval idxup idxdown,
  0 <= nrows -> 0 <= ncols -> nrows * ncols <= MAX64 ->
  Zlen code = 9 -> Zlen flowdir = nrows * ncols -> Zlen idxup = nval -> Zlen idxdown = nval ->
  post3 (downstream nrows ncols code flowdir nval idxup idxdown) (fun _ => False) (fun _ => False)
        (fun c out => Zlen out = nval /\ (c = 0 \/ c = 1) /\
           (c = 0 -> forall j, 0 <= j < nval ->
              0 <= nth (Z.to_nat j) idxup 0 < nrows * ncols /\
              dgood (nrows * ncols) (nth (Z.to_nat j) out 0)) /\
           (c = 1 -> exists j, 0 <= j < nval /\ ~ (0 <= nth (Z.to_nat j) idxup 0 < nrows * ncols))).
Proof. exact downstream_post. Qed.
Print Assumptions C05_downstream_answers_cells.

(* c_accumulate, c_slope: any flow direction grid (cycles, invalid codes), any nprint
   (0 included), any cap *)
Theorem C05_accumulate_safe : forall nrows ncols nprint maxacc code flowdir ntoacc nacc,
  0 <= ncols -> nrows * ncols <= MAX64 ->
  Zlen code = 9 -> Zlen flowdir = nrows * ncols -> ntoacc = nrows * ncols -> nacc = nrows * ncols ->
  safe (accumulate true nrows ncols nprint maxacc code flowdir ntoacc nacc).
Proof. exact accumulate_safe. Qed.
Print Assumptions C05_accumulate_safe.

Theorem C05_accumulate_pinned_unsafe :
  accumulate false 2 2 0 4 [32; 64; 128; 16; 0; 1; 8; 4; 2] [1; 4; 1; 0] 4 4 = Fail DivZero.
Proof. exact accumulate_pinned_unsafe. Qed.
Print Assumptions C05_accumulate_pinned_unsafe.

Theorem C05_slope_safe : forall nrows ncols nprint code flowdir nalt slopeval,
  0 <= ncols -> nrows * ncols <= MAX64 ->
  Zlen code = 9 -> Zlen flowdir = nrows * ncols -> nalt = nrows * ncols ->
  Zlen slopeval = nrows * ncols ->
  safe (slope true nrows ncols nprint code flowdir nalt slopeval).
Proof. exact slope_safe. Qed.
Print Assumptions C05_slope_safe.

Theorem C05_slope_pinned_unsafe :
  slope false 2 2 0 [32; 64; 128; 16; 0; 1; 8; 4; 2] [1; 4; 1; 0] 4 [false; false; false; false]
  = Fail DivZero.
Proof. exact slope_pinned_unsafe. Qed.
Print Assumptions C05_slope_pinned_unsafe.

(* c_voronoi: any arithmetic, any point coordinates, any number of points (0 included), any
   catchment cells (outside the grid included), empty grids included *)
Theorem C05_voronoi_safe : forall {T} (N : NumOps T) nrows ncols xll yll csz ncells area npoints xyp weights,
  nrows * ncols <= MAX64 -> nrows <= MAX64 ->
  Zlen area = ncells -> Zlen xyp = 2 * npoints -> Zlen weights = npoints ->
  safe (voronoi N true nrows ncols xll yll csz ncells area npoints xyp weights).
Proof. exact @voronoi_safe. Qed.
Print Assumptions C05_voronoi_safe.

Theorem C05_voronoi_pinned_unsafe :
  voronoi F64 false 3 3 0%float 0%float 1%float 6 [0; 1; 2; 3; 4; 5] 1 [1; 1]%float [0%float]
  = Fail (OOB "xypoints" 2).
Proof. exact voronoi_pinned_unsafe. Qed.
Print Assumptions C05_voronoi_pinned_unsafe.
Theorem C05_voronoi_pinned_unsafe_nopoint :
  voronoi F64 false 3 3 0%float 0%float 1%float 1 [0] 0 [] [] = Fail (OOB "xypoints" 0).
Proof. exact voronoi_pinned_unsafe_nopoint. Qed.
Print Assumptions C05_voronoi_pinned_unsafe_nopoint.

(* c_delineate_boundary: any area cells (one cell, scattered, outside the grid), any mask
   content; grids of at most 2^30 rows and columns; over any arithmetic in which the 80 %
   threshold converts to an integer (binary64; the reals) *)
Theorem C05_delineate_boundary_safe : forall {T} (N : NumOps T),
  (forall n, 0 <= n <= MAX64 -> exists z, bd_threshold N n = Ok z) ->
  forall nrows ncols nval area buffer mask out,
  nrows <= LIM -> ncols <= LIM -> nval <= MAX64 ->
  Zlen area = nval -> Zlen buffer = nval -> Zlen mask = nrows * ncols -> Zlen out = nval ->
  safe (delineate_boundary N true nrows ncols nval area buffer mask out).
Proof. exact @delineate_boundary_safe. Qed.
Print Assumptions C05_delineate_boundary_safe.

Theorem C05_delineate_boundary_safe_reals : forall nrows ncols nval area buffer mask out,
  nrows <= LIM -> ncols <= LIM -> nval <= MAX64 ->
  Zlen area = nval -> Zlen buffer = nval -> Zlen mask = nrows * ncols -> Zlen out = nval ->
  safe (delineate_boundary RR true nrows ncols nval area buffer mask out).
Proof. exact delineate_boundary_safe_RR. Qed.
Print Assumptions C05_delineate_boundary_safe_reals.

Example C05_delineate_boundary_nonvacuous :
  exists s, delineate_boundary F64 true 3 3 3 [5; 4; 1] [9; 9; 9] [0; 1; 0; 0; 1; 1; 0; 0; 0] [9; 9; 9]
            = Ret 0 ([1; 4; 5], s) /\ bd_out s = [1; 4; 1].
Proof. eexists. vm_compute. split; reflexivity. Qed.

Theorem C05_delineate_boundary_pinned_unsafe :
  delineate_boundary F64 false 3 3 1 [4] [0] [0; 0; 0; 0; 1; 0; 0; 0; 0] [0]
  = Fail (OOB "buffer" (-1)).
Proof. exact delineate_boundary_pinned_unsafe. Qed.
Print Assumptions C05_delineate_boundary_pinned_unsafe.
Theorem C05_delineate_boundary_pinned_unsafe_cells :
  delineate_boundary F64 false 2 2 2 [-2; -1] [0; 0] [1; 1; 1; 1] [0; 0]
  = Fail (OOB "catchment_area_mask" (-1)).
Proof. exact delineate_boundary_pinned_unsafe_cells. Qed.
Print Assumptions C05_delineate_boundary_pinned_unsafe_cells.

(* ------------------------------------------------------------------ *)
(* the remaining gis kernels (no defect in the pinned code) *)

Example C05_pyx_contract_gis2 :
  pyx_has "gis" "upstream" ["3==flowdircode.shape[0]"; "3==flowdircode.shape[1]"; "9==idxup.shape[1]";
                            "idxdown.shape[0]==idxup.shape[0]"] &&
  pyx_has "gis" "delineate_area" ["3==flowdircode.shape[0]"; "3==flowdircode.shape[1]";
      "buffer1.shape[0]==idxcells_area.shape[0]"; "buffer2.shape[0]==idxcells_area.shape[0]"] &&
  pyx_has "gis" "delineate_river" ["1==npoints.shape[0]"; "3==flowdircode.shape[0]";
      "3==flowdircode.shape[1]"; "5==data.shape[1]"; "data.shape[0]==idxcells.shape[0]"] &&
  pyx_has "gis" "delineate_flowpathlengths_in_catchment" ["3==flowdircode.shape[0]";
      "3==flowdircode.shape[1]"; "3==flowpathlengths.shape[1]";
      "flowpathlengths.shape[0]==idxcells_area.shape[0]"] &&
  pyx_has "gis" "intersect" ["1==npoints.shape[0]"; "2==xy_area.shape[1]";
                             "idxcells.shape[0]==weights.shape[0]"] &&
  pyx_has "gis" "points_inside_polygon" ["2==points.shape[1]"; "2==polygon.shape[1]";
                                         "inside.shape[0]==points.shape[0]"] = true.
Proof. vm_compute. reflexivity. Qed.

Theorem C05_upstream_safe : forall nrows ncols code flowdir nval idxdown idxup,
  0 <= nrows -> 0 <= ncols -> nrows * ncols <= MAX64 ->
  Zlen code = 9 -> Zlen flowdir = nrows * ncols -> Zlen idxdown = nval ->
  Zlen idxup = UPSTREAM_STRIDE * nval ->
  safe (upstream nrows ncols code flowdir nval idxdown idxup).
Proof. exact upstream_safe. Qed.
Print Assumptions C05_upstream_safe.

(* c_delineate_area: any flow direction grid (cycles included), any outlet, any inlets, any
   buffer length nval: every store is behind a "buffer full" test and the walk ends *)
Theorem C05_delineate_area_safe :
  forall nrows ncols code flowdir idxoutlet ninlets idxinlets nval area b1 b2,
  0 <= nrows -> 0 <= ncols -> nrows * ncols <= MAX64 ->
  Zlen code = 9 -> Zlen flowdir = nrows * ncols -> Zlen idxinlets = ninlets ->
  Zlen area = nval -> Zlen b1 = nval -> Zlen b2 = nval ->
  safe (delineate_area nrows ncols code flowdir idxoutlet ninlets idxinlets nval area b1 b2).
Proof. exact delineate_area_safe. Qed.
Print Assumptions C05_delineate_area_safe.

Example C05_delineate_area_nonvacuous :
  exists s, delineate_area 1 3 [32; 64; 128; 16; 0; 1; 8; 4; 2] [1; 1; 0] 2 0 [] 5
              [9; 9; 9; 9; 9] [9; 9; 9; 9; 9] [9; 9; 9; 9; 9] = Ret 0 s /\
            da_area s = [1; 2; 0; 9; 9].
Proof. eexists. vm_compute. split; reflexivity. Qed.

Theorem C05_delineate_river_safe :
  forall nrows ncols code flowdir idxupstream nval npoints idxcells data,
  0 <= nrows -> 0 <= ncols -> nrows * ncols <= MAX64 ->
  Zlen code = 9 -> Zlen flowdir = nrows * ncols ->
  Zlen npoints = 1 -> Zlen idxcells = nval -> Zlen data = RIVER_NCOLS * nval ->
  safe (delineate_river nrows ncols code flowdir idxupstream nval npoints idxcells data).
Proof. exact delineate_river_safe. Qed.
Print Assumptions C05_delineate_river_safe.

Theorem C05_flowpathlengths_safe : forall nrows ncols code flowdir nval area outlet fpl,
  0 <= nrows -> 0 <= ncols -> nrows * ncols <= MAX64 ->
  Zlen code = 9 -> Zlen flowdir = nrows * ncols -> Zlen area = nval -> Zlen fpl = 3 * nval ->
  safe (flowpathlengths nrows ncols code flowdir nval area outlet fpl).
Proof. exact flowpathlengths_safe. Qed.
Print Assumptions C05_flowpathlengths_safe.

(* c_intersect: grid.py allocates one slot per cell of the intersecting grid; the kernel does
   not test the fill level but never needs more (the stored cells are pairwise distinct cells of
   that grid: pigeonhole).  Any coordinates (NaN, huge), any cell size. *)
Theorem C05_intersect_safe : forall {T} (N : NumOps T),
  (forall x n, 0 <= n <= MAX64 -> nleb N (n0 N) x = true -> nltb N x (nofZ N n) = true ->
     exists z, ntrunc N x = Some z /\ 0 <= z < n) ->
  forall nrows ncols xll yll csz nval xy npoints idxcells weights,
  0 <= nrows <= MAX64 -> 0 <= ncols <= MAX64 -> nrows * ncols <= MAX64 ->
  Zlen xy = 2 * nval -> Zlen npoints = 1 ->
  Zlen idxcells = nrows * ncols -> Zlen weights = nrows * ncols ->
  safe (intersect N true nrows ncols xll yll csz nval xy npoints idxcells weights).
Proof. exact @intersect_safe. Qed.
Print Assumptions C05_intersect_safe.

Theorem C05_intersect_safe_reals_with_nan :
  forall nrows ncols xll yll csz nval xy npoints idxcells weights,
  0 <= nrows <= MAX64 -> 0 <= ncols <= MAX64 -> nrows * ncols <= MAX64 ->
  Zlen xy = 2 * nval -> Zlen npoints = 1 ->
  Zlen idxcells = nrows * ncols -> Zlen weights = nrows * ncols ->
  safe (intersect RN true nrows ncols xll yll csz nval xy npoints idxcells weights).
Proof. exact intersect_safe_RN. Qed.
Print Assumptions C05_intersect_safe_reals_with_nan.

(* c_inside: at least one vertex (the wrapper's min()/max() raise on an empty polygon) *)
Theorem C05_inside_safe : forall {T} (N : NumOps T) nprint npoints points nvertices polygon xlim ylim ins,
  1 <= nvertices <= 1073741823 ->
  Zlen points = 2 * npoints -> Zlen polygon = 2 * nvertices -> Zlen xlim = 2 -> Zlen ylim = 2 ->
  Zlen ins = npoints ->
  safe (inside N nprint npoints points nvertices polygon xlim ylim ins).
Proof. exact @inside_safe. Qed.
Print Assumptions C05_inside_safe.

(* ================================================================== *)
(* stat kernels: any arithmetic instance, any values *)

Example C05_pyx_contract_stat :
  pyx_has "stat" "armodel_sim" ["inputs.shape[0]==outputs.shape[0]"] &&
  pyx_has "stat" "armodel_residual" ["inputs.shape[0]==residuals.shape[0]"] &&
  pyx_has "stat" "crps" ["5==crps_decompos.shape[0]"; "7==reliability_table.shape[1]";
                         "obs.shape[0]==sim.shape[0]"; "reliability_table.shape[0]==sim.shape[1]+1"] &&
  pyx_has "stat" "ensrank" ["fmat.shape[0]==sim.shape[0]"; "fmat.shape[1]==sim.shape[0]";
                            "ranks.shape[0]==sim.shape[0]"] &&
  pyx_has "stat" "ad_test" ["2==outputs.shape[0]"] &&
  pyx_has "stat" "pareto_front" ["data.shape[0]==isdominated.shape[0]"] = true.
Proof. vm_compute. reflexivity. Qed.

(* every order the kernels accept (1..ARMODEL_NPARAMSMAX) fits the lag buffer they declare
   (both sizes re-extracted from the source) *)
Theorem C05_armodel_safe : forall {T} (N : NumOps T) resid nval nparams mean ini params inputs outputs,
  Zlen params = nparams -> Zlen inputs = nval -> Zlen outputs = nval ->
  safe (armodel N resid nval nparams mean ini params inputs outputs).
Proof. exact @armodel_safe. Qed.
Print Assumptions C05_armodel_safe.

Example C05_armodel_order_bounds : ARMODEL_NPARAMSMAX <= ARMODEL_PREV_SIZE.
Proof. vm_compute. discriminate. Qed.

Theorem C05_crps_safe : forall {T} (N : NumOps T) nval ncol use_weights nobs sim nweights table ndec,
  1 <= ncol -> 0 <= nval -> nval * ncol <= INT_MAX -> (ncol + 1) * CRPS_TABLE_NCOLS <= INT_MAX ->
  nobs = nval -> Zlen sim = nval * ncol -> nweights = nval ->
  Zlen table = (ncol + 1) * CRPS_TABLE_NCOLS -> ndec = 5 ->
  safe (crps N nval ncol use_weights nobs sim nweights table ndec).
Proof. exact @crps_safe. Qed.
Print Assumptions C05_crps_safe.

(* without a member the kernel reads ensemb[-1]: metrics.py excludes it ("No valid data") *)
Example C05_crps_needs_a_member :
  crps F64 1 0 0 1 [] 1 [false; false; false; false; false; false; false] 5
  = Fail (OOB "ensemb" (-1)).
Proof. vm_compute. reflexivity. Qed.

Theorem C05_ensrank_safe : forall {T} (N : NumOps T) eps nval ncol nsim fmat ranks,
  nval * nval <= INT_MAX -> nval * ncol <= INT_MAX -> 2 * ncol <= INT_MAX ->
  nsim = nval * ncol -> Zlen fmat = nval * nval -> Zlen ranks = nval ->
  safe (ensrank N eps nval ncol nsim fmat ranks).
Proof. exact @ensrank_safe. Qed.
Print Assumptions C05_ensrank_safe.

Theorem C05_adtest_safe : forall {T} (N : NumOps T) n x outputs,
  Zlen x = n -> Zlen outputs = 2 -> safe (adtest N n x outputs).
Proof. exact @adtest_safe. Qed.
Print Assumptions C05_adtest_safe.

Theorem C05_paretofront_safe : forall {T} (N : NumOps T) nval ncol orient data isdom,
  0 <= ncol -> nval * ncol <= INT_MAX -> Zlen data = nval * ncol -> Zlen isdom = nval ->
  safe (paretofront N nval ncol orient data isdom).
Proof. exact @paretofront_safe. Qed.
Print Assumptions C05_paretofront_safe.

(* ================================================================== *)
(* the c-module date helpers *)

Example C05_pyx_contract_dates :
  pyx_has "data" "add1month" ["3==date.shape[0]"] && pyx_has "data" "add1day" ["3==date.shape[0]"] &&
  pyx_has "data" "comparedates" ["3==date1.shape[0]"; "3==date2.shape[0]"] &&
  pyx_has "data" "getdate" ["3==date.shape[0]"] = true.
Proof. vm_compute. reflexivity. Qed.

Theorem C05_daysinmonth_safe : forall year month,
  exists n, daysinmonth year month = Ok n /\ -1 <= n <= 31.
Proof. exact daysinmonth_ok. Qed.
Print Assumptions C05_daysinmonth_safe.
Theorem C05_dayofyear_safe : forall month day, exists n, dayofyear month day = Ok n.
Proof. exact dayofyear_safe. Qed.
Print Assumptions C05_dayofyear_safe.

Theorem C05_add1month_safe : forall date,
  Zlen date = 3 -> Forall int32 date -> safe (add1month true date).
Proof. exact add1month_safe. Qed.
Print Assumptions C05_add1month_safe.
Theorem C05_add1month_pinned_unsafe : add1month false [2147483647; 12; 1] = Fail Overflow.
Proof. exact add1month_pinned_unsafe. Qed.
Print Assumptions C05_add1month_pinned_unsafe.
Theorem C05_add1day_safe : forall date,
  Zlen date = 3 -> Forall int32 date -> safe (add1day true date).
Proof. exact add1day_safe. Qed.
Print Assumptions C05_add1day_safe.
Theorem C05_add1day_pinned_unsafe : add1day false [2147483647; 12; 31] = Fail Overflow.
Proof. exact add1day_pinned_unsafe. Qed.
Print Assumptions C05_add1day_pinned_unsafe.
Theorem C05_comparedates_safe : forall d1 d2,
  Zlen d1 = 3 -> Zlen d2 = 3 -> safe (comparedates d1 d2).
Proof. exact comparedates_safe. Qed.
Print Assumptions C05_comparedates_safe.

(* getdate: any day number, NaN included (reals with a NaN) *)
Theorem C05_getdate_safe_reals_with_nan : forall day date,
  Zlen date = 3 -> safe (getdate RN true day date).
Proof. exact getdate_safe_RN. Qed.
Print Assumptions C05_getdate_safe_reals_with_nan.
Theorem C05_getdate_pinned_unsafe :
  getdate F64 false 0x1p+1000%float [0; 0; 0] = Fail CastRange /\
  getdate F64 false nan [0; 0; 0] = Fail CastRange.
Proof. split; [exact getdate_pinned_unsafe|exact getdate_pinned_unsafe_nan]. Qed.
Print Assumptions C05_getdate_pinned_unsafe.
Example C05_getdate_fixed :
  getdate F64 true 0x1p+1000%float [0; 0; 0] = Ret 1 [0; 0; 0] /\
  getdate F64 true nan [0; 0; 0] = Ret 1 [0; 0; 0] /\
  getdate F64 true 20000229%float [0; 0; 0] = Ret 0 [2000; 2; 29].
Proof. exact getdate_fixed_rejects. Qed.

(* ------------------------------------------------------------------ *)
(* Allocation contracts of the Python call sites (Gen/ConstsC05.v, PY_KERNEL_CALLS): the
   buffer lengths assumed by the theorems above (`Zlen idxcells = nrows * ncols`, `Zlen weights
   = nval`, ...) are established either by a relation the Cython wrapper asserts (the
   `pyx_contract` examples) or ONLY by the expression with which the Python function allocates
   the buffer - c_intersect's idxcells / weights (the wrapper merely checks that the two have
   the same length and the kernel ignores its ncells argument) and c_crps's weights.  Each
   example states, for one call site, the allocation (dtype arguments left out) of every
   buffer the function creates, followed by the definitions of the local names it uses, as
   re-extracted from the tree under test; `C05_py_call_sites` states that there is no other
   call of a compiled wrapper in the data, stat and gis packages.  An allocation that is
   edited, a new call site or a removed one breaks these examples: the hypotheses of the
   theorems then have to be re-established against the new expression. *)
Open Scope string_scope.
Example C05_py_call_sites : py_call_sites = [
  ("data", "aggregate", "aggregate");
  ("data", "flathomogen", "flathomogen");
  ("data", "var2h", "var2h");
  ("data", "islinear", "islin");
  ("data", "eckhardt", "eckhardt");
  ("stat", "armodel_sim", "armodel_sim");
  ("stat", "armodel_residual", "armodel_residual");
  ("stat", "crps", "crps");
  ("stat", "anderson_darling_test", "ad_test");
  ("stat", "dscore", "ensrank");
  ("stat", "pareto_front", "pareto_front");
  ("gis", "Grid.coord2cell", "coord2cell");
  ("gis", "Grid.cell2coord", "cell2coord");
  ("gis", "Grid.cell2rowcol", "cell2rowcol");
  ("gis", "Grid.neighbours", "neighbours");
  ("gis", "Grid.slice", "slice");
  ("gis", "Catchment.upstream", "upstream");
  ("gis", "Catchment.downstream", "downstream");
  ("gis", "Catchment.delineate_area", "delineate_area");
  ("gis", "Catchment.delineate_boundary", "delineate_boundary");
  ("gis", "Catchment.delineate_boundary", "exclude_zero_area_boundary");
  ("gis", "Catchment.compute_flowpathlengths", "delineate_flowpathlengths_in_catchment");
  ("gis", "Catchment.intersect", "intersect");
  ("gis", "delineate_river", "delineate_river");
  ("gis", "accumulate", "accumulate");
  ("gis", "voronoi", "voronoi");
  ("gis", "slope", "slope");
  ("gis", "points_inside_polygon", "points_inside_polygon")
].
Proof. vm_compute. reflexivity. Qed.

Example C05_py_alloc_data_aggregate :
  py_allocs "data" "aggregate" "aggregate" = [[
   ("outputs",
    "outputs:=0.0*inputs ; inputs:=inputs")]].
Proof. vm_compute. reflexivity. Qed.

Example C05_py_alloc_data_flathomogen :
  py_allocs "data" "flathomogen" "flathomogen" = [[
   ("outputs",
    "outputs:=0.0*inputs ; inputs:=inputs")]].
Proof. vm_compute. reflexivity. Qed.

Example C05_py_alloc_data_var2h :
  py_allocs "data" "var2h" "var2h" = [[
   ("hvalues",
    "hvalues:=np.nan*np.ones(nvalh) ; nvalh:=np.int32((wall[-1]-wall[0]).total_seconds()/nbsec_per_period) ; nbsec_per_period:=np.int32(nbsec_per_period) ; wall:=se.index.tz_localize(None)")]].
Proof. vm_compute. reflexivity. Qed.

Example C05_py_alloc_data_islinear_islin :
  py_allocs "data" "islinear" "islin" = [[
   ("islin",
    "islin:=np.zeros(len(data))")]].
Proof. vm_compute. reflexivity. Qed.

Example C05_py_alloc_data_eckhardt :
  py_allocs "data" "eckhardt" "eckhardt" = [[
   ("bflow",
    "bflow:=np.zeros(len(flow)) ; flow:=np.array(flow)")]].
Proof. vm_compute. reflexivity. Qed.

Example C05_py_alloc_stat_armodel_sim :
  py_allocs "stat" "armodel_sim" "armodel_sim" = [[
   ("outputs",
    "outputs:=np.zeros_like(innov) ; innov:=np.atleast_1d(innov) ; innov:=np.ascontiguousarray(innov)")]].
Proof. vm_compute. reflexivity. Qed.

Example C05_py_alloc_stat_armodel_residual :
  py_allocs "stat" "armodel_residual" "armodel_residual" = [[
   ("residuals",
    "residuals:=np.zeros_like(inputs) ; inputs:=np.atleast_1d(inputs) ; inputs:=np.ascontiguousarray(inputs)")]].
Proof. vm_compute. reflexivity. Qed.

(* c_crps: one weight per forecast kept by __check_ensemble_data (hypothesis `nweights = nval` of
   C05_crps_safe; not asserted by the wrapper) *)
Example C05_py_alloc_stat_crps :
  py_allocs "stat" "crps" "crps" = [[
   ("weights",
    "weights:=np.zeros(nforc) ; (obs,ens,nforc,nens):=__check_ensemble_data(obs,ens)");
   ("table",
    "table:=np.zeros((nens+1,7)) ; (obs,ens,nforc,nens):=__check_ensemble_data(obs,ens)");
   ("decompos",
    "decompos:=np.zeros(5)")]].
Proof. vm_compute. reflexivity. Qed.

Example C05_py_alloc_stat_anderson_darling_test_ad_test :
  py_allocs "stat" "anderson_darling_test" "ad_test" = [[
   ("outputs",
    "outputs:=np.zeros(2)")]].
Proof. vm_compute. reflexivity. Qed.

Example C05_py_alloc_stat_dscore_ensrank :
  py_allocs "stat" "dscore" "ensrank" = [[
   ("fmat",
    "fmat:=np.zeros((nval,nval)) ; (nval,nens):=sim.shape ; sim:=np.atleast_2d(sim)");
   ("franks",
    "franks:=np.argsort(np.argsort(sim[:,0])) ; sim:=np.atleast_2d(sim) ; franks:=np.zeros(nval) ; (nval,nens):=sim.shape")]].
Proof. vm_compute. reflexivity. Qed.

Example C05_py_alloc_stat_pareto_front :
  py_allocs "stat" "pareto_front" "pareto_front" = [[
   ("isdominated",
    "isdominated:=np.zeros(data.shape[0]) ; data:=data ; data:=np.ascontiguousarray(data)")]].
Proof. vm_compute. reflexivity. Qed.

Example C05_py_alloc_gis_Grid_coord2cell :
  py_allocs "gis" "Grid.coord2cell" "coord2cell" = [[
   ("idxcell",
    "idxcell:=np.zeros(len(xycoords)) ; xycoords:=np.ascontiguousarray(np.atleast_2d(xycoords))")]].
Proof. vm_compute. reflexivity. Qed.

Example C05_py_alloc_gis_Grid_cell2coord :
  py_allocs "gis" "Grid.cell2coord" "cell2coord" = [[
   ("xycoords",
    "xycoords:=np.zeros((len(idxcells),2)) ; idxcells:=np.ascontiguousarray(np.atleast_1d(idxcells))")]].
Proof. vm_compute. reflexivity. Qed.

Example C05_py_alloc_gis_Grid_cell2rowcol :
  py_allocs "gis" "Grid.cell2rowcol" "cell2rowcol" = [[
   ("rowcols",
    "rowcols:=np.zeros((len(idxcells),2)) ; idxcells:=np.ascontiguousarray(np.atleast_1d(idxcells))")]].
Proof. vm_compute. reflexivity. Qed.

Example C05_py_alloc_gis_Grid_neighbours :
  py_allocs "gis" "Grid.neighbours" "neighbours" = [[
   ("neighbours",
    "neighbours:=np.zeros(9)")]].
Proof. vm_compute. reflexivity. Qed.

Example C05_py_alloc_gis_Grid_slice :
  py_allocs "gis" "Grid.slice" "slice" = [[
   ("zslice",
    "zslice:=np.zeros(len(xyslice)) ; xyslice:=np.ascontiguousarray(np.atleast_2d(xyslice))")]].
Proof. vm_compute. reflexivity. Qed.

Example C05_py_alloc_gis_Catchment_upstream :
  py_allocs "gis" "Catchment.upstream" "upstream" = [[
   ("idxup",
    "idxup:=np.zeros((len(idxdown),9)) ; idxdown:=np.atleast_1d(idxdown)")]].
Proof. vm_compute. reflexivity. Qed.

Example C05_py_alloc_gis_Catchment_downstream :
  py_allocs "gis" "Catchment.downstream" "downstream" = [[
   ("idxdown",
    "idxdown:=np.zeros(len(idxup)) ; idxup:=np.atleast_1d(idxup)")]].
Proof. vm_compute. reflexivity. Qed.

Example C05_py_alloc_gis_Catchment_delineate_area :
  py_allocs "gis" "Catchment.delineate_area" "delineate_area" = [[
   ("idxinlets",
    "idxinlets:=-1*np.ones(0) ; idxinlets:=np.atleast_1d(idxinlets)");
   ("idxcells",
    "idxcells:=-1*np.ones(nval)");
   ("buffer1",
    "buffer1:=-1*np.ones(nval)");
   ("buffer2",
    "buffer2:=-1*np.ones(nval)")]].
Proof. vm_compute. reflexivity. Qed.

Example C05_py_alloc_gis_Catchment_delineate_boundary :
  py_allocs "gis" "Catchment.delineate_boundary" "delineate_boundary" = [[
   ("buf",
    "buf:=-1*np.ones(nval) ; nval:=np.int64(len(cells_area)) ; cells_area:=self._idxcells_area_filled");
   ("catchment_area_mask",
    "catchment_area_mask:=np.zeros(nrows*ncols) ; ncols:=self._flowdir.ncols ; nrows:=self._flowdir.nrows");
   ("idxcells_boundary",
    "idxcells_boundary:=-1*np.ones(nval) ; nval:=np.int64(len(cells_area)) ; cells_area:=self._idxcells_area_filled")]].
Proof. vm_compute. reflexivity. Qed.

Example C05_py_alloc_gis_Catchment_delineate_boundary_exclude_zero_area_boundary :
  py_allocs "gis" "Catchment.delineate_boundary" "exclude_zero_area_boundary" = [[
   ("idxok",
    "idxok:=np.zeros(nrows) ; nrows:=self._flowdir.nrows ; nrows:=len(xy) ; xy:=self._flowdir.cell2coord(idxcells_boundary) ; idxcells_boundary:=-1*np.ones(nval) ; nval:=np.int64(len(cells_area)) ; cells_area:=self._idxcells_area_filled ; idxcells_boundary:=idxcells_boundary[idx] ; idx:=idxcells_boundary>=0")]].
Proof. vm_compute. reflexivity. Qed.

Example C05_py_alloc_gis_Catchment_compute_flowpathlengths_delineate_flowpathlengths_in_catchment :
  py_allocs "gis" "Catchment.compute_flowpathlengths" "delineate_flowpathlengths_in_catchment" = [[
   ("flowpaths",
    "flowpaths:=np.zeros((nval,3)) ; nval:=np.int64(len(idxcells_area)) ; idxcells_area:=self.idxcells_area")]].
Proof. vm_compute. reflexivity. Qed.

(* c_intersect: one slot per cell of the second grid in idxcells and weights, nrows and ncols being
   the ones passed to the kernel (hypotheses `Zlen idxcells = nrows * ncols`, `Zlen weights = nrows *
   ncols` of C05_intersect_safe; not asserted by the wrapper) *)
Example C05_py_alloc_gis_Catchment_intersect :
  py_allocs "gis" "Catchment.intersect" "intersect" = [[
   ("npoints",
    "npoints:=np.zeros((1,))");
   ("idxcells",
    "idxcells:=np.zeros(nrows*ncols) ; (xll,yll,csz,nrows,ncols):=grid._getsize()");
   ("weights",
    "weights:=np.zeros(nrows*ncols) ; (xll,yll,csz,nrows,ncols):=grid._getsize()")]].
Proof. vm_compute. reflexivity. Qed.

Example C05_py_alloc_gis_delineate_river :
  py_allocs "gis" "delineate_river" "delineate_river" = [[
   ("npoints",
    "npoints:=np.zeros((1,))");
   ("idxcells",
    "idxcells:=-1*np.ones(nval)");
   ("data",
    "data:=np.zeros((nval,5))")]].
Proof. vm_compute. reflexivity. Qed.

Example C05_py_alloc_gis_accumulate :
  py_allocs "gis" "accumulate" "accumulate" = [[
   ("to_accumulate.data",
    "to_accumulate:=flowdir.clone()");
   ("accumulation.data",
    "accumulation:=to_accumulate.clone() ; to_accumulate:=flowdir.clone()")]].
Proof. vm_compute. reflexivity. Qed.

Example C05_py_alloc_gis_voronoi :
  py_allocs "gis" "voronoi" "voronoi" = [[
   ("weights",
    "weights:=np.zeros(xypoints.shape[0]) ; xypoints:=np.atleast_2d(xypoints)")]].
Proof. vm_compute. reflexivity. Qed.

Example C05_py_alloc_gis_slope :
  py_allocs "gis" "slope" "slope" = [[
   ("slopeval.data",
    "slopeval:=altitude.clone()")]].
Proof. vm_compute. reflexivity. Qed.

Example C05_py_alloc_gis_points_inside_polygon :
  py_allocs "gis" "points_inside_polygon" "points_inside_polygon" = [[
   ("inside",
    "inside:=np.zeros(len(points)) ; points:=points")]].
Proof. vm_compute. reflexivity. Qed.

Close Scope string_scope.

(* ================================================================== *)
(* SAFE EXECUTION OF THE REGENERATED PROGRAM.  [program] is the MiniC    *)
(* translation of the C kernels produced from the tree under test on     *)
(* every run (Gen/KernelsAst.v).  Its interpreter [exec_fun] checks every *)
(* array access (Err (OOB a i)), every integer division / remainder by   *)
(* zero (Err DivZero) and every double -> integer conversion (Err        *)
(* CastRange): a theorem  exec_fun ... = Ok ...  for ALL arguments that  *)
(* satisfy the Cython wrapper's buffer-length contract says that the     *)
(* kernel, as written in the tree under test, terminates and does none   *)
(* of those three things - unlike the theorems above, which are about    *)
(* hand-written index models.  Signed overflow is NOT modelled by MiniC  *)
(* (integers are Z): it stays with the models above.  Kernels with a     *)
(* functional refinement theorem (Props/C06..C17, C0x_kernel_..) get     *)
(* their safety theorem as a corollary (Proofs/KernelSafety.v); the      *)
(* others are proved directly (Proofs/Safe{Data,Gis,Stat}.v).            *)
(* [ext_total X f]: the libm function f is interpreted for every         *)
(* argument; ADf / ADinf / c_ad_probexactinf reach the untranslated      *)
(* cPhi (long double) and are covered only on the paths that return      *)
(* before it.                                                            *)
(* ================================================================== *)
From Coq Require Import String Lia.
From Hy Require Import Base.MiniC Gen.KernelsAst Gen.Consts Model.Grid.
From Hy Require Proofs.SafeStat Proofs.SafeData Proofs.SafeGis Proofs.KernelSafety Proofs.KernelArmodel Proofs.KernelFlow.
Import ListNotations.
Open Scope string_scope.
Open Scope list_scope.
Open Scope Z_scope.

Theorem C05_kernel_c_combi :
  forall (T : Type) (N : NumOps T) (X : NumLit T) (n k : Z) (fuel : nat),
       (30 < fuel)%nat ->
       exists ret : Z,
         exec_fun N X program (S fuel) "c_combi" [AVI n; AVI k] = Ok (RI ret, []) /\
         ((30 <? k) || (30 <? n - k) = true -> ret = -1).
Proof. exact @SafeStat.safe_c_combi. Qed.
Print Assumptions C05_kernel_c_combi.

Theorem C05_kernel_c_olsleverage :
  forall (T : Type) (N : NumOps T) (X : NumLit T) (nval np : Z) (P Xi L : list T) (fuel : nat),
       (0 < nval -> 0 < np -> nval * np <= zlen P /\ np * np <= zlen Xi /\ nval <= zlen L) ->
       (Z.to_nat nval < fuel)%nat ->
       (Z.to_nat np < fuel)%nat ->
       exists L' : list T,
         exec_fun N X program (S fuel) "c_olsleverage"
           [AVI nval; AVI np; AVArrF P; AVArrF Xi; AVArrF L] =
         Ok (RI 0, [VArrF P; VArrF Xi; VArrF L']) /\ Datatypes.length L' = Datatypes.length L.
Proof. exact @SafeStat.safe_c_olsleverage. Qed.
Print Assumptions C05_kernel_c_olsleverage.

Theorem C05_kernel_ad_compare :
  forall (T : Type) (N : NumOps T) (X : NumLit T) (a b : T) (r1 r2 : list T) (fuel : nat),
       exists c : Z,
         exec_fun N X program (S fuel) "c_andersondarling.compare"
           [AVArrF (a :: r1); AVArrF (b :: r2)] = Ok (RI c, [VArrF (a :: r1); VArrF (b :: r2)]) /\
         -1 <= c <= 1.
Proof. exact @SafeStat.safe_ad_compare. Qed.
Print Assumptions C05_kernel_ad_compare.

Theorem C05_kernel_adinf :
  forall (T : Type) (N : NumOps T) (X : NumLit T) (z : T) (fuel : nat),
       SafeStat.ext_total X "exp" ->
       exists r : T, exec_fun N X program (S fuel) "adinf" [AVF z] = Ok (RF r, []).
Proof. exact @SafeStat.safe_adinf. Qed.
Print Assumptions C05_kernel_adinf.

Theorem C05_kernel_errfix :
  forall (T : Type) (N : NumOps T) (X : NumLit T) (n : Z) (x : T) (fuel : nat),
       exists r : T, exec_fun N X program (S fuel) "errfix" [AVI n; AVF x] = Ok (RF r, []).
Proof. exact @SafeStat.safe_errfix. Qed.
Print Assumptions C05_kernel_errfix.

Theorem C05_kernel_AD :
  forall (T : Type) (N : NumOps T) (X : NumLit T) (n : Z) (z : T) (fuel : nat),
       SafeStat.ext_total X "exp" ->
       (0 < fuel)%nat ->
       exists r : T, exec_fun N X program (S fuel) "AD" [AVI n; AVF z] = Ok (RF r, []).
Proof. exact @SafeStat.safe_AD. Qed.
Print Assumptions C05_kernel_AD.

Theorem C05_kernel_ADtest :
  forall (T : Type) (N : NumOps T) (X : NumLit T) (n : Z) (x outs : list T) (fuel : nat),
       SafeStat.ext_total X "exp" ->
       SafeStat.ext_total X "log" ->
       n <= zlen x ->
       2 <= zlen outs ->
       (Z.to_nat n < fuel)%nat ->
       (1 < fuel)%nat ->
       exists (code : Z) (outs' : list T),
         exec_fun N X program (S fuel) "ADtest" [AVI n; AVArrF x; AVArrF outs] =
         Ok (RI code, [VArrF x; VArrF outs']) /\
         0 <= code /\ Datatypes.length outs' = Datatypes.length outs.
Proof. exact @SafeStat.safe_ADtest. Qed.
Print Assumptions C05_kernel_ADtest.

Theorem C05_kernel_c_ad_test :
  forall (T : Type) (N : NumOps T) (X : NumLit T) (nval : Z) (unifdata outs : list T)
         (fuel : nat),
       SafeStat.ext_total X "exp" ->
       SafeStat.ext_total X "log" ->
       0 <= nval <= zlen unifdata ->
       2 <= zlen outs ->
       (S (Z.to_nat nval) < fuel)%nat ->
       (2 < fuel)%nat ->
       exists (code : Z) (data' outs' : list T),
         exec_fun N X program (S fuel) "c_ad_test" [AVI nval; AVArrF unifdata; AVArrF outs] =
         Ok (RI code, [VArrF data'; VArrF outs']) /\
         0 <= code /\
         Datatypes.length data' = Datatypes.length unifdata /\
         Datatypes.length outs' = Datatypes.length outs.
Proof. exact @SafeStat.safe_c_ad_test. Qed.
Print Assumptions C05_kernel_c_ad_test.

Theorem C05_kernel_c_ad_probapproxinf :
  forall (T : Type) (N : NumOps T) (X : NumLit T) (nval : Z) (U P : list T) (fuel : nat),
       SafeStat.ext_total X "exp" ->
       nval <= zlen U ->
       nval <= zlen P ->
       (Z.to_nat nval < fuel)%nat ->
       (0 < fuel)%nat ->
       exists P' : list T,
         exec_fun N X program (S fuel) "c_ad_probapproxinf" [AVI nval; AVArrF U; AVArrF P] =
         Ok (RI 0, [VArrF U; VArrF P']) /\ Datatypes.length P' = Datatypes.length P.
Proof. exact @SafeStat.safe_c_ad_probapproxinf. Qed.
Print Assumptions C05_kernel_c_ad_probapproxinf.

Theorem C05_kernel_c_ad_probn :
  forall (T : Type) (N : NumOps T) (X : NumLit T) (nval nsample : Z) 
         (U P : list T) (fuel : nat),
       SafeStat.ext_total X "exp" ->
       nval <= zlen U ->
       nval <= zlen P ->
       (Z.to_nat nval < fuel)%nat ->
       (1 < fuel)%nat ->
       exists P' : list T,
         exec_fun N X program (S fuel) "c_ad_probn" [AVI nval; AVI nsample; AVArrF U; AVArrF P] =
         Ok (RI 0, [VArrF U; VArrF P']) /\ Datatypes.length P' = Datatypes.length P.
Proof. exact @SafeStat.safe_c_ad_probn. Qed.
Print Assumptions C05_kernel_c_ad_probn.

Theorem C05_kernel_ADf_early :
  forall (T : Type) (N : NumOps T) (X : NumLit T) (z : T) (j : Z) (fuel : nat),
       nltb N (SafeStat.lit_150 X) (SafeStat.adf_t N X z j) = true ->
       exec_fun N X program (S fuel) "ADf" [AVF z; AVI j] = Ok (RF (SafeStat.lit_0 X), []).
Proof. exact @SafeStat.safe_ADf_early. Qed.
Print Assumptions C05_kernel_ADf_early.

Theorem C05_kernel_unsafe_ADf_cPhi :
  forall (T : Type) (N : NumOps T) (X : NumLit T) (z : T) (j : Z) (fuel : nat),
       SafeStat.ext_total X "exp" ->
       (0 < fuel)%nat ->
       nltb N (SafeStat.lit_150 X) (SafeStat.adf_t N X z j) = false ->
       exec_fun N X program (S fuel) "ADf" [AVF z; AVI j] = Err (NoFun "cPhi").
Proof. exact @SafeStat.unsafe_ADf_cPhi. Qed.
Print Assumptions C05_kernel_unsafe_ADf_cPhi.

Theorem C05_kernel_ADinf_small :
  forall (T : Type) (N : NumOps T) (X : NumLit T) (z : T) (fuel : nat),
       nltb N z (SafeStat.lit_001 X) = true ->
       exec_fun N X program (S fuel) "ADinf" [AVF z] = Ok (RF (SafeStat.lit_0 X), []).
Proof. exact @SafeStat.safe_ADinf_small. Qed.
Print Assumptions C05_kernel_ADinf_small.

Theorem C05_kernel_c_ad_probexactinf_small :
  forall (T : Type) (N : NumOps T) (X : NumLit T) (nval : Z) (U P : list T) (fuel : nat),
       (forall (i : Z) (u : T),
        0 <= i < nval -> zget U i = Some u -> nltb N u (SafeStat.lit_001 X) = true) ->
       nval <= zlen U ->
       nval <= zlen P ->
       (Z.to_nat nval < fuel)%nat ->
       (0 < fuel)%nat ->
       exists P' : list T,
         exec_fun N X program (S fuel) "c_ad_probexactinf" [AVI nval; AVArrF U; AVArrF P] =
         Ok (RI 0, [VArrF U; VArrF P']) /\ Datatypes.length P' = Datatypes.length P.
Proof. exact @SafeStat.safe_c_ad_probexactinf_small. Qed.
Print Assumptions C05_kernel_c_ad_probexactinf_small.

Theorem C05_kernel_c_dateutils_isleapyear :
  forall (T : Type) (N : NumOps T) (X : NumLit T) (year : Z) (n : nat),
       exec_fun N X program (S n) "c_dateutils_isleapyear" [AVI year] =
       Ok (RI (b2z (Dutils.is_leap year)), []).
Proof. exact @SafeData.safe_c_dateutils_isleapyear. Qed.
Print Assumptions C05_kernel_c_dateutils_isleapyear.

Theorem C05_kernel_c_dateutils_daysinmonth :
  forall (T : Type) (N : NumOps T) (X : NumLit T) (year month : Z) (n : nat),
       (0 < n)%nat ->
       exec_fun N X program (S n) "c_dateutils_daysinmonth" [AVI year; AVI month] =
       Ok (RI (Dutils.days_in_month year month), []).
Proof. exact @SafeData.safe_c_dateutils_daysinmonth. Qed.
Print Assumptions C05_kernel_c_dateutils_daysinmonth.

Theorem C05_kernel_c_dateutils_dayofyear :
  forall (T : Type) (N : NumOps T) (X : NumLit T) (month day : Z) (n : nat),
       exec_fun N X program (S n) "c_dateutils_dayofyear" [AVI month; AVI day] =
       Ok (RI (SafeData.day_of_year month day), []).
Proof. exact @SafeData.safe_c_dateutils_dayofyear. Qed.
Print Assumptions C05_kernel_c_dateutils_dayofyear.

Theorem C05_kernel_c_dateutils_add1month :
  forall (T : Type) (N : NumOps T) (X : NumLit T) (y m d : Z) (rest : list Z) (n : nat),
       (1 < n)%nat ->
       exists (ret : Z) (out : list Z),
         exec_fun N X program (S n) "c_dateutils_add1month" [AVArrI (y :: m :: d :: rest)] =
         Ok (RI ret, [VArrI out]) /\
         Datatypes.length out = Datatypes.length (y :: m :: d :: rest) /\
         (if negb (m <? 12) && (y =? SafeData.INT_MAX)
          then 0 < ret /\ out = y :: m :: d :: rest
          else
           match Dutils.c_add1month (y, m, d) with
           | Some (y', m', d') => ret = 0 /\ out = y' :: m' :: d' :: rest
           | None => 0 < ret /\ out = y :: m + 1 :: d :: rest
           end).
Proof. exact @SafeData.safe_c_dateutils_add1month. Qed.
Print Assumptions C05_kernel_c_dateutils_add1month.

Theorem C05_kernel_c_dateutils_add1day :
  forall (T : Type) (N : NumOps T) (X : NumLit T) (y m d : Z) (rest : list Z) (n : nat),
       (1 < n)%nat ->
       exists (ret : Z) (out : list Z),
         exec_fun N X program (S n) "c_dateutils_add1day" [AVArrI (y :: m :: d :: rest)] =
         Ok (RI ret, [VArrI out]) /\
         Datatypes.length out = Datatypes.length (y :: m :: d :: rest) /\
         match Dutils.c_add1day (y, m, d) with
         | Some (y', m', d') =>
             if (d =? Dutils.days_in_month y m) && negb (m <? 12) && (y =? SafeData.INT_MAX)
             then 0 < ret /\ out = y :: m :: 1 :: rest
             else ret = 0 /\ out = y' :: m' :: d' :: rest
         | None => 0 < ret /\ out = y :: m :: d :: rest
         end.
Proof. exact @SafeData.safe_c_dateutils_add1day. Qed.
Print Assumptions C05_kernel_c_dateutils_add1day.

Theorem C05_kernel_c_dateutils_comparedates :
  forall (T : Type) (N : NumOps T) (X : NumLit T) (a0 a1 a2 : Z) (r1 : list Z) 
         (b0 b1 b2 : Z) (r2 : list Z) (n : nat),
       exec_fun N X program (S n) "c_dateutils_comparedates"
         [AVArrI (a0 :: a1 :: a2 :: r1); AVArrI (b0 :: b1 :: b2 :: r2)] =
       Ok
         (RI (SafeData.compare_dates a0 a1 a2 b0 b1 b2),
          [VArrI (a0 :: a1 :: a2 :: r1); VArrI (b0 :: b1 :: b2 :: r2)]).
Proof. exact @SafeData.safe_c_dateutils_comparedates. Qed.
Print Assumptions C05_kernel_c_dateutils_comparedates.

Theorem C05_kernel_c_dateutils_getdate_reject :
  forall (T : Type) (N : NumOps T) (X : NumLit T) (day : T) (date : list Z) (n : nat),
       SafeData.getdate_reject N X day = true ->
       exists ret : Z,
         exec_fun N X program (S n) "c_dateutils_getdate" [AVF day; AVArrI date] =
         Ok (RI ret, [VArrI date]) /\ 0 < ret.
Proof. exact @SafeData.safe_c_dateutils_getdate_reject. Qed.
Print Assumptions C05_kernel_c_dateutils_getdate_reject.

Theorem C05_kernel_c_dateutils_getdate :
  forall (T : Type) (N : NumOps T) (X : NumLit T) (day : T) (y0 m0 d0 : Z) 
         (rest : list Z) (n : nat),
       SafeData.getdate_casts_defined N X ->
       (1 < n)%nat ->
       exists (ret : Z) (out : list Z),
         exec_fun N X program (S n) "c_dateutils_getdate"
           [AVF day; AVArrI (y0 :: m0 :: d0 :: rest)] = Ok (RI ret, [VArrI out]) /\
         Datatypes.length out = Datatypes.length (y0 :: m0 :: d0 :: rest).
Proof. exact @SafeData.safe_c_dateutils_getdate. Qed.
Print Assumptions C05_kernel_c_dateutils_getdate.

Theorem C05_kernel_c_dateutils_getdate_RN :
  forall (day : option R) (y0 m0 d0 : Z) (rest : list Z) (n : nat),
       (1 < n)%nat ->
       exists (ret : Z) (out : list Z),
         exec_fun RN XRN program (S n) "c_dateutils_getdate"
           [AVF day; AVArrI (y0 :: m0 :: d0 :: rest)] = Ok (RI ret, [VArrI out]) /\
         Datatypes.length out = Datatypes.length (y0 :: m0 :: d0 :: rest).
Proof. exact @SafeData.safe_c_dateutils_getdate_RN. Qed.
Print Assumptions C05_kernel_c_dateutils_getdate_RN.

Theorem C05_kernel_c_dateutils_getdate_RR :
  forall (day : R) (y0 m0 d0 : Z) (rest : list Z) (n : nat),
       (1 < n)%nat ->
       exists (ret : Z) (out : list Z),
         exec_fun RR XRR program (S n) "c_dateutils_getdate"
           [AVF day; AVArrI (y0 :: m0 :: d0 :: rest)] = Ok (RI ret, [VArrI out]) /\
         Datatypes.length out = Datatypes.length (y0 :: m0 :: d0 :: rest).
Proof. exact @SafeData.safe_c_dateutils_getdate_RR. Qed.
Print Assumptions C05_kernel_c_dateutils_getdate_RR.

Theorem C05_kernel_c_islin :
  forall (T : Type) (N : NumOps T) (X : NumLit T) (thresh tol : T) 
         (npoints : Z) (data : list T) (il : list Z) (n : nat),
       Datatypes.length il = Datatypes.length data ->
       (Datatypes.length data < n)%nat ->
       exists out : list Z,
         exec_fun N X program (S n) "c_islin"
           [AVI (zlen data); AVF thresh; AVF tol; AVI npoints; AVArrF data; AVArrI il] =
         Ok (RI 0, [VArrF data; VArrI out]) /\ Datatypes.length out = Datatypes.length data.
Proof. exact @SafeData.safe_c_islin. Qed.
Print Assumptions C05_kernel_c_islin.

Theorem C05_kernel_c_eckhardt :
  forall (T : Type) (N : NumOps T) (X : NumLit T) (tt : Z) (thresh tau bfi : T)
         (inputs outputs : list T) (n : nat),
       (forall v : T, next X "exp" [v] <> None) ->
       Datatypes.length outputs = Datatypes.length inputs ->
       (Datatypes.length inputs < n)%nat ->
       exists (ret : Z) (out : list T),
         exec_fun N X program (S n) "c_eckhardt"
           [AVI (zlen inputs); AVI tt; AVF thresh; AVF tau; AVF bfi; AVArrF inputs; AVArrF outputs] =
         Ok (RI ret, [VArrF inputs; VArrF out]) /\
         Datatypes.length out = Datatypes.length inputs /\ (ret = 0 \/ ret = 33).
Proof. exact @SafeData.safe_c_eckhardt. Qed.
Print Assumptions C05_kernel_c_eckhardt.

Theorem C05_kernel_celldist :
  forall (T : Type) (N : NumOps T) (X : NumLit T) (nrows ncols n1 n2 : Z) (n : nat),
       (0 < n)%nat ->
       exists ret : Z,
         exec_fun N X program (S n) "celldist" [AVI nrows; AVI ncols; AVI n1; AVI n2] =
         Ok (RI ret, []) /\
         (if (n1 <? 0) || (nrows * ncols <=? n1) || (n2 <? 0) || (nrows * ncols <=? n2)
          then 0 < ret
          else ret = SafeGis.celldist_spec nrows ncols n1 n2).
Proof. exact @SafeGis.safe_celldist. Qed.
Print Assumptions C05_kernel_celldist.

Theorem C05_kernel_stepsquaredist :
  forall (T : Type) (N : NumOps T) (X : NumLit T) (ncols n1 n2 : Z) (n : nat),
       ncols <> 0 ->
       (0 < n)%nat ->
       exec_fun N X program (S n) "c_catchment.stepsquaredist" [AVI ncols; AVI n1; AVI n2] =
       Ok
         (RF
            (nofZ N
               (if (getnx ncols n1 =? getnx ncols n2) || (getny ncols n1 =? getny ncols n2)
                then 1
                else 2)), []).
Proof. exact @SafeGis.safe_stepsquaredist. Qed.
Print Assumptions C05_kernel_stepsquaredist.

Theorem C05_kernel_exclude_zero_area_boundary :
  forall (T : Type) (N : NumOps T) (X : NumLit T) (deteps : T) (xy : list T) 
         (idxok : list Z) (n : nat),
       Datatypes.length xy = (2 * Datatypes.length idxok)%nat ->
       (Datatypes.length idxok < n)%nat ->
       exists (ret : retval T) (outs : list (arrval T)),
         exec_fun N X program (S n) "c_exclude_zero_area_boundary"
           [AVI (zlen idxok); AVF deteps; AVArrF xy; AVArrI idxok] = Ok (ret, outs) /\
         (exists (c : Z) (idxok' : list Z),
            ret = RI c /\
            outs = [VArrF xy; VArrI idxok'] /\
            Datatypes.length idxok' = Datatypes.length idxok /\
            (if zlen idxok <=? 2
             then 0 < c /\ idxok' = idxok
             else c = 0 /\ idxok' = repeat 1 (Datatypes.length idxok))).
Proof. exact @SafeGis.safe_exclude_zero_area_boundary. Qed.
Print Assumptions C05_kernel_exclude_zero_area_boundary.

Theorem C05_kernel_slope :
  forall (T : Type) (N : NumOps T) (X : NumLit T) (nrows ncols nprint : Z) 
         (cellsize : T) (code flowdir : list Z) (altitude slopeval : list T) 
         (n : nat),
       Datatypes.length code = 9%nat ->
       Z.of_nat (Datatypes.length flowdir) = nrows * ncols ->
       Datatypes.length altitude = Datatypes.length flowdir ->
       Datatypes.length slopeval = Datatypes.length flowdir ->
       (Datatypes.length flowdir + 10 < n)%nat ->
       exists (ret : retval T) (outs : list (arrval T)),
         exec_fun N X program (S n) "c_slope"
           [AVI nrows; AVI ncols; AVI nprint; AVF cellsize; AVArrI code; 
            AVArrI flowdir; AVArrF altitude; AVArrF slopeval] = Ok (ret, outs) /\
         (exists (c : Z) (slopeval' : list T),
            ret = RI c /\
            outs = [VArrI code; VArrI flowdir; VArrF altitude; VArrF slopeval'] /\
            Datatypes.length slopeval' = Datatypes.length slopeval /\
            (if nrows <? 1 then 0 < c /\ slopeval' = slopeval else c = 0)).
Proof. exact @SafeGis.safe_slope. Qed.
Print Assumptions C05_kernel_slope.

Theorem C05_kernel_slice :
  forall (T : Type) (N : NumOps T) (X : NumLit T) (nrows ncols : Z) 
         (xll yll csz : T) (data xys zs : list T) (n : nat),
       SafeGis.floor_total X ->
       SafeGis.trunc_ok N nrows ->
       SafeGis.trunc_ok N ncols ->
       Z.of_nat (Datatypes.length data) = nrows * ncols ->
       Datatypes.length xys = (2 * Datatypes.length zs)%nat ->
       (Datatypes.length zs + 2 < n)%nat ->
       exists (ret : retval T) (outs : list (arrval T)),
         exec_fun N X program (S n) "c_slice"
           [AVI nrows; AVI ncols; AVF xll; AVF yll; AVF csz; AVArrF data; 
            AVI (zlen zs); AVArrF xys; AVArrF zs] = Ok (ret, outs) /\
         ret = RI 0 /\
         (exists zs' : list T,
            outs = [VArrF data; VArrF xys; VArrF zs'] /\ Datatypes.length zs' = Datatypes.length zs).
Proof. exact @SafeGis.safe_slice. Qed.
Print Assumptions C05_kernel_slice.

Theorem C05_kernel_slice_reals_with_nan :
  forall (nrows ncols : Z) (xll yll csz : option R) (data xys zs : list (option R)) (n : nat),
       0 <= nrows <= SafeGis.MAXLL ->
       0 <= ncols <= SafeGis.MAXLL ->
       Z.of_nat (Datatypes.length data) = nrows * ncols ->
       Datatypes.length xys = (2 * Datatypes.length zs)%nat ->
       (Datatypes.length zs + 2 < n)%nat ->
       exists (ret : retval (option R)) (outs : list (arrval (option R))),
         exec_fun RN XRN program (S n) "c_slice"
           [AVI nrows; AVI ncols; AVF xll; AVF yll; AVF csz; AVArrF data; 
            AVI (zlen zs); AVArrF xys; AVArrF zs] = Ok (ret, outs) /\
         ret = RI 0 /\
         (exists zs' : list (option R),
            outs = [VArrF data; VArrF xys; VArrF zs'] /\ Datatypes.length zs' = Datatypes.length zs).
Proof. exact @SafeGis.safe_slice_reals_with_nan. Qed.
Print Assumptions C05_kernel_slice_reals_with_nan.

Theorem C05_kernel_delineate_boundary :
  forall (T : Type) (N : NumOps T) (X : NumLit T) (nrows ncols : Z)
         (area buffer mask bnd : list Z) (n : nat),
       Datatypes.length buffer = Datatypes.length area ->
       Datatypes.length bnd = Datatypes.length area ->
       Z.of_nat (Datatypes.length mask) = nrows * ncols ->
       SafeGis.perc_ok N X (Z.of_nat (Datatypes.length area)) ->
       (Datatypes.length area + 4 < n)%nat ->
       exists (ret : retval T) (outs : list (arrval T)),
         exec_fun N X program (S n) "c_delineate_boundary"
           [AVI nrows; AVI ncols; AVI (zlen area); AVArrI area; AVArrI buffer; 
            AVArrI mask; AVArrI bnd] = Ok (ret, outs) /\
         (exists (c : Z) (area' buffer' bnd' : list Z),
            ret = RI c /\
            0 <= c /\
            outs = [VArrI area'; VArrI buffer'; VArrI mask; VArrI bnd'] /\
            Datatypes.length area' = Datatypes.length area /\
            Datatypes.length buffer' = Datatypes.length buffer /\
            Datatypes.length bnd' = Datatypes.length bnd).
Proof. exact @SafeGis.safe_delineate_boundary. Qed.
Print Assumptions C05_kernel_delineate_boundary.

Theorem C05_kernel_delineate_boundary_reals :
  forall (nrows ncols : Z) (area buffer mask bnd : list Z) (n : nat),
       Datatypes.length buffer = Datatypes.length area ->
       Datatypes.length bnd = Datatypes.length area ->
       Z.of_nat (Datatypes.length mask) = nrows * ncols ->
       Z.of_nat (Datatypes.length area) < SafeGis.MAXLL ->
       (Datatypes.length area + 4 < n)%nat ->
       exists (ret : retval R) (outs : list (arrval R)),
         exec_fun RR XRR program (S n) "c_delineate_boundary"
           [AVI nrows; AVI ncols; AVI (zlen area); AVArrI area; AVArrI buffer; 
            AVArrI mask; AVArrI bnd] = Ok (ret, outs) /\
         (exists (c : Z) (area' buffer' bnd' : list Z),
            ret = RI c /\
            0 <= c /\
            outs = [VArrI area'; VArrI buffer'; VArrI mask; VArrI bnd'] /\
            Datatypes.length area' = Datatypes.length area /\
            Datatypes.length buffer' = Datatypes.length buffer /\
            Datatypes.length bnd' = Datatypes.length bnd).
Proof. exact @SafeGis.safe_delineate_boundary_reals. Qed.
Print Assumptions C05_kernel_delineate_boundary_reals.

Theorem C05_kernel_c_cell2rowcol :
  forall (T : Type) (N : NumOps T) (X : NumLit T) (nrows ncols : Z) 
         (idx buf : list Z) (n : nat),
       Datatypes.length buf = (2 * Datatypes.length idx)%nat ->
       (Datatypes.length idx < n)%nat ->
       exists out : list Z,
         exec_fun N X program (S n) "c_cell2rowcol"
           [AVI nrows; AVI ncols; AVI (zlen idx); AVArrI idx; AVArrI buf] =
         Ok (RI 0, [VArrI idx; VArrI out]).
Proof. exact @KernelSafety.safe_c_cell2rowcol. Qed.
Print Assumptions C05_kernel_c_cell2rowcol.

Theorem C05_kernel_c_cell2coord :
  forall (T : Type) (N : NumOps T) (X : NumLit T) (nrows ncols : Z) 
         (xll yll csz : T) (idx : list Z) (buf : list T) (n : nat),
       RefineGridGeom.half_law N X ->
       Datatypes.length buf = (2 * Datatypes.length idx)%nat ->
       (Datatypes.length idx < n)%nat ->
       exists out : list T,
         exec_fun N X program (S n) "c_cell2coord"
           [AVI nrows; AVI ncols; AVF xll; AVF yll; AVF csz; AVI (zlen idx); AVArrI idx; AVArrF buf] =
         Ok (RI 0, [VArrI idx; VArrF out]).
Proof. exact @KernelSafety.safe_c_cell2coord. Qed.
Print Assumptions C05_kernel_c_cell2coord.

Theorem C05_kernel_c_coord2cell :
  forall (T : Type) (N : NumOps T) (X : NumLit T) (cmax : Z),
       RefineGridGeom.floor_laws N X cmax ->
       forall (nrows ncols : Z) (xll yll csz : T) (xy : list T) (buf : list Z) (n : nat),
       nrows <= cmax ->
       ncols <= cmax ->
       Datatypes.length xy = (2 * Datatypes.length buf)%nat ->
       (Datatypes.length buf < n)%nat ->
       exists out : list Z,
         exec_fun N X program (S n) "c_coord2cell"
           [AVI nrows; AVI ncols; AVF xll; AVF yll; AVF csz; AVI (zlen buf); AVArrF xy; AVArrI buf] =
         Ok (RI 0, [VArrF xy; VArrI out]).
Proof. exact @KernelSafety.safe_c_coord2cell. Qed.
Print Assumptions C05_kernel_c_coord2cell.

Theorem C05_kernel_c_neighbours :
  forall (T : Type) (N : NumOps T) (X : NumLit T) (nrows ncols idx : Z) 
         (nb : list Z) (n : nat),
       Datatypes.length nb = 9%nat ->
       (3 < n)%nat ->
       exists (r : Z) (out : list Z),
         exec_fun N X program (S n) "c_neighbours" [AVI nrows; AVI ncols; AVI idx; AVArrI nb] =
         Ok (RI r, [VArrI out]).
Proof. exact @KernelSafety.safe_c_neighbours. Qed.
Print Assumptions C05_kernel_c_neighbours.

Theorem C05_kernel_c_aggregate :
  forall (T : Type) (N : NumOps T) (X : NumLit T),
       nofZ N 0 = n0 N ->
       forall (op maxnan : Z) (idx : list Z) (xs outbuf : list T) (ie : Z) (n : nat),
       Datatypes.length xs = Datatypes.length idx ->
       Datatypes.length outbuf = Datatypes.length idx ->
       (Datatypes.length idx < n)%nat ->
       exists (r : Z) (out : list T) (ie' : Z),
         exec_fun N X program (S n) "c_aggregate"
           [AVI (zlen idx); AVI op; AVI maxnan; AVArrI idx; AVArrF xs; AVArrF outbuf; AVArrI [ie]] =
         Ok (RI r, [VArrI idx; VArrF xs; VArrF out; VArrI [ie']]).
Proof. exact @KernelSafety.safe_c_aggregate. Qed.
Print Assumptions C05_kernel_c_aggregate.

Theorem C05_kernel_c_flathomogen :
  forall (T : Type) (N : NumOps T) (X : NumLit T),
       nofZ N 0 = n0 N ->
       forall (maxnan : Z) (idx : list Z) (xs outbuf : list T) (n : nat),
       Datatypes.length xs = Datatypes.length idx ->
       Datatypes.length outbuf = Datatypes.length idx ->
       (Datatypes.length idx < n)%nat ->
       exists (r : Z) (out : list T),
         exec_fun N X program (S n) "c_flathomogen"
           [AVI (zlen idx); AVI maxnan; AVArrI idx; AVArrF xs; AVArrF outbuf] =
         Ok (RI r, [VArrI idx; VArrF xs; VArrF out]).
Proof. exact @KernelSafety.safe_c_flathomogen. Qed.
Print Assumptions C05_kernel_c_flathomogen.

Theorem C05_kernel_c_accumulate :
  forall (T : Type) (N : NumOps T) (X : NumLit T) (nrows ncols nprint maxcells : Z)
         (nodata : T) (fd : list Z) (field : list T) (n : nat),
       Datatypes.length fd = Z.to_nat (nrows * ncols) ->
       Datatypes.length field = Z.to_nat (nrows * ncols) ->
       (Nat.max (Nat.max (Z.to_nat (nrows * ncols)) (Z.to_nat (maxcells + 1))) 10 < n)%nat ->
       exists (r : Z) (out : list T),
         exec_fun N X program (S n) "c_accumulate"
           [AVI nrows; AVI ncols; AVI nprint; AVI maxcells; AVF nodata; 
            AVArrI FLOWDIRCODE; AVArrI fd; AVArrF field; AVArrF field] =
         Ok (RI r, [VArrI FLOWDIRCODE; VArrI fd; VArrF field; VArrF out]).
Proof. exact @KernelSafety.safe_c_accumulate. Qed.
Print Assumptions C05_kernel_c_accumulate.

Theorem C05_kernel_c_inside :
  forall (T : Type) (N : NumOps T) (X : NumLit T) (nprint : Z) (pts poly : list (T * T))
         (atol xl0 xl1 yl0 yl1 : T) (ins : list Z) (n : nat),
       Datatypes.length ins = Datatypes.length pts ->
       poly <> [] ->
       (Datatypes.length pts < n)%nat ->
       (Datatypes.length poly < n)%nat ->
       exists out : list Z,
         exec_fun N X program (S n) "c_inside"
           [AVI nprint; AVI (zlen pts); AVArrF (RefinePolygon.flat pts); 
            AVI (zlen poly); AVArrF (RefinePolygon.flat poly); AVF atol; 
            AVArrF [xl0; xl1]; AVArrF [yl0; yl1]; AVArrI ins] =
         Ok
           (RI 0,
            [VArrF (RefinePolygon.flat pts); VArrF (RefinePolygon.flat poly); 
             VArrF [xl0; xl1]; VArrF [yl0; yl1]; VArrI out]).
Proof. exact @KernelSafety.safe_c_inside. Qed.
Print Assumptions C05_kernel_c_inside.

Theorem C05_kernel_c_var2h_RN :
  forall (P rain disp maxgap hstart : Z) (sec : list Z) (vals hinit : list (option R))
         (n : nat),
       Datatypes.length vals = Datatypes.length sec ->
       (Nat.max (Datatypes.length sec) (Datatypes.length hinit) < n)%nat ->
       exists (r : Z) (h : list (option R)),
         exec_fun RN XRN program (S n) "c_var2h"
           (RefineVar2h.var2h_args P rain disp maxgap hstart sec vals hinit) =
         Ok (RI r, [VArrI sec; VArrF vals; VArrF h]).
Proof. exact @KernelSafety.safe_c_var2h_RN. Qed.
Print Assumptions C05_kernel_c_var2h_RN.

Theorem C05_kernel_armodel_memsafe :
  forall (T : Type) (N : NumOps T) (X : NumLit T) (m ini : T) (params s buf : list T)
         (n : nat),
       nofZ N 0 = n0 N ->
       Datatypes.length buf = Datatypes.length s ->
       (Nat.max (Datatypes.length s) 10 < n)%nat ->
       (exists (r : Z) (out : list T),
          exec_fun N X program (S n) "c_armodel_sim"
            [AVI (zlen s); AVI (zlen params); AVF m; AVF ini; AVArrF params; AVArrF s; AVArrF buf] =
          Ok (RI r, [VArrF params; VArrF s; VArrF out]) /\
          Datatypes.length out = Datatypes.length s) /\
       (exists (r : Z) (out : list T),
          exec_fun N X program (S n) "c_armodel_residual"
            [AVI (zlen s); AVI (zlen params); AVF m; AVF ini; AVArrF params; AVArrF s; AVArrF buf] =
          Ok (RI r, [VArrF params; VArrF s; VArrF out]) /\
          Datatypes.length out = Datatypes.length s).
Proof. exact @KernelArmodel.kernel_armodel_memsafe. Qed.
Print Assumptions C05_kernel_armodel_memsafe.

Theorem C05_kernel_flow_memsafe :
  forall (T : Type) (N : NumOps T) (X : NumLit T) (nrows ncols : Z)
         (codes fd idx bufd bufu : list Z) (n : nat),
       Datatypes.length codes = 9%nat ->
       Z.of_nat (Datatypes.length fd) = nrows * ncols ->
       Datatypes.length bufd = Datatypes.length idx ->
       Datatypes.length bufu = (9 * Datatypes.length idx)%nat ->
       (Datatypes.length idx < n)%nat ->
       (9 < n)%nat ->
       (exists (r : Z) (out : list Z),
          exec_fun N X program (S n) "c_downstream"
            [AVI nrows; AVI ncols; AVArrI codes; AVArrI fd; AVI (zlen idx); AVArrI idx; AVArrI bufd] =
          Ok (RI r, [VArrI codes; VArrI fd; VArrI idx; VArrI out])) /\
       (exists (r : Z) (out : list Z),
          exec_fun N X program (S n) "c_upstream"
            [AVI nrows; AVI ncols; AVArrI codes; AVArrI fd; AVI (zlen idx); AVArrI idx; AVArrI bufu] =
          Ok (RI r, [VArrI codes; VArrI fd; VArrI idx; VArrI out])).
Proof. exact @KernelFlow.kernel_flow_memsafe. Qed.
Print Assumptions C05_kernel_flow_memsafe.

(* ================================================================== *)
(* NO SIGNED INTEGER OVERFLOW.  [program_chk] (Gen/KernelsAstChk.v) is the *)
(* same translation of the C kernels as [program] with every signed integer *)
(* +, -, *, /, unary -, ++, --, op= wrapped in [IChk <width of its C type>]: *)
(* the interpreter stops with Err (Overflow ..) where the C program has *)
(* undefined behaviour.  C05_erasure: a successful checked run IS the *)
(* unchecked run (same result), and erasing the checks of program_chk gives *)
(* program (by computation, on every run).  The theorems below are the *)
(* refinement / safe-execution theorems of the kernels about program_chk, *)
(* under the source hypotheses plus size hypotheses stated in terms of the *)
(* C types (counts are C ints; products formed in long long fit 2^63-1). *)
(* The overflow_ theorems show hypotheses that are necessary.         *)
(* ================================================================== *)
From Coq Require Import String Lia PrimFloat.
From Hy Require Import Base.Num Base.MiniC Gen.KernelsAst Gen.Consts Gen.KernelsAstChk Model.Grid.
From Hy Require Proofs.MiniCErase Proofs.ChkVar2h Proofs.ChkStat Proofs.ChkArmodel Proofs.ChkData Proofs.ChkGrid Proofs.ChkFlow.
Import ListNotations.
Open Scope string_scope.
Open Scope list_scope.
Open Scope Z_scope.

(* erasure: a successful overflow-checked execution is a successful unchecked execution with the same return value and final arrays *)
Theorem C05_erasure_simulation :
  forall (T : Type) (N : NumOps T) (X : NumLit T) (p : MiniC.program) 
         (fuel : nat) (f : string) (args : list (argval T)) (r : retval T * list (arrval T)),
       exec_fun N X p fuel f args = Ok r ->
       exec_fun N X (MiniCErase.erase_program p) fuel f args = Ok r.
Proof. exact @MiniCErase.erase_exec_fun. Qed.
Print Assumptions C05_erasure_simulation.

(* the two regenerated programs differ by the checks only *)
Theorem C05_erasure_of_program_chk :
  MiniCErase.erase_program program_chk = program.
Proof. exact @MiniCErase.program_chk_erases_to_program. Qed.
Print Assumptions C05_erasure_of_program_chk.

Theorem C05_checked_run_is_unchecked_run :
  forall (T : Type) (N : NumOps T) (X : NumLit T) (fuel : nat) (f : string)
         (args : list (argval T)) (r : retval T * list (arrval T)),
       exec_fun N X program_chk fuel f args = Ok r -> exec_fun N X program fuel f args = Ok r.
Proof. exact @MiniCErase.checked_run_is_unchecked_run. Qed.
Print Assumptions C05_checked_run_is_unchecked_run.

(* c_armodel_sim: nval is a C int; nothing else is needed (the order test precedes all arithmetic on nparams) *)
Theorem C05_nooverflow_armodel_sim :
  forall (T : Type) (N : NumOps T) (X : NumLit T) (mean ini : T) (params innov junk : list T)
         (n : nat),
       nofZ N 0 = n0 N ->
       Datatypes.length junk = Datatypes.length innov ->
       zlen innov <= 2147483647 ->
       (Nat.max (Datatypes.length innov) 10 < n)%nat ->
       match Armodel.armodel_sim N mean ini params innov with
       | Armodel.ArErr =>
           exists code : Z,
             0 < code /\
             exec_fun N X program_chk (S n) "c_armodel_sim"
               [AVI (zlen innov); AVI (zlen params); AVF mean; AVF ini; 
                AVArrF params; AVArrF innov; AVArrF junk] =
             Ok (RI code, [VArrF params; VArrF innov; VArrF junk])
       | Armodel.ArOk out =>
           exec_fun N X program_chk (S n) "c_armodel_sim"
             [AVI (zlen innov); AVI (zlen params); AVF mean; AVF ini; AVArrF params; 
              AVArrF innov; AVArrF junk] = Ok (RI 0, [VArrF params; VArrF innov; VArrF out])
       end.
Proof. exact @ChkArmodel.chk_refine_armodel_sim. Qed.
Print Assumptions C05_nooverflow_armodel_sim.

Theorem C05_nooverflow_armodel_residual :
  forall (T : Type) (N : NumOps T) (X : NumLit T) (mean ini : T) (params inputs junk : list T)
         (n : nat),
       nofZ N 0 = n0 N ->
       Datatypes.length junk = Datatypes.length inputs ->
       zlen inputs <= 2147483647 ->
       (Nat.max (Datatypes.length inputs) 10 < n)%nat ->
       match Armodel.armodel_residual N mean ini params inputs with
       | Armodel.ArErr =>
           exists code : Z,
             0 < code /\
             exec_fun N X program_chk (S n) "c_armodel_residual"
               [AVI (zlen inputs); AVI (zlen params); AVF mean; AVF ini; 
                AVArrF params; AVArrF inputs; AVArrF junk] =
             Ok (RI code, [VArrF params; VArrF inputs; VArrF junk])
       | Armodel.ArOk out =>
           exec_fun N X program_chk (S n) "c_armodel_residual"
             [AVI (zlen inputs); AVI (zlen params); AVF mean; AVF ini; 
              AVArrF params; AVArrF inputs; AVArrF junk] =
           Ok (RI 0, [VArrF params; VArrF inputs; VArrF out])
       end.
Proof. exact @ChkArmodel.chk_refine_armodel_residual. Qed.
Print Assumptions C05_nooverflow_armodel_residual.

(* c_paretofront: the flat index ncol*j+k is formed in int: nval*ncol - 1 <= INT_MAX *)
Theorem C05_nooverflow_paretofront :
  forall (T : Type) (N : NumOps T) (X : NumLit T) (nval ncol orient : Z) 
         (data : list T) (D : list Z) (fuel : nat),
       nval <= zlen D ->
       nval * ncol <= zlen data ->
       nval <= 2147483647 ->
       0 <= ncol <= 2147483647 ->
       nval * ncol - 1 <= 2147483647 ->
       (Z.to_nat nval < fuel)%nat ->
       (Z.to_nat ncol < fuel)%nat ->
       exists D' : list Z,
         exec_fun N X program_chk (S fuel) "c_paretofront"
           [AVI nval; AVI ncol; AVI orient; AVArrF data; AVArrI D] =
         Ok (RI 0, [VArrF data; VArrI D']) /\ Datatypes.length D' = Datatypes.length D.
Proof. exact @ChkArmodel.chk_safe_c_paretofront. Qed.
Print Assumptions C05_nooverflow_paretofront.

(* ... and that hypothesis is necessary: a (2, INT_MAX) array overflows the index (34 GB of data: not realistic; assumed range, see the manifest note) *)
Theorem C05_overflow_paretofront_index :
  forall (T : Type) (N : NumOps T) (X : NumLit T) (orient : Z) (data : list T) 
         (D : list Z) (fuel : nat),
       zlen D = 2 ->
       zlen data = 2 * 2147483647 ->
       (2 <= fuel)%nat ->
       exec_fun N X program_chk (S fuel) "c_paretofront"
         [AVI 2; AVI 2147483647; AVI orient; AVArrF data; AVArrI D] =
       Err (Overflow true 2147483648).
Proof. exact @ChkArmodel.overflow_c_paretofront_index. Qed.
Print Assumptions C05_overflow_paretofront_index.

(* c_aggregate / c_flathomogen: nval is a C int *)
Theorem C05_nooverflow_aggregate :
  forall (T : Type) (N : NumOps T) (X : NumLit T),
       nofZ N 0 = n0 N ->
       forall (op maxnan : Z) (idx : list Z) (xs outbuf : list T) (ie : Z) (n : nat),
       Datatypes.length xs = Datatypes.length idx ->
       Datatypes.length outbuf = Datatypes.length idx ->
       (Datatypes.length idx < n)%nat ->
       zlen idx <= ChkData.INT_MAX ->
       let run :=
         exec_fun N X program_chk (S n) "c_aggregate"
           [AVI (zlen idx); AVI op; AVI maxnan; AVArrI idx; AVArrF xs; AVArrF outbuf; AVArrI [ie]]
         in
       match Dutils.c_aggregate N (Dutils.agg_upd N) (zlen idx) op maxnan idx xs outbuf with
       | Dutils.KUndef => run = Ok (RI 0, [VArrI idx; VArrF xs; VArrF outbuf; VArrI [0]])
       | Dutils.KDone (out, iend) =>
           run = Ok (RI 0, [VArrI idx; VArrF xs; VArrF out; VArrI [iend]])
       | _ =>
           exists (code : Z) (out' : list T),
             0 < code /\
             Datatypes.length out' = Datatypes.length outbuf /\
             run = Ok (RI code, [VArrI idx; VArrF xs; VArrF out'; VArrI [ie]])
       end.
Proof. exact @ChkData.chk_refine_aggregate. Qed.
Print Assumptions C05_nooverflow_aggregate.

Theorem C05_nooverflow_flathomogen :
  forall (T : Type) (N : NumOps T) (X : NumLit T),
       nofZ N 0 = n0 N ->
       forall (maxnan : Z) (idx : list Z) (xs outbuf : list T) (n : nat),
       Datatypes.length xs = Datatypes.length idx ->
       Datatypes.length outbuf = Datatypes.length idx ->
       (Datatypes.length idx < n)%nat ->
       zlen idx <= ChkData.INT_MAX ->
       let run :=
         exec_fun N X program_chk (S n) "c_flathomogen"
           [AVI (zlen idx); AVI maxnan; AVArrI idx; AVArrF xs; AVArrF outbuf] in
       match Dutils.c_flathomogen N maxnan idx xs with
       | Dutils.KUndef => run = Ok (RI 0, [VArrI idx; VArrF xs; VArrF outbuf])
       | Dutils.KDone out => run = Ok (RI 0, [VArrI idx; VArrF xs; VArrF out])
       | _ =>
           exists (code : Z) (out' : list T),
             0 < code /\
             Datatypes.length out' = Datatypes.length outbuf /\
             run = Ok (RI code, [VArrI idx; VArrF xs; VArrF out'])
       end.
Proof. exact @ChkData.chk_refine_flathomogen. Qed.
Print Assumptions C05_nooverflow_flathomogen.

Theorem C05_nooverflow_isleapyear :
  forall (T : Type) (N : NumOps T) (X : NumLit T) (year : Z) (n : nat),
       exec_fun N X program_chk (S n) "c_dateutils_isleapyear" [AVI year] =
       Ok (RI (b2z (Dutils.is_leap year)), []).
Proof. exact @ChkData.chk_safe_c_dateutils_isleapyear. Qed.
Print Assumptions C05_nooverflow_isleapyear.

Theorem C05_nooverflow_daysinmonth :
  forall (T : Type) (N : NumOps T) (X : NumLit T) (year month : Z) (n : nat),
       (0 < n)%nat ->
       exec_fun N X program_chk (S n) "c_dateutils_daysinmonth" [AVI year; AVI month] =
       Ok (RI (Dutils.days_in_month year month), []).
Proof. exact @ChkData.chk_safe_c_dateutils_daysinmonth. Qed.
Print Assumptions C05_nooverflow_daysinmonth.

Theorem C05_nooverflow_dayofyear :
  forall (T : Type) (N : NumOps T) (X : NumLit T) (month day : Z) (n : nat),
       exec_fun N X program_chk (S n) "c_dateutils_dayofyear" [AVI month; AVI day] =
       Ok (RI (ChkData.day_of_year month day), []).
Proof. exact @ChkData.chk_safe_c_dateutils_dayofyear. Qed.
Print Assumptions C05_nooverflow_dayofyear.

(* the INT_MAX guard of the repaired code makes the year increment safe for every int year *)
Theorem C05_nooverflow_add1month :
  forall (T : Type) (N : NumOps T) (X : NumLit T) (y m d : Z) (rest : list Z) (n : nat),
       Dutils.in_int32 y ->
       Dutils.in_int32 m ->
       (1 < n)%nat ->
       exists (ret : Z) (out : list Z),
         exec_fun N X program_chk (S n) "c_dateutils_add1month" [AVArrI (y :: m :: d :: rest)] =
         Ok (RI ret, [VArrI out]) /\
         Datatypes.length out = Datatypes.length (y :: m :: d :: rest) /\
         (if negb (m <? 12) && (y =? ChkData.INT_MAX)
          then 0 < ret /\ out = y :: m :: d :: rest
          else
           match Dutils.c_add1month (y, m, d) with
           | Some (y', m', d') => ret = 0 /\ out = y' :: m' :: d' :: rest
           | None => 0 < ret /\ out = y :: m + 1 :: d :: rest
           end).
Proof. exact @ChkData.chk_safe_c_dateutils_add1month. Qed.
Print Assumptions C05_nooverflow_add1month.

Theorem C05_nooverflow_add1day :
  forall (T : Type) (N : NumOps T) (X : NumLit T) (y m d : Z) (rest : list Z) (n : nat),
       Dutils.in_int32 y ->
       Dutils.in_int32 d ->
       (1 < n)%nat ->
       exists (ret : Z) (out : list Z),
         exec_fun N X program_chk (S n) "c_dateutils_add1day" [AVArrI (y :: m :: d :: rest)] =
         Ok (RI ret, [VArrI out]) /\
         Datatypes.length out = Datatypes.length (y :: m :: d :: rest) /\
         match Dutils.c_add1day (y, m, d) with
         | Some (y', m', d') =>
             if (d =? Dutils.days_in_month y m) && negb (m <? 12) && (y =? ChkData.INT_MAX)
             then 0 < ret /\ out = y :: m :: 1 :: rest
             else ret = 0 /\ out = y' :: m' :: d' :: rest
         | None => 0 < ret /\ out = y :: m :: d :: rest
         end.
Proof. exact @ChkData.chk_safe_c_dateutils_add1day. Qed.
Print Assumptions C05_nooverflow_add1day.

Theorem C05_nooverflow_comparedates :
  forall (T : Type) (N : NumOps T) (X : NumLit T) (a0 a1 a2 : Z) (r1 : list Z) 
         (b0 b1 b2 : Z) (r2 : list Z) (n : nat),
       exec_fun N X program_chk (S n) "c_dateutils_comparedates"
         [AVArrI (a0 :: a1 :: a2 :: r1); AVArrI (b0 :: b1 :: b2 :: r2)] =
       Ok
         (RI (ChkData.compare_dates a0 a1 a2 b0 b1 b2),
          [VArrI (a0 :: a1 :: a2 :: r1); VArrI (b0 :: b1 :: b2 :: r2)]).
Proof. exact @ChkData.chk_safe_c_dateutils_comparedates. Qed.
Print Assumptions C05_nooverflow_comparedates.

Theorem C05_nooverflow_getdate_reject :
  forall (T : Type) (N : NumOps T) (X : NumLit T) (day : T) (date : list Z) (n : nat),
       ChkData.getdate_reject N X day = true ->
       exists ret : Z,
         exec_fun N X program_chk (S n) "c_dateutils_getdate" [AVF day; AVArrI date] =
         Ok (RI ret, [VArrI date]) /\ 0 < ret.
Proof. exact @ChkData.chk_safe_c_dateutils_getdate_reject. Qed.
Print Assumptions C05_nooverflow_getdate_reject.

(* getdate over the reals with NaN: every accepted day number decomposes without overflow *)
Theorem C05_nooverflow_getdate_reals_with_nan :
  forall (day : option R) (y0 m0 d0 : Z) (rest : list Z) (n : nat),
       (1 < n)%nat ->
       exists (ret : Z) (out : list Z),
         exec_fun RN XRN program_chk (S n) "c_dateutils_getdate"
           [AVF day; AVArrI (y0 :: m0 :: d0 :: rest)] = Ok (RI ret, [VArrI out]) /\
         Datatypes.length out = Datatypes.length (y0 :: m0 :: d0 :: rest).
Proof. exact @ChkData.chk_safe_c_dateutils_getdate_RN. Qed.
Print Assumptions C05_nooverflow_getdate_reals_with_nan.

Theorem C05_nooverflow_islin :
  forall (T : Type) (N : NumOps T) (X : NumLit T) (thresh tol : T) 
         (npoints : Z) (data : list T) (il : list Z) (n : nat),
       Datatypes.length il = Datatypes.length data ->
       (Datatypes.length data < n)%nat ->
       zlen data <= ChkData.INT_MAX ->
       exists out : list Z,
         exec_fun N X program_chk (S n) "c_islin"
           [AVI (zlen data); AVF thresh; AVF tol; AVI npoints; AVArrF data; AVArrI il] =
         Ok (RI 0, [VArrF data; VArrI out]) /\ Datatypes.length out = Datatypes.length data.
Proof. exact @ChkData.chk_safe_c_islin. Qed.
Print Assumptions C05_nooverflow_islin.

Theorem C05_nooverflow_eckhardt :
  forall (T : Type) (N : NumOps T) (X : NumLit T) (tt : Z) (thresh tau bfi : T)
         (inputs outputs : list T) (n : nat),
       (forall v : T, next X "exp" [v] <> None) ->
       Datatypes.length outputs = Datatypes.length inputs ->
       (Datatypes.length inputs < n)%nat ->
       zlen inputs <= ChkData.INT_MAX ->
       exists (ret : Z) (out : list T),
         exec_fun N X program_chk (S n) "c_eckhardt"
           [AVI (zlen inputs); AVI tt; AVF thresh; AVF tau; AVF bfi; AVArrF inputs; AVArrF outputs] =
         Ok (RI ret, [VArrF inputs; VArrF out]) /\
         Datatypes.length out = Datatypes.length inputs /\ (ret = 0 \/ ret = 33).
Proof. exact @ChkData.chk_safe_c_eckhardt. Qed.
Print Assumptions C05_nooverflow_eckhardt.

(* c_var2h: the period start hstartsec + (long long)i*nbsec is a 64-bit sum of a 64-bit product: only 64-bit ranges are needed (the seeded regression that drops the cast makes this proof fail) *)
Theorem C05_nooverflow_var2h :
  forall (P rain disp maxgap hstart : Z) (sec : list Z) (vals hinit : list (option R))
         (n : nat),
       Datatypes.length vals = Datatypes.length sec ->
       zlen sec <= 2147483647 ->
       zlen hinit <= 2147483647 ->
       -9223372036854775808 <= hstart <= 9223372036854775807 ->
       (In P ConstsC14.VAR2H_C_PERIODS ->
        2 <= zlen hinit -> hstart + (zlen hinit - 2) * P <= 9223372036854775807) ->
       (Nat.max (Datatypes.length sec) (Datatypes.length hinit) < n)%nat ->
       match Var2h.c_var2h_RN true P rain maxgap hstart sec vals hinit with
       | Var2h.VUndef =>
           (sec = [] ->
            exists code : Z,
              0 < code /\
              exec_fun RN XRN program_chk (S n) "c_var2h"
                (RefineVar2h.var2h_args P rain disp maxgap hstart sec vals hinit) =
              Ok (RI code, [VArrI sec; VArrF vals; VArrF hinit])) /\
           (sec <> [] ->
            exec_fun RN XRN program_chk (S n) "c_var2h"
              (RefineVar2h.var2h_args P rain disp maxgap hstart sec vals hinit) =
            Ok (RI 0, [VArrI sec; VArrF vals; VArrF (RefineVar2h.nan_fill RN hinit)]))
       | Var2h.VErr =>
           exists (code : Z) (h' : list (option R)),
             0 < code /\
             Datatypes.length h' = Datatypes.length hinit /\
             exec_fun RN XRN program_chk (S n) "c_var2h"
               (RefineVar2h.var2h_args P rain disp maxgap hstart sec vals hinit) =
             Ok (RI code, [VArrI sec; VArrF vals; VArrF h'])
       | Var2h.VOk h =>
           exec_fun RN XRN program_chk (S n) "c_var2h"
             (RefineVar2h.var2h_args P rain disp maxgap hstart sec vals hinit) =
           Ok (RI 0, [VArrI sec; VArrF vals; VArrF h])
       end.
Proof. exact @ChkVar2h.chk_refine_c_var2h_RN. Qed.
Print Assumptions C05_nooverflow_var2h.

(* the 64-bit hypothesis is necessary (hstartsec near LLONG_MAX; pandas time stamps are below 2^33 s) *)
Theorem C05_overflow_var2h_start :
  exec_fun F64 XF64 program_chk 10 "c_var2h"
         (RefineVar2h.var2h_args 3600 0 0 432000 9223372036854772208
            [9223372036854772208; 9223372036854772209] [1%float; 1%float]
            [0%float; 0%float; 0%float]) = Err (Overflow false 9223372036854775808).
Proof. exact @ChkVar2h.overflow_c_var2h_start. Qed.
Print Assumptions C05_overflow_var2h_start.

Theorem C05_nooverflow_getnxy :
  forall (T : Type) (N : NumOps T) (X : NumLit T) (n : nat) (ncols idx a b : Z),
       ncols <> 0 ->
       -9223372036854775808 <= idx <= 9223372036854775807 ->
       idx <> -9223372036854775808 \/ ncols <> -1 ->
       exec_fun N X program_chk (S n) "getnxy" [AVI ncols; AVI idx; AVArrI [a; b]] =
       Ok (RI 0, [VArrI [getnx ncols idx; getny ncols idx]]).
Proof. exact @ChkGrid.chk_getnxy_run. Qed.
Print Assumptions C05_nooverflow_getnxy.

(* grid kernels (long long): nrows*ncols within long long, 2*nval-1 <= LLONG_MAX *)
Theorem C05_nooverflow_cell2rowcol :
  forall (T : Type) (N : NumOps T) (X : NumLit T) (nrows ncols : Z) 
         (idx junk : list Z) (n : nat),
       -9223372036854775808 <= nrows * ncols <= 9223372036854775807 ->
       2 * zlen idx - 1 <= 9223372036854775807 ->
       Datatypes.length junk = (2 * Datatypes.length idx)%nat ->
       (Datatypes.length idx < n)%nat ->
       exec_fun N X program_chk (S n) "c_cell2rowcol"
         [AVI nrows; AVI ncols; AVI (zlen idx); AVArrI idx; AVArrI junk] =
       Ok (RI 0, [VArrI idx; VArrI (RefineGrid.rc_out nrows ncols idx)]).
Proof. exact @ChkGrid.chk_refine_cell2rowcol. Qed.
Print Assumptions C05_nooverflow_cell2rowcol.

Theorem C05_nooverflow_cell2coord :
  forall (T : Type) (N : NumOps T) (X : NumLit T) (nrows ncols : Z) 
         (xll yll csz : T) (idx : list Z) (junk : list T) (n : nat),
       RefineGridGeom.half_law N X ->
       -9223372036854775808 <= nrows * ncols <= 9223372036854775807 ->
       2 * zlen idx - 1 <= 9223372036854775807 ->
       Datatypes.length junk = (2 * Datatypes.length idx)%nat ->
       (Datatypes.length idx < n)%nat ->
       exec_fun N X program_chk (S n) "c_cell2coord"
         [AVI nrows; AVI ncols; AVF xll; AVF yll; AVF csz; AVI (zlen idx); AVArrI idx; AVArrF junk] =
       Ok (RI 0, [VArrI idx; VArrF (RefineGridGeom.cc_out N nrows ncols xll yll csz idx)]).
Proof. exact @ChkGrid.chk_refine_cell2coord. Qed.
Print Assumptions C05_nooverflow_cell2coord.

Theorem C05_nooverflow_coord2cell_reals :
  forall (nrows ncols : Z) (xll yll csz : R) (xy : list R) (junk : list Z) (n : nat),
       nrows <= RefineGridGeom.cmax64 ->
       ncols <= RefineGridGeom.cmax64 ->
       nrows * ncols - 1 <= 9223372036854775807 ->
       2 * zlen junk - 1 <= 9223372036854775807 ->
       Datatypes.length xy = (2 * Datatypes.length junk)%nat ->
       (Datatypes.length junk < n)%nat ->
       exec_fun RR XRR program_chk (S n) "c_coord2cell"
         [AVI nrows; AVI ncols; AVF xll; AVF yll; AVF csz; AVI (zlen junk); AVArrF xy; AVArrI junk] =
       Ok
         (RI 0,
          [VArrF xy; VArrI (map (coord2cell RR nrows ncols xll yll csz) (RefineGridGeom.pairs xy))]).
Proof. exact @ChkGrid.chk_refine_coord2cell_raw_RR. Qed.
Print Assumptions C05_nooverflow_coord2cell_reals.

Theorem C05_nooverflow_neighbours :
  forall (T : Type) (N : NumOps T) (X : NumLit T) (nrows ncols idx : Z) 
         (nb : list Z) (n : nat),
       -9223372036854775808 <= nrows * ncols <= 9223372036854775807 ->
       Datatypes.length nb = 9%nat ->
       (3 < n)%nat ->
       match neighbours nrows ncols idx with
       | Some l =>
           exec_fun N X program_chk (S n) "c_neighbours" [AVI nrows; AVI ncols; AVI idx; AVArrI nb] =
           Ok (RI 0, [VArrI l])
       | None =>
           exists code : Z,
             0 < code /\
             exec_fun N X program_chk (S n) "c_neighbours"
               [AVI nrows; AVI ncols; AVI idx; AVArrI nb] = Ok (RI code, [VArrI nb])
       end.
Proof. exact @ChkGrid.chk_refine_neighbours. Qed.
Print Assumptions C05_nooverflow_neighbours.

(* a 2^32 x 2^32 grid overflows nrows*ncols (necessity of the hypothesis) *)
Theorem C05_overflow_cell2rowcol_ncells :
  forall (T : Type) (N : NumOps T) (X : NumLit T) (n : nat) (a b : Z),
       exec_fun N X program_chk (S (S n)) "c_cell2rowcol"
         [AVI ChkGrid.two32; AVI ChkGrid.two32; AVI 1; AVArrI [0]; AVArrI [a; b]] =
       Err (Overflow false 18446744073709551616).
Proof. exact @ChkGrid.overflow_cell2rowcol_ncells. Qed.
Print Assumptions C05_overflow_cell2rowcol_ncells.

Theorem C05_nooverflow_downstream :
  forall (T : Type) (N : NumOps T) (X : NumLit T) (nrows ncols : Z) (codes fdl : list Z),
       nrows * ncols <= 9223372036854775807 ->
       forall (idx junk : list Z) (n : nat),
       Datatypes.length codes = 9%nat ->
       Z.of_nat (Datatypes.length fdl) = nrows * ncols ->
       Datatypes.length junk = Datatypes.length idx ->
       zlen idx <= 9223372036854775807 ->
       (Datatypes.length idx < n)%nat ->
       (9 < n)%nat ->
       (exists out : list Z,
          Forall2 (fun c v : Z => downstream_with codes nrows ncols fdl c = Some v) idx out /\
          exec_fun N X program_chk (S n) "c_downstream"
            [AVI nrows; AVI ncols; AVArrI codes; AVArrI fdl; AVI (zlen idx); 
             AVArrI idx; AVArrI junk] = Ok (RI 0, [VArrI codes; VArrI fdl; VArrI idx; VArrI out])) \/
       (exists (done : list Z) (bad : Z) (rest outd : list Z) (code : Z),
          idx = done ++ bad :: rest /\
          Forall2 (fun c v : Z => downstream_with codes nrows ncols fdl c = Some v) done outd /\
          downstream_with codes nrows ncols fdl bad = None /\
          0 < code /\
          exec_fun N X program_chk (S n) "c_downstream"
            [AVI nrows; AVI ncols; AVArrI codes; AVArrI fdl; AVI (zlen idx); 
             AVArrI idx; AVArrI junk] =
          Ok
            (RI code,
             [VArrI codes; VArrI fdl; VArrI idx; VArrI (outd ++ skipn (Datatypes.length done) junk)])).
Proof. exact @ChkFlow.chk_refine_downstream_total. Qed.
Print Assumptions C05_nooverflow_downstream.

(* 9*nval <= LLONG_MAX for the index 9*i+k *)
Theorem C05_nooverflow_upstream :
  forall (T : Type) (N : NumOps T) (X : NumLit T) (nrows ncols : Z) (codes fdl : list Z),
       nrows * ncols <= 9223372036854775807 ->
       forall (idx junk : list Z) (n : nat),
       Datatypes.length codes = 9%nat ->
       Z.of_nat (Datatypes.length fdl) = nrows * ncols ->
       Datatypes.length junk = (9 * Datatypes.length idx)%nat ->
       9 * zlen idx <= 9223372036854775807 ->
       (Datatypes.length idx < n)%nat ->
       (9 < n)%nat ->
       (exists outs : list (list Z),
          Forall2
            (fun (c : Z) (l : list Z) => RefineFlow.upstream_with codes nrows ncols fdl c = Some l)
            idx outs /\
          exec_fun N X program_chk (S n) "c_upstream"
            [AVI nrows; AVI ncols; AVArrI codes; AVArrI fdl; AVI (zlen idx); 
             AVArrI idx; AVArrI junk] =
          Ok (RI 0, [VArrI codes; VArrI fdl; VArrI idx; VArrI (List.concat outs)])) \/
       (exists (done : list Z) (bad : Z) (rest : list Z) (outsd : list (list Z)) 
        (code : Z),
          idx = done ++ bad :: rest /\
          Forall2
            (fun (c : Z) (l : list Z) => RefineFlow.upstream_with codes nrows ncols fdl c = Some l)
            done outsd /\
          RefineFlow.upstream_with codes nrows ncols fdl bad = None /\
          0 < code /\
          exec_fun N X program_chk (S n) "c_upstream"
            [AVI nrows; AVI ncols; AVArrI codes; AVArrI fdl; AVI (zlen idx); 
             AVArrI idx; AVArrI junk] =
          Ok
            (RI code,
             [VArrI codes; VArrI fdl; VArrI idx;
              VArrI (List.concat outsd ++ skipn (9 * Datatypes.length done) junk)])).
Proof. exact @ChkFlow.chk_refine_upstream_total. Qed.
Print Assumptions C05_nooverflow_upstream.

(* maxcells + 1 <= LLONG_MAX for accumulated_cells++ *)
Theorem C05_nooverflow_accumulate :
  forall (T : Type) (N : NumOps T) (X : NumLit T) (nrows ncols nprint maxcells : Z)
         (nodata : T) (fd : list Z) (field : list T) (n : nat),
       Datatypes.length fd = Z.to_nat (nrows * ncols) ->
       Datatypes.length field = Z.to_nat (nrows * ncols) ->
       -9223372036854775808 <= nrows * ncols <= 9223372036854775807 ->
       maxcells + 1 <= 9223372036854775807 ->
       (Nat.max (Nat.max (Z.to_nat (nrows * ncols)) (Z.to_nat (maxcells + 1))) 10 < n)%nat ->
       match Accumulate.accumulate N nrows ncols maxcells nodata fd field with
       | Some res =>
           exec_fun N X program_chk (S n) "c_accumulate"
             [AVI nrows; AVI ncols; AVI nprint; AVI maxcells; AVF nodata; 
              AVArrI FLOWDIRCODE; AVArrI fd; AVArrF field; AVArrF field] =
           Ok (RI 0, [VArrI FLOWDIRCODE; VArrI fd; VArrF field; VArrF res])
       | None =>
           exists code : Z,
             0 < code /\
             exec_fun N X program_chk (S n) "c_accumulate"
               [AVI nrows; AVI ncols; AVI nprint; AVI maxcells; AVF nodata; 
                AVArrI FLOWDIRCODE; AVArrI fd; AVArrF field; AVArrF field] =
             Ok (RI code, [VArrI FLOWDIRCODE; VArrI fd; VArrF field; VArrF field])
       end.
Proof. exact @ChkFlow.chk_refine_accumulate. Qed.
Print Assumptions C05_nooverflow_accumulate.

(* c_combi: n-k must fit an int (only evaluated when k <= 30); the long long accumulator never overflows under the guard (all 59 x 30 cases by computation) *)
Theorem C05_nooverflow_combi :
  forall (T : Type) (N : NumOps T) (X : NumLit T) (n k : Z) (fuel : nat),
       (k <= 30 -> -2147483648 <= n - k <= 2147483647) ->
       (30 < fuel)%nat ->
       exists ret : Z,
         exec_fun N X program_chk (S fuel) "c_combi" [AVI n; AVI k] = Ok (RI ret, []) /\
         ((30 <? k) || (30 <? n - k) = true -> ret = -1).
Proof. exact @ChkStat.chk_safe_c_combi. Qed.
Print Assumptions C05_nooverflow_combi.

Theorem C05_overflow_combi_nk :
  forall (T : Type) (N : NumOps T) (X : NumLit T) (n k : Z) (fuel : nat),
       k <= 30 ->
       n - k < -2147483648 \/ 2147483647 < n - k ->
       exec_fun N X program_chk (S fuel) "c_combi" [AVI n; AVI k] = Err (Overflow true (n - k)).
Proof. exact @ChkStat.overflow_c_combi_nk. Qed.
Print Assumptions C05_overflow_combi_nk.

Theorem C05_nooverflow_olsleverage :
  forall (T : Type) (N : NumOps T) (X : NumLit T) (nval np : Z) (P Xi L : list T) (fuel : nat),
       (0 < nval -> 0 < np -> nval * np <= zlen P /\ np * np <= zlen Xi /\ nval <= zlen L) ->
       nval <= 2147483647 ->
       (0 < nval -> 0 < np -> nval * np <= 2147483648 /\ np * np <= 2147483648) ->
       (Z.to_nat nval < fuel)%nat ->
       (Z.to_nat np < fuel)%nat ->
       exists L' : list T,
         exec_fun N X program_chk (S fuel) "c_olsleverage"
           [AVI nval; AVI np; AVArrF P; AVArrF Xi; AVArrF L] =
         Ok (RI 0, [VArrF P; VArrF Xi; VArrF L']) /\ Datatypes.length L' = Datatypes.length L.
Proof. exact @ChkStat.chk_safe_c_olsleverage. Qed.
Print Assumptions C05_nooverflow_olsleverage.

(* after the fix c81eaee ((double)n*n): no hypothesis at all *)
Theorem C05_nooverflow_errfix :
  forall (T : Type) (N : NumOps T) (X : NumLit T) (n : Z) (x : T) (fuel : nat),
       exists r : T, exec_fun N X program_chk (S fuel) "errfix" [AVI n; AVF x] = Ok (RF r, []).
Proof. exact @ChkStat.chk_safe_errfix. Qed.
Print Assumptions C05_nooverflow_errfix.

Theorem C05_nooverflow_AD :
  forall (T : Type) (N : NumOps T) (X : NumLit T) (n : Z) (z : T) (fuel : nat),
       ChkStat.ext_total X "exp" ->
       (0 < fuel)%nat ->
       exists r : T, exec_fun N X program_chk (S fuel) "AD" [AVI n; AVF z] = Ok (RF r, []).
Proof. exact @ChkStat.chk_safe_AD. Qed.
Print Assumptions C05_nooverflow_AD.

(* ADtest: i+i+1 is formed in int: n <= 2^30 *)
Theorem C05_nooverflow_ADtest :
  forall (T : Type) (N : NumOps T) (X : NumLit T) (n : Z) (x outs : list T) (fuel : nat),
       ChkStat.ext_total X "exp" ->
       ChkStat.ext_total X "log" ->
       n <= zlen x ->
       2 <= zlen outs ->
       -2147483647 <= n <= 1073741824 ->
       (Z.to_nat n < fuel)%nat ->
       (1 < fuel)%nat ->
       exists (code : Z) (outs' : list T),
         exec_fun N X program_chk (S fuel) "ADtest" [AVI n; AVArrF x; AVArrF outs] =
         Ok (RI code, [VArrF x; VArrF outs']) /\
         0 <= code /\ Datatypes.length outs' = Datatypes.length outs.
Proof. exact @ChkStat.chk_safe_ADtest. Qed.
Print Assumptions C05_nooverflow_ADtest.

Theorem C05_nooverflow_ad_test :
  forall (T : Type) (N : NumOps T) (X : NumLit T) (nval : Z) (unifdata outs : list T)
         (fuel : nat),
       ChkStat.ext_total X "exp" ->
       ChkStat.ext_total X "log" ->
       0 <= nval <= zlen unifdata ->
       2 <= zlen outs ->
       nval <= 1073741824 ->
       (S (Z.to_nat nval) < fuel)%nat ->
       (2 < fuel)%nat ->
       exists (code : Z) (data' outs' : list T),
         exec_fun N X program_chk (S fuel) "c_ad_test" [AVI nval; AVArrF unifdata; AVArrF outs] =
         Ok (RI code, [VArrF data'; VArrF outs']) /\
         0 <= code /\
         Datatypes.length data' = Datatypes.length unifdata /\
         Datatypes.length outs' = Datatypes.length outs.
Proof. exact @ChkStat.chk_safe_c_ad_test. Qed.
Print Assumptions C05_nooverflow_ad_test.

Theorem C05_nooverflow_ad_probn :
  forall (T : Type) (N : NumOps T) (X : NumLit T) (nval nsample : Z) 
         (U P : list T) (fuel : nat),
       ChkStat.ext_total X "exp" ->
       nval <= zlen U ->
       nval <= zlen P ->
       nval <= 2147483647 ->
       (Z.to_nat nval < fuel)%nat ->
       (1 < fuel)%nat ->
       exists P' : list T,
         exec_fun N X program_chk (S fuel) "c_ad_probn" [AVI nval; AVI nsample; AVArrF U; AVArrF P] =
         Ok (RI 0, [VArrF U; VArrF P']) /\ Datatypes.length P' = Datatypes.length P.
Proof. exact @ChkStat.chk_safe_c_ad_probn. Qed.
Print Assumptions C05_nooverflow_ad_probn.

Theorem C05_nooverflow_ad_probapproxinf :
  forall (T : Type) (N : NumOps T) (X : NumLit T) (nval : Z) (U P : list T) (fuel : nat),
       ChkStat.ext_total X "exp" ->
       nval <= zlen U ->
       nval <= zlen P ->
       nval <= 2147483647 ->
       (Z.to_nat nval < fuel)%nat ->
       (0 < fuel)%nat ->
       exists P' : list T,
         exec_fun N X program_chk (S fuel) "c_ad_probapproxinf" [AVI nval; AVArrF U; AVArrF P] =
         Ok (RI 0, [VArrF U; VArrF P']) /\ Datatypes.length P' = Datatypes.length P.
Proof. exact @ChkStat.chk_safe_c_ad_probapproxinf. Qed.
Print Assumptions C05_nooverflow_ad_probapproxinf.

(* ================================================================== *)
(* no signed integer overflow (continued): c_inside, c_ensrank        *)
(* ================================================================== *)
From Coq Require Import String Lia PrimFloat.
From Hy Require Import Base.Num Base.MiniC Gen.KernelsAst Gen.Consts Gen.KernelsAstChk Model.Polygon Model.Dscore.
From Hy Require Proofs.ChkMisc.
Import ListNotations.
Open Scope string_scope.
Open Scope list_scope.
Open Scope Z_scope.

(* c_inside: the indices 2*ipt+1 and 2*(ivert % nvertices)+1 are formed in int: at most 2^30 points / vertices *)
Theorem C05_nooverflow_inside :
  forall (T : Type) (N : NumOps T) (X : NumLit T) (nprint : Z) (pts poly : list (T * T))
         (atol xl0 xl1 yl0 yl1 : T) (ins : list Z) (n : nat),
       Datatypes.length ins = Datatypes.length pts ->
       poly <> [] ->
       (Datatypes.length pts < n)%nat ->
       (Datatypes.length poly < n)%nat ->
       2 * zlen pts - 1 <= 2147483647 ->
       2 * zlen poly - 1 <= 2147483647 ->
       exec_fun N X program_chk (S n) "c_inside"
         [AVI nprint; AVI (zlen pts); AVArrF (RefinePolygon.flat pts); 
          AVI (zlen poly); AVArrF (RefinePolygon.flat poly); AVF atol; 
          AVArrF [xl0; xl1]; AVArrF [yl0; yl1]; AVArrI ins] =
       Ok
         (RI 0,
          [VArrF (RefinePolygon.flat pts); VArrF (RefinePolygon.flat poly); 
           VArrF [xl0; xl1]; VArrF [yl0; yl1];
           VArrI (c_inside N atol (xl0, xl1) (yl0, yl1) poly pts ins)]).
Proof. exact @ChkMisc.ChkInside.chk_refine_c_inside_wrapper. Qed.
Print Assumptions C05_nooverflow_inside.

(* necessity: nvertices = INT_MAX overflows nvertices+1 in the loop condition *)
Theorem C05_overflow_inside_nvertices :
  forall (T : Type) (N : NumOps T) (X : NumLit T) (nprint : Z) (p : T * T)
         (pts : list (T * T)) (x0 y0 : T) (rest : list T) (atol xl0 xl1 yl0 yl1 : T) 
         (o : Z) (ins : list Z) (n : nat),
       outside_box N (xl0, xl1) (yl0, yl1) p = false ->
       exec_fun N X program_chk (S (S n)) "c_inside"
         [AVI nprint; AVI (zlen (p :: pts)); AVArrF (RefinePolygon.flat (p :: pts));
          AVI 2147483647; AVArrF (x0 :: y0 :: rest); AVF atol; AVArrF [xl0; xl1];
          AVArrF [yl0; yl1]; AVArrI (o :: ins)] = Err (Overflow true 2147483648).
Proof. exact @ChkMisc.ChkInside.overflow_c_inside_nvertices. Qed.
Print Assumptions C05_overflow_inside_nvertices.

(* c_ensrank: 2*ncol, the sim index ncol*(i2-1)+j and the fmat index i1*nval+i2 are formed in int; NO hypothesis on ncol*(ncol+1) (the rank sum is computed in double: the seeded regression that computes it in int makes this proof fail) *)
Theorem C05_nooverflow_ensrank :
  forall (eps : R) (sim : list (list R)) (ncol : nat) (fmat ranks : list R) (n : nat),
       Forall (fun r : list R => Datatypes.length r = ncol) sim ->
       Datatypes.length fmat = (Datatypes.length sim * Datatypes.length sim)%nat ->
       Datatypes.length ranks = Datatypes.length sim ->
       (Nat.max (Datatypes.length sim) (2 * ncol) < n)%nat ->
       2 * Z.of_nat ncol <= 2147483647 ->
       Z.of_nat (Datatypes.length sim) * Z.of_nat ncol - 1 <= 2147483647 ->
       Z.of_nat (Datatypes.length sim) * Z.of_nat (Datatypes.length sim) -
       Z.of_nat (Datatypes.length sim) - 1 <= 2147483647 ->
       exec_fun RR XRR program_chk (S n) "c_ensrank"
         [AVF eps; AVI (Z.of_nat (Datatypes.length sim)); AVI (Z.of_nat ncol);
          AVArrF (List.concat sim); AVArrF fmat; AVArrF ranks] =
       Ok
         (RefineEnsrank.ens_outputs
            (RefineEnsrank.ensrank_s RR KR (RefineEnsrank.qs RR KR) eps sim) sim fmat ranks).
Proof. exact @ChkMisc.ChkEnsrank.chk_refine_c_ensrank_qsort_RR. Qed.
Print Assumptions C05_nooverflow_ensrank.

(* necessity of 2*ncol <= INT_MAX (an (nval, 2^30) ensemble array: 8 GiB) *)
Theorem C05_overflow_ensrank_2ncol :
  forall (T : Type) (N : NumOps T) (X : NumLit T) (eps : T) (nval : Z)
         (sim fmat ranks : list T) (n : nat),
       nltb N eps (nlit X 9.9999999999999995e-21 1 100000000000000000000) = false ->
       0 < nval ->
       exec_fun N X program_chk (S n) "c_ensrank"
         [AVF eps; AVI nval; AVI 1073741824; AVArrF sim; AVArrF fmat; AVArrF ranks] =
       Err (Overflow true 2147483648).
Proof. exact @ChkMisc.ChkEnsrank.overflow_c_ensrank_2ncol. Qed.
Print Assumptions C05_overflow_ensrank_2ncol.

(* ================================================================== *)
(* no signed integer overflow (continued): the remaining gis kernels  *)
(* ================================================================== *)
From Coq Require Import String Lia PrimFloat.
From Hy Require Import Base.Num Base.MiniC Gen.KernelsAst Gen.Consts Gen.KernelsAstChk Model.Grid.
From Hy Require Proofs.ChkGis.
Import ListNotations.
Open Scope string_scope.
Open Scope list_scope.
Open Scope Z_scope.

Theorem C05_nooverflow_celldist :
  forall (T : Type) (N : NumOps T) (X : NumLit T) (nrows ncols n1 n2 : Z) (n : nat),
       (0 <= n1 -> ChkGis.fits64 (nrows * ncols)) ->
       (0 < n)%nat ->
       exists ret : Z,
         exec_fun N X program_chk (S n) "celldist" [AVI nrows; AVI ncols; AVI n1; AVI n2] =
         Ok (RI ret, []) /\
         (if (n1 <? 0) || (nrows * ncols <=? n1) || (n2 <? 0) || (nrows * ncols <=? n2)
          then 0 < ret
          else ret = SafeGis.celldist_spec nrows ncols n1 n2).
Proof. exact @ChkGis.chk_safe_celldist. Qed.
Print Assumptions C05_nooverflow_celldist.

Theorem C05_nooverflow_stepsquaredist :
  forall (T : Type) (N : NumOps T) (X : NumLit T) (ncols n1 n2 : Z) (n : nat),
       ncols <> 0 ->
       ChkGis.fits64 n1 ->
       ChkGis.fits64 n2 ->
       ~ (ncols = -1 /\ (n1 = ChkGis.MINLL \/ n2 = ChkGis.MINLL)) ->
       (0 < n)%nat ->
       exec_fun N X program_chk (S n) "c_catchment.stepsquaredist" [AVI ncols; AVI n1; AVI n2] =
       Ok
         (RF
            (nofZ N
               (if (getnx ncols n1 =? getnx ncols n2) || (getny ncols n1 =? getny ncols n2)
                then 1
                else 2)), []).
Proof. exact @ChkGis.chk_safe_stepsquaredist. Qed.
Print Assumptions C05_nooverflow_stepsquaredist.

Theorem C05_nooverflow_exclude_zero_area_boundary :
  forall (T : Type) (N : NumOps T) (X : NumLit T) (deteps : T) (xy : list T) 
         (idxok : list Z) (n : nat),
       Datatypes.length xy = (2 * Datatypes.length idxok)%nat ->
       2 * Z.of_nat (Datatypes.length idxok) - 1 <= SafeGis.MAXLL ->
       (Datatypes.length idxok < n)%nat ->
       exists (ret : retval T) (outs : list (arrval T)),
         exec_fun N X program_chk (S n) "c_exclude_zero_area_boundary"
           [AVI (zlen idxok); AVF deteps; AVArrF xy; AVArrI idxok] = Ok (ret, outs) /\
         (exists (c : Z) (idxok' : list Z),
            ret = RI c /\
            outs = [VArrF xy; VArrI idxok'] /\
            Datatypes.length idxok' = Datatypes.length idxok /\
            (if zlen idxok <=? 2
             then 0 < c /\ idxok' = idxok
             else c = 0 /\ idxok' = repeat 1 (Datatypes.length idxok))).
Proof. exact @ChkGis.chk_safe_exclude_zero_area_boundary. Qed.
Print Assumptions C05_nooverflow_exclude_zero_area_boundary.

Theorem C05_nooverflow_slope :
  forall (T : Type) (N : NumOps T) (X : NumLit T) (nrows ncols nprint : Z) 
         (cellsize : T) (code flowdir : list Z) (altitude slopeval : list T) 
         (n : nat),
       Datatypes.length code = 9%nat ->
       Z.of_nat (Datatypes.length flowdir) = nrows * ncols ->
       Z.of_nat (Datatypes.length flowdir) <= SafeGis.MAXLL ->
       Datatypes.length altitude = Datatypes.length flowdir ->
       Datatypes.length slopeval = Datatypes.length flowdir ->
       (Datatypes.length flowdir + 10 < n)%nat ->
       exists (ret : retval T) (outs : list (arrval T)),
         exec_fun N X program_chk (S n) "c_slope"
           [AVI nrows; AVI ncols; AVI nprint; AVF cellsize; AVArrI code; 
            AVArrI flowdir; AVArrF altitude; AVArrF slopeval] = Ok (ret, outs) /\
         (exists (c : Z) (slopeval' : list T),
            ret = RI c /\
            outs = [VArrI code; VArrI flowdir; VArrF altitude; VArrF slopeval'] /\
            Datatypes.length slopeval' = Datatypes.length slopeval /\
            (if nrows <? 1 then 0 < c /\ slopeval' = slopeval else c = 0)).
Proof. exact @ChkGis.chk_safe_slope. Qed.
Print Assumptions C05_nooverflow_slope.

Theorem C05_nooverflow_slice :
  forall (T : Type) (N : NumOps T) (X : NumLit T) (nrows ncols : Z) 
         (xll yll csz : T) (data xys zs : list T) (n : nat),
       SafeGis.floor_total X ->
       ChkGis.trunc_rng N nrows ->
       ChkGis.trunc_rng N ncols ->
       Z.of_nat (Datatypes.length data) = nrows * ncols ->
       Z.of_nat (Datatypes.length data) <= SafeGis.MAXLL ->
       Datatypes.length xys = (2 * Datatypes.length zs)%nat ->
       2 * Z.of_nat (Datatypes.length zs) - 1 <= SafeGis.MAXLL ->
       (Datatypes.length zs + 2 < n)%nat ->
       exists (ret : retval T) (outs : list (arrval T)),
         exec_fun N X program_chk (S n) "c_slice"
           [AVI nrows; AVI ncols; AVF xll; AVF yll; AVF csz; AVArrF data; 
            AVI (zlen zs); AVArrF xys; AVArrF zs] = Ok (ret, outs) /\
         ret = RI 0 /\
         (exists zs' : list T,
            outs = [VArrF data; VArrF xys; VArrF zs'] /\ Datatypes.length zs' = Datatypes.length zs).
Proof. exact @ChkGis.chk_safe_slice. Qed.
Print Assumptions C05_nooverflow_slice.

(* c_delineate_boundary: besides nrows*ncols + ncols - 1 (idxcell + shift) the squared distances nrows^2 + ncols^2 must fit a long long *)
Theorem C05_nooverflow_delineate_boundary :
  forall (T : Type) (N : NumOps T) (X : NumLit T) (nrows ncols : Z)
         (area buffer mask bnd : list Z) (n : nat),
       Datatypes.length buffer = Datatypes.length area ->
       Datatypes.length bnd = Datatypes.length area ->
       Z.of_nat (Datatypes.length mask) = nrows * ncols ->
       SafeGis.perc_ok N X (Z.of_nat (Datatypes.length area)) ->
       Z.of_nat (Datatypes.length area) <= SafeGis.MAXLL ->
       nrows * ncols + ncols - 1 <= SafeGis.MAXLL ->
       nrows * nrows + ncols * ncols <= SafeGis.MAXLL ->
       (Datatypes.length area + 4 < n)%nat ->
       exists (ret : retval T) (outs : list (arrval T)),
         exec_fun N X program_chk (S n) "c_delineate_boundary"
           [AVI nrows; AVI ncols; AVI (zlen area); AVArrI area; AVArrI buffer; 
            AVArrI mask; AVArrI bnd] = Ok (ret, outs) /\
         (exists (c : Z) (area' buffer' bnd' : list Z),
            ret = RI c /\
            0 <= c /\
            outs = [VArrI area'; VArrI buffer'; VArrI mask; VArrI bnd'] /\
            Datatypes.length area' = Datatypes.length area /\
            Datatypes.length buffer' = Datatypes.length buffer /\
            Datatypes.length bnd' = Datatypes.length bnd).
Proof. exact @ChkGis.chk_safe_delineate_boundary. Qed.
Print Assumptions C05_nooverflow_delineate_boundary.

(* ... necessary: a 1 x 3037000500 grid passes the wrapper's shape checks and overflows distmax*distmax (24 GB mask: beyond the assumed grid sizes, see the manifest note) *)
Theorem C05_overflow_delineate_boundary_distmax :
  forall (T : Type) (N : NumOps T) (X : NumLit T) (mask : list Z) (b0 d0 : Z),
       exec_fun N X program_chk 10 "c_delineate_boundary"
         [AVI 1; AVI 3037000500; AVI 1; AVArrI [0]; AVArrI [b0]; AVArrI mask; AVArrI [d0]] =
       Err (Overflow false 9223372037000250000).
Proof. exact @ChkGis.overflow_delineate_boundary_distmax. Qed.
Print Assumptions C05_overflow_delineate_boundary_distmax.

(* ================================================================== *)
(* no signed integer overflow (continued): c_intersect, c_voronoi; binary64 *)
(* instances of the arithmetic laws used by the safe-execution theorems *)
(* ================================================================== *)
From Coq Require Import String Lia PrimFloat.
From Hy Require Import Base.Num Base.MiniC Gen.KernelsAst Gen.Consts Gen.KernelsAstChk Gen.ConstsC16 Model.Grid Model.Intersect.
From Hy Require Proofs.ChkIntersect Proofs.F64Laws Proofs.SafeGis.
Import ListNotations.
Open Scope string_scope.
Open Scope list_scope.
Open Scope Z_scope.

(* c_intersect on program_chk: only 2*nval-1 <= LLONG_MAX (the index 2*i+1) besides the buffers grid.py allocates *)
Theorem C05_nooverflow_intersect :
  forall (nrows ncols : Z) (xll yll csz csz_area : R) (xys : list (R * R)) 
         (np0 : Z) (idx0 : list Z) (w0 : list R) (n : nat),
       nrows <= RefineIntersect.MAXLL ->
       ncols <= RefineIntersect.MAXLL ->
       zlen idx0 <= 9223372036854775807 ->
       2 * zlen xys - 1 <= 9223372036854775807 ->
       Datatypes.length w0 = Datatypes.length idx0 ->
       Z.max 0 (nrows * ncols) <= Z.of_nat (Datatypes.length idx0) ->
       (Datatypes.length xys + 2 < n)%nat ->
       exec_fun RR XRR program_chk (S n) "c_intersect"
         [AVI nrows; AVI ncols; AVF xll; AVF yll; AVF csz; AVF csz_area; 
          AVI (zlen xys); AVArrF (RefineIntersect.flat2 xys); AVI (zlen idx0); 
          AVArrI [np0]; AVArrI idx0; AVArrF w0] =
       Ok
         (RI 0,
          let acc := c_intersect RR nrows ncols xll yll csz csz_area xys in
          [VArrF (RefineIntersect.flat2 xys); VArrI [zlen acc];
           VArrI (map fst acc ++ skipn (Datatypes.length acc) idx0);
           VArrF (map snd acc ++ skipn (Datatypes.length acc) w0)]).
Proof. exact @ChkIntersect.chk_refine_intersect_RR. Qed.
Print Assumptions C05_nooverflow_intersect.

Theorem C05_nooverflow_voronoi :
  forall (nrows ncols : Z) (xll yll csz : R) (cells : list Z) (pts : list (R * R))
         (w0 : list R) (n : nat),
       zlen cells <= 9223372036854775807 ->
       2 * zlen pts - 1 <= 9223372036854775807 ->
       (1 <= nrows -> 1 <= ncols -> cells <> [] -> nrows * ncols <= 9223372036854775807) ->
       Datatypes.length w0 = Datatypes.length pts ->
       (Nat.max (Datatypes.length cells) (Datatypes.length pts) + 1 < n)%nat ->
       let run :=
         exec_fun RR XRR program_chk (S n) "c_voronoi"
           [AVI nrows; AVI ncols; AVF xll; AVF yll; AVF csz; AVI (zlen cells); 
            AVArrI cells; AVI (zlen pts); AVArrF (RefineIntersect.flat2 pts); 
            AVArrF w0] in
       if (zlen pts <? 1) || ((nrows <? 1) || (ncols <? 1))
       then
        exists code : Z,
          0 < code /\
          run = Ok (RI code, [VArrI cells; VArrF (RefineIntersect.flat2 pts); VArrF w0])
       else
        if forallb (valid_cell nrows ncols) cells
        then
         run =
         Ok
           (RI 0,
            [VArrI cells; VArrF (RefineIntersect.flat2 pts);
             VArrF (voronoi RR VORONOI_DISTMAX_R nrows ncols xll yll csz cells pts)])
        else
         exists (code : Z) (pre : list Z) (bad : Z) (post : list Z),
           0 < code /\
           cells = pre ++ bad :: post /\
           forallb (valid_cell nrows ncols) pre = true /\
           valid_cell nrows ncols bad = false /\
           run =
           Ok
             (RI code,
              [VArrI cells; VArrF (RefineIntersect.flat2 pts);
               VArrF (voronoi_counts RR VORONOI_DISTMAX_R nrows ncols xll yll csz pre pts)]).
Proof. exact @ChkIntersect.chk_refine_voronoi_RR. Qed.
Print Assumptions C05_nooverflow_voronoi.

(* necessity of nrows*ncols <= LLONG_MAX (a 2^32 x 2^32 grid) *)
Theorem C05_overflow_voronoi_ncells :
  forall (T : Type) (N : NumOps T) (X : NumLit T) (n : nat) (xll yll csz x y w : T),
       exec_fun N X program_chk (S (S (S n))) "c_voronoi"
         [AVI ChkIntersect.two32; AVI ChkIntersect.two32; AVF xll; AVF yll; 
          AVF csz; AVI 1; AVArrI [0]; AVI 1; AVArrF [x; y]; AVArrF [w]] =
       Err (Overflow false 18446744073709551616).
Proof. exact @ChkIntersect.overflow_voronoi_ncells. Qed.
Print Assumptions C05_overflow_voronoi_ncells.

(* c_slice in binary64, grids of at most 2^53 rows / columns *)
Theorem C05_kernel_slice_binary64 :
  forall (nrows ncols : Z) (xll yll csz : float) (data xys zs : list float) (n : nat),
       nrows <= 2 ^ 53 ->
       ncols <= 2 ^ 53 ->
       Z.of_nat (Datatypes.length data) = nrows * ncols ->
       Datatypes.length xys = (2 * Datatypes.length zs)%nat ->
       (Datatypes.length zs + 2 < n)%nat ->
       exists (ret : retval float) (outs : list (arrval float)),
         exec_fun F64 XF64 program (S n) "c_slice"
           [AVI nrows; AVI ncols; AVF xll; AVF yll; AVF csz; AVArrF data; 
            AVI (zlen zs); AVArrF xys; AVArrF zs] = Ok (ret, outs) /\
         ret = RI 0 /\
         (exists zs' : list float,
            outs = [VArrF data; VArrF xys; VArrF zs'] /\ Datatypes.length zs' = Datatypes.length zs).
Proof. exact @F64Laws.safe_slice_F64. Qed.
Print Assumptions C05_kernel_slice_binary64.

(* c_delineate_boundary in binary64 (the 80% threshold conversion is in range) *)
Theorem C05_kernel_delineate_boundary_binary64 :
  forall (nrows ncols : Z) (area buffer mask bnd : list Z) (n : nat),
       Datatypes.length buffer = Datatypes.length area ->
       Datatypes.length bnd = Datatypes.length area ->
       Z.of_nat (Datatypes.length mask) = nrows * ncols ->
       Z.of_nat (Datatypes.length area) <= 2 ^ 63 ->
       (Datatypes.length area + 4 < n)%nat ->
       exists (ret : retval float) (outs : list (arrval float)),
         exec_fun F64 XF64 program (S n) "c_delineate_boundary"
           [AVI nrows; AVI ncols; AVI (zlen area); AVArrI area; AVArrI buffer; 
            AVArrI mask; AVArrI bnd] = Ok (ret, outs) /\
         (exists (c : Z) (area' buffer' bnd' : list Z),
            ret = RI c /\
            0 <= c /\
            outs = [VArrI area'; VArrI buffer'; VArrI mask; VArrI bnd'] /\
            Datatypes.length area' = Datatypes.length area /\
            Datatypes.length buffer' = Datatypes.length buffer /\
            Datatypes.length bnd' = Datatypes.length bnd).
Proof. exact @F64Laws.safe_delineate_boundary_F64. Qed.
Print Assumptions C05_kernel_delineate_boundary_binary64.

Theorem C05_binary64_conversion_in_range :
  forall n : Z, n <= 2 ^ 53 -> SafeGis.trunc_ok F64 n.
Proof. exact @F64Laws.trunc_ok_F64. Qed.
Print Assumptions C05_binary64_conversion_in_range.

Theorem C05_binary64_percentage_conversion_in_range :
  forall len : Z, len <= 2 ^ 63 -> SafeGis.perc_ok F64 XF64 len.
Proof. exact @F64Laws.perc_ok_F64. Qed.
Print Assumptions C05_binary64_percentage_conversion_in_range.

(* ================================================================== *)
(* no signed integer overflow (continued): c_crps, c_delineate_area,  *)
(* c_delineate_river, c_delineate_flowpathlengths_in_catchment        *)
(* ================================================================== *)
From Coq Require Import String Lia PrimFloat.
From Hy Require Import Base.Num Base.MiniC Gen.KernelsAst Gen.Consts Gen.KernelsAstChk Gen.ConstsC03 Model.Grid Model.Catchment Model.Crps.
From Hy Require Proofs.ChkCrps Proofs.ChkCatchment.
Import ListNotations.
Open Scope string_scope.
Open Scope list_scope.
Open Scope Z_scope.

(* c_crps on program_chk: nval is a C int; the table index ncol*7+6 and the sim index ncol*i+j are formed in int: ncol*nval <= 2^31 *)
Theorem C05_nooverflow_crps :
  forall (T : Type) (N : NumOps T) (X : NumLit T) (uw isrt : Z) (v : list (T * list T))
         (m : nat) (wv rt0 : list T) (n : nat),
       RefineCrps.lits_ok N X ->
       uw <> 1 ->
       v <> [] ->
       (0 < m)%nat ->
       Forall (fun r : T * list T => Datatypes.length (snd r) = m) v ->
       Datatypes.length rt0 = (7 * S m)%nat ->
       (Nat.max (Datatypes.length v) (S m) < n)%nat ->
       Z.of_nat (Datatypes.length v) <= 2147483647 ->
       Z.of_nat m * 7 + 6 <= 2147483647 ->
       Z.of_nat m * Z.of_nat (Datatypes.length v) - 1 <= 2147483647 ->
       match RefineCrps.crps_with N isrt v with
       | Some out =>
           exec_fun N X program_chk (S n) "c_crps" (RefineCrps.crps_args N uw isrt v m wv rt0) =
           Ok
             (RI 0,
              [VArrF (map fst v); VArrF (List.concat (map snd v)); VArrF wv;
               VArrF (RefineCrps.table_vals (o_table out)); VArrF (RefineCrps.dec_vals out)])
       | None =>
           exists code : Z,
             0 < code /\
             exec_fun N X program_chk (S n) "c_crps" (RefineCrps.crps_args N uw isrt v m wv rt0) =
             Ok
               (RI code,
                [VArrF (map fst v); VArrF (List.concat (map snd v)); VArrF wv; 
                 VArrF rt0; VArrF [n0 N; n0 N; n0 N; n0 N; n0 N]])
       end.
Proof. exact @ChkCrps.chk_refine_c_crps_all. Qed.
Print Assumptions C05_nooverflow_crps.

(* necessity (an ensemble array of 2^31 doubles: 16 GiB) *)
Theorem C05_overflow_crps_sim_index :
  forall (T : Type) (N : NumOps T) (X : NumLit T) (uw isrt : Z) (v : list (T * list T))
         (m : nat) (wv rt0 : list T) (n K : nat),
       RefineCrps.lits_ok N X ->
       uw <> 1 ->
       (0 < m)%nat ->
       Forall (fun r : T * list T => Datatypes.length (snd r) = m) v ->
       (Nat.max (Datatypes.length v) (S m) < n)%nat ->
       Z.of_nat m + 1 <= 2147483647 ->
       (K < Datatypes.length v)%nat ->
       Z.of_nat K <= 2147483647 ->
       Z.of_nat m * Z.of_nat K = 2147483648 ->
       existsb (fun r : T * list T => unsorted N (snd r)) (RefineCrps.sortedv N isrt v) = false ->
       exec_fun N X program_chk (S n) "c_crps" (RefineCrps.crps_args N uw isrt v m wv rt0) =
       Err (Overflow true 2147483648).
Proof. exact @ChkCrps.overflow_c_crps_sim_index. Qed.
Print Assumptions C05_overflow_crps_sim_index.

Theorem C05_nooverflow_delineate_area :
  forall (T : Type) (N : NumOps T) (X : NumLit T) (nrows ncols : Z) 
         (fd : list Z) (outlet : Z) (inlets area0 b10 b20 : list Z) (n : nat),
       0 <= ncols ->
       Z.of_nat (Datatypes.length fd) = nrows * ncols ->
       Datatypes.length b10 = Datatypes.length area0 ->
       Datatypes.length b20 = Datatypes.length area0 ->
       nrows * ncols <= 9223372036854775807 ->
       Z.of_nat (Datatypes.length inlets) <= 9223372036854775807 ->
       Z.of_nat (Datatypes.length area0) <= 9223372036854775807 ->
       (Datatypes.length inlets < n)%nat ->
       (Datatypes.length area0 < n)%nat ->
       (13 < n)%nat ->
       match delineate_area nrows ncols fd outlet inlets (Z.of_nat (Datatypes.length area0)) with
       | DErr =>
           exists (code : Z) (a b1 b2 : list Z),
             0 < code /\
             ChkCatchment.chk_da_call N X n nrows ncols fd outlet inlets area0 b10 b20 =
             Ok (RI code, [VArrI FLOWDIRCODE; VArrI fd; VArrI inlets; VArrI a; VArrI b1; VArrI b2]) /\
             (RefineArea.da_rejected nrows ncols outlet (Z.of_nat (Datatypes.length area0)) inlets =
              true -> a = area0 /\ b1 = b10 /\ b2 = b20)
       | DFuel => False
       | DOk res =>
           ChkCatchment.chk_da_call N X n nrows ncols fd outlet inlets area0 b10 b20 =
           Ok
             (RI 0,
              [VArrI FLOWDIRCODE; VArrI fd; VArrI inlets;
               VArrI (res ++ skipn (Datatypes.length res) area0);
               VArrI
                 (fst
                    (RefineArea.area_bufs nrows ncols outlet (Z.of_nat (Datatypes.length area0)) fd
                       inlets b10 b20));
               VArrI
                 (snd
                    (RefineArea.area_bufs nrows ncols outlet (Z.of_nat (Datatypes.length area0)) fd
                       inlets b10 b20))])
       end.
Proof. exact @ChkCatchment.chk_refine_c_delineate_area. Qed.
Print Assumptions C05_nooverflow_delineate_area.

Theorem C05_nooverflow_delineate_river :
  forall (T : Type) (N : NumOps T) (X : NumLit T) (nrows ncols : Z) 
         (xll yll csz : T) (fd : list Z) (start np0 : Z) (cjunk : list Z) 
         (djunk : list T) (n : nat),
       nofZ N 0 = n0 N ->
       nlit X 0.5 1 2 = nhalf N ->
       nrows * ncols <= Z.of_nat (Datatypes.length fd) ->
       Datatypes.length djunk = (5 * Datatypes.length cjunk)%nat ->
       (0 <= start ->
        -9223372036854775808 <= nrows * ncols - 1 /\ nrows * ncols + 1 <= 9223372036854775807) ->
       5 * MiniC.zlen cjunk - 1 <= 9223372036854775807 ->
       (Nat.max (Datatypes.length cjunk) 12 < n)%nat ->
       match river N nrows ncols xll yll csz fd start (MiniC.zlen cjunk) with
       | Some rows =>
           exec_fun N X program_chk (S n) "c_delineate_river"
             [AVI nrows; AVI ncols; AVF xll; AVF yll; AVF csz; AVArrI FLOWDIRCODE; 
              AVArrI fd; AVI start; AVI (MiniC.zlen cjunk); AVArrI [np0]; 
              AVArrI cjunk; AVArrF djunk] =
           Ok
             (RI 0,
              [VArrI FLOWDIRCODE; VArrI fd; VArrI [Z.of_nat (Datatypes.length rows)];
               VArrI (map RefineRiver.rv_cell rows ++ skipn (Datatypes.length rows) cjunk);
               VArrF (flat_map RefineRiver.rv_data rows ++ skipn (5 * Datatypes.length rows) djunk)])
       | None =>
           exists code : Z,
             0 < code /\
             exec_fun N X program_chk (S n) "c_delineate_river"
               [AVI nrows; AVI ncols; AVF xll; AVF yll; AVF csz; AVArrI FLOWDIRCODE; 
                AVArrI fd; AVI start; AVI (MiniC.zlen cjunk); AVArrI [np0]; 
                AVArrI cjunk; AVArrF djunk] =
             Ok (RI code, [VArrI FLOWDIRCODE; VArrI fd; VArrI [np0]; VArrI cjunk; VArrF djunk])
       end.
Proof. exact @ChkCatchment.chk_refine_delineate_river. Qed.
Print Assumptions C05_nooverflow_delineate_river.

Theorem C05_nooverflow_flowpathlengths :
  forall (T : Type) (N : NumOps T) (X : NumLit T) (nrows ncols : Z) 
         (fd area : list Z) (outlet : Z) (junk : list T) (n : nat),
       nofZ N 0 = n0 N ->
       nrows * ncols <= Z.of_nat (Datatypes.length fd) ->
       Datatypes.length junk = (3 * Datatypes.length area)%nat ->
       ((exists c : Z, In c area /\ 0 <= c) ->
        -9223372036854775808 <= nrows * ncols <= 9223372036854775807) ->
       3 * MiniC.zlen area - 1 <= 9223372036854775807 ->
       (Nat.max (Datatypes.length area) 12 < n)%nat ->
       exec_fun N X program_chk (S n) "c_delineate_flowpathlengths_in_catchment"
         [AVI nrows; AVI ncols; AVArrI FLOWDIRCODE; AVArrI fd; AVI (MiniC.zlen area); 
          AVArrI area; AVI outlet; AVArrF junk] =
       Ok
         (RI 0,
          [VArrI FLOWDIRCODE; VArrI fd; VArrI area;
           VArrF (RefineRiver.fp_flat N (flowpaths N nrows ncols fd outlet area))]).
Proof. exact @ChkCatchment.chk_refine_delineate_flowpathlengths_in_catchment. Qed.
Print Assumptions C05_nooverflow_flowpathlengths.
