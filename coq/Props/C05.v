(* C05 - native kernels never touch memory outside their buffers.
   Statements only; every proof is `exact <lemma of Proofs/Safety*Proofs.v>`.

   Each `<k>_safe` theorem says: under the buffer relations the Cython wrapper asserts
   (re-extracted into Gen/ConstsC05.v, see the `pyx_contract` examples) and what the
   Python wrapper establishes when it allocates, the index-level model of the
   (repaired) kernel never reads or writes outside a buffer, never divides an integer
   by zero, never overflows a signed integer and never converts an unrepresentable
   double to an integer -- for every length and every content.
   `<k>_pinned_unsafe` exhibits, for the code as pinned, a wrapper-admissible input on
   which the model fails: these are the replays of known_findings.d/C05.json. *)
From Coq Require Import ZArith Bool List String Reals PrimFloat.
From Hy Require Import Base.Num Gen.Consts Gen.ConstsC05 Model.Safety Model.SafetyGis Model.SafetyStat
  Proofs.SafetyProofs Proofs.SafetyGisProofs Proofs.SafetyGis2Proofs Proofs.SafetyStatProofs.
Import ListNotations.
Open Scope Z_scope.

(* ------------------------------------------------------------------ *)
(* wrapper contracts the preconditions below rely on *)
Example C05_pyx_contract_data :
  pyx_has "data" "aggregate" ["1==iend.shape[0]"; "aggindex.shape[0]==inputs.shape[0]";
                              "aggindex.shape[0]==outputs.shape[0]"] &&
  pyx_has "data" "flathomogen" ["aggindex.shape[0]==inputs.shape[0]";
                                "aggindex.shape[0]==outputs.shape[0]"] &&
  pyx_has "data" "islin" ["data.shape[0]==islin.shape[0]"] &&
  pyx_has "data" "eckhardt" ["bflow.shape[0]==flow.shape[0]"] &&
  pyx_has "data" "var2h" ["varsec.shape[0]==varvalues.shape[0]"] = true.
Proof. vm_compute. reflexivity. Qed.

(* ------------------------------------------------------------------ *)
(* c_aggregate: aggindex, inputs, outputs of one length (pyx), iend of length 1 (pyx) *)
Theorem C05_aggregate_safe : forall nval aggindex ninp outputs iend,
  Zlen aggindex = nval -> ninp = nval -> Zlen outputs = nval -> Zlen iend = 1 ->
  safe (aggregate true nval aggindex ninp outputs iend).
Proof. exact aggregate_safe. Qed.
Print Assumptions C05_aggregate_safe.

Example C05_aggregate_safe_nonvacuous :
  exists s, aggregate true 4 [1; 1; 2; 5] 4 [false; false; false; false] [None] = Ret 0 s /\
            ag_out s = [true; true; true; false] /\ ag_iend s = [Some 3].
Proof. eexists. vm_compute. repeat split. Qed.

Theorem C05_aggregate_pinned_unsafe :
  aggregate false 0 [] 0 [] [None] = Fail (OOB "aggindex" 0).
Proof. exact aggregate_pinned_unsafe. Qed.
Print Assumptions C05_aggregate_pinned_unsafe.

(* c_flathomogen *)
Theorem C05_flathomogen_safe : forall nval aggindex ninp outputs,
  Zlen aggindex = nval -> ninp = nval -> Zlen outputs = nval ->
  safe (flathomogen true nval aggindex ninp outputs).
Proof. exact flathomogen_safe. Qed.
Print Assumptions C05_flathomogen_safe.

Theorem C05_flathomogen_pinned_unsafe :
  flathomogen false 0 [] 0 [] = Fail (OOB "aggindex" 0).
Proof. exact flathomogen_pinned_unsafe. Qed.
Print Assumptions C05_flathomogen_pinned_unsafe.

(* c_islin: any arithmetic (binary64 included), any thresholds, any npoints *)
Theorem C05_islin_safe : forall {T} (N : NumOps T) nval thresh tol npoints data out,
  Zlen data = nval -> Zlen out = nval ->
  safe (islin N true nval thresh tol npoints data out).
Proof. exact @islin_safe. Qed.
Print Assumptions C05_islin_safe.

Theorem C05_islin_pinned_unsafe :
  islin F64 false 1 PrimFloat.zero PrimFloat.one 1 [PrimFloat.one] [None] = Fail (OOB "data" 1).
Proof. exact islin_pinned_unsafe. Qed.
Print Assumptions C05_islin_pinned_unsafe.

(* c_eckhardt: any arithmetic, any parameter values *)
Theorem C05_eckhardt_safe : forall {T} (N : NumOps T) nval ttype thresh bfi ninp outputs,
  0 <= nval -> ninp = nval -> Zlen outputs = nval ->
  safe (eckhardt N true nval ttype thresh bfi ninp outputs).
Proof. exact @eckhardt_safe. Qed.
Print Assumptions C05_eckhardt_safe.

Theorem C05_eckhardt_pinned_unsafe :
  eckhardt F64 false 0 1 PrimFloat.one PrimFloat.one 0 [] = Fail (OOB "inputs" 0).
Proof. exact eckhardt_pinned_unsafe. Qed.
Print Assumptions C05_eckhardt_pinned_unsafe.

(* c_var2h: every series (sorted or not), every start, every number of periods an int can
   hold; over any arithmetic in which the integers embed exactly (the reals; binary64 below
   2^53), and in particular over the reals.  hstartsec comes from a datetime: |.| <= 2^62. *)
Theorem C05_var2h_safe : forall {T} (N : NumOps T),
  (forall a b, nltb N (nofZ N a) (nofZ N b) = (a <? b)) ->
  (forall a b, nadd N (nofZ N a) (nofZ N b) = nofZ N (a + b)) ->
  forall nvalvar nvalh nbsec rainfall varsec nvals hstartsec hvalues,
  Zlen varsec = nvalvar -> nvals = nvalvar -> Zlen hvalues = nvalh ->
  nvalh <= 2147483647 -> -4611686018427387904 <= hstartsec <= 4611686018427387904 ->
  safe (var2h N true nvalvar nvalh nbsec rainfall varsec nvals hstartsec hvalues).
Proof. exact @var2h_safe. Qed.
Print Assumptions C05_var2h_safe.

Theorem C05_var2h_safe_reals : forall nvalvar nvalh nbsec rainfall varsec nvals hstartsec hvalues,
  Zlen varsec = nvalvar -> nvals = nvalvar -> Zlen hvalues = nvalh ->
  nvalh <= 2147483647 -> -4611686018427387904 <= hstartsec <= 4611686018427387904 ->
  safe (var2h RR true nvalvar nvalh nbsec rainfall varsec nvals hstartsec hvalues).
Proof. exact var2h_safe_RR. Qed.
Print Assumptions C05_var2h_safe_reals.

Theorem C05_var2h_pinned_unsafe_position :
  var2h F64 false 3 0 3600 0 [600; 1200; 3000] 3 3600 [] = Fail (OOB "varsec" 3).
Proof. exact var2h_pinned_unsafe_position. Qed.
Print Assumptions C05_var2h_pinned_unsafe_position.

Theorem C05_var2h_pinned_unsafe_product :
  exists s, for_loop 1 596524 (vh_period F64 false 2 3600 [0; 4000000000] 2 3600) s = Fail Overflow.
Proof. exact var2h_pinned_unsafe_product. Qed.
Print Assumptions C05_var2h_pinned_unsafe_product.

(* ================================================================== *)
(* gis kernels.  nrows, ncols are the shape of an allocated array (or the two attributes of
   a Grid): non-negative, product at most 2^63-1 (MAX64). *)

Example C05_pyx_contract_gis :
  pyx_has "gis" "coord2cell" ["idxcell.shape[0]==xycoords.shape[0]"] &&
  pyx_has "gis" "cell2coord" ["2==coords.shape[1]"; "coords.shape[0]==idxcell.shape[0]"] &&
  pyx_has "gis" "cell2rowcol" ["2==rowcols.shape[1]"; "idxcell.shape[0]==rowcols.shape[0]"] &&
  pyx_has "gis" "neighbours" ["9==neighbours.shape[0]"] &&
  pyx_has "gis" "downstream" ["3==flowdircode.shape[0]"; "3==flowdircode.shape[1]";
                              "idxdown.shape[0]==idxup.shape[0]"] &&
  pyx_has "gis" "accumulate" ["3==flowdircode.shape[0]"; "3==flowdircode.shape[1]";
      "accumulation.shape[0]==flowdir.shape[0]"; "accumulation.shape[1]==flowdir.shape[1]";
      "flowdir.shape[0]==to_accumulate.shape[0]"; "flowdir.shape[1]==to_accumulate.shape[1]"] &&
  pyx_has "gis" "slope" ["3==flowdircode.shape[0]"; "3==flowdircode.shape[1]";
      "altitude.shape[0]==flowdir.shape[0]"; "altitude.shape[1]==flowdir.shape[1]";
      "flowdir.shape[0]==slopeval.shape[0]"; "flowdir.shape[1]==slopeval.shape[1]"] &&
  pyx_has "gis" "voronoi" ["2==xypoints.shape[1]"; "weights.shape[0]==xypoints.shape[0]"] &&
  pyx_has "gis" "delineate_boundary" ["buffer.shape[0]==idxcells_area.shape[0]";
      "catchment_area_mask.shape[0]==nrows*ncols";
      "idxcells_area.shape[0]==idxcells_boundary.shape[0]"] = true.
Proof. vm_compute. reflexivity. Qed.

(* the .pyx wrapper of coord2cell does not assert that the coordinate array has two columns;
   the Python wrapper (Grid.coord2cell) does since the `fix:` commit *)
Example C05_coord2cell_wrapper_checks_two_columns : GRID_COORD2CELL_CHECKS_TWO_COLUMNS = true.
Proof. reflexivity. Qed.

(* c_coord2cell: over any arithmetic whose conversion to integer succeeds on values that
   compared inside [0, n) (binary64; the reals with a NaN), any coordinates, any cell size *)
Theorem C05_coord2cell_safe : forall {T} (N : NumOps T),
  (forall x n, 0 <= n <= MAX64 -> nleb N (n0 N) x = true -> nltb N x (nofZ N n) = true ->
     exists z, ntrunc N x = Some z /\ 0 <= z < n) ->
  forall nrows ncols xll yll csz nval xy idxcell,
  0 <= nrows <= MAX64 -> 0 <= ncols <= MAX64 -> nrows * ncols <= MAX64 ->
  Zlen xy = 2 * nval -> Zlen idxcell = nval ->
  safe (coord2cell N true nrows ncols xll yll csz nval xy idxcell).
Proof. exact @coord2cell_safe. Qed.
Print Assumptions C05_coord2cell_safe.

(* ... in particular over the reals extended with NaN (None): NaN and huge coordinates included *)
Theorem C05_coord2cell_safe_reals_with_nan : forall nrows ncols xll yll csz nval xy idxcell,
  0 <= nrows <= MAX64 -> 0 <= ncols <= MAX64 -> nrows * ncols <= MAX64 ->
  Zlen xy = 2 * nval -> Zlen idxcell = nval ->
  safe (coord2cell RN true nrows ncols xll yll csz nval xy idxcell).
Proof. exact coord2cell_safe_RN. Qed.
Print Assumptions C05_coord2cell_safe_reals_with_nan.

Example C05_coord2cell_nonvacuous :
  coord2cell F64 true 3 3 0%float 0%float 1%float 3 [0.5; 1.5; nan; 1; 0x1p+1000; 0.5]%float [9; 9; 9]
  = Ret 0 [3; -1; -1].
Proof. vm_compute. reflexivity. Qed.

Theorem C05_coord2cell_pinned_unsafe_nan :
  coord2cell F64 false 3 3 0%float 0%float 1%float 1 [nan; 1]%float [0] = Fail CastRange.
Proof. exact coord2cell_pinned_unsafe_nan. Qed.
Print Assumptions C05_coord2cell_pinned_unsafe_nan.
Theorem C05_coord2cell_pinned_unsafe_huge :
  coord2cell F64 false 3 3 0%float 0%float 1%float 1 [0x1p+1000; 1]%float [0] = Fail CastRange.
Proof. exact coord2cell_pinned_unsafe_huge. Qed.
Print Assumptions C05_coord2cell_pinned_unsafe_huge.
(* the precondition Zlen xy = 2*nval is needed: an (n,1) array read as (n,2) *)
Theorem C05_coord2cell_needs_two_columns :
  coord2cell F64 true 3 3 0%float 0%float 1%float 5 [0; 0; 0; 0; 0]%float [0; 0; 0; 0; 0]
  = Fail (OOB "xycoords" 5).
Proof. exact coord2cell_needs_two_columns. Qed.
Print Assumptions C05_coord2cell_needs_two_columns.

(* c_cell2rowcol, c_cell2coord, c_neighbours: any cell numbers *)
Theorem C05_cell2rowcol_safe : forall nrows ncols nval idxcell rowcols,
  0 <= nrows -> 0 <= ncols -> nrows * ncols <= MAX64 ->
  Zlen idxcell = nval -> Zlen rowcols = 2 * nval ->
  safe (cell2rowcol nrows ncols nval idxcell rowcols).
Proof. exact cell2rowcol_safe. Qed.
Print Assumptions C05_cell2rowcol_safe.

Theorem C05_cell2coord_safe : forall nrows ncols nval idxcell xy,
  0 <= nrows -> 0 <= ncols -> nrows * ncols <= MAX64 ->
  Zlen idxcell = nval -> Zlen xy = 2 * nval ->
  safe (cell2coord nrows ncols nval idxcell xy).
Proof. exact cell2coord_safe. Qed.
Print Assumptions C05_cell2coord_safe.

Theorem C05_neighbours_safe : forall nrows ncols idx nb,
  0 <= nrows -> 0 <= ncols -> nrows * ncols <= MAX64 -> Zlen nb = 9 ->
  safe (neighbours nrows ncols idx nb).
Proof. exact neighbours_safe. Qed.
Print Assumptions C05_neighbours_safe.

(* c_downstream: any flow direction values (valid codes or not), any cell numbers; and what it
   answers: an error, or for every cell -2, -1 or a cell of the grid *)
Theorem C05_downstream_safe : forall nrows ncols code flowdir nval idxup idxdown,
  0 <= nrows -> 0 <= ncols -> nrows * ncols <= MAX64 ->
  Zlen code = 9 -> Zlen flowdir = nrows * ncols -> Zlen idxup = nval -> Zlen idxdown = nval ->
  safe (downstream nrows ncols code flowdir nval idxup idxdown).
Proof. exact downstream_safe. Qed.
Print Assumptions C05_downstream_safe.

Theorem C05_downstream_answers_cells : forall nrows ncols code flowdir nval idxup idxdown,
  0 <= nrows -> 0 <= ncols -> nrows * ncols <= MAX64 ->
  Zlen code = 9 -> Zlen flowdir = nrows * ncols -> Zlen idxup = nval -> Zlen idxdown = nval ->
  post3 (downstream nrows ncols code flowdir nval idxup idxdown) (fun _ => False) (fun _ => False)
        (fun c out => Zlen out = nval /\ (c = 0 \/ c = 1) /\
           (c = 0 -> forall j, 0 <= j < nval ->
              0 <= nth (Z.to_nat j) idxup 0 < nrows * ncols /\
              dgood (nrows * ncols) (nth (Z.to_nat j) out 0)) /\
           (c = 1 -> exists j, 0 <= j < nval /\ ~ (0 <= nth (Z.to_nat j) idxup 0 < nrows * ncols))).
Proof. exact downstream_post. Qed.
Print Assumptions C05_downstream_answers_cells.

(* c_accumulate, c_slope: any flow direction grid (cycles, invalid codes), any nprint
   (0 included), any cap *)
Theorem C05_accumulate_safe : forall nrows ncols nprint maxacc code flowdir ntoacc nacc,
  0 <= ncols -> nrows * ncols <= MAX64 ->
  Zlen code = 9 -> Zlen flowdir = nrows * ncols -> ntoacc = nrows * ncols -> nacc = nrows * ncols ->
  safe (accumulate true nrows ncols nprint maxacc code flowdir ntoacc nacc).
Proof. exact accumulate_safe. Qed.
Print Assumptions C05_accumulate_safe.

Theorem C05_accumulate_pinned_unsafe :
  accumulate false 2 2 0 4 [32; 64; 128; 16; 0; 1; 8; 4; 2] [1; 4; 1; 0] 4 4 = Fail DivZero.
Proof. exact accumulate_pinned_unsafe. Qed.
Print Assumptions C05_accumulate_pinned_unsafe.

Theorem C05_slope_safe : forall nrows ncols nprint code flowdir nalt slopeval,
  0 <= ncols -> nrows * ncols <= MAX64 ->
  Zlen code = 9 -> Zlen flowdir = nrows * ncols -> nalt = nrows * ncols ->
  Zlen slopeval = nrows * ncols ->
  safe (slope true nrows ncols nprint code flowdir nalt slopeval).
Proof. exact slope_safe. Qed.
Print Assumptions C05_slope_safe.

Theorem C05_slope_pinned_unsafe :
  slope false 2 2 0 [32; 64; 128; 16; 0; 1; 8; 4; 2] [1; 4; 1; 0] 4 [false; false; false; false]
  = Fail DivZero.
Proof. exact slope_pinned_unsafe. Qed.
Print Assumptions C05_slope_pinned_unsafe.

(* c_voronoi: any arithmetic, any point coordinates, any number of points (0 included), any
   catchment cells (outside the grid included), empty grids included *)
Theorem C05_voronoi_safe : forall {T} (N : NumOps T) nrows ncols xll yll csz ncells area npoints xyp weights,
  nrows * ncols <= MAX64 -> nrows <= MAX64 ->
  Zlen area = ncells -> Zlen xyp = 2 * npoints -> Zlen weights = npoints ->
  safe (voronoi N true nrows ncols xll yll csz ncells area npoints xyp weights).
Proof. exact @voronoi_safe. Qed.
Print Assumptions C05_voronoi_safe.

Theorem C05_voronoi_pinned_unsafe :
  voronoi F64 false 3 3 0%float 0%float 1%float 6 [0; 1; 2; 3; 4; 5] 1 [1; 1]%float [0%float]
  = Fail (OOB "xypoints" 2).
Proof. exact voronoi_pinned_unsafe. Qed.
Print Assumptions C05_voronoi_pinned_unsafe.
Theorem C05_voronoi_pinned_unsafe_nopoint :
  voronoi F64 false 3 3 0%float 0%float 1%float 1 [0] 0 [] [] = Fail (OOB "xypoints" 0).
Proof. exact voronoi_pinned_unsafe_nopoint. Qed.
Print Assumptions C05_voronoi_pinned_unsafe_nopoint.

(* c_delineate_boundary: any area cells (one cell, scattered, outside the grid), any mask
   content; grids of at most 2^30 rows and columns; over any arithmetic in which the 80 %
   threshold converts to an integer (binary64; the reals) *)
Theorem C05_delineate_boundary_safe : forall {T} (N : NumOps T),
  (forall n, 0 <= n <= MAX64 -> exists z, bd_threshold N n = Ok z) ->
  forall nrows ncols nval area buffer mask out,
  nrows <= LIM -> ncols <= LIM -> nval <= MAX64 ->
  Zlen area = nval -> Zlen buffer = nval -> Zlen mask = nrows * ncols -> Zlen out = nval ->
  safe (delineate_boundary N true nrows ncols nval area buffer mask out).
Proof. exact @delineate_boundary_safe. Qed.
Print Assumptions C05_delineate_boundary_safe.

Theorem C05_delineate_boundary_safe_reals : forall nrows ncols nval area buffer mask out,
  nrows <= LIM -> ncols <= LIM -> nval <= MAX64 ->
  Zlen area = nval -> Zlen buffer = nval -> Zlen mask = nrows * ncols -> Zlen out = nval ->
  safe (delineate_boundary RR true nrows ncols nval area buffer mask out).
Proof. exact delineate_boundary_safe_RR. Qed.
Print Assumptions C05_delineate_boundary_safe_reals.

Example C05_delineate_boundary_nonvacuous :
  exists s, delineate_boundary F64 true 3 3 3 [5; 4; 1] [9; 9; 9] [0; 1; 0; 0; 1; 1; 0; 0; 0] [9; 9; 9]
            = Ret 0 ([1; 4; 5], s) /\ bd_out s = [1; 4; 1].
Proof. eexists. vm_compute. split; reflexivity. Qed.

Theorem C05_delineate_boundary_pinned_unsafe :
  delineate_boundary F64 false 3 3 1 [4] [0] [0; 0; 0; 0; 1; 0; 0; 0; 0] [0]
  = Fail (OOB "buffer" (-1)).
Proof. exact delineate_boundary_pinned_unsafe. Qed.
Print Assumptions C05_delineate_boundary_pinned_unsafe.
Theorem C05_delineate_boundary_pinned_unsafe_cells :
  delineate_boundary F64 false 2 2 2 [-2; -1] [0; 0] [1; 1; 1; 1] [0; 0]
  = Fail (OOB "catchment_area_mask" (-1)).
Proof. exact delineate_boundary_pinned_unsafe_cells. Qed.
Print Assumptions C05_delineate_boundary_pinned_unsafe_cells.

(* ------------------------------------------------------------------ *)
(* the remaining gis kernels (no defect in the pinned code) *)

Example C05_pyx_contract_gis2 :
  pyx_has "gis" "upstream" ["3==flowdircode.shape[0]"; "3==flowdircode.shape[1]"; "9==idxup.shape[1]";
                            "idxdown.shape[0]==idxup.shape[0]"] &&
  pyx_has "gis" "delineate_area" ["3==flowdircode.shape[0]"; "3==flowdircode.shape[1]";
      "buffer1.shape[0]==idxcells_area.shape[0]"; "buffer2.shape[0]==idxcells_area.shape[0]"] &&
  pyx_has "gis" "delineate_river" ["1==npoints.shape[0]"; "3==flowdircode.shape[0]";
      "3==flowdircode.shape[1]"; "5==data.shape[1]"; "data.shape[0]==idxcells.shape[0]"] &&
  pyx_has "gis" "delineate_flowpathlengths_in_catchment" ["3==flowdircode.shape[0]";
      "3==flowdircode.shape[1]"; "3==flowpathlengths.shape[1]";
      "flowpathlengths.shape[0]==idxcells_area.shape[0]"] &&
  pyx_has "gis" "intersect" ["1==npoints.shape[0]"; "2==xy_area.shape[1]";
                             "idxcells.shape[0]==weights.shape[0]"] &&
  pyx_has "gis" "points_inside_polygon" ["2==points.shape[1]"; "2==polygon.shape[1]";
                                         "inside.shape[0]==points.shape[0]"] = true.
Proof. vm_compute. reflexivity. Qed.

Theorem C05_upstream_safe : forall nrows ncols code flowdir nval idxdown idxup,
  0 <= nrows -> 0 <= ncols -> nrows * ncols <= MAX64 ->
  Zlen code = 9 -> Zlen flowdir = nrows * ncols -> Zlen idxdown = nval ->
  Zlen idxup = UPSTREAM_STRIDE * nval ->
  safe (upstream nrows ncols code flowdir nval idxdown idxup).
Proof. exact upstream_safe. Qed.
Print Assumptions C05_upstream_safe.

(* c_delineate_area: any flow direction grid (cycles included), any outlet, any inlets, any
   buffer length nval: every store is behind a "buffer full" test and the walk ends *)
Theorem C05_delineate_area_safe :
  forall nrows ncols code flowdir idxoutlet ninlets idxinlets nval area b1 b2,
  0 <= nrows -> 0 <= ncols -> nrows * ncols <= MAX64 ->
  Zlen code = 9 -> Zlen flowdir = nrows * ncols -> Zlen idxinlets = ninlets ->
  Zlen area = nval -> Zlen b1 = nval -> Zlen b2 = nval ->
  safe (delineate_area nrows ncols code flowdir idxoutlet ninlets idxinlets nval area b1 b2).
Proof. exact delineate_area_safe. Qed.
Print Assumptions C05_delineate_area_safe.

Example C05_delineate_area_nonvacuous :
  exists s, delineate_area 1 3 [32; 64; 128; 16; 0; 1; 8; 4; 2] [1; 1; 0] 2 0 [] 5
              [9; 9; 9; 9; 9] [9; 9; 9; 9; 9] [9; 9; 9; 9; 9] = Ret 0 s /\
            da_area s = [1; 2; 0; 9; 9].
Proof. eexists. vm_compute. split; reflexivity. Qed.

Theorem C05_delineate_river_safe :
  forall nrows ncols code flowdir idxupstream nval npoints idxcells data,
  0 <= nrows -> 0 <= ncols -> nrows * ncols <= MAX64 ->
  Zlen code = 9 -> Zlen flowdir = nrows * ncols ->
  Zlen npoints = 1 -> Zlen idxcells = nval -> Zlen data = RIVER_NCOLS * nval ->
  safe (delineate_river nrows ncols code flowdir idxupstream nval npoints idxcells data).
Proof. exact delineate_river_safe. Qed.
Print Assumptions C05_delineate_river_safe.

Theorem C05_flowpathlengths_safe : forall nrows ncols code flowdir nval area outlet fpl,
  0 <= nrows -> 0 <= ncols -> nrows * ncols <= MAX64 ->
  Zlen code = 9 -> Zlen flowdir = nrows * ncols -> Zlen area = nval -> Zlen fpl = 3 * nval ->
  safe (flowpathlengths nrows ncols code flowdir nval area outlet fpl).
Proof. exact flowpathlengths_safe. Qed.
Print Assumptions C05_flowpathlengths_safe.

(* c_intersect: grid.py allocates one slot per cell of the intersecting grid; the kernel does
   not test the fill level but never needs more (the stored cells are pairwise distinct cells of
   that grid: pigeonhole).  Any coordinates (NaN, huge), any cell size. *)
Theorem C05_intersect_safe : forall {T} (N : NumOps T),
  (forall x n, 0 <= n <= MAX64 -> nleb N (n0 N) x = true -> nltb N x (nofZ N n) = true ->
     exists z, ntrunc N x = Some z /\ 0 <= z < n) ->
  forall nrows ncols xll yll csz nval xy npoints idxcells weights,
  0 <= nrows <= MAX64 -> 0 <= ncols <= MAX64 -> nrows * ncols <= MAX64 ->
  Zlen xy = 2 * nval -> Zlen npoints = 1 ->
  Zlen idxcells = nrows * ncols -> Zlen weights = nrows * ncols ->
  safe (intersect N true nrows ncols xll yll csz nval xy npoints idxcells weights).
Proof. exact @intersect_safe. Qed.
Print Assumptions C05_intersect_safe.

Theorem C05_intersect_safe_reals_with_nan :
  forall nrows ncols xll yll csz nval xy npoints idxcells weights,
  0 <= nrows <= MAX64 -> 0 <= ncols <= MAX64 -> nrows * ncols <= MAX64 ->
  Zlen xy = 2 * nval -> Zlen npoints = 1 ->
  Zlen idxcells = nrows * ncols -> Zlen weights = nrows * ncols ->
  safe (intersect RN true nrows ncols xll yll csz nval xy npoints idxcells weights).
Proof. exact intersect_safe_RN. Qed.
Print Assumptions C05_intersect_safe_reals_with_nan.

(* c_inside: at least one vertex (the wrapper's min()/max() raise on an empty polygon) *)
Theorem C05_inside_safe : forall {T} (N : NumOps T) nprint npoints points nvertices polygon xlim ylim ins,
  1 <= nvertices <= 1073741823 ->
  Zlen points = 2 * npoints -> Zlen polygon = 2 * nvertices -> Zlen xlim = 2 -> Zlen ylim = 2 ->
  Zlen ins = npoints ->
  safe (inside N nprint npoints points nvertices polygon xlim ylim ins).
Proof. exact @inside_safe. Qed.
Print Assumptions C05_inside_safe.

(* ================================================================== *)
(* stat kernels: any arithmetic instance, any values *)

Example C05_pyx_contract_stat :
  pyx_has "stat" "armodel_sim" ["inputs.shape[0]==outputs.shape[0]"] &&
  pyx_has "stat" "armodel_residual" ["inputs.shape[0]==residuals.shape[0]"] &&
  pyx_has "stat" "crps" ["5==crps_decompos.shape[0]"; "7==reliability_table.shape[1]";
                         "obs.shape[0]==sim.shape[0]"; "reliability_table.shape[0]==sim.shape[1]+1"] &&
  pyx_has "stat" "ensrank" ["fmat.shape[0]==sim.shape[0]"; "fmat.shape[1]==sim.shape[0]";
                            "ranks.shape[0]==sim.shape[0]"] &&
  pyx_has "stat" "ad_test" ["2==outputs.shape[0]"] &&
  pyx_has "stat" "pareto_front" ["data.shape[0]==isdominated.shape[0]"] = true.
Proof. vm_compute. reflexivity. Qed.

(* every order the kernels accept (1..ARMODEL_NPARAMSMAX) fits the lag buffer they declare
   (both sizes re-extracted from the source) *)
Theorem C05_armodel_safe : forall {T} (N : NumOps T) resid nval nparams mean ini params inputs outputs,
  Zlen params = nparams -> Zlen inputs = nval -> Zlen outputs = nval ->
  safe (armodel N resid nval nparams mean ini params inputs outputs).
Proof. exact @armodel_safe. Qed.
Print Assumptions C05_armodel_safe.

Example C05_armodel_order_bounds : ARMODEL_NPARAMSMAX <= ARMODEL_PREV_SIZE.
Proof. vm_compute. discriminate. Qed.

Theorem C05_crps_safe : forall {T} (N : NumOps T) nval ncol use_weights nobs sim nweights table ndec,
  1 <= ncol -> 0 <= nval -> nval * ncol <= INT_MAX -> (ncol + 1) * CRPS_TABLE_NCOLS <= INT_MAX ->
  nobs = nval -> Zlen sim = nval * ncol -> nweights = nval ->
  Zlen table = (ncol + 1) * CRPS_TABLE_NCOLS -> ndec = 5 ->
  safe (crps N nval ncol use_weights nobs sim nweights table ndec).
Proof. exact @crps_safe. Qed.
Print Assumptions C05_crps_safe.

(* without a member the kernel reads ensemb[-1]: metrics.py excludes it ("No valid data") *)
Example C05_crps_needs_a_member :
  crps F64 1 0 0 1 [] 1 [false; false; false; false; false; false; false] 5
  = Fail (OOB "ensemb" (-1)).
Proof. vm_compute. reflexivity. Qed.

Theorem C05_ensrank_safe : forall {T} (N : NumOps T) eps nval ncol nsim fmat ranks,
  nval * nval <= INT_MAX -> nval * ncol <= INT_MAX -> 2 * ncol <= INT_MAX ->
  nsim = nval * ncol -> Zlen fmat = nval * nval -> Zlen ranks = nval ->
  safe (ensrank N eps nval ncol nsim fmat ranks).
Proof. exact @ensrank_safe. Qed.
Print Assumptions C05_ensrank_safe.

Theorem C05_adtest_safe : forall {T} (N : NumOps T) n x outputs,
  Zlen x = n -> Zlen outputs = 2 -> safe (adtest N n x outputs).
Proof. exact @adtest_safe. Qed.
Print Assumptions C05_adtest_safe.

Theorem C05_paretofront_safe : forall {T} (N : NumOps T) nval ncol orient data isdom,
  0 <= ncol -> nval * ncol <= INT_MAX -> Zlen data = nval * ncol -> Zlen isdom = nval ->
  safe (paretofront N nval ncol orient data isdom).
Proof. exact @paretofront_safe. Qed.
Print Assumptions C05_paretofront_safe.

(* ================================================================== *)
(* the c-module date helpers *)

Example C05_pyx_contract_dates :
  pyx_has "data" "add1month" ["3==date.shape[0]"] && pyx_has "data" "add1day" ["3==date.shape[0]"] &&
  pyx_has "data" "comparedates" ["3==date1.shape[0]"; "3==date2.shape[0]"] &&
  pyx_has "data" "getdate" ["3==date.shape[0]"] = true.
Proof. vm_compute. reflexivity. Qed.

Theorem C05_daysinmonth_safe : forall year month,
  exists n, daysinmonth year month = Ok n /\ -1 <= n <= 31.
Proof. exact daysinmonth_ok. Qed.
Print Assumptions C05_daysinmonth_safe.
Theorem C05_dayofyear_safe : forall month day, exists n, dayofyear month day = Ok n.
Proof. exact dayofyear_safe. Qed.
Print Assumptions C05_dayofyear_safe.

Theorem C05_add1month_safe : forall date,
  Zlen date = 3 -> Forall int32 date -> safe (add1month true date).
Proof. exact add1month_safe. Qed.
Print Assumptions C05_add1month_safe.
Theorem C05_add1month_pinned_unsafe : add1month false [2147483647; 12; 1] = Fail Overflow.
Proof. exact add1month_pinned_unsafe. Qed.
Print Assumptions C05_add1month_pinned_unsafe.
Theorem C05_add1day_safe : forall date,
  Zlen date = 3 -> Forall int32 date -> safe (add1day true date).
Proof. exact add1day_safe. Qed.
Print Assumptions C05_add1day_safe.
Theorem C05_add1day_pinned_unsafe : add1day false [2147483647; 12; 31] = Fail Overflow.
Proof. exact add1day_pinned_unsafe. Qed.
Print Assumptions C05_add1day_pinned_unsafe.
Theorem C05_comparedates_safe : forall d1 d2,
  Zlen d1 = 3 -> Zlen d2 = 3 -> safe (comparedates d1 d2).
Proof. exact comparedates_safe. Qed.
Print Assumptions C05_comparedates_safe.

(* getdate: any day number, NaN included (reals with a NaN) *)
Theorem C05_getdate_safe_reals_with_nan : forall day date,
  Zlen date = 3 -> safe (getdate RN true day date).
Proof. exact getdate_safe_RN. Qed.
Print Assumptions C05_getdate_safe_reals_with_nan.
Theorem C05_getdate_pinned_unsafe :
  getdate F64 false 0x1p+1000%float [0; 0; 0] = Fail CastRange /\
  getdate F64 false nan [0; 0; 0] = Fail CastRange.
Proof. split; [exact getdate_pinned_unsafe|exact getdate_pinned_unsafe_nan]. Qed.
Print Assumptions C05_getdate_pinned_unsafe.
Example C05_getdate_fixed :
  getdate F64 true 0x1p+1000%float [0; 0; 0] = Ret 1 [0; 0; 0] /\
  getdate F64 true nan [0; 0; 0] = Ret 1 [0; 0; 0] /\
  getdate F64 true 20000229%float [0; 0; 0] = Ret 0 [2000; 2; 29].
Proof. exact getdate_fixed_rejects. Qed.
