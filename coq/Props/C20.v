(* C20 - sampling, ranking and summary helpers return what their names promise.
   Statements only; every proof is `exact <lemma of Proofs/Summary*Proofs.v>`.
   Real numbers: instance RR; data with missing values (NaN): instance RN (None = NaN);
   statements about the finite-value mask hold for every arithmetic instance. *)
From Coq Require Import ZArith Bool List Reals Permutation Sorted.
From Hy Require Import Base.Num Gen.ConstsC20 Model.Summary.
From Hy Require Import Proofs.SummaryProofs Proofs.SummaryLhsProofs Proofs.SummaryParetoProofs
  Proofs.SummaryStatsProofs Proofs.SummaryMissingProofs Proofs.SummaryExtraProofs.
Import ListNotations.
Open Scope R_scope.

(* ------------------------------------------------------------------ *)
(* constants re-extracted from the source: the rational, real and binary64 renderings agree *)
Theorem C20_constants_real :
  qc RR PPOS_CST_MIN_NUM PPOS_CST_MIN_DEN = PPOS_CST_MIN_R /\
  qc RR PPOS_CST_MAX_NUM PPOS_CST_MAX_DEN = PPOS_CST_MAX_R /\
  qc RR PCT_TOTAL_NUM PCT_TOTAL_DEN = PCT_TOTAL_R /\
  qc RR PCT_HALVE_NUM PCT_HALVE_DEN = PCT_HALVE_R /\
  qc RR PCT_COMPL_NUM PCT_COMPL_DEN = PCT_COMPL_R /\
  qc RR PCT_MEDIAN_NUM PCT_MEDIAN_DEN = PCT_MEDIAN_R /\
  qc RR BOX_COVERAGE_MIN_NUM BOX_COVERAGE_MIN_DEN = BOX_COVERAGE_MIN_R /\
  qc RR VIOLIN_COVERAGE_CENTER_NUM VIOLIN_COVERAGE_CENTER_DEN = VIOLIN_COVERAGE_CENTER_R /\
  qc RR VIOLIN_COVERAGE_EXTREMES_NUM VIOLIN_COVERAGE_EXTREMES_DEN = VIOLIN_COVERAGE_EXTREMES_R /\
  qc RR VIOLIN_ERR_SCALE_NUM VIOLIN_ERR_SCALE_DEN = VIOLIN_ERR_SCALE_R.
Proof. exact consts_R_agree. Qed.
Print Assumptions C20_constants_real.

Theorem C20_constants_binary64 :
  qc F64 PPOS_CST_MIN_NUM PPOS_CST_MIN_DEN = PPOS_CST_MIN_F /\
  qc F64 PPOS_CST_MAX_NUM PPOS_CST_MAX_DEN = PPOS_CST_MAX_F /\
  qc F64 PCT_TOTAL_NUM PCT_TOTAL_DEN = PCT_TOTAL_F /\
  qc F64 PCT_HALVE_NUM PCT_HALVE_DEN = PCT_HALVE_F /\
  qc F64 PCT_COMPL_NUM PCT_COMPL_DEN = PCT_COMPL_F /\
  qc F64 PCT_MEDIAN_NUM PCT_MEDIAN_DEN = PCT_MEDIAN_F /\
  qc F64 BOX_COVERAGE_MIN_NUM BOX_COVERAGE_MIN_DEN = BOX_COVERAGE_MIN_F /\
  qc F64 VIOLIN_COVERAGE_CENTER_NUM VIOLIN_COVERAGE_CENTER_DEN = VIOLIN_COVERAGE_CENTER_F /\
  qc F64 VIOLIN_COVERAGE_EXTREMES_NUM VIOLIN_COVERAGE_EXTREMES_DEN = VIOLIN_COVERAGE_EXTREMES_F /\
  qc F64 VIOLIN_ERR_SCALE_NUM VIOLIN_ERR_SCALE_DEN = VIOLIN_ERR_SCALE_F.
Proof. exact consts_F_agree. Qed.
Print Assumptions C20_constants_binary64.

(* ================================================================== *)
(* plotting positions                                                   *)

(* accepted exactly for cst in the range found in the source; the array holds (i-cst)/(n+1-2cst), i = 1..n *)
Theorem C20_ppos_accepts : forall n cst, PPOS_CST_MIN_R <= cst <= PPOS_CST_MAX_R ->
  ppos RR n cst = Some (map (ppos_at RR n cst) (zseq 1 (Z.to_nat n))).
Proof. exact ppos_accepts. Qed.
Print Assumptions C20_ppos_accepts.

Theorem C20_ppos_rejects : forall n cst,
  cst < PPOS_CST_MIN_R \/ PPOS_CST_MAX_R < cst -> ppos RR n cst = None.
Proof. exact ppos_rejects. Qed.
Print Assumptions C20_ppos_rejects.

(* every size, every constant in [0, 1/2]: the positions lie in (0,1), increase strictly and
   are symmetric about 1/2 (p[k] + p[n-1-k] = 1) *)
Theorem C20_ppos_array : forall n cst l, 0 <= cst <= 1/2 -> ppos RR n cst = Some l ->
  length l = Z.to_nat n /\
  (forall k, (k < length l)%nat -> 0 < nth k l 0 < 1) /\
  (forall k k', (k < k' < length l)%nat -> nth k l 0 < nth k' l 0) /\
  (forall k, (k < length l)%nat -> nth k l 0 + nth (length l - 1 - k) l 0 = 1).
Proof. exact ppos_array. Qed.
Print Assumptions C20_ppos_array.

Example C20_ppos_nonvacuous : exists l, ppos RR 3 (3/10) = Some l /\ nth 1 l 0 = 1/2.
Proof. exact ppos_example. Qed.
Print Assumptions C20_ppos_nonvacuous.

(* ================================================================== *)
(* normal scores                                                        *)

(* the average rank (pandas rank - 1) is a strictly increasing function of the data value,
   with values in [0, n-1] *)
Theorem C20_rank_increasing : forall l x y, In x l -> In y l -> x < y ->
  rank_avg RR l x < rank_avg RR l y.
Proof. exact rank_avg_increasing. Qed.
Print Assumptions C20_rank_increasing.

Theorem C20_rank_range : forall l x, In x l ->
  0 <= rank_avg RR l x <= IZR (Z.of_nat (length l)) - 1.
Proof. exact rank_avg_range. Qed.
Print Assumptions C20_rank_range.

(* the argument handed to the normal quantile function lies in (0,1) *)
Theorem C20_nscore_arg_in_unit : forall n cst r,
  0 <= cst <= 1/2 -> (1 <= n)%Z -> 0 <= r <= IZR n - 1 -> 0 < nscore_arg RR n cst r < 1.
Proof. exact nscore_arg_in_unit. Qed.
Print Assumptions C20_nscore_arg_in_unit.

(* for ANY quantile function that increases strictly on (0,1) (scipy's norm.ppf is external):
   the score is a strictly increasing function of the rank *)
Theorem C20_nscore_increasing_in_rank : forall ppf : R -> R,
  (forall p q, 0 < p -> p < q -> q < 1 -> ppf p < ppf q) ->
  forall n cst r1 r2,
  0 <= cst <= 1/2 -> (1 <= n)%Z -> 0 <= r1 -> r1 < r2 -> r2 <= IZR n - 1 ->
  ppf (nscore_arg RR n cst r1) < ppf (nscore_arg RR n cst r2).
Proof. exact nscore_increasing_in_rank. Qed.
Print Assumptions C20_nscore_increasing_in_rank.

(* end to end on standard_normal (NaN-free data, ties allowed): ranks and scores compare
   exactly as the data values do *)
Theorem C20_standard_normal_scores : forall ppf : R -> R,
  (forall p q, 0 < p -> p < q -> q < 1 -> ppf p < ppf q) ->
  forall x cst ranks args,
  0 <= cst <= 1/2 ->
  standard_normal_args RR x cst false = Some (ranks, args) ->
  length ranks = length x /\ length args = length x /\
  forall i j, (i < length x)%nat -> (j < length x)%nat ->
    (nth i x 0 < nth j x 0 -> nth i ranks 0 < nth j ranks 0 /\ ppf (nth i args 0) < ppf (nth j args 0)) /\
    (nth i x 0 = nth j x 0 -> nth i ranks 0 = nth j ranks 0 /\ nth i args 0 = nth j args 0).
Proof. exact standard_normal_scores. Qed.
Print Assumptions C20_standard_normal_scores.

(* sorted=True: the ranks are 0..n-1 and the scores increase strictly with the index *)
Theorem C20_standard_normal_sorted : forall ppf : R -> R,
  (forall p q, 0 < p -> p < q -> q < 1 -> ppf p < ppf q) ->
  forall x cst ranks args,
  0 <= cst <= 1/2 ->
  standard_normal_args RR x cst true = Some (ranks, args) ->
  length ranks = length x /\ length args = length x /\
  (forall i, (i < length x)%nat -> nth i ranks 0 = IZR (Z.of_nat i)) /\
  forall i j, (i < j)%nat -> (j < length x)%nat -> ppf (nth i args 0) < ppf (nth j args 0).
Proof. exact standard_normal_sorted. Qed.
Print Assumptions C20_standard_normal_sorted.

Example C20_standard_normal_nonvacuous :
  standard_normal_args RR [3; 1; 3] 0 false = Some ([3/2; 0; 3/2], [5/8; 1/4; 5/8]).
Proof. exact standard_normal_example. Qed.
Print Assumptions C20_standard_normal_nonvacuous.

(* ================================================================== *)
(* Latin hypercube                                                      *)

(* numpy.linspace over the reals *)
Theorem C20_linspace : forall a b num k, (Z.of_nat k < num)%Z ->
  nth k (linspace RR a b num) 0 =
  if (num =? 1)%Z then a else a + IZR (Z.of_nat k) * ((b - a) / IZR (num - 1)).
Proof. exact linspace_nth. Qed.
Print Assumptions C20_linspace.

(* the regular points are the centres of the n equal strata of [pmin, pmax] *)
Theorem C20_lhs_centres : forall n pmin pmax k, (1 <= n)%Z -> (Z.of_nat k < n)%Z ->
  nth k (lhs_centres RR n pmin pmax) 0 =
  pmin + (IZR (Z.of_nat k) + 1/2) * ((pmax - pmin) / IZR n).
Proof. exact lhs_centres_nth. Qed.
Print Assumptions C20_lhs_centres.

(* every sample size n >= 1, every number of parameters, every finite range pmin < pmax,
   ANY permutation and ANY jitters in [-du/2, du/2): each of the n strata of each parameter
   holds exactly one sample (stratum s = floor((s-pmin)/du)) *)
Theorem C20_lhs_one_point_per_stratum : forall n pmins pmaxs kks jits,
  (1 <= n)%Z ->
  length pmaxs = length pmins -> length kks = length pmins -> length jits = length pmins ->
  (forall j, (j < length pmins)%nat ->
     let a := nth j pmins 0 in let b := nth j pmaxs 0 in
     a < b /\ Permutation (nth j kks []) (zseq 0 (Z.to_nat n)) /\
     length (nth j jits []) = Z.to_nat n /\
     Forall (fun x => - ((b - a) / IZR n) / 2 <= x < ((b - a) / IZR n) / 2) (nth j jits [])) ->
  exists cols, lhs RR n pmins pmaxs kks jits = Some cols /\ length cols = length pmins /\
    forall j, (j < length pmins)%nat ->
      let col := nth j cols [] in
      length col = Z.to_nat n /\
      forall k, (0 <= k < n)%Z ->
        count_occ Z.eq_dec (map (stratum n (nth j pmins 0) (nth j pmaxs 0)) col) k = 1%nat.
Proof. exact lhs_one_point_per_stratum. Qed.
Print Assumptions C20_lhs_one_point_per_stratum.

Example C20_lhs_nonvacuous :
  let n := 2%Z in
  (1 <= n)%Z /\ 0 < 1 /\ Permutation [1; 0]%Z (zseq 0 (Z.to_nat n)) /\
  Forall (fun x => - ((1 - 0) / IZR n) / 2 <= x < ((1 - 0) / IZR n) / 2) [1/5; -1/4].
Proof. exact lhs_example. Qed.
Print Assumptions C20_lhs_nonvacuous.

Theorem C20_lhs_rejects_bounds : forall n pmins pmaxs kks jits j,
  length pmaxs = length pmins -> (j < length pmins)%nat -> nth j pmaxs 0 <= nth j pmins 0 ->
  lhs RR n pmins pmaxs kks jits = None.
Proof. exact lhs_rejects_bounds. Qed.
Print Assumptions C20_lhs_rejects_bounds.

(* ================================================================== *)
(* Pareto front (None = NaN coordinate)                                 *)

(* any number of points and columns, any orientation value, NaN anywhere: a point is flagged
   exactly when ANOTHER point is strictly better in every coordinate whose difference is not
   missing; flags are 0 or 1 *)
Theorem C20_pareto_flag_iff_dominated : forall o data i, (i < length data)%nat ->
  (nth i (paretofront RN o data) 0%Z = 1%Z <->
   exists j, (j < length data)%nat /\ j <> i /\ dominates o (nth j data []) (nth i data [])) /\
  (nth i (paretofront RN o data) 0%Z = 0%Z <->
   ~ exists j, (j < length data)%nat /\ j <> i /\ dominates o (nth j data []) (nth i data [])).
Proof. exact paretofront_flag_iff. Qed.
Print Assumptions C20_pareto_flag_iff_dominated.

Theorem C20_pareto_length : forall o data, length (paretofront RN o data) = length data.
Proof. exact paretofront_length. Qed.
Print Assumptions C20_pareto_length.

(* complete data (no NaN), at least one point and one column: some point is not dominated *)
Theorem C20_pareto_front_nonempty : forall o rows,
  rows <> [] -> (forall r, In r rows -> r <> []) ->
  exists i, (i < length rows)%nat /\ nth i (paretofront RN o (complete rows)) 0%Z = 0%Z.
Proof. exact paretofront_nonempty. Qed.
Print Assumptions C20_pareto_front_nonempty.

(* reversing the orientation = negating the data (NaN included) *)
Theorem C20_pareto_reverse_is_negation : forall o data,
  paretofront RN (- o) data = paretofront RN o (negate data).
Proof. exact paretofront_reverse. Qed.
Print Assumptions C20_pareto_reverse_is_negation.

Example C20_pareto_nonvacuous :
  paretofront RN 1 [[Some 1; None]; [Some 2; Some 0]; [Some 0; Some 3]] = [1; 0; 1]%Z.
Proof. exact pareto_example. Qed.
Print Assumptions C20_pareto_nonvacuous.

(* ================================================================== *)
(* box-plot statistics                                                  *)

(* accepted coverages; the five levels are ordered and symmetric about 50 *)
Theorem C20_coverages_ok : forall box wh,
  coverages_ok RR box wh = true <-> BOX_COVERAGE_MIN_R <= box /\ box < wh.
Proof. exact coverages_ok_RR. Qed.
Print Assumptions C20_coverages_ok.

Theorem C20_box_levels_ordered : forall box wh, 40 <= box -> box < wh -> wh <= 100 ->
  exists w1 b1 b2 w2, box_levels RR box wh = [w1; b1; 50; b2; w2] /\
    0 <= w1 /\ w1 < b1 /\ b1 <= 30 /\ 70 <= b2 /\ b2 < w2 /\ w2 <= 100 /\
    w1 + w2 = 100 /\ b1 + b2 = 100 /\ w2 - w1 = wh /\ b2 - b1 = box.
Proof. exact box_levels_ordered. Qed.
Print Assumptions C20_box_levels_ordered.

(* the order statistics *)
Theorem C20_sort_values : forall l,
  StronglySorted Rle (sort_values RR l) /\ Permutation l (sort_values RR l).
Proof. exact sort_values_spec. Qed.
Print Assumptions C20_sort_values.

(* numpy's linear percentile of a sorted non-empty sample: monotone in the level, between the
   smallest and the largest value, level 0 = minimum, level 100 = maximum *)
Theorem C20_percentile_monotone : forall s, StronglySorted Rle s -> s <> [] ->
  forall p1 p2, 0 <= p1 -> p1 <= p2 -> percentile RR s p1 <= percentile RR s p2.
Proof. exact percentile_mono. Qed.
Print Assumptions C20_percentile_monotone.

Theorem C20_percentile_bounds : forall s, StronglySorted Rle s -> s <> [] ->
  forall p, 0 <= p -> nth 0 s 0 <= percentile RR s p <= nth (length s - 1) s 0.
Proof. exact percentile_bounds. Qed.
Print Assumptions C20_percentile_bounds.

Theorem C20_percentile_0 : forall s, StronglySorted Rle s -> s <> [] ->
  percentile RR s 0 = nth 0 s 0.
Proof. exact percentile_0. Qed.
Print Assumptions C20_percentile_0.

Theorem C20_percentile_100 : forall s, s <> [] ->
  percentile RR s 100 = nth (length s - 1) s 0.
Proof. exact percentile_100. Qed.
Print Assumptions C20_percentile_100.

(* ANY arithmetic instance (binary64 included): "count" is the number of finite values; the
   statistics depend on the finite values only; at most 3 finite values give the NaN row *)
Theorem C20_boxplot_count : forall {T} (N : NumOps T) data box wh,
  bs_count (boxplot_stats N data box wh) = Z.of_nat (length (finite_values N data)).
Proof. exact @boxplot_stats_count. Qed.
Print Assumptions C20_boxplot_count.

Theorem C20_boxplot_mask : forall {T} (N : NumOps T) data box wh,
  boxplot_stats N data box wh = boxplot_stats N (finite_values N data) box wh.
Proof. exact @boxplot_stats_mask. Qed.
Print Assumptions C20_boxplot_mask.

Theorem C20_boxplot_small_sample : forall {T} (N : NumOps T) data box wh,
  (Z.of_nat (length (finite_values N data)) <= BOX_NOK_MIN)%Z ->
  boxplot_stats N data box wh = bstats_nan N (Z.of_nat (length (finite_values N data))).
Proof. exact @boxplot_stats_small. Qed.
Print Assumptions C20_boxplot_small_sample.

(* a finite sample of more than 3 values, 40 <= box < whiskers <= 100: the row holds the count,
   the percentiles at the levels implied by the coverages, in non-decreasing order between min
   and max; the mean lies between min and max, which are sample values *)
Theorem C20_boxplot_stats_ordered : forall data box wh,
  (BOX_NOK_MIN < Z.of_nat (length data))%Z -> 40 <= box -> box < wh -> wh <= 100 ->
  let s := sort_values RR data in
  let P := fun p => percentile RR s p in
  boxplot_stats RR data box wh =
    mkBstats (Z.of_nat (length data))
             [P ((100 - wh) / 2); P ((100 - box) / 2); P 50;
              P (100 - (100 - box) / 2); P (100 - (100 - wh) / 2)]
             (tmean RR data) (tmax RR data) (tmin RR data) /\
  tmin RR data <= P ((100 - wh) / 2) /\ P ((100 - wh) / 2) <= P ((100 - box) / 2) /\
  P ((100 - box) / 2) <= P 50 /\ P 50 <= P (100 - (100 - box) / 2) /\
  P (100 - (100 - box) / 2) <= P (100 - (100 - wh) / 2) /\
  P (100 - (100 - wh) / 2) <= tmax RR data /\
  tmin RR data <= tmean RR data <= tmax RR data /\
  In (tmin RR data) data /\ In (tmax RR data) data.
Proof. exact boxplot_stats_RR_ordered. Qed.
Print Assumptions C20_boxplot_stats_ordered.

Example C20_boxplot_nonvacuous :
  (BOX_NOK_MIN < Z.of_nat (length [3; 1; 2; 5; 4]))%Z /\ 40 <= 50 /\ 50 < 90 /\ 90 <= 100.
Proof. exact boxplot_stats_example. Qed.
Print Assumptions C20_boxplot_nonvacuous.

(* a column with non-finite entries (None = NaN / +inf / -inf), more than 3 finite values:
   every entry of the row is the real-number statistic of the finite values of the column;
   together with C20_boxplot_stats_ordered this is the box-plot clause at full strength *)
Theorem C20_boxplot_stats_nonfinite : forall data box wh,
  (BOX_NOK_MIN < Z.of_nat (length (somes data)))%Z ->
  boxplot_stats RN data (Some box) (Some wh) =
  lift_bstats (boxplot_stats RR (somes data) box wh).
Proof. exact boxplot_stats_RN. Qed.
Print Assumptions C20_boxplot_stats_nonfinite.

Theorem C20_boxplot_stats_nonfinite_small : forall data box wh,
  (Z.of_nat (length (somes data)) <= BOX_NOK_MIN)%Z ->
  boxplot_stats RN data box wh = bstats_nan RN (Z.of_nat (length (somes data))).
Proof. exact boxplot_stats_RN_small. Qed.
Print Assumptions C20_boxplot_stats_nonfinite_small.

Example C20_boxplot_nonfinite_nonvacuous :
  (BOX_NOK_MIN < Z.of_nat (length (somes example_column)))%Z /\ somes example_column <> [].
Proof. exact boxplot_stats_RN_example. Qed.
Print Assumptions C20_boxplot_nonfinite_nonvacuous.

(* the percentile of data with an explicit missing value is the real-number percentile *)
Theorem C20_percentile_nonfinite : forall s p, s <> [] ->
  percentile RN (map Some s) (Some p) = Some (percentile RR s p).
Proof. exact percentile_RN. Qed.
Print Assumptions C20_percentile_nonfinite.

(* group-wise (any arithmetic instance): one column per category of `by`, in increasing order,
   holding the statistics of the group taken alone; a single category is rejected *)
Theorem C20_boxplot_by_groups : forall {T} (N : NumOps T) by_ data box wh l,
  boxplot_by N by_ data box wh = Some l ->
  map fst l = zcats by_ /\ StronglySorted Z.lt (map fst l) /\
  (forall c, In c (map fst l) <-> In c by_) /\
  forall c st, In (c, st) l -> st = boxplot_stats N (select_by c by_ data) box wh.
Proof. exact @boxplot_by_groups. Qed.
Print Assumptions C20_boxplot_by_groups.

Theorem C20_boxplot_by_rejects : forall {T} (N : NumOps T) by_ data box wh,
  length (zcats by_) = 1%nat \/ coverages_ok N box wh = false ->
  boxplot_by N by_ data box wh = None.
Proof. exact @boxplot_by_rejects. Qed.
Print Assumptions C20_boxplot_by_rejects.

(* ================================================================== *)
(* violin                                                               *)

(* (repaired code) the quantiles depend on the finite values only, any arithmetic instance *)
Theorem C20_violin_mask : forall {T} (N : NumOps T) data,
  violin_stats N data = violin_stats N (finite_values N data).
Proof. exact @violin_stats_mask. Qed.
Print Assumptions C20_violin_mask.

(* of a non-empty finite sample: min, percentiles 25, 50, 75, max, in non-decreasing order *)
Theorem C20_violin_stats : forall data, data <> [] ->
  let s := sort_values RR data in
  violin_stats RR data =
    [tmin RR data; percentile RR s 25; percentile RR s 50; percentile RR s 75; tmax RR data] /\
  tmin RR data <= percentile RR s 25 /\ percentile RR s 25 <= percentile RR s 50 /\
  percentile RR s 50 <= percentile RR s 75 /\ percentile RR s 75 <= tmax RR data.
Proof. exact violin_stats_RR. Qed.
Print Assumptions C20_violin_stats.

(* (repaired code) a column with non-finite entries: the rows are the quantiles of its finite
   values; no finite value: five NaN *)
Theorem C20_violin_stats_nonfinite : forall data, somes data <> [] ->
  violin_stats RN data = map Some (violin_stats RR (somes data)).
Proof. exact violin_stats_RN. Qed.
Print Assumptions C20_violin_stats_nonfinite.

Theorem C20_violin_stats_empty : forall data, somes data = [] ->
  violin_stats RN data = [None; None; None; None; None].
Proof. exact violin_stats_RN_empty. Qed.
Print Assumptions C20_violin_stats_empty.

(* the pinned code (quantiles over the non-NaN values, infinities included) is refuted *)
Theorem C20_violin_pinned_refuted :
  exists data, list_same f_same (violin_stats_pinned F64 data) (violin_stats F64 data) = false.
Proof. exact violin_stats_pinned_refuted. Qed.
Print Assumptions C20_violin_pinned_refuted.

(* number of profile points: between the two extracted bounds, = number of rows in between *)
Theorem C20_violin_npoints : forall nrows,
  (VIOLIN_NPOINTS_LO <= violin_npoints nrows <= VIOLIN_NPOINTS_HI)%Z /\
  ((VIOLIN_NPOINTS_LO <= nrows <= VIOLIN_NPOINTS_HI)%Z -> violin_npoints nrows = nrows).
Proof. exact violin_npoints_range. Qed.
Print Assumptions C20_violin_npoints.

(* (repaired code) the abscissae fill the npts rows of the profile frame, odd npts included *)
Theorem C20_violin_kde_x_length : forall {T} (N : NumOps T) data npts u,
  (0 <= npts)%Z -> length u = Z.to_nat (npts / 2) ->
  length (violin_kde_x N data npts u) = Z.to_nat npts.
Proof. exact @violin_kde_x_length. Qed.
Print Assumptions C20_violin_kde_x_length.

(* the abscissae are sorted and lie within the range of the finite data enlarged by the
   extracted jitter scale (for draws u in [-1,1]) *)
Theorem C20_violin_kde_x_sorted : forall data npts u,
  StronglySorted Rle (violin_kde_x RR data npts u).
Proof. exact violin_kde_x_sorted. Qed.
Print Assumptions C20_violin_kde_x_sorted.

Theorem C20_violin_kde_x_range : forall data npts u v,
  data <> [] -> Forall (fun w => -1 <= w <= 1) u ->
  In v (violin_kde_x RR data npts u) ->
  tmin RR data - Rabs VIOLIN_ERR_SCALE_R <= v <= tmax RR data + Rabs VIOLIN_ERR_SCALE_R.
Proof. exact violin_kde_x_range. Qed.
Print Assumptions C20_violin_kde_x_range.

(* the pinned code was one abscissa short when the number of points is odd (witness 101) *)
Theorem C20_violin_kde_x_pinned_refuted :
  exists data npts u, (0 <= npts)%Z /\ length u = Z.to_nat (npts / 2) /\
    length (violin_kde_x_pinned RR data npts u) <> Z.to_nat npts.
Proof. exact violin_kde_x_pinned_refuted. Qed.
Print Assumptions C20_violin_kde_x_pinned_refuted.

(* min-max normalisation: when max > min every value lies in [0,1], 0 and 1 are attained *)
Theorem C20_normalise_unit : forall y, tmin RR y < tmax RR y ->
  length (normalise RR y) = length y /\
  Forall (fun v => 0 <= v <= 1) (normalise RR y) /\
  In 0 (normalise RR y) /\ In 1 (normalise RR y).
Proof. exact normalise_unit. Qed.
Print Assumptions C20_normalise_unit.

Example C20_normalise_nonvacuous : tmin RR [2; 5; 3] < tmax RR [2; 5; 3].
Proof. exact normalise_example. Qed.
Print Assumptions C20_normalise_nonvacuous.

(* ================================================================== *)
(* pareto_front on the REGENERATED program (MiniC translation of      *)
(* src/hydrodiy/stat/c_paretofront.c, Gen/KernelsAst.v).              *)
(* ================================================================== *)
From Coq Require Import String Lia PrimFloat.
From Hy Require Import Base.Num Base.MiniC Gen.KernelsAst Gen.Consts Model.Summary.
From Hy Require Proofs.RefinePareto.
Import ListNotations.
Open Scope string_scope.
Open Scope list_scope.
Open Scope Z_scope.

(* c_paretofront = the model [paretofront]: any arithmetic with (double)0 = 0, any number of points and columns (0 included), NaN and infinite coordinates, any orientation code, any initial content of the output; the data come as the row-major flattened array *)
Theorem C20_kernel_paretofront_refines_model :
  forall (T : Type) (N : NumOps T) (X : NumLit T) (orientation : Z) 
         (data : list (list T)) (ncol : nat) (junk : list Z) (n : nat),
       nofZ N 0 = n0 N ->
       Forall (fun r : list T => Datatypes.length r = ncol) data ->
       Datatypes.length junk = Datatypes.length data ->
       (Nat.max (Datatypes.length data) ncol < n)%nat ->
       exec_fun N X program (S n) "c_paretofront"
         [AVI (Z.of_nat (Datatypes.length data)); AVI (Z.of_nat ncol); 
          AVI orientation; AVArrF (List.concat data); AVArrI junk] =
       Ok (RI 0, [VArrF (List.concat data); VArrI (paretofront N orientation data)]).
Proof. exact @RefinePareto.refine_paretofront. Qed.
Print Assumptions C20_kernel_paretofront_refines_model.

(* ================================================================== *)
(* The pareto_front clauses of C20 ITSELF on the REGENERATED program (MiniC translation of src/hydrodiy/stat/c_paretofront.c), over the reals with an explicit *)
(*    missing value (RN, None = NaN): the model theorems above composed with C20_kernel_paretofront_refines_model (Proofs/KernelPareto.v). *)
(* ================================================================== *)
From Coq Require Import String Lia PrimFloat.
From Hy Require Import Base.Num Base.MiniC Gen.KernelsAst Gen.Consts Base.Num Base.MiniC Gen.KernelsAst Model.Summary.
From Hy Require Proofs.KernelPareto.
Import ListNotations.
Open Scope string_scope.
Open Scope list_scope.
Open Scope Z_scope.

(* the translated c_paretofront returns 0, leaves the data unchanged and flags point i with 1 exactly when ANOTHER point is strictly better in every coordinate whose difference is not missing, with 0 exactly when no such point exists; any number of points and columns, any orientation code, NaN anywhere *)
Theorem C20_kernel_pareto_flag_iff_dominated :
  forall (o : Z) (ncol : nat) (data : list (list (option R))) (buf : list Z) (n : nat),
       Forall (fun r : list (option R) => Datatypes.length r = ncol) data ->
       Datatypes.length buf = Datatypes.length data ->
       (Nat.max (Datatypes.length data) ncol < n)%nat ->
       exists flags : list Z,
         KernelPareto.run_pareto n o ncol data buf =
         Ok (RI 0, [VArrF (List.concat data); VArrI flags]) /\
         Datatypes.length flags = Datatypes.length data /\
         (forall i : nat,
          (i < Datatypes.length data)%nat ->
          (nth i flags 0 = 1 <->
           (exists j : nat,
              (j < Datatypes.length data)%nat /\
              j <> i /\ SummaryParetoProofs.dominates o (nth j data []) (nth i data []))) /\
          (nth i flags 0 = 0 <->
           ~
           (exists j : nat,
              (j < Datatypes.length data)%nat /\
              j <> i /\ SummaryParetoProofs.dominates o (nth j data []) (nth i data [])))).
Proof. exact @KernelPareto.kernel_pareto_flag_iff_dominated. Qed.
Print Assumptions C20_kernel_pareto_flag_iff_dominated.

(* complete data, at least one point and one column: the translated kernel leaves at least one point unflagged *)
Theorem C20_kernel_pareto_front_nonempty :
  forall (o : Z) (ncol : nat) (rows : list (list R)) (buf : list Z) (n : nat),
       rows <> [] ->
       (1 <= ncol)%nat ->
       Forall (fun r : list R => Datatypes.length r = ncol) rows ->
       Datatypes.length buf = Datatypes.length rows ->
       (Nat.max (Datatypes.length rows) ncol < n)%nat ->
       exists (flags : list Z) (i : nat),
         KernelPareto.run_pareto n o ncol (SummaryParetoProofs.complete rows) buf =
         Ok (RI 0, [VArrF (List.concat (SummaryParetoProofs.complete rows)); VArrI flags]) /\
         Datatypes.length flags = Datatypes.length rows /\
         (i < Datatypes.length rows)%nat /\ nth i flags 0 = 0.
Proof. exact @KernelPareto.kernel_pareto_front_nonempty. Qed.
Print Assumptions C20_kernel_pareto_front_nonempty.

(* the translated kernel run with orientation -o on the data and with orientation o on the negated data writes the same flags *)
Theorem C20_kernel_pareto_reverse_is_negation :
  forall (o : Z) (ncol : nat) (data : list (list (option R))) (buf1 buf2 : list Z) (n : nat),
       Forall (fun r : list (option R) => Datatypes.length r = ncol) data ->
       Datatypes.length buf1 = Datatypes.length data ->
       Datatypes.length buf2 = Datatypes.length data ->
       (Nat.max (Datatypes.length data) ncol < n)%nat ->
       exists flags : list Z,
         KernelPareto.run_pareto n (- o) ncol data buf1 =
         Ok (RI 0, [VArrF (List.concat data); VArrI flags]) /\
         KernelPareto.run_pareto n o ncol (SummaryParetoProofs.negate data) buf2 =
         Ok (RI 0, [VArrF (List.concat (SummaryParetoProofs.negate data)); VArrI flags]).
Proof. exact @KernelPareto.kernel_pareto_reverse_is_negation. Qed.
Print Assumptions C20_kernel_pareto_reverse_is_negation.

(* the abbreviation run_pareto used above, unfolded *)
Theorem C20_kernel_pareto_abbreviation :
  forall (n : nat) (o : Z) (ncol : nat) (data : list (list (option R))) (buf : list Z),
       KernelPareto.run_pareto n o ncol data buf =
       exec_fun RN XRN program (S n) "c_paretofront"
         [AVI (Z.of_nat (Datatypes.length data)); AVI (Z.of_nat ncol); 
          AVI o; AVArrF (List.concat data); AVArrI buf].
Proof. exact @KernelPareto.kernel_pareto_defs. Qed.
Print Assumptions C20_kernel_pareto_abbreviation.
