(* C02 - the transform Jacobian is the derivative of forward, it is strictly
   positive on the domain, and forward is strictly increasing.
   Statements only; proofs are `exact <lemma of Proofs/TransformJacProofs.v>`.
   Over the real numbers (Coquelicot's is_derive), for ALL parameters inside
   the bounds re-extracted from transform.py: positivity uses scale >= its
   extracted minimum (YeoJohnson, Sinh), xmax >= EPS (LogSinh, Manly), EPS > 0 -
   a loosened bound in the source breaks these proofs through Gen/ConstsC01.v.
   Where `jacobian` is guarded by np.where, the statement is: wherever the
   Jacobian is not NaN (`= Some j`), it is the derivative and it is positive.
   `oget` reads a guarded forward (None = NaN) as a real function.
   The numerical clause ("to 1e-4") is tested on the implementation. *)
From Coq Require Import Reals List Bool.
From Coquelicot Require Import Coquelicot.
From Hy Require Import Base.Num Gen.ConstsC01 Model.Transform Proofs.TransformProofs
  Proofs.TransformJacProofs.
Import ListNotations.
Open Scope R_scope.

(* ---- Identity ---- *)
Theorem C02_identity :
  (forall x, is_derive id_fwd x (id_jac x) /\ 0 < id_jac x) /\
  (forall x1 x2, x1 < x2 -> id_fwd x1 < id_fwd x2).
Proof. exact (conj id_jac_derive id_fwd_incr). Qed.
Print Assumptions C02_identity.

(* ---- Logit : Jacobian defined on lower+EPS < x < upper-EPS; forward increasing on
   the whole domain (lower, upper) ---- *)
Theorem C02_logit :
  (forall lower logdelta x j, logit_jac lower logdelta x = Some j ->
     is_derive (logit_fwd lower logdelta) x j /\ 0 < j) /\
  (forall lower logdelta x1 x2, lower < x1 -> x2 < lower + exp logdelta -> x1 < x2 ->
     logit_fwd lower logdelta x1 < logit_fwd lower logdelta x2).
Proof. exact (conj logit_jac_derive logit_fwd_incr). Qed.
Print Assumptions C02_logit.

(* ---- Log : derivative for any base > 0, <> 1 ; positive / increasing for base > 1
   or the natural logarithm (with a base < 1 forward is decreasing) ---- *)
Theorem C02_log :
  (forall mininu base nu x j, 0 <= mininu -> log_base_ok base ->
     log_jac mininu (log_basefactor base) nu x = Some j ->
     is_derive (log_fwd (log_basefactor base) nu) x j /\ (log_base_gt1 base -> 0 < j)) /\
  (forall base nu x1 x2, log_base_gt1 base -> 0 < x1 + nu -> x1 < x2 ->
     log_fwd (log_basefactor base) nu x1 < log_fwd (log_basefactor base) nu x2).
Proof. exact (conj log_jac_derive log_fwd_incr). Qed.
Print Assumptions C02_log.

(* ---- BoxCox2 : every lam, both branches ---- *)
Theorem C02_boxcox2 :
  (forall mininu nu lam x j, 0 <= mininu -> bc2_jac mininu nu lam x = Some j ->
     is_derive (bc2_fwd nu lam) x j /\ 0 < j) /\
  (forall nu lam x1 x2, 0 < x1 + nu -> x1 < x2 -> bc2_fwd nu lam x1 < bc2_fwd nu lam x2).
Proof. exact (conj bc2_jac_derive bc2_fwd_incr). Qed.
Print Assumptions C02_boxcox2.

Theorem C02_boxcox1lam :
  (forall mininu minilam nu lam x j, 0 <= mininu -> bc1lam_params_ok mininu minilam nu lam ->
     bc1lam_jac mininu minilam nu lam x = Some j ->
     is_derive (bc1lam_fwd mininu minilam nu lam) x j /\ 0 < j) /\
  (forall mininu minilam nu lam x1 x2, bc1lam_params_ok mininu minilam nu lam ->
     0 < x1 + nu -> x1 < x2 ->
     bc1lam_fwd mininu minilam nu lam x1 < bc1lam_fwd mininu minilam nu lam x2).
Proof. exact (conj bc1lam_jac_derive bc1lam_fwd_incr). Qed.
Print Assumptions C02_boxcox1lam.

Theorem C02_boxcox1nu :
  (forall mininu minilam nu lam x j, 0 <= mininu -> bc1nu_params_ok mininu minilam nu lam ->
     bc1nu_jac mininu minilam nu lam x = Some j ->
     is_derive (bc1nu_fwd mininu minilam nu lam) x j /\ 0 < j) /\
  (forall mininu minilam nu lam x1 x2, bc1nu_params_ok mininu minilam nu lam ->
     0 < x1 + nu -> x1 < x2 ->
     bc1nu_fwd mininu minilam nu lam x1 < bc1nu_fwd mininu minilam nu lam x2).
Proof. exact (conj bc1nu_jac_derive bc1nu_fwd_incr). Qed.
Print Assumptions C02_boxcox1nu.

(* ---- BoxCox2sym : derivative away from 0 (the property excludes stencils straddling
   0); strictly increasing over ALL reals, through 0 ---- *)
Theorem C02_boxcox2sym :
  (forall mininu minilam nu lam x j, 0 <= mininu -> bc2sym_params_ok mininu minilam nu lam ->
     x <> 0 -> bc2sym_jac mininu minilam nu lam x = Some j ->
     is_derive (bc2sym_fwd mininu minilam nu lam) x j /\ 0 < j) /\
  (forall mininu minilam nu lam x1 x2, bc2sym_params_ok mininu minilam nu lam -> 0 < nu ->
     x1 < x2 -> bc2sym_fwd mininu minilam nu lam x1 < bc2sym_fwd mininu minilam nu lam x2).
Proof. exact (conj bc2sym_jac_derive bc2sym_fwd_incr). Qed.
Print Assumptions C02_boxcox2sym.

(* ---- YeoJohnson : every lam; derivative on either side of the switch w = EPS;
   increasing inside each branch and across the switch for w1 <= 0, EPS <= w2
   (the sliver 0 < w < EPS against the positive side is not claimed) ---- *)
Theorem C02_yeojohnson :
  (forall nu scale lam x, yj_params_ok nu scale lam -> yj_w nu scale x <> EPS ->
     is_derive (yj_fwd nu scale lam) x (yj_jac nu scale lam x) /\ 0 < yj_jac nu scale lam x) /\
  (forall nu scale lam x1 x2, yj_params_ok nu scale lam -> x1 < x2 ->
     (EPS <= yj_w nu scale x1 \/ yj_w nu scale x2 < EPS \/
      (yj_w nu scale x1 <= 0 /\ EPS <= yj_w nu scale x2)) ->
     yj_fwd nu scale lam x1 < yj_fwd nu scale lam x2).
Proof. exact (conj yj_jac_derive yj_fwd_incr). Qed.
Print Assumptions C02_yeojohnson.

(* ---- LogSinh ---- *)
Theorem C02_logsinh :
  (forall loga logb xmax x j, logsinh_params_ok loga logb xmax ->
     logsinh_jac loga logb xmax x = Some j ->
     is_derive (fun t => oget (logsinh_fwd loga logb xmax t)) x j /\ 0 < j) /\
  (forall loga logb xmax x1 x2, logsinh_params_ok loga logb xmax ->
     logsinh_guard loga logb xmax x1 = true -> x1 < x2 ->
     exists y1 y2, logsinh_fwd loga logb xmax x1 = Some y1 /\
                   logsinh_fwd loga logb xmax x2 = Some y2 /\ y1 < y2).
Proof. exact (conj logsinh_jac_derive logsinh_fwd_incr). Qed.
Print Assumptions C02_logsinh.

(* ---- Reciprocal ---- *)
Theorem C02_reciprocal :
  (forall nu x j, recip_jac nu x = Some j ->
     is_derive (fun t => oget (recip_fwd nu t)) x j /\ 0 < j) /\
  (forall nu x1 x2, - nu < x1 -> x1 < x2 ->
     exists y1 y2, recip_fwd nu x1 = Some y1 /\ recip_fwd nu x2 = Some y2 /\ y1 < y2).
Proof. exact (conj recip_jac_derive recip_fwd_incr). Qed.
Print Assumptions C02_reciprocal.

(* ---- Sinh ---- *)
Theorem C02_sinh :
  (forall nu scale x, sinh_params_ok nu scale ->
     is_derive (sinh_fwd nu scale) x (sinh_jac nu scale x) /\ 0 < sinh_jac nu scale x) /\
  (forall nu scale x1 x2, sinh_params_ok nu scale -> x1 < x2 ->
     sinh_fwd nu scale x1 < sinh_fwd nu scale x2).
Proof. exact (conj sinh_jac_derive sinh_fwd_incr). Qed.
Print Assumptions C02_sinh.

(* ---- Manly (repaired code) : every lam, lam = 0 included ---- *)
Theorem C02_manly :
  (forall lam xmax x, manly_params_ok lam xmax ->
     is_derive (manly_fwd lam xmax) x (manly_jac lam xmax x) /\ 0 < manly_jac lam xmax x) /\
  (forall lam xmax x1 x2, manly_params_ok lam xmax -> x1 < x2 ->
     manly_fwd lam xmax x1 < manly_fwd lam xmax x2).
Proof. exact (conj manly_jac_derive manly_fwd_incr). Qed.
Print Assumptions C02_manly.

(* ---- Softmax : the Jacobian (a determinant) is positive for every dimension.
   FULL STATEMENT (not proved for general n): for every n and every row x of
   positive entries with sum < 1, softmax_jac_row x is the determinant of the
   n x n matrix of partial derivatives d forward_i / d x_j
   (= diag(1/x_i) + 1/(1-s) 1 1^T; matrix determinant lemma).
   Proved: dimensions 1, 2 and 3 (explicit partial derivatives and
   determinants) - softmax_jac_det_partial. ---- *)
Theorem C02_softmax_jac_pos :
  (forall x, row_pos x -> rsum x < 1 -> 0 < softmax_jac_row x) /\
  (forall xs js, softmax_dom xs -> softmax_jac xs = Some js -> List.Forall (fun j => 0 < j) js).
Proof. exact (conj softmax_jac_row_pos softmax_jac_pos). Qed.
Print Assumptions C02_softmax_jac_pos.

Theorem C02_softmax_jac_det_partial :
  (forall x1, 0 < x1 < 1 ->
     is_derive (fun t => nth 0 (softmax_fwd_row [t]) 0) x1 (softmax_jac_row [x1])) /\
  (forall x1 x2, 0 < x1 -> 0 < x2 -> x1 + x2 < 1 ->
     exists d11 d12 d21 d22,
       is_derive (fun t => nth 0 (softmax_fwd_row [t; x2]) 0) x1 d11 /\
       is_derive (fun t => nth 0 (softmax_fwd_row [x1; t]) 0) x2 d12 /\
       is_derive (fun t => nth 1 (softmax_fwd_row [t; x2]) 0) x1 d21 /\
       is_derive (fun t => nth 1 (softmax_fwd_row [x1; t]) 0) x2 d22 /\
       d11 * d22 - d12 * d21 = softmax_jac_row [x1; x2]) /\
  (forall x1 x2 x3, 0 < x1 -> 0 < x2 -> 0 < x3 -> x1 + x2 + x3 < 1 ->
     exists d11 d12 d13 d21 d22 d23 d31 d32 d33 : R,
       is_derive (fun t => nth 0 (softmax_fwd_row [t; x2; x3]) 0) x1 d11 /\
       is_derive (fun t => nth 0 (softmax_fwd_row [x1; t; x3]) 0) x2 d12 /\
       is_derive (fun t => nth 0 (softmax_fwd_row [x1; x2; t]) 0) x3 d13 /\
       is_derive (fun t => nth 1 (softmax_fwd_row [t; x2; x3]) 0) x1 d21 /\
       is_derive (fun t => nth 1 (softmax_fwd_row [x1; t; x3]) 0) x2 d22 /\
       is_derive (fun t => nth 1 (softmax_fwd_row [x1; x2; t]) 0) x3 d23 /\
       is_derive (fun t => nth 2 (softmax_fwd_row [t; x2; x3]) 0) x1 d31 /\
       is_derive (fun t => nth 2 (softmax_fwd_row [x1; t; x3]) 0) x2 d32 /\
       is_derive (fun t => nth 2 (softmax_fwd_row [x1; x2; t]) 0) x3 d33 /\
       d11 * (d22 * d33 - d23 * d32) - d12 * (d21 * d33 - d23 * d31)
         + d13 * (d21 * d32 - d22 * d31) = softmax_jac_row [x1; x2; x3]).
Proof. exact (conj softmax_jac_det_1 (conj softmax_jac_det_2 softmax_jac_det_3)). Qed.
Print Assumptions C02_softmax_jac_det_partial.

(* ---- non-vacuity: the hypotheses above are met by concrete instances (parameter
   hypotheses *_params_ok: see C01_nonvacuous) ---- *)
Example C02_nonvacuous :
  (* Logit *)
  ((exists j, logit_jac 0 0 (1 / 2) = Some j) /\
   (0 < 1 / 4 /\ 1 / 2 < 0 + exp 0 /\ (1 / 4 : R) < 1 / 2)) /\
  (* Log, base 10 *)
  (0 <= EPS /\ log_base_ok (Some 10) /\ log_base_gt1 (Some 10) /\ log_base_gt1 None /\
   (exists j, log_jac EPS (log_basefactor (Some 10)) EPS 1 = Some j) /\ 0 < 1 + EPS) /\
  (* BoxCox family: lam = 0 and lam = 1; BoxCox2sym at x = -1 *)
  ((exists j, bc2_jac EPS EPS 0 1 = Some j) /\ (exists j, bc2_jac EPS EPS 1 1 = Some j) /\
   (exists j, bc1lam_jac EPS 0 1 0 1 = Some j) /\ (exists j, bc1nu_jac EPS 0 1 0 1 = Some j) /\
   (exists j, bc2sym_jac EPS 0 1 0 (-1) = Some j) /\ (-1 <> 0)) /\
  (* YeoJohnson: both sides of the switch, and a pair across it *)
  (yj_w 0 1 (-1) <> EPS /\ yj_w 0 1 1 <> EPS /\
   (yj_w 0 1 (-1) <= 0 /\ EPS <= yj_w 0 1 1) /\ (-1 < 1)) /\
  (* LogSinh *) (exists j, logsinh_jac (-1) 0 1 1 = Some j) /\
  (* Reciprocal *)
  ((exists j, recip_jac 2 (1 / 2) = Some j) /\ - 2 < 1 / 2 /\ (1 / 2 : R) < 1) /\
  (* Softmax *)
  ((exists js, softmax_jac [[1/4; 1/4]; [1/2]] = Some js) /\
   (0 < 1 / 4 < 1) /\ (0 < 1 / 4 /\ 0 < 1 / 4 /\ 1 / 4 + 1 / 4 < 1) /\
   (0 < 1 / 4 /\ 1 / 4 + 1 / 4 + 1 / 4 < 1)).
Proof.
  exact (conj ex2_logit (conj ex2_log (conj ex2_bc2 (conj ex2_yj (conj ex2_logsinh
        (conj ex2_recip ex2_softmax)))))).
Qed.
Print Assumptions C02_nonvacuous.
