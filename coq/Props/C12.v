From Coq Require Import ZArith Bool List String Reals.
From Hy Require Import Base.Num Gen.Consts Gen.ConstsC12 Model.Vector Proofs.VectorProofs.
Import ListNotations.

Theorem C12_stub : forall {T} (V : VOps T) s name x,
  snd (set_attr V s name x) = Rejected -> fst (set_attr V s name x) = s.
Proof. exact @stub_rejected_unchanged. Qed.
Print Assumptions C12_stub.
