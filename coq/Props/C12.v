(* C12 - bounded parameter vectors keep their invariants under any history.
   Statements only; every proof is `exact <lemma>` from Proofs/VectorProofs.v /
   Proofs/VectorProofsB.v.  The model (Model/Vector.v) transcribes class Vector of
   data/containers.py; [VXR] is its instance over the extended reals with NaN
   ([xr]); EPS and the constructor's keyword defaults are re-extracted from the
   source (Gen/Consts.v, Gen/ConstsC12.v).

   Vocabulary (Proofs/VectorProofs.v):
     xle a b          a <= b on the extended reals, false when either is NaN
     in_bounds an x lo hi   x = NaN and accept_nan, or lo <= x <= hi
     wf s             lengths agree, names distinct, mins <= maxs (so no NaN
                      bound), defaults and values in_bounds, check_hitbounds ->
                      check_bounds, no check_hitbounds -> flag False
     Inv s            the values clause of wf, in the words of the property
     frame s s'       names, mins, maxs, defaults and the three flags of s' are those of s
     reachable s      s = a constructor call (NaN-free bounds) followed by any operations
     away x b         a finite x is exactly on a finite bound b or >= 1e-6 away from it
     run V s ops      the state after the operations ops (clone / round trip: continue with the copy) *)
From Coq Require Import ZArith Bool List String Reals.
From Hy Require Import Base.Num Gen.Consts Gen.ConstsC12 Model.Vector
     Proofs.VectorProofs Proofs.VectorProofsB.
Import ListNotations.
Open Scope R_scope.
Open Scope string_scope.

(* ================= 1. values within bounds, NaN only when allowed ================= *)

(* the constructor establishes the invariant whatever it is given (NaN-free bounds) *)
Theorem C12_constructor_establishes_invariant :
  forall names defaults mins maxs cb chb an s,
  vnew VXR names defaults mins maxs cb chb an = Some s ->
  nonan_opt mins -> nonan_opt maxs ->
  wf s /\ v_names s = names /\ v_cb s = cb /\ v_chb s = chb /\ v_an s = an /\
  v_hit s = false /\ v_values s = v_defaults s.
Proof. exact vnew_wf. Qed.
Print Assumptions C12_constructor_establishes_invariant.

(* every operation - accepted or rejected, clone and round trip included - preserves it *)
Theorem C12_every_operation_preserves_invariant : forall s op,
  wf s -> wf (fst (step VXR s op)).
Proof. exact step_wf. Qed.
Print Assumptions C12_every_operation_preserves_invariant.

(* hence after ANY history (any length, any mix of operations) *)
Theorem C12_values_within_bounds_any_history :
  forall names defaults mins maxs cb chb an s0 ops,
  vnew VXR names defaults mins maxs cb chb an = Some s0 ->
  nonan_opt mins -> nonan_opt maxs ->
  Inv (run VXR s0 ops).
Proof. intros names defaults mins maxs cb chb an s0 ops. exact (history_Inv names defaults mins maxs cb chb an s0 ops). Qed.
Print Assumptions C12_values_within_bounds_any_history.

Theorem C12_reachable_invariant : forall s, reachable s -> wf s /\ Inv s.
Proof. intros s R. exact (conj (reachable_wf s R) (reachable_Inv s R)). Qed.
Print Assumptions C12_reachable_invariant.

(* ... and so is every intermediate state of a history (what the correspondence
   check observes step by step), with the frame of the initial state *)
Theorem C12_every_intermediate_state : forall ops s, wf s ->
  Forall (fun r => wf (snd r) /\ frame s (snd r)) (trace VXR s ops).
Proof. exact trace_wf. Qed.
Print Assumptions C12_every_intermediate_state.

Theorem C12_trace_ends_in_run : forall {T} (V : VOps T) ops s,
  run V s ops = last (map snd (trace V s ops)) s.
Proof. exact @trace_last. Qed.
Print Assumptions C12_trace_ends_in_run.

(* an accepted assignment stores the value itself when it is inside the
   bounds, else the bound it passed *)
Theorem C12_stored_value_is_the_clip : forall x lo hi, xle lo hi -> x <> XNan ->
  (xle lo x /\ xle x hi /\ clip_np VXR x lo hi = x) \/
  (xltb x lo = true /\ clip_np VXR x lo hi = lo) \/
  (xltb hi x = true /\ clip_np VXR x lo hi = hi).
Proof. exact clip_np_spec. Qed.
Print Assumptions C12_stored_value_is_the_clip.

(* the attribute path (Python min/max) and the whole-vector path (np.clip) store the same value *)
Theorem C12_both_paths_clip_alike : forall x lo hi, xle lo hi ->
  clip_py VXR x lo hi = clip_np VXR x lo hi.
Proof. exact clip_py_eq_np. Qed.
Print Assumptions C12_both_paths_clip_alike.

(* non-vacuity: a constructor call with finite and infinite bounds, a NaN
   default, both flags; the state after a clipping assignment is reachable *)
Example C12_example_constructor :
  vnew VXR ["a"; "b"] (Some [XFin (1/2); XNan]) (Some [XFin 0; XNinf]) (Some [XFin 1; XPinf])
       true true true = Some ex0.
Proof. exact ex0_new. Qed.
Print Assumptions C12_example_constructor.
Example C12_example_clipping_step : step VXR ex0 (OSetAttr "a" (XFin 2)) = (ex1, Accepted).
Proof. exact ex1_step. Qed.
Print Assumptions C12_example_clipping_step.
Example C12_example_reachable : reachable ex1 /\ wf ex1.
Proof. exact (conj ex1_reachable ex1_wf). Qed.
Print Assumptions C12_example_reachable.
Example C12_example_facts : v_hit ex1 = true /\ v_chb ex1 = true /\ nx (v_values ex1) 1 = XNan /\
  index_of "a" (v_names ex0) = Some 0%nat /\ snd (set_attr VXR ex0 "a" (XFin 2)) = Accepted.
Proof. exact ex1_facts. Qed.
Print Assumptions C12_example_facts.

(* ================= 2. names, bounds, defaults, flags never change ================= *)

(* assignments of every kind: for EVERY number instance (binary64 included),
   every state, whatever clone / from_dict do *)
Theorem C12_assignments_keep_frame : forall {T} (V : VOps T) cl rt s op,
  is_assign op -> frame s (fst (step_gen V cl rt s op)).
Proof. exact @assign_frame. Qed.
Print Assumptions C12_assignments_keep_frame.

(* all operations, any history *)
Theorem C12_frame_any_history :
  forall names defaults mins maxs cb chb an s0 ops,
  vnew VXR names defaults mins maxs cb chb an = Some s0 ->
  nonan_opt mins -> nonan_opt maxs ->
  frame s0 (run VXR s0 ops) /\ v_names (run VXR s0 ops) = names /\
  v_cb (run VXR s0 ops) = cb /\ v_chb (run VXR s0 ops) = chb /\ v_an (run VXR s0 ops) = an.
Proof. intros names defaults mins maxs cb chb an s0 ops. exact (history_frame names defaults mins maxs cb chb an s0 ops). Qed.
Print Assumptions C12_frame_any_history.

(* array lengths never change under assignments (any number instance) *)
Theorem C12_assignments_keep_lengths : forall {T} (V : VOps T) cl rt s op,
  is_assign op -> lengths_ok s -> lengths_ok (fst (step_gen V cl rt s op)).
Proof. exact @assign_lengths. Qed.
Print Assumptions C12_assignments_keep_lengths.

(* ================= 3. a rejected operation leaves the state untouched ================= *)

Theorem C12_rejected_leaves_state : forall {T} (V : VOps T) cl rt s op,
  snd (step_gen V cl rt s op) = Rejected -> fst (step_gen V cl rt s op) = s.
Proof. exact @rejected_unchanged. Qed.
Print Assumptions C12_rejected_leaves_state.

(* exactly which assignments are rejected *)
Theorem C12_attribute_rejected_iff : forall {T} (V : VOps T) s name x,
  snd (set_attr V s name x) = Rejected <->
  (In name (v_names s) /\ vo_isnan V x = true /\ v_an s = false).
Proof. exact @set_attr_rejected_iff. Qed.
Print Assumptions C12_attribute_rejected_iff.

Theorem C12_key_rejected_iff : forall {T} (V : VOps T) s key x,
  snd (set_key V s key x) = Rejected <->
  (~ In key (v_names s) \/ (vo_isnan V x = true /\ v_an s = false)).
Proof. exact @set_key_rejected_iff. Qed.
Print Assumptions C12_key_rejected_iff.

Theorem C12_whole_vector_rejected_iff : forall {T} (V : VOps T) s val,
  snd (set_all V s val) = Rejected <->
  (List.length val <> v_nval s \/ (existsb (vo_isnan V) val = true /\ v_an s = false)).
Proof. exact @set_all_rejected_iff. Qed.
Print Assumptions C12_whole_vector_rejected_iff.

(* reset is never rejected and restores the defaults *)
Theorem C12_reset_restores_defaults : forall s, wf s ->
  reset VXR s = (with_values s (v_defaults s) false, Accepted).
Proof. exact reset_spec. Qed.
Print Assumptions C12_reset_restores_defaults.

Example C12_example_rejections : reachable ex2 /\
  snd (step VXR ex2 (OSetAttr "a" XNan)) = Rejected /\
  snd (step VXR ex2 (OSetKey "zz" (XFin 0))) = Rejected /\
  snd (step VXR ex2 (OSetAll [])) = Rejected.
Proof. exact (conj ex2_reachable ex2_rejects). Qed.
Print Assumptions C12_example_rejections.

(* an attribute that is not a name of the vector does not concern it; a key
   that is a name is the attribute assignment (any number instance) *)
Theorem C12_foreign_attribute_is_ignored : forall {T} (V : VOps T) s name x,
  ~ In name (v_names s) -> set_attr V s name x = (s, Accepted).
Proof. exact @set_attr_foreign. Qed.
Print Assumptions C12_foreign_attribute_is_ignored.

Theorem C12_key_on_known_name_is_attribute : forall {T} (V : VOps T) s key x,
  In key (v_names s) -> set_key V s key x = set_attr V s key x.
Proof. exact @set_key_known. Qed.
Print Assumptions C12_key_on_known_name_is_attribute.

(* ================= 4. the bound-hit flag ================= *)

(* set by attribute / by key: with check_hitbounds the flag is False exactly
   when the value was stored as given - for EVERY value (no distance condition) *)
Theorem C12_hit_flag_by_attribute : forall s name x i,
  wf s -> index_of name (v_names s) = Some i ->
  snd (set_attr VXR s name x) = Accepted ->
  let lo := nx (v_mins s) i in let hi := nx (v_maxs s) i in
  let s' := fst (set_attr VXR s name x) in
  v_values s' = upd i (clip_np VXR x lo hi) (v_values s) /\
  nx (v_values s') i = clip_np VXR x lo hi /\
  (v_chb s = true -> (v_hit s' = false <-> nx (v_values s') i = x)) /\
  (v_chb s = false -> v_hit s' = false).
Proof. exact set_attr_spec. Qed.
Print Assumptions C12_hit_flag_by_attribute.

(* whole-vector assignment (and reset): the test uses bound -/+ EPS; for values
   on a bound or at least 1e-6 away the flag is False exactly when nothing was clipped *)
Theorem C12_hit_flag_whole_vector : forall s val,
  wf s -> snd (set_all VXR s val) = Accepted ->
  let s' := fst (set_all VXR s val) in
  List.length val = v_nval s /\
  v_values s' = map3 (clip_np VXR) val (v_mins s) (v_maxs s) /\
  (v_chb s = false -> v_hit s' = false) /\
  ((forall i, (i < v_nval s)%nat ->
      away (nx val i) (nx (v_mins s) i) /\ away (nx val i) (nx (v_maxs s) i)) ->
   v_chb s = true -> (v_hit s' = false <-> v_values s' = val)).
Proof. exact set_all_spec. Qed.
Print Assumptions C12_hit_flag_whole_vector.

(* the two tests agree on the property's quantifier *)
Theorem C12_hit_tests_agree : forall x lo hi, xle lo hi -> away x lo -> away x hi ->
  hit_eps VXR x lo hi = hit_exact VXR x lo hi.
Proof. exact hit_tests_agree. Qed.
Print Assumptions C12_hit_tests_agree.

(* without check_hitbounds the flag is False after any history *)
Theorem C12_no_flag_without_check :
  forall names defaults mins maxs cb an s0 ops,
  vnew VXR names defaults mins maxs cb false an = Some s0 ->
  nonan_opt mins -> nonan_opt maxs ->
  v_hit (run VXR s0 ops) = false.
Proof.
  intros names defaults mins maxs cb an s0 ops H1 H2 H3.
  exact (history_nohit names defaults mins maxs cb false an s0 ops H1 H2 H3 eq_refl).
Qed.
Print Assumptions C12_no_flag_without_check.

Example C12_example_whole_vector : snd (set_all VXR ex0 [XFin 2; XNan]) = Accepted /\
  (forall i, (i < v_nval ex0)%nat ->
     away (nx [XFin 2; XNan] i) (nx (v_mins ex0) i) /\ away (nx [XFin 2; XNan] i) (nx (v_maxs ex0) i)).
Proof. exact ex_set_all. Qed.
Print Assumptions C12_example_whole_vector.

(* the two write paths agree: an attribute assignment is the whole-vector
   assignment of the current values with that component replaced (same stored
   values; same flag for a value in the quantifier) *)
Theorem C12_write_paths_agree : forall s name x i,
  wf s -> index_of name (v_names s) = Some i ->
  snd (set_attr VXR s name x) = Accepted ->
  snd (set_all VXR s (upd i x (v_values s))) = Accepted /\
  v_values (fst (set_attr VXR s name x)) = v_values (fst (set_all VXR s (upd i x (v_values s)))) /\
  (away x (nx (v_mins s) i) -> away x (nx (v_maxs s) i) ->
   v_hit (fst (set_attr VXR s name x)) = v_hit (fst (set_all VXR s (upd i x (v_values s))))).
Proof. exact set_attr_is_set_all. Qed.
Print Assumptions C12_write_paths_agree.

Example C12_example_away : away (XFin 2) (nx (v_mins ex0) 0) /\ away (XFin 2) (nx (v_maxs ex0) 0).
Proof. exact ex_away. Qed.
Print Assumptions C12_example_away.

(* assigning the current values back is accepted and only lowers the flag *)
Theorem C12_reassigning_current_values : forall s, wf s ->
  set_all VXR s (v_values s) = (with_hit s false, Accepted).
Proof. exact set_all_current. Qed.
Print Assumptions C12_reassigning_current_values.

(* ================= 5. clone and dictionary round trip ================= *)

(* repaired code: both reproduce the full state - values, bounds, defaults,
   names, the three flags AND the hit flag - and are never rejected *)
Theorem C12_clone_reproduces_state : forall s, wf s -> clone VXR s = Some s.
Proof. exact clone_id. Qed.
Print Assumptions C12_clone_reproduces_state.

Theorem C12_dict_roundtrip_reproduces_state : forall s, wf s ->
  from_dict VXR (to_dict s) = Some s.
Proof. exact dict_id. Qed.
Print Assumptions C12_dict_roundtrip_reproduces_state.

Theorem C12_reachable_clone_and_roundtrip : forall s, reachable s ->
  clone VXR s = Some s /\ from_dict VXR (to_dict s) = Some s.
Proof. exact reachable_clone_dict. Qed.
Print Assumptions C12_reachable_clone_and_roundtrip.

(* the round trip is a clone, for every number instance (binary64 included) *)
Theorem C12_dict_roundtrip_is_clone : forall {T} (V : VOps T) s, lengths_ok s ->
  from_dict V (to_dict s) = clone V s.
Proof. exact @from_dict_to_dict_clone. Qed.
Print Assumptions C12_dict_roundtrip_is_clone.

(* pinned code (before a7f3c3c, 6795b74, 2dbf2e6): the statement is false *)
Theorem C12_clone_reproduces_state_refuted :
  exists s, reachable s /\ clone_old VXR s <> Some s.
Proof. exact clone_old_refuted. Qed.
Print Assumptions C12_clone_reproduces_state_refuted.

Theorem C12_clone_never_rejected_refuted :
  exists s, reachable s /\ clone_old VXR s = None.
Proof. exact clone_old_raises_refuted. Qed.
Print Assumptions C12_clone_never_rejected_refuted.

Theorem C12_clone_of_default_vector_refuted :
  exists s, vnew_default VXR [] = Some s /\ exists c, clone_old VXR s = Some c /\ v_cb c <> v_cb s.
Proof. exact clone_old_empty_refuted. Qed.
Print Assumptions C12_clone_of_default_vector_refuted.

Theorem C12_dict_roundtrip_reproduces_state_refuted :
  exists s, reachable s /\ from_dict_old VXR (to_dict s) <> Some s.
Proof. exact from_dict_old_refuted. Qed.
Print Assumptions C12_dict_roundtrip_reproduces_state_refuted.

(* what the pinned code did instead, on every well-formed vector *)
Theorem C12_pinned_clone_behaviour : forall s, wf s ->
  (forall i, (i < v_nval s)%nat -> nx (v_defaults s) i <> XNan /\ nx (v_values s) i <> XNan) ->
  clone_old VXR s =
  Some (mkV (v_names s) (v_mins s) (v_maxs s) (v_defaults s) (v_values s) false (v_chb s)
            VEC_DEFAULT_CHECK_HITBOUNDS VEC_DEFAULT_ACCEPT_NAN).
Proof. exact clone_old_spec. Qed.
Print Assumptions C12_pinned_clone_behaviour.

Theorem C12_pinned_from_dict_behaviour : forall s, wf s ->
  from_dict_old VXR (to_dict s) = Some (with_hit s false).
Proof. exact from_dict_old_loses_hit. Qed.
Print Assumptions C12_pinned_from_dict_behaviour.

Example C12_example_nan_free_state : reachable ex2 /\
  (forall i, (i < v_nval ex2)%nat -> nx (v_defaults ex2) i <> XNan /\ nx (v_values ex2) i <> XNan).
Proof. exact (conj ex2_reachable ex2_nan_free). Qed.
Print Assumptions C12_example_nan_free_state.

(* ... and it raised as soon as a default or a value was NaN *)
Theorem C12_pinned_clone_raises_on_nan : forall s, wf s ->
  (exists i, (i < v_nval s)%nat /\ (nx (v_defaults s) i = XNan \/ nx (v_values s) i = XNan)) ->
  clone_old VXR s = None.
Proof. exact clone_old_nan. Qed.
Print Assumptions C12_pinned_clone_raises_on_nan.

Example C12_example_nan_state : reachable ex3 /\
  exists i, (i < v_nval ex3)%nat /\ (nx (v_defaults ex3) i = XNan \/ nx (v_values ex3) i = XNan).
Proof. exact (conj ex3_reachable ex3_has_nan). Qed.
Print Assumptions C12_example_nan_state.

(* ================= 6. constructor arguments and the transform tables ================= *)

(* consistent arguments are accepted and stored as given *)
Theorem C12_constructor_accepts_consistent_arguments :
  forall names defaults mins maxs cb chb an,
  let n := List.length names in
  let em := eff_mins n mins in let eM := eff_maxs n maxs in
  let ed := eff_defs n defaults em eM in
  List.length em = n -> List.length eM = n -> List.length ed = n ->
  NoDup names ->
  (forall i, (i < n)%nat -> xle (nx em i) (nx eM i)) ->
  (forall i, (i < n)%nat -> in_bounds an (nx ed i) (nx em i) (nx eM i)) ->
  (chb = true -> cb = true) ->
  vnew VXR names defaults mins maxs cb chb an = Some (mkV names em eM ed ed false cb chb an).
Proof. exact vnew_ok. Qed.
Print Assumptions C12_constructor_accepts_consistent_arguments.

Theorem C12_default_constructor : forall names, NoDup names ->
  let n := List.length names in
  vnew_default VXR names =
  Some (mkV names (repeat XNinf n) (repeat XPinf n) (repeat (XFin 0) n) (repeat (XFin 0) n) false
            VEC_DEFAULT_CHECK_BOUNDS VEC_DEFAULT_CHECK_HITBOUNDS VEC_DEFAULT_ACCEPT_NAN).
Proof. exact vnew_default_ok. Qed.
Print Assumptions C12_default_constructor.

(* every Vector(...) call of the transform constructors (as extracted from
   transform.py now) is accepted with its numbers unchanged and gives a
   well-formed parameter / constant vector *)
Theorem C12_transform_tables : Forall table_ok TRANSFORM_TABLES_R.
Proof. exact transform_tables_ok. Qed.
Print Assumptions C12_transform_tables.
