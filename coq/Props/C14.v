(* C14 - variable-to-fixed time step conversion (dutils.var2h / c_var2h) is the
   exact period average of the data.
   Statements only; every proof is `exact <lemma of Proofs/Var2h*Proofs.v>`.

   The kernel model is instantiated with the reals extended by a missing
   value ([RN]: [None] = NaN), so missing and negative observations are part
   of every statement.  Time stamps are integers (seconds).

   Vocabulary (Proofs/Var2hProofs.v):
     var2h_pre P rainfall hstart sec : stamps non-decreasing, rainfall flag 0/1,
        P an admissible period, first stamp <= origin < some stamp;
     pstart/pend P hstart i          : period i is [hstart+i*P, hstart+i*P+P);
     piece rain P s e t1 t2 v1 v2    : what the kernel adds for the interval
        (t1,v1)-(t2,v2) clipped to [s,e] (trapezoid / prorated increment * P);
     area P rainfall sec vals s e    : the sum of the pieces of ALL intervals;
     ivl_invalid_spec maxgap sec vals j : interval j has a missing end value,
        an end value below the (extracted) threshold -1e-8, or is longer than
        maxgapsec;
     bracket P hstart sec i k        : t_k <= start of period i, and
        start <= t_{k+1} unless k+1 is the last stamp. *)
From Coq Require Import ZArith Bool List Reals.
From Coquelicot Require Import Coquelicot.
From Hy Require Import Base.Num Gen.ConstsC14 Model.Var2h
  Proofs.Var2hProofs Proofs.Var2hWrapperProofs Proofs.Var2hIntegralProofs.
Import ListNotations.
Open Scope R_scope.

(* ---- one interval -------------------------------------------------- *)

(* the trapezoid term is the integral of the affine interpolant *)
Theorem C14_trapezoid_is_integral : forall t1 t2 v1 v2 a b,
  is_RInt (interp t1 t2 v1 v2) a b
          ((interp t1 t2 v1 v2 b + interp t1 t2 v1 v2 a) * (b - a) / 2).
Proof. exact trapezoid_is_integral. Qed.
Print Assumptions C14_trapezoid_is_integral.

(* level data: the piece of an interval in a period is the integral of the
   interpolant over the part of the period inside the interval *)
Theorem C14_piece_level_is_integral : forall P s e t1 t2 v1 v2,
  (t1 <= t2)%Z -> (s <= e)%Z ->
  is_RInt (interp (IZR t1) (IZR t2) v1 v2)
          (IZR (clampZ t1 t2 s)) (IZR (clampZ t1 t2 e))
          (piece false P s e t1 t2 v1 v2).
Proof. exact piece_level_is_RInt. Qed.
Print Assumptions C14_piece_level_is_integral.

(* rainfall: the increment v2 spread uniformly over its interval *)
Theorem C14_piece_rain_is_integral : forall P s e t1 t2 v1 v2,
  (t1 <= t2)%Z -> (s <= e)%Z ->
  is_RInt (fun _ => v2 / (IZR t2 - IZR t1) * IZR P)
          (IZR (clampZ t1 t2 s)) (IZR (clampZ t1 t2 e))
          (piece true P s e t1 t2 v1 v2).
Proof. exact piece_rain_is_RInt. Qed.
Print Assumptions C14_piece_rain_is_integral.

Theorem C14_piece_rain_share : forall P s e t1 t2 v1 v2,
  piece true P s e t1 t2 v1 v2 = v2 * rain_share s e t1 t2 * IZR P.
Proof. exact piece_rain. Qed.
Print Assumptions C14_piece_rain_share.

Theorem C14_rain_share_range : forall s e t1 t2,
  (t1 < t2)%Z -> 0 <= rain_share s e t1 t2 <= 1.
Proof. exact rain_share_range. Qed.
Print Assumptions C14_rain_share_range.

(* cutting a period at m splits every piece exactly *)
Theorem C14_piece_additive : forall rain P s m e t1 t2 v1 v2,
  (t1 <= t2)%Z -> (s <= m <= e)%Z ->
  piece rain P s m t1 t2 v1 v2 + piece rain P m e t1 t2 v1 v2 =
  piece rain P s e t1 t2 v1 v2.
Proof. exact piece_additive. Qed.
Print Assumptions C14_piece_additive.

(* ---- the kernel ------------------------------------------------------ *)

(* on a non-decreasing series the kernel succeeds, returns as many values as
   it was given and never writes the last one *)
Theorem C14_kernel_ok : forall endcheck P rainfall maxgap hstart sec vals hinit,
  var2h_pre P rainfall hstart sec ->
  exists out,
    c_var2h_RN endcheck P rainfall maxgap hstart sec vals hinit = VOk out /\
    length out = length hinit /\
    forall d, nth (length hinit - 1) out d = nth (length hinit - 1) hinit d.
Proof. exact kernel_ok. Qed.
Print Assumptions C14_kernel_ok.

(* period_value: every computed value is missing or the area of its period
   (sum over ALL intervals of the series) divided by the period length *)
Theorem C14_period_value : forall endcheck P rainfall maxgap hstart sec vals hinit,
  var2h_pre P rainfall hstart sec ->
  forall out i,
  c_var2h_RN endcheck P rainfall maxgap hstart sec vals hinit = VOk out ->
  (i < length hinit - 1)%nat ->
  nth i out None = None \/
  nth i out None =
    Some (area P rainfall sec vals (pstart P hstart (Z.of_nat i)) (pend P hstart (Z.of_nat i))
          / IZR P).
Proof. exact period_value. Qed.
Print Assumptions C14_period_value.

(* rainfall: area/P is the total of the shares of the increments *)
Theorem C14_rainfall_total : forall P rainfall sec vals,
  (0 < P)%Z -> forall s e, rainfall = 1%Z ->
  area P rainfall sec vals s e / IZR P =
  fold_right Rplus 0
    (map (fun j => rv vals (S j) * rain_share s e (tsec sec j) (tsec sec (S j)))
         (seq 0 (length sec - 1 - 0))).
Proof. exact area_rain. Qed.
Print Assumptions C14_rainfall_total.

(* area_additive *)
Theorem C14_area_additive : forall P rainfall sec vals,
  sorted_secs sec -> forall s m e, (s <= m <= e)%Z ->
  area P rainfall sec vals s m + area P rainfall sec vals m e = area P rainfall sec vals s e.
Proof. exact area_additive. Qed.
Print Assumptions C14_area_additive.

(* conservation: over any run of non-missing periods, the values times P add
   up to the area between the start of the first and the end of the last *)
Theorem C14_conservation : forall endcheck P rainfall maxgap hstart sec vals hinit,
  var2h_pre P rainfall hstart sec ->
  forall out a m,
  c_var2h_RN endcheck P rainfall maxgap hstart sec vals hinit = VOk out ->
  (a + m <= length hinit - 1)%nat ->
  (forall i, (a <= i < a + m)%nat -> nth i out None <> None) ->
  osum out a m * IZR P =
  area P rainfall sec vals (pstart P hstart (Z.of_nat a))
                           (pstart P hstart (Z.of_nat a + Z.of_nat m)).
Proof. exact conservation. Qed.
Print Assumptions C14_conservation.

(* missing_iff: relative to an index k bracketing the start of the period, a
   period is missing exactly when an interval j >= k that starts before the
   end of the period is invalid, or (repaired kernel) the data end before the
   period does *)
Theorem C14_missing_iff : forall endcheck P rainfall maxgap hstart sec vals hinit,
  var2h_pre P rainfall hstart sec ->
  forall out i,
  c_var2h_RN endcheck P rainfall maxgap hstart sec vals hinit = VOk out ->
  (i < length hinit - 1)%nat ->
  exists k, bracket P hstart sec (Z.of_nat i) k /\
    (nth i out None = None <->
     (endcheck = true /\ (tsec sec (length sec - 1) < pend P hstart (Z.of_nat i))%Z) \/
     exists j, (k <= j)%nat /\ (S j < length sec)%nat /\
               (tsec sec j < pend P hstart (Z.of_nat i))%Z /\
               ivl_invalid maxgap sec vals j = true).
Proof. exact missing_iff. Qed.
Print Assumptions C14_missing_iff.

Theorem C14_invalid_meaning : forall maxgap sec vals k,
  ivl_invalid maxgap sec vals k = true <-> ivl_invalid_spec maxgap sec vals k.
Proof. exact ivl_invalid_iff. Qed.
Print Assumptions C14_invalid_meaning.

(* ... in terms of the data only: an invalid interval with a positive length
   in common with the period makes it missing *)
Theorem C14_missing_if_overlap_invalid :
  forall endcheck P rainfall maxgap hstart sec vals hinit,
  var2h_pre P rainfall hstart sec ->
  forall out i j,
  c_var2h_RN endcheck P rainfall maxgap hstart sec vals hinit = VOk out ->
  (i < length hinit - 1)%nat ->
  (S j < length sec)%nat ->
  (tsec sec j < pend P hstart (Z.of_nat i))%Z ->
  (pstart P hstart (Z.of_nat i) < tsec sec (S j))%Z ->
  ivl_invalid_spec maxgap sec vals j -> nth i out None = None.
Proof. exact missing_if_overlap_invalid. Qed.
Print Assumptions C14_missing_if_overlap_invalid.

(* ... and a period inside the data whose intervals (including those that
   merely touch it) are all valid is not missing *)
Theorem C14_present_if_valid : forall endcheck P rainfall maxgap hstart sec vals hinit,
  var2h_pre P rainfall hstart sec ->
  forall out i,
  c_var2h_RN endcheck P rainfall maxgap hstart sec vals hinit = VOk out ->
  (i < length hinit - 1)%nat ->
  (pend P hstart (Z.of_nat i) <= tsec sec (length sec - 1))%Z ->
  (forall j, (S j < length sec)%nat ->
             (tsec sec j < pend P hstart (Z.of_nat i))%Z ->
             (pstart P hstart (Z.of_nat i) <= tsec sec (S j))%Z ->
             ~ ivl_invalid_spec maxgap sec vals j) ->
  nth i out None =
    Some (area P rainfall sec vals (pstart P hstart (Z.of_nat i)) (pend P hstart (Z.of_nat i))
          / IZR P).
Proof. exact present_if_valid. Qed.
Print Assumptions C14_present_if_valid.

(* repaired kernel: a period that extends past the last stamp is missing *)
Theorem C14_uncovered_missing : forall endcheck P rainfall maxgap hstart sec vals hinit,
  var2h_pre P rainfall hstart sec ->
  forall out i, endcheck = true ->
  c_var2h_RN endcheck P rainfall maxgap hstart sec vals hinit = VOk out ->
  (i < length hinit - 1)%nat ->
  (tsec sec (length sec - 1) < pend P hstart (Z.of_nat i))%Z ->
  nth i out None = None.
Proof. exact uncovered_missing. Qed.
Print Assumptions C14_uncovered_missing.

(* the kernel of the pinned commit is refuted: a constant series of level 3
   whose last stamp is 10 minutes into a half-hour period gets the value 1 *)
Theorem C14_old_kernel_partial_period_refuted :
  exists out,
    c_var2h_RN false 1800 0 432000 3600 w_sec w_vals w_hinit = VOk out /\
    (tsec w_sec 3 < pend 1800 3600 2)%Z /\
    nth 2 out None = Some 1.
Proof. exact old_kernel_partial_period_refuted. Qed.
Print Assumptions C14_old_kernel_partial_period_refuted.

(* non-vacuity: the same series satisfies the hypotheses, and the repaired
   kernel returns 3, 3, missing; conservation over the first two periods *)
Example C14_pre_nonvacuous : var2h_pre 1800 0 3600 w_sec.
Proof. exact w_pre. Qed.
Print Assumptions C14_pre_nonvacuous.

Example C14_kernel_example :
  exists out,
    c_var2h_RN true 1800 0 432000 3600 w_sec w_vals w_hinit = VOk out /\
    nth 0 out None = Some 3 /\ nth 1 out None = Some 3 /\ nth 2 out None = None /\
    osum out 0 2 * 1800 = area 1800 0 w_sec w_vals 3600 7200.
Proof. exact fixed_kernel_example. Qed.
Print Assumptions C14_kernel_example.

(* rejections (any arithmetic instance) *)
Theorem C14_reject_rainfall_flag : forall {T} (N : NumOps T) ie oe ec
    P rainfall maxgap hstart sec vals hinit,
  (rainfall < 0 \/ 1 < rainfall)%Z ->
  c_var2h N ie oe ec P rainfall maxgap hstart sec vals hinit = VErr.
Proof. exact @reject_rainfall. Qed.
Print Assumptions C14_reject_rainfall_flag.

Theorem C14_reject_period : forall {T} (N : NumOps T) ie oe ec
    P rainfall maxgap hstart sec vals hinit,
  ~ In P VAR2H_C_PERIODS ->
  c_var2h N ie oe ec P rainfall maxgap hstart sec vals hinit = VErr.
Proof. exact @reject_period. Qed.
Print Assumptions C14_reject_period.

Theorem C14_reject_origin_before_data : forall {T} (N : NumOps T) ie oe ec
    P rainfall maxgap hstart t sec vals hinit,
  (hstart < t)%Z ->
  c_var2h N ie oe ec P rainfall maxgap hstart (t :: sec) vals hinit = VErr.
Proof. exact @reject_origin. Qed.
Print Assumptions C14_reject_origin_before_data.

(* the error branch of the walk: an interval going backwards, met before the
   period is finished, ends the kernel with an error *)
Theorem C14_backwards_interval_is_error : forall {T} (N : NumOps T) ie oe ec
    rainfall maxgap sec vals fuel Pd s e k t1 v1 hv miss,
  nltb N t1 e = true -> nltb N (nofZ N (tsec sec (S k))) t1 = true ->
  walk N ie oe ec rainfall maxgap sec vals (S fuel) Pd s e k t1 v1 hv miss = WErr.
Proof. exact @walk_backwards_err. Qed.
Print Assumptions C14_backwards_interval_is_error.

(* ---- the whole series: one function of time ---------------------------- *)

(* [ginterp P rainfall sec vals] is, on [t_j, t_{j+1}), the integrand of
   interval j: the affine interpolant (level data) or P times the constant
   rate of the increment (rainfall); it passes through the observations *)
Theorem C14_ginterp_on_interval : forall P rainfall sec vals,
  sorted_secs sec -> forall j t, (S j < length sec)%nat ->
  IZR (tsec sec j) <= t < IZR (tsec sec (S j)) ->
  ginterp P rainfall sec vals t =
  segf (rainfall =? 1)%Z P (tsec sec j) (tsec sec (S j)) (rv vals j) (rv vals (S j)) t.
Proof. exact ginterp_on_interval. Qed.
Print Assumptions C14_ginterp_on_interval.

Theorem C14_ginterp_at_stamp : forall P rainfall sec vals,
  sorted_secs sec -> forall j, (rainfall =? 1)%Z = false ->
  (S j < length sec)%nat -> (tsec sec j < tsec sec (S j))%Z ->
  ginterp P rainfall sec vals (IZR (tsec sec j)) = rv vals j.
Proof. exact ginterp_at_stamp. Qed.
Print Assumptions C14_ginterp_at_stamp.

(* (extended goal of DESIGN 5/C14) the area is the integral of that function
   (Chasles over the knots; duplicate stamps allowed) *)
Theorem C14_area_is_global_integral : forall P rainfall sec vals,
  sorted_secs sec -> forall s e,
  (0 < length sec)%nat -> (tsec sec 0 <= s)%Z -> (s <= e)%Z ->
  (e <= tsec sec (length sec - 1))%Z ->
  is_RInt (ginterp P rainfall sec vals) (IZR s) (IZR e) (area P rainfall sec vals s e).
Proof. exact area_is_global_integral. Qed.
Print Assumptions C14_area_is_global_integral.

(* the first sentence of the property, repaired kernel: a value that is not
   missing, times P, is the integral over its period of the piecewise
   interpolant of the observations (rainfall: the period total of the
   uniformly spread increments, times P) *)
Theorem C14_period_value_is_integral : forall P rainfall maxgap hstart sec vals hinit,
  var2h_pre P rainfall hstart sec ->
  forall out i x,
  c_var2h_RN true P rainfall maxgap hstart sec vals hinit = VOk out ->
  (i < length hinit - 1)%nat ->
  nth i out None = Some x ->
  is_RInt (ginterp P rainfall sec vals)
          (IZR (pstart P hstart (Z.of_nat i))) (IZR (pend P hstart (Z.of_nat i)))
          (x * IZR P).
Proof. exact period_value_is_integral. Qed.
Print Assumptions C14_period_value_is_integral.

(* any instance (binary64 included): the model leaves its defined domain only
   when no stamp is later than the origin - the memory-safety contract of
   the kernel (C05); the walk never runs out of fuel *)
Theorem C14_undefined_only_outside_contract : forall {T} (N : NumOps T) ie oe ec
    P rainfall maxgap hstart sec vals hinit,
  c_var2h N ie oe ec P rainfall maxgap hstart sec vals hinit = VUndef ->
  forall k, (k < length sec)%nat -> (tsec sec k <= hstart)%Z.
Proof. exact @undef_only_without_stamp_after_origin. Qed.
Print Assumptions C14_undefined_only_outside_contract.

(* ---- the wrapper ----------------------------------------------------- *)

(* the conversion of the index gives the wall-clock seconds for every
   storage unit (s/ms/us/ns) and every zone offset *)
Theorem C14_index_seconds : forall u off wall,
  index_seconds u off (encode_index u off wall) = wall.
Proof. exact index_seconds_encode. Qed.
Print Assumptions C14_index_seconds.

(* hence the result does not depend on the unit nor on the zone *)
Theorem C14_unit_zone_independent : forall {T} (N : NumOps T) ie oe ec
    u off u' off' wall vals P mg rain,
  py_var2h N ie oe ec index_seconds u off (encode_index u off wall) vals P mg rain =
  py_var2h N ie oe ec index_seconds u' off' (encode_index u' off' wall) vals P mg rain.
Proof. exact @py_unit_zone_independent. Qed.
Print Assumptions C14_unit_zone_independent.

(* the conversion of the pinned commit is refuted (microseconds) *)
Theorem C14_index_seconds_old_refuted :
  exists u wall, index_seconds_old u 0 (encode_index u 0 wall) <> wall.
Proof. exact index_seconds_old_refuted. Qed.
Print Assumptions C14_index_seconds_old_refuted.

Theorem C14_origin_is_next_whole_hour : forall t0,
  (t0 < hour_origin t0 <= t0 + 3600)%Z /\ (hour_origin t0 mod 3600 = 0)%Z.
Proof. exact hour_origin_spec. Qed.
Print Assumptions C14_origin_is_next_whole_hour.

(* the wrapper: origin, number of values, values = kernel on the wall clock,
   last value missing; with C14_kernel_ok..C14_uncovered_missing this gives
   the property for every unit and zone *)
Theorem C14_wrapper : forall ec u off t0 rest vals P maxgap rain,
  sorted_secs (t0 :: rest) ->
  In P VAR2H_PY_PERIODS ->
  (VAR2H_PY_MAXGAP_MIN <= maxgap)%Z ->
  (hour_origin t0 < last (t0 :: rest) t0)%Z ->
  exists out,
    py_var2h_RN ec index_seconds u off (encode_index u off (t0 :: rest)) vals P maxgap rain
      = PyOk (hour_origin t0) out /\
    Z.of_nat (length out) = ((last (t0 :: rest) t0 - t0) / P)%Z /\
    c_var2h_RN ec P (if rain then 1 else 0)%Z maxgap (hour_origin t0) (t0 :: rest) vals
               (repeat None (length out)) = VOk out /\
    (forall d, nth (length out - 1) out d = None \/ out = []).
Proof. exact py_var2h_ok. Qed.
Print Assumptions C14_wrapper.

Theorem C14_wrapper_pre : forall t0 rest P (rain : bool),
  sorted_secs (t0 :: rest) ->
  In P VAR2H_PY_PERIODS ->
  (hour_origin t0 < last (t0 :: rest) t0)%Z ->
  var2h_pre P (if rain then 1 else 0)%Z (hour_origin t0) (t0 :: rest).
Proof. exact wrapper_pre. Qed.
Print Assumptions C14_wrapper_pre.

(* hourly output: every computed period lies inside the data *)
Theorem C14_hourly_periods_covered : forall t0 rest P,
  In P VAR2H_PY_PERIODS ->
  (hour_origin t0 < last (t0 :: rest) t0)%Z ->
  forall (out : list (option R)) i,
  P = 3600%Z ->
  Z.of_nat (length out) = ((last (t0 :: rest) t0 - t0) / P)%Z ->
  (i < length out - 1)%nat ->
  (pend P (hour_origin t0) (Z.of_nat i) <= last (t0 :: rest) t0)%Z.
Proof. exact hourly_periods_covered. Qed.
Print Assumptions C14_hourly_periods_covered.

Example C14_wrapper_nonvacuous :
  sorted_secs w_sec /\ In 1800%Z VAR2H_PY_PERIODS /\ (VAR2H_PY_MAXGAP_MIN <= 432000)%Z /\
  (hour_origin 0 < last w_sec 0)%Z /\ hour_origin 0 = 3600%Z.
Proof. exact wrapper_example. Qed.
Print Assumptions C14_wrapper_nonvacuous.

Theorem C14_wrapper_reject_period : forall {T} (N : NumOps T) ie oe ec conv
    u off raw vals P mg rain,
  ~ In P VAR2H_PY_PERIODS -> py_var2h N ie oe ec conv u off raw vals P mg rain = PyErr.
Proof. exact @py_reject_period. Qed.
Print Assumptions C14_wrapper_reject_period.

Theorem C14_wrapper_reject_maxgap : forall {T} (N : NumOps T) ie oe ec conv
    u off raw vals P mg rain,
  (mg < VAR2H_PY_MAXGAP_MIN)%Z -> py_var2h N ie oe ec conv u off raw vals P mg rain = PyErr.
Proof. exact @py_reject_maxgap. Qed.
Print Assumptions C14_wrapper_reject_maxgap.

(* ================================================================== *)
(* The same property on the REGENERATED program: [program] is the MiniC  *)
(* translation of the C kernel produced from the tree under test on      *)
(* every run (Gen/KernelsAst.v); [exec_fun] its interpreter (MiniC.v).   *)
(* ================================================================== *)
From Coq Require Import String Lia.
From Hy Require Import Base.MiniC Gen.KernelsAst Proofs.RefineVar2h.
Open Scope string_scope.
Open Scope list_scope.
Open Scope Z_scope.

(* c_var2h = the model over the reals with NaN (the instance of the theorems above): any
   period, rainfall flag, display flag, maxgap, start, any stamps (unsorted included), any
   values, any number of output periods (0 included).  Where the model answers VUndef
   (no stamp after hstartsec) the repaired kernel is defined: a positive code on an empty
   series, NaN in every period but the last otherwise. *)
Theorem C14_kernel_var2h_refines_model :
  forall P rain disp maxgap hstart sec (vals hinit : list (option R)) n,
  List.length vals = List.length sec ->
  (Nat.max (List.length sec) (List.length hinit) < n)%nat ->
  match c_var2h_RN true P rain maxgap hstart sec vals hinit with
  | VUndef =>
      (sec = [] -> exists code, 0 < code /\
         exec_fun RN XRN program (S n) "c_var2h" (var2h_args P rain disp maxgap hstart sec vals hinit)
         = Ok (RI code, [VArrI sec; VArrF vals; VArrF hinit])) /\
      (sec <> [] ->
         exec_fun RN XRN program (S n) "c_var2h" (var2h_args P rain disp maxgap hstart sec vals hinit)
         = Ok (RI 0, [VArrI sec; VArrF vals; VArrF (nan_fill RN hinit)]))
  | VErr =>
      exists code h', 0 < code /\ List.length h' = List.length hinit /\
        exec_fun RN XRN program (S n) "c_var2h" (var2h_args P rain disp maxgap hstart sec vals hinit)
        = Ok (RI code, [VArrI sec; VArrF vals; VArrF h'])
  | VOk h =>
      exec_fun RN XRN program (S n) "c_var2h" (var2h_args P rain disp maxgap hstart sec vals hinit)
      = Ok (RI 0, [VArrI sec; VArrF vals; VArrF h])
  end.
Proof. exact refine_c_var2h_RN. Qed.
Print Assumptions C14_kernel_var2h_refines_model.

(* the argument list of the kernel as the Cython wrapper builds it *)
Example C14_kernel_var2h_args : forall P rain disp maxgap hstart sec (vals hinit : list (option R)),
  var2h_args P rain disp maxgap hstart sec vals hinit =
  [AVI (MiniC.zlen sec); AVI (MiniC.zlen hinit); AVI P; AVI rain; AVI disp; AVI maxgap;
   AVArrI sec; AVArrF vals; AVI hstart; AVArrF hinit].
Proof. reflexivity. Qed.

(* ================================================================== *)
(* C14 ITSELF on the regenerated program: the property theorems above *)
(* transported to exec_fun RN XRN program "c_var2h" (Proofs/KernelVar2h.v). *)
(* ================================================================== *)
From Coq Require Import String Lia PrimFloat.
From Hy Require Import Base.Num Base.MiniC Gen.KernelsAst Gen.Consts Gen.ConstsC14 Model.Var2h.
From Hy Require Proofs.KernelVar2h.
Import ListNotations.
Open Scope string_scope.
Open Scope list_scope.
Open Scope Z_scope.

(* run_var2h = the execution of the translated c_var2h *)
Theorem C14_kernel_run_var2h :
  forall (n : nat) (P rain disp maxgap hstart : Z) (sec : list Z)
         (vals hinit : list (option R)),
       KernelVar2h.run_var2h n P rain disp maxgap hstart sec vals hinit =
       exec_fun RN XRN program (S n) "c_var2h"
         [AVI (zlen sec); AVI (zlen hinit); AVI P; AVI rain; AVI disp; 
          AVI maxgap; AVArrI sec; AVArrF vals; AVI hstart; AVArrF hinit].
Proof. exact @KernelVar2h.run_var2h_is_exec. Qed.
Print Assumptions C14_kernel_run_var2h.

(* under var2h_pre the translated kernel returns 0, keeps the last entry of the buffer, and every other value it writes is missing or area/P of its period; a value x that is not missing satisfies x * P = integral over the period of the piecewise interpolant of the observations *)
Theorem C14_kernel_var2h_period_average :
  forall (P rain disp maxgap hstart : Z) (sec : list Z) (vals hinit : list (option R))
         (n : nat),
       Var2hProofs.var2h_pre P rain hstart sec ->
       Datatypes.length vals = Datatypes.length sec ->
       (Nat.max (Datatypes.length sec) (Datatypes.length hinit) < n)%nat ->
       exists out : list (option R),
         KernelVar2h.run_var2h n P rain disp maxgap hstart sec vals hinit =
         Ok (RI 0, [VArrI sec; VArrF vals; VArrF out]) /\
         Datatypes.length out = Datatypes.length hinit /\
         (forall d : option R,
          nth (Datatypes.length hinit - 1) out d = nth (Datatypes.length hinit - 1) hinit d) /\
         (forall i : nat,
          (i < Datatypes.length hinit - 1)%nat ->
          nth i out None = None \/
          nth i out None =
          Some
            (Var2hProofs.area P rain sec vals (Var2hProofs.pstart P hstart (Z.of_nat i))
               (Var2hProofs.pend P hstart (Z.of_nat i)) / IZR P)%R) /\
         (forall (i : nat) (x : R),
          (i < Datatypes.length hinit - 1)%nat ->
          nth i out None = Some x ->
          RInt.is_RInt (Var2hIntegralProofs.ginterp P rain sec vals)
            (IZR (Var2hProofs.pstart P hstart (Z.of_nat i)))
            (IZR (Var2hProofs.pend P hstart (Z.of_nat i))) (x * IZR P)%R).
Proof. exact @KernelVar2h.kernel_var2h_period_average. Qed.
Print Assumptions C14_kernel_var2h_period_average.

(* over any run of periods filled with numbers the values times P add up to the area between the start of the first and the end of the last *)
Theorem C14_kernel_var2h_conservation :
  forall (P rain disp maxgap hstart : Z) (sec : list Z) (vals hinit : list (option R))
         (n : nat),
       Var2hProofs.var2h_pre P rain hstart sec ->
       Datatypes.length vals = Datatypes.length sec ->
       (Nat.max (Datatypes.length sec) (Datatypes.length hinit) < n)%nat ->
       exists out : list (option R),
         KernelVar2h.run_var2h n P rain disp maxgap hstart sec vals hinit =
         Ok (RI 0, [VArrI sec; VArrF vals; VArrF out]) /\
         (forall a m : nat,
          (a + m <= Datatypes.length hinit - 1)%nat ->
          (forall i : nat, (a <= i < a + m)%nat -> nth i out None <> None) ->
          (Var2hProofs.osum out a m * IZR P)%R =
          Var2hProofs.area P rain sec vals (Var2hProofs.pstart P hstart (Z.of_nat a))
            (Var2hProofs.pstart P hstart (Z.of_nat a + Z.of_nat m))).
Proof. exact @KernelVar2h.kernel_var2h_conservation. Qed.
Print Assumptions C14_kernel_var2h_conservation.

(* a period extending past the last stamp is missing; an invalid interval overlapping the period makes it missing; a period inside the data whose intervals are all valid holds its average *)
Theorem C14_kernel_var2h_missing :
  forall (P rain disp maxgap hstart : Z) (sec : list Z) (vals hinit : list (option R))
         (n : nat),
       Var2hProofs.var2h_pre P rain hstart sec ->
       Datatypes.length vals = Datatypes.length sec ->
       (Nat.max (Datatypes.length sec) (Datatypes.length hinit) < n)%nat ->
       exists out : list (option R),
         KernelVar2h.run_var2h n P rain disp maxgap hstart sec vals hinit =
         Ok (RI 0, [VArrI sec; VArrF vals; VArrF out]) /\
         (forall i : nat,
          (i < Datatypes.length hinit - 1)%nat ->
          tsec sec (Datatypes.length sec - 1) < Var2hProofs.pend P hstart (Z.of_nat i) ->
          nth i out None = None) /\
         (forall i j : nat,
          (i < Datatypes.length hinit - 1)%nat ->
          (S j < Datatypes.length sec)%nat ->
          tsec sec j < Var2hProofs.pend P hstart (Z.of_nat i) ->
          Var2hProofs.pstart P hstart (Z.of_nat i) < tsec sec (S j) ->
          Var2hProofs.ivl_invalid_spec maxgap sec vals j -> nth i out None = None) /\
         (forall i : nat,
          (i < Datatypes.length hinit - 1)%nat ->
          Var2hProofs.pend P hstart (Z.of_nat i) <= tsec sec (Datatypes.length sec - 1) ->
          (forall j : nat,
           (S j < Datatypes.length sec)%nat ->
           tsec sec j < Var2hProofs.pend P hstart (Z.of_nat i) ->
           Var2hProofs.pstart P hstart (Z.of_nat i) <= tsec sec (S j) ->
           ~ Var2hProofs.ivl_invalid_spec maxgap sec vals j) ->
          nth i out None =
          Some
            (Var2hProofs.area P rain sec vals (Var2hProofs.pstart P hstart (Z.of_nat i))
               (Var2hProofs.pend P hstart (Z.of_nat i)) / IZR P)%R).
Proof. exact @KernelVar2h.kernel_var2h_missing. Qed.
Print Assumptions C14_kernel_var2h_missing.

(* non-vacuity: the series above executed on the translated kernel: 3, 3, missing, last entry untouched *)
Theorem C14_kernel_var2h_example :
  KernelVar2h.run_var2h 5 1800 0 0 432000 3600 Var2hProofs.w_sec Var2hProofs.w_vals
         Var2hProofs.w_hinit =
       Ok
         (RI 0,
          [VArrI Var2hProofs.w_sec; VArrF Var2hProofs.w_vals;
           VArrF [Some 3%R; Some 3%R; None; None]]).
Proof. exact @KernelVar2h.kernel_var2h_example. Qed.
Print Assumptions C14_kernel_var2h_example.
