(* stub - replaced below *)
From Coq Require Import ZArith Bool List Reals.
From Hy Require Import Base.Num Model.Var2h.
Example C14_stub : True. Proof. exact I. Qed.
Print Assumptions C14_stub.
