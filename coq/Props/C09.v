(* C09 - CSV files with comment headers round-trip through write_csv / read_csv.
   Statements only; proofs are `exact <lemma of Proofs/Csv*Proofs.v>`.
   What is stated here is about the model Model/CsvHeader.v of io/csv.py (header
   writer, header parser, file-name resolution); the CSV body written and parsed
   by pandas is not modelled: that half of the property is tested, not proved. *)
From Coq Require Import ZArith NArith Bool List String Ascii DecimalString.
From Hy Require Import Gen.ConstsC09 Model.CsvHeader
  Proofs.CsvHeaderProofs Proofs.CsvNamesProofs Proofs.CsvFileProofs Proofs.CsvPathProofs.
Import ListNotations.
Open Scope Z_scope.
Open Scope string_scope.

(* ================================================================== *)
(* 1. the comment dictionary                                           *)

(* okkey k : k is not empty, has at most 25 characters, none of them a blank, an
             upper-case letter or a colon, does not start with a dashed rule, does
             not start with "comment_" and is not a key the header records itself;
   okval v : v is a single line, not empty, without blank at either end
             (colons, hashes, runs of dashes allowed).
   For every dictionary with distinct such keys, every frame size and whatever
   the generated lines say (time stamp, author, paths, versions), the
   dictionary parsed from the stripped header lines returns every comment
   unchanged, and the recorded row and column counts. *)
Theorem C09_comments_roundtrip : forall nrow ncol (d : dict) time author e,
  NoDup (map fst d) -> Forall okpair d -> env_ok e ->
  let c := header2comment (map strip_hash (csvhead nrow ncol (CDict d) (gen_lines time author e))) in
  lookup "nrow" c = Some (dec_N nrow) /\ lookup "ncol" c = Some (dec_N ncol) /\
  forall k v, In (k, v) d -> lookup k c = Some v.
Proof. exact comments_roundtrip. Qed.
Print Assumptions C09_comments_roundtrip.

(* non-vacuity: a dictionary with a colon, a hash and ten dashes in its values *)
Example C09_comments_example :
  NoDup (map fst example_dict) /\ Forall okpair example_dict /\
  example_dict = [("k1", "v: 1 # x"); ("k2", "---------- x");
                  ("site_id_01", "410734: Queanbeyan # gauge -- 2")] /\
  env_ok (NoSys "script.py") /\
  env_ok (WithSys {| s_source := "/home/u/script.py"; s_workdir := "/home/u"; s_osname := "posix";
                     s_python := "3.12.1 (main) [GCC 12.2.0]"; s_pandas := "3.0.5"; s_numpy := "2.5.3";
                     s_distutils := None |}).
Proof. destruct example_dict_ok. repeat split; auto. Qed.

(* the same with ANY lines after the caller's comments, provided none of them
   assigns one of the keys concerned *)
Theorem C09_comments_roundtrip_any_generated_lines : forall nrow ncol (d : dict) (gen : list string),
  NoDup (map fst d) -> Forall okpair d ->
  (forall k, In k ("nrow" :: "ncol" :: map fst d) -> untouched is_rule k (map strip_hash gen)) ->
  let c := header2comment (map strip_hash (csvhead nrow ncol (CDict d) gen)) in
  lookup "nrow" c = Some (dec_N nrow) /\ lookup "ncol" c = Some (dec_N ncol) /\
  forall k v, In (k, v) d -> lookup k c = Some v.
Proof. exact comments_roundtrip_gen. Qed.
Print Assumptions C09_comments_roundtrip_any_generated_lines.

Example C09_any_generated_lines_example :
  forall k, In k ("nrow" :: "ncol" :: map fst example_dict) ->
  untouched is_rule k (map strip_hash ["# made by hand"; "# project : x"; "#"]).
Proof.
  intros k Hk l i k' v' i' Hin Hp Heq. subst k'. simpl in Hin.
  destruct Hin as [<- | [<- | [<- | []]]]; vm_compute in Hp; inversion Hp; subst;
    simpl in Hk; intuition discriminate.
Qed.

(* the keys the property names (lower-case letters, digits, underscore; at most
   25 characters; not reserved) are admissible keys *)
Theorem C09_plain_keys_admissible : forall k,
  k <> "" -> sforall plain_keychar k = true -> (String.length k <= 25)%nat ->
  ~ In k reserved_keys -> prefix "comment_" k = false -> okkey k = true.
Proof. exact plain_key_okkey. Qed.
Print Assumptions C09_plain_keys_admissible.

Example C09_plain_key_example :
  "station_name_0123456789_a" <> "" /\ sforall plain_keychar "station_name_0123456789_a" = true /\
  String.length "station_name_0123456789_a" = 25%nat /\
  ~ In "station_name_0123456789_a" reserved_keys /\ prefix "comment_" "station_name_0123456789_a" = false.
Proof. repeat split; try discriminate; try reflexivity. simpl. intuition discriminate. Qed.

(* a comment given as one string is stored under the key "comment" and returned *)
Theorem C09_string_comment_roundtrip : forall nrow ncol s time author e,
  okval s = true -> env_ok e ->
  let c := header2comment (map strip_hash (csvhead nrow ncol (CStr s) (gen_lines time author e))) in
  lookup "nrow" c = Some (dec_N nrow) /\ lookup "ncol" c = Some (dec_N ncol) /\
  lookup "comment" c = Some s.
Proof. exact string_comment_roundtrip. Qed.
Print Assumptions C09_string_comment_roundtrip.

Example C09_string_comment_example : okval "Random data: run #3 -- ok" = true.
Proof. reflexivity. Qed.

(* the recorded counts are the decimal numerals of the frame's shape *)
Theorem C09_recorded_counts_parse_back : forall n,
  option_map N.of_uint (NilZero.uint_of_string (dec_N n)) = Some n.
Proof. exact dec_N_parses. Qed.
Print Assumptions C09_recorded_counts_parse_back.

(* the comment_NN keys given to colon-less lines and the keys of the generated
   lines are the only other keys: the generated lines never assign a caller's key *)
Theorem C09_generated_lines_keys : forall time author e l i k v i',
  env_ok e -> In l (map strip_hash (gen_lines time author e)) ->
  parse_line is_rule i l = (Some (k, v), i') ->
  In k generated_keys \/ prefix "comment_" k = true.
Proof. exact gen_lines_keys. Qed.
Print Assumptions C09_generated_lines_keys.

(* through the TEXT of the file: the header lines joined with newlines, followed
   by the column line and any body, are split by the reader into the same lines;
   hence the dictionary read_csv returns, and the column names come from the
   column line alone *)
Theorem C09_file_comments_roundtrip : forall nrow ncol (d : dict) time author e colline body,
  NoDup (map fst d) -> Forall okpair d -> env_ok e ->
  Forall (fun s => no_nl s = true) (env_strings time author e) ->
  no_nl colline = true -> starts_hash colline = false ->
  let txt := head_text (csvhead nrow ncol (CDict d) (gen_lines time author e))
             ++ colline ++ String NL body in
  lookup "nrow" (read_comment txt) = Some (dec_N nrow) /\
  lookup "ncol" (read_comment txt) = Some (dec_N ncol) /\
  (forall k v, In (k, v) d -> lookup k (read_comment txt) = Some v) /\
  read_colnames txt = colnames colline.
Proof. exact file_comments_roundtrip. Qed.
Print Assumptions C09_file_comments_roundtrip.

Example C09_file_example :
  Forall (fun s => no_nl s = true) (env_strings "2026-01-01 10:00:00" "J. Doe: hydrologist" (NoSys "script.py"))
  /\ no_nl "a,b c,d-e_f" = true /\ starts_hash "a,b c,d-e_f" = false.
Proof. repeat constructor. Qed.

(* FALSE of the pinned code (a line was skipped when it CONTAINED ten dashes);
   repaired by the fix: commit recorded in known_findings.d/C09.json *)
Theorem C09_pinned_parser_drops_dashed_values_refuted :
  lookup "k2" (header2comment_pinned (map strip_hash
     (csvhead 2 3 (CDict example_dict) (gen_lines "2026-01-01 00:00:00" "me" (NoSys "s.py"))))) = None
  /\
  lookup "k2" (header2comment (map strip_hash
     (csvhead 2 3 (CDict example_dict) (gen_lines "2026-01-01 00:00:00" "me" (NoSys "s.py")))))
    = Some "---------- x".
Proof. exact dashes_pinned_refuted. Qed.
Print Assumptions C09_pinned_parser_drops_dashed_values_refuted.

(* ================================================================== *)
(* 2. file names                                                       *)

(* compress=True, ANY non-empty name (.csv, .zip, no extension, any other
   extension): read_csv under the same name opens the zip file that was written
   and finds the member.  The only files of the directory that matter are the
   ones read_csv would try first: the name itself and <stem>.<ext> for the
   extensions _check_name tries before "zip" (at present: <stem>.gz). *)
Theorem C09_names_roundtrip_compress : forall (fs : fsys) name tag,
  name <> "" ->
  (suffix name <> ".zip" ->
     exists_in fs name = false /\
     Forall (fun e => exists_in fs (stem name ++ "." ++ e) = false) (before_zip CHECK_EXTENSIONS)) ->
  read_file (write_file Compress name tag fs) name = ROk tag.
Proof. exact compress_roundtrip. Qed.
Print Assumptions C09_names_roundtrip_compress.

Example C09_names_compress_example :
  let fs := [("other.csv", KText 1); ("t.csv.gz", KGz 2)] in
  (suffix "t" <> ".zip" ->
     exists_in fs "t" = false /\
     Forall (fun e => exists_in fs (stem "t" ++ "." ++ e) = false) (before_zip CHECK_EXTENSIONS)) /\
  read_file (write_file Compress "t" 7 fs) "t" = ROk 7 /\
  read_file (write_file Compress "t.zip" 7 fs) "t.zip" = ROk 7 /\
  read_file (write_file Compress "t.dat" 7 fs) "t.dat" = ROk 7 /\
  write_file Compress "t.dat" 7 [] = [("t.zip", KZip [("t.csv", 7)])].
Proof. repeat split; try reflexivity. repeat constructor. Qed.

Theorem C09_names_roundtrip_compress_fresh_directory : forall name tag,
  name <> "" -> read_file (write_file Compress name tag []) name = ROk tag.
Proof. exact compress_roundtrip_fresh. Qed.
Print Assumptions C09_names_roundtrip_compress_fresh_directory.

Theorem C09_compress_creates : forall fs name tag,
  lookup (write_container Compress name) (write_file Compress name tag fs)
    = Some (KZip [(stem name ++ ".csv", tag)]) /\
  (suffix name = ".zip" -> write_container Compress name = name) /\
  (suffix name <> ".zip" -> write_container Compress name = stem name ++ ".zip").
Proof. exact compress_creates. Qed.
Print Assumptions C09_compress_creates.

(* plain text file: any name that does not announce a compressed file, whatever
   else the directory holds *)
Theorem C09_names_roundtrip_plain : forall (fs : fsys) name tag,
  suffix name <> ".gz" -> suffix name <> ".zip" ->
  read_file (write_file Plain name tag fs) name = ROk tag.
Proof. exact plain_roundtrip. Qed.
Print Assumptions C09_names_roundtrip_plain.

Example C09_names_plain_example :
  suffix "data.csv" <> ".gz" /\ suffix "data.csv" <> ".zip" /\ suffix "data" = "" /\
  suffix "a.b.txt" = ".txt" /\ stem "a.b.txt" = "a.b" /\ suffix ".hidden" = "" /\
  read_file (write_file Plain "t.zip" 7 []) "t.zip" = RBadFile.
Proof. repeat split; try discriminate; reflexivity. Qed.

(* member of a caller-supplied archive (any path, sub-folders included) *)
Theorem C09_names_roundtrip_archive : forall arc path tag arc',
  write_archive path tag arc = Some arc' -> read_archive arc' path = ROk tag.
Proof. exact archive_roundtrip. Qed.
Print Assumptions C09_names_roundtrip_archive.

Example C09_names_archive_example :
  write_archive "folder_01/test_1.csv" 7 [("folder_00/test_0.csv", 1)]
    = Some [("folder_00/test_0.csv", 1); ("folder_01/test_1.csv", 7)].
Proof. reflexivity. Qed.

Theorem C09_archive_refuses_existing_member : forall arc path tag,
  write_archive path tag arc = None <-> In (posix_norm path) (map fst arc).
Proof. exact archive_refuses_existing. Qed.
Print Assumptions C09_archive_refuses_existing_member.

Theorem C09_archive_keeps_members : forall arc path tag arc' p t,
  write_archive path tag arc = Some arc' -> lookup (posix_norm p) arc = Some t ->
  read_archive arc' p = ROk t.
Proof. exact archive_keeps_members. Qed.
Print Assumptions C09_archive_keeps_members.

(* the member name is a fixed point of the path normalisation: the stored name
   designates the member too *)
Theorem C09_member_path_normalisation_idempotent : forall s, posix_norm (posix_norm s) = posix_norm s.
Proof. exact posix_norm_idempotent. Qed.
Print Assumptions C09_member_path_normalisation_idempotent.

Theorem C09_names_roundtrip_archive_normalised : forall arc path tag arc',
  write_archive path tag arc = Some arc' -> read_archive arc' (posix_norm path) = ROk tag.
Proof. exact archive_roundtrip_normalised. Qed.
Print Assumptions C09_names_roundtrip_archive_normalised.

Example C09_posix_norm_example :
  posix_norm "./a//b/./x.csv" = "a/b/x.csv" /\ posix_norm "//srv/x" = "//srv/x" /\
  posix_norm "///srv//x/" = "/srv/x" /\ posix_norm "" = ".".
Proof. repeat split; reflexivity. Qed.

(* FALSE of the pinned code (the member was named after the file): .zip,
   extension-less and non-.csv names could not be read back; only .csv could *)
Theorem C09_pinned_member_name_refuted :
  read_file (write_file_pinned Compress "t.zip" 7 []) "t.zip" = RNoMember /\
  read_file (write_file_pinned Compress "t" 7 []) "t" = RNoMember /\
  read_file (write_file_pinned Compress "t.txt" 7 []) "t.txt" = RNoMember /\
  read_file (write_file_pinned Compress "t.csv" 7 []) "t.csv" = ROk 7.
Proof. exact compress_pinned_refuted. Qed.
Print Assumptions C09_pinned_member_name_refuted.

(* ================================================================== *)
(* 3. column names (the line pandas writes is the comma-joined names when
      no quoting is needed: assumption, validated by the correspondence)   *)

Theorem C09_colnames_roundtrip : forall names,
  names <> [] -> Forall (fun n => colname_ok n = true) names ->
  starts_nonspace (hd "" names) = true -> ends_nonspace (last names "") = true ->
  colnames (join_with "," names) = names.
Proof. exact colnames_roundtrip. Qed.
Print Assumptions C09_colnames_roundtrip.

Example C09_colnames_example :
  Forall (fun n => colname_ok n = true) ["a b"; " mid "; "d-e_f 1"] /\
  starts_nonspace (hd "" ["a b"; " mid "; "d-e_f 1"]) = true /\
  ends_nonspace (last ["a b"; " mid "; "d-e_f 1"] "") = true.
Proof. repeat constructor. Qed.

Theorem C09_file_colnames_roundtrip : forall head names body,
  Forall line_ok head ->
  names <> [] -> Forall (fun n => colname_ok n = true) names ->
  starts_nonspace (hd "" names) = true -> ends_nonspace (last names "") = true ->
  starts_hash (hd "" names) = false ->
  read_colnames (head_text head ++ join_with "," names ++ String NL body) = names.
Proof. exact file_colnames_roundtrip. Qed.
Print Assumptions C09_file_colnames_roundtrip.

(* KNOWN FINDING (not repaired): without the two hypotheses on blanks the
   statement is false - the outer blanks of the first and last names are lost *)
Theorem C09_colnames_outer_blanks_refuted :
  colnames (join_with "," [" a"; "b "]) = ["a"; "b"] /\
  Forall (fun n => colname_ok n = true) [" a"; "b "].
Proof. exact colnames_blank_refuted. Qed.
Print Assumptions C09_colnames_outer_blanks_refuted.
