(* C17 - AR simulation and residual computation are exact inverses.
   Statements only; every proof is `exact <lemma of Proofs/ArmodelProofs.v>`. *)
From Coq Require Import ZArith Bool List Reals.
From Hy Require Import Base.Num Gen.Consts Model.Armodel Proofs.ArmodelProofs.
Import ListNotations.
Open Scope R_scope.

(* the simulation kernel computes y[t]-m = sum_k phi[k]*(y[t-1-k]-m) + e[t],
   values before the start being ini-m; every order 1..MAX, every length *)
Theorem C17_sim_is_recursion : forall m ini params innov,
  ar_params_ok RR m ini params = true ->
  armodel_sim RR m ini params innov =
  ArOk (map (fun z => z + m) (ar_rec params (ini - m) [] innov)).
Proof. exact sim_is_recursion. Qed.
Print Assumptions C17_sim_is_recursion.

Theorem C17_residual_of_sim : forall m ini params e,
  ar_params_ok RR m ini params = true ->
  exists y, armodel_sim RR m ini params e = ArOk y /\
            armodel_residual RR m ini params y = ArOk e.
Proof. exact residual_of_sim. Qed.
Print Assumptions C17_residual_of_sim.

Theorem C17_sim_of_residual : forall m ini params y,
  ar_params_ok RR m ini params = true ->
  exists e, armodel_residual RR m ini params y = ArOk e /\
            armodel_sim RR m ini params e = ArOk y.
Proof. exact sim_of_residual. Qed.
Print Assumptions C17_sim_of_residual.

(* missing innovations act as zero innovations: for EVERY arithmetic instance
   whose zero is not NaN (binary64 included) *)
Theorem C17_missing_innov_is_zero : forall {T} (O : NumOps T),
  nisnan O (n0 O) = false ->
  forall m ini params innov,
  armodel_sim O m ini params innov =
  armodel_sim O m ini params (map (zero_fill O) innov).
Proof. exact @sim_missing_innov_is_zero. Qed.
Print Assumptions C17_missing_innov_is_zero.

(* with real numbers + an explicit missing value: the output is never missing *)
Theorem C17_sim_with_missing : forall m params prev innov,
  sim_loop RN (Some m) (somes params) (somes prev) innov =
  somes (sim_loop RR m params prev (map fill0 innov)).
Proof. exact sim_RN. Qed.
Print Assumptions C17_sim_with_missing.

(* a missing input gives a zero residual *)
Theorem C17_missing_input_zero_residual : forall m params prev,
  res_step RN (Some m) (somes params) (somes prev) None =
  (somes (dot params prev :: removelast prev), Some 0).
Proof. exact res_step_missing. Qed.
Print Assumptions C17_missing_input_zero_residual.

(* rejections (any arithmetic instance) *)
Theorem C17_reject_order_zero : forall {T} (O : NumOps T) m ini innov,
  armodel_sim O m ini [] innov = ArErr /\ armodel_residual O m ini [] innov = ArErr.
Proof. exact @reject_order_zero. Qed.
Print Assumptions C17_reject_order_zero.

Theorem C17_reject_order_too_large : forall {T} (O : NumOps T) m ini params series,
  (ARMODEL_NPARAMSMAX < Z.of_nat (length params))%Z ->
  armodel_sim O m ini params series = ArErr /\
  armodel_residual O m ini params series = ArErr.
Proof. exact @reject_order_too_large. Qed.
Print Assumptions C17_reject_order_too_large.

Theorem C17_reject_nan_param : forall {T} (O : NumOps T) m ini params series,
  existsb (nisnan O) params = true ->
  armodel_sim O m ini params series = ArErr /\
  armodel_residual O m ini params series = ArErr.
Proof. exact @reject_nan_param. Qed.
Print Assumptions C17_reject_nan_param.

Theorem C17_reject_nan_mean_or_ini : forall {T} (O : NumOps T) m ini params series,
  nisnan O m = true \/ nisnan O ini = true ->
  armodel_sim O m ini params series = ArErr /\
  armodel_residual O m ini params series = ArErr.
Proof. exact @reject_nan_mean_or_ini. Qed.
Print Assumptions C17_reject_nan_mean_or_ini.

(* every accepted order fits the kernels' stack buffers (sizes from the source) *)
Theorem C17_order_fits_buffers : forall {T} (O : NumOps T) m ini params,
  ar_params_ok O m ini params = true ->
  Forall (fun b => (Z.of_nat (length params) <= b)%Z) ARMODEL_BUFSIZES.
Proof. exact @order_fits_buffers. Qed.
Print Assumptions C17_order_fits_buffers.

(* the hypothesis is satisfiable *)
Example C17_nonvacuous : ar_params_ok RR 1 3 [1/2; -1/4] = true.
Proof. exact params_ok_example. Qed.
Print Assumptions C17_nonvacuous.
