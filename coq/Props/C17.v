(* C17 - AR simulation and residual computation are exact inverses.
   Statements only; every proof is `exact <lemma of Proofs/ArmodelProofs.v>`. *)
From Coq Require Import ZArith Bool List Reals.
From Hy Require Import Base.Num Base.MiniC Gen.KernelsAst Gen.Consts Model.Armodel Proofs.ArmodelProofs
  Proofs.RefineArmodel Proofs.KernelArmodel.
Import ListNotations.
Open Scope R_scope.

(* the simulation kernel computes y[t]-m = sum_k phi[k]*(y[t-1-k]-m) + e[t],
   values before the start being ini-m; every order 1..MAX, every length *)
Theorem C17_sim_is_recursion : forall m ini params innov,
  ar_params_ok RR m ini params = true ->
  armodel_sim RR m ini params innov =
  ArOk (map (fun z => z + m) (ar_rec params (ini - m) [] innov)).
Proof. exact sim_is_recursion. Qed.
Print Assumptions C17_sim_is_recursion.

Theorem C17_residual_of_sim : forall m ini params e,
  ar_params_ok RR m ini params = true ->
  exists y, armodel_sim RR m ini params e = ArOk y /\
            armodel_residual RR m ini params y = ArOk e.
Proof. exact residual_of_sim. Qed.
Print Assumptions C17_residual_of_sim.

Theorem C17_sim_of_residual : forall m ini params y,
  ar_params_ok RR m ini params = true ->
  exists e, armodel_residual RR m ini params y = ArOk e /\
            armodel_sim RR m ini params e = ArOk y.
Proof. exact sim_of_residual. Qed.
Print Assumptions C17_sim_of_residual.

(* missing innovations act as zero innovations: for EVERY arithmetic instance
   whose zero is not NaN (binary64 included) *)
Theorem C17_missing_innov_is_zero : forall {T} (O : NumOps T),
  nisnan O (n0 O) = false ->
  forall m ini params innov,
  armodel_sim O m ini params innov =
  armodel_sim O m ini params (map (zero_fill O) innov).
Proof. exact @sim_missing_innov_is_zero. Qed.
Print Assumptions C17_missing_innov_is_zero.

(* with real numbers + an explicit missing value: the output is never missing *)
Theorem C17_sim_with_missing : forall m params prev innov,
  sim_loop RN (Some m) (somes params) (somes prev) innov =
  somes (sim_loop RR m params prev (map fill0 innov)).
Proof. exact sim_RN. Qed.
Print Assumptions C17_sim_with_missing.

(* a missing input gives a zero residual *)
Theorem C17_missing_input_zero_residual : forall m params prev,
  res_step RN (Some m) (somes params) (somes prev) None =
  (somes (dot params prev :: removelast prev), Some 0).
Proof. exact res_step_missing. Qed.
Print Assumptions C17_missing_input_zero_residual.

(* rejections (any arithmetic instance) *)
Theorem C17_reject_order_zero : forall {T} (O : NumOps T) m ini innov,
  armodel_sim O m ini [] innov = ArErr /\ armodel_residual O m ini [] innov = ArErr.
Proof. exact @reject_order_zero. Qed.
Print Assumptions C17_reject_order_zero.

Theorem C17_reject_order_too_large : forall {T} (O : NumOps T) m ini params series,
  (ARMODEL_NPARAMSMAX < Z.of_nat (length params))%Z ->
  armodel_sim O m ini params series = ArErr /\
  armodel_residual O m ini params series = ArErr.
Proof. exact @reject_order_too_large. Qed.
Print Assumptions C17_reject_order_too_large.

Theorem C17_reject_nan_param : forall {T} (O : NumOps T) m ini params series,
  existsb (nisnan O) params = true ->
  armodel_sim O m ini params series = ArErr /\
  armodel_residual O m ini params series = ArErr.
Proof. exact @reject_nan_param. Qed.
Print Assumptions C17_reject_nan_param.

Theorem C17_reject_nan_mean_or_ini : forall {T} (O : NumOps T) m ini params series,
  nisnan O m = true \/ nisnan O ini = true ->
  armodel_sim O m ini params series = ArErr /\
  armodel_residual O m ini params series = ArErr.
Proof. exact @reject_nan_mean_or_ini. Qed.
Print Assumptions C17_reject_nan_mean_or_ini.

(* every accepted order fits the kernels' stack buffers (sizes from the source) *)
Theorem C17_order_fits_buffers : forall {T} (O : NumOps T) m ini params,
  ar_params_ok O m ini params = true ->
  Forall (fun b => (Z.of_nat (length params) <= b)%Z) ARMODEL_BUFSIZES.
Proof. exact @order_fits_buffers. Qed.
Print Assumptions C17_order_fits_buffers.

(* the hypothesis is satisfiable *)
Example C17_nonvacuous : ar_params_ok RR 1 3 [1/2; -1/4] = true.
Proof. exact params_ok_example. Qed.
Print Assumptions C17_nonvacuous.

(* ================================================================== *)
(* The same property on the REGENERATED program: [program] is the MiniC  *)
(* translation of src/hydrodiy/stat/c_armodels.c produced from the tree  *)
(* under test on every run (Gen/KernelsAst.v); [exec_fun] its           *)
(* interpreter (Base/MiniC.v).  An edit of the C text changes [program]  *)
(* and these proofs must still go through.                               *)
(* ================================================================== *)

From Coq Require Import String PrimFloat.
Open Scope string_scope.
Open Scope list_scope.
Open Scope R_scope.

(* refinement, any arithmetic instance (binary64 included): the translated
   kernels return exactly what the model returns - outputs on success, a
   positive code and untouched arrays on rejection - for every order, every
   length, every content (NaN included) and every initial buffer content *)
Theorem C17_kernel_sim_refines_model : forall {T} (N : NumOps T) (X : NumLit T)
    mean ini params innov junk n,
  nofZ N 0 = n0 N ->
  List.length junk = List.length innov ->
  (Nat.max (List.length innov) 10 < n)%nat ->
  match armodel_sim N mean ini params innov with
  | ArOk out =>
      exec_fun N X program (S n) "c_armodel_sim"
        [AVI (zlen innov); AVI (zlen params); AVF mean; AVF ini;
         AVArrF params; AVArrF innov; AVArrF junk]
      = Ok (RI 0%Z, [VArrF params; VArrF innov; VArrF out])
  | ArErr =>
      exists code, (0 < code)%Z /\
      exec_fun N X program (S n) "c_armodel_sim"
        [AVI (zlen innov); AVI (zlen params); AVF mean; AVF ini;
         AVArrF params; AVArrF innov; AVArrF junk]
      = Ok (RI code, [VArrF params; VArrF innov; VArrF junk])
  end.
Proof. exact @refine_armodel_sim. Qed.
Print Assumptions C17_kernel_sim_refines_model.

Theorem C17_kernel_residual_refines_model : forall {T} (N : NumOps T) (X : NumLit T)
    mean ini params inputs junk n,
  nofZ N 0 = n0 N ->
  List.length junk = List.length inputs ->
  (Nat.max (List.length inputs) 10 < n)%nat ->
  match armodel_residual N mean ini params inputs with
  | ArOk out =>
      exec_fun N X program (S n) "c_armodel_residual"
        [AVI (zlen inputs); AVI (zlen params); AVF mean; AVF ini;
         AVArrF params; AVArrF inputs; AVArrF junk]
      = Ok (RI 0%Z, [VArrF params; VArrF inputs; VArrF out])
  | ArErr =>
      exists code, (0 < code)%Z /\
      exec_fun N X program (S n) "c_armodel_residual"
        [AVI (zlen inputs); AVI (zlen params); AVF mean; AVF ini;
         AVArrF params; AVArrF inputs; AVArrF junk]
      = Ok (RI code, [VArrF params; VArrF inputs; VArrF junk])
  end.
Proof. exact @refine_armodel_residual. Qed.
Print Assumptions C17_kernel_residual_refines_model.

(* the arithmetic hypothesis holds in the three instances *)
Example C17_kernel_hyp_instances :
  nofZ F64 0 = n0 F64 /\ nofZ RR 0 = n0 RR /\ nofZ RN 0 = n0 RN.
Proof. exact (conj nofZ0_F64 (conj nofZ0_RR nofZ0_RN)). Qed.

(* the translated simulation kernel, run on real numbers, IS the recursion *)
Theorem C17_kernel_sim_is_recursion : forall m ini params e buf n,
  ar_params_ok RR m ini params = true ->
  List.length buf = List.length e -> (Nat.max (List.length e) 10 < n)%nat ->
  run_sim n m ini params e buf =
  Ok (RI 0%Z, [VArrF params; VArrF e;
               VArrF (map (fun z => z + m) (ar_rec params (ini - m) [] e))]).
Proof. exact kernel_sim_is_recursion. Qed.
Print Assumptions C17_kernel_sim_is_recursion.

(* residual(sim(e)) = e and sim(residual(y)) = y, executed on the translated kernels *)
Theorem C17_kernel_residual_of_sim : forall m ini params e buf1 buf2 n,
  ar_params_ok RR m ini params = true ->
  List.length buf1 = List.length e -> List.length buf2 = List.length e ->
  (Nat.max (List.length e) 10 < n)%nat ->
  exists y,
    run_sim n m ini params e buf1 = Ok (RI 0%Z, [VArrF params; VArrF e; VArrF y]) /\
    run_res n m ini params y buf2 = Ok (RI 0%Z, [VArrF params; VArrF y; VArrF e]).
Proof. exact kernel_residual_of_sim. Qed.
Print Assumptions C17_kernel_residual_of_sim.

Theorem C17_kernel_sim_of_residual : forall m ini params y buf1 buf2 n,
  ar_params_ok RR m ini params = true ->
  List.length buf1 = List.length y -> List.length buf2 = List.length y ->
  (Nat.max (List.length y) 10 < n)%nat ->
  exists e,
    run_res n m ini params y buf1 = Ok (RI 0%Z, [VArrF params; VArrF y; VArrF e]) /\
    run_sim n m ini params e buf2 = Ok (RI 0%Z, [VArrF params; VArrF e; VArrF y]).
Proof. exact kernel_sim_of_residual. Qed.
Print Assumptions C17_kernel_sim_of_residual.

(* non-vacuity: an order-2 model, three steps, on the translated kernel in binary64 *)
Example C17_kernel_runs :
  exec_fun F64 XF64 program 20 "c_armodel_sim"
    [AVI 3%Z; AVI 2%Z; AVF 1%float; AVF 2%float; AVArrF [0.5%float; 0.25%float];
     AVArrF [1%float; 0%float; (-1)%float]; AVArrF [9%float; 9%float; 9%float]]
  = Ok (RI 0%Z, [VArrF [0.5%float; 0.25%float]; VArrF [1%float; 0%float; (-1)%float];
                 VArrF [2.75%float; 2.125%float; 1%float]]).
Proof. vm_compute. reflexivity. Qed.

(* unsupported orders and NaN parameters are rejected by the translated kernels:
   positive return code, arrays untouched *)
Theorem C17_kernel_rejects : forall {T} (N : NumOps T) (X : NumLit T) m ini params s buf n,
  nofZ N 0 = n0 N ->
  ar_params_ok N m ini params = false ->
  List.length buf = List.length s -> (Nat.max (List.length s) 10 < n)%nat ->
  (exists code, (0 < code)%Z /\
     exec_fun N X program (S n) "c_armodel_sim"
       [AVI (zlen s); AVI (zlen params); AVF m; AVF ini; AVArrF params; AVArrF s; AVArrF buf]
     = Ok (RI code, [VArrF params; VArrF s; VArrF buf])) /\
  (exists code, (0 < code)%Z /\
     exec_fun N X program (S n) "c_armodel_residual"
       [AVI (zlen s); AVI (zlen params); AVF m; AVF ini; AVArrF params; AVArrF s; AVArrF buf]
     = Ok (RI code, [VArrF params; VArrF s; VArrF buf])).
Proof. exact @kernel_rejects. Qed.
Print Assumptions C17_kernel_rejects.
