(* C08 - placeholder while the correspondence is being validated *)
From Coq Require Import ZArith Bool List Reals.
From Hy Require Import Base.Num Gen.ConstsC08 Model.Dutils.
Import ListNotations.
